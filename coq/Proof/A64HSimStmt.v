(* C07, forward simulation for HEAP statements on AArch64, part 2: the statements that do not touch the heap
   (Literal, Op, IfC, Exit, PrintI64, Call) under the relation `hrel` of Proof/A64HSimRel.v.  The proofs are those of
   Proof/A64SimStmt.v (the selection lemmas of Proof/A64Sel.v, the print theorem of Proof/A64Print.v, nothing
   re-proved) with the `rel_*` lemmas replaced by the `hrel_*` lemmas; the heap and the allocator registers X0 = HEAP,
   X1 = FREE are untouched, every live location of every other variable is preserved.  Port of Proof/X86HSimStmt.v.

   PrintI64: on AArch64 HEAP = X0 and FREE = X1 are caller-saved registers that the called print routine clobbers;
   `a_print` saves and restores them (`caller_save_registers_info` always lists registers 0 and 1) and
   `a64_print_ok` already concludes `rget s' HEAP = rget s HEAP`, `rget s' FREE = rget s FREE`, `heap s' = heap s`:
   nothing had to be strengthened. *)
From Coq Require Import List ZArith NArith String Bool Lia FMapPositive.
From SCC Require Import Base.Sexp Lang.AxSyn Sem.AxSem Sem.AxHeap Model.ParMoves Model.Backend Model.A64 Sem.A64Sem
     Model.Linearize Model.LinCheck Generated.Constants Proof.LinBasics
     Proof.A64State Proof.A64ImmHw Proof.A64Imm Proof.A64Sel Proof.A64PM Proof.A64Exec
     Proof.A64MemSubst Proof.SubstGraph Proof.SubstBackends Proof.A64Subst Proof.A64Wf Proof.A64Print
     Proof.A64SimRel Proof.A64SimStmt Proof.A64Mem Proof.HRep Proof.A64HSimRel.
From SCC Require Model.Heap.
Import ListNotations.
Open Scope Z_scope.
Open Scope list_scope.

Section HSim.
Variable im : image.
Variable types : list tydecl.
Variable CLO : Z -> ident -> list clause -> ctx -> Prop.
Local Notation hrel := (hrel types CLO).

(* ---------- Literal ---------- *)
Theorem hsim_literal c he hs s sp n v tv :
  hrel c he hs s sp -> NoDup (ids (c ++ [mkb v Ext I64])) -> in64 n ->
  avt (c ++ [mkb v Ext I64]) (idn v) = Ok tv ->
  exists s', run_straight im (a_load_immediate tv n) s = MOk s' /\
             hrel (c ++ [mkb v Ext I64]) (he ++ [(v, VInt n, 0)]) hs s' sp /\ frame_eq s s' sp.
Proof.
  intros R ND IN TV. apply (vt_fresh c v tv ND) in TV.
  destruct (atpos_ok _ _ _ TV) as ((O & _) & _).
  destruct (a64_load_immediate_ok im s sp tv n (hr_frame R) O IN) as (s' & E & V & P).
  exists s'. split; [exact E|]. split; [eapply hrel_push; eauto using preserved_weaken|].
  eapply run_straight_local; eauto using hr_frame. apply local_load_immediate, loc_ok_lok, O.
Qed.

(* ---------- Op ---------- *)
Lemma hop_temps c he hs s sp a b v x y tv ta tb :
  hrel c he hs s sp -> NoDup (ids (c ++ [mkb v Ext I64])) ->
  lookup_int (erase_env he) a = Some x -> lookup_int (erase_env he) b = Some y ->
  avt (c ++ [mkb v Ext I64]) (idn v) = Ok tv ->
  avt (c ++ [mkb v Ext I64]) (idn a) = Ok ta -> avt (c ++ [mkb v Ext I64]) (idn b) = Ok tb ->
  atpos Snd (List.length c) = Ok tv /\ rem_operand_ok tv /\ rem_operand_ok ta /\ rem_operand_ok tb /\
  ta <> AR TEMPORARY_TEMP /\ lget s sp ta = Some x /\ lget s sp tb = Some y /\ in64 x /\ in64 y.
Proof.
  intros R ND LA LB TV TA TB. apply (vt_fresh c v tv ND) in TV.
  destruct (hrel_lookup types CLO c he hs s sp a x R LA) as (i & bi & ti & Hi & Ei & Ti & Vi & Ii).
  destruct (hrel_lookup types CLO c he hs s sp b y R LB) as (j & bj & tj & Hj & Ej & Tj & Vj & Ij).
  rewrite <- Ei, (vt_of_nth c _ i bi ND Hi), Ti in TA. inversion TA; subst ti.
  rewrite <- Ej, (vt_of_nth c _ j bj ND Hj), Tj in TB. inversion TB; subst tj.
  destruct (atpos_ok _ _ _ TV) as (O0 & _). destruct (atpos_ok _ _ _ Ti) as (O1 & _). destruct (atpos_ok _ _ _ Tj) as (O2 & _).
  repeat (split; [assumption|]). split; [|auto].
  destruct (atpos_shape _ _ _ Ti) as [(_ & ->)|(_ & q & -> & _)]; [|discriminate].
  change TEMPORARY_TEMP with (X 10). cbn [tnum_n]. intros E. assert (Q : (2 * N.of_nat i + 1 + 4 = 10)%N) by congruence. lia.
Qed.

Theorem hsim_op c he hs s sp a o b v x y z tv ta tb :
  hrel c he hs s sp -> NoDup (ids (c ++ [mkb v Ext I64])) ->
  lookup_int (erase_env he) a = Some x -> lookup_int (erase_env he) b = Some y -> eval_op o x y = OpVal z ->
  avt (c ++ [mkb v Ext I64]) (idn v) = Ok tv ->
  avt (c ++ [mkb v Ext I64]) (idn a) = Ok ta -> avt (c ++ [mkb v Ext I64]) (idn b) = Ok tb ->
  exists s', run_straight im (a_arith o tv ta tb) s = MOk s' /\
             hrel (c ++ [mkb v Ext I64]) (he ++ [(v, VInt z, 0)]) hs s' sp /\ frame_eq s s' sp.
Proof.
  intros R ND LA LB EV TV TA TB.
  destruct (hop_temps c he hs s sp a b v x y tv ta tb R ND LA LB TV TA TB) as (TV' & O0 & O1 & O2 & _ & VA & VB & IA & IB).
  destruct (a64_arith_ok im o s sp tv ta tb x y z (hr_frame R) O0 O1 O2 VA VB IA EV) as (s' & E & V & P).
  exists s'. split; [exact E|]. split; [eapply hrel_push; eauto using in64_eval_op|].
  eapply run_straight_local; eauto using hr_frame. apply local_a_arith, loc_ok_lok, O0.
Qed.

(* the undefined cases of div and rem: the code runs into the SDIV that reports them *)
Theorem hsim_op_undef c he hs s sp a o b v x y w tv ta tb :
  hrel c he hs s sp -> NoDup (ids (c ++ [mkb v Ext I64])) ->
  lookup_int (erase_env he) a = Some x -> lookup_int (erase_env he) b = Some y -> eval_op o x y = OpUndef w ->
  avt (c ++ [mkb v Ext I64]) (idn v) = Ok tv ->
  avt (c ++ [mkb v Ext I64]) (idn a) = Ok ta -> avt (c ++ [mkb v Ext I64]) (idn b) = Ok tb ->
  exists s', exec_undef im (a_arith o tv ta tb) s = Some (w, s') /\ out s' = out s.
Proof.
  intros R ND LA LB EV TV TA TB.
  destruct (hop_temps c he hs s sp a b v x y tv ta tb R ND LA LB TV TA TB) as (TV' & O0 & (O1 & _) & (O2 & _) & NX & VA & VB & IA & IB).
  assert (F : frame_ok s sp) by exact (hr_frame R).
  destruct o; cbn [eval_op a_arith] in *; try discriminate.
  - apply (a_op_undef im r_div s sp tv ta tb x y w); auto. apply r_div_undef. unfold undef_of.
    destruct (y =? 0); [exact EV|]. destruct ((x =? min_int) && (y =? -1)); [exact EV|discriminate].
  - apply (a_op_undef im r_rem s sp tv ta tb x y w); auto. apply r_rem_undef. unfold undef_of.
    destruct (y =? 0); [exact EV|]. destruct ((x =? min_int) && (y =? -1)); [exact EV|discriminate].
Qed.

(* ---------- IfC: the comparison (CMP sets NZCV), then the conditional branch ---------- *)
Lemma flags_preserving_hrel c he hs s s' sp : hrel c he hs s sp -> flags_preserving s s' sp -> hrel c he hs s' sp.
Proof.
  intros R (K & HE & _ & F'). destruct free_operand as (A & B & C & _).
  apply (hrel_keep types CLO c he hs s s' sp R F' HE).
  - apply (K (AR HEAP)); [exact I|discriminate|discriminate].
  - apply (K (AR FREE)); auto.
  - intros k b0 n t _ _ Hk. destruct (atpos_ok _ _ _ Hk) as (((A' & B' & C') & _) & _). now apply K.
Qed.

Theorem hsim_compare2 c he hs s sp a b x y ta tb :
  hrel c he hs s sp -> lookup_int (erase_env he) a = Some x -> lookup_int (erase_env he) b = Some y ->
  avt c (idn a) = Ok ta -> avt c (idn b) = Ok tb ->
  exists s', run_straight im (compare ta tb) s = MOk s' /\ flags s' = Some (cmp_flags x y) /\ in64 x /\ in64 y /\
             hrel c he hs s' sp /\ frame_eq s s' sp.
Proof.
  intros R LA LB TA TB.
  destruct (hrel_lookup types CLO c he hs s sp a x R LA) as (i & bi & ti & Hi & Ei & Ti & Vi & Ii).
  destruct (hrel_lookup types CLO c he hs s sp b y R LB) as (j & bj & tj & Hj & Ej & Tj & Vj & Ij).
  rewrite <- Ei, (vt_of_nth0 c i bi (hr_nodup R) Hi), Ti in TA. inversion TA; subst ti.
  rewrite <- Ej, (vt_of_nth0 c j bj (hr_nodup R) Hj), Tj in TB. inversion TB; subst tj.
  destruct (atpos_ok _ _ _ Ti) as ((O1 & _) & _). destruct (atpos_ok _ _ _ Tj) as ((O2 & _) & _).
  destruct (a64_compare_ok im s sp ta tb x y (hr_frame R) O1 O2 Vi Vj) as (s' & E & FL & FP).
  exists s'. split; [exact E|]. split; [exact FL|]. split; [exact Ii|]. split; [exact Ij|].
  split; [eapply flags_preserving_hrel; eauto|].
  eapply run_straight_local; eauto using hr_frame. apply local_compare.
Qed.
Theorem hsim_compare1 c he hs s sp a x ta :
  hrel c he hs s sp -> lookup_int (erase_env he) a = Some x -> avt c (idn a) = Ok ta ->
  exists s', run_straight im (compare_immediate ta 0) s = MOk s' /\ flags s' = Some (cmp_flags x 0) /\ in64 x /\
             hrel c he hs s' sp /\ frame_eq s s' sp.
Proof.
  intros R LA TA.
  destruct (hrel_lookup types CLO c he hs s sp a x R LA) as (i & bi & ti & Hi & Ei & Ti & Vi & Ii).
  rewrite <- Ei, (vt_of_nth0 c i bi (hr_nodup R) Hi), Ti in TA. inversion TA; subst ti.
  destruct (atpos_ok _ _ _ Ti) as ((O1 & _) & _).
  destruct (a64_compare_zero_ok im s sp ta x (hr_frame R) O1 Vi) as (s' & E & FL & FP).
  exists s'. split; [exact E|]. split; [exact FL|]. split; [exact Ii|].
  split; [eapply flags_preserving_hrel; eauto|].
  eapply run_straight_local; eauto using hr_frame. apply local_compare_immediate.
Qed.

(* the whole conditional inside an image: control reaches the first instruction of the branch the
   AxCut machine takes (the else branch follows the B.cond, the then branch follows the label) *)
Theorem hsim_ifc c he hs s sp so a b x y thenc elsec lc code lc' pc :
  hrel c he hs s sp -> lookup_int (erase_env he) a = Some x ->
  match b with Some b => lookup_int (erase_env he) b | None => Some 0 end = Some y ->
  acs types (IfC so a b thenc elsec) c lc = Ok (code, lc') ->
  code_at im pc code -> labels_at_nh im pc code ->
  exists c1 c2 lc2 c3 s',
    code = c1 ++ c2 ++ [LAB (iflabel lc)] ++ c3 /\
    acs types elsec c (lc + 1)%N = Ok (c2, lc2) /\ acs types thenc c lc2 = Ok (c3, lc') /\
    exec_to im pc s (if eval_cmp so x y then padd pc (List.length c1 + List.length c2 + 1)
                     else padd pc (List.length c1)) s' /\
    hrel c he hs s' sp /\ frame_eq s s' sp.
Proof.
  intros R LA LB CS CA LBL.
  destruct (cs_ifc _ _ _ _ _ _ _ _ _ _ CS) as (ta & c1 & c2 & lc2 & c3 & TA & C1 & EL & TH & ->).
  exists c1, c2, lc2, c3.
  assert (PRE : exists pre s1, c1 = pre ++ [bcc so (iflabel lc)] /\ run_straight im pre s = MOk s1 /\
                               flags s1 = Some (cmp_flags x y) /\ in64 x /\ in64 y /\ hrel c he hs s1 sp /\ frame_eq s s1 sp).
  { destruct b as [b|].
    - destruct C1 as (tb & TB & ->).
      destruct (hsim_compare2 c he hs s sp a b x y ta tb R LA LB TA TB) as (s1 & E & FL & IX & IY & R1 & FE). eauto 10.
    - inversion LB; subst y. destruct (hsim_compare1 c he hs s sp a x ta R LA TA) as (s1 & E & FL & IX & R1 & FE).
      exists (compare_immediate ta 0), s1. repeat (split; [first [reflexivity|assumption|exact in64_0]|]). exact FE. }
  destruct PRE as (pre & s1 & -> & E & FL & IX & IY & R1 & FE).
  pose proof CA as CA'. rewrite <- app_assoc in CA'. apply code_at_app in CA' as [CApre CArest].
  pose proof (run_straight_exec_to im pre pc s s1 CApre E) as X1.
  assert (CJ : PM.find (padd pc (List.length pre)) (code im) = Some (bcc so (iflabel lc))).
  { cbn [app] in CArest. apply code_at_cons in CArest as [C0 _]. exact C0. }
  assert (LL : nth_error ((pre ++ [bcc so (iflabel lc)]) ++ c2 ++ [LAB (iflabel lc)] ++ c3)
                         (List.length (pre ++ [bcc so (iflabel lc)]) + List.length c2) = Some (LAB (iflabel lc))).
  { rewrite nth_error_app2 by lia. rewrite nth_error_app2 by lia.
    replace (_ + _ - _ - _)%nat with O by lia. reflexivity. }
  exists s1. split; [reflexivity|]. split; [exact EL|]. split; [exact TH|]. split; [|split; [exact R1|exact FE]].
  pose proof (a64_bcc_step im so (iflabel lc) s1 x y FL IX IY) as ST.
  rewrite app_length. cbn [List.length].
  destruct (eval_cmp so x y).
  - rewrite (goto_label_at im pc _ _ _ s1 LBL LL eq_refl) in ST.
    eapply exec_to_trans; [exact X1|].
    eapply exec_jump; [exact CJ|exact ST|].
    eapply exec_next; [apply (code_at_nth im pc _ _ _ CA LL)|reflexivity|].
    rewrite <- padd_succ. rewrite app_length. cbn [List.length].
    replace (S (List.length pre + 1 + List.length c2)) with (List.length pre + 1 + List.length c2 + 1)%nat by lia.
    apply exec_refl.
  - eapply exec_to_trans; [exact X1|].
    eapply exec_next; [exact CJ|exact ST|]. rewrite <- padd_succ.
    replace (S (List.length pre)) with (List.length pre + 1)%nat by lia. apply exec_refl.
Qed.

(* ---------- Exit: the result reaches X0, then control goes to `cleanup` ---------- *)
Theorem hsim_exit_mov c he hs s sp v z tv :
  hrel c he hs s sp -> lookup_int (erase_env he) v = Some z -> avt c (idn v) = Ok tv ->
  exists s', run_straight im (a_mov (AR RETURN1) tv) s = MOk s' /\ rget s' RETURN1 = Some z /\
             frame_ok s' sp /\ frame_eq s s' sp.
Proof.
  intros R LV TV.
  destruct (hrel_lookup types CLO c he hs s sp v z R LV) as (i & bi & ti & Hi & Ei & Ti & Vi & Ii).
  rewrite <- Ei, (vt_of_nth0 c i bi (hr_nodup R) Hi), Ti in TV. inversion TV; subst ti.
  destruct (atpos_ok _ _ _ Ti) as ((O1 & _) & _).
  destruct (a64_mov_ok im s sp (AR RETURN1) tv (hr_frame R) return1_operand O1) as (s' & E & V & P).
  exists s'. split; [exact E|]. split; [cbn [lget] in V; congruence|].
  eapply run_straight_local; eauto using hr_frame. apply local_a_mov. reflexivity.
Qed.

(* ---------- PrintI64 ---------- *)
(* in ANY context (integers and heap objects in any positions, in particular a 13th variable in the link
   register): Proof/A64Print.v says that every temporary of every variable, HEAP = X0, FREE = X1 (both saved
   and restored around the call), SP, the heap and the stack at and above SP survive *)
Theorem hsim_print c he hs s sp nl v z tv :
  hrel c he hs s sp -> lookup_int (erase_env he) v = Some z -> avt c (idn v) = Ok tv ->
  exists s', run_straight im (a_print nl tv c) s = MOk s' /\
    hrel c he hs s' sp /\ out s' = (nl, z) :: out s /\ above_eq s s' sp.
Proof.
  intros R LV TV.
  destruct (hrel_lookup types CLO c he hs s sp v z R LV) as (i & bi & ti & Hi & Ei & Ti & Vi & Ii).
  rewrite <- Ei, (vt_of_nth0 c i bi (hr_nodup R) Hi), Ti in TV. inversion TV; subst ti.
  destruct (a64_print_ok im nl tv c s sp z (hr_frame R) (hr_room R)) as (s' & E & O & H & F' & HP & FR & K & AB).
  { eapply a64_print_src_ok_variable; eauto. }
  { exact Vi. }
  exists s'. split; [exact E|]. split; [|split; [exact O|split; [exact H|exact AB]]].
  apply (hrel_keep types CLO c he hs s s' sp R F' H HP FR).
  intros j b n t Hj AL Tj. apply (K j b n t Hj AL Tj).
Qed.
End HSim.

(* ---------- Call: relabelling by a context of the same kinds ---------- *)
Lemma attach_nth : forall (e : env) (ps : list Z) i x v q,
  nth_error (attach e ps) i = Some (x, v, q) -> nth_error e i = Some (x, v) /\ q = nth i ps 0.
Proof.
  induction e as [|xv e IH]; intros ps i x v q H; [destruct i; discriminate|].
  destruct ps as [|p ps]; destruct i as [|i]; cbn [attach nth_error nth] in *.
  - inversion H; subst. auto.
  - destruct (IH [] i x v q H) as [A B]. split; [exact A|]. rewrite B. destruct i; reflexivity.
  - inversion H; subst. auto.
  - exact (IH ps i x v q H).
Qed.
Lemma attach_erase : forall (e : env) ps, erase_env (attach e ps) = e.
Proof.
  induction e as [|xv e IH]; intros ps; [reflexivity|]. destruct ps as [|p ps]; cbn [attach erase_env map fst]; f_equal; apply IH.
Qed.
Lemma ptrs_nth (he : henv) i x v q : nth_error he i = Some (x, v, q) -> nth i (ptrs he) 0 = q.
Proof.
  revert i. induction he as [|en he IH]; intros [|i] H; cbn in *; try discriminate; [inversion H; reflexivity|auto].
Qed.

Lemma nth_error_erase : forall (he : henv) i y v, nth_error (erase_env he) i = Some (y, v) -> exists q, nth_error he i = Some (y, v, q).
Proof.
  induction he as [|[[y0 v0] q0] he IH]; intros [|i] y v H; cbn in *; try discriminate.
  - inversion H; subst. eauto.
  - eauto.
Qed.

Lemma hbind_rel types CLO c he hs st sp (c' : ctx) e' :
  hrel types CLO c he hs st sp -> NoDup (ids c') -> sig_match c c' = true ->
  bind (vars c') (map snd (erase_env he)) = Some e' -> hrel types CLO c' (attach e' (ptrs he)) hs st sp.
Proof.
  intros R ND SM BD. pose proof (hrel_length R) as LE. destruct R as [F Ro Hr Fr HQ Ids ND0 Vals]. split; auto.
  - rewrite attach_erase. unfold env_ids. rewrite <- (map_map fst idn), (bind_ids _ _ _ BD). unfold vars, ids. now rewrite map_map.
  - intros i x v q Hi. destruct (attach_nth _ _ _ _ _ _ Hi) as [He' Eq].
    destruct (bind_nth _ _ _ _ _ _ BD He') as (_ & Hv).
    rewrite nth_error_map in Hv. destruct (nth_error (erase_env he) i) as [[y w]|] eqn:He; [|discriminate]. cbn in Hv. inversion Hv; subst w.
    destruct (nth_error_erase he i y v He) as (q0 & Hh).
    destruct (Vals i y v q0 Hh) as (b & Hb & V). destruct (sig_match_nth c c' i b SM Hb) as (b' & Hb' & K & T).
    exists b'. split; [exact Hb'|]. rewrite Eq, (ptrs_nth he i y v q0 Hh).
    apply (hvrep_kind types CLO st sp i b b' v q0); [congruence|congruence|exact V].
Qed.
