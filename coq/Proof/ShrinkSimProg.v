(* Proof/ShrinkSimProg.v (C04, fragment 2) - from programs to the simulation lemma:
   what wt_ax of the output gives (binders fresh along every path, definitions found by name), the
   shape of shrink_prog's output, and the theorem [shrink_correct_fragment2]. *)
From Coq Require Import List ZArith NArith String Bool Lia.
From SCC Require Import Base.Sexp Lang.SynUtil Lang.CoreSyn Lang.AxSyn Sem.AxSem Sem.FsCheck Model.Shrink
     Proof.ShrinkProof Proof.ShrinkSem Proof.ShrinkRn Proof.ShrinkRel Proof.ShrinkArgs Proof.ShrinkSimBase
     Proof.ShrinkSimA Proof.ShrinkSimB Proof.ShrinkSimData Proof.ShrinkSimC Proof.ShrinkSimLift Proof.ShrinkSimTop.
From SCC Require Sem.CoreSem Sem.AxCheck.
Import ListNotations.
Open Scope list_scope.

(* ---------- wt_ax: binders are fresh along every path ---------- *)
Lemma ax_seq_none' {X} (a b : option X) : match a with None => b | Some e => Some e end = None -> a = None /\ b = None.
Proof. destruct a; [discriminate|auto]. Qed.
Lemma lookup_b_none : forall G x, AxCheck.lookup_b G x = None -> ~ In x (ids G).
Proof.
  induction G as [|b G IH]; intros x H; [intros []|]. simpl in *.
  destruct (N.eqb (idn (bvar b)) x) eqn:E; [discriminate|]. apply N.eqb_neq in E. intros [Hx|Hx]; [contradiction | now apply IH in H].
Qed.
Lemma fresh_for_notin : forall G v, AxCheck.fresh_for G v = None -> negb (memN (idn v) (ids G)) = true.
Proof.
  intros G v H. unfold AxCheck.fresh_for in H. destruct (AxCheck.lookup_b G (idn v)) eqn:E; [discriminate|].
  apply lookup_b_none in E. apply negb_true_iff. now apply memN_false.
Qed.
Lemma fresh_all_list : forall c G, AxCheck.fresh_all G c = None -> fresh_list (ids G) (ids c) = true.
Proof.
  induction c as [|b r IH]; intros G H; [reflexivity|]. simpl in H. apply ax_seq_none' in H as [H1 H2].
  simpl. rewrite (fresh_for_notin _ _ H1). apply (IH (b :: G) H2).
Qed.

Lemma check_pfresh : forall ts ds t G, AxCheck.check_stmt ts ds G t = None -> pfresh (ids G) t = true.
Proof.
  intros ts ds.
  apply (stmt_ind' (fun t => forall G, AxCheck.check_stmt ts ds G t = None -> pfresh (ids G) t = true)); intros; try reflexivity.
  - (* Let *) simpl in H0. destruct (AxCheck.type_of ts _ t) as [[e|] [d|]]; try discriminate.
    destruct (AxCheck.find_xtor d tag); [|discriminate]. apply ax_seq_none' in H0 as [_ H0]. apply ax_seq_none' in H0 as [H1 H2].
    simpl. rewrite (fresh_for_notin _ _ H1). apply (H _ H2).
  - (* Switch *) rewrite pfresh_switch. simpl in H0. destruct (AxCheck.type_of ts _ t) as [[e|] [d|]]; try discriminate.
    apply ax_seq_none' in H0 as [_ H0]. destruct (_ && _); [discriminate|].
    revert H0. generalize (txtors d). unfold pfresh_cls.
    induction H as [|[[x c] b] r Hb _ IH]; intros xs H0; [reflexivity|]. destruct xs as [|sg xr]; [discriminate|].
    apply ax_seq_none' in H0 as [_ H0]. apply ax_seq_none' in H0 as [_ H0]. apply ax_seq_none' in H0 as [H1 H0]. apply ax_seq_none' in H0 as [H2 H3].
    simpl in *. rewrite (fresh_all_list _ _ H1), (IH _ H3), andb_true_r, andb_true_l.
    rewrite <- (Hb _ H2). apply pfresh_ext. apply memN_ext_of_in. intros i. unfold ids. rewrite map_app, in_rev_append, in_app_iff. tauto.
  - (* Create *) destruct env as [ce|]; [reflexivity|]. rewrite pfresh_create. simpl in H1.
    destruct (AxCheck.type_of ts _ t) as [[e|] [d|]]; try discriminate.
    apply ax_seq_none' in H1 as [H1 H2]. apply ax_seq_none' in H2 as [H2 H3].
    rewrite (fresh_for_notin _ _ H2). pose proof (H0 _ H3) as Hn. change (ids (mkb v Cns t :: G)) with (idn v :: ids G) in Hn. rewrite Hn, !andb_true_r.
    destruct (_ && _); [discriminate|].
    revert H1. generalize (txtors d). unfold pfresh_cls.
    induction H as [|[[x c] b] r Hb _ IH]; intros xs H1; [reflexivity|]. destruct xs as [|sg xr]; [discriminate|].
    apply ax_seq_none' in H1 as [_ H1]. apply ax_seq_none' in H1 as [_ H1]. apply ax_seq_none' in H1 as [H4 H1]. apply ax_seq_none' in H1 as [H5 H6].
    simpl in *. rewrite (fresh_all_list _ _ H4), (IH _ H6), andb_true_r, andb_true_l.
    rewrite <- (Hb _ H5). apply pfresh_ext. apply memN_ext_of_in. intros i. unfold ids. rewrite map_app, in_rev_append, in_app_iff. tauto.
  - (* Literal *) simpl in H0. apply ax_seq_none' in H0 as [H1 H2]. simpl. rewrite (fresh_for_notin _ _ H1). apply (H _ H2).
  - (* Op *) simpl in H0. apply ax_seq_none' in H0 as [_ H0]. apply ax_seq_none' in H0 as [_ H0]. apply ax_seq_none' in H0 as [H1 H2].
    simpl. rewrite (fresh_for_notin _ _ H1). apply (H _ H2).
  - (* Print *) simpl in H0. apply ax_seq_none' in H0 as [_ H0]. simpl. now apply H.
  - (* IfC *) simpl in H1. apply ax_seq_none' in H1 as [_ H1]. apply ax_seq_none' in H1 as [_ H1]. apply ax_seq_none' in H1 as [H2 H3].
    simpl. rewrite (H _ H2), (H0 _ H3). reflexivity.
Qed.

Lemma check_def_pfresh : forall ts ds d, AxCheck.check_def ts ds d = None -> pfresh (ids (dctx d)) (dbody d) = true.
Proof.
  intros ts ds d H. unfold AxCheck.check_def in H.
  assert (Hs : AxCheck.check_stmt ts ds (dctx d) (dbody d) = None).
  { destruct (AxCheck.is_lifted_name (dname d)).
    - destruct (negb _); [discriminate|]. destruct (AxCheck.minus_n _ _); [|discriminate].
      apply ax_seq_none' in H as [_ H]. apply ax_seq_none' in H as [_ H]. exact H.
    - apply ax_seq_none' in H as [_ H]. apply ax_seq_none' in H as [_ H]. exact H. }
  eapply check_pfresh; eauto.
Qed.
Lemma wt_ax_defs : forall q, AxCheck.wt_ax q = true ->
  (forall d, In d (pdefs q) -> pfresh (ids (dctx d)) (dbody d) = true) /\
  AxCheck.nodup_by ident_eqb (map dname (pdefs q)) = true.
Proof.
  intros q H. unfold AxCheck.wt_ax in H. destruct (AxCheck.check_prog q) eqn:E; [discriminate|]. clear H.
  unfold AxCheck.check_prog in E. apply ax_seq_none' in E as [_ E]. apply ax_seq_none' in E as [E1 E2].
  split.
  - revert E2. generalize (pdefs q) at 2 3. intros l. induction l as [|d0 r IH]; intros E2 d Hd; [contradiction|].
    apply ax_seq_none' in E2 as [E3 E4]. destruct Hd as [<-|Hd]; [eapply check_def_pfresh; eauto | now apply IH].
  - unfold AxCheck.ensure in E1. destruct (AxCheck.nodup_by _ _); [reflexivity | discriminate].
Qed.
Lemma ident_eqb_eq : forall a b : ident, ident_eqb a b = true <-> a = b.
Proof. exact cident_eqb_eq. Qed.
Lemma find_def_nodup : forall l d, AxCheck.nodup_by ident_eqb (map dname l) = true -> In d l ->
  find (fun d' => ident_eqb (dname d') (dname d)) l = Some d.
Proof.
  induction l as [|d0 r IH]; intros d Hn Hin; [contradiction|]. simpl in *. apply andb_prop in Hn as [Hn1 Hn2].
  destruct Hin as [->|Hin].
  - now rewrite (proj2 (ident_eqb_eq _ _) eq_refl).
  - destruct (ident_eqb (dname d0) (dname d)) eqn:E; [|now apply IH].
    apply ident_eqb_eq in E. apply negb_true_iff in Hn1. exfalso.
    assert (existsb (ident_eqb (dname d0)) (map dname r) = true); [|congruence].
    apply existsb_exists. exists (dname d). split; [apply in_map; exact Hin | now apply ident_eqb_eq].
Qed.

(* ---------- the shape of shrink_defs ---------- *)
Inductive defs_rel (data' codata : list ctydecl) : list fsdef -> list cident -> N -> list def -> Prop :=
| DR_nil : forall used m, defs_rel data' codata [] used m []
| DR_cons : forall d r used m t st' rest,
    shrink_stmt (fsz (fsdbody d)) (mksenv data' codata (fst (fsdname d))) (fsdbody d) (mksst m [] used) = SOk (t, st') ->
    defs_rel data' codata r (s_used st') (s_max st') rest ->
    defs_rel data' codata (d :: r) used m (mkd (fsdname d) (shrink_context codata (fsdctx d)) t :: s_lifted st' ++ rest).
Lemma shrink_defs_rel : forall data' codata ds used m acc out m',
  shrink_defs ds data' codata used m acc = SOk (out, m') ->
  exists rest, out = frev acc ++ rest /\ defs_rel data' codata ds used m rest.
Proof.
  induction ds as [|d r IH]; intros used m acc out m' H; simpl in H.
  - inv H. exists []. split; [now rewrite app_nil_r | constructor].
  - unfold shrink_def in H. destruct (shrink_stmt _ _ (fsdbody d) _) as [[body st]|] eqn:E; [|discriminate]. cbn [sbind] in H.
    apply IH in H as (rest & -> & Hr). unfold shrink_identifier in *.
    exists (mkd (fsdname d) (shrink_context codata (fsdctx d)) body :: s_lifted st ++ rest). split.
    + unfold frev. rewrite !rev_append_rev, !app_nil_r, rev_app_distr, rev_involutive, <- app_assoc. reflexivity.
    + constructor; auto.
Qed.

(* the fragment predicates names_ok, main_int, frag2_prog: Sem/FsFrag2.v *)

Section Prog.
Variable p : fsprog.
Notation data := (fspdata p).
Notation codata := (fspcodata p).
Notation defs := (fspdefs p).
Notation m0 := (fspmax p).
Notation D := (data ++ [cont_int]).

Lemma defs_rel_facts : forall ds used m rest, defs_rel D codata ds used m rest ->
  (forall d, In d ds -> ib_stmt m0 (fsdbody d) = true) -> (m0 <= m)%N ->
  forall d, In d ds -> exists used_d m_d t st',
    shrink_stmt (fsz (fsdbody d)) (mksenv D codata (fst (fsdname d))) (fsdbody d) (mksst m_d [] used_d) = SOk (t, st') /\
    (m0 <= m_d)%N /\ In (mkd (fsdname d) (shrink_context codata (fsdctx d)) t) rest /\
    (forall d', In d' (s_lifted st') -> In d' rest).
Proof.
  intros ds used m rest H. induction H as [used m|d r used m t st' rest Hsh Hr IH]; intros Hib Hm d0 Hin; [contradiction|].
  assert (Hmono : (m <= s_max st')%N).
  { pose proof Hsh as Hsh'. rewrite <- (rn_id (fsdbody d)) in Hsh' at 2.
    apply (shrink_mono p) in Hsh' as [H1 _]; [exact H1 | apply Hib; now left | exact Hm]. }
  destruct Hin as [<-|Hin].
  - exists used, m, t, st'. split; [exact Hsh|]. split; [exact Hm|]. split; [now left|].
    intros d' Hd'. right. apply in_or_app. now left.
  - destruct (IH (fun d1 H1 => Hib d1 (or_intror H1)) ltac:(lia) d0 Hin) as (u & md & t0 & s0 & F1 & F2 & F3 & F4).
    exists u, md, t0, s0. split; [exact F1|]. split; [exact F2|]. split; [right; apply in_or_app; now right|].
    intros d' Hd'. right. apply in_or_app. right. now apply F4.
Qed.

Lemma nodup_by_NoDup : forall l : list N, FsCheck.nodup_by N.eqb l = true -> NoDup l.
Proof.
  induction l as [|x r IH]; intros H; [constructor|]. simpl in H. apply andb_prop in H as [H1 H2]. constructor; [|now apply IH].
  intros Hin. apply negb_true_iff in H1. assert (existsb (N.eqb x) r = true); [|congruence].
  apply existsb_exists. exists x. split; [exact Hin | apply N.eqb_refl].
Qed.
Lemma check_defs_nodup : forall l d, check_defs p l = None -> In d l -> FsCheck.nodup_by N.eqb (cids (fsdctx d)) = true.
Proof.
  induction l as [|a r IH]; intros d Hc Hin; [contradiction|]. simpl in Hc. apply seq_none in Hc as [A Bc]. apply fensure_none in A.
  destruct (check_stmt _ _ _ (fsdctx a) (fsdbody a)); [discriminate|]. destruct Hin as [->|Hin]; [exact A | now apply IH].
Qed.

Lemma vrels_ints : forall q n ctx zs, forallb int_binding ctx = true -> List.length ctx = List.length zs ->
  vrels p q n ctx (map (fun z => BP (PInt z)) zs) (map VInt zs).
Proof.
  intros q n. induction ctx as [|b r IH]; intros [|z zs] Hi Hl; try discriminate; [constructor|].
  simpl in Hi. apply andb_prop in Hi as [Hb Hr]. unfold int_binding in Hb. apply andb_prop in Hb as [Hc Ht].
  apply cchi_eqb_eq in Hc. apply cty_eqb_eq in Ht. cbn [map]. constructor; [rewrite Hc, Ht; constructor | apply IH; auto].
Qed.
Lemma cbind_length : forall xs vs e e', CoreSem.cbind xs vs e = Some e' -> List.length xs = List.length vs.
Proof.
  induction xs as [|x r IH]; intros [|v vr] e e' H; simpl in H; try discriminate; [reflexivity|].
  destruct (CoreSem.cbind r vr e) eqn:E; [|discriminate]. simpl. f_equal. eapply IH; eauto.
Qed.

Theorem shrink_correct_fragment2 : forall q n args o,
  frag2_prog p = true -> wt_fs p = true -> unique_binders p = true -> ids_bounded p = true ->
  shrink_prog p = SOk q -> AxCheck.wt_ax q = true ->
  CoreSem.run_fs n p args = o -> good o ->
  exists m, run_named m q args = o.
Proof.
  intros q n args o Hfrag Hwt Hub Hib Hsh Hax Hrun Hg.
  unfold frag2_prog in Hfrag. apply andb_prop in Hfrag as [Hnames Hmain].
  unfold wt_fs in Hwt. destruct (check_fs p) eqn:Hc; [discriminate|]. clear Hwt. unfold check_fs in Hc.
  apply seq_none in Hc as [C0 Hc]. apply seq_none in Hc as [C1 Hc]. apply seq_none in Hc as [C2 Hc].
  apply seq_none in Hc as [C3 Hc]. apply seq_none in Hc as [C4 C5]. apply fensure_none in C1.
  pose proof (nodup_types_disjoint _ _ C1) as Hdisj.
  destruct (wt_ax_defs q Hax) as [Hqfresh Hqnd].
  assert (Hqnames : forall d, In d (pdefs q) -> find_def q (dname d) = Some d).
  { intros d Hd. unfold find_def. now apply find_def_nodup. }
  unfold shrink_prog in Hsh. destruct (_ || _); [discriminate|].
  destruct (shrink_defs defs D codata (map fsdname defs) m0 []) as [[defs' mx]|] eqn:Esd; [|discriminate]. cbn [sbind] in Hsh.
  apply shrink_defs_rel in Esd as (rest & Eout & Hrel). cbn [frev rev_append app] in Eout. subst defs'.
  injection Hsh as <-. cbn [pdefs] in *.
  assert (Hibd : forall d, In d defs -> ctx_le m0 (fsdctx d) = true /\ ib_stmt m0 (fsdbody d) = true).
  { intros d Hd. unfold ids_bounded in Hib. rewrite forallb_forall in Hib. apply Hib in Hd.
    apply andb_prop in Hd as [Hd H2]. apply andb_prop in Hd as [_ H1]. auto. }
  set (q := mkp rest (map (shrink_declaration codata) D ++ map (shrink_declaration codata) codata) mx) in *.
  assert (Hdefs : forall d, In d defs -> def_typed p d /\ def_shrunk p q d).
  { intros d Hd. split.
    - unfold def_typed. split; [eapply check_defs_in; eauto|].
      split; [apply nodup_by_NoDup; eapply check_defs_nodup; eauto|].
      unfold unique_binders in Hub. rewrite forallb_forall in Hub. pose proof (Hub d Hd) as Hu. apply andb_prop in Hu as [_ Hu].
      split; [exact Hu|]. destruct (Hibd d Hd) as [H1 H2]. split; [exact H1|]. split; [exact H2|].
      unfold names_ok in Hnames. rewrite forallb_forall in Hnames. now apply Hnames.
    - destruct (defs_rel_facts _ _ _ _ Hrel (fun d0 H0 => proj2 (Hibd d0 H0)) (N.le_refl _) d Hd) as (u & md & t & st' & F1 & F2 & F3 & F4).
      exists (fst (fsdname d)), (mksst md [] u), t, st'. split; [exact F1|]. split; [exact F2|]. split; [|exact F4].
      apply (Hqnames _ F3). }
  unfold CoreSem.run_fs, CoreSem.run_core in Hrun. cbn [CoreSem.fs2c_prog cpdefs] in Hrun.
  destruct defs as [|d0 ds] eqn:Edefs; [cbn [map] in Hrun; subst o; exfalso; exact Hg|].
  cbn [map] in Hrun. unfold CoreSem.centry_env in Hrun. cbn [CoreSem.fs2c_def cdctx cdbody] in Hrun.
  destruct (forallb _ (fsdctx d0)); [|subst o; exfalso; exact Hg].
  destruct (CoreSem.cbind (cvars (fsdctx d0)) (map (fun z => BP (PInt z)) args) []) as [e'|] eqn:Ecb; [|subst o; exfalso; exact Hg].
  inversion Hrel as [|d r u m t0 st0 rest0 Hsh0 Hr0]; subst.
  unfold run_named. cbn [pdefs]. unfold entry_env. cbn [dctx dbody].
  pose proof (cbind_length _ _ _ _ Ecb) as Hlen. unfold cvars in Hlen. rewrite !map_length in Hlen.
  destruct (bind_total (vars (shrink_context codata (fsdctx d0))) (map VInt args)) as [ae' Hbind].
  { rewrite vars_shrink_context. unfold cvars. rewrite !map_length. exact Hlen. }
  unfold q at 1. cbn [pdefs dctx dbody]. rewrite Hbind.
  assert (Hd0 : In d0 defs) by (rewrite Edefs; now left).
  assert (Hfind : find_def q (fsdname d0) = Some (mkd (fsdname d0) (shrink_context codata (fsdctx d0)) t0)).
  { apply (Hqnames (mkd (fsdname d0) (shrink_context codata (fsdctx d0)) t0)). now left. }
  unfold main_int in Hmain. rewrite Edefs in Hmain.
  rewrite <- Edefs in Hdefs.
  eapply (def_sim p q Hqfresh Hdefs n (FL_all p q Hdisj Hqfresh Hqnames Hdefs n) d0 _ _ e' ae' Hd0); eauto.
  apply vrels_ints; auto.
Qed.
End Prog.
