(* C19: the cost model of the RISC-V back end (Model/RV.v), discharged:
       rv_K = 20 + 13 * FIELDS_PER_BLOCK
   (no spills: single operations <= 11; store of n fields <= (1 + n) * (19 + 13 * FIELDS_PER_BLOCK),
   acquire_block = 15 + 12 * FIELDS_PER_BLOCK; load <= 20 * (1 + n); print emits nothing in the model -
   rv_compile rejects programs with a print statement, as the real back end panics there; parallel
   moves <= 4 * new + 2 * old). *)
From Coq Require Import String List ZArith NArith Bool Lia.
From SCC Require Import Base.Sexp Lang.AxSyn Lang.AxSize Model.ParMoves Model.Backend Model.RV Model.Linearize Model.LinCheck
     Proof.LinBasics Proof.SubstGraph Proof.SubstBackends Proof.SizeLin Proof.SizeCodegen Proof.SizeExchange Proof.SizeCodegenWf.
From SCC Require Model.SizeWf.
Import ListNotations.
Open Scope list_scope.
Open Scope N_scope.
Local Arguments N.add : simpl never.
Local Arguments N.mul : simpl never.
Local Arguments N.sub : simpl never.
Local Arguments N.of_nat : simpl never.
Local Arguments len : simpl never.

Ltac sl := repeat (rewrite ?len_app, ?len_cons); repeat match goal with |- context [@len ?X []] => change (@len X []) with 0 end.
Ltac bind H :=
  match type of H with
  | rbind ?e _ = Ok _ => let E := fresh "E" in destruct e eqn:E; [cbn [rbind] in H | discriminate H]
  end.

Notation FPB := FIELDS_PER_BLOCK.
Notation rv_K := SizeWf.rv_K.

Lemma len_firstn_skipn : forall {X} n (l : list X), len (firstn n l) + len (skipn n l) = len l.
Proof. intros X n l. rewrite <- len_app, firstn_skipn. reflexivity. Qed.
Lemma len_rev : forall {X} (l : list X), len (rev l) = len l.
Proof. intros. unfold len. rewrite rev_length. reflexivity. Qed.
Lemma len_nseq : forall s l, len (nseq s l) = l.
Proof. intros. unfold nseq, len. rewrite map_length, seq_length. lia. Qed.

Lemma l_ifz : forall cond th el lc, len (fst (if_zero_then_else cond th el lc)) = 4 + len th + len el.
Proof. intros. unfold if_zero_then_else. cbn [fst]. sl. lia. Qed.
Lemma l_skip : forall cnd body lc, len (fst (skip_if_zero cnd body lc)) = 2 + len body.
Proof. intros. unfold skip_if_zero. cbn [fst]. sl. lia. Qed.
Lemma l_erase_block : forall t lc, len (fst (r_erase_block t lc)) = 11.
Proof.
  intros t lc. unfold r_erase_block.
  match goal with |- context [if_zero_then_else TEMP ?a ?b lc] =>
    pose proof (l_ifz TEMP a b lc) as H; destruct (if_zero_then_else TEMP a b lc) as [c lc1] end.
  cbn [fst] in H. revert H. sl. intros H. rewrite l_skip. sl. lia.
Qed.
Lemma l_share_block : forall t n lc, len (fst (r_share_block_n t n lc)) = 5.
Proof. intros. unfold r_share_block_n. rewrite l_skip. sl. lia. Qed.

Lemma l_erase_fields : forall r t lc, len (fst (erase_fields r t lc)) = 12 * FPB.
Proof.
  intros r t lc. unfold erase_fields.
  assert (G : forall l c lc0,
    len (fst (fold_left (fun (acc : list rcode * N) (offset : N) =>
               let '(c, lc) := acc in
               let '(c1, lc1) := r_erase_block t lc in
               (c ++ [LW t r (field_offset Fst offset)] ++ c1, lc1)) l (c, lc0))) = len c + 12 * len l).
  { induction l as [|o l IH]; intros c lc0; [cbn [fold_left fst]; sl; lia|].
    cbn [fold_left]. pose proof (l_erase_block t lc0) as H. destruct (r_erase_block t lc0) as [c1 lc1]. cbn [fst] in H.
    rewrite IH. sl. lia. }
  rewrite G, len_nseq. sl. lia.
Qed.
Lemma l_acquire : forall t t2 lc, len (fst (acquire_block t t2 lc)) = 15 + 12 * FPB.
Proof.
  intros t t2 lc. unfold acquire_block.
  pose proof (l_erase_fields HEAP t2 lc) as H1. destruct (erase_fields HEAP t2 lc) as [ef lc1]. cbn [fst] in H1.
  match goal with |- context [if_zero_then_else FREE ?a ?b lc1] =>
    pose proof (l_ifz FREE a b lc1) as H2; destruct (if_zero_then_else FREE a b lc1) as [inner lc2] end.
  cbn [fst] in H2.
  match goal with |- context [if_zero_then_else HEAP ?a ?b lc2] =>
    pose proof (l_ifz HEAP a b lc2) as H3; destruct (if_zero_then_else HEAP a b lc2) as [outer lc3] end.
  cbn [fst] in *. revert H2 H3; sl; intros H2 H3; lia.
Qed.
Lemma l_store_field : forall n c b o code, store_field n c b o = Ok code -> len code = 1.
Proof. intros n c b o code H. unfold store_field in H. bind H. inversion H; subst. reflexivity. Qed.
Lemma l_load_field : forall n c b o code, load_field n c b o = Ok code -> len code = 1.
Proof. intros n c b o code H. unfold load_field in H. bind H. inversion H; subst. reflexivity. Qed.
Lemma l_store_zeros : forall n b, len (store_zeros n b) = n.
Proof.
  intros n b. unfold store_zeros. rewrite <- (len_nseq 0 n) at 2. induction (nseq 0 n) as [|x l IH]; [reflexivity|].
  cbn [flat_map]. sl. unfold store_zero at 1. sl. lia.
Qed.
Lemma l_store_value : forall b rem blk o code, store_value b rem blk o = Ok code -> len code = 2.
Proof.
  intros b rem blk o code H. unfold store_value in H. bind H. apply l_store_field in E.
  destruct (bchi b).
  - bind H. inversion H; subst. apply l_store_field in E0. sl. lia.
  - bind H. inversion H; subst. apply l_store_field in E0. sl. lia.
  - inversion H; subst. sl. unfold store_zero. sl. lia.
Qed.
Lemma l_store_values : forall l rem blk ff code, store_values l rem blk ff = Ok code -> len code <= 2 * len l + ff.
Proof.
  induction l as [|b l IH]; intros rem blk ff code H; cbn [store_values] in H.
  - inversion H; subst. rewrite l_store_zeros. sl. lia.
  - bind H. bind H. inversion H; subst. apply l_store_value in E. apply IH in E0. sl. lia.
Qed.

Definition store_unit : N := 16 + 13 * FPB.
Lemma l_store_fields : forall fuel ts rem bp lc code lc',
  store_fields fuel ts rem bp lc = Ok (code, lc') -> len code <= N.of_nat fuel * store_unit + 2 * len ts + 1.
Proof.
  induction fuel as [|f IH]; intros ts rem bp lc code lc' H; [discriminate|].
  rewrite Nat2N.inj_succ, N.mul_succ_l.
  destruct ts as [|b0 ts0].
  - cbn [store_fields] in H. destruct bp.
    + bind H. inversion H; subst. sl. lia.
    + inversion H; subst. sl. lia.
  - cbn [store_fields] in H. remember (b0 :: ts0) as ts eqn:Ets. clear Ets b0 ts0.
    bind H. rename x into c0. bind H. rename x into c1. bind H. rename x into t. bind H. rename x into t2.
    set (cap := FPB - bp_n bp) in *.
    set (rl := if N.leb (N.of_nat (List.length ts)) cap then 0 else N.of_nat (List.length ts) - cap) in *.
    pose proof (l_acquire t t2 lc) as HA. destruct (acquire_block t t2 lc) as [c2 lc2]. cbn [fst] in HA.
    bind H. destruct x as [c3 lc3]. inversion H; subst; clear H.
    apply IH in E3. apply l_store_values in E0.
    assert (H0 : len c0 <= 1).
    { destruct bp; [inversion E; subst; sl; lia | apply l_store_field in E; lia]. }
    assert (Hcap : cap <= FPB) by (unfold cap; lia).
    pose proof (len_rev (skipn (N.to_nat rl) ts)) as Hrev.
    pose proof (len_firstn_skipn (N.to_nat rl) ts).
    sl. unfold store_unit in *. lia.
Qed.
Lemma l_store : forall a r lc code lc', r_store a r lc = Ok (code, lc') -> len code <= (19 + 13 * FPB) * (1 + len a).
Proof.
  intros a r lc code lc' H. unfold r_store in H. apply l_store_fields in H.
  rewrite Nat2N.inj_succ in H. fold (len a) in H. unfold store_unit in H. lia.
Qed.

Lemma l_load_value : forall b ex blk o m lc code lc', load_value b ex blk o m lc = Ok (code, lc') -> len code <= 7.
Proof.
  intros b ex blk o m lc code lc' H. unfold load_value in H. bind H. apply l_load_field in E.
  destruct (bchi b).
  - bind H. apply l_load_field in E0. destruct m.
    + inversion H; subst. sl. lia.
    + bind H. pose proof (l_share_block x1 1 lc) as HS. destruct (r_share_block_n x1 1 lc) as [c3 lc1].
      cbn [fst] in HS. inversion H; subst. sl. lia.
  - bind H. apply l_load_field in E0. destruct m.
    + inversion H; subst. sl. lia.
    + bind H. pose proof (l_share_block x1 1 lc) as HS. destruct (r_share_block_n x1 1 lc) as [c3 lc1].
      cbn [fst] in HS. inversion H; subst. sl. lia.
  - inversion H; subst. lia.
Qed.
Lemma l_load_values : forall l ex blk ff m lc code lc', load_values l ex blk ff m lc = Ok (code, lc') -> len code <= 7 * len l.
Proof.
  induction l as [|b l IH]; intros ex blk ff m lc code lc' H; cbn [load_values] in H.
  - inversion H; subst. sl. lia.
  - bind H. destruct x as [c1 lc1]. bind H. destruct x as [c2 lc2]. inversion H; subst.
    apply l_load_value in E. apply IH in E0. sl. lia.
Qed.
Lemma l_load_fields : forall fuel tl ex bp m lc code lc',
  load_fields fuel tl ex bp m lc = Ok (code, lc') -> len code <= N.of_nat fuel * 3 + 7 * len tl.
Proof.
  induction fuel as [|f IH]; intros tl ex bp m lc code lc' H; [discriminate|].
  rewrite Nat2N.inj_succ, N.mul_succ_l.
  destruct tl as [|b0 tl0].
  - cbn [load_fields] in H. inversion H; subst. sl. lia.
  - cbn [load_fields] in H. remember (b0 :: tl0) as tl eqn:Etl. clear Etl b0 tl0.
    set (cap := FPB - bp_n bp) in *.
    set (rl := if N.leb (N.of_nat (List.length tl)) cap then 0 else N.of_nat (List.length tl) - cap) in *.
    bind H. destruct x as [c0 lc0]. bind H. rename x into mb.
    apply IH in E.
    pose proof (len_rev (skipn (N.to_nat rl) tl)) as Hrev.
    pose proof (len_firstn_skipn (N.to_nat rl) tl).
    bind H. rename x into c2. bind H. destruct x as [c3 lc3]. inversion H; subst; clear H.
    apply l_load_values in E2.
    assert (len c2 <= 1) by (destruct bp; [inversion E1; subst; sl; lia | apply l_load_field in E1; lia]).
    assert (len (match m with Release => release_block mb | Share => [] end) <= 2) by (destruct m; unfold release_block; sl; lia).
    sl. lia.
Qed.
Lemma l_load : forall a r lc code lc', r_load a r lc = Ok (code, lc') -> len code <= 20 * (1 + len a).
Proof.
  intros a r lc code lc' H. unfold r_load in H. destruct a as [|b0 a0]; [inversion H; subst; sl; lia|].
  remember (b0 :: a0) as a. clear Heqa b0 a0.
  bind H. bind H. destruct x0 as [th lc1]. bind H. destruct x0 as [el lc2].
  apply l_load_fields in E0. apply l_load_fields in E1. rewrite Nat2N.inj_succ in *. fold (len a) in *.
  match type of H with context [if_zero_then_else TEMP ?a ?b lc2] =>
    pose proof (l_ifz TEMP a b lc2) as HI; destruct (if_zero_then_else TEMP a b lc2) as [c lc3] end.
  cbn [fst] in HI. inversion H; subst. revert HI. sl. intros HI. lia.
Qed.

Lemma rv_K_ge : 20 <= rv_K.
Proof. unfold SizeWf.rv_K. lia. Qed.

Lemma rv_exchange : forall re c code, NoDup (ids c) -> NoDup (SizeWf.new_ids_of re) ->
  code_exchange rv_backend (transpose re c) c (map fst re) = Ok code -> len code <= rv_K * (1 + len c + len re).
Proof.
  intros re c code N1 N2 H.
  assert (G := exchange_len rv_backend rv_backend_ok 1).
  cbn [rv_backend b_mov b_store_temporary b_restore_temporary] in G.
  specialize (G ltac:(intros; unfold r_mov; sl; lia) ltac:(intros; sl; lia) ltac:(intros; sl; lia) c re code N1 N2 H).
  pose proof rv_K_ge. nia.
Qed.

Theorem rv_cost_model_wf : cost_model_wf rv_backend rv_K.
Proof.
  pose proof rv_K_ge as HK. unfold cost_model_wf.
  cbn [rv_backend b_mark b_jump b_jump_label b_jump_label_fixed b_jcc2 b_jcc1
    b_load_immediate b_load_label b_add_and_jump b_arith b_mov b_print b_erase b_share_n b_store b_load].
  repeat split.
  - lia.
  - intros c. sl. lia.
  - intros t. unfold r_jump. sl. lia.
  - intros l. unfold r_jump_label. sl. lia.
  - intros l. unfold r_jump_label. sl. lia.
  - intros so a b l. sl. lia.
  - intros so a l. sl. lia.
  - intros t z. unfold r_load_immediate. sl. lia.
  - intros t l. unfold r_load_label. sl. lia.
  - intros t z. unfold r_add_and_jump. destruct (addi_fits z); sl; lia.
  - intros o a b c. destruct o; cbn [r_arith]; sl; lia.
  - intros a b. unfold r_mov. sl. lia.
  - intros nl t c. sl. lia.
  - intros t lc. rewrite l_erase_block. lia.
  - intros t n lc. rewrite l_share_block. lia.
  - intros a r lc code lc' H. apply l_store in H. unfold SizeWf.rv_K. nia.
  - intros a r lc code lc' H. apply l_load in H. nia.
  - exact rv_exchange.
Qed.

Theorem rv_translate_size : forall types ds lc code lc',
  SizeWf.sub_wf_defs ds = true ->
  translate rv_backend types ds lc = Ok (code, lc') -> len code <= rv_K * cg_bound_defs ds.
Proof. apply translate_size_wf_cm. exact rv_cost_model_wf. Qed.

Theorem rv_compile_size : forall p lc r n lc',
  SizeWf.sub_wf_prog p = true -> rv_compile p lc = Ok (r, n, lc') -> len r <= SizeWf.rv_bound p.
Proof.
  intros p lc r n lc' HW H. unfold rv_compile in H. destruct (prog_has_print p); [discriminate|].
  unfold compile in H. unfold SizeWf.rv_bound, SizeWf.sub_wf_prog in *. destruct (pdefs p) as [|d0 ds]; [discriminate|].
  destruct (translate rv_backend (ptypes p) (d0 :: ds) lc) as [[c1 lc1]|e] eqn:E1; [|discriminate].
  cbn [rbind fst snd] in H. inversion H; subst; clear H.
  apply rv_translate_size in E1; [exact E1|exact HW].
Qed.
