(* Proof/CodegenX86.v (property C12): the x86-64 back end satisfies [capacity_ok] with
   P = positions_x86 = 267 temporaries, hence x86_compile returns Ok on every linear program within
   capacity: "Out of temporaries" and "too many arguments for main" are the only reachable panics. *)
From Coq Require Import List ZArith NArith String Bool Lia.
From SCC Require Import Base.Sexp Lang.AxSyn Model.ParMoves Model.Backend Model.X86 Model.LinCheck Model.Capacity.
From SCC Require Import Proof.SubstGraph Proof.CodegenTotal.
Import ListNotations.
Open Scope list_scope.

Lemma positions_x86_val : positions_x86 = 267%N.
Proof. reflexivity. Qed.
Lemma K_x86_val : K_x86 = 132%nat.
Proof. reflexivity. Qed.

Lemma x86_temp_ok p : (p < positions_x86)%N -> okr (temporary_from_position p).
Proof.
  rewrite positions_x86_val. intros H. unfold temporary_from_position.
  change RESERVED with 4%N. change REGISTER_NUM with 16%N. change RESERVED_SPILLS with 1%N. change SPILL_NUM with 256%N.
  cbv zeta. destruct (N.ltb_spec (p + 4) 16); [apply okr_Ok|].
  destruct (N.ltb_spec (p + 4 - 16 + 1) 256); [apply okr_Ok|]. lia.
Qed.
(* the bound is exact: the first position that fails *)
Lemma x86_temp_limit : temporary_from_position positions_x86 = Err "Out of temporaries".
Proof. reflexivity. Qed.

Lemma x_fresh_ok n (c : ctx) : (2 * N.of_nat (List.length c) + 2 <= positions_x86)%N -> okr (x_fresh n c).
Proof. intros H. unfold x_fresh. apply x86_temp_ok. destruct n; unfold tnum_n; lia. Qed.

Lemma store_field_ok n c block offset :
  (2 * N.of_nat (List.length c) + 2 <= positions_x86)%N -> okr (store_field n c block offset).
Proof. intros H. unfold store_field. okb; [apply x_fresh_ok; exact H|apply okr_Ok]. Qed.
Lemma load_field_ok n c block offset :
  (2 * N.of_nat (List.length c) + 2 <= positions_x86)%N -> okr (load_field n c block offset).
Proof. intros H. unfold load_field. okb; [apply x_fresh_ok; exact H|apply okr_Ok]. Qed.
Lemma store_value_ok b c block offset :
  (2 * N.of_nat (List.length c) + 2 <= positions_x86)%N -> okr (store_value b c block offset).
Proof.
  intros H. unfold store_value. okb; [apply store_field_ok; exact H|].
  destruct (bchi b); try apply okr_Ok; (okb; [apply store_field_ok; exact H|apply okr_Ok]).
Qed.
Lemma load_value_ok b c block offset m lc :
  (2 * N.of_nat (List.length c) + 2 <= positions_x86)%N -> okr (load_value b c block offset m lc).
Proof.
  intros H. unfold load_value. okb; [apply load_field_ok; exact H|].
  destruct (bchi b); try apply okr_Ok;
    (okb; [apply load_field_ok; exact H|]; okb; [apply x_fresh_ok; exact H|];
     destruct m; [apply okr_Ok|destruct (x_share_block_n _ 1 lc); apply okr_Ok]).
Qed.

Lemma store_values_ok block : forall l remaining ff,
  (2 * N.of_nat (List.length remaining + List.length l) + 2 <= positions_x86)%N ->
  okr (store_values l remaining block ff).
Proof.
  induction l as [|b l IH]; intros remaining ff H; cbn [store_values]; [apply okr_Ok|].
  cbn [List.length] in H. okb.
  - apply store_value_ok. rewrite app_length, rev_length. lia.
  - okb; [apply IH; lia|apply okr_Ok].
Qed.
Lemma load_values_ok block m : forall l existing ff lc,
  (2 * N.of_nat (List.length existing + List.length l) + 2 <= positions_x86)%N ->
  okr (load_values l existing block ff m lc).
Proof.
  induction l as [|b l IH]; intros existing ff lc H; cbn [load_values]; [apply okr_Ok|].
  cbn [List.length] in H. okb.
  - apply load_value_ok. rewrite app_length, rev_length. lia.
  - destruct x as [c1 lc1]. okb; [apply IH; lia|]. destruct x as [c2 lc2]. apply okr_Ok.
Qed.

(* the part of a field list that goes to the NEXT block is strictly shorter *)
Lemma rest_shorter (l : ctx) bp :
  l <> [] ->
  let cap := (FIELDS_PER_BLOCK - bp_n bp)%N in
  let len := N.of_nat (List.length l) in
  let rest_length := if N.leb len cap then 0%N else (len - cap)%N in
  (List.length (firstn (N.to_nat rest_length) l) < List.length l)%nat.
Proof.
  intros NE. change FIELDS_PER_BLOCK with 3%N. cbv zeta. rewrite firstn_length.
  destruct l as [|b l]; [contradiction|]. cbn [List.length].
  destruct (N.leb_spec (N.of_nat (S (List.length l))) (3 - bp_n bp)); destruct bp; cbn [bp_n] in *; lia.
Qed.
Lemma firstn_skipn_len (l : ctx) k : (List.length (firstn k l) + List.length (skipn k l) = List.length l)%nat.
Proof. rewrite <- app_length, firstn_skipn. reflexivity. Qed.

Lemma store_fields_ok : forall fuel to_store remaining bp lc,
  (List.length to_store < fuel)%nat ->
  (2 * N.of_nat (List.length remaining + List.length to_store) + 2 <= positions_x86)%N ->
  okr (store_fields fuel to_store remaining bp lc).
Proof.
  induction fuel as [|fuel IH]; intros to_store remaining bp lc HF H; [lia|].
  cbn [store_fields]. destruct to_store as [|b0 l0] eqn:ETS.
  - destruct bp; [|apply okr_Ok]. okb; [apply x_fresh_ok; cbn [List.length] in H; lia|apply okr_Ok].
  - rewrite <- ETS in *. assert (NE : to_store <> []) by (rewrite ETS; discriminate).
    clear ETS. cbv zeta.
    pose proof (rest_shorter to_store bp NE) as RS. cbv zeta in RS.
    set (k := N.to_nat (if N.leb (N.of_nat (List.length to_store)) (FIELDS_PER_BLOCK - bp_n bp)
                        then 0%N else (N.of_nat (List.length to_store) - (FIELDS_PER_BLOCK - bp_n bp))%N)) in *.
    pose proof (firstn_skipn_len to_store k) as FS.
    okb. { destruct bp; [apply okr_Ok|]. apply store_field_ok. rewrite app_length. exact H. }
    okb. { apply store_values_ok. rewrite rev_length, app_length. lia. }
    okb. { apply x_fresh_ok. rewrite app_length. lia. }
    destruct (acquire_block x1 lc) as [c2 lc2].
    okb; [apply IH; lia|]. destruct x2 as [c3 lc3]. apply okr_Ok.
Qed.

Lemma load_fields_ok : forall fuel to_load existing bp m freed lc,
  (List.length to_load < fuel)%nat ->
  (2 * N.of_nat (List.length existing + List.length to_load) + 2 <= positions_x86)%N ->
  okr (load_fields fuel to_load existing bp m freed lc).
Proof.
  induction fuel as [|fuel IH]; intros to_load existing bp m freed lc HF H; [lia|].
  cbn [load_fields]. destruct to_load as [|b0 l0] eqn:ETS; [apply okr_Ok|].
  rewrite <- ETS in *. assert (NE : to_load <> []) by (rewrite ETS; discriminate).
  clear ETS. cbv zeta.
  pose proof (rest_shorter to_load bp NE) as RS. cbv zeta in RS.
  set (k := N.to_nat (if N.leb (N.of_nat (List.length to_load)) (FIELDS_PER_BLOCK - bp_n bp)
                      then 0%N else (N.of_nat (List.length to_load) - (FIELDS_PER_BLOCK - bp_n bp))%N)) in *.
  pose proof (firstn_skipn_len to_load k) as FS.
  okb; [apply IH; lia|]. destruct x as [[c0 freed0] lc0].
  okb. { apply x_fresh_ok. rewrite app_length. lia. }
  assert (LF : forall r, okr (match bp with
                              | Other => load_field Fst (existing ++ to_load) r (FIELDS_PER_BLOCK - 1)
                              | Last => Ok []
                              end)).
  { intros r. destruct bp; [apply okr_Ok|]. apply load_field_ok. rewrite app_length. exact H. }
  assert (LV : forall r lc', okr (load_values (rev (skipn k to_load)) (existing ++ firstn k to_load) r
                                              (FIELDS_PER_BLOCK - bp_n bp) m lc')).
  { intros r lc'. apply load_values_ok. rewrite rev_length, app_length. lia. }
  destruct x as [mr|mp].
  - okb; [apply LF|]. okb; [apply LV|]. destruct x0 as [c3 lc3]. apply okr_Ok.
  - okb; [apply LF|]. okb; [apply LV|]. destruct x0 as [c3 lc3]. apply okr_Ok.
Qed.

Lemma x_store_ok args rest lc :
  (2 * N.of_nat (List.length rest + List.length args) + 2 <= positions_x86)%N -> okr (x_store args rest lc).
Proof. intros H. unfold x_store. apply store_fields_ok; [lia|exact H]. Qed.

Lemma load_register_ok block to_load existing lc :
  (2 * N.of_nat (List.length existing + List.length to_load) + 2 <= positions_x86)%N ->
  okr (load_register block to_load existing lc).
Proof.
  intros H. unfold load_register.
  okb; [apply load_fields_ok; [lia|exact H]|]. destruct x as [[tb f1] lc1].
  okb; [apply load_fields_ok; [lia|exact H]|]. destruct x as [[eb f2] lc2]. apply okr_Ok.
Qed.
Lemma x_load_ok to_load existing lc :
  (2 * N.of_nat (List.length existing + List.length to_load) + 2 <= positions_x86)%N -> okr (x_load to_load existing lc).
Proof.
  intros H. unfold x_load. destruct to_load as [|b0 l0] eqn:E; [apply okr_Ok|]. rewrite <- E in *.
  okb; [apply x_fresh_ok; lia|]. destruct x as [r|p].
  - apply load_register_ok. exact H.
  - okb; [apply load_register_ok; exact H|apply okr_Ok].
Qed.

Theorem x86_capacity_ok mark : capacity_ok (x86_backend_with mark) positions_x86.
Proof.
  split; cbn [x86_backend_with b_temporary_from_position b_store b_load].
  - exact x86_temp_ok.
  - exact x_store_ok.
  - exact x_load_ok.
Qed.

Lemma move_arguments_ok : forall n, (n <= 5)%nat -> okr (move_arguments n).
Proof.
  induction n as [|n IH]; intros H; cbn [move_arguments]; [apply okr_Ok|].
  destruct (Nat.ltb_spec 5 (S n)); [lia|]. okb; [apply IH; lia|apply okr_Ok].
Qed.

(* THE THEOREM for x86-64: a linear program accepted by lin_check_prog and within capacity is
   compiled without any failure *)
Theorem x86_codegen_total (p : prog) (lc : N) :
  lin_check_prog p = true -> within_capacity_x86 p = true ->
  exists code lc', x86_compile p lc = Ok (code, main_arity p, lc').
Proof.
  intros L W. unfold within_capacity_x86 in W.
  apply andb_true_iff in W as [W A]. apply andb_true_iff in W as [D C]. apply Nat.leb_le in A.
  destruct (compile_total x86_backend positions_x86 x86_backend_ok (x86_capacity_ok _) K_x86
              ltac:(rewrite positions_x86_val, K_x86_val; lia) p lc L D C) as (code & lc' & E).
  unfold x86_compile, x86_compile_with. fold x86_backend. rewrite E. cbn [rbind].
  unfold into_x86_64_routine, setup.
  destruct (move_arguments_ok (main_arity p) A) as [ma ->]. cbn [rbind]. eauto.
Qed.
Print Assumptions x86_codegen_total.
