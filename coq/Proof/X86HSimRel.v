(* C06, forward simulation for HEAP statements, part 1: the state relation between a configuration of the
   heap-instrumented linear machine (Sem/AxHeap.v: environment entries carry the block pointer, the abstract
   allocator state evolves by Heap.step) and a state of Sem/X86Sem.v.

     xrep w v q a     the value v is represented by the pointer word q and the data word a in the heap
                      words w: an integer z is (0, z); an object is (pointer to its fields, 5 * position of
                      its tag in the declaration: the jump-table offset `b_jump_length`); a closure is
                      (pointer to its captured environment, address of its code: `CLO`); the fields sit in
                      the slots `waddrs` of a chain of blocks (pointer word at a, data word at a + 8), the
                      unused leading slots of the head block hold null pointers; no field: pointer 0;
     hvrep            position i of the environment: an `ext i64` variable has its value in the SECOND
                      temporary; every other variable has the block pointer of the machine's entry in the
                      FIRST and the data word in the SECOND temporary;
     hrel             frame as in Proof/X86SimRel.v, HEAP / FREE registers = reuse list / deferred list of
                      the abstract state, `abs_heap` = the abstract state up to zero padding (`heq`). *)
From Coq Require Import List ZArith NArith String Bool Lia FMapPositive.
From SCC Require Import Proof.X86Mem Proof.X86MemFrame Proof.X86MemLoad.
From SCC Require Import Base.Sexp Lang.AxSyn Sem.AxSem Sem.AxHeap Model.ParMoves Model.Backend Model.X86 Sem.X86Sem Sem.X86Wf
     Generated.Constants Proof.X86State Proof.X86Sel Proof.X86Exec Proof.X86ParMoves Proof.SubstGraph Proof.X86Subst
     Proof.X86SimRel Proof.X86HeapDefs.
From SCC Require Model.Heap.
Import ListNotations.
Open Scope Z_scope.
Open Scope list_scope.

Notation mtpos := X86MemFrame.tpos.

(* the typing context a captured environment stands for (names of the annotation, kinds and types of the values) *)
Definition ctx_of_env (ce : list (ident * value)) : ctx :=
  map (fun xv : ident * value => mkb (fst xv) (chi_of (snd xv)) (ty_of (snd xv))) ce.

Section HRel.
Variable types : list tydecl.
(* what the data word of a closure points to: (address, type name, clauses, captured context) *)
Variable CLO : Z -> ident -> list clause -> ctx -> Prop.

(* the fields of an object have the kinds and types its constructor declares *)
Definition same_kinds (fs : list value) (sg : ctx) : Prop :=
  Forall2 (fun f b => chi_of f = bchi b /\ ty_of f = bty b) fs sg.
Definition tag_word (tn tag : ident) (fs : list value) (a : Z) : Prop :=
  exists d k x, find (fun d => ident_eqb (tname d) tn) types = Some d /\
              xtor_position (txtors d) tag 0 = Ok k /\ a = jump_length k /\
              find (fun x => ident_eqb (xname x) tag) (txtors d) = Some x /\ same_kinds fs (xargs x).

Inductive xrep (w : Z -> Z) : value -> Z -> Z -> Prop :=
| xr_int z : xrep w (VInt z) 0 z
| xr_obj tn tag fs q a : tag_word tn tag fs a -> xflds w fs q -> xrep w (VObj tn tag fs) q a
| xr_clo tn cls ce q a : CLO a tn cls (ctx_of_env ce) -> xflds w (map snd ce) q -> xrep w (VClo tn cls ce) q a
with xflds (w : Z -> Z) : list value -> Z -> Prop :=
| xf_nil : xflds w [] 0
| xf_cons fs q :
    fs <> [] ->
    Forall is_blk (wblocks (Heap.nlinks (List.length fs)) w q) ->
    (forall j, (j < List.length (waddrs (Heap.nlinks (List.length fs)) w q) - List.length fs)%nat ->
       w (nth j (waddrs (Heap.nlinks (List.length fs)) w q) 0) = 0) ->
    xreps w fs (skipn (List.length (waddrs (Heap.nlinks (List.length fs)) w q) - List.length fs)
                      (waddrs (Heap.nlinks (List.length fs)) w q)) ->
    xflds w fs q
with xreps (w : Z -> Z) : list value -> list Z -> Prop :=
| xs_nil : xreps w [] []
| xs_cons v vs a al : xrep w v (w a) (w (a + 8)) -> xreps w vs al -> xreps w (v :: vs) (a :: al).

Scheme xrep_ind3 := Induction for xrep Sort Prop
  with xflds_ind3 := Induction for xflds Sort Prop
  with xreps_ind3 := Induction for xreps Sort Prop.
Combined Scheme xrep_mutind from xrep_ind3, xflds_ind3, xreps_ind3.

Lemma xreps_length w vs al : xreps w vs al -> List.length al = List.length vs.
Proof. induction 1; cbn; auto. Qed.
Lemma xreps_nth w vs al : xreps w vs al -> forall i v, nth_error vs i = Some v ->
  exists a, nth_error al i = Some a /\ xrep w v (w a) (w (a + 8)).
Proof.
  induction 1 as [|v0 vs a al H0 H IH]; intros i v Hi; [destruct i; discriminate|].
  destruct i as [|i]; cbn [nth_error] in *; [inversion Hi; subst; eauto|eauto].
Qed.
Lemma xreps_intro w : forall vs al, List.length al = List.length vs ->
  (forall i v a, nth_error vs i = Some v -> nth_error al i = Some a -> xrep w v (w a) (w (a + 8))) -> xreps w vs al.
Proof.
  induction vs as [|v vs IH]; intros [|a al] L H; cbn in L; try discriminate; constructor.
  - apply (H O); reflexivity.
  - apply IH; [lia|]. intros i v' a' Hv Ha. apply (H (S i)); assumption.
Qed.

(* ---------- the chain functions read non-header words of blocks only ---------- *)
Lemma wchain_ext w w' : (forall a, ~ is_blk a -> w' a = w a) ->
  forall k q, Forall is_blk (wblocks k w q) -> wblocks k w' q = wblocks k w q /\ waddrs k w' q = waddrs k w q.
Proof.
  intros E. induction k as [|k IH]; intros q FB; cbn [wblocks waddrs]; [auto|].
  cbn [wblocks] in FB. inversion FB as [|? ? Hq FB']; subst.
  rewrite (E (q + 48)) by (apply not_blk_off; [exact Hq|lia]).
  destruct (IH _ FB') as [A B]. now rewrite A, B.
Qed.
(* every slot address of a chain is a field slot of one of its blocks *)
Lemma waddrs_in w : forall k q a, In a (waddrs k w q) ->
  exists b, In b (wblocks k w q) /\ (a = b + 16 \/ a = b + 32 \/ a = b + 48).
Proof.
  induction k as [|k IH]; intros q a Ha; cbn [waddrs wblocks app In] in *.
  - exists q. split; [now left|]. destruct Ha as [<-|[<-|[<-|[]]]]; auto.
  - destruct Ha as [<-|[<-|Ha]]; [exists q; split; [now left|auto]|exists q; split; [now left|auto]|].
    destruct (IH _ _ Ha) as (b & Hb & Hab). exists b. split; [now right|exact Hab].
Qed.
Lemma in_skipn_in {X} (l : list X) : forall n x, In x (skipn n l) -> In x l.
Proof. induction l as [|y l IH]; intros [|n] x H; cbn in *; auto. right. eauto. Qed.
Lemma waddrs_not_blk w k q a : Forall is_blk (wblocks k w q) -> In a (waddrs k w q) -> ~ is_blk a /\ ~ is_blk (a + 8).
Proof.
  intros FB Ha. destruct (waddrs_in w k q a Ha) as (b & Hb & Hab). rewrite Forall_forall in FB. specialize (FB b Hb).
  destruct Hab as [->|[->| ->]]; split; try (apply not_blk_off; [exact FB|lia]);
    rewrite <- Z.add_assoc; apply not_blk_off; try exact FB; lia.
Qed.

(* a representation survives every change of block headers *)
Lemma xrep_ext_mut w w' : (forall a, ~ is_blk a -> w' a = w a) ->
  (forall v q a, xrep w v q a -> xrep w' v q a) /\
  (forall fs q, xflds w fs q -> xflds w' fs q) /\
  (forall vs al, xreps w vs al -> (forall a, In a al -> ~ is_blk a /\ ~ is_blk (a + 8)) -> xreps w' vs al).
Proof.
  intros E. apply xrep_mutind.
  - intros z. constructor.
  - intros tn tag fs q a T _ IH. now constructor.
  - intros tn cls ce q a C _ IH. now constructor.
  - constructor.
  - intros fs q NE FB Z0 XS IH.
    destruct (wchain_ext w w' E _ _ FB) as [EB EA].
    apply xf_cons; rewrite ?EB, ?EA; auto.
    + intros j Hj. rewrite E; [now apply Z0|].
      apply (waddrs_not_blk w (Heap.nlinks (List.length fs)) q); [exact FB|]. apply nth_In. lia.
    + apply IH. intros a Ha. apply (waddrs_not_blk w (Heap.nlinks (List.length fs)) q); [exact FB|].
      eapply in_skipn_in; eauto.
  - intros _. constructor.
  - intros v vs a al X IH1 XS IH2 NB. constructor.
    + destruct (NB a (or_introl eq_refl)) as [N1 N2]. rewrite (E a N1), (E (a + 8) N2). exact IH1.
    + apply IH2. intros a' Ha'. apply NB. now right.
Qed.
Lemma xrep_ext w w' v q a : (forall a, ~ is_blk a -> w' a = w a) -> xrep w v q a -> xrep w' v q a.
Proof. intros E. apply (proj1 (xrep_ext_mut w w' E)). Qed.
Lemma xflds_ext w w' fs q : (forall a, ~ is_blk a -> w' a = w a) -> xflds w fs q -> xflds w' fs q.
Proof. intros E. apply (proj1 (proj2 (xrep_ext_mut w w' E))). Qed.

(* the pointer word of a represented value is null or a block of the heap region *)
Lemma xflds_ptr w fs q : xflds w fs q -> q = 0 \/ is_blk q.
Proof.
  destruct 1 as [|fs q NE FB _ _]; [now left|right].
  destruct (Heap.nlinks (List.length fs)); cbn [wblocks] in FB; inversion FB; assumption.
Qed.
Lemma xrep_ptr w v q a : xrep w v q a -> q = 0 \/ is_blk q.
Proof. destruct 1; [now left|eapply xflds_ptr; eauto|eapply xflds_ptr; eauto]. Qed.
Lemma xflds_nil_inv w q : xflds w [] q -> q = 0.
Proof. inversion 1; [reflexivity|congruence]. Qed.
Lemma xflds_cons_inv w fs q : xflds w fs q -> fs <> [] ->
  is_blk q /\ Forall is_blk (wblocks (Heap.nlinks (List.length fs)) w q) /\
  (forall j, (j < List.length (waddrs (Heap.nlinks (List.length fs)) w q) - List.length fs)%nat ->
     w (nth j (waddrs (Heap.nlinks (List.length fs)) w q) 0) = 0) /\
  xreps w fs (skipn (List.length (waddrs (Heap.nlinks (List.length fs)) w q) - List.length fs)
                    (waddrs (Heap.nlinks (List.length fs)) w q)).
Proof.
  intros H NE. destruct H as [|fs q _ FB Z0 XS]; [congruence|]. split; [|auto].
  destruct (Heap.nlinks (List.length fs)); cbn [wblocks] in FB; inversion FB; assumption.
Qed.

(* ---------- positions ---------- *)
Inductive hvrep (s : xstate) (sp : Z) (i : nat) : binding -> value -> Z -> Prop :=
| hv_int b z q t :
    bchi b = Ext -> bty b = I64 -> xtpos Snd i = Ok t -> lget s sp t = Some z -> hvrep s sp i b (VInt z) q
| hv_ptr b v q a t1 t2 :
    bchi b <> Ext -> chi_of v = bchi b -> ty_of v = bty b ->
    xtpos Fst i = Ok t1 -> xtpos Snd i = Ok t2 -> lget s sp t1 = Some q -> lget s sp t2 = Some a ->
    xrep (hword s) v q a -> hvrep s sp i b v q.

Record hrel (c : ctx) (he : henv) (hs : Heap.st) (s : xstate) (sp : Z) : Prop := mk_hrel {
  hr_frame : frame_ok s sp;
  hr_align : sp mod 16 = 8;
  hr_room : STACK_LIMIT + 128 <= sp;
  hr_heapreg : rget s HEAP = Some (Heap.heap hs);
  hr_freereg : rget s FREE = Some (Heap.free hs);
  hr_heq : heq (abs_heap (Heap.frontier hs) s) hs;
  hr_ids : env_ids (erase_env he) = ids c;
  hr_nodup : NoDup (ids c);
  hr_vals : forall i x v q, nth_error he i = Some (x, v, q) -> exists b, nth_error c i = Some b /\ hvrep s sp i b v q
}.

Lemma hrel_length c he hs s sp : hrel c he hs s sp -> List.length he = List.length c.
Proof.
  intros R. pose proof (hr_ids _ _ _ _ _ R) as H. apply (f_equal (@List.length N)) in H.
  unfold env_ids, ids, erase_env in H. now rewrite !map_length in H.
Qed.

Lemma hword_heap s s' a : heap s' = heap s -> hword s' a = hword s a.
Proof. intros E. unfold hword. now rewrite E. Qed.

Lemma hvrep_keep s s' sp i b v q :
  heap s' = heap s ->
  (forall n t, allowed n b -> xtpos n i = Ok t -> lget s' sp t = lget s sp t) -> hvrep s sp i b v q -> hvrep s' sp i b v q.
Proof.
  intros HE K V. destruct V as [b z q t A B T L|b v q a t1 t2 A K1 K2 T1 T2 L1 L2 X].
  - eapply hv_int; eauto. rewrite (K Snd _ (or_introl eq_refl) T). exact L.
  - assert (AL : forall n, allowed n b) by (intros n; right; exact A).
    apply (hv_ptr s' sp i b v q a t1 t2); auto.
    + rewrite (K Fst t1 (AL Fst) T1). exact L1.
    + rewrite (K Snd t2 (AL Snd) T2). exact L2.
    + apply (xrep_ext (hword s) (hword s')); [intros a0 _; apply hword_heap; exact HE|exact X].
Qed.
Lemma hvrep_kind s sp i b b' v q : bchi b' = bchi b -> bty b' = bty b -> hvrep s sp i b v q -> hvrep s sp i b' v q.
Proof.
  intros K T V. destruct V as [b z q t A B T0 L|b v q a t1 t2 A K1 K2 T1 T2 L1 L2 X].
  - eapply hv_int; eauto; congruence.
  - eapply hv_ptr; eauto; congruence.
Qed.

Lemma heq_same_heap F s s' hs :
  heap s' = heap s -> rget s' HEAP = rget s HEAP -> rget s' FREE = rget s FREE ->
  heq (abs_heap F s) hs -> heq (abs_heap F s') hs.
Proof.
  intros HE RH RF. apply heq_eqB. unfold abs_heap, reg_or0. rewrite RH, RF.
  split; [reflexivity|]. split; [reflexivity|]. split; [reflexivity|].
  intros x _. unfold abs_mem. cbn [Heap.m]. now rewrite !(hword_heap s s') by exact HE.
Qed.

(* a state change that keeps the heap, the allocator registers and every live variable location keeps the relation *)
Lemma hrel_keep c he hs s s' sp :
  hrel c he hs s sp -> frame_ok s' sp -> heap s' = heap s ->
  rget s' HEAP = rget s HEAP -> rget s' FREE = rget s FREE ->
  (forall i b n t, nth_error c i = Some b -> allowed n b -> xtpos n i = Ok t -> lget s' sp t = lget s sp t) ->
  hrel c he hs s' sp.
Proof.
  intros R F HE RH RF K. destruct R as [F0 Al Ro Hr Fr HQ Ids ND Vals]. split; auto.
  - now rewrite RH.
  - now rewrite RF.
  - eapply heq_same_heap; eauto.
  - intros i x v q Hn. destruct (Vals i x v q Hn) as (b & Hb & V). exists b. split; [exact Hb|].
    eapply hvrep_keep; [exact HE| |exact V]. intros n t AL T. apply (K i b n t); auto.
Qed.

(* reading an integer operand *)
Lemma hlookup_nth (he : henv) x v :
  AxSem.lookup (erase_env he) x = Some v -> exists i y q, nth_error he i = Some (y, v, q) /\ idn y = x.
Proof.
  induction he as [|[[y w] q] he IH]; cbn; [discriminate|].
  destruct (N.eqb_spec (idn y) x) as [E|E].
  - intros H; inversion H; subst. exists O, y, q. cbn. auto.
  - intros H. destruct (IH H) as (i & y' & q' & Hn & Hy). exists (S i), y', q'. cbn. auto.
Qed.
Lemma henv_ctx_nth c (he : henv) i y v q :
  env_ids (erase_env he) = ids c -> nth_error he i = Some (y, v, q) -> exists b, nth_error c i = Some b /\ idn (bvar b) = idn y.
Proof.
  intros E H. apply (env_ctx_nth c (erase_env he) i y v E).
  unfold erase_env. now rewrite (map_nth_error _ _ _ H).
Qed.
Lemma hrel_lookup c he hs s sp a x :
  hrel c he hs s sp -> lookup_int (erase_env he) a = Some x ->
  exists i b t, nth_error c i = Some b /\ idn (bvar b) = idn a /\ xtpos Snd i = Ok t /\ lget s sp t = Some x.
Proof.
  intros R H. unfold lookup_int, lookup_id in H.
  destruct (AxSem.lookup (erase_env he) (idn a)) as [[z| |]|] eqn:L; try discriminate.
  inversion H; subst z. destruct (hlookup_nth he (idn a) (VInt x) L) as (i & y & q & Hn & Hy).
  destruct (henv_ctx_nth c he i y _ q (hr_ids _ _ _ _ _ R) Hn) as (b & Hb & Eb).
  destruct (hr_vals _ _ _ _ _ R i y _ q Hn) as (b' & Hb' & V). assert (b' = b) by congruence. subst b'.
  inversion V; subst.
  - exists i, b, t. repeat split; auto. congruence.
  - match goal with K : chi_of (VInt x) = bchi b |- _ => cbn in K end. congruence.
Qed.

(* extending the environment by a new last integer variable whose temporary has been written *)
Lemma hrel_push c he hs s s' sp v z t :
  hrel c he hs s sp -> NoDup (ids (c ++ [mkb v Ext I64])) ->
  xtpos Snd (List.length c) = Ok t -> lget s' sp t = Some z -> preserved s s' sp t ->
  hrel (c ++ [mkb v Ext I64]) (he ++ [(v, VInt z, 0)]) hs s' sp.
Proof.
  intros R ND Ht Hv (PR & HE & _ & F').
  pose proof (hrel_length _ _ _ _ _ R) as LEN. destruct R as [F0 Al Ro Hr Fr HQ Ids ND0 Vals].
  destruct (xtpos_ok _ _ _ Ht) as (_ & _ & _ & NF & NH).
  assert (RH : rget s' HEAP = rget s HEAP).
  { apply (PR (XR HEAP)); [cbn; discriminate|congruence|discriminate]. }
  assert (RF : rget s' FREE = rget s FREE).
  { apply (PR (XR FREE)); [cbn; discriminate|congruence|discriminate]. }
  split; auto.
  - now rewrite RH.
  - now rewrite RF.
  - eapply heq_same_heap; eauto.
  - unfold env_ids, ids, erase_env in *. rewrite !map_app. f_equal. exact Ids.
  - intros i x w q Hn. destruct (Nat.lt_ge_cases i (List.length he)) as [L|L].
    + rewrite nth_error_app1 in Hn by exact L. destruct (Vals i x w q Hn) as (b & Hb & V).
      exists b. split; [rewrite nth_error_app1 by lia; exact Hb|].
      eapply hvrep_keep; [exact HE| |exact V]. intros n t0 _ T0.
      destruct (xtpos_ok _ _ _ T0) as (A & B & _). apply PR; auto.
      intros E; subst t0. destruct (SubstGraph.tpos_inj x86_backend x86_backend_ok _ _ _ _ _ T0 Ht) as [_ E]. lia.
    + rewrite nth_error_app2 in Hn by exact L. destruct (i - List.length he)%nat as [|k] eqn:K; cbn in Hn; [|destruct k; discriminate].
      inversion Hn; subst. exists (mkb x Ext I64). split.
      * rewrite nth_error_app2 by lia. replace (i - List.length c)%nat with O by lia. reflexivity.
      * eapply hv_int; eauto. replace i with (List.length c) by lia. exact Ht.
Qed.

(* dropping the last variable *)
Lemma hrel_prefix c0 b he0 en hs s sp : hrel (c0 ++ [b]) (he0 ++ [en]) hs s sp -> hrel c0 he0 hs s sp.
Proof.
  intros R. pose proof (hrel_length _ _ _ _ _ R) as LEN. rewrite !app_length in LEN. cbn [List.length] in LEN.
  destruct R as [F Al Ro Hr Fr HQ Ids ND Vals]. split; auto.
  - unfold env_ids, ids, erase_env in *. rewrite !map_app in Ids. cbn [map] in Ids. apply app_inj_tail in Ids. tauto.
  - unfold ids in *. rewrite map_app in ND. clear -ND. induction (map (fun b => idn (bvar b)) c0) as [|x l IH]; cbn in *; [constructor|].
    inversion ND; subst. constructor; auto. intros I. apply H1. apply in_app_iff. now left.
  - intros i x v q Hi. assert (Li : (i < List.length he0)%nat) by (apply nth_error_Some; congruence).
    destruct (Vals i x v q) as (b' & Hb' & V); [rewrite nth_error_app1 by exact Li; exact Hi|].
    exists b'. split; [|exact V]. rewrite nth_error_app1 in Hb' by lia. exact Hb'.
Qed.
End HRel.

Arguments hr_frame {types CLO c he hs s sp}.
Arguments hr_align {types CLO c he hs s sp}.
Arguments hr_room {types CLO c he hs s sp}.
Arguments hr_heapreg {types CLO c he hs s sp}.
Arguments hr_freereg {types CLO c he hs s sp}.
Arguments hr_heq {types CLO c he hs s sp}.
Arguments hr_ids {types CLO c he hs s sp}.
Arguments hr_nodup {types CLO c he hs s sp}.
Arguments hr_vals {types CLO c he hs s sp}.
Arguments hrel_length {types CLO c he hs s sp}.
