(* C07, forward simulation of the AArch64 code generator, part 3: programs of the integer fragment.
   - the frame above the spill area (X19-X30 stored by the prologue) as "the stack above sp + SPILL_SPACE is
     what the prologue left";
   - progress: a linearly well-typed statement never gets stuck under the relation;
   - `sim_exec`: by induction on the fuel of the linear machine, the code emitted for a statement, placed
     in an image in which the definitions' labels and `cleanup` resolve, runs to the machine's observation
     (results and undefined operations; print trace included).  Port of Proof/X86SimProg.v. *)
From Coq Require Import List ZArith NArith String Bool Lia FMapPositive.
From SCC Require Import Base.Sexp Lang.AxSyn Sem.AxSem Model.ParMoves Model.Backend Model.A64 Sem.A64Sem
     Model.Linearize Model.LinCheck Generated.Constants Proof.LinBasics
     Proof.A64State Proof.A64ImmHw Proof.A64Imm Proof.A64Sel Proof.A64PM Proof.A64Exec
     Proof.A64MemSubst Proof.SubstGraph Proof.SubstBackends Proof.A64Subst Proof.A64Wf Proof.A64Print
     Proof.A64SimRel Proof.A64SimStmt.
Import ListNotations.
Open Scope Z_scope.
Open Scope list_scope.

(* ---------- the frame above the spill area ---------- *)
(* st0 = the stack as the prologue left it: the words at and above sp + SPILL_SPACE hold X19..X29, X30 *)
Definition outer_ok (st0 : PM.t Z) (sp : Z) (s : astate) : Prop :=
  forall k, sp + SPILL_SPACE <= Z.pos k - 1 -> PM.find k (stack s) = PM.find k st0.

Lemma above_eq_outer st0 s s' sp : above_eq s s' sp -> outer_ok st0 sp s -> outer_ok st0 sp s'.
Proof.
  intros (_ & K) O k Hk. rewrite K; [apply O; exact Hk|]. change SPILL_SPACE with 2048 in Hk. lia.
Qed.
Lemma frame_eq_outer st0 s s' sp : sp_ok sp -> frame_eq s s' sp -> outer_ok st0 sp s -> outer_ok st0 sp s'.
Proof.
  intros SPK (_ & _ & K) O k Hk. rewrite K; [apply O; exact Hk|].
  intros p P E. destruct (slot_addr_facts sp p SPK P) as (_ & _ & _ & _ & NN).
  subst k. unfold key in Hk. rewrite Z2Pos.id in Hk by lia.
  unfold slot_addr, stack_offset in Hk. lia.
Qed.

(* ---------- progress: a linearly well-typed statement of the fragment does not get stuck ---------- *)
Lemma has_ext_lookup_int CL c e st sp a : rel CL c e st sp -> has_ext c a = true -> exists x, lookup_int e a = Some x.
Proof.
  intros R H. unfold has_ext, has in H. destruct (lookup_b c (idn a)) as [b|] eqn:L; [|discriminate].
  apply lookup_b_Some in L as [Hin Hid]. apply andb_true_iff in H as [K T]. apply chi_eqb_eq in K. apply ty_eqb_eq in T.
  assert (I : In (idn a) (env_ids e)).
  { rewrite (rel_ids R), <- Hid. now apply In_ids. }
  destruct (lookup_of_in e _ I) as (v & Lv). destruct (lookup_nth e _ _ Lv) as (i & y & Hi & Ey).
  destruct (rel_vals R i y v Hi) as (b' & Hb' & V).
  destruct (env_ctx_nth c e i y v (rel_ids R) Hi) as (b0 & Hb0 & Eb0). assert (b0 = b') by congruence. subst b0.
  apply In_nth_error in Hin as (i' & Hi').
  assert (i' = i) by (eapply (ids_nth_inj c i' i b b'); eauto using (rel_nodup R); congruence). subst i'.
  assert (b' = b) by congruence. subst b'.
  inversion V; subst; [|congruence]. exists z. unfold lookup_int, lookup_id. now rewrite Lv.
Qed.
Lemma has_lookup_id CL c e st sp a k t : rel CL c e st sp -> has c a k t = true -> exists v, lookup_id e a = Some v.
Proof.
  intros R H. unfold has in H. destruct (lookup_b c (idn a)) as [b|] eqn:L; [|discriminate].
  apply lookup_b_Some in L as [Hin Hid]. apply lookup_of_in. rewrite (rel_ids R), <- Hid. now apply In_ids.
Qed.

Lemma stmt_int_cf s : stmt_int s = true -> stmt_cf s = true.
Proof.
  induction s using stmt_ind2; cbn [stmt_int stmt_cf]; intros SI; try discriminate; auto.
  - apply andb_true_iff in SI as [A B]. rewrite (IHs B), andb_true_r.
    rewrite forallb_forall in *. intros q Hq. specialize (A q Hq). unfold is_int_binding in A. unfold is_cf_binding.
    destruct (bchi (fst q)), (bty (fst q)); auto; discriminate.
  - apply andb_true_iff in SI as [A B]. now rewrite IHs1, IHs2.
Qed.

(* ---------- the simulation, by induction on the fuel of the linear machine ---------- *)
Section Main.
Variable im : image.
Variable p : prog.
Variable sp : Z.
Variable CL : Z -> ident -> list clause -> Prop.
Variable st0 : PM.t Z.
Local Notation rel := (rel CL).
Local Notation outer_ok := (outer_ok st0 sp).
Hypothesis DEFS : forall d, In d (pdefs p) ->
  exists pcd lcd cd lcd', find_label (labels im) (show_ident (dname d) +++ "_") = Some pcd /\
    PM.find pcd (code im) = Some (LAB (show_ident (dname d) +++ "_")) /\
    acs (ptypes p) (dbody d) (dctx d) lcd = Ok (cd, lcd') /\
    code_at im (Pos.succ pcd) cd /\ labels_at_nh im (Pos.succ pcd) cd.
(* `cleanup` resolves, and from there the run ends with the value of X0 (Proof/A64SimTop.v: epilogue_ok) *)
Hypothesis CLEAN : exists pcc, find_label (labels im) "cleanup" = Some pcc /\
  forall s z, frame_ok s sp -> outer_ok s -> rget s RETURN1 = Some z -> finishes im pcc s (finish (out s) (OExit z)).
Hypothesis LIN : forall d, In d (pdefs p) -> lin_check (sigs_of p) (dctx d) (dbody d) = true.
Hypothesis INT : forall d, In d (pdefs p) -> def_int d = true.
Hypothesis LITS : forall d, In d (pdefs p) -> stmt_lits (dbody d) = true.

Lemma sim_exec : forall fuel s c e ot st pc code lc lc',
  stmt_int s = true -> stmt_lits s = true -> ctx_int c = true -> lin_check (sigs_of p) c s = true ->
  acs (ptypes p) s c lc = Ok (code, lc') -> code_at im pc code -> labels_at_nh im pc code ->
  rel c e st sp -> outer_ok st -> out st = ot ->
  not_oof (exec_linear fuel p e s ot) -> finishes im pc st (exec_linear fuel p e s ot).
Proof.
  induction fuel as [|fuel IH]; intros s c e ot st pc code lc lc' SI SL CI LC CS CA LA R OK OUT G.
  { exfalso. apply G. reflexivity. }
  pose proof (rel_frame R) as F. pose proof (proj2 F) as SPOK.
  destruct s as [re next|label args|v t tag args next|v t cls|v t env cls next|v tag t args|n v next|a op b v next|nl v next|so a b thenc elsec|v];
    cbn [stmt_int] in SI; try discriminate; cbn [exec_linear] in G |- *; cbn [stmt_lits] in SL.
  - (* Substitute *)
    apply andb_true_iff in SI as [SI1 SI2].
    cbn [lin_check] in LC. apply andb_true_iff in LC as [_ LC]. apply andb_true_iff in LC as [LCs LC].
    destruct (lookups_total e (map snd re)) as (vs & LK & LV).
    { intros x Hx. apply in_map_iff in Hx as (q & <- & Hq). rewrite forallb_forall in LCs. eapply (has_lookup_id CL); eauto. }
    destruct (bind_total (map (fun r : binding * ident => bvar (fst r)) re) vs) as (e' & BD); [rewrite LV, !map_length; reflexivity|].
    rewrite LK, BD in G |- *.
    destruct (cs_substitute _ _ _ _ _ _ _ CS) as (c1 & lc1 & c2 & c3 & WC & CE & NX & ->).
    assert (NDn : NoDup (new_ids re)) by (rewrite <- ids_new; exact (lin_nodup _ _ _ LC)).
    rewrite app_assoc in CA, LA. apply code_at_app in CA as [CA2 CA3]. apply labels_at_nh_app in LA as [LA2 LA3].
    destruct (sim_substitute im CL c e st sp re vs e' c1 lc lc1 c2 pc R NDn) as (s' & X & R' & FE); auto.
    { intros q Hq. rewrite forallb_forall in LCs. exact (LCs q Hq). }
    eapply exec_to_finishes; [exact X|].
    eapply (IH next (map fst re) e' ot s'); eauto.
    + unfold ctx_int. rewrite forallb_forall in *. intros b Hb. apply in_map_iff in Hb as (q & <- & Hq). auto.
    + eapply frame_eq_outer; eauto.
    + destruct FE as (_ & O & _). congruence.
  - (* Call *)
    cbn [lin_check] in LC. apply andb_true_iff in LC as [_ LC].
    destruct (lookup_label (sigs_of p) label) as [ps|] eqn:LL; [|discriminate].
    destruct (lookup_label_find_def p label ps LL) as (d & FD & <-).
    destruct (bind_total (vars (dctx d)) (map snd e)) as (e' & BD).
    { apply sig_match_iff, same_kt_length in LC. unfold vars. rewrite !map_length, (rel_length R). auto. }
    rewrite FD, BD in G |- *.
    unfold find_def in FD. apply find_some in FD as [IN EQ]. apply ident_eqb_eq in EQ. subst label.
    destruct (cs_call _ _ _ _ _ _ _ CS) as (-> & _).
    destruct (DEFS d IN) as (pcd & lcd & cd & lcd' & FL & CLb & CSd & CAd & LAd).
    apply code_at_cons in CA as [CJ _].
    eapply exec_to_finishes.
    { eapply exec_jump; [exact CJ|cbn [step]; unfold goto_label; rewrite FL; reflexivity|].
      eapply exec_next; [exact CLb|reflexivity|apply exec_refl]. }
    pose proof (INT d IN) as INTd. unfold def_int in INTd. apply andb_true_iff in INTd as [I1 I2].
    eapply (IH (dbody d) (dctx d) e' ot st); eauto.
    eapply bind_rel; eauto. exact (lin_nodup _ _ _ (LIN d IN)).
  - (* Literal *)
    apply andb_true_iff in SL as [SLn SL].
    cbn [lin_check] in LC. apply andb_true_iff in LC as [_ LC].
    destruct (cs_literal _ _ _ _ _ _ _ _ CS) as (tv & c2 & TV & NX & ->).
    destruct (sim_literal im CL c e st sp n v tv R (lin_nodup _ _ _ LC) (proj1 (lit_i64_in64 n) SLn) TV) as (s' & E & R' & FE).
    apply code_at_app in CA as [CA1 CA2]. apply labels_at_nh_app in LA as [_ LA2].
    eapply exec_to_finishes; [apply (run_straight_exec_to im _ pc st s' CA1 E)|].
    eapply (IH next (c ++ [mkb v Ext I64]) _ ot s'); eauto.
    + unfold ctx_int in *. rewrite forallb_app, CI. reflexivity.
    + eapply frame_eq_outer; eauto.
    + destruct FE as (_ & O & _). congruence.
  - (* Op *)
    cbn [lin_check] in LC. apply andb_true_iff in LC as [_ LC]. apply andb_true_iff in LC as [LCo LC].
    apply andb_true_iff in LCo as [HA HB].
    destruct (has_ext_lookup_int CL c e st sp a R HA) as (x & LA1).
    destruct (has_ext_lookup_int CL c e st sp b R HB) as (y & LB1).
    rewrite LA1, LB1 in G |- *.
    destruct (cs_op _ _ _ _ _ _ _ _ _ _ CS) as (tv & ta & tb & c2 & TV & TA & TB & NX & ->).
    apply code_at_app in CA as [CA1 CA2]. apply labels_at_nh_app in LA as [_ LA2].
    destruct (eval_op op x y) as [z|w] eqn:EV.
    + destruct (sim_op im CL c e st sp a op b v x y z tv ta tb R (lin_nodup _ _ _ LC) LA1 LB1 EV TV TA TB) as (s' & E & R' & FE).
      eapply exec_to_finishes; [apply (run_straight_exec_to im _ pc st s' CA1 E)|].
      eapply (IH next (c ++ [mkb v Ext I64]) _ ot s'); eauto.
      * unfold ctx_int in *. rewrite forallb_app, CI. reflexivity.
      * eapply frame_eq_outer; eauto.
      * destruct FE as (_ & O & _). congruence.
    + destruct (sim_op_undef im CL c e st sp a op b v x y w tv ta tb R (lin_nodup _ _ _ LC) LA1 LB1 EV TV TA TB) as (s' & E & O).
      rewrite <- OUT, <- O. eapply exec_undef_finishes; eauto.
  - (* PrintI64 *)
    cbn [lin_check] in LC. apply andb_true_iff in LC as [_ LC]. apply andb_true_iff in LC as [HV LC].
    destruct (has_ext_lookup_int CL c e st sp v R HV) as (z & LV).
    rewrite LV in G |- *.
    destruct (cs_print _ _ _ _ _ _ _ _ CS) as (tv & c2 & TV & NX & ->).
    destruct (sim_print im CL c e st sp nl v z tv R LV TV) as (s' & E & R' & O & AE).
    apply code_at_app in CA as [CA1 CA2]. apply labels_at_nh_app in LA as [_ LA2].
    eapply exec_to_finishes; [apply (run_straight_exec_to im _ pc st s' CA1 E)|].
    eapply (IH next c e ((nl, z) :: ot) s'); eauto.
    + eapply above_eq_outer; eauto.
    + congruence.
  - (* IfC *)
    apply andb_true_iff in SI as [SI1 SI2]. apply andb_true_iff in SL as [SL1 SL2].
    cbn [lin_check] in LC. apply andb_true_iff in LC as [_ LC].
    apply andb_true_iff in LC as [LC LCe]. apply andb_true_iff in LC as [LCo LCt]. apply andb_true_iff in LCo as [HA HB].
    destruct (has_ext_lookup_int CL c e st sp a R HA) as (x & LA1).
    assert (LB1 : exists y, match b with Some b0 => lookup_int e b0 | None => Some 0 end = Some y).
    { destruct b as [b|]; [|eauto]. exact (has_ext_lookup_int CL c e st sp b R HB). }
    destruct LB1 as (y & LB1). rewrite LA1, LB1 in G |- *.
    destruct (sim_ifc im CL c e st sp so a b x y (ptypes p) thenc elsec lc code lc' pc R LA1 LB1 CS CA LA)
      as (c1 & c2 & lc2 & c3 & s' & -> & EL & TH & X & R' & FE).
    assert (OK' : outer_ok s') by (eapply frame_eq_outer; eauto).
    assert (O' : out s' = ot) by (destruct FE as (_ & O & _); congruence).
    eapply exec_to_finishes; [exact X|].
    apply code_at_app in CA as [_ CA]. apply code_at_app in CA as [CA2 CA]. apply code_at_app in CA as [_ CA3].
    apply labels_at_nh_app in LA as [_ LA]. apply labels_at_nh_app in LA as [LA2 LA]. apply labels_at_nh_app in LA as [_ LA3].
    rewrite <- !padd_add in CA3, LA3. cbn [List.length] in CA3, LA3. rewrite Nat.add_assoc in CA3, LA3.
    destruct (eval_cmp so x y).
    + eapply (IH thenc c e ot s'); eauto.
    + eapply (IH elsec c e ot s'); eauto.
  - (* Exit *)
    cbn [lin_check] in LC. apply andb_true_iff in LC as [_ HV].
    destruct (has_ext_lookup_int CL c e st sp v R HV) as (z & LV).
    rewrite LV in G |- *.
    destruct (cs_exit _ _ _ _ _ _ CS) as (tv & TV & -> & _).
    destruct (sim_exit_mov im CL c e st sp v z tv R LV TV) as (s' & E & RAX & F' & FE).
    apply code_at_app in CA as [CA1 CA2]. apply code_at_cons in CA2 as [CJ _].
    destruct CLEAN as (pcc & FL & EPI).
    eapply exec_to_finishes; [apply (run_straight_exec_to im _ pc st s' CA1 E)|].
    eapply exec_to_finishes.
    { eapply exec_jump; [exact CJ|cbn [step]; unfold goto_label; rewrite FL; reflexivity|apply exec_refl]. }
    replace ot with (out s') by (destruct FE as (_ & O & _); congruence).
    apply EPI; auto. eapply frame_eq_outer; eauto.
Qed.
End Main.
