(* The operation-trace theorem for the abstract allocator (every state reachable by operations
   whose preconditions hold satisfies the strengthened invariant), the derived classification of
   the blocks below the frontier with its consequences (C09), and the footprint theorems (C10). *)
From Coq Require Import List ZArith Lia Bool Permutation.
From SCC Require Import Model.Heap Proof.HeapMore.
Import ListNotations.
Open Scope Z_scope.

(* ---------- multiset subtraction on the ghost roots ---------- *)
Definition sub_ok (xs R : list Z) : Prop := forall b, cnt xs b <= cnt R b.

Lemma rem1_perm x l : In x l -> Permutation l (x :: rem1 x l).
Proof.
  induction l as [|y l IH]; cbn; [tauto|]. intros H. destruct (Z.eq_dec x y) as [->|Hne]; [reflexivity|].
  destruct H as [->|H]; [congruence|]. etransitivity; [apply perm_skip, IH, H|apply perm_swap].
Qed.
Lemma msub_perm : forall xs R, sub_ok xs R -> Permutation R (xs ++ msub R xs).
Proof.
  induction xs as [|x xs IH]; intros R H; cbn; [reflexivity|].
  assert (In x R) as Hin.
  { apply cnt_pos_in. specialize (H x). rewrite cnt_cons in H. destruct (Z.eq_dec x x); [|congruence].
    pose proof (cnt_nonneg xs x). lia. }
  pose proof (rem1_perm x R Hin) as HP.
  etransitivity; [exact HP|]. apply perm_skip. apply IH.
  intros b. specialize (H b). rewrite cnt_cons in H. rewrite (cnt_perm _ _ b HP), cnt_cons in H. lia.
Qed.

(* ---------- preconditions ---------- *)
Definition pre (s : st) (R : list Z) (o : op) : Prop :=
  match o with
  | OShare p n => 0 <= n /\ (p = 0 \/ In p R)
  | OErase p => p = 0 \/ In p R
  | OAlloc sl => sub_ok (nz sl) R
  | OLoadRelease p => p <> 0 /\ In p R /\ hdr (m s p) = 0
  | OLoadShare p => p <> 0 /\ In p R /\ hdr (m s p) <> 0
  | OLoad p => p <> 0 /\ In p R
  | OAllocObj f => sub_ok (nz f) R
  | OLoadObjRelease k p => In p R /\ obj_ok k (m s) p
  | OLoadObjShare k p => In p R /\ hdr (m s p) <> 0 /\ links_ok k (m s) p
  | OLoadObj k p => In p R /\ links_ok k (m s) p /\ (hdr (m s p) = 0 -> obj_ok k (m s) p)
  end.

Fixpoint pre_trace (s : st) (R : list Z) (ops : list op) : Prop :=
  match ops with
  | [] => True
  | o :: r => pre s R o /\ pre_trace (step s o) (ghost s R o) r
  end.

(* ---------- one operation ---------- *)
Definition fr_step (s s' : st) (hl' : list Z) : Prop :=
  frontier s' = frontier s \/ (frontier s < frontier s' /\ length hl' = 1%nat).
Lemma fr_rel_step s hl s' hl' : fr_rel s hl s' hl' -> fr_step s s' hl'.
Proof. intros [[A _]|[A B]]; [now left|right; auto]. Qed.

Lemma links_ok_head k mm p : links_ok k mm p -> p <> 0.
Proof. intros H. apply H. destruct k; now left. Qed.

Theorem heap_inv_step base s R hl fl cl o :
  InvA base s R hl fl cl -> pre s R o ->
  exists hl' fl' cl', InvA base (step s o) (ghost s R o) hl' fl' cl' /\ fr_step s (step s o) hl'.
Proof.
  intros IA HP. destruct o as [p n|p|sl|p|p|p|f|k p|k p|k p]; cbn [pre step ghost] in *.
  - destruct HP as [Hn Hp]. exists hl, fl, cl. split; [now apply share_invA|left; apply share_frontier].
  - destruct (Z.eqb_spec p 0) as [->|Hp0].
    + exists hl, fl, cl. split; [exact IA|now left].
    + destruct HP as [|HpR]; [contradiction|].
      destruct (erase_invA base s R (rem1 p R) hl fl cl p IA Hp0 (rem1_perm _ _ HpR)) as (fl' & cl' & I1 & _).
      exists hl, fl', cl'. split; [exact I1|left; apply erase_frontier].
  - destruct (alloc_invA base s R (msub R (nz sl)) hl fl cl sl IA (msub_perm _ _ HP)) as [_ (hl' & fl' & cl' & I1 & F1 & _)].
    exists hl', fl', cl'. split; [exact I1|eapply fr_rel_step; eauto].
  - destruct HP as (Hp0 & HpR & Hh).
    destruct (release_invA base s R (rem1 p R) hl fl cl p IA Hp0 (rem1_perm _ _ HpR) Hh) as (cl' & I1 & _).
    exists (p :: hl), fl, cl'. split; [exact I1|now left].
  - destruct HP as (Hp0 & HpR & Hh).
    exists hl, fl, cl. split; [apply (load_share_invA base s R); auto using rem1_perm|].
    left. unfold load_share. now rewrite share_list_frontier.
  - destruct HP as (Hp0 & HpR). unfold load. destruct (Z.eqb_spec (hdr (m s p)) 0) as [Hh|Hh].
    + destruct (release_invA base s R (rem1 p R) hl fl cl p IA Hp0 (rem1_perm _ _ HpR) Hh) as (cl' & I1 & _).
      exists (p :: hl), fl, cl'. split; [exact I1|now left].
    + exists hl, fl, cl. split; [apply (load_share_invA base s R); auto using rem1_perm|].
      left. unfold load_share. now rewrite share_list_frontier.
  - destruct f as [|x f'].
    + cbn. exists hl, fl, cl. split; [exact IA|now left].
    + destruct (alloc_object_invA base s R (msub R (nz (x :: f'))) hl fl cl (x :: f') IA (msub_perm _ _ HP) ltac:(discriminate))
        as (hl' & fl' & cl' & I1 & _ & F1 & _).
      exists hl', fl', cl'. split; [exact I1|eapply fr_rel_step; eauto].
  - destruct HP as (HpR & HO).
    destruct (load_object_release_invA base k p s R (rem1 p R) hl fl cl IA (rem1_perm _ _ HpR) HO) as (hl' & cl' & I1 & F1).
    exists hl', fl, cl'. split; [exact I1|now left].
  - destruct HP as (HpR & Hh & HL). pose proof (links_ok_head _ _ _ HL) as Hp0.
    exists hl, fl, cl. split; [apply (load_object_share_invA base k p s R); auto using rem1_perm|].
    left. unfold load_object_share. now rewrite share_walk_frontier.
  - destruct HP as (HpR & HL & HO). pose proof (links_ok_head _ _ _ HL) as Hp0.
    unfold load_object. destruct (Z.eqb_spec (hdr (m s p)) 0) as [Hh|Hh].
    + destruct (load_object_release_invA base k p s R (rem1 p R) hl fl cl IA (rem1_perm _ _ HpR) (HO Hh)) as (hl' & cl' & I1 & F1).
      exists hl', fl, cl'. split; [exact I1|now left].
    + exists hl, fl, cl. split; [apply (load_object_share_invA base k p s R); auto using rem1_perm|].
      left. unfold load_object_share. now rewrite share_walk_frontier.
Qed.

(* ---------- 3. traces ---------- *)
Theorem heap_inv_trace_A base : forall ops s R hl fl cl,
  InvA base s R hl fl cl -> pre_trace s R ops ->
  exists hl' fl' cl', InvA base (fst (grun ops (s, R))) (snd (grun ops (s, R))) hl' fl' cl'.
Proof.
  induction ops as [|o ops IH]; intros s R hl fl cl IA HP; cbn [grun fold_left fst snd].
  - eauto.
  - destruct HP as [HP1 HP2]. destruct (heap_inv_step base s R hl fl cl o IA HP1) as (hl1 & fl1 & cl1 & I1 & _).
    apply (IH _ _ hl1 fl1 cl1 I1 HP2).
Qed.

Theorem heap_inv_trace : forall ops s R hl fl cl base,
  InvA base s R hl fl cl -> pre_trace s R ops ->
  exists hl' fl' cl', Inv (fst (grun ops (s, R))) (snd (grun ops (s, R))) hl' fl' cl'.
Proof.
  intros ops s R hl fl cl base IA HP. destruct (heap_inv_trace_A base ops s R hl fl cl IA HP) as (a & b & c & [I _]). eauto.
Qed.

Corollary heap_inv_reachable base ops :
  0 < base -> pre_trace (init base) [] ops ->
  exists hl fl cl, InvA base (fst (grun ops (init base, []))) (snd (grun ops (init base, []))) hl fl cl.
Proof. intros Hb. apply heap_inv_trace_A with (hl := [base]) (fl := []) (cl := []). now apply init_invA. Qed.

(* ---------- executable preconditions, to show that the premises are satisfiable ---------- *)
Fixpoint subb (xs R : list Z) : bool :=
  match xs with
  | [] => true
  | x :: r => if in_dec Z.eq_dec x R then subb r (rem1 x R) else false
  end.
Lemma cnt_rem1 x l b : In x l -> cnt (rem1 x l) b = cnt l b - (if Z.eq_dec x b then 1 else 0).
Proof. intros H. rewrite (cnt_perm _ _ b (rem1_perm x l H)), cnt_cons. lia. Qed.
Lemma subb_sound : forall xs R, subb xs R = true -> sub_ok xs R.
Proof.
  induction xs as [|x xs IH]; intros R H b; cbn in *.
  - change (cnt [] b) with 0. apply cnt_nonneg.
  - destruct (in_dec Z.eq_dec x R) as [Hin|]; [|discriminate]. specialize (IH _ H b).
    rewrite cnt_rem1 in IH by auto. rewrite cnt_cons. lia.
Qed.
Definition inb (x : Z) (l : list Z) : bool := if in_dec Z.eq_dec x l then true else false.
Lemma inb_sound x l : inb x l = true -> In x l.
Proof. unfold inb. destruct (in_dec Z.eq_dec x l); [auto|discriminate]. Qed.

Definition links_okb k mm p := forallb (fun b => negb (b =? 0)) (obj_blocks k mm p).
Definition obj_okb k (mm : mem) p := forallb (fun b => negb (b =? 0) && (hdr (mm b) =? 0)) (obj_blocks k mm p).
Lemma links_okb_sound k mm p : links_okb k mm p = true -> links_ok k mm p.
Proof. unfold links_okb, links_ok. rewrite forallb_forall. intros H b Hb. specialize (H b Hb). destruct (Z.eqb_spec b 0); [discriminate|auto]. Qed.
Lemma obj_okb_sound k mm p : obj_okb k mm p = true -> obj_ok k mm p.
Proof.
  unfold obj_okb, obj_ok. rewrite forallb_forall. intros H b Hb. specialize (H b Hb).
  apply andb_true_iff in H as [H1 H2]. destruct (Z.eqb_spec b 0); [discriminate|]. apply Z.eqb_eq in H2. auto.
Qed.

Definition preb (s : st) (R : list Z) (o : op) : bool :=
  match o with
  | OShare p n => (0 <=? n) && ((p =? 0) || inb p R)
  | OErase p => (p =? 0) || inb p R
  | OAlloc sl => subb (nz sl) R
  | OLoadRelease p => negb (p =? 0) && inb p R && (hdr (m s p) =? 0)
  | OLoadShare p => negb (p =? 0) && inb p R && negb (hdr (m s p) =? 0)
  | OLoad p => negb (p =? 0) && inb p R
  | OAllocObj f => subb (nz f) R
  | OLoadObjRelease k p => inb p R && obj_okb k (m s) p
  | OLoadObjShare k p => inb p R && negb (hdr (m s p) =? 0) && links_okb k (m s) p
  | OLoadObj k p => inb p R && links_okb k (m s) p && (negb (hdr (m s p) =? 0) || obj_okb k (m s) p)
  end.
Ltac bsplit := repeat match goal with
  | H : _ && _ = true |- _ => apply andb_true_iff in H; destruct H
  | H : negb _ = true |- _ => apply negb_true_iff in H
  | H : (_ =? _) = false |- _ => apply Z.eqb_neq in H
  | H : (_ =? _) = true |- _ => apply Z.eqb_eq in H
  | H : (_ <=? _) = true |- _ => apply Z.leb_le in H
  | H : inb _ _ = true |- _ => apply inb_sound in H
  end.
Lemma preb_sound s R o : preb s R o = true -> pre s R o.
Proof.
  destruct o; cbn [preb pre]; intros H; bsplit; auto using subb_sound, obj_okb_sound, links_okb_sound.
  - split; auto. apply orb_true_iff in H0 as [H0|H0]; bsplit; auto.
  - apply orb_true_iff in H as [H|H]; bsplit; auto.
  - split; [auto|split; [now apply links_okb_sound|]]. intros Hh. apply orb_true_iff in H0 as [H0|H0]; bsplit; [contradiction|now apply obj_okb_sound].
Qed.
Fixpoint pre_traceb (s : st) (R : list Z) (ops : list op) : bool :=
  match ops with
  | [] => true
  | o :: r => preb s R o && pre_traceb (step s o) (ghost s R o) r
  end.
Lemma pre_traceb_sound : forall ops s R, pre_traceb s R ops = true -> pre_trace s R ops.
Proof.
  induction ops as [|o ops IH]; intros s R H; cbn in *; auto.
  apply andb_true_iff in H as [H1 H2]. split; [now apply preb_sound|now apply IH].
Qed.

(* A non-trivial trace from the initial state on which every precondition holds: bump allocation,
   sharing, a five-field object over two blocks, its non-destructive and its destructive load,
   decrements, erasure onto the deferred list, a four-field object, reuse of released blocks
   (acquire case 1), recycling of deferred blocks with lazy erasure of their children, cascading
   (case 2), and bump allocation again (case 3). *)
Definition example_ops : list op :=
  [ OAlloc [0;0;0]; OShare 4096 1; OAlloc [4096;0;4096]; OShare 4160 1;
    OAllocObj [4160;0;0;4160;0]; OShare 4288 1; OLoadObj 1 4288; OLoadObj 1 4288;
    OErase 4160; OErase 4160; OErase 4160; OLoad 4160; OErase 4096; OErase 4096;
    OAllocObj [0;0;0;0]; OErase 4224;
    OAlloc [0;0;0]; OAlloc [0;0;0]; OAlloc [0;0;0]; OAlloc [0;0;0]; OAlloc [0;0;0]; OAlloc [0;0;0] ].
Example example_pre : pre_trace (init 4096) [] example_ops.
Proof. apply pre_traceb_sound. vm_compute. reflexivity. Qed.
Example example_inv :
  exists hl fl cl, InvA 4096 (fst (grun example_ops (init 4096, []))) (snd (grun example_ops (init 4096, []))) hl fl cl.
Proof. apply heap_inv_reachable; [lia|exact example_pre]. Qed.
Example example_final :
  snd (grun example_ops (init 4096, [])) = [4416; 4096; 4160; 4224; 4352; 4288] /\
  frontier (fst (grun example_ops (init 4096, []))) = 4096 + 7 * BLOCK.
Proof. vm_compute. auto. Qed.

(* ====================================================================================== *)
(* 4. The derived classification and its consequences *)

(* reachability through pointer slots from a list of sources *)
Inductive reach (mm : mem) (src : list Z) : Z -> Prop :=
| reach_src b : In b src -> b <> 0 -> reach mm src b
| reach_slot x b : reach mm src x -> In b (ps (mm x)) -> b <> 0 -> reach mm src b.

Definition deferred_slots (s : st) (fl : list Z) : list Z := flat_map (fun x => ps (m s x)) fl.

(* every block reachable from the roots or from the slots of deferred blocks is counted *)
Lemma reach_counted s R hl fl cl b :
  Inv s R hl fl cl -> reach (m s) (R ++ deferred_slots s fl) b -> In b cl.
Proof.
  intros I. induction 1 as [b Hb Hb0|x b Hx IH Hb Hb0].
  - apply in_app_iff in Hb as [Hb|Hb]; [eapply root_counted; eauto|].
    unfold deferred_slots in Hb. apply in_flat_map in Hb as (x & Hx & Hb).
    eapply (child_counted _ _ _ _ _ x b I); auto. rewrite in_app_iff; auto.
  - eapply (child_counted _ _ _ _ _ x b I); auto. rewrite in_app_iff; auto.
Qed.
Lemma reach_mono mm src src' b : incl src src' -> reach mm src b -> reach mm src' b.
Proof. intros Hi. induction 1; [apply reach_src; auto|eapply reach_slot; eauto]. Qed.

(* a counted block has a referrer: a root, or a slot of a counted or deferred block *)
Theorem no_leak base s R hl fl cl b :
  InvA base s R hl fl cl -> In b cl ->
  In b R \/ exists x, In x (cl ++ fl) /\ In b (ps (m s x)).
Proof.
  intros [I E] Hb. pose proof (i_rc _ _ _ _ _ I b Hb) as Hrc. pose proof (x_pos _ _ _ _ _ E b Hb) as Hpos.
  assert (0 < cnt (refs (m s) R cl fl) b) as Hc by lia. apply cnt_pos_in in Hc. unfold refs in Hc.
  apply in_app_iff in Hc as [Hc|Hc]; [now left|right]. apply in_flat_map in Hc. exact Hc.
Qed.

(* following referrers upward ends in a root or in a deferred block *)
Theorem counted_reached base s R hl fl cl b :
  InvA base s R hl fl cl -> In b cl ->
  reach (m s) R b \/ reach (m s) (deferred_slots s fl) b.
Proof.
  intros IA. pose proof IA as [I E]. destruct (x_ac _ _ _ _ _ E) as [rank AC].
  set (M := lmax rank cl).
  assert (forall n b, In b cl -> (M - rank b <= n)%nat ->
            reach (m s) R b \/ reach (m s) (deferred_slots s fl) b) as H.
  { induction n as [|n IH]; intros b0 Hb0 Hn.
    - assert (Hb00 : b0 <> 0) by (apply (in_below_pos _ _ _ _ _ _ I); in_lists).
      destruct (no_leak base s R hl fl cl b0 IA Hb0) as [HR|(x & Hx & Hin)]; [left; now apply reach_src|].
      apply in_app_iff in Hx as [Hx|Hx].
      + pose proof (AC x ltac:(rewrite in_app_iff; auto) b0 Hin Hb00). pose proof (lmax_ge rank cl x Hx). unfold M in Hn. lia.
      + right. apply reach_src; auto. unfold deferred_slots. apply in_flat_map. eauto.
    - assert (Hb00 : b0 <> 0) by (apply (in_below_pos _ _ _ _ _ _ I); in_lists).
      destruct (no_leak base s R hl fl cl b0 IA Hb0) as [HR|(x & Hx & Hin)]; [left; now apply reach_src|].
      apply in_app_iff in Hx as [Hx|Hx].
      + pose proof (AC x ltac:(rewrite in_app_iff; auto) b0 Hin Hb00).
        destruct (IH x Hx ltac:(lia)) as [Hr|Hr]; [left|right]; eapply reach_slot; eauto.
      + right. apply reach_src; auto. unfold deferred_slots. apply in_flat_map. eauto. }
  intros Hb. apply (H (M - rank b)%nat); auto.
Qed.

(* the classification: every block below the frontier is in exactly one of the three lists, and a
   counted block is reachable from the live variables or lies beneath a deferred block *)
Theorem classify_total_exclusive base s R hl fl cl a :
  InvA base s R hl fl cl -> blk base a -> a < frontier s ->
  (In a hl /\ ~ In a fl /\ ~ In a cl) \/
  (In a fl /\ ~ In a hl /\ ~ In a cl) \/
  (In a cl /\ ~ In a hl /\ ~ In a fl /\
   (reach (m s) R a \/ reach (m s) (deferred_slots s fl) a)).
Proof.
  intros IA Hb Ha. pose proof IA as [I E]. pose proof (x_tot _ _ _ _ _ E a Hb Ha) as Hin.
  pose proof (nodup3 hl fl cl a (i_nodup _ _ _ _ _ I)) as (N1 & N2 & N3).
  rewrite !in_app_iff in Hin. destruct Hin as [H|[H|H]].
  - left. destruct (N3 H). tauto.
  - right; left. destruct (N2 H). tauto.
  - right; right. destruct (N1 H). pose proof (counted_reached base s R hl fl cl a IA H). tauto.
Qed.
(* conversely the lists contain nothing but blocks below the frontier *)
Theorem classify_only_blocks base s R hl fl cl a :
  InvA base s R hl fl cl -> In a (hl ++ fl ++ cl) -> blk base a /\ a < frontier s.
Proof. intros [I E] Ha. split; [now apply (x_al _ _ _ _ _ E)|]. now apply (i_below _ _ _ _ _ I). Qed.

(* a block reachable from the live variables is never on a free list *)
Theorem no_use_after_release s R hl fl cl b :
  Inv s R hl fl cl -> reach (m s) R b -> In b cl /\ ~ In b hl /\ ~ In b fl.
Proof.
  intros I Hr. assert (In b cl) as Hb.
  { eapply reach_counted; eauto. eapply reach_mono; [|exact Hr]. apply incl_appl, incl_refl. }
  split; auto. apply (nodup3 hl fl cl b (i_nodup _ _ _ _ _ I)); auto.
Qed.

(* the block an operation puts on a free list (erase of the last reference: deferred list;
   destructive load: reuse list) was on neither list before, and the lists stay duplicate free *)
Theorem no_double_release s R hl fl cl p :
  Inv s R hl fl cl -> p <> 0 -> In p R ->
  ~ In p (hl ++ fl) /\
  (hdr (m s p) = 0 ->
     (exists cl', Inv (erase p s) (rem1 p R) hl (p :: fl) cl' /\ NoDup (hl ++ (p :: fl) ++ cl')) /\
     (exists cl', Inv (release p s) (nz (ps (m s p)) ++ rem1 p R) (p :: hl) fl cl' /\ NoDup ((p :: hl) ++ fl ++ cl'))).
Proof.
  intros I Hp0 HpR. split.
  - destruct (no_use_after_release s R hl fl cl p I (reach_src _ _ _ HpR Hp0)) as (_ & A & B).
    rewrite in_app_iff. tauto.
  - intros Hh. split.
    + destruct (erase_last_inv s R (rem1 p R) hl fl cl p I Hp0 (rem1_perm _ _ HpR) Hh) as (c1 & c2 & _ & I1).
      exists (c1 ++ c2). split; auto. apply (i_nodup _ _ _ _ _ I1).
    + destruct (release_inv s R (rem1 p R) hl fl cl p I Hp0 (rem1_perm _ _ HpR) Hh) as (c1 & c2 & _ & I1).
      exists (c1 ++ c2). split; auto. apply (i_nodup _ _ _ _ _ I1).
Qed.

(* ====================================================================================== *)
(* 5. C10: the footprint *)
Lemma chain_unique mm stop : forall a l1, chain mm stop a l1 -> forall l2, chain mm stop a l2 -> l1 = l2.
Proof.
  induction 1 as [|a l Ha Hc IH]; intros l2 H2; inversion H2; subst; try congruence.
  f_equal. now apply IH.
Qed.

(* blocks in use = counted + deferred; the number does not depend on the choice of the ghost lists *)
Definition in_use (base : Z) (sr : st * list Z) (n : nat) : Prop :=
  exists hl fl cl, InvA base (fst sr) (snd sr) hl fl cl /\ n = (length cl + length fl)%nat.

Lemma frontier_blocks base s R hl fl cl :
  InvA base s R hl fl cl -> frontier s - base = Z.of_nat (length hl + length fl + length cl) * BLOCK.
Proof. intros [_ E]. rewrite <- (x_sz _ _ _ _ _ E), !app_length. f_equal. lia. Qed.

Lemma in_use_unique base sr n1 n2 : in_use base sr n1 -> in_use base sr n2 -> n1 = n2.
Proof.
  intros (hl & fl & cl & IA & ->) (hl' & fl' & cl' & IA' & ->).
  pose proof (frontier_blocks _ _ _ _ _ _ IA) as F1. pose proof (frontier_blocks _ _ _ _ _ _ IA') as F2.
  assert (hl = hl') as -> by (eapply chain_unique; [apply (i_hl _ _ _ _ _ (proj1 IA))|apply (i_hl _ _ _ _ _ (proj1 IA'))]).
  unfold BLOCK in *. lia.
Qed.

Lemma hl_nonempty s R hl fl cl : Inv s R hl fl cl -> (1 <= length hl)%nat.
Proof. intros I. pose proof (i_hl_ne _ _ _ _ _ I). destruct hl; [congruence|cbn; lia]. Qed.

(* the states visited by a trace *)
Fixpoint states (ops : list op) (sr : st * list Z) : list (st * list Z) :=
  sr :: match ops with [] => [] | o :: r => states r (gstep sr o) end.
Lemma states_head ops sr : In sr (states ops sr).
Proof. destruct ops; now left. Qed.

Lemma footprint_gen base (pk : nat) : forall ops s R hl fl cl,
  InvA base s R hl fl cl -> pre_trace s R ops ->
  (forall sr n, In sr (states ops (s, R)) -> in_use base sr n -> (n <= pk)%nat) ->
  frontier s - base <= (Z.of_nat pk + 1) * BLOCK ->
  frontier (fst (grun ops (s, R))) - base <= (Z.of_nat pk + 1) * BLOCK.
Proof.
  induction ops as [|o ops IH]; intros s R hl fl cl IA HP HB H0; cbn [grun fold_left fst]; auto.
  destruct HP as [HP1 HP2]. destruct (heap_inv_step base s R hl fl cl o IA HP1) as (hl1 & fl1 & cl1 & I1 & F1).
  apply (IH _ _ hl1 fl1 cl1 I1 HP2).
  - intros sr n Hin. apply HB. cbn [states]. right. exact Hin.
  - cbn [gstep fst snd]. destruct F1 as [->|[_ L1]]; auto.
    rewrite (frontier_blocks _ _ _ _ _ _ I1), L1.
    assert (length cl1 + length fl1 <= pk)%nat.
    { apply (HB (step s o, ghost s R o)); [cbn [states]; right; apply states_head|]. exists hl1, fl1, cl1. split; auto. }
    unfold BLOCK. lia.
Qed.

(* the frontier never moves back *)
Lemma frontier_le_final base : forall ops s R hl fl cl,
  InvA base s R hl fl cl -> pre_trace s R ops -> frontier s <= frontier (fst (grun ops (s, R))).
Proof.
  induction ops as [|o ops IH]; intros s R hl fl cl IA HP; cbn [grun fold_left fst]; [lia|].
  destruct HP as [HP1 HP2]. destruct (heap_inv_step base s R hl fl cl o IA HP1) as (hl1 & fl1 & cl1 & I1 & F1).
  specialize (IH _ _ hl1 fl1 cl1 I1 HP2). unfold grun in *. change (gstep (s, R) o) with (step s o, ghost s R o). destruct F1 as [E|[L _]]; lia.
Qed.
Lemma frontier_mono base : forall ops s R hl fl cl,
  InvA base s R hl fl cl -> pre_trace s R ops ->
  forall sr, In sr (states ops (s, R)) -> frontier (fst sr) <= frontier (fst (grun ops (s, R))).
Proof.
  induction ops as [|o ops IH]; intros s R hl fl cl IA HP sr Hin.
  - destruct Hin as [<-|[]]. cbn. lia.
  - cbn [states] in Hin. destruct Hin as [<-|Hin]; [eapply frontier_le_final; eauto|].
    destruct HP as [HP1 HP2]. destruct (heap_inv_step base s R hl fl cl o IA HP1) as (hl1 & fl1 & cl1 & I1 & F1).
    cbn [grun fold_left]. apply (IH _ _ hl1 fl1 cl1 I1 HP2 sr Hin).
Qed.

(* pk bounds the number of blocks in use in every state of the trace / is attained in some state *)
Definition peak_bound base ops (pk : nat) : Prop :=
  forall sr n, In sr (states ops (init base, [])) -> in_use base sr n -> (n <= pk)%nat.
Definition peak_attained base ops (pk : nat) : Prop :=
  exists sr, In sr (states ops (init base, [])) /\ in_use base sr pk.

Theorem footprint_bound base ops pk :
  0 < base -> pre_trace (init base) [] ops -> peak_bound base ops pk ->
  (frontier (fst (grun ops (init base, []))) - base) / BLOCK <= Z.of_nat pk + 1.
Proof.
  intros Hb HP HB.
  pose proof (footprint_gen base pk ops (init base) [] [base] [] [] (init_invA base Hb) HP HB) as H.
  cbn [frontier init] in H. specialize (H ltac:(unfold BLOCK; lia)).
  apply Z.div_le_upper_bound; [unfold BLOCK; lia|]. rewrite Z.mul_comm. exact H.
Qed.

(* the bound is tight: once the peak has been reached the frontier is exactly peak + 1 blocks
   above the base, and stays there *)
Theorem footprint_exact base ops pk :
  0 < base -> pre_trace (init base) [] ops -> peak_bound base ops pk -> peak_attained base ops pk ->
  frontier (fst (grun ops (init base, []))) = base + (Z.of_nat pk + 1) * BLOCK.
Proof.
  intros Hb HP HB (sr & Hin & (hl & fl & cl & IA & ->)).
  pose proof (footprint_gen base _ ops (init base) [] [base] [] [] (init_invA base Hb) HP HB) as H.
  cbn [frontier init] in H. specialize (H ltac:(unfold BLOCK; lia)).
  pose proof (frontier_mono base ops (init base) [] [base] [] [] (init_invA base Hb) HP sr Hin) as HM.
  pose proof (frontier_blocks _ _ _ _ _ _ IA) as HF. pose proof (hl_nonempty _ _ _ _ _ (proj1 IA)).
  unfold BLOCK in *. lia.
Qed.

(* space independent of the number of repetitions: two computations with the same peak of blocks in
   use (for instance 8 and 32 iterations of a loop that builds and drops a structure) end with the
   same frontier *)
Theorem loop_space_constant base ops1 ops2 pk :
  0 < base -> pre_trace (init base) [] ops1 -> pre_trace (init base) [] ops2 ->
  peak_bound base ops1 pk -> peak_attained base ops1 pk ->
  peak_bound base ops2 pk -> peak_attained base ops2 pk ->
  frontier (fst (grun ops1 (init base, []))) = frontier (fst (grun ops2 (init base, []))).
Proof. intros. rewrite (footprint_exact base ops1 pk), (footprint_exact base ops2 pk); auto. Qed.

Definition iterate (n : nat) (body : list op) : list op := concat (repeat body n).
Corollary loop_space_constant_iter base setup body n1 n2 pk :
  0 < base ->
  pre_trace (init base) [] (setup ++ iterate n1 body) -> pre_trace (init base) [] (setup ++ iterate n2 body) ->
  peak_bound base (setup ++ iterate n1 body) pk -> peak_attained base (setup ++ iterate n1 body) pk ->
  peak_bound base (setup ++ iterate n2 body) pk -> peak_attained base (setup ++ iterate n2 body) pk ->
  frontier (fst (grun (setup ++ iterate n1 body) (init base, []))) = frontier (fst (grun (setup ++ iterate n2 body) (init base, []))).
Proof. apply loop_space_constant. Qed.

(* the example trace: peak 6 blocks in use, frontier 7 blocks above the base *)
Example example_footprint :
  (frontier (fst (grun example_ops (init 4096, []))) - 4096) / BLOCK = 7.
Proof. vm_compute. reflexivity. Qed.

(* the same fact from an arbitrary reachable state: once the frontier stands at peak + 1 blocks, no
   continuation whose blocks in use stay within the peak moves it (an iteration of a loop that
   has reached its peak before) *)
Theorem frontier_stable_after_peak base (pk : nat) ops s R hl fl cl :
  InvA base s R hl fl cl -> pre_trace s R ops ->
  (forall sr n, In sr (states ops (s, R)) -> in_use base sr n -> (n <= pk)%nat) ->
  frontier s - base = (Z.of_nat pk + 1) * BLOCK ->
  frontier (fst (grun ops (s, R))) = frontier s.
Proof.
  intros IA HP HB HF.
  pose proof (footprint_gen base pk ops s R hl fl cl IA HP HB ltac:(lia)).
  pose proof (frontier_le_final base ops s R hl fl cl IA HP). lia.
Qed.
