(* The two-weight instruction bound of Proof/SizeCodegenFine.v discharged for the AArch64 back end: 14 instructions per
   simple unit (the largest single operation is erase_block; print <= 11 + 4 * context <= 14 * (1 + context); parallel
   moves <= 8 * new + 4 * old), 74 = 29 + 15 * FIELDS_PER_BLOCK per unit of a memory operation (Proof/SizeA64.v).
   [a64_compile_fine_size]: the routine has at most 28 + cg_fine_defs 14 74 instructions (Sem/WfGuard64.a64_fine_bound),
   the bound of the reach guard of C14. *)
From Coq Require Import String List ZArith NArith Bool Lia.
From SCC Require Import Base.Sexp Lang.AxSyn Lang.AxSize Model.ParMoves Model.Backend Model.A64 Model.Linearize Model.LinCheck
     Sem.WfGuard64 Proof.LinBasics Proof.SubstGraph Proof.SubstBackends Proof.SizeLin Proof.SizeCodegen Proof.SizeExchange
     Proof.SizeCodegenWf Proof.SizeCodegenFine Proof.SizeA64.
From SCC Require Model.SizeWf.
Import ListNotations.
Open Scope list_scope.
Open Scope N_scope.
Local Arguments N.add : simpl never.
Local Arguments N.mul : simpl never.
Local Arguments N.sub : simpl never.
Local Arguments N.of_nat : simpl never.
Local Arguments len : simpl never.

Section A64Fine.
Variable mark : ctx -> list acode.
Hypothesis mark_len : forall c, len (mark c) <= 1.
Let B := a64_backend_with mark.

Lemma a64_exchange_fine : forall re c code, NoDup (ids c) -> NoDup (SizeWf.new_ids_of re) ->
  code_exchange B (transpose re c) c (map fst re) = Ok code -> len code <= A64_K0 * (1 + len c + len re).
Proof.
  intros re c code N1 N2 H.
  pose proof (exchange_len B (a64_with_ok mark) 2 l_mov l_store_temporary l_restore_temporary c re code N1 N2 H) as G.
  unfold A64_K0. lia.
Qed.

Theorem a64_translate_fine : forall types ds lc code lc',
  SizeWf.sub_wf_defs ds = true ->
  translate B types ds lc = Ok (code, lc') -> len code <= cg_fine_defs A64_K0 A64_KM ds.
Proof.
  apply (translate_size_fine B A64_K0 A64_KM);
    cbn [B a64_backend_with b_mark b_jump b_jump_label b_jump_label_fixed b_jcc2 b_jcc1
      b_load_immediate b_load_label b_add_and_jump b_arith b_mov b_print b_erase b_share_n b_store b_load]; unfold A64_K0, A64_KM.
  - lia.
  - intros c. pose proof (mark_len c). lia.
  - intros t. pose proof (l_jump t). lia.
  - intros l. sl. lia.
  - intros l. sl. lia.
  - intros so a b l. sl. pose proof (l_compare a b). lia.
  - intros so a l. sl. pose proof (l_compare_immediate a 0). lia.
  - intros t z. pose proof (l_load_immediate t z). lia.
  - intros t l. pose proof (l_load_label t l). lia.
  - intros t z. pose proof (l_add_and_jump t z). lia.
  - intros o a b c. pose proof (l_arith o a b c). lia.
  - intros a b. pose proof (l_mov a b). lia.
  - intros nl t c. pose proof (l_print nl t c). lia.
  - intros t lc. pose proof (l_erase_block t lc). lia.
  - intros t n lc. pose proof (l_share_block t n lc). lia.
  - intros a r lc code lc' H. apply l_store in H. change FPB with 3 in H. lia.
  - intros a r lc code lc' H. apply l_load in H. lia.
  - exact a64_exchange_fine.
Qed.
End A64Fine.

Theorem a64_compile_fine_size : forall p lc r n lc',
  SizeWf.sub_wf_prog p = true -> a64_compile p lc = Ok (r, n, lc') -> len r <= a64_fine_bound p.
Proof.
  intros p lc r n lc' HW H. unfold a64_compile, a64_compile_with in H.
  destruct (compile (a64_backend_with (fun _ => [])) p lc) as [[[is n0] lc0]|e] eqn:E; [|discriminate]. cbn [rbind] in H.
  destruct (into_aarch64_routine is n0) as [rt|e] eqn:E0; [|discriminate]. cbn [rbind] in H. inversion H; subst; clear H.
  unfold compile in E. unfold a64_fine_bound, SizeWf.sub_wf_prog in *. destruct (pdefs p) as [|d0 ds]; [discriminate|].
  destruct (translate (a64_backend_with (fun _ => [])) (ptypes p) (d0 :: ds) lc) as [[c1 lc1]|e] eqn:E1; [|discriminate].
  cbn [rbind fst snd] in E. inversion E; subst; clear E.
  apply (a64_translate_fine (fun _ => [])) in E1; [|intros; sl; lia|exact HW].
  unfold into_aarch64_routine in E0. destruct (setup (List.length (dctx d0))) as [st|e] eqn:E2; [|discriminate].
  cbn [rbind] in E0. inversion E0; subst; clear E0.
  unfold setup in E2. destruct (move_arguments (List.length (dctx d0))) as [ma|e] eqn:E3; [|discriminate].
  cbn [rbind] in E2. inversion E2; subst; clear E2. apply l_move_arguments in E3.
  unfold SizeWf.a64_routine_overhead. sl. unfold preamble, cleanup. sl. lia.
Qed.

(* the fine bound is never worse than the bound of C19 *)
Lemma cg_fine_le_bound k m (HK : k <= m) : forall s n, cg_fine k m s n <= m * cg_bound s n.
Proof.
  induction s using stmt_ind2; intros n0.
  - cbn [cg_fine cg_bound]. specialize (IHs (len re)). nia.
  - cbn [cg_fine cg_bound]. nia.
  - cbn [cg_fine cg_bound]. specialize (IHs (n0 - len args + 1)). nia.
  - rewrite cg_fine_switch, cg_bound_switch.
    assert (G : cg_fine_sw k m n0 cls <= m * cg_bound_sw n0 cls).
    { induction H as [|[[x cx] b] r Hb Hr IHr]; cbn [cg_fine_sw cg_bound_sw]; [lia|].
      unfold cl_body in Hb; cbn [snd] in Hb. specialize (Hb (n0 - 1 + len cx)). nia. }
    nia.
  - rewrite cg_fine_create, cg_bound_create. specialize (IHs (n0 - env_len env + 1)).
    assert (G : cg_fine_cr k m (env_len env) cls <= m * cg_bound_cr (env_len env) cls).
    { induction H as [|[[x cx] b] r Hb Hr IHr]; cbn [cg_fine_cr cg_bound_cr]; [lia|].
      unfold cl_body in Hb; cbn [snd] in Hb. specialize (Hb (len cx + env_len env)). nia. }
    nia.
  - cbn [cg_fine cg_bound]. nia.
  - cbn [cg_fine cg_bound]. specialize (IHs (n0 + 1)). nia.
  - cbn [cg_fine cg_bound]. specialize (IHs (n0 + 1)). nia.
  - cbn [cg_fine cg_bound]. specialize (IHs n0). nia.
  - cbn [cg_fine cg_bound]. specialize (IHs1 n0). specialize (IHs2 n0). nia.
  - cbn [cg_fine cg_bound]. nia.
Qed.
Lemma cg_fine_defs_le k m (HK : k <= m) : forall ds, cg_fine_defs k m ds <= m * cg_bound_defs ds.
Proof.
  induction ds as [|d r IH]; cbn [cg_fine_defs cg_bound_defs]; [lia|].
  pose proof (cg_fine_le_bound k m HK (dbody d) (len (dctx d))). nia.
Qed.
