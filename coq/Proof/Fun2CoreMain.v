(* The third defect class of fun2core: a call whose target is `main` (FORMER finding call-to-main, repaired in /repo
   by f929eb7: when main is called somewhere, it is translated like any other definition and the program
   starts at a fresh label that calls it with the exit continuation).  REGRESSION statements about the translation
   before the fix ([compile_prog_before_fix]): compile_main gave the Core definition `main` no return-continuation
   parameter, a call site passed one; the witness is corpus/fun/call_main_nontail.sc as the type checker annotates
   it (modelrun compares the value with the real CheckedProgram on every run).  The witness satisfies the
   Barendregt guard, so it also refuted fun2core_correct_guarded_statement of Props/C02.v. *)
From Coq Require Import List ZArith NArith String Bool.
From SCC Require Import Lang.FunSyn Lang.CoreSyn Sem.AxSem Sem.CoreSem Sem.FunSem Model.Fun2Core Proof.Fun2CoreProof Proof.Fun2CoreSim.
Import ListNotations.

Lemma call_main_witness_fun : run_fun 200 call_main_witness [3%Z] = ([(true, 3%Z); (true, 107%Z)], OExit 8%Z).
Proof. vm_compute. reflexivity. Qed.
Lemma call_main_witness_core_before_fix :
  run_core 200 (compiled_before_fix_or_empty call_main_witness) [3%Z] = ([(true, 3%Z)], OStuck "call-arity").
Proof. vm_compute. reflexivity. Qed.
(* ... and the CURRENT translation of the witness behaves like the source *)
Lemma call_main_witness_core :
  run_core 200 (compiled_or_empty call_main_witness) [3%Z] = ([(true, 3%Z); (true, 107%Z)], OExit 8%Z).
Proof. vm_compute. reflexivity. Qed.
Lemma call_main_witness_fixed_lemma :
  compile_prog call_main_witness = Ok (compiled_or_empty call_main_witness) /\
  run_core 200 (compiled_or_empty call_main_witness) [3%Z] = run_fun 200 call_main_witness [3%Z] /\
  run_fun 200 call_main_witness [3%Z] = ([(true, 3%Z); (true, 107%Z)], OExit 8%Z) /\
  map cdname (cpdefs (compiled_or_empty call_main_witness)) = [new_id "main0"; new_id "main"].
Proof. vm_compute. repeat split; reflexivity. Qed.

Theorem fun2core_call_to_main_before_fix_lemma :
  exists (p : fcprog) (args : list Z) (c : cprog) (n : nat),
    annotated_fcprog p = true /\ effect_sequenced p = true /\ barendregt p = true /\
    shadowing_risk_prog p = false /\ calls_main_prog p = true /\
    compile_prog_before_fix p = Ok c /\
    defined (run_fun n p args) = true /\
    run_fun n p args <> run_core n c args.
Proof.
  exists call_main_witness, [3%Z], (compiled_before_fix_or_empty call_main_witness), 200%nat.
  do 7 (split; [vm_compute; reflexivity|]).
  rewrite call_main_witness_fun, call_main_witness_core_before_fix. intros H. discriminate H.
Qed.

Lemma run_core_mono : forall n c args o,
  run_core n c args = o -> snd o <> OOutOfFuel -> forall k, run_core (n + k) c args = o.
Proof.
  intros n c args o H Hne k. unfold run_core in *. destruct (cpdefs c) as [|d ds]; [exact H|].
  destruct (centry_env d args) as [e|]; [|exact H]. apply crun_mono; assumption.
Qed.

(* no amount of fuel made the Core run of the witness agree with the source run: the guarded
   statement (annotated, effect-sequenced, Barendregt) was false of the translation before the fix *)
Theorem fun2core_guarded_statement_refuted_before_fix_lemma :
  ~ (forall (p : fcprog) (c : cprog) (args : list Z) (n : nat) (o : obs),
       annotated_fcprog p = true -> effect_sequenced p = true ->
       barendregt p = true ->
       compile_prog_before_fix p = Ok c ->
       run_fun n p args = o -> defined o = true ->
       exists m, run_core m c args = o).
Proof.
  intros H.
  assert (Hc : compile_prog_before_fix call_main_witness = Ok (compiled_before_fix_or_empty call_main_witness)) by (vm_compute; reflexivity).
  destruct (H call_main_witness _ [3%Z] 200%nat _ eq_refl eq_refl eq_refl Hc eq_refl) as [m Hm].
  { rewrite call_main_witness_fun. reflexivity. }
  rewrite call_main_witness_fun in Hm.
  assert (H1 : run_core (m + 200) (compiled_before_fix_or_empty call_main_witness) [3%Z] = ([(true, 3%Z); (true, 107%Z)], OExit 8%Z)).
  { apply run_core_mono; [exact Hm | simpl; discriminate]. }
  assert (H2 : run_core (200 + m) (compiled_before_fix_or_empty call_main_witness) [3%Z] = ([(true, 3%Z)], OStuck "call-arity")).
  { apply run_core_mono; [exact call_main_witness_core_before_fix | simpl; discriminate]. }
  rewrite (Nat.add_comm 200 m) in H2. rewrite H1 in H2. discriminate H2.
Qed.
