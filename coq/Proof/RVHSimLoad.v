(* C08, forward simulation for HEAP statements, part 3: the code of `r_load` (Switch, Invoke) under `hrel`, for
   objects of at most three fields (one block).  The counterpart of Proof/X86HSimLoad.v.
   The last position holds an object / closure whose fields fs are represented at its pointer q.  The code
   runs to its end; afterwards the context is the old one without that position, extended by the loaded
   variables cx; the machine's heap is `load_object (nlinks n) q` (nlinks n = 0), the loaded variables get the
   pointers the machine reads from its heap (`load_ptrs`), and these ARE the words the code loads. *)
From Coq Require Import List ZArith NArith String Bool Lia FMapPositive Permutation.
From SCC Require Import Base.Sexp Lang.AxSyn Sem.AxSem Sem.AxHeap Model.ParMoves Model.Backend Model.RV Sem.RVSem Sem.RVWf
     Generated.Constants Proof.RVSel Proof.SubstGraph Proof.SubstBackends Proof.RVSubst Proof.RVSimAddr Proof.RVSimRel
     Proof.RVHeapAbs Proof.RVHDefs Proof.RVHMem Proof.RVHBridge Proof.RVHSimRel Proof.RVHSimStore.
From SCC Require Model.Heap Proof.HeapMore Proof.HeapTrace Proof.HeapRep Proof.HeapRepAlloc Proof.HeapBridge.
Import ListNotations.
Open Scope Z_scope.
Open Scope list_scope.

Lemma nth_error_Some_lt {X} (l : list X) i x : nth_error l i = Some x -> (i < List.length l)%nat.
Proof. intros H. apply nth_error_Some. congruence. Qed.
Lemma Forall2_nth {X Y} (P : X -> Y -> Prop) : forall l1 l2 i x y,
  Forall2 P l1 l2 -> nth_error l1 i = Some x -> nth_error l2 i = Some y -> P x y.
Proof.
  induction l1 as [|a l1 IH]; intros l2 i x y H H1 H2; [destruct i; discriminate|].
  inversion H; subst. destruct i as [|i]; cbn [nth_error] in *; [inversion H1; inversion H2; subst; assumption|eauto].
Qed.
Lemma Forall2_len {X Y} (P : X -> Y -> Prop) l1 l2 : Forall2 P l1 l2 -> List.length l1 = List.length l2.
Proof. induction 1; cbn; auto. Qed.

(* pointers attached to an environment *)
Lemma attach_nth : forall (e : env) (ps : list Z) i x v q,
  nth_error (attach e ps) i = Some (x, v, q) -> nth_error e i = Some (x, v) /\ q = nth i ps 0.
Proof.
  induction e as [|xv e IH]; intros ps i x v q H; [destruct i; discriminate|].
  destruct ps as [|p ps]; destruct i as [|i]; cbn [attach nth_error nth] in *.
  - inversion H; subst. auto.
  - destruct (IH [] i x v q H) as [A B]. split; [exact A|]. rewrite B. destruct i; reflexivity.
  - inversion H; subst. auto.
  - exact (IH ps i x v q H).
Qed.
Lemma attach_erase : forall (e : env) ps, erase_env (attach e ps) = e.
Proof.
  induction e as [|xv e IH]; intros ps; [reflexivity|]. destruct ps as [|p ps]; cbn [attach erase_env map fst]; f_equal; apply IH.
Qed.

(* the loaded variables have registers *)
Lemma r_load_temps cx cE lc cl lc1 : r_load cx cE lc = Ok (cl, lc1) -> cx <> [] -> (List.length cx <= 3)%nat ->
  (List.length cE + List.length cx <= 14)%nat.
Proof.
  intros XL NE LE. destruct (r_load_one_block cx cE lc cl lc1 NE LE XL) as (thenv & elsev & lc2 & H1 & _).
  destruct (rev cx) as [|b l] eqn:ER.
  { apply (f_equal (@List.length binding)) in ER. rewrite rev_length in ER. destruct cx; [congruence|discriminate]. }
  assert (Ll : S (List.length l) = List.length cx).
  { apply (f_equal (@List.length binding)) in ER. rewrite rev_length in ER. cbn [List.length] in ER. lia. }
  cbn [load_values] in H1.
  match type of H1 with context [load_value ?a1 ?a2 ?a3 ?a4 ?a5 ?a6] =>
    destruct (load_value a1 a2 a3 a4 a5 a6) as [[ca lca]|] eqn:Ea; cbn [rbind] in H1; [|discriminate] end.
  unfold load_value in Ea.
  match type of Ea with context [load_field ?a1 ?a2 ?a3 ?a4] =>
    destruct (load_field a1 a2 a3 a4) as [c0|] eqn:E0; cbn [rbind] in Ea; [|discriminate] end.
  unfold load_field in E0.
  destruct (r_fresh Snd (cE ++ rev l)) as [t|] eqn:Et; cbn [rbind] in E0; [|discriminate].
  unfold r_fresh, temporary_from_position in Et. rewrite app_length, rev_length in Et. cbn [tnum_n] in Et.
  change RESERVED with 4%N in Et. change REGISTER_NUM with 32%N in Et.
  match type of Et with context [N.ltb ?u ?v] => destruct (N.ltb_spec u v) as [LT|LT]; [|discriminate] end. lia.
Qed.

Section HLoad.
Variable im : image.
Variable types : list tydecl.
Variable CLO : Z -> ident -> list clause -> ctx -> Prop.
Local Notation hrel := (hrel types CLO).
Local Notation hvrep := (hvrep types CLO).
Local Notation xrep := (xrep types CLO).
Local Notation xflds := (xflds types CLO).
Local Notation xreps := (xreps types CLO).

Theorem hsim_load cE cx heE x vq q fs (e1 : env) hs s lc cl lc1 pc lk hl fl cl0 :
  hrel cE heE hs s ->
  rget s (pos_reg Fst (List.length cE)) = Some q ->
  xflds (hword s) fs q -> fs <> [] ->
  map snd e1 = fs -> env_ids e1 = ids cx ->
  Forall2 (fun b f => chi_of f = bchi b /\ ty_of f = bty b) cx fs ->
  NoDup (ids (cE ++ cx)) ->
  InvA HEAP_BASE hs (roots (heE ++ [(x, vq, q)])) hl fl cl0 -> P03 hs ->
  HeapRep.rep_flds lk (Heap.m hs) fs q ->
  Heap.frontier hs <= LIMIT ->
  r_load cx cE lc = Ok (cl, lc1) -> placed im pc cl ->
  exists s', star im pc s (padd pc (List.length cl)) s' /\
    hrel (cE ++ cx) (heE ++ attach e1 (load_ptrs hs (List.length fs) q))
         (Heap.load_object (Heap.nlinks (List.length fs)) q hs) s'.
Proof.
  intros R LQ XF NE E1S E1F KIN ND IA K03 RF HFr XL PL.
  pose proof (hrel_length R) as L0.
  pose proof (Forall2_len _ _ _ KIN) as Lcx.
  set (n := List.length fs) in *. set (w := hword s). set (F := Heap.frontier hs).
  assert (Hn : (0 < n)%nat) by (unfold n; destruct fs; [congruence|cbn; lia]).
  destruct (xflds_cons_inv types CLO w fs q XF NE) as (LE3 & Bq & PAD & XS). fold n in LE3, PAD, XS.
  assert (NEcx : cx <> []) by (intros ->; cbn in Lcx; lia).
  assert (LEcx : (List.length cx <= 3)%nat) by lia.
  assert (NL : Heap.nlinks n = O) by (unfold Heap.nlinks; destruct (Nat.leb_spec n 3); [reflexivity|lia]).
  (* the field slots *)
  assert (FLD : forall i f, nth_error fs i = Some f -> xrep w f (w (slot_addr q n i)) (w (slot_addr q n i + 8))).
  { intros i f Hf. exact (xflds_field types CLO w fs q i f XF Hf). }
  assert (SLOT : forall j, (j < 3)%nat -> w (q + 16 * Z.of_nat (j + 1)) = 0 \/ is_blk (w (q + 16 * Z.of_nat (j + 1)))).
  { intros j Hj. destruct (Nat.lt_ge_cases j (3 - n)) as [Lj|Lj]; [left; now apply PAD|].
    destruct (nth_error fs (j - (3 - n))) as [f|] eqn:Hf; [|apply nth_error_None in Hf; fold n in Hf; lia].
    pose proof (FLD _ f Hf) as X. unfold slot_addr in X.
    replace (3 - n + (j - (3 - n)) + 1)%nat with (j + 1)%nat in X by lia.
    eapply xrep_ptr; eauto. }
  pose proof (SLOT 0%nat ltac:(lia)) as S0. pose proof (SLOT 1%nat ltac:(lia)) as S1. pose proof (SLOT 2%nat ltac:(lia)) as S2.
  change (q + 16 * Z.of_nat (0 + 1)) with (q + 16) in S0.
  change (q + 16 * Z.of_nat (1 + 1)) with (q + 32) in S1.
  change (q + 16 * Z.of_nat (2 + 1)) with (q + 48) in S2.
  (* hypotheses of the refinement theorem *)
  assert (SH : hword s q <> 0 ->
     (hword s (q + 16) = 0 \/ is_blk (hword s (q + 16))) /\ (hword s (q + 32) = 0 \/ is_blk (hword s (q + 32))) /\
     (hword s (q + 48) = 0 \/ is_blk (hword s (q + 48))) /\
     (forall j, (j < 3 - List.length cx)%nat -> hword s (q + 16 * Z.of_nat (j + 1)) = 0) /\
     (forall i b, nth_error cx i = Some b -> bchi b = Ext -> hword s (slot_addr q (List.length cx) i) = 0)).
  { intros _. rewrite Lcx. fold n. split; [exact S0|]. split; [exact S1|]. split; [exact S2|]. split; [exact PAD|].
    intros i b Hb KE. destruct (nth_error fs i) as [f|] eqn:Hf; [|apply nth_error_None in Hf; apply nth_error_Some_lt in Hb; fold n in Hf; lia].
    destruct (Forall2_nth _ _ _ _ _ _ KIN Hb Hf) as [Kc _]. pose proof (FLD i f Hf) as X.
    destruct f; cbn in Kc; try congruence. inversion X; subst. fold w. congruence. }
  pose proof (hr_heq R) as HQ. fold F in HQ.
  assert (BND : forall y, is_blk y -> 0 <= hword s y <= HB).
  { intros y Hy. destruct (heq_abs_ps F s hs y HQ Hy) as [_ E]. rewrite <- E.
    eapply hdr_bounds_r; [exact IA|apply P03_P3; exact K03|exact HFr| |exact Hy].
    pose proof (roots_length (heE ++ [(x, vq, q)])) as RL. rewrite app_length in RL. cbn [List.length] in RL.
    pose proof (hrel_small types CLO _ _ _ _ R). lia. }
  pose proof (r_load_temps cx cE lc cl lc1 XL NEcx LEcx) as TMP.
  assert (ROOM : forall y, is_blk y -> min_int + 1 <= hword s y /\ hword s y + 3 <= max_int).
  { intros y Hy. specialize (BND y Hy). unfold HB, min_int, max_int, two63 in *. lia. }
  assert (LQ' : rget s (rtp (2 * N.of_nat (List.length cE))) = Some q).
  { rewrite pos_reg_rtp in LQ. cbn [tnum_n] in LQ. rewrite N.add_0_r in LQ. exact LQ. }
  destruct (rv_load_full im pc cx cE lc cl lc1 s q F XL NEcx LEcx PL LQ' Bq
              (ex_intro _ _ (hr_heapreg R)) (ex_intro _ _ (hr_freereg R)) SH ROOM)
    as (s' & ST & EQ & LD & KEEP & NBS & (h' & RH') & RFR).
  rewrite Lcx in LD. fold n in LD.
  (* the abstraction afterwards *)
  assert (HQL : heq (Heap.load_object 0 q (abs_heap F s)) (Heap.load_object 0 q hs)).
  { apply heq_load_object0; [exact HQ|apply P03_P3; exact K03|exact Bq|].
    cbn [abs_heap Heap.m abs_mem Heap.ps]. repeat (apply Forall_cons); [exact S0|exact S1|exact S2|apply Forall_nil]. }
  rewrite NL.
  set (hs' := Heap.load_object 0 q hs) in *.
  assert (HQ1 : heq (abs_heap F s') hs') by (eapply heq_eqB; [exact EQ|exact HQL]).
  assert (EF' : Heap.frontier hs' = F) by (destruct HQ1 as (_ & _ & X & _); symmetry; exact X).
  assert (EH : h' = Heap.heap hs').
  { destruct HQ1 as (X & _). cbn [abs_heap Heap.heap] in X. unfold reg_or0 in X. rewrite RH' in X. exact X. }
  assert (EFREE : Heap.free hs' = Heap.free hs).
  { destruct HQ1 as (_ & X & _). cbn [abs_heap Heap.free] in X. unfold reg_or0 in X. rewrite RFR, (hr_freereg R) in X. congruence. }
  (* the pointers of the machine are the loaded words *)
  assert (LP : load_ptrs hs n q = map w (saddrs q n)).
  { unfold n, w. apply (load_ptrs_words F s hs lk fs q HQ K03 NE LE3 Bq RF). }
  exists s'. split; [exact ST|].
  destruct R as [Hr Fr HQ0 Ids NDc Vals]. split.
  - rewrite RH'. now rewrite EH.
  - rewrite RFR, Fr. now rewrite EFREE.
  - rewrite EF'. exact HQ1.
  - unfold env_ids, ids, erase_env in *. rewrite !map_app. f_equal; [exact Ids|].
    fold (erase_env (attach e1 (load_ptrs hs n q))). rewrite attach_erase. exact E1F.
  - exact ND.
  - intros i y v p Hi. destruct (Nat.lt_ge_cases i (List.length heE)) as [Li|Li].
    + rewrite nth_error_app1 in Hi by exact Li.
      destruct (Vals i y v p Hi) as (b & Hb & V).
      exists b. split; [rewrite nth_error_app1 by lia; exact Hb|].
      destruct V as [b z p t A0 B T Lg|b v p a t1 t2 A0 K1 K2 T1 T2 Lg1 Lg2 X].
      * eapply hv_int; eauto. apply rtpos_rtp in T as [-> _]. rewrite KEEP; [exact Lg|]. cbn [tnum_n]. lia.
      * pose proof T1 as T1'. pose proof T2 as T2'.
        apply rtpos_rtp in T1' as [-> _]. apply rtpos_rtp in T2' as [-> _].
        eapply (hv_ptr types CLO s' i b v p a); eauto.
        -- rewrite KEEP; [exact Lg1|]. cbn [tnum_n]. lia.
        -- rewrite KEEP; [exact Lg2|]. cbn [tnum_n]. lia.
        -- eapply xrep_ext; [exact NBS|exact X].
    + rewrite nth_error_app2 in Hi by exact Li. set (j := (i - List.length heE)%nat) in *.
      destruct (attach_nth _ _ _ _ _ _ Hi) as [He1 Ep].
      assert (Hf : nth_error fs j = Some v).
      { rewrite <- E1S. rewrite nth_error_map, He1. reflexivity. }
      assert (Lj : (j < n)%nat) by (apply nth_error_Some_lt in Hf; exact Hf).
      destruct (nth_error cx j) as [b|] eqn:Hb; [|apply nth_error_None in Hb; lia].
      exists b. split; [rewrite nth_error_app2 by lia; replace (i - List.length cE)%nat with j by lia; exact Hb|].
      destruct (Forall2_nth _ _ _ _ _ _ KIN Hb Hf) as [Kc Kt].
      destruct (LD j b Hb) as [LS LF].
      replace (List.length cE + j)%nat with i in LS, LF by lia.
      set (a := slot_addr q n j) in *.
      pose proof (FLD j v Hf) as X. fold a in X.
      assert (Ep' : p = w a).
      { rewrite Ep, LP. apply nth_error_nth. rewrite nth_error_map, saddrs_nth by exact Lj. reflexivity. }
      assert (I14 : (i < 14)%nat) by lia.
      assert (RS : rget s' (pos_reg Snd i) = Some (w (a + 8))).
      { rewrite pos_reg_rtp. cbn [tnum_n]. exact LS. }
      assert (RFs : bchi b <> Ext -> rget s' (pos_reg Fst i) = Some (w a)).
      { intros KE. rewrite pos_reg_rtp. cbn [tnum_n]. rewrite N.add_0_r. exact (LF KE). }
      destruct (bchi b) eqn:Kb.
      * rewrite Ep'. apply (hv_ptr types CLO s' i b v (w a) (w (a + 8)) (pos_reg Fst i) (pos_reg Snd i));
          [congruence|congruence|exact Kt|now apply rtpos_lt|now apply rtpos_lt|apply RFs; congruence|exact RS
          |eapply xrep_ext; [exact NBS|exact X]].
      * rewrite Ep'. apply (hv_ptr types CLO s' i b v (w a) (w (a + 8)) (pos_reg Fst i) (pos_reg Snd i));
          [congruence|congruence|exact Kt|now apply rtpos_lt|now apply rtpos_lt|apply RFs; congruence|exact RS
          |eapply xrep_ext; [exact NBS|exact X]].
      * destruct v as [z| |]; cbn in Kc, Kt; try congruence. inversion X; subst.
        eapply hv_int; [exact Kb|congruence|apply (rtpos_lt Snd i); exact I14|].
        rewrite RS. congruence.
Qed.
End HLoad.
