(* C07, forward simulation for HEAP statements on AArch64, part 7b: the induction over the fuel of the instrumented machine,
   all eleven statement forms, progress included.  Port of Proof/X86HSimProg.v; differences: the literals must be 64-bit
   values (`stmt_lits`, threaded like in Proof/A64SimProgC.v; closure bodies carry it in `hclo_ok`), Invoke continues in
   `finishes`-form (an indirect branch lands on the first real instruction at the closure's address), the frame above the
   spill area is `outer_ok st0` (what the prologue stored), the epilogue comes as the hypothesis CLEAN. *)
From Coq Require Import List ZArith NArith String Bool Lia FMapPositive Permutation.
From SCC Require Import Base.Sexp Lang.AxSyn Sem.AxSem Sem.AxHeap Model.ParMoves Model.Backend Model.A64 Sem.A64Sem
     Model.Linearize Model.LinCheck Generated.Constants Proof.LinBasics Proof.LinTyping Proof.LinMachine
     Proof.A64State Proof.A64ImmHw Proof.A64Imm Proof.A64Sel Proof.A64PM Proof.A64Exec
     Proof.A64MemSubst Proof.SubstGraph Proof.SubstBackends Proof.A64Subst Proof.A64Wf Proof.A64Print Proof.A64Entry
     Proof.A64SimRel Proof.A64SimStmt Proof.A64SimAddr Proof.A64SimClo Proof.A64SimProg Proof.A64SimProgC Proof.A64SimTop
     Proof.HRep Proof.A64Mem Proof.A64MemOps Proof.A64HSimRel Proof.A64HSimStmt Proof.A64HConv Proof.A64HSimStore Proof.A64HSimLoad
     Proof.A64HSimSubst Proof.A64HLayout Proof.A64HSimHeapA Proof.X86HAnn Proof.A64HSimHeapB Proof.A64HSimHeapC Proof.A64HSimProgA.
From SCC Require Model.Heap Proof.HeapMore Proof.HeapTrace Proof.HeapRep Proof.AxHeapTyping Proof.AxHeapSafe
     Proof.X86HeapDefs Proof.X86HeapCongr Proof.X86HFrame Proof.X86HSimHeapB Proof.X86HSimProgA Proof.X86HSimProg.
Import Sem.AxHeap.   (* after Proof.A64ImmHw, which also defines hstep / hexec *)
Import ListNotations.
Open Scope Z_scope.
Open Scope list_scope.

Notation has_in_ids := X86HSimProg.has_in_ids.
Notation find_clause_in := X86HSimProg.find_clause_in.
Notation map_h_id_app := X86HSimProg.map_h_id_app.
Notation hsplit_total := X86HSimProg.hsplit_total.
Notation firstn_app_exact := X86HSimHeapB.firstn_app_exact.
Lemma vars_ctx_of_env ce : vars (HRep.ctx_of_env ce) = map fst ce.
Proof. unfold vars, HRep.ctx_of_env. rewrite map_map. reflexivity. Qed.

Section MainH.
Variable im : image.
Variable p : prog.
Variable sp : Z.
Variable st0 : PM.t Z.
Hypothesis IMG : img_ok im.
Hypothesis FWD : fwd_ok im.
Hypothesis SMALL : forall pc a, PM.find pc (addr_of im) = Some a -> a < 4611686018427387904.
Hypothesis TAGS : forall d, In d (ptypes p) -> Z.of_nat (List.length (txtors d)) < 2305843009213693952.
Hypothesis PLT : forall d, In d (ptypes p) -> hash_name (label_of_type_name (show_ident (tname d))) = false.
Local Notation outer_ok := (outer_ok st0 sp).
Hypothesis DEFS : forall d, In d (pdefs p) ->
  exists pcd lcd cd lcd', find_label (labels im) (show_ident (dname d) +++ "_") = Some pcd /\
    PM.find pcd (code im) = Some (LAB (show_ident (dname d) +++ "_")) /\
    acs (ptypes p) (dbody d) (dctx d) lcd = Ok (cd, lcd') /\
    code_at im (Pos.succ pcd) cd /\ labels_at_nh im (Pos.succ pcd) cd.
Hypothesis CLEAN : exists pcc, find_label (labels im) "cleanup" = Some pcc /\
  forall s z, frame_ok s sp -> outer_ok s -> rget s RETURN1 = Some z -> finishes im pcc s (finish (out s) (OExit z)).
Hypothesis LP : lin_check_prog p = true.
Hypothesis ANN : ann_check_prog p = true.
Hypothesis LITS : forall d, In d (pdefs p) -> stmt_lits (dbody d) = true.
Notation CLO := (hclo_ok im p).
Local Notation hrel := (hrel (ptypes p) CLO).
Local Notation hinv := (hinv p).

Lemma LIN d : In d (pdefs p) -> lin_check (sigs_of p) (dctx d) (dbody d) = true.
Proof. unfold lin_check_prog in LP. rewrite forallb_forall in LP. exact (LP d). Qed.
Lemma ANNd d : In d (pdefs p) -> ann_check (dctx d) (dbody d) = true.
Proof. unfold ann_check_prog in ANN. rewrite forallb_forall in ANN. exact (ANN d). Qed.

(* the labels of declared types are not '#'-labels *)
Lemma type_nh tn xs : type_xtors (sigs_of p) (Decl tn) = Some xs -> forall lcx, hash_name (type_label (Decl tn) lcx) = false.
Proof.
  unfold type_xtors. cbn [sigs_of sg_types]. destruct (find (fun d => ident_eqb (tname d) tn) (ptypes p)) as [d|] eqn:FD; [|discriminate].
  intros _ lcx. apply find_some in FD as [IN EQ]. apply ident_eqb_eq in EQ. subst tn.
  unfold type_label. cbn [show_ty]. apply hash_name_sub. exact (PLT d IN).
Qed.

Ltac hstep_with HS G := cbn [hexec hc_env hc_heap hc_stmt] in G |- *; rewrite HS in G |- *.

Lemma stmt_lits_switch v t cls : stmt_lits (Switch v t cls) = true -> clauses_lits cls = true.
Proof.
  cbn [stmt_lits]. intros G. induction cls as [|[[x cx] b] r IH]; [reflexivity|]. cbn [clauses_lits forallb cl_body snd].
  apply andb_true_iff in G as [G1 G2]. rewrite G1. exact (IH G2).
Qed.

Lemma hsim_exec : forall fuel s c he hs ot tr st pc code lc lc',
  lin_check (sigs_of p) c s = true -> ann_check c s = true -> stmt_lits s = true ->
  acs (ptypes p) s c lc = Ok (code, lc') -> code_at im pc code -> labels_at_nh im pc code ->
  hrel c he hs st sp -> map h_id he = vars c -> hinv he hs s -> outer_ok st -> out st = ot ->
  not_oof (fst (fst (hexec fuel p (mkhc he hs s) ot tr))) ->
  finishes im pc st (fst (fst (hexec fuel p (mkhc he hs s) ot tr))).
Proof.
  induction fuel as [|fuel IH]; intros s c he hs ot tr st pc code lc lc' LC AN SLT CS CA LA R NM HI OK OUT G.
  { exfalso. apply G. reflexivity. }
  pose proof (hr_frame R) as F. pose proof (proj2 F) as SPOK.
  destruct (hinv_invA p _ _ _ HI) as (hl & fl & cl0 & IA).
  pose proof (X86HSimProgA.hi_p03 _ _ _ _ HI) as K03. pose proof (hinv_fit0 p _ _ _ HI) as FIT0.
  pose proof (hinv_ptrs_ok p _ _ _ HI) as EX.
  pose proof (hrel_length R) as LEN.
  destruct s as [re next|label args|v t tag args next|v t cls|v t env cls next|v tag t args|n v next|a op b v next|nl v next|so a b thenc elsec|v].
  - (* Substitute *)
    cbn [lin_check] in LC. apply andb_true_iff in LC as [_ LC]. apply andb_true_iff in LC as [LCs LCn].
    cbn [ann_check] in AN.
    destruct (hsubst_total he re) as (he' & HSB).
    { intros q Hq. rewrite (hr_ids R). rewrite forallb_forall in LCs. eapply has_in_ids. exact (LCs q Hq). }
    assert (HS : hstep p he hs (Substitute re next) = HStep (subst_ops he re) he' next None) by (cbn [hstep]; now rewrite HSB).
    hstep_with HS G.
    destruct (cs_substitute _ _ _ _ _ _ _ CS) as (c1 & lc1 & c2 & c3 & WC & CE & NX & ->).
    assert (NDn : NoDup (new_ids re)) by (rewrite <- ids_new; exact (lin_nodup _ _ _ LCn)).
    rewrite app_assoc in CA, LA. apply code_at_app in CA as [CA2 CA3]. apply labels_at_nh_app in LA as [LA2 LA3].
    destruct (hsim_substitute im (ptypes p) CLO c he hs st sp re he' c1 lc lc1 c2 pc hl fl cl0 R NDn) as (s' & X & R' & FE); auto.
    { intros q Hq. rewrite forallb_forall in LCs. exact (LCs q Hq). }
    { eapply hrel_ctx_of; eauto. }
    { lia. }
    eapply exec_to_finishes; [exact X|].
    eapply (IH next (map fst re) he' _ ot _ s'); eauto.
    + eapply hsubst_names; eauto.
    + eapply hinv_step; eauto.
    + eapply hframe_eq_outer; eauto.
    + destruct FE as (O & _). congruence.
  - (* Call *)
    cbn [lin_check] in LC. apply andb_true_iff in LC as [_ LC].
    destruct (lookup_label (sigs_of p) label) as [ps|] eqn:LL; [|discriminate].
    destruct (lookup_label_find_def p label ps LL) as (d & FD & <-).
    destruct (bind_total (vars (dctx d)) (map snd (erase_env he))) as (e' & BD).
    { apply sig_match_iff, same_kt_length in LC. unfold vars, erase_env. rewrite !map_length. unfold hentry in *. lia. }
    assert (HS : hstep p he hs (Call label args) = HStep [] (attach e' (ptrs he)) (dbody d) None) by (cbn [hstep]; now rewrite FD, BD).
    hstep_with HS G. cbn [hrun fold_left rev_append push_print] in G |- *.
    unfold find_def in FD. apply find_some in FD as [IN EQ]. apply ident_eqb_eq in EQ. subst label.
    destruct (cs_call _ _ _ _ _ _ _ CS) as (-> & _).
    destruct (DEFS d IN) as (pcd & lcd & cd & lcd' & FL & CLb & CSd & CAd & LAd).
    apply code_at_cons in CA as [CJ _].
    eapply exec_to_finishes.
    { eapply exec_jump; [exact CJ|cbn [step]; unfold goto_label; rewrite FL; reflexivity|].
      eapply exec_next; [exact CLb|reflexivity|apply exec_refl]. }
    eapply (IH (dbody d) (dctx d) (attach e' (ptrs he)) hs ot _ st); eauto.
    + exact (LIN d IN).
    + exact (ANNd d IN).
    + eapply hbind_rel; eauto. exact (lin_nodup _ _ _ (LIN d IN)).
    + rewrite attach_names. exact (bind_ids _ _ _ BD).
    + exact (hinv_step p LP _ _ _ _ _ _ _ HI HS).
  - (* Let *)
    pose proof LC as LC0. cbn [lin_check] in LC. apply andb_true_iff in LC as [_ LC].
    destruct (split_lastn (List.length args) c) as [[c0 tl]|] eqn:SPL; [|discriminate].
    apply split_lastn_Some in SPL as [-> SPLn].
    apply andb_true_iff in LC as [LC LCn]. apply andb_true_iff in LC as [CM AO].
    apply ctx_match_Prop in CM as [IDS SKT].
    assert (TN : exists tn, ty_name t = Some tn).
    { unfold args_ok, lookup_xtor, type_xtors in AO. destruct t as [|tn]; [discriminate|]. cbn. eauto. }
    destruct TN as (tn & TN).
    rewrite app_length in LEN.
    destruct (hsplit_total he (List.length args)) as (he0 & fs & SL & -> & LF); [lia|].
    rewrite app_length in LEN. assert (L0 : List.length he0 = List.length c0) by lia.
    assert (IDE : ids_eqb (env_ids (erase_env fs)) (ids args) = true).
    { assert (E : env_ids (erase_env fs) = ids args).
      { pose proof (hr_ids R) as Ids. unfold env_ids, ids, erase_env in *. rewrite !map_app in Ids.
        apply app_inv_len in Ids as [_ Ids]; [|rewrite !map_length; exact L0]. etransitivity; [exact Ids|exact IDS]. }
      rewrite E. apply ids_eqb_refl. }
    assert (HS : hstep p (he0 ++ fs) hs (Let v t tag args next) =
                 HStep [Heap.OAllocObj (map store_ptr fs)] (he0 ++ [(v, VObj tn tag (map h_val fs), fst (Heap.alloc_object (map store_ptr fs) hs))]) next None).
    { cbn [hstep]. rewrite TN, SL, IDE. reflexivity. }
    hstep_with HS G. cbn [rev_append push_print] in G |- *.
    pose proof (hinv_step p LP _ _ _ _ _ _ _ HI HS) as HI'.
    cbn [hrun fold_left Heap.step] in HI'.
    destruct (hinv_regs_nz p _ _ _ HI') as [HH0 HF0]. pose proof (hinv_fit0 p _ _ _ HI') as HF.
    cbn [ann_check] in AN. rewrite <- SPLn, split_lastn_app in AN.
    destruct (hsim_let im p TAGS _ _ hs st sp v t tag args next lc code lc' pc he0 fs tn hl fl cl0 R LC0 CS CA LA TN SL IA K03 EX HF HH0 HF0)
      as (c12 & c3 & lc1 & s' & -> & NX & LCn' & X & R' & FE).
    rewrite firstn_app_exact in NX, LCn', R' by exact SPLn.
    apply code_at_app in CA as [_ CA3]. apply labels_at_nh_app in LA as [_ LA3].
    eapply exec_to_finishes; [exact X|].
    eapply (IH next (c0 ++ [mkb v Prd t]) _ _ ot _ s'); eauto.
    + rewrite map_h_id_app in *. unfold vars in *. rewrite !map_app in *. cbn [map h_id fst bvar].
      apply app_inv_len in NM as [NM _]; [|rewrite !map_length; exact L0]. now rewrite NM.
    + eapply hframe_eq_outer; eauto.
    + destruct FE as (O & _). congruence.
  - (* Switch *)
    pose proof LC as LC0. rewrite lin_check_switch in LC. apply andb_true_iff in LC as [_ LC].
    destruct (split_lastn 1 c) as [[c0 [|b [|b' r]]]|] eqn:SLc; try discriminate.
    apply split_lastn_Some in SLc as [-> _].
    apply andb_true_iff in LC as [LC LCc]. apply andb_true_iff in LC as [LC CO]. apply andb_true_iff in LC as [LC TY].
    apply andb_true_iff in LC as [IDb CH]. apply N.eqb_eq in IDb. apply ty_eqb_eq in TY. apply chi_eqb_eq in CH.
    rewrite app_length in LEN. cbn [List.length] in LEN.
    destruct (exists_last (l := he)) as (he0 & [[x val] q] & ->); [intros ->; cbn in LEN; lia|].
    rewrite app_length in LEN. cbn [List.length] in LEN. assert (L0 : List.length he0 = List.length c0) by lia.
    destruct (hr_vals R (List.length he0) x val q) as (b0 & Hb0 & V); [apply nth_error_mid|].
    rewrite L0, nth_error_mid in Hb0. inversion Hb0; subst b0. clear Hb0.
    inversion V as [? z ? ? KE ?|b1 v1 q1 dw t1 t2 NE K1 K2 T1 T2 L1 L2 X]; subst; [congruence|].
    destruct val as [z|tn tag fs|tn cls' ce]; cbn in K1; try congruence. cbn in K2. rewrite <- K2 in *.
    inversion X as [|tn1 tag1 fs1 q1 a1 TW XF|]; subst.
    destruct TW as (d & k' & xk & FD & XP' & _ & FX & SK).
    assert (IDX : idn x = idn v).
    { pose proof (hr_ids R) as Ids. unfold env_ids, ids, erase_env in Ids. rewrite !map_app in Ids. cbn [map fst] in Ids.
      apply app_inj_tail in Ids as [_ E]. congruence. }
    pose proof CO as CO'. unfold cls_ok, type_xtors in CO'. cbn [sigs_of sg_types] in CO'. rewrite FD in CO'.
    destruct (find_clause_total cls (txtors d) tag xk CO' FX) as (cl & FC).
    destruct (find_clause_pos cls (txtors d) tag cl 0%N CO' FC) as (k & xk0 & Hk & Hxk & XP & FX' & SMk).
    assert (xk0 = xk) by congruence. subst xk0.
    destruct (bind_total (vars (cl_ctx cl)) fs) as (e1 & BD).
    { apply sig_match_iff, same_kt_length in SMk. apply Forall2_len in SK. unfold vars. rewrite map_length. lia. }
    unfold henv, hentry in *.
    assert (HS : hstep p (he0 ++ [(x, VObj tn tag fs, q)]) hs (Switch v (Decl tn) cls) =
                 HStep (load_ops (List.length (cl_ctx cl)) q) (he0 ++ attach e1 (load_ptrs hs (List.length (cl_ctx cl)) q)) (cl_body cl) None).
    { cbn [hstep]. rewrite split_last1_app. apply N.eqb_eq in IDX. rewrite IDX, FC, BD. reflexivity. }
    hstep_with HS G. cbn [push_print] in G |- *.
    pose proof (hinv_step p LP _ _ _ _ _ _ _ HI HS) as HI'.
    assert (RF : fs <> [] -> exists lk, HeapRep.rep_flds lk (Heap.m hs) fs q).
    { intros _. destruct (hinv_last_rep p _ _ _ _ _ _ HI) as (lk & RP). exists lk. inversion RP; subst. assumption. }
    assert (RF' : exists lk, fs <> [] -> HeapRep.rep_flds lk (Heap.m hs) fs q).
    { destruct fs as [|f0 fr]; [exists (fun _ => O); congruence|]. destruct (RF ltac:(discriminate)) as (lk & H). exists lk. auto. }
    destruct RF' as (lk & RFlk).
    assert (NHL : forall lcx, hash_name (type_label (Decl tn) lcx) = false).
    { unfold cls_ok in CO. destruct (type_xtors (sigs_of p) (Decl tn)) as [xs|] eqn:TX; [|discriminate]. eapply type_nh; eauto. }
    destruct (hsim_switch im p IMG SMALL _ _ hs st sp v (Decl tn) cls lc code lc' pc he0 x tn tag fs q cl e1 lk hl fl cl0 R LC0 CS CA LA NHL
                (split_last1_app _ _) FC BD IA K03 ltac:(lia) RFlk)
      as (pcb & lcb & cb & lcb' & s' & X' & CSb & CAb & LAb & LCb & R' & FE).
    rewrite removelast_last in CSb, LCb, R'.
    eapply exec_to_finishes; [exact X'|].
    rewrite ann_check_switch in AN. change 1%nat with (List.length [b]) in AN. rewrite split_lastn_app in AN.
    eapply (IH (cl_body cl) (c0 ++ cl_ctx cl) _ _ _ _ s'); eauto.
    + unfold ann_clauses_sw in AN. rewrite forallb_forall in AN. apply AN. eapply find_clause_in; eauto.
    + apply stmt_lits_switch in SLT. unfold clauses_lits in SLT. rewrite forallb_forall in SLT. apply SLT. eapply find_clause_in; eauto.
    + rewrite map_h_id_app in *. unfold vars in *. rewrite !map_app in *. cbn [map] in NM.
      apply app_inj_tail in NM as [NM _]. rewrite NM. f_equal. rewrite attach_names. exact (bind_ids _ _ _ BD).
    + eapply hframe_eq_outer; eauto.
    + destruct FE as (O & _). congruence.
  - (* Create *)
    destruct env as [env|]; [|cbn [lin_check] in LC; apply andb_true_iff in LC as [_ LC]; discriminate].
    pose proof LC as LC0. rewrite lin_check_create in LC. apply andb_true_iff in LC as [_ LC].
    destruct (split_lastn (List.length env) c) as [[c0 tl]|] eqn:SPL; [|discriminate].
    pose proof SPL as SPL0. apply split_lastn_Some in SPL as [-> SPLn].
    apply andb_true_iff in LC as [LC LCn]. apply andb_true_iff in LC as [LC LCc]. apply andb_true_iff in LC as [CM CO].
    apply ctx_match_Prop in CM as [IDS SKT].
    rewrite ann_check_create, SPL0 in AN. apply andb_true_iff in AN as [AN ANn]. apply andb_true_iff in AN as [ANe ANc].
    apply ctx_eqb_eq in ANe. subst tl.
    assert (TN : exists tn, t = Decl tn).
    { unfold cls_ok, type_xtors in CO. destruct t as [|tn]; [discriminate|eauto]. }
    destruct TN as (tn & ->).
    rewrite app_length in LEN.
    destruct (hsplit_total he (List.length env)) as (he0 & cap & SL & -> & LF); [lia|].
    rewrite app_length in LEN. assert (L0 : List.length he0 = List.length c0) by lia.
    assert (IDE : ids_eqb (env_ids (erase_env cap)) (ids env) = true).
    { assert (E : env_ids (erase_env cap) = ids env).
      { pose proof (hr_ids R) as Ids. unfold env_ids, ids, erase_env in *. rewrite !map_app in Ids.
        apply app_inv_len in Ids as [_ Ids]; [|rewrite !map_length; exact L0]. exact Ids. }
      rewrite E. apply ids_eqb_refl. }
    destruct (bind_total (vars env) (map h_val cap)) as (ce & BDc).
    { unfold vars. rewrite !map_length. lia. }
    assert (HS : hstep p (he0 ++ cap) hs (Create v (Decl tn) (Some env) cls next) =
                 HStep [Heap.OAllocObj (map store_ptr cap)] (he0 ++ [(v, VClo tn cls ce, fst (Heap.alloc_object (map store_ptr cap) hs))]) next None).
    { cbn [hstep ty_name]. rewrite SL, IDE, BDc. reflexivity. }
    hstep_with HS G. cbn [rev_append push_print] in G |- *.
    pose proof (hinv_step p LP _ _ _ _ _ _ _ HI HS) as HI'.
    cbn [hrun fold_left Heap.step] in HI'.
    destruct (hinv_regs_nz p _ _ _ HI') as [HH0 HF0]. pose proof (hinv_fit0 p _ _ _ HI') as HF.
    assert (NHL : forall lcx, hash_name (type_label (Decl tn) lcx) = false).
    { unfold cls_ok in CO. destruct (type_xtors (sigs_of p) (Decl tn)) as [xs|] eqn:TX; [|discriminate]. eapply type_nh; eauto. }
    assert (SKP : skipn (List.length (c0 ++ env) - List.length env) (c0 ++ env) = env).
    { rewrite app_length. replace (List.length c0 + List.length env - List.length env)%nat with (List.length c0) by lia.
      rewrite skipn_app, skipn_all, Nat.sub_diag. reflexivity. }
    destruct (hsim_create im p IMG FWD SMALL _ _ hs st sp v (Decl tn) env cls next lc code lc' pc he0 cap tn ce hl fl cl0
                R LC0 SKP ANc (proj1 (stmt_lits_create _ _ _ _ _ SLT)) CS CA LA NHL eq_refl SL BDc IA K03 EX HF HH0 HF0)
      as (c12 & c3 & lc2 & lc3 & rest' & s' & -> & NX & LCn' & X & R' & FE).
    rewrite firstn_app_exact in NX, LCn', R' by reflexivity.
    apply code_at_app in CA as [_ CA3]. apply code_at_app in CA3 as [CA3 _].
    apply labels_at_nh_app in LA as [_ LA3]. apply labels_at_nh_app in LA3 as [LA3 _].
    eapply exec_to_finishes; [exact X|].
    eapply (IH next (c0 ++ [mkb v Cns (Decl tn)]) _ _ ot _ s'); eauto.
    + exact (proj2 (stmt_lits_create _ _ _ _ _ SLT)).
    + rewrite map_h_id_app in *. unfold vars in *. rewrite !map_app in *. cbn [map h_id fst bvar].
      apply app_inv_len in NM as [NM _]; [|rewrite !map_length; exact L0]. now rewrite NM.
    + eapply hframe_eq_outer; eauto.
    + destruct FE as (O & _). congruence.
  - (* Invoke *)
    pose proof LC as LC0. cbn [lin_check] in LC. apply andb_true_iff in LC as [_ LC].
    destruct (split_lastn 1 c) as [[c0 [|b [|b' r]]]|] eqn:SLc; try discriminate.
    apply split_lastn_Some in SLc as [-> _].
    apply andb_true_iff in LC as [LC AO]. apply andb_true_iff in LC as [LC TY]. apply andb_true_iff in LC as [IDb CH].
    apply N.eqb_eq in IDb. apply ty_eqb_eq in TY. apply chi_eqb_eq in CH.
    rewrite app_length in LEN. cbn [List.length] in LEN.
    destruct (exists_last (l := he)) as (he0 & [[x val] q] & ->); [intros ->; cbn in LEN; lia|].
    rewrite app_length in LEN. cbn [List.length] in LEN. assert (L0 : List.length he0 = List.length c0) by lia.
    destruct (hr_vals R (List.length he0) x val q) as (b0 & Hb0 & V); [apply nth_error_mid|].
    rewrite L0, nth_error_mid in Hb0. inversion Hb0; subst b0. clear Hb0.
    inversion V as [? z ? ? KE ?|b1 v1 q1 a t1 t2 NE K1 K2 T1 T2 L1 L2 X]; subst; [congruence|].
    destruct val as [z|tn tag0 fs|tn cls ce]; cbn in K1; try congruence. cbn in K2.
    inversion X as [| |tn1 cls1 ce1 q1 a1 CLOa XF]; subst.
    pose proof CLOa as (CO & _ & _).
    assert (IDX : idn x = idn v).
    { pose proof (hr_ids R) as Ids. unfold env_ids, ids, erase_env in Ids. rewrite !map_app in Ids. cbn [map fst] in Ids.
      apply app_inj_tail in Ids as [_ E]. congruence. }
    rewrite <- K2 in *. unfold cls_ok, type_xtors in CO. cbn [sigs_of sg_types] in CO.
    unfold args_ok, lookup_xtor, type_xtors in AO. cbn [sigs_of sg_types] in AO.
    destruct (find (fun d => ident_eqb (tname d) tn) (ptypes p)) as [d|] eqn:FD; [|discriminate].
    destruct (find (fun x => ident_eqb (xname x) tag) (txtors d)) as [xk|] eqn:FX; [|discriminate].
    destruct (find_clause_total cls (txtors d) tag xk CO FX) as (cl & FC).
    destruct (find_clause_pos cls (txtors d) tag cl 0%N CO FC) as (k & xk' & Hk & Hxk & XP & FX' & SMk).
    assert (xk' = xk) by congruence. subst xk'.
    destruct (bind_total (vars (cl_ctx cl)) (map snd (erase_env he0))) as (e1 & BD).
    { apply sig_match_iff, same_kt_length in AO. apply sig_match_iff, same_kt_length in SMk. unfold vars, erase_env. rewrite !map_length. unfold hentry in *. lia. }
    unfold henv, hentry in *.
    assert (HS : hstep p (he0 ++ [(x, VClo tn cls ce, q)]) hs (Invoke v tag (Decl tn) args) =
                 HStep (load_ops (List.length ce) q) (attach e1 (ptrs he0) ++ attach ce (load_ptrs hs (List.length ce) q)) (cl_body cl) None).
    { cbn [hstep]. rewrite split_last1_app. apply N.eqb_eq in IDX. rewrite IDX, FC, BD. reflexivity. }
    hstep_with HS G. cbn [push_print] in G |- *.
    pose proof (hinv_step p LP _ _ _ _ _ _ _ HI HS) as HI'.
    assert (RF' : exists lk, ce <> [] -> HeapRep.rep_flds lk (Heap.m hs) (map snd ce) q).
    { destruct (hinv_last_rep p _ _ _ _ _ _ HI) as (lk & RP). exists lk. intros _. inversion RP; subst. assumption. }
    destruct RF' as (lk & RFlk).
    destruct (hsim_invoke im p _ _ hs st sp v tag (Decl tn) args code lc lc' pc he0 x tn cls ce q cl e1 lk hl fl cl0
                R (split_last1_app _ _) FC BD LC0 CS CA IA K03 ltac:(lia) RFlk)
      as (pcb & lcb & cb & lcb' & s' & X' & CSb & CAb & LAb & LCb & ANb & LITb & R' & FE).
    apply X'.
    eapply (IH (cl_body cl) (cl_ctx cl ++ HRep.ctx_of_env ce) _ _ _ _ s'); eauto.
    + rewrite map_h_id_app, !attach_names. unfold vars at 1. rewrite map_app. fold (vars (cl_ctx cl)) (vars (HRep.ctx_of_env ce)).
      rewrite vars_ctx_of_env. f_equal. exact (bind_ids _ _ _ BD).
    + eapply hframe_eq_outer; eauto.
    + destruct FE as (O & _). congruence.
  - (* Literal *)
    cbn [lin_check] in LC. apply andb_true_iff in LC as [_ LC]. cbn [ann_check] in AN.
    cbn [stmt_lits] in SLT. apply andb_true_iff in SLT as [SLn SLT].
    assert (HS : hstep p he hs (Literal n v next) = HStep [] (he ++ [(v, VInt n, 0)]) next None) by reflexivity.
    hstep_with HS G. cbn [hrun fold_left rev_append push_print] in G |- *.
    destruct (cs_literal _ _ _ _ _ _ _ _ CS) as (tv & c2 & TV & NX & ->).
    destruct (hsim_literal im (ptypes p) CLO c he hs st sp n v tv R (lin_nodup _ _ _ LC) (proj1 (lit_i64_in64 n) SLn) TV) as (s' & E & R' & FE).
    apply code_at_app in CA as [CA1 CA2]. apply labels_at_nh_app in LA as [_ LA2].
    eapply exec_to_finishes; [apply (run_straight_exec_to im _ pc st s' CA1 E)|].
    eapply (IH next (c ++ [mkb v Ext I64]) _ hs ot _ s'); eauto.
    + rewrite map_h_id_app. unfold vars. rewrite map_app. cbn. unfold vars in NM. now rewrite NM.
    + exact (hinv_step p LP _ _ _ _ _ _ _ HI HS).
    + eapply frame_eq_outer; eauto.
    + destruct FE as (_ & O & _). congruence.
  - (* Op *)
    cbn [lin_check] in LC. apply andb_true_iff in LC as [_ LC]. apply andb_true_iff in LC as [LCo LC].
    apply andb_true_iff in LCo as [HA HB]. cbn [ann_check] in AN.
    destruct (hhas_ext_lookup_int (ptypes p) CLO c he hs st sp a R HA) as (x & LA1).
    destruct (hhas_ext_lookup_int (ptypes p) CLO c he hs st sp b R HB) as (y & LB1).
    destruct (cs_op _ _ _ _ _ _ _ _ _ _ CS) as (tv & ta & tb & c2 & TV & TA & TB & NX & ->).
    apply code_at_app in CA as [CA1 CA2]. apply labels_at_nh_app in LA as [_ LA2].
    destruct (eval_op op x y) as [z|w] eqn:EV.
    + assert (HS : hstep p he hs (Op a op b v next) = HStep [] (he ++ [(v, VInt z, 0)]) next None) by (cbn [hstep]; now rewrite LA1, LB1, EV).
      hstep_with HS G. cbn [hrun fold_left rev_append push_print] in G |- *.
      destruct (hsim_op im (ptypes p) CLO c he hs st sp a op b v x y z tv ta tb R (lin_nodup _ _ _ LC) LA1 LB1 EV TV TA TB) as (s' & E & R' & FE).
      eapply exec_to_finishes; [apply (run_straight_exec_to im _ pc st s' CA1 E)|].
      eapply (IH next (c ++ [mkb v Ext I64]) _ hs ot _ s'); eauto.
      * rewrite map_h_id_app. unfold vars. rewrite map_app. cbn. unfold vars in NM. now rewrite NM.
      * exact (hinv_step p LP _ _ _ _ _ _ _ HI HS).
      * eapply frame_eq_outer; eauto.
      * destruct FE as (_ & O & _). congruence.
    + assert (HS : hstep p he hs (Op a op b v next) = HEnd (OUndef w)) by (cbn [hstep]; now rewrite LA1, LB1, EV).
      hstep_with HS G. cbn [fst].
      destruct (hsim_op_undef im (ptypes p) CLO c he hs st sp a op b v x y w tv ta tb R (lin_nodup _ _ _ LC) LA1 LB1 EV TV TA TB) as (s' & E & O).
      rewrite <- OUT, <- O. eapply exec_undef_finishes; eauto.
  - (* PrintI64 *)
    cbn [lin_check] in LC. apply andb_true_iff in LC as [_ LC]. apply andb_true_iff in LC as [HV LC]. cbn [ann_check] in AN.
    destruct (hhas_ext_lookup_int (ptypes p) CLO c he hs st sp v R HV) as (z & LV).
    assert (HS : hstep p he hs (PrintI64 nl v next) = HStep [] he next (Some (nl, z))) by (cbn [hstep]; now rewrite LV).
    hstep_with HS G. cbn [hrun fold_left rev_append push_print] in G |- *.
    destruct (cs_print _ _ _ _ _ _ _ _ CS) as (tv & c2 & TV & NX & ->).
    destruct (hsim_print im (ptypes p) CLO c he hs st sp nl v z tv R LV TV) as (s' & E & R' & O & AE).
    apply code_at_app in CA as [CA1 CA2]. apply labels_at_nh_app in LA as [_ LA2].
    eapply exec_to_finishes; [apply (run_straight_exec_to im _ pc st s' CA1 E)|].
    eapply (IH next c he hs ((nl, z) :: ot) _ s'); eauto.
    + exact (hinv_step p LP _ _ _ _ _ _ _ HI HS).
    + eapply above_eq_outer; eauto.
    + congruence.
  - (* IfC *)
    cbn [lin_check] in LC. apply andb_true_iff in LC as [_ LC].
    apply andb_true_iff in LC as [LC LCe]. apply andb_true_iff in LC as [LCo LCt]. apply andb_true_iff in LCo as [HA HB].
    cbn [ann_check] in AN. apply andb_true_iff in AN as [ANt ANe].
    destruct (hhas_ext_lookup_int (ptypes p) CLO c he hs st sp a R HA) as (x & LA1).
    assert (LB1 : exists y, match b with Some b0 => lookup_int (erase_env he) b0 | None => Some 0 end = Some y).
    { destruct b as [b|]; [|eauto]. exact (hhas_ext_lookup_int (ptypes p) CLO c he hs st sp b R HB). }
    destruct LB1 as (y & LB1).
    assert (HS : hstep p he hs (IfC so a b thenc elsec) = HStep [] he (if eval_cmp so x y then thenc else elsec) None) by (cbn [hstep]; now rewrite LA1, LB1).
    hstep_with HS G. cbn [hrun fold_left rev_append push_print] in G |- *.
    destruct (hsim_ifc im (ptypes p) CLO c he hs st sp so a b x y thenc elsec lc code lc' pc R LA1 LB1 CS CA LA)
      as (c1 & c2 & lc2 & c3 & s' & -> & EL & TH & X & R' & FE).
    assert (OK' : outer_ok s') by (eapply frame_eq_outer; eauto).
    cbn [stmt_lits] in SLT. apply andb_true_iff in SLT as [SLt SLe].
    assert (O' : out s' = ot) by (destruct FE as (_ & O & _); congruence).
    pose proof (hinv_step p LP _ _ _ _ _ _ _ HI HS) as HI'. cbn [hrun fold_left] in HI'.
    eapply exec_to_finishes; [exact X|].
    apply code_at_app in CA as [_ CA]. apply code_at_app in CA as [CA2 CA]. apply code_at_app in CA as [_ CA3].
    apply labels_at_nh_app in LA as [_ LA]. apply labels_at_nh_app in LA as [LA2 LA]. apply labels_at_nh_app in LA as [_ LA3].
    rewrite <- !padd_add in CA3, LA3. cbn [List.length] in CA3, LA3. rewrite Nat.add_assoc in CA3, LA3.
    destruct (eval_cmp so x y).
    + eapply (IH thenc c he hs ot _ s'); eauto.
    + eapply (IH elsec c he hs ot _ s'); eauto.
  - (* Exit *)
    cbn [lin_check] in LC. apply andb_true_iff in LC as [_ HV].
    destruct (hhas_ext_lookup_int (ptypes p) CLO c he hs st sp v R HV) as (z & LV).
    assert (HS : hstep p he hs (Exit v) = HEnd (OExit z)) by (cbn [hstep]; now rewrite LV).
    hstep_with HS G. cbn [fst].
    destruct (cs_exit _ _ _ _ _ _ CS) as (tv & TV & -> & _).
    destruct (hsim_exit_mov im (ptypes p) CLO c he hs st sp v z tv R LV TV) as (s' & E & RAX & F' & FE).
    apply code_at_app in CA as [CA1 CA2]. apply code_at_cons in CA2 as [CJ _].
    destruct CLEAN as (pcc & FL & CAc).
    eapply exec_to_finishes; [apply (run_straight_exec_to im _ pc st s' CA1 E)|].
    eapply exec_to_finishes.
    { eapply exec_jump; [exact CJ|cbn [step]; unfold goto_label; rewrite FL; reflexivity|apply exec_refl]. }
    replace ot with (out s') by (destruct FE as (_ & O & _); congruence).
    apply CAc; auto. eapply frame_eq_outer; eauto.
Qed.
End MainH.
