(* The model of uniquify (Model/Uniquify.v): on well-formed input it never fails (no panic, fuel
   suffices), the counter only grows, and the output's binders are pairwise distinct, each either
   an inherited non-zero id or a fresh one from the counter interval; ids stay below the counter
   and non-zero ids stay in scope. *)
From Coq Require Import List ZArith NArith String Bool Lia.
From SCC Require Import Base.Sexp Lang.CoreSyn Model.Backend Model.Uniquify Model.FocusCheck
     Proof.CoreInd Proof.SubstProof Proof.CheckLemmas.
Import ListNotations.
Open Scope list_scope.
Open Scope N_scope.

Lemma depth_term_pos : forall t, (1 <= depth_term t)%nat.
Proof. destruct t; simpl; lia. Qed.
Lemma depth_stmt_pos : forall s, (1 <= depth_stmt s)%nat.
Proof. destruct s; simpl; lia. Qed.
Lemma depth_clause_pos : forall c, (1 <= depth_clause c)%nat.
Proof. destruct c; simpl; lia. Qed.

Lemma bspec_mem_le : forall T R m m' L, bspec R m m' L -> mem_le T R -> T <= m' -> mem_le m' L.
Proof.
  intros T R m m' L [_ B] M LE b Hb. destruct (B b Hb) as [H|H]; [specialize (M b H); lia | lia].
Qed.

Lemma nonzero_cons0 : forall x l, x = 0 -> nonzero (x :: l) = nonzero l.
Proof. intros; subst; reflexivity. Qed.
Lemma nonzero_cons_nz : forall x l, x <> 0 -> nonzero (x :: l) = x :: nonzero l.
Proof. intros x l H. unfold nonzero; simpl. apply N.eqb_neq in H. rewrite H. reflexivity. Qed.

(* ---------- uq_context ---------- *)
Lemma frev_rev : forall (X : Type) (l : list X), frev l = rev l.
Proof. intros; unfold frev. rewrite rev_append_rev. apply app_nil_r. Qed.

Lemma uq_context_acc : forall bs m acc vs cs,
  uq_context bs m acc vs cs =
  let '(c, v, k, m') := uq_context bs m [] [] [] in (rev acc ++ c, rev vs ++ v, rev cs ++ k, m').
Proof.
  induction bs as [|b r IH]; intros m acc vs cs; simpl.
  - rewrite !frev_rev. simpl. rewrite !app_nil_r. reflexivity.
  - destruct (N.eqb (cid_id (cbvar b)) 0).
    + destruct (cbchi b).
      * rewrite (IH _ (_ :: acc) (_ :: vs) cs). rewrite (IH _ [_] [_] []).
        destruct (uq_context r (m + 1) [] [] []) as [[[c v] k] m']. simpl.
        rewrite <- !app_assoc. reflexivity.
      * rewrite (IH _ (_ :: acc) vs (_ :: cs)). rewrite (IH _ [_] [] [_]).
        destruct (uq_context r (m + 1) [] [] []) as [[[c v] k] m']. simpl.
        rewrite <- !app_assoc. reflexivity.
    + rewrite (IH _ (_ :: acc) vs cs). rewrite (IH _ [_] [] []).
      destruct (uq_context r m [] [] []) as [[[c v] k] m']. simpl.
      rewrite <- !app_assoc. reflexivity.
Qed.

Lemma rng_cons : forall b env k c v ty s,
  cid_id v <= b -> In (cid_id v) env -> rng b env s -> rng b env ((k, CXVar c v ty) :: s).
Proof. intros. constructor; auto. exists c, v, ty; auto. Qed.
Lemma rng_bound : forall b b' env s, rng b env s -> b <= b' -> rng b' env s.
Proof.
  unfold rng; intros b b' env s H L. rewrite Forall_forall in *. intros p Hp.
  destruct (H p Hp) as (c & v & ty & E & L1 & M). exists c, v, ty. repeat split; auto. lia.
Qed.

Lemma uq_context_spec : forall bs T m,
  NoDup (nonzero (cids bs)) -> mem_le T (nonzero (cids bs)) -> T <= m ->
  exists ctx' vs cs m1, uq_context bs m [] [] [] = (ctx', vs, cs, m1) /\ m <= m1 /\
    bspec (nonzero (cids bs)) m m1 (cids ctx') /\
    rng m1 (cids ctx') vs /\ rng m1 (cids ctx') cs /\ sub_nz (cids bs) (cids ctx').
Proof.
  induction bs as [|b r IH]; intros T m ND ML LE; simpl.
  - exists [], [], [], m. split; [reflexivity|]. split; [lia|]. split; [apply bspec_nil|].
    split; [apply rng_nil|]. split; [apply rng_nil|apply sub_nz_refl].
  - change (cids (b :: r)) with (cid_id (cbvar b) :: cids r) in *. destruct (N.eqb (cid_id (cbvar b)) 0) eqn:Z.
    + apply N.eqb_eq in Z. rewrite (nonzero_cons0 _ _ Z) in *.
      destruct (IH T (m + 1)) as (c & v & k & m1 & E & L1 & BS & Rv & Rk & SN); auto; try lia.
      assert (F : bspec (nonzero (cids r)) m m1 ((m + 1) :: cids c)).
      { eapply bspec_cons_fresh; eauto. }
      assert (SN' : sub_nz (cid_id (cbvar b) :: cids r) ((m + 1) :: cids c)).
      { rewrite Z. eapply sub_nz_trans; [apply sub_nz_drop0|]. apply sub_nz_skip; auto. }
      destruct (cbchi b).
      * rewrite uq_context_acc, E. simpl.
        eexists _, _, _, _. split; [reflexivity|]. simpl.
        split; [lia|]. split; [exact F|]. split; [|split; [|exact SN']].
        -- apply rng_cons; simpl; try lia; auto. eapply rng_env; eauto. intros ? ?; right; auto.
        -- eapply rng_env; eauto. intros ? ?; right; auto.
      * rewrite uq_context_acc, E. simpl.
        eexists _, _, _, _. split; [reflexivity|]. simpl.
        split; [lia|]. split; [exact F|]. split; [|split; [|exact SN']].
        -- eapply rng_env; eauto. intros ? ?; right; auto.
        -- apply rng_cons; simpl; try lia; auto. eapply rng_env; eauto. intros ? ?; right; auto.
    + apply N.eqb_neq in Z. rewrite (nonzero_cons_nz _ _ Z) in *.
      assert (ML' := ML). apply mem_le_cons in ML'. destruct ML' as [Lb ML'].
      assert (ND' := ND). apply NoDup_cons_iff in ND'. destruct ND' as [Nin ND'].
      destruct (IH T m) as (c & v & k & m1 & E & L1 & BS & Rv & Rk & SN); auto.
      rewrite uq_context_acc, E. simpl.
      eexists _, _, _, _. split; [reflexivity|]. simpl.
      split; [lia|]. split; [eapply bspec_cons_keep; eauto|]. split; [|split].
      * eapply rng_env; eauto. intros ? ?; right; auto.
      * eapply rng_env; eauto. intros ? ?; right; auto.
      * apply sub_nz_cons; auto.
Qed.

(* ---------- the specification of uq_* at a given fuel ---------- *)
Definition UQt (f : nat) : Prop := forall t T env m c,
  (depth_term t <= f)%nat -> wf_term c t = true ->
  NoDup (nonzero (binder_ids_term t)) -> mem_le T (nonzero (binder_ids_term t)) -> T <= m ->
  ids_le_term m t = true -> scoped_term env t = true ->
  exists t' m', uq_term f t m = Ok (t', m') /\ m <= m' /\ wf_term c t' = true /\
    is_xtor t' = is_xtor t /\ is_op t' = is_op t /\
    bspec (nonzero (binder_ids_term t)) m m' (binder_ids_term t') /\
    ids_le_term m' t' = true /\ scoped_term env t' = true.
Definition UQa (f : nat) : Prop := forall a T env m,
  (depth_arg a <= f)%nat -> wf_arg a = true ->
  NoDup (nonzero (binder_ids_arg a)) -> mem_le T (nonzero (binder_ids_arg a)) -> T <= m ->
  ids_le_arg m a = true -> scoped_arg env a = true ->
  exists a' m', uq_arg_with (uq_term f) a m = Ok (a', m') /\ m <= m' /\ wf_arg a' = true /\
    bspec (nonzero (binder_ids_arg a)) m m' (binder_ids_arg a') /\
    ids_le_arg m' a' = true /\ scoped_arg env a' = true.
Definition UQc (f : nat) : Prop := forall cl T env m,
  (depth_clause cl <= f)%nat -> wf_clause cl = true ->
  NoDup (nonzero (binder_ids_clause cl)) -> mem_le T (nonzero (binder_ids_clause cl)) -> T <= m ->
  ids_le_clause m cl = true -> scoped_clause env cl = true ->
  exists cl' m', uq_clause f cl m = Ok (cl', m') /\ m <= m' /\ wf_clause cl' = true /\
    bspec (nonzero (binder_ids_clause cl)) m m' (binder_ids_clause cl') /\
    ids_le_clause m' cl' = true /\ scoped_clause env cl' = true.
Definition UQs (f : nat) : Prop := forall s T env m,
  (depth_stmt s <= f)%nat -> wf_stmt s = true ->
  NoDup (nonzero (binder_ids_stmt s)) -> mem_le T (nonzero (binder_ids_stmt s)) -> T <= m ->
  ids_le_stmt m s = true -> scoped_stmt env s = true ->
  exists s' m', uq_stmt f s m = Ok (s', m') /\ m <= m' /\ wf_stmt s' = true /\
    bspec (nonzero (binder_ids_stmt s)) m m' (binder_ids_stmt s') /\
    ids_le_stmt m' s' = true /\ scoped_stmt env s' = true.

Lemma UQt_UQa : forall f, UQt f -> UQa f.
Proof.
  intros f H a T env m D W ND ML LE I S. destruct a as [p|p]; simpl in *.
  - destruct (H p T env m CPrd) as (p' & m' & E & L & W' & _ & _ & BS & I' & S'); auto.
    rewrite E; simpl. exists (CProducer p'), m'. repeat split; auto; apply BS.
  - destruct (H p T env m CCns) as (p' & m' & E & L & W' & _ & _ & BS & I' & S'); auto.
    rewrite E; simpl. exists (CConsumer p'), m'. repeat split; auto; apply BS.
Qed.

(* lists: maprs with the counter threaded *)
Section ListSpec.
  Variables (X : Type) (g : X -> N -> res (X * N)).
  Variables (dep : X -> nat) (wf : X -> bool) (bids : X -> list N) (idle : N -> X -> bool) (sc : list N -> X -> bool).
  Variable f : nat.
  Hypothesis idle_mono : forall b b' x, b <= b' -> idle b x = true -> idle b' x = true.
  Hypothesis Hg : forall x T env m,
    (dep x <= f)%nat -> wf x = true ->
    NoDup (nonzero (bids x)) -> mem_le T (nonzero (bids x)) -> T <= m ->
    idle m x = true -> sc env x = true ->
    exists x' m', g x m = Ok (x', m') /\ m <= m' /\ wf x' = true /\
      bspec (nonzero (bids x)) m m' (bids x') /\ idle m' x' = true /\ sc env x' = true.

  Lemma maprs_uq_spec : forall l T env m,
    (forall x, In x l -> (dep x <= f)%nat) -> forallb wf l = true ->
    NoDup (nonzero (flat_map bids l)) -> mem_le T (nonzero (flat_map bids l)) -> T <= m ->
    forallb (idle m) l = true -> forallb (sc env) l = true ->
    exists l' m', maprs g l m = Ok (l', m') /\ m <= m' /\ forallb wf l' = true /\
      bspec (nonzero (flat_map bids l)) m m' (flat_map bids l') /\
      forallb (idle m') l' = true /\ forallb (sc env) l' = true.
  Proof.
    induction l as [|x l IH]; intros T env m D W ND ML LE I S; simpl in *.
    - exists [], m. split; [reflexivity|]. split; [lia|]. split; [auto|]. split; [apply bspec_nil|auto].
    - bsplit. rewrite nonzero_app in *.
      assert (ND' := ND). apply NoDup_app_iff in ND'. destruct ND' as (ND1 & ND2 & _).
      assert (ML' := ML). apply mem_le_app in ML'. destruct ML' as (ML1 & ML2).
      destruct (Hg x T env m) as (x' & m1 & E1 & L1 & W1 & B1 & I1 & S1); auto.
      destruct (IH T env m1) as (l' & m2 & E2 & L2 & W2 & B2 & I2 & S2); auto; try lia.
      { eapply forallb_impl with (f := idle m); [|eassumption]. intros y Hy Iy. eapply idle_mono; [|exact Iy]. lia. }
      rewrite E1; simpl. rewrite E2; simpl. exists (x' :: l'), m2. simpl.
      split; [reflexivity|]. split; [lia|]. split; [bsplit; auto|].
      split; [eapply bspec_app; eauto|]. split; bsplit; auto.
      eapply idle_mono; [|eassumption]. lia.
  Qed.
End ListSpec.

Lemma in_depth_args : forall a l, In a l -> (depth_arg a <= depth_args l)%nat.
Proof. induction l; simpl; intros H; [tauto|]. destruct H; subst; [lia | specialize (IHl H); lia]. Qed.
Lemma in_depth_clauses : forall a l, In a l -> (depth_clause a <= depth_clauses l)%nat.
Proof. induction l; simpl; intros H; [tauto|]. destruct H; subst; [lia | specialize (IHl H); lia]. Qed.

Lemma sub_nz_fresh : forall x n env, x = 0 -> sub_nz (x :: env) (n :: env).
Proof. intros x n env ->. eapply sub_nz_trans; [apply sub_nz_drop0 | apply sub_nz_skip, sub_nz_refl]. Qed.

Local Arguments nonzero : simpl never.

Ltac uq_ih H x T env m c :=
  let x' := fresh x "'" in let m' := fresh "m" in
  let E := fresh "E" in let L := fresh "L" in let W := fresh "W" in
  let BS := fresh "BS" in let I := fresh "I" in let S := fresh "S" in
  destruct (H x T env m c) as (x' & m' & E & L & W & BS & I & S).

Lemma uq_spec : forall f, UQt f /\ UQc f /\ UQs f.
Proof.
  induction f as [|f (IHt & IHc & IHs)].
  { repeat split; intros x; intros.
    - pose proof (depth_term_pos x); lia.
    - pose proof (depth_clause_pos x); lia.
    - pose proof (depth_stmt_pos x); lia. }
  assert (IHa := UQt_UQa f IHt).
  assert (Hargs := maprs_uq_spec carg (uq_arg_with (uq_term f)) depth_arg wf_arg binder_ids_arg ids_le_arg scoped_arg f
                     (fun b b' x L => ids_le_arg_mono b b' L x) IHa).
  assert (Hcls := maprs_uq_spec cclause (uq_clause f) depth_clause wf_clause binder_ids_clause ids_le_clause scoped_clause f
                     (fun b b' x L => ids_le_clause_mono b b' L x) IHc).
  split; [|split].
  - (* terms *)
    intros t T env m c D W ND ML LE I S. destruct t as [c0 v ty|n|a o b|c0 v s ty|c0 x args ty|c0 cls ty]; simpl in *.
    + exists (CXVar c0 v ty), m. repeat split; auto; try lia; try constructor; try (intros ? []).
    + exists (CLit n), m. repeat split; auto; try lia; try constructor; try (intros ? []).
    + (* Op *)
      bsplit. rewrite nonzero_app in *.
      assert (ND' := ND). apply NoDup_app_iff in ND'. destruct ND' as (ND1 & ND2 & _).
      assert (ML' := ML). apply mem_le_app in ML'. destruct ML' as (ML1 & ML2).
      destruct c; try discriminate.
      destruct (IHt a T env m CPrd) as (a' & m1 & E1 & L1 & W1 & _ & _ & B1 & I1 & S1); auto; try lia.
      destruct (IHt b T env m1 CPrd) as (b' & m2 & E2 & L2 & W2 & _ & _ & B2 & I2 & S2); auto; try lia.
      { eapply ids_le_term_mono; [|eassumption]; lia. }
      rewrite E1; simpl. rewrite E2; simpl. exists (COp a' o b'), m2. simpl.
      split; [reflexivity|]. split; [lia|]. split; [bsplit; auto|]. split; [auto|]. split; [auto|].
      split; [eapply bspec_app; eauto|]. split; bsplit; auto.
      eapply ids_le_term_mono; [|eassumption]; lia.
    + (* Mu *)
      bsplit. apply N.leb_le in H. destruct (N.eqb (cid_id v) 0) eqn:Z.
      * apply N.eqb_eq in Z. rewrite (nonzero_cons0 _ _ Z) in *.
        assert (SB : exists s1, match c0 with
                                | CPrd => subst_covar_stmt s v (CXVar CCns (cid_name v, m + 1) ty)
                                | CCns => subst_var_stmt s v (CXVar CPrd (cid_name v, m + 1) ty)
                                end = Ok s1 /\ sspec_stmt (m + 1) ((m + 1) :: env) s s1).
        { assert (I1 : ids_le_stmt (m + 1) s = true) by (eapply ids_le_stmt_mono; [|eassumption]; lia).
          assert (S1 : scoped_stmt ((m + 1) :: env) s = true).
          { eapply scoped_stmt_mono; [|eassumption]. apply sub_nz_fresh; auto. }
          destruct c0; unfold subst_covar_stmt, subst_var_stmt; apply subst_var_spec_stmt; auto;
            try apply rng_nil; apply rng_cons; simpl; try lia; auto; apply rng_nil. }
        destruct SB as (s1 & Es1 & (Sb & Sd & Sw & Si & Ss)).
        rewrite Es1; simpl.
        destruct (IHs s1 T ((m + 1) :: env) (m + 1)) as (s2 & m2 & E2 & L2 & W2 & B2 & I2 & S2); auto; try lia.
        { rewrite Sb; auto. } { rewrite Sb; auto. }
        rewrite E2; simpl. exists (CMu c0 (cid_name v, m + 1) s2 ty), m2. simpl.
        split; [reflexivity|]. split; [lia|]. split; [auto|]. split; [auto|]. split; [auto|].
        split; [|split; auto].
        -- rewrite Sb in B2. eapply bspec_cons_fresh; eauto.
        -- bsplit; auto. apply N.leb_le; lia.
      * apply N.eqb_neq in Z. rewrite (nonzero_cons_nz _ _ Z) in *.
        assert (ML' := ML). apply mem_le_cons in ML'. destruct ML' as [Lb ML'].
        assert (ND' := ND). apply NoDup_cons_iff in ND'. destruct ND' as [Nin ND'].
        destruct (IHs s T (cid_id v :: env) m) as (s2 & m2 & E2 & L2 & W2 & B2 & I2 & S2); auto; try lia.
        rewrite E2; simpl. exists (CMu c0 v s2 ty), m2. simpl.
        split; [reflexivity|]. split; [lia|]. split; [auto|]. split; [auto|]. split; [auto|].
        split; [|split; auto].
        -- eapply bspec_cons_keep; eauto.
        -- bsplit; auto. apply N.leb_le; lia.
    + (* Xtor *)
      rewrite depth_args_eq in D.
      destruct (Hargs args T env m) as (args' & m1 & E1 & L1 & W1 & B1 & I1 & S1); auto.
      { intros a Ha. pose proof (in_depth_args a args Ha). lia. }
      rewrite E1; simpl. exists (CXtor c0 x args' ty), m1. simpl. repeat split; auto; apply B1.
    + (* XCase *)
      rewrite depth_clauses_eq in D.
      destruct (Hcls cls T env m) as (cls' & m1 & E1 & L1 & W1 & B1 & I1 & S1); auto.
      { intros a Ha. pose proof (in_depth_clauses a cls Ha). lia. }
      rewrite E1; simpl. exists (CXCase c0 cls' ty), m1. simpl. repeat split; auto; apply B1.
  - (* clauses *)
    intros cl T env m D W ND ML LE I S. destruct cl as [c0 x ctx body]; simpl in *.
    bsplit. rewrite nonzero_app in *.
    assert (ND' := ND). apply NoDup_app_iff in ND'. destruct ND' as (ND1 & ND2 & _).
    assert (ML' := ML). apply mem_le_app in ML'. destruct ML' as (ML1 & ML2).
    destruct (uq_context_spec ctx T m) as (ctx' & vs & cs & m1 & E & L1 & BC & Rv & Rc & SN); auto.
    rewrite E.
    assert (I1 : ids_le_stmt m1 body = true) by (eapply ids_le_stmt_mono; [|eassumption]; lia).
    assert (S1 : scoped_stmt (cids ctx' ++ env) body = true).
    { eapply scoped_stmt_mono; [|eassumption]. apply sub_nz_app2; auto. apply sub_nz_refl. }
    assert (SB : exists b1, (if is_nil vs && is_nil cs then Ok body else subst_stmt body vs cs) = Ok b1
                            /\ sspec_stmt m1 (cids ctx' ++ env) body b1).
    { destruct (is_nil vs && is_nil cs).
      - exists body; split; auto. unfold sspec_stmt; auto.
      - apply subst_var_spec_stmt; auto; eapply rng_env; eauto; intros ? ?; apply in_or_app; auto. }
    destruct SB as (b1 & Eb1 & (Sb & Sd & Sw & Si & Ss)). rewrite Eb1; simpl.
    destruct (IHs b1 T (cids ctx' ++ env) m1) as (b2 & m2 & E2 & L2 & W2 & B2 & I2 & S2); auto; try lia.
    { rewrite Sb; auto. } { rewrite Sb; auto. }
    rewrite E2; simpl. exists (CClause c0 x ctx' b2), m2. simpl.
    split; [reflexivity|]. split; [lia|]. split; [auto|]. split; [|split; auto].
    + rewrite Sb in B2. eapply bspec_app; eauto.
    + bsplit; auto. apply forallb_leb. eapply mem_le_mono; [|exact L2]. eapply bspec_mem_le; eauto. lia.
  - (* statements *)
    intros s T env m D W ND ML LE I S. destruct s as [p ty k|so a bo t e|nl a next|g args ty|a ty]; simpl in *.
    + (* Cut *)
      bsplit. rewrite nonzero_app in *.
      assert (ND' := ND). apply NoDup_app_iff in ND'. destruct ND' as (ND1 & ND2 & _).
      assert (ML' := ML). apply mem_le_app in ML'. destruct ML' as (ML1 & ML2).
      destruct (IHt p T env m CPrd) as (p' & m1 & E1 & L1 & W1 & X1 & O1 & B1 & I1 & S1); auto; try lia.
      destruct (IHt k T env m1 CCns) as (k' & m2 & E2 & L2 & W2 & X2 & O2 & B2 & I2 & S2); auto; try lia.
      { eapply ids_le_term_mono; [|eassumption]; lia. }
      rewrite E1; simpl. rewrite E2; simpl. exists (CCut p' ty k'), m2. simpl.
      split; [reflexivity|]. split; [lia|]. split; [rewrite X1, X2, O1; bsplit; auto|].
      split; [eapply bspec_app; eauto|]. split; bsplit; auto.
      eapply ids_le_term_mono; [|eassumption]; lia.
    + (* IfC *)
      bsplit. rewrite !nonzero_app in *.
      assert (ND' := ND). apply NoDup_app_iff in ND'. destruct ND' as (ND1 & NDr & _).
      assert (ML' := ML). apply mem_le_app in ML'. destruct ML' as (ML1 & MLr).
      assert (ND'' := NDr). apply NoDup_app_iff in ND''. destruct ND'' as (ND2 & NDr2 & _).
      assert (ML'' := MLr). apply mem_le_app in ML''. destruct ML'' as (ML2 & MLr2).
      assert (ND3 := NDr2). apply NoDup_app_iff in ND3. destruct ND3 as (ND3 & ND4 & _).
      assert (ML3 := MLr2). apply mem_le_app in ML3. destruct ML3 as (ML3 & ML4).
      destruct (IHt a T env m CPrd) as (a' & m1 & E1 & L1 & W1 & _ & _ & B1 & I1 & S1); auto; try lia.
      rewrite E1; simpl.
      assert (HB : exists b' m2,
                 match bo with
                 | Some b0 => dor (b1, m2) <- uq_term f b0 m1; Ok (Some b1, m2)
                 | None => Ok (None, m1)
                 end = Ok (b', m2) /\ m1 <= m2 /\
                 match b' with Some b1 => wf_term CPrd b1 | None => true end = true /\
                 bspec (nonzero match bo with Some b1 => binder_ids_term b1 | None => [] end) m1 m2
                       match b' with Some b1 => binder_ids_term b1 | None => [] end /\
                 match b' with Some y' => ids_le_term m2 y' | None => true end = true /\
                 match b' with Some y' => scoped_term env y' | None => true end = true).
      { destruct bo as [b0|].
        - destruct (IHt b0 T env m1 CPrd) as (b' & m2 & E2 & L2 & W2 & _ & _ & B2 & I2 & S2); auto; try lia.
          { eapply ids_le_term_mono; [|eassumption]; lia. }
          rewrite E2; simpl. exists (Some b'), m2. repeat split; auto; apply B2.
        - exists None, m1. repeat split; auto; try lia; try constructor; try (intros ? []). }
      destruct HB as (b' & m2 & E2 & L2 & W2 & B2 & I2 & S2). rewrite E2; simpl.
      destruct (IHs t T env m2) as (t' & m3 & E3 & L3 & W3 & B3 & I3 & S3); auto; try lia.
      { eapply ids_le_stmt_mono; [|eassumption]; lia. }
      rewrite E3; simpl.
      destruct (IHs e T env m3) as (e' & m4 & E4 & L4 & W4 & B4 & I4 & S4); auto; try lia.
      { eapply ids_le_stmt_mono; [|eassumption]; lia. }
      rewrite E4; simpl. exists (CIfC so a' b' t' e'), m4. simpl.
      split; [reflexivity|]. split; [lia|]. split; [bsplit; auto|].
      split.
      { eapply bspec_app; eauto; try lia. eapply bspec_app; eauto; try lia. eapply bspec_app; eauto; lia. }
      split; bsplit; auto.
      * eapply ids_le_term_mono; [|eassumption]; lia.
      * destruct b'; auto. eapply ids_le_term_mono; [|eassumption]; lia.
      * eapply ids_le_stmt_mono; [|eassumption]; lia.
    + (* Print *)
      bsplit. rewrite nonzero_app in *.
      assert (ND' := ND). apply NoDup_app_iff in ND'. destruct ND' as (ND1 & ND2 & _).
      assert (ML' := ML). apply mem_le_app in ML'. destruct ML' as (ML1 & ML2).
      destruct (IHt a T env m CPrd) as (a' & m1 & E1 & L1 & W1 & _ & _ & B1 & I1 & S1); auto; try lia.
      destruct (IHs next T env m1) as (n' & m2 & E2 & L2 & W2 & B2 & I2 & S2); auto; try lia.
      { eapply ids_le_stmt_mono; [|eassumption]; lia. }
      rewrite E1; simpl. rewrite E2; simpl. exists (CPrint nl a' n'), m2. simpl.
      split; [reflexivity|]. split; [lia|]. split; [bsplit; auto|].
      split; [eapply bspec_app; eauto|]. split; bsplit; auto.
      eapply ids_le_term_mono; [|eassumption]; lia.
    + (* Call *)
      rewrite depth_args_eq in D.
      destruct (Hargs args T env m) as (args' & m1 & E1 & L1 & W1 & B1 & I1 & S1); auto.
      { intros a Ha. pose proof (in_depth_args a args Ha). lia. }
      rewrite E1; simpl. exists (CCall g args' ty), m1. simpl. repeat split; auto; apply B1.
    + (* Exit *)
      destruct (IHt a T env m CPrd) as (a' & m1 & E1 & L1 & W1 & _ & _ & B1 & I1 & S1); auto; try lia.
      rewrite E1; simpl. exists (CExit a' ty), m1. simpl. repeat split; auto; apply B1.
Qed.
