(* Proof/Fun2CoreTyRefute.v (C12)
   (1) REGRESSION, former finding main-non-integer-result (fixed in /repo by 5b8c76f): `data Bar { B }
       def main(): Bar { B }` was ACCEPTED by the checker that never looked at the return type of main
       ([Check.old_check_main]); it has no capture risk and no call of main, and its translation is an ILL-TYPED Core
       program: compile_main types the operand of the final `exit` with the declared return type.  The checker now
       rejects it (Mismatch), and so does the specification Sem/FunTyping.v (rule main : i64).  The annotated form was
       the real checker's output for corpus/fun/c12_main_nonint.sc before the fix (modelrun wt-stages still compares it
       whenever a checker accepts that file).
   (2) REGRESSION, former finding call-to-main (fixed in /repo by f929eb7): the statement `accepted + Barendregt -> the
       translation is well typed` - and the statement guarded by prog_tyguard, which has no call-of-main exclusion any
       more - was FALSE of the translation before the fix: corpus/fun/call_main_nontail.sc is accepted, satisfies the
       Barendregt condition and the guard, and `main(0, mu~ r. ..)` against `def main(n)` has the wrong number of
       arguments.  The repaired translation of the witness is well typed (by evaluation here; by the THEOREM in
       Proof/WtExamples3.v). *)
From Coq Require Import List ZArith NArith String Bool.
From SCC Require Import Lang.FunSyn Lang.CoreSyn Model.Check Sem.FunTyping Sem.FunErase Sem.CoreCheck Model.Fun2Core
     Model.Fun2CoreTyGuard.
Import ListNotations.

Lemma old_fun2core_main_result_refuted_lemma :
  exists (src : fprog) (p : fcprog) (c : cprog),
    Check.old_check_main src = COk p /\ Check.check src = CErr EMismatch /\ has_type_b src = false /\
    annotated_fcprog p = true /\
    compile_prog p = Fun2Core.Ok c /\ wt_core c = false /\
    shadowing_risk_prog p = false /\ calls_main_prog p = false /\ barendregt p = true /\
    prog_tyguard p = false.
Proof.
  exists main_nonint_source, main_nonint_witness.
  destruct (compile_prog main_nonint_witness) as [c|m] eqn:E; [|vm_compute in E; discriminate].
  exists c. repeat split; try (vm_compute; reflexivity).
  revert E. vm_compute. intros E. inversion E. reflexivity.
Qed.

(* the source of call_main_witness: the checked program with its annotations erased *)
Definition call_main_source : fprog := mkfprog (map (fun d => FDDef (erase_def d)) (fcpdefs call_main_witness)).
Lemma fun2core_call_main_typing_refuted_before_fix_lemma :
  exists (src : fprog) (p : fcprog) (c : cprog),
    has_type_b src = true /\ Check.check src = COk p /\ annotated_fcprog p = true /\
    compile_prog_before_fix p = Fun2Core.Ok c /\ wt_core c = false /\
    shadowing_risk_prog p = false /\ calls_main_prog p = true /\ barendregt p = true /\
    prog_tyguard p = true.
Proof.
  exists call_main_source, call_main_witness.
  destruct (compile_prog_before_fix call_main_witness) as [c|m] eqn:E; [|vm_compute in E; discriminate].
  exists c. repeat split; try (vm_compute; reflexivity).
  revert E. vm_compute. intros E. inversion E. reflexivity.
Qed.
(* ... the repaired translation of the same program (fix f929eb7) is well typed *)
Lemma call_main_typing_witness_fixed_lemma :
  exists c, compile_prog call_main_witness = Fun2Core.Ok c /\ wt_core c = true /\ calls_main_prog call_main_witness = true.
Proof.
  destruct (compile_prog call_main_witness) as [c|m] eqn:E; [|vm_compute in E; discriminate].
  exists c. split; [reflexivity|]. split; [|vm_compute; reflexivity].
  revert E. vm_compute. intros E. inversion E. reflexivity.
Qed.
