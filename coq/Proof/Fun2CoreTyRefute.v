(* Proof/Fun2CoreTyRefute.v (C12) - finding main-non-integer-result: an accepted program - accepted by the
   model of the checker AND well-typed according to the declarative specification Sem/FunTyping.v - with no
   capture risk and no call of main whose translation is an ILL-TYPED Core program: the declared return type
   of main is not i64, and compile_main types the operand of the final `exit` with it.  The annotated form is
   the real checker's output for corpus/fun/c12_main_nonint.sc (compared by modelrun wt-stages on every run). *)
From Coq Require Import List ZArith NArith String Bool.
From SCC Require Import Lang.FunSyn Lang.CoreSyn Model.Check Sem.FunTyping Sem.CoreCheck Model.Fun2Core
     Model.Fun2CoreTyGuard.
Import ListNotations.

Lemma fun2core_main_result_refuted_lemma :
  exists (src : fprog) (p : fcprog) (c : cprog),
    has_type_b src = true /\ Check.check src = COk p /\ annotated_fcprog p = true /\
    compile_prog p = Fun2Core.Ok c /\ wt_core c = false /\
    shadowing_risk_prog p = false /\ calls_main_prog p = false /\ barendregt p = true /\
    prog_tyguard p = false.
Proof.
  exists main_nonint_source, main_nonint_witness.
  destruct (compile_prog main_nonint_witness) as [c|m] eqn:E; [|vm_compute in E; discriminate].
  exists c. repeat split; try (vm_compute; reflexivity).
  revert E. vm_compute. intros E. inversion E. reflexivity.
Qed.
