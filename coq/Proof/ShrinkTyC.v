(* Proof/ShrinkTyC.v (C12, fragment 2) - the typing lemma [TLs]: the image of a well-typed focused
   statement is well-typed in the AxCut context that binds the (renamed) variables of its context;
   statement of the lemma, context lemmas, the cases without data types. *)
From Coq Require Import List ZArith NArith String Bool Lia.
From SCC Require Import Base.Sexp Lang.SynUtil Lang.CoreSyn Lang.AxSyn Sem.FsCheck Model.Shrink Model.LinCheck Model.WtDefs
     Proof.ShrinkProof Proof.ShrinkRn Proof.ShrinkSimBase Proof.ShrinkSimData Proof.ShrinkSimEta Proof.ShrinkTfv Proof.ShrinkTyA Proof.ShrinkTyB.
From SCC Require Sem.AxCheck.
Import ListNotations.
Open Scope list_scope.

Section TyBase.
Variable p : fsprog.
Variable ds' : list def.
Notation data := (fspdata p).
Notation codata := (fspcodata p).
Notation defs := (fspdefs p).
Notation m0 := (fspmax p).
Notation D := (data ++ [cont_int]).
Notation ts := (ts_of p).

Definition ginv (Ga : ctx) (G : cctx) (st st' : sst) : Prop :=
  forall i, In i (ids Ga) -> (In i (cids G) \/ (m0 < i)%N) /\ ~ (s_max st < i <= s_max st')%N.
Definition lifted_ok (d : def) : Prop :=
  acheck ts ds' (dctx d) (dbody d) = None /\ pre_linear (dbody d) = true /\ NoDup (ids (dctx d)) /\
  forallb (fun b => AxCheck.ty_declared ts (bty b)) (dctx d) = true.
Definition lift_wt (st : sst) : Prop := forall d, In d (s_lifted st) -> lifted_ok d.
Definition decl_ok (G : cctx) : Prop := forall b, In b G -> ty_ok data codata (cbty b) = true.
Definition lifted_in' (st : sst) : Prop := forall d, In d (s_lifted st) -> In d ds'.

Definition TLs (k : nat) (s : fsstmt) : Prop :=
  forall lbl G rho th st t st' Ga,
    inv p G rho th st ->
    check_stmt data codata defs G s = None -> ub_stmt (cids G) s = true -> ib_stmt m0 s = true ->
    nc_stmt (cvars G) s = true -> decl_ok G ->
    shrink_stmt k (mksenv D codata lbl) (rn_stmt rho s) st = SOk (t, st') ->
    grel p (fun x => occurs x s) (fun x => th (rho x)) Ga G -> ginv Ga G st st' ->
    lifted_in' st' -> lift_wt st ->
    acheck ts ds' Ga (arn th t) = None /\ pre_linear t = true /\ lift_wt st'.
Definition TLn (k : nat) : Prop := forall s, TLs k s.

(* ---------- the invariant on ids ---------- *)
Lemma ginv_sub : forall Ga G st st' sa sb, ginv Ga G st st' ->
  (s_max st <= s_max sa)%N -> (s_max sb <= s_max st')%N -> ginv Ga G sa sb.
Proof. intros Ga G st st' sa sb H H1 H2 i Hi. destruct (H i Hi) as [A Bn]. split; [exact A|]. intros C. apply Bn. lia. Qed.
Lemma ginv_push_old : forall Ga G st st' v c t c' t', ginv Ga G st st' -> (cid_id v <= m0)%N -> (m0 <= s_max st)%N ->
  ginv (mkb v c' t' :: Ga) (mkcb v c t :: G) st st'.
Proof.
  intros Ga G st st' v c t c' t' H Hv Hm i [<-|Hi].
  - split; [left; now left|]. unfold idn, cid_id in *. cbn [bvar]. lia.
  - destruct (H i Hi) as [[A|A] Bn]; (split; [|exact Bn]); [left; now right | now right].
Qed.
Lemma ginv_fresh : forall Ga G st st' i, ginv Ga G st st' -> (s_max st < i <= s_max st')%N -> ~ In i (ids Ga).
Proof. intros Ga G st st' i H Hi Hin. destruct (H i Hin) as [_ Bn]. now apply Bn. Qed.
Lemma ginv_old : forall Ga G st st' i, ginv Ga G st st' -> ~ In i (cids G) -> (i <= m0)%N -> ~ In i (ids Ga).
Proof. intros Ga G st st' i H H1 H2 Hin. destruct (H i Hin) as [[A|A] _]; [contradiction | lia]. Qed.

(* ---------- extending the context relation ---------- *)
Lemma lookup_b_in : forall Ga i b, AxCheck.lookup_b Ga i = Some b -> In i (ids Ga).
Proof.
  induction Ga as [|b0 Ga IH]; intros i b H; [discriminate|]. simpl in *.
  destruct (N.eqb (idn (bvar b0)) i) eqn:E; [left; now apply N.eqb_eq | right; eauto].
Qed.
Lemma grel_push : forall (need need' : cident -> Prop) pi pi' Ga G x c t x',
  grel p need pi Ga G -> ~ In (idn x') (ids Ga) ->
  (forall b, In b G -> need' (cbvar b) -> need (cbvar b) /\ idn (pi' (cbvar b)) = idn (pi (cbvar b))) ->
  idn (pi' x) = idn x' ->
  grel p need' pi' (mkb x' (bchi (shrink_binding codata (mkcb x c t))) (bty (shrink_binding codata (mkcb x c t))) :: Ga) (mkcb x c t :: G).
Proof.
  intros need need' pi pi' Ga G x c t x' Hg Hni Hpi Hx b [<-|Hb] Hn.
  - cbn [cbvar]. rewrite Hx. eexists. cbn [AxCheck.lookup_b bvar]. rewrite N.eqb_refl. split; [reflexivity|]. split; reflexivity.
  - destruct (Hpi b Hb Hn) as [Hn' Hid]. destruct (Hg b Hb Hn') as (b' & Hl & Hc & Ht). rewrite Hid. exists b'.
    cbn [AxCheck.lookup_b bvar]. destruct (N.eqb (idn x') (idn (pi (cbvar b)))) eqn:E; [|auto].
    apply N.eqb_eq in E. exfalso. apply Hni. rewrite E. eapply lookup_b_in; eauto.
Qed.
Lemma grel_weaken : forall (need need' : cident -> Prop) pi Ga G, grel p need pi Ga G -> (forall x, need' x -> need x) -> grel p need' pi Ga G.
Proof. intros need need' pi Ga G H Hn b Hb Hx. apply H; auto. Qed.
(* aliasing: Core parameters that are names of existing AxCut variables *)
Lemma grel_alias_list : forall (need need' : cident -> Prop) pi pi' Ga G ctx,
  grel p need pi Ga G ->
  (forall b, In b G -> need' (cbvar b) -> need (cbvar b) /\ idn (pi' (cbvar b)) = idn (pi (cbvar b))) ->
  (forall b, In b ctx -> exists a, In a G /\ need (cbvar a) /\ idn (pi' (cbvar b)) = idn (pi (cbvar a)) /\ cbchi a = cbchi b /\ cbty a = cbty b) ->
  grel p need' pi' Ga (ctx ++ G).
Proof.
  intros need need' pi pi' Ga G ctx Hg Hpi Hctx b Hb Hn. apply in_app_or in Hb as [Hb|Hb].
  - destruct (Hctx b Hb) as (a & Ha & Hna & Hid & Hc & Ht). destruct (Hg a Ha Hna) as (b' & Hl & Hc' & Ht').
    exists b'. rewrite Hid. split; [exact Hl|]. destruct (shrink_binding_sig codata a b Hc Ht) as [F1 F2]. rewrite <- F1, <- F2. auto.
  - destruct (Hpi b Hb Hn) as [Hn' Hid]. destruct (Hg b Hb Hn') as (b' & Hl & Hc & Ht). exists b'. rewrite Hid. auto.
Qed.
(* pushing clause parameters *)
Lemma grel_push_list : forall (need need' : cident -> Prop) pi pi' Ga G ctx xs',
  grel p need pi Ga G ->
  (forall b, In b G -> need' (cbvar b) -> need (cbvar b) /\ idn (pi' (cbvar b)) = idn (pi (cbvar b))) ->
  NoDup (ids xs') -> (forall i, In i (ids xs') -> ~ In i (ids Ga)) ->
  Forall2 (fun b x' => idn (pi' (cbvar b)) = idn (bvar x') /\ bchi x' = bchi (shrink_binding codata b) /\ bty x' = bty (shrink_binding codata b)) ctx xs' ->
  grel p need' pi' (xs' ++ Ga) (ctx ++ G).
Proof.
  intros need need' pi pi' Ga G ctx xs' Hg Hpi Hnd Hdis HF.
  induction HF as [|b x' ctx xs' (Hid & Hc & Ht) _ IH].
  - simpl. intros b Hb Hn. destruct (Hpi b Hb Hn) as [Hn' Hid]. destruct (Hg b Hb Hn') as (b' & Hl & Hc & Ht). exists b'. rewrite Hid. auto.
  - cbn [ids map] in Hnd, Hdis. inversion Hnd as [|? ? Hni Hnd']; subst.
    specialize (IH Hnd' (fun i Hi => Hdis i (or_intror Hi))).
    intros b0 [<-|Hb0] Hn.
    + exists x'. cbn [app AxCheck.lookup_b]. rewrite Hid, N.eqb_refl. auto.
    + destruct (IH b0 Hb0 Hn) as (b' & Hl & Hc' & Ht'). exists b'. cbn [app AxCheck.lookup_b].
      destruct (N.eqb (idn (bvar x')) (idn (pi' (cbvar b0)))) eqn:E; [|auto].
      apply N.eqb_eq in E. exfalso. apply lookup_b_in in Hl. unfold ids in Hl. rewrite map_app in Hl. apply in_app_or in Hl as [Hl|Hl].
      * apply Hni. rewrite E. exact Hl.
      * apply (Hdis (idn (bvar x'))); [now left | rewrite E; exact Hl].
Qed.

(* an occurrence of the statement, typed and consistently named: bound on the AxCut side *)
Lemma occ_bound : forall (need : cident -> Prop) pi Ga G x c t, grel p need pi Ga G -> fbound G x c t = None -> nc_var (cvars G) x = true -> need x ->
  AxCheck.bound Ga (pi x) (bchi (shrink_binding codata (mkcb x c t))) (bty (shrink_binding codata (mkcb x c t))) = None.
Proof.
  intros need pi Ga G x c t Hg Hb Hnc Hn. pose proof (occ_binding _ _ _ _ Hb Hnc) as Hin.
  apply (grel_bound p need pi Ga G (mkcb x c t) Hg Hin Hn).
Qed.
Lemma shrink_int_prd : forall cd x, shrink_binding cd (mkcb x CPrd CI64) = mkb x Ext I64.
Proof. reflexivity. Qed.
Lemma shrink_int_cns : forall cd x, shrink_binding cd (mkcb x CCns CI64) = mkb x Cns (Decl cont_name).
Proof. reflexivity. Qed.
End TyBase.
