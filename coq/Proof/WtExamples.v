(* Proof/WtExamples.v (property C12): whole-pipeline examples computed inside Coq. *)
From Coq Require Import List ZArith NArith String Bool.
From SCC Require Import Base.Sexp Lang.CoreSyn Sem.FsCheck Sem.CoreCheck Model.FocusCheck Model.Backend Model.Focus Model.WtDefs.
(* ---------- whole-pipeline examples ----------
   For three real outputs of fun2core (Proof/FocusExamples.v: two repository programs, one generated
   program) the MODELS of the passes compose and every checker accepts every stage; the three code
   generators return Ok. *)
From SCC Require Import Lang.AxSyn Model.Shrink Model.Linearize Model.LinCheck Model.Capacity Model.X86 Model.A64 Model.RV Proof.FocusExamples.
From SCC Require Sem.AxCheck.

Definition pipeline_ok (s : string) : bool :=
  match parse_prog s with
  | None => false
  | Some c =>
      wt_core c && pre_check c &&
      match focus_prog c with
      | Backend.Err _ => false
      | Backend.Ok f =>
          wt_fs f && unique_binders f && ids_bounded f && wt_core (embed_prog f) &&
          match shrink_prog f with
          | SErr _ => false
          | SOk a =>
              AxCheck.wt_ax a && pre_linear_prog a && binders_ok a && prog_ok a &&
              let l := linearize a in
              lin_check_prog l && within_capacity_x86 l && within_capacity_a64 l &&
              match x86_compile l 0, a64_compile l 0 with
              | Backend.Ok _, Backend.Ok _ => true
              | _, _ => false
              end
          end
      end
  end.
Lemma pipeline_examples_ok : pipeline_ok ex_lists = true /\ pipeline_ok ex_case_of = true /\ pipeline_ok ex_gen3 = true.
Proof. repeat split; vm_compute; reflexivity. Qed.

