(* C07, forward simulation for HEAP statements on AArch64, part 7a: the invariant of the instrumented machine along a run
   (`hinv`: SHARED with x86-64, Proof/X86HSimProgA.v - it mentions no machine state), names, and the entry: the AArch64
   prologue establishes `hrel` with the initial allocator state (HEAP = X0 = heap base, FREE = X1 = one block further,
   a64abi's `a64_entry_exit_ok`), the epilogue returns from every later state whose frame is intact.
   Port of the machine-dependent part of Proof/X86HSimProgA.v. *)
From Coq Require Import List ZArith NArith String Bool Lia FMapPositive Permutation.
From SCC Require Import Base.Sexp Lang.AxSyn Sem.AxSem Sem.AxHeap Model.ParMoves Model.Backend Model.A64 Sem.A64Sem
     Model.Linearize Model.LinCheck Generated.Constants Proof.LinBasics Proof.LinTyping
     Proof.A64State Proof.A64ImmHw Proof.A64Imm Proof.A64Sel Proof.A64PM Proof.A64Exec
     Proof.A64MemSubst Proof.SubstGraph Proof.SubstBackends Proof.A64Subst Proof.A64Wf Proof.A64Print Proof.A64Entry
     Proof.A64SimRel Proof.A64SimStmt Proof.A64SimAddr Proof.A64SimClo Proof.A64SimProg Proof.A64SimTop
     Proof.HRep Proof.A64Mem Proof.A64MemOps Proof.A64HSimRel Proof.A64HSimStmt Proof.A64HConv Proof.A64HSimStore.
From SCC Require Model.Heap Proof.HeapMore Proof.HeapTrace Proof.HeapRep Proof.AxHeapTyping Proof.AxHeapSafe Proof.AxHeapSubst
     Proof.X86HeapDefs Proof.X86HeapCongr Proof.X86HFrame Proof.X86HSimProgA.
Import ListNotations.
Open Scope Z_scope.
Open Scope list_scope.

Notation hinv := X86HSimProgA.hinv.
Notation hinv_step := X86HSimProgA.hinv_step.
Notation hinv_invA := X86HSimProgA.hinv_invA.
Notation hinv_fit0 := X86HSimProgA.hinv_fit0.
Notation hinv_ptrs_ok := X86HSimProgA.hinv_ptrs_ok.
Notation hinv_regs_nz := X86HSimProgA.hinv_regs_nz.
Notation hinv_last_rep := X86HSimProgA.hinv_last_rep.
Notation hsteps_cons := X86HSimProgA.hsteps_cons.
Notation hlookup_of_in := X86HSimProgA.hlookup_of_in.
Notation hsubst_total := X86HSimProgA.hsubst_total.
Notation hsubst_names := X86HSimProgA.hsubst_names.
Notation attach_names := X86HSimProgA.attach_names.

(* ---------- names ---------- *)
Section Names.
Variable types : list tydecl.
Variable CLO : Z -> ident -> list clause -> ctx -> Prop.
Local Notation hrel := (hrel types CLO).

Lemma hrel_ctx_of c he hs s sp : hrel c he hs s sp -> map h_id he = vars c -> ctx_of he = c.
Proof.
  intros R NM. pose proof (hrel_length R) as LEN.
  apply nth_ext with (d := mkb ("", 0%N) Ext I64) (d' := mkb ("", 0%N) Ext I64); [unfold ctx_of; now rewrite map_length|].
  intros i Hi. unfold ctx_of in Hi. rewrite map_length in Hi.
  destruct (nth_error he i) as [[[x v] q]|] eqn:He; [|apply nth_error_None in He; lia].
  destruct (hr_vals R i x v q He) as (b & Hb & V).
  unfold ctx_of. rewrite (nth_indep _ _ (binding_of (x, v, q))) by (rewrite map_length; lia).
  rewrite map_nth, (nth_error_nth _ _ _ He), (nth_error_nth _ _ _ Hb).
  assert (EX : x = bvar b).
  { assert (H1 : nth_error (map h_id he) i = Some x) by (rewrite nth_error_map, He; reflexivity).
    rewrite NM in H1. unfold vars in H1. rewrite nth_error_map, Hb in H1. cbn in H1. congruence. }
  assert (EK : chi_of v = bchi b /\ ty_of v = bty b).
  { destruct V as [b z q t A B T Lg I64|b v q a t1 t2 A K1 K2 T1 T2 L1 L2 X]; cbn; split; congruence. }
  unfold binding_of. cbn [h_id h_val fst snd]. destruct b as [bv bc bt]. cbn in *. destruct EK. subst. reflexivity.
Qed.

(* integer operands *)
Lemma hhas_ext_lookup_int c he hs st sp a : hrel c he hs st sp -> has_ext c a = true -> exists x, lookup_int (erase_env he) a = Some x.
Proof.
  intros R H. unfold has_ext, has in H. destruct (lookup_b c (idn a)) as [b|] eqn:L; [|discriminate].
  apply lookup_b_Some in L as [Hin Hid]. apply andb_true_iff in H as [K T]. apply chi_eqb_eq in K. apply ty_eqb_eq in T.
  assert (I : In (idn a) (env_ids (erase_env he))).
  { rewrite (hr_ids R), <- Hid. now apply In_ids. }
  destruct (lookup_of_in (erase_env he) _ I) as (v & Lv). destruct (hlookup_nth he _ _ Lv) as (i & y & q & Hi & Ey).
  destruct (hr_vals R i y v q Hi) as (b' & Hb' & V).
  destruct (henv_ctx_nth c he i y v q (hr_ids R) Hi) as (b0 & Hb0 & Eb0). assert (b0 = b') by congruence. subst b0.
  apply In_nth_error in Hin as (i' & Hi').
  assert (i' = i) by (eapply (ids_nth_inj c i' i b b'); eauto using (hr_nodup R); congruence). subst i'.
  assert (b' = b) by congruence. subst b'.
  inversion V; subst; [|congruence]. exists z. unfold lookup_int, lookup_id. now rewrite Lv.
Qed.
End Names.

(* the words the prologue left above the spill area survive a heap statement *)
Lemma hframe_eq_outer st0 s s' sp : sp_ok sp -> hframe_eq s s' sp -> outer_ok st0 sp s -> outer_ok st0 sp s'.
Proof.
  intros SP (_ & K) O k Hk. rewrite K; [apply O; exact Hk|].
  intros q P E. destruct (slot_addr_facts sp q SP P) as (_ & _ & _ & _ & NN).
  assert (EK : Z.pos k - 1 = slot_addr sp q).
  { unfold key in E. subst k. rewrite Z2Pos.id by lia. lia. }
  unfold slot_addr, stack_offset in EK. change SPILL_SPACE with 2048 in *. lia.
Qed.

(* ---------- the prologue, with the allocator registers ---------- *)
Lemma hprologue_ok im args su :
  setup (List.length args) = Ok su ->
  exists s, run_straight im su (init_state args) = MOk s /\
    frame_ok s sp0 /\ out s = [] /\
    rget s HEAP = Some HEAP_BASE /\ rget s FREE = Some (HEAP_BASE + 64) /\ heap s = PM.empty Z /\
    (forall i, (i < List.length args)%nat -> rget s (X (2 * N.of_nat i + 5)) = Some (nth i args 0)) /\
    forall pcc s2 z, code_at im pcc cleanup ->
      frame_ok s2 sp0 -> outer_ok (stack s) sp0 s2 -> rget s2 RETURN1 = Some z ->
      finishes im pcc s2 (finish (out s2) (OExit z)).
Proof.
  intros SU.
  assert (LE : (List.length args <= 7)%nat).
  { destruct (Nat.le_gt_cases (List.length args) 7) as [L|L]; [exact L|]. exfalso.
    unfold setup in SU. destruct (List.length args) as [|n]; [lia|]. cbn [move_arguments] in SU.
    destruct (Nat.ltb_spec 7 (S n)); [discriminate|lia]. }
  destruct (init_state_facts args LE) as (I1 & I2 & I3 & I4 & I5 & I6).
  destruct (a64_entry_exit_ok im (List.length args) su (init_state args) STACK_TOP HEAP_BASE SU I1) as
    (s1 & E1 & F1 & H1 & O1 & X0 & X1 & AR & K1 & EPI); [reflexivity|unfold STACK_LIMIT, STACK_TOP; lia|lia|exact I2|].
  destruct (prologue_ok im args su SU) as (s1' & E1' & _ & _ & _ & _ & EPI').
  assert (s1' = s1) by congruence. subst s1'.
  exists s1. split; [exact E1|]. split; [exact F1|]. split; [congruence|].
  split; [change HEAP with (X 0); cbn [rget]; exact X0|].
  split; [change FREE with (X 1); cbn [rget]; rewrite X1; reflexivity|].
  split; [rewrite H1; reflexivity|]. split; [|exact EPI'].
  intros i Hi. cbn [rget]. replace (2 * N.of_nat i + 5)%N with (2 * N.of_nat (S i) + 3)%N by lia.
  rewrite AR by lia. rewrite I3 by lia. f_equal. f_equal. lia.
Qed.

Lemma hentry_rel types CLO c0 args e0 s :
  bind (vars c0) (map VInt args) = Some e0 -> NoDup (ids c0) -> ctx_int c0 = true -> (List.length args <= 7)%nat ->
  args_i64 args = true ->
  frame_ok s sp0 -> rget s HEAP = Some HEAP_BASE -> rget s FREE = Some (HEAP_BASE + 64) -> heap s = PM.empty Z ->
  (forall i, (i < List.length args)%nat -> rget s (X (2 * N.of_nat i + 5)) = Some (nth i args 0)) ->
  hrel types CLO c0 (attach e0 []) (Heap.init HEAP_BASE) s sp0.
Proof.
  intros BD ND CI LE AI F RH RF HE RG. split.
  - exact F.
  - unfold sp0, STACK_LIMIT, STACK_TOP. lia.
  - exact RH.
  - exact RF.
  - split; [cbn [abs_heap Heap.heap Heap.init]; unfold reg_or0; now rewrite RH|]. split; [cbn [abs_heap Heap.free Heap.init]; unfold reg_or0; now rewrite RF|]. split; [reflexivity|].
    intros y _. cbn [abs_heap Heap.m Heap.init]. unfold abs_mem, hword, hget. rewrite HE, !PM.gempty. split; reflexivity.
  - rewrite attach_erase. unfold env_ids. rewrite <- (map_map fst idn), (bind_ids _ _ _ BD). unfold vars, ids. now rewrite map_map.
  - exact ND.
  - intros i x v q Hi. destruct (attach_nth _ _ _ _ _ _ Hi) as [He _].
    destruct (bind_nth _ _ _ _ _ _ BD He) as (Hx & Hv).
    rewrite nth_error_map in Hv. destruct (nth_error args i) as [a|] eqn:Ha; [|discriminate]. cbn in Hv. inversion Hv; subst v.
    unfold vars in Hx. rewrite nth_error_map in Hx. destruct (nth_error c0 i) as [b|] eqn:Hb; [|discriminate].
    assert (Li : (i < List.length args)%nat) by (apply nth_error_Some; congruence).
    destruct (ctx_int_nth c0 i b CI Hb) as (K & T).
    exists b. split; [reflexivity|].
    apply (hv_int types CLO s sp0 i b a q (AR (X (2 * N.of_nat i + 5))) K T); [apply atpos_reg; lia| |].
    + cbn [lget]. rewrite (RG i Li). f_equal. now apply nth_error_nth.
    + apply lit_i64_in64. unfold args_i64 in AI. rewrite forallb_forall in AI. apply AI. eapply nth_error_In; eauto.
Qed.
