(* ======================================================================================
   Proof/FocusTy  -  focusing preserves typing (C12).
   Input: a Core statement typed by Sem/CoreCheck.v (lookup by the whole identifier) in a scope Gs whose
   binder ids are pairwise distinct and distinct from the binder ids of the statement (what `uniquify`
   establishes), all ids <= T <= the counter.  Output: the focused statement is typed by Sem/FsCheck.v
   (lookup by NUMERIC ID) in every scope Gt that gives the ids of Gs the same bindings ([rel]) - Gt is Gs
   plus the fresh (co)variables the enclosing `bind`s introduced.
   The CPS of focus.rs is handled with a typing invariant for continuations ([KOK] / [KVOK]): a
   continuation built at counter m produces a typed statement in every EXTENSION of its scope by ids
   above m, for every binding of the right kind and type that is in scope.  The named continuations of
   Proof/FocusKont.v are used, monotonicity of the counter comes from Proof/FocusMono.v.
   ====================================================================================== *)
From Coq Require Import List ZArith NArith String Bool Lia.
From SCC Require Import Base.Sexp Lang.SynUtil Lang.CoreSyn Sem.FsCheck Sem.CoreCheck
     Model.Backend Model.Uniquify Model.Focus Model.FocusCheck
     Proof.CoreInd Proof.SubstProof Proof.CheckLemmas Proof.FocusKont Proof.FocusMono Proof.CoreTyRules Proof.FsTyRules.
Import ListNotations.
Open Scope list_scope.
Open Scope N_scope.

(* NoDup of a selection of the segments of a concatenation *)
Ltac nd2 :=
  repeat match goal with
         | H : NoDup (_ ++ _) |- _ => apply NoDup_app_iff in H; destruct H as (? & ? & ?)
         end;
  repeat match goal with |- NoDup (_ ++ _) => apply NoDup_app_iff; split; [|split] end; auto;
  try (let x := fresh "x" in let H1 := fresh "H" in let H2 := fresh "H" in
       intros x H1 H2;
       match goal with
       | Hd : forall y, In y _ -> In y _ -> False |- _ =>
           solve [ eapply Hd; [exact H1 | repeat rewrite in_app_iff; tauto]
                 | eapply Hd; [repeat rewrite in_app_iff; tauto | exact H2]
                 | eapply Hd; repeat rewrite in_app_iff; tauto ]
       end).

(* ---------- scopes ---------- *)
Definition rel (Gs Gt : cctx) : Prop :=
  forall x b, clookup Gs x = Some b -> flookup Gt (cid_id x) = Some b.
Definition ext (m : N) (Gt Gt' : cctx) : Prop :=
  exists A, Gt' = A ++ Gt /\ forall b, In b A -> m < cid_id (cbvar b).

Lemma ext_refl : forall m G, ext m G G.
Proof. intros m G. exists []. split; [reflexivity | intros b []]. Qed.
Lemma ext_cons : forall m G b, m < cid_id (cbvar b) -> ext m G (b :: G).
Proof. intros m G b H. exists [b]. split; [reflexivity | intros b' [<-|[]]; exact H]. Qed.
Lemma ext_trans : forall m m1 G G1 G2, ext m G G1 -> ext m1 G1 G2 -> m <= m1 -> ext m G G2.
Proof.
  intros m m1 G G1 G2 [A [-> HA]] [B [-> HB]] L. exists (B ++ A). split; [rewrite app_assoc; reflexivity|].
  intros b Hb. apply in_app_or in Hb. destruct Hb as [Hb|Hb]; [specialize (HB b Hb); lia | apply HA; exact Hb].
Qed.

Lemma flookup_ext : forall m G G' i b, ext m G G' -> mem_le m (cids G) -> flookup G i = Some b -> flookup G' i = Some b.
Proof.
  intros m G G' i b [A [-> HA]] HG H. rewrite flookup_app.
  destruct (flookup A i) as [b'|] eqn:E; [|exact H]. exfalso.
  pose proof (flookup_id _ _ _ E) as Hi. apply flookup_In in E. specialize (HA b' E).
  pose proof (flookup_id _ _ _ H) as Hi2. apply flookup_In in H.
  assert (i <= m). { apply HG. rewrite <- Hi2. apply (in_map (fun b => cid_id (cbvar b))). exact H. }
  lia.
Qed.
Lemma rel_ext : forall Gs Gt Gt' m, rel Gs Gt -> ext m Gt Gt' -> mem_le m (cids Gt) -> rel Gs Gt'.
Proof. intros Gs Gt Gt' m H He Hm x b Hx. eapply flookup_ext; eauto. Qed.
Lemma rel_cons_both : forall Gs Gt vb, rel Gs Gt -> ~ In (cid_id (cbvar vb)) (cids Gs) -> rel (vb :: Gs) (vb :: Gt).
Proof.
  intros Gs Gt vb H Hn x b Hx. rewrite clookup_cons in Hx. rewrite flookup_cons.
  destruct (cident_eqb (cbvar vb) x) eqn:E.
  - apply ceq_id in E. injection Hx as <-. rewrite E, N.eqb_refl. reflexivity.
  - pose proof (clookup_var _ _ _ Hx) as Hv. pose proof (clookup_In _ _ _ Hx) as Hin.
    destruct (N.eqb (cid_id (cbvar vb)) (cid_id x)) eqn:E2; [|apply H; exact Hx].
    apply N.eqb_eq in E2. exfalso. apply Hn. rewrite E2, <- Hv. apply (in_map (fun b => cid_id (cbvar b))). exact Hin.
Qed.
Lemma rel_app_both : forall A Gs Gt, rel Gs Gt -> NoDup (cids A ++ cids Gs) -> rel (A ++ Gs) (A ++ Gt).
Proof.
  induction A as [|a r IH]; intros Gs Gt H Hnd; [exact H|]. simpl in *. inversion Hnd as [|? ? Hn Hnd']; subst.
  apply rel_cons_both; [apply IH; assumption|]. unfold cids in *. rewrite map_app. exact Hn.
Qed.
Lemma mem_le_cids_cons : forall m b G, cid_id (cbvar b) <= m -> mem_le m (cids G) -> mem_le m (cids (b :: G)).
Proof. intros m b G H1 H2 i [<-|Hi]; [exact H1 | apply H2; exact Hi]. Qed.
Lemma mem_le_cids_app : forall m A G, mem_le m (cids A) -> mem_le m (cids G) -> mem_le m (cids (A ++ G)).
Proof. intros m A G H1 H2. unfold cids. rewrite map_app. apply mem_le_app. split; assumption. Qed.

Section FocusTy.
Variables (data codata : list ctydecl) (defs : list cdef) (fdefs : list fsdef).
Notation ct := (ccheck_term data codata defs).
Notation cs := (ccheck_stmt data codata defs).
Notation kt := (check_term data codata fdefs).
Notation ks := (check_stmt data codata fdefs).
Notation tyok := (ty_ok data codata).
Notation arg_typed := (arg_typed data codata defs).
Notation args_typed := (args_typed data codata defs).
Notation clause_typed := (clause_typed data codata defs).
Notation fclause_typed := (fclause_typed data codata fdefs).

(* type names are disjoint over data and codata; field types of xtors and parameter types of definitions
   are declared; every definition has its focused form with the same parameters *)
Hypothesis Hdisj : forall n d, find_decl data n = Some d -> find_decl codata n = None.
Hypothesis Hxt : forall ts n d x sg, ts = data \/ ts = codata -> find_decl ts n = Some d -> find_cxtor d x = Some sg ->
  forall b, In b (cxargs sg) -> tyok (cbty b) = true.
Hypothesis Hpt : forall f d, find (fun d => cident_eqb (cdname d) f) defs = Some d ->
  forall b, In b (cdctx d) -> tyok (cbty b) = true.
Hypothesis Hfd : forall f d, find (fun d => cident_eqb (cdname d) f) defs = Some d ->
  exists d', find (fun d' => cident_eqb (fsdname d') f) fdefs = Some d' /\ fsdctx d' = cdctx d.

(* ---------- the typing invariant of continuations ---------- *)
Definition KOK (k : kont) (c : cchi) (ty : cty) (Gt : cctx) (m : N) : Prop :=
  forall b m1 Gt' s' m2, ext m Gt Gt' -> m <= m1 -> mem_le m1 (cids Gt') ->
    cbchi b = c -> cbty b = ty -> flookup Gt' (cid_id (cbvar b)) = Some b ->
    k b m1 = Ok (s', m2) -> ks Gt' s' = None.
Definition KVOK (kv : kontv) (sig : cctx) (Gt : cctx) (m : N) : Prop :=
  forall bs m1 Gt' s' m2, ext m Gt Gt' -> m <= m1 -> mem_le m1 (cids Gt') ->
    Forall2 (farg_ok Gt') bs sig ->
    kv bs m1 = Ok (s', m2) -> ks Gt' s' = None.

Lemma KOK_mono : forall k c ty Gt m Gt1 m1, KOK k c ty Gt m -> ext m Gt Gt1 -> m <= m1 -> KOK k c ty Gt1 m1.
Proof.
  intros k c ty Gt m Gt1 m1 H He L b m2 Gt' s' m3 He' L' Hm Hc Ht Hb Hk.
  eapply (H b m2 Gt'); eauto; [eapply ext_trans; eassumption | lia].
Qed.
Lemma KVOK_mono : forall kv sig Gt m Gt1 m1, KVOK kv sig Gt m -> ext m Gt Gt1 -> m <= m1 -> KVOK kv sig Gt1 m1.
Proof.
  intros kv sig Gt m Gt1 m1 H He L bs m2 Gt' s' m3 He' L' Hm Hb Hk.
  eapply (H bs m2 Gt'); eauto; [eapply ext_trans; eassumption | lia].
Qed.

Lemma farg_ok_ext : forall m G G' a s, ext m G G' -> mem_le m (cids G) -> farg_ok G a s -> farg_ok G' a s.
Proof. intros m G G' a s He Hm [H1 [H2 H3]]. repeat split; auto. eapply flookup_ext; eauto. Qed.

(* ---------- the statements proved by mutual induction ---------- *)
Definition FBt (t : cterm) : Prop := forall c k m Gs Gt ty T s' m',
  bind_term c t k m = Ok (s', m') ->
  ct Gs c ty t = None -> tyok ty = true ->
  rel Gs Gt -> NoDup (binder_ids_term t ++ cids Gs) -> ids_le_term T t = true -> mem_le T (cids Gs) -> T <= m ->
  mem_le m (cids Gt) -> kmono k -> KOK k c ty Gt m -> ks Gt s' = None.
Definition FFt (t : cterm) : Prop := forall c m Gs Gt ty T t' m',
  focus_term c t m = Ok (t', m') ->
  ct Gs c ty t = None ->
  rel Gs Gt -> NoDup (binder_ids_term t ++ cids Gs) -> ids_le_term T t = true -> mem_le T (cids Gs) -> T <= m ->
  mem_le m (cids Gt) -> kt Gt c ty t' = None.
Definition FBa (a : carg) : Prop := forall k m Gs Gt s T s' m',
  bind_arg a k m = Ok (s', m') ->
  arg_typed Gs a s -> tyok (cbty s) = true ->
  rel Gs Gt -> NoDup (binder_ids_arg a ++ cids Gs) -> ids_le_arg T a = true -> mem_le T (cids Gs) -> T <= m ->
  mem_le m (cids Gt) -> kmono k -> KOK k (cbchi s) (cbty s) Gt m -> ks Gt s' = None.
Definition FFc (cl : cclause) : Prop := forall m Gs Gt T cl' m',
  focus_clause cl m = Ok (cl', m') ->
  clause_typed Gs cl ->
  rel Gs Gt -> NoDup (binder_ids_clause cl ++ cids Gs) -> ids_le_clause T cl = true -> mem_le T (cids Gs) -> T <= m ->
  mem_le m (cids Gt) -> fclause_typed Gt cl'.
Definition FFs (s : cstmt) : Prop := forall m Gs Gt T s' m',
  focus_stmt s m = Ok (s', m') ->
  cs Gs s = None ->
  rel Gs Gt -> NoDup (binder_ids_stmt s ++ cids Gs) -> ids_le_stmt T s = true -> mem_le T (cids Gs) -> T <= m ->
  mem_le m (cids Gt) -> ks Gt s' = None.
Definition sub_ok (t : cterm) : Prop :=
  match t with
  | CXtor _ _ args _ => Forall FBa args
  | COp a _ b => FBt a /\ FBt b
  | _ => True
  end.
Definition Pt (t : cterm) : Prop := FBt t /\ FFt t /\ sub_ok t.

(* ---------- a fresh (co)variable in front of the scope ---------- *)
Lemma fresh_front : forall (k : kont) c ty Gt m m1 base s' m2,
  KOK k c ty Gt m -> m <= m1 -> mem_le m1 (cids Gt) ->
  k (mkcb (base, m1 + 1) c ty) (m1 + 1) = Ok (s', m2) ->
  ks (mkcb (base, m1 + 1) c ty :: Gt) s' = None.
Proof.
  intros k c ty Gt m m1 base s' m2 HK L Hm Hk.
  eapply (HK (mkcb (base, m1 + 1) c ty) (m1 + 1) (mkcb (base, m1 + 1) c ty :: Gt) s' m2); [| | | reflexivity | reflexivity | | exact Hk].
  - apply ext_cons. simpl. lia.
  - lia.
  - apply mem_le_cids_cons; [simpl; lia | eapply mem_le_mono; [exact Hm | lia]].
  - rewrite flookup_cons. simpl. rewrite N.eqb_refl. reflexivity.
Qed.
(* the same when the continuation runs later (after focusing a sub-term) *)
Lemma fresh_front_later : forall (k : kont) c ty Gt m m1 m2 base s' m3,
  KOK k c ty Gt m -> m <= m1 -> m1 + 1 <= m2 -> mem_le m1 (cids Gt) ->
  k (mkcb (base, m1 + 1) c ty) m2 = Ok (s', m3) ->
  ks (mkcb (base, m1 + 1) c ty :: Gt) s' = None.
Proof.
  intros k c ty Gt m m1 m2 base s' m3 HK L L2 Hm Hk.
  eapply (HK (mkcb (base, m1 + 1) c ty) m2 (mkcb (base, m1 + 1) c ty :: Gt) s' m3); [| | | reflexivity | reflexivity | | exact Hk].
  - apply ext_cons. simpl. lia.
  - lia.
  - apply mem_le_cids_cons; [simpl; lia | eapply mem_le_mono; [exact Hm | lia]].
  - rewrite flookup_cons. simpl. rewrite N.eqb_refl. reflexivity.
Qed.

(* ---------- bind_many ---------- *)
Lemma bind_many_ty : forall args, Forall FBa args -> forall kv m Gs Gt sig T s' m',
  bind_many args kv m = Ok (s', m') ->
  args_typed Gs args sig -> (forall b, In b sig -> tyok (cbty b) = true) ->
  rel Gs Gt -> NoDup (flat_map binder_ids_arg args ++ cids Gs) -> forallb (ids_le_arg T) args = true ->
  mem_le T (cids Gs) -> T <= m -> mem_le m (cids Gt) -> kvmono kv -> KVOK kv sig Gt m -> ks Gt s' = None.
Proof.
  induction 1 as [|a r Ha Hr IH]; intros kv m Gs Gt sig T s' m' Hb Ht Hty Hrel Hnd Hid HGs LE HGt Kmono HK.
  - inversion Ht; subst. rewrite bind_many_nil in Hb.
    exact (HK [] m Gt s' m' (ext_refl _ _) (N.le_refl _) HGt (Forall2_nil _) Hb).
  - inversion Ht as [|? s ? sr Hs Hrs]; subst. rewrite bind_many_cons in Hb. simpl in Hnd, Hid.
    apply andb_true_iff in Hid. destruct Hid as [Hid1 Hid2]. rewrite <- app_assoc in Hnd.
    eapply (Ha (many_k r kv) m Gs Gt s T); eauto.
    + apply Hty. left. reflexivity.
    + ndsolve.
    + apply kmono_many. exact Kmono.
    + intros b m1 Gt1 s1 m2 He L1 Hm1 Hc Htb Hfb Hk. unfold many_k in Hk.
      eapply (IH (cons_kv b kv) m1 Gs Gt1 sr T); eauto.
      * intros b0 Hb0. apply Hty. right. exact Hb0.
      * eapply rel_ext; eauto.
      * ndsolve.
      * lia.
      * apply kvmono_cons. exact Kmono.
      * intros bs m3 Gt2 s2 m4 He2 L2 Hm2 Hbs Hk2. unfold cons_kv in Hk2.
        eapply (HK (b :: bs) m3 Gt2); eauto.
        -- eapply ext_trans; eauto.
        -- lia.
        -- constructor; [|exact Hbs]. repeat split; auto. eapply flookup_ext; eauto.
Qed.

(* ---------- clause lists ---------- *)
Lemma cclauses_to_fs : forall side n cls xs, cclauses_match side n cls xs = None ->
  forall cls', Forall2 (fun cl cl' => match cl, cl' with CClause c x ctx _, FsClause c' x' ctx' _ => c' = c /\ x' = x /\ ctx' = ctx end) cls cls' ->
  clauses_match side n cls' xs = None.
Proof.
  intros side n. induction cls as [|[c x ctx body] cr IH]; intros xs H cls' HF; inversion HF as [|? cl' ? cr' Hh Hr]; subst.
  - destruct xs; [reflexivity | discriminate].
  - destruct cl' as [c' x' ctx' body']. destruct Hh as [-> [-> ->]]. destruct xs as [|sg xr]; [discriminate|].
    cbn [cclauses_match] in H. cbn [clauses_match].
    apply seqn in H. destruct H as [H1 H]. apply seqn in H. destruct H as [H2 H]. apply seqn in H. destruct H as [H3 H].
    apply seqn in H. destruct H as [_ H].
    apply seqn. split; [exact H1|]. apply seqn. split; [exact H2|]. apply seqn. split; [exact H3|]. apply IH; assumption.
Qed.

Lemma focus_clauses_ty : forall cls, Forall FFc cls -> forall m Gs Gt T cls' m',
  maprs focus_clause cls m = Ok (cls', m') ->
  Forall (clause_typed Gs) cls ->
  rel Gs Gt -> NoDup (flat_map binder_ids_clause cls ++ cids Gs) -> forallb (ids_le_clause T) cls = true ->
  mem_le T (cids Gs) -> T <= m -> mem_le m (cids Gt) ->
  Forall (fclause_typed Gt) cls' /\
  Forall2 (fun cl cl' => match cl, cl' with CClause c x ctx _, FsClause c' x' ctx' _ => c' = c /\ x' = x /\ ctx' = ctx end) cls cls'.
Proof.
  induction 1 as [|cl r Hc Hr IH]; intros m Gs Gt T cls' m' Hf Ht Hrel Hnd Hid HGs LE HGt; simpl in Hf.
  - okinv Hf. split; constructor.
  - apply rbind_ok in Hf. destruct Hf as ([cl1 m1] & E & Hf). apply rbind_ok in Hf. destruct Hf as ([r1 m2] & E0 & Hf). okinv Hf.
    inversion Ht as [|? ? Ht1 Ht2]; subst. simpl in Hnd, Hid.
    apply andb_true_iff in Hid. destruct Hid as [Hid1 Hid2]. rewrite <- app_assoc in Hnd.
    assert (L1 : m <= m1).
    { destruct cl as [c x ctx body]. rewrite focus_clause_eq in E. apply rbind_ok in E. destruct E as ([b1 mb] & E & E'). okinv E'.
      eapply focus_stmt_mono; eauto. }
    destruct (IH m1 Gs Gt T r1 m' E0 Ht2 Hrel) as [I1 I2]; auto; try lia.
    { ndsolve. } { eapply mem_le_mono; eauto. }
    split; constructor; auto.
    + eapply (Hc m Gs Gt T); eauto. ndsolve.
    + destruct cl as [c x ctx body]. rewrite focus_clause_eq in E. apply rbind_ok in E. destruct E as ([b1 mb] & E & E'). okinv E'. auto.
Qed.

(* the xtor of a typed producer/consumer xtor term *)
Lemma xtor_parts : forall Gs side ty c x args t', ct Gs side ty (CXtor c x args t') = None ->
  c = side /\ t' = ty /\ exists n d sg, ty = CDecl n /\ find_decl (match side with CPrd => data | CCns => codata end) n = Some d /\
    find_cxtor d x = Some sg /\ args_typed Gs args (cxargs sg) /\ (forall b, In b (cxargs sg) -> tyok (cbty b) = true) /\ tyok ty = true.
Proof.
  intros Gs side ty c x args t' H. apply ct_xtor in H. destruct H as [-> [-> [n [d [sg [-> [Hd [Hs Ha]]]]]]]].
  split; [reflexivity|]. split; [reflexivity|]. exists n, d, sg. repeat split; auto.
  - intros b Hb. eapply (Hxt (match side with CPrd => data | CCns => codata end)); eauto. destruct side; auto.
  - unfold ty_ok. destruct side; simpl in Hd; rewrite Hd; [reflexivity | destruct (find_decl data n); reflexivity].
Qed.

Lemma typed_cns_not_op : forall Gs ty t, ct Gs CCns ty t = None -> is_op t = false.
Proof. intros Gs ty t H. destruct t; try reflexivity. apply ct_op in H. destruct H as [H _]. discriminate. Qed.

Lemma focus_ty_all : (forall t, Pt t) /\ (forall a, FBa a) /\ (forall c, FFc c) /\ (forall s, FFs s).
Proof.
  apply core_mutind.
  - (* XVar *)
    intros c0 v ty0. split; [|split; [|exact I]].
    + intros c k m Gs Gt ty T s' m' Hb Ht Hty Hrel Hnd Hid HGs LE HGt Kmono HK. rewrite bind_xvar in Hb.
      apply ct_var in Ht. destruct Ht as [-> [-> Hl]].
      exact (HK (mkcb v c ty) m Gt s' m' (ext_refl _ _) (N.le_refl _) HGt eq_refl eq_refl (Hrel _ _ Hl) Hb).
    + intros c m Gs Gt ty T t' m' Hf Ht Hrel Hnd Hid HGs LE HGt. rewrite focus_term_xvar in Hf. okinv Hf.
      apply ct_var in Ht. destruct Ht as [-> [-> Hl]]. apply kt_var. repeat split.
      exists (mkcb v c ty). split; [apply (Hrel _ _ Hl) | auto].
  - (* Lit *)
    intros n. split; [|split; [|exact I]].
    + intros c k m Gs Gt ty T s' m' Hb Ht Hty Hrel Hnd Hid HGs LE HGt Kmono HK.
      apply ct_lit in Ht. destruct Ht as [-> ->]. rewrite bind_lit in Hb. rinv Hb. okinv Hb.
      apply ks_cut. split; [reflexivity|]. split; [apply kt_lit; auto|]. apply kt_mu. repeat split.
      eapply fresh_front; eauto. lia.
    + intros c m Gs Gt ty T t' m' Hf Ht Hrel Hnd Hid HGs LE HGt.
      apply ct_lit in Ht. destruct Ht as [-> ->]. simpl in Hf. okinv Hf. apply kt_lit. auto.
  - (* Op *)
    intros a o b (Ba & _ & _) (Bb & _ & _). split; [|split; [|split; assumption]].
    + intros c k m Gs Gt ty T s' m' Hb Ht Hty Hrel Hnd Hid HGs LE HGt Kmono HK.
      apply ct_op in Ht. destruct Ht as [-> [-> [Hta Htb]]]. rewrite bind_op in Hb. simpl in Hnd, Hid.
      apply andb_true_iff in Hid. destruct Hid as [Hid1 Hid2]. rewrite <- app_assoc in Hnd.
      eapply (Ba CPrd (opL_k b o k) m Gs Gt CI64 T); eauto; [ndsolve | apply kmono_opL; exact Kmono |].
      intros b1 m1 Gt1 s1 m2 He L1 Hm1 Hc1 Ht1 Hf1 Hk1. unfold opL_k in Hk1.
      eapply (Bb CPrd (opR_k b1 o k) m1 Gs Gt1 CI64 T); eauto.
      * eapply rel_ext; eauto.
      * ndsolve.
      * lia.
      * apply kmono_opR. exact Kmono.
      * intros b2 m3 Gt2 s2 m4 He2 L2 Hm2 Hc2 Ht2 Hf2 Hk2. unfold opR_k in Hk2. simpl in Hk2. rinv Hk2. okinv Hk2.
        apply ks_cut. split; [reflexivity|]. split.
        -- apply kt_op. repeat split.
           ++ apply fbound_iff. exists b1. split; [eapply flookup_ext; eauto | auto].
           ++ apply fbound_iff. exists b2. auto.
        -- apply kt_mu. repeat split.
           eapply (fresh_front k CPrd CI64 Gt2 m m3); eauto; try lia.
           eapply KOK_mono; [exact HK | eapply ext_trans; eauto | lia].
    + intros c m Gs Gt ty T t' m' Hf. destruct c; discriminate.
  - (* Mu *)
    intros c0 v s ty0 IHs. split; [|split; [|exact I]].
    + intros c k m Gs Gt ty T s' m' Hb Ht Hty Hrel Hnd Hid HGs LE HGt Kmono HK.
      apply ct_mu in Ht. destruct Ht as [-> [-> Hts]]. simpl in Hnd, Hid.
      apply andb_true_iff in Hid. destruct Hid as [Hidv Hids]. apply N.leb_le in Hidv.
      assert (Hvn : ~ In (cid_id v) (cids Gs)) by (inversion Hnd; subst; intros Hin; apply H1; apply in_or_app; right; exact Hin).
      destruct c.
      * rewrite bind_mu_prd in Hb. rinv Hb. rinv Hb. okinv Hb.
        assert (L1 : m + 1 <= n) by (eapply focus_stmt_mono; eauto).
        apply ks_cut. split; [exact Hty|]. split; apply kt_mu; repeat split.
        -- eapply (IHs (m + 1) (mkcb v (opp CPrd) ty :: Gs) (mkcb v (opp CPrd) ty :: Gt) T); eauto.
           ++ apply rel_cons_both; assumption.
           ++ simpl. inversion Hnd; subst. apply NoDup_app_iff in H2. destruct H2 as (N1 & N2 & N3).
              apply NoDup_app_iff. split; [exact N1|]. split; [constructor; assumption|].
              intros x Hx [<-|Hx2]; [apply H1; apply in_or_app; left; exact Hx | eapply N3; eauto].
           ++ apply mem_le_cids_cons; [simpl; lia | exact HGs].
           ++ lia.
           ++ apply mem_le_cids_cons; [simpl; lia | eapply mem_le_mono; [exact HGt | lia]].
        -- eapply fresh_front_later; eauto. lia.
      * rewrite bind_mu_cns in Hb. rinv Hb. rinv Hb. okinv Hb.
        assert (L1 : m + 1 <= n) by (eapply Kmono; eauto).
        apply ks_cut. split; [exact Hty|]. split; apply kt_mu; repeat split.
        -- eapply fresh_front; eauto. lia.
        -- eapply (IHs n (mkcb v (opp CCns) ty :: Gs) (mkcb v (opp CCns) ty :: Gt) T); eauto.
           ++ apply rel_cons_both; assumption.
           ++ simpl. inversion Hnd; subst. apply NoDup_app_iff in H2. destruct H2 as (N1 & N2 & N3).
              apply NoDup_app_iff. split; [exact N1|]. split; [constructor; assumption|].
              intros x Hx [<-|Hx2]; [apply H1; apply in_or_app; left; exact Hx | eapply N3; eauto].
           ++ apply mem_le_cids_cons; [simpl; lia | exact HGs].
           ++ lia.
           ++ apply mem_le_cids_cons; [simpl; lia | eapply mem_le_mono; [exact HGt | lia]].
    + intros c m Gs Gt ty T t' m' Hf Ht Hrel Hnd Hid HGs LE HGt. rewrite focus_term_mu in Hf. rinv Hf. okinv Hf.
      apply ct_mu in Ht. destruct Ht as [-> [-> Hts]]. simpl in Hnd, Hid.
      apply andb_true_iff in Hid. destruct Hid as [Hidv Hids]. apply N.leb_le in Hidv.
      assert (Hvn : ~ In (cid_id v) (cids Gs)) by (inversion Hnd; subst; intros Hin; apply H1; apply in_or_app; right; exact Hin).
      apply kt_mu. repeat split.
      eapply (IHs m (mkcb v (opp c) ty :: Gs) (mkcb v (opp c) ty :: Gt) T); eauto.
      * apply rel_cons_both; assumption.
      * simpl. inversion Hnd; subst. apply NoDup_app_iff in H2. destruct H2 as (N1 & N2 & N3).
        apply NoDup_app_iff. split; [exact N1|]. split; [constructor; assumption|].
        intros x Hx [<-|Hx2]; [apply H1; apply in_or_app; left; exact Hx | eapply N3; eauto].
      * apply mem_le_cids_cons; [simpl; lia | exact HGs].
      * apply mem_le_cids_cons; [simpl; lia | exact HGt].
  - (* Xtor *)
    intros c0 x args ty0 IHa. split; [|split; [|exact IHa]].
    + intros c k m Gs Gt ty T s' m' Hb Ht Hty Hrel Hnd Hid HGs LE HGt Kmono HK.
      destruct (xtor_parts _ _ _ _ _ _ _ Ht) as [-> [-> [n [d [sg [-> [Hd [Hsg [Hargs [Htys _]]]]]]]]]].
      simpl in Hnd, Hid. destruct c.
      * rewrite bind_xtor_prd in Hb.
        eapply (bind_many_ty args IHa (xtorP_kv CPrd x (CDecl n) k) m Gs Gt (cxargs sg) T); eauto.
        { apply kvmono_xtorP. exact Kmono. }
        intros bs m1 Gt1 s1 m2 He L1 Hm1 Hbs Hk1. unfold xtorP_kv in Hk1. simpl in Hk1. rinv Hk1. okinv Hk1.
        apply ks_cut. split; [exact Hty|]. split.
        -- eapply (kt_xtor_intro data codata fdefs Gt1 CPrd); eauto.
        -- apply kt_mu. repeat split. eapply (fresh_front k CPrd (CDecl n) Gt1 m m1); eauto; try lia.
           eapply KOK_mono; eauto. lia.
      * rewrite bind_xtor_cns in Hb.
        eapply (bind_many_ty args IHa (xtorK_kv CCns x (CDecl n) k) m Gs Gt (cxargs sg) T); eauto.
        { apply kvmono_xtorK. exact Kmono. }
        intros bs m1 Gt1 s1 m2 He L1 Hm1 Hbs Hk1. unfold xtorK_kv in Hk1. simpl in Hk1. rinv Hk1. okinv Hk1.
        apply ks_cut. split; [exact Hty|]. split.
        -- apply kt_mu. repeat split. eapply (fresh_front k CCns (CDecl n) Gt1 m m1); eauto; try lia.
           eapply KOK_mono; eauto. lia.
        -- eapply (kt_xtor_intro data codata fdefs Gt1 CCns); eauto.
    + intros c m Gs Gt ty T t' m' Hf. discriminate.
  - (* XCase *)
    intros c0 cls ty0 IHc. split; [|split; [|exact I]].
    + intros c k m Gs Gt ty T s' m' Hb Ht Hty Hrel Hnd Hid HGs LE HGt Kmono HK.
      apply ct_xcase in Ht. destruct Ht as [-> [-> [n [d [-> [Hd [Hm Hcl]]]]]]]. simpl in Hnd, Hid. destruct c.
      * rewrite bind_xcase_prd in Hb.
        apply rbind_ok in Hb. destruct Hb as ([sk m2] & Ek & Hb). apply rbind_ok in Hb. destruct Hb as ([cls' m3] & Ec & Hb). okinv Hb.
        assert (L1 : m + 1 <= m2) by (eapply Kmono; eauto).
        destruct (focus_clauses_ty cls IHc m2 Gs Gt T cls' m' Ec Hcl Hrel) as [F1 F2]; auto; try lia.
        { eapply mem_le_mono; [exact HGt | lia]. }
        apply ks_cut. split; [exact Hty|]. split.
        -- eapply (kt_xcase_intro data codata fdefs Gt CPrd); eauto. eapply cclauses_to_fs; eauto.
        -- apply kt_mu. repeat split. eapply fresh_front; eauto. lia.
      * rewrite bind_xcase_cns in Hb.
        apply rbind_ok in Hb. destruct Hb as ([sk m2] & Ek & Hb). apply rbind_ok in Hb. destruct Hb as ([cls' m3] & Ec & Hb). okinv Hb.
        assert (L1 : m + 1 <= m2) by (eapply Kmono; eauto).
        destruct (focus_clauses_ty cls IHc m2 Gs Gt T cls' m' Ec Hcl Hrel) as [F1 F2]; auto; try lia.
        { eapply mem_le_mono; [exact HGt | lia]. }
        apply ks_cut. split; [exact Hty|]. split.
        -- apply kt_mu. repeat split. eapply fresh_front; eauto. lia.
        -- eapply (kt_xcase_intro data codata fdefs Gt CCns); eauto. eapply cclauses_to_fs; eauto.
    + intros c m Gs Gt ty T t' m' Hf Ht Hrel Hnd Hid HGs LE HGt. rewrite focus_term_xcase in Hf.
      apply rbind_ok in Hf. destruct Hf as ([cls' m3] & Ec & Hf). okinv Hf.
      apply ct_xcase in Ht. destruct Ht as [-> [-> [n [d [-> [Hd [Hm Hcl]]]]]]]. simpl in Hnd, Hid.
      destruct (focus_clauses_ty cls IHc m Gs Gt T cls' m' Ec Hcl Hrel) as [F1 F2]; auto.
      eapply (kt_xcase_intro data codata fdefs Gt c); eauto. eapply cclauses_to_fs; eauto.
  - (* Producer *)
    intros p (Bp & _ & _) k m Gs Gt s T s' m' Hb Ht Hty Hrel Hnd Hid HGs LE HGt Kmono HK.
    unfold CoreTyRules.arg_typed in Ht. destruct (cbchi s) eqn:Ec; [|contradiction]. rewrite bind_arg_prd in Hb.
    eapply (Bp CPrd k m Gs Gt (cbty s) T); eauto.
  - (* Consumer *)
    intros p (Bp & _ & _) k m Gs Gt s T s' m' Hb Ht Hty Hrel Hnd Hid HGs LE HGt Kmono HK.
    unfold CoreTyRules.arg_typed in Ht. destruct (cbchi s) eqn:Ec; [contradiction|]. rewrite bind_arg_cns in Hb.
    eapply (Bp CCns k m Gs Gt (cbty s) T); eauto.
  - (* Clause *)
    intros c x ctx body IHb m Gs Gt T cl' m' Hf Ht Hrel Hnd Hid HGs LE HGt.
    rewrite focus_clause_eq in Hf. rinv Hf. okinv Hf. unfold CoreTyRules.clause_typed in Ht. simpl in Hnd, Hid.
    apply andb_true_iff in Hid. destruct Hid as [Hidc Hidb]. unfold FsTyRules.fclause_typed.
    assert (Hidc' : mem_le T (cids ctx)).
    { intros i Hi. rewrite forallb_forall in Hidc. specialize (Hidc i Hi). apply N.leb_le in Hidc. exact Hidc. }
    eapply (IHb m (ctx ++ Gs) (ctx ++ Gt) T); eauto.
    + apply rel_app_both; [exact Hrel|]. ndsolve.
    + assert (Ecc : cids (ctx ++ Gs) = cids ctx ++ cids Gs) by (unfold cids; apply map_app). rewrite Ecc. rewrite <- app_assoc in Hnd.
      apply NoDup_app_iff in Hnd. destruct Hnd as (N1 & N2 & N3). apply NoDup_app_iff in N2. destruct N2 as (N4 & N5 & N6).
      apply NoDup_app_iff. split; [exact N4|]. split; [apply NoDup_app_iff; repeat split; auto|].
      * intros y Hy1 Hy2. eapply N3; [exact Hy1 | apply in_or_app; right; exact Hy2].
      * intros y Hy1 Hy2. apply in_app_or in Hy2. destruct Hy2 as [Hy2|Hy2]; [eapply N3; [exact Hy2 | apply in_or_app; left; exact Hy1] | eapply N6; eauto].
    + apply mem_le_cids_app; assumption.
    + apply mem_le_cids_app; [eapply mem_le_mono; [exact Hidc' | lia] | exact HGt].
  - (* Cut *)
    intros p ty q (Bp & Fp & Sp) (Bq & Fq & Sq) m Gs Gt T s' m' Hf Ht Hrel Hnd Hid HGs LE HGt.
    apply cs_cut in Ht. destruct Ht as [Hty [Htp Htq]]. simpl in Hnd, Hid.
    apply andb_true_iff in Hid. destruct Hid as [Hidp Hidq]. rewrite <- app_assoc in Hnd.
    assert (Hndp : NoDup (binder_ids_term p ++ cids Gs)) by ndsolve.
    assert (Hndq : NoDup (binder_ids_term q ++ cids Gs)) by ndsolve.
    destruct (is_xtor p) eqn:Exp.
    + (* (Xtor, consumer) *)
      destruct p as [| | | |pc px pargs pty|]; try discriminate.
      destruct (xtor_parts _ _ _ _ _ _ _ Htp) as [-> [-> [n [d [sg [-> [Hd [Hsg [Hargs [Htys _]]]]]]]]]].
      rewrite focus_cut_xtorP in Hf. simpl in Sp, Hndp, Hidp.
      eapply (bind_many_ty pargs Sp (cutP_kv CPrd px (CDecl n) q) m Gs Gt (cxargs sg) T); eauto.
      { apply kvmono_cutP. }
      intros bs m1 Gt1 s1 m2 He L1 Hm1 Hbs Hk1. unfold cutP_kv in Hk1. rinv Hk1. okinv Hk1.
      apply ks_cut. split; [exact Hty|]. split.
      * eapply (kt_xtor_intro data codata fdefs Gt1 CPrd); eauto.
      * eapply (Fq CCns m1 Gs Gt1 (CDecl n) T); eauto; [eapply rel_ext; eauto | lia].
    + destruct (is_xtor q) eqn:Exq.
      * (* (producer, Xtor) *)
        destruct q as [| | | |qc qx qargs qty|]; try discriminate.
        destruct (xtor_parts _ _ _ _ _ _ _ Htq) as [-> [-> [n [d [sg [-> [Hd [Hsg [Hargs [Htys _]]]]]]]]]].
        rewrite focus_cut_xtorK in Hf; [|destruct p; try exact I; discriminate]. simpl in Sq, Hndq, Hidq.
        eapply (bind_many_ty qargs Sq (cutK_kv CCns qx (CDecl n) p) m Gs Gt (cxargs sg) T); eauto.
        { apply kvmono_cutK. }
        intros bs m1 Gt1 s1 m2 He L1 Hm1 Hbs Hk1. unfold cutK_kv in Hk1. rinv Hk1. okinv Hk1.
        apply ks_cut. split; [exact Hty|]. split.
        -- eapply (Fp CPrd m1 Gs Gt1 (CDecl n) T); eauto; [eapply rel_ext; eauto | lia].
        -- eapply (kt_xtor_intro data codata fdefs Gt1 CCns); eauto.
      * destruct (is_op p) eqn:Eop.
        -- (* (Op, consumer) *)
           destruct p as [| |a o b| | |]; try discriminate. destruct Sp as [Ba Bb].
           apply ct_op in Htp. destruct Htp as [_ [-> [Hta Htb]]].
           rewrite focus_cut_op in Hf; [|destruct q; try exact I; discriminate]. simpl in Hndp, Hidp.
           apply andb_true_iff in Hidp. destruct Hidp as [Hida Hidb]. rewrite <- app_assoc in Hndp.
           eapply (Ba CPrd (cutopL_k b o CI64 q) m Gs Gt CI64 T); eauto; [ndsolve | apply kmono_cutopL |].
           intros b1 m1 Gt1 s1 m2 He L1 Hm1 Hc1 Ht1 Hf1 Hk1. unfold cutopL_k in Hk1.
           eapply (Bb CPrd (cutopR_k b1 o CI64 q) m1 Gs Gt1 CI64 T); eauto.
           ++ eapply rel_ext; eauto.
           ++ ndsolve.
           ++ lia.
           ++ apply kmono_cutopR.
           ++ intros b2 m3 Gt2 s2 m4 He2 L2 Hm2 Hc2 Ht2 Hf2 Hk2. unfold cutopR_k in Hk2. rinv Hk2. okinv Hk2.
              apply ks_cut. split; [reflexivity|]. split.
              ** apply kt_op. repeat split.
                 --- apply fbound_iff. exists b1. split; [eapply flookup_ext; eauto | auto].
                 --- apply fbound_iff. exists b2. auto.
              ** eapply (Fq CCns m3 Gs Gt2 CI64 T); eauto; try lia.
                 eapply rel_ext; [eapply rel_ext; eauto | eauto | eauto].
        -- (* (producer, consumer) *)
           rewrite focus_cut_heads in Hf; [| destruct p; try exact I; discriminate | destruct q; try exact I; discriminate].
           rinv Hf. rinv Hf. okinv Hf.
           assert (L1 : m <= n) by (eapply focus_term_mono; eauto).
           apply ks_cut. split; [exact Hty|]. split.
           ++ eapply (Fp CPrd m Gs Gt ty T); eauto.
           ++ eapply (Fq CCns n Gs Gt ty T); eauto; [lia | eapply mem_le_mono; eauto].
  - (* IfC *)
    intros so a b t e (Ba & _ & _) IHb IHt IHe m Gs Gt T s' m' Hf Ht Hrel Hnd Hid HGs LE HGt.
    apply cs_ifc in Ht. destruct Ht as [Hta [Htb [Htt Hte]]]. rewrite focus_ifc in Hf. simpl in Hnd, Hid.
    apply andb_true_iff in Hid. destruct Hid as [Hid Hide]. apply andb_true_iff in Hid. destruct Hid as [Hid Hidt].
    apply andb_true_iff in Hid. destruct Hid as [Hida Hidb]. rewrite <- !app_assoc in Hnd.
    assert (Nda : NoDup (binder_ids_term a ++ cids Gs)) by nd2.
    assert (Ndt : NoDup (binder_ids_stmt t ++ cids Gs)) by nd2.
    assert (Nde : NoDup (binder_ids_stmt e ++ cids Gs)) by nd2.
    refine (Ba CPrd (if1_k so b t e) m Gs Gt CI64 T s' m' Hf Hta eq_refl Hrel Nda Hida HGs LE HGt (kmono_if1 so b t e) _).
    intros b1 m1 Gt1 s1 m2 He L1 Hm1 Hc1 Ht1 Hf1 Hk1. unfold if1_k in Hk1.
    assert (Hrel1 : rel Gs Gt1) by (eapply rel_ext; eauto).
    destruct b as [b0|].
    + destruct IHb as (Bb & _ & _).
      assert (Ndb : NoDup (binder_ids_term b0 ++ cids Gs)) by nd2.
      refine (Bb CPrd (if2_k so b1 t e) m1 Gs Gt1 CI64 T s1 m2 Hk1 Htb eq_refl Hrel1 Ndb Hidb HGs _ Hm1 (kmono_if2 so b1 t e) _); [lia|].
      intros b2 m3 Gt2 s2 m4 He2 L2 Hm2 Hc2 Ht2 Hf2 Hk2. unfold if2_k in Hk2.
      apply rbind_ok in Hk2. destruct Hk2 as ([t' mt] & Et & Hk2). apply rbind_ok in Hk2. destruct Hk2 as ([e' me] & Ee & Hk2). okinv Hk2.
      assert (Hrel2 : rel Gs Gt2) by (eapply rel_ext; eauto).
      assert (L3 : m3 <= mt) by (eapply focus_stmt_mono; eauto).
      apply ks_ifc. split; [apply fbound_iff; exists b1; split; [eapply flookup_ext; eauto | auto]|].
      split; [apply fbound_iff; exists b2; auto|]. split.
      * refine (IHt m3 Gs Gt2 T t' mt Et Htt Hrel2 Ndt Hidt HGs _ Hm2). lia.
      * refine (IHe mt Gs Gt2 T e' m4 Ee Hte Hrel2 Nde Hide HGs _ _); [lia | eapply mem_le_mono; eauto].
    + apply rbind_ok in Hk1. destruct Hk1 as ([t' mt] & Et & Hk1). apply rbind_ok in Hk1. destruct Hk1 as ([e' me] & Ee & Hk1). okinv Hk1.
      assert (L3 : m1 <= mt) by (eapply focus_stmt_mono; eauto).
      apply ks_ifc. split; [apply fbound_iff; exists b1; auto|]. split; [exact I|]. split.
      * refine (IHt m1 Gs Gt1 T t' mt Et Htt Hrel1 Ndt Hidt HGs _ Hm1). lia.
      * refine (IHe mt Gs Gt1 T e' m2 Ee Hte Hrel1 Nde Hide HGs _ _); [lia | eapply mem_le_mono; eauto].
  - (* Print *)
    intros nl a next (Ba & _ & _) IHn m Gs Gt T s' m' Hf Ht Hrel Hnd Hid HGs LE HGt.
    apply cs_print in Ht. destruct Ht as [Hta Htn]. rewrite focus_print in Hf. simpl in Hnd, Hid.
    apply andb_true_iff in Hid. destruct Hid as [Hida Hidn]. rewrite <- app_assoc in Hnd.
    assert (Nda : NoDup (binder_ids_term a ++ cids Gs)) by nd2.
    assert (Ndn : NoDup (binder_ids_stmt next ++ cids Gs)) by nd2.
    refine (Ba CPrd (print_k nl next) m Gs Gt CI64 T s' m' Hf Hta eq_refl Hrel Nda Hida HGs LE HGt (kmono_print nl next) _).
    intros b1 m1 Gt1 s1 m2 He L1 Hm1 Hc1 Ht1 Hf1 Hk1. unfold print_k in Hk1.
    apply rbind_ok in Hk1. destruct Hk1 as ([n' mn] & En & Hk1). okinv Hk1.
    apply ks_print. split; [apply fbound_iff; exists b1; auto|].
    refine (IHn m1 Gs Gt1 T n' m2 En Htn _ Ndn Hidn HGs _ Hm1); [eapply rel_ext; eauto | lia].
  - (* Call *)
    intros f args ty IHa m Gs Gt T s' m' Hf Ht Hrel Hnd Hid HGs LE HGt.
    apply cs_call in Ht. destruct Ht as [Hty [d [Hd Hargs]]]. rewrite focus_call in Hf. simpl in Hnd, Hid.
    destruct (Hfd f d Hd) as [d' [Hd' Hctx]].
    refine (bind_many_ty args IHa (call_kv f) m Gs Gt (cdctx d) T s' m' Hf Hargs (Hpt f d Hd) Hrel Hnd Hid HGs LE HGt (kvmono_call f) _).
    intros bs m1 Gt1 s1 m2 He L1 Hm1 Hbs Hk1. unfold call_kv in Hk1. okinv Hk1.
    eapply ks_call_intro; [exact Hd'|]. rewrite Hctx. exact Hbs.
  - (* Exit *)
    intros a ty (Ba & _ & _) m Gs Gt T s' m' Hf Ht Hrel Hnd Hid HGs LE HGt.
    apply cs_exit in Ht. destruct Ht as [_ Hta]. rewrite focus_exit in Hf. simpl in Hnd, Hid.
    refine (Ba CPrd exit_k m Gs Gt CI64 T s' m' Hf Hta eq_refl Hrel Hnd Hid HGs LE HGt kmono_exit _).
    intros b1 m1 Gt1 s1 m2 He L1 Hm1 Hc1 Ht1 Hf1 Hk1. unfold exit_k in Hk1. okinv Hk1.
    apply ks_exit. apply fbound_iff. exists b1. auto.
Qed.

Definition focus_stmt_typed := proj2 (proj2 (proj2 focus_ty_all)).
End FocusTy.
