(* C19, fun2core: the entry point of a program in which main is called (fix f929eb7 of /repo),
     def main<n>(params) { main(params, mu~x. exit x) }      = compile_main of [entry_fdef d nm],
   has EXACTLY 5 + (1 + k) * #params units (k = 0: nodes - the definition, the call, one variable per parameter, mu~,
   exit, the variable; k = 1: plus one per parameter of the definition context) and lifts nothing. *)
From Coq Require Import List ZArith NArith String Bool Lia.
From SCC Require Import Base.Sexp Lang.SynUtil Lang.FunSyn Lang.FunTy Lang.CoreSyn Lang.AxSize Lang.CoreSize.
From SCC Require Import Model.Fun2Core Model.SizeFun Proof.Fun2CoreProof Proof.Fun2CoreTfv Proof.Fun2CoreInv Proof.Fun2CoreProg
     Proof.SizeLin Proof.SizeGen Proof.SizeFun2CoreFv Proof.SizeFun2Core.
Import ListNotations.
Open Scope string_scope.
Open Scope list_scope.
Open Scope N_scope.
Local Arguments N.add : simpl never.
Local Arguments N.mul : simpl never.
Local Arguments len : simpl never.

Lemma entry_size : forall k codata d nm ul e ule,
  compile_main false (entry_fdef d nm) codata ul = Ok (e, ule) ->
  cz_defs k e = 5 + len (fdctx d) + k * len (fdctx d).
Proof.
  intros k codata d nm ul e ule H. unfold compile_main in H.
  match type of H with context [run_def_body ?cd ?dd ?u ?kk] =>
    destruct (run_def_body cd dd u kk) as [[body st']|?] eqn:Eb end; simpl in H; [|discriminate].
  injection H as Hg Hul. subst e.
  unfold run_def_body in Eb. cbn [entry_fdef fdbody fterm_type fdctx fdname] in Eb.
  apply mbind_inv in Eb. destruct Eb as [x0 [stx [Hx Hwc]]].
  rewrite wc_unfold in Hwc. apply wc_call_inv in Hwc. destruct Hwc as [args' [ret0 [Hargs [Eret Es]]]].
  injection Eret as <-. subst body. fold (entry_args (fdctx d)) in Hargs.
  destruct (entry_args_compile _ _ _ _ _ _ Hargs) as [-> ->].
  apply fresh_in_vars_inv in Hx. destruct Hx as (_ & _ & _ & Hl). cbn [st_lifted] in Hl. rewrite Hl.
  cbn [cz_defs]. unfold cz_def. cbn [cdctx cdbody entry_fdef fdctx fdname].
  rewrite cz_stmt_call, cz_args_app, cz_args_bindings. cbn [cz_args cz_arg cz_term cz_stmt].
  unfold compile_ctx. rewrite !len_map. lia.
Qed.

(* ---------- the node bound without the additive term entry_params is false of a program whose call of main passes
   fewer arguments than main has parameters (not a checked program): def main(x0 .. x29) { main() } ---------- *)
Definition entry_refute_witness : fcprog :=
  mkfcprog [] []
    [mkfdef "main" (map (fun x => mkfb x FPrd FI64) ["x0"; "x1"; "x2"; "x3"; "x4"; "x5"; "x6"; "x7"; "x8"; "x9"; "x10"; "x11"; "x12"; "x13"; "x14"; "x15"; "x16"; "x17"; "x18"; "x19"; "x20"; "x21"; "x22"; "x23"; "x24"; "x25"; "x26"; "x27"; "x28"; "x29"]) FI64 (FCall "main" [] (Some FI64))].
Lemma fun2core_size_without_entry_refuted :
  ~ (forall p c, compile_prog p = Ok c -> size_cprog c <= size_fcprog p * (10 + 2 * fun_occ p)).
Proof.
  intro H. destruct (compile_prog entry_refute_witness) as [c|m] eqn:E; [|vm_compute in E; discriminate].
  specialize (H _ _ E). revert H. revert E. vm_compute. intros E. inversion E; subst. vm_compute. intros H. apply H. reflexivity.
Qed.
