(* ======================================================================================
   Proof/Fun2CoreFLe  -  the fundamental lemma, case by case: variables, literals, operators, exit,
   parentheses, print, conditionals (with shared continuations).
   ====================================================================================== *)
From Coq Require Import List ZArith NArith String Bool Lia.
From SCC Require Import Base.Sexp Lang.SynUtil Lang.FunSyn Lang.FunTy Lang.CoreSyn.
From SCC Require Import Sem.AxSem Sem.CoreSem Sem.FunSem Model.Fun2Core.
From SCC Require Import Proof.Fun2CoreProof Proof.Fun2CoreSim Proof.Fun2CoreTfv Proof.Fun2CoreInv Proof.Fun2CoreUB
     Proof.Fun2CoreRel Proof.Fun2CoreFLa Proof.Fun2CoreFLb Proof.Fun2CoreFLc Proof.Fun2CoreFLd.
Import ListNotations.
Open Scope string_scope.
Open Scope list_scope.

Arguments var_ok : simpl never.

Lemma Sof_incl : forall A B : bset, (forall bb, In bb A -> In bb B) -> forall x, Sof A x -> Sof B x.
Proof.
  intros A B H x Hx. unfold Sof in *. apply in_cnames_inv in Hx. destruct Hx as [bb [Hb E]]. subst x.
  apply in_cnames. apply H. exact Hb.
Qed.

Section FLe.
  Variable p : fcprog.
  Variable cp : cprog.
  Hypothesis Hcod : cpcodata cp = codata_of p.

  (* a related continuation applied to an integer / any data value through a machine continuation *)
  Lemma Kb_ret : forall n k m j v pv, Kb p cp n k (KRet m) -> (j < n)%nat -> dval v -> vrel p cp j v pv ->
    sim p cp j (FRet k v) (SNext (App m (BP pv))).
  Proof.
    intros n k m j v pv Hk Hj Hd Hv. rewrite <- (dval_interact_ret p cp j v pv m Hd Hv). eapply Kb_use; eauto.
  Qed.
  Lemma CK_KS : forall n c k cont ce (S : cident -> Prop), CK p cp n c k cont ce S ->
    (forall bb, In bb (fvt cont) -> S (cbvar bb)) -> KS p cp n c k cont ce.
  Proof.
    intros n c k cont ce S [_ HK] Hall. apply HK.
    intros x Hx. apply in_cnames_inv in Hx. destruct Hx as [bb [Hb E]]. subst x. apply Hall. exact Hb.
  Qed.
  (* the continuation k of CK (data kind), as a consumer value, once all its names are in S *)
  Lemma CK_head : forall n k cont ce (S : cident -> Prop), cont_shape cp false cont -> CK p cp n false k cont ce S ->
    (forall bb, In bb (fvt cont) -> S (cbvar bb)) ->
    exists kv, khead cont ce = inl kv /\ Kb p cp n k kv.
  Proof. intros n k cont ce S Hsh HCK Hall. apply (KS_head p cp); [exact Hsh|]. eapply CK_KS; eauto. Qed.
  Lemma CK_mcutk : forall n k cont ce (S : cident -> Prop), cont_shape cp false cont -> CK p cp n false k cont ce S ->
    (forall bb, In bb (fvt cont) -> S (cbvar bb)) -> Kb p cp n k (KRet (MCutK cont ce)).
  Proof. intros n k cont ce S Hsh HCK Hall. apply (Kb_mcutk p cp); [exact Hsh|]. eapply CK_KS; eauto. Qed.
  Lemma Sof_in : forall bb bs, In bb bs -> Sof bs (cbvar bb).
  Proof. intros bb bs H. unfold Sof. apply in_cnames. exact H. Qed.

  (* ---------- variables (both kinds) ---------- *)
  Lemma fl_var : forall N v ty chi,
    flw p cp N (FVar v ty chi) /\ flc p cp N (FVar v ty chi) /\ flt p cp N (FVar v ty chi).
  Proof.
    intros N v ty chi. split; [|split].
    - intros n Hn G cur cont st s st' e ce k Hwc Hf Hkd Hws Hl HG Hb Hni Hsh He HCK.
      rewrite wc_unfold in Hwc. apply wc_var_inv in Hwc. destruct Hwc as [ty0 [Ety [Es Est]]]. subst.
      simpl in Hws. apply var_ok_inv in Hws. destruct Hws as [ty1 [E1 Hg]]. injection E1 as E1. subst ty1.
      destruct (erel_var p cp n G _ e ce v _ He Hg) as [val [pv [El [Ec [Hv Hd]]]]].
      { apply (Sof_in (mkcb (new_id v) CPrd (compile_ty ty0))). apply fvs_cut. left. apply fvt_var. reflexivity. }
      assert (HKS : KS p cp n (tkind p (FVar v (Some ty0) chi)) k cont ce).
      { eapply CK_KS; [exact HCK|]. intros bb Hbb. apply Sof_in. apply fvs_cut. right. exact Hbb. }
      destruct (KS_cut p cp n _ k cont ce (CXVar CPrd (new_id v) (compile_ty ty0)) (compile_ty ty0) Hsh HKS I) as [kv [Hr Hk]].
      destruct n as [|n1]; [apply sim_zero|].
      eapply sim_fstep; [simpl; rewrite El; reflexivity|].
      apply sim_cstep. eapply sim_rreach; [|exact Hr]. simpl. rewrite Ec.
      eapply Kk_use; [exact Hk | lia | | eapply vrel_mono; [exact Hv | lia]].
      unfold tkind. simpl. rewrite <- (is_codata_compile p cp Hcod). exact Hd.
    - intros n Hn G cur ty' st c st' e ce k m Hc Hf Hkd Hk0 Hws Hl HG Hb Hty He HK.
      rewrite cmp_unfold in Hc. apply cmp_var_inv in Hc. destruct Hc as [ty0 [Ety [Es Est]]]. subst.
      simpl in Hws. apply var_ok_inv in Hws. destruct Hws as [ty1 [E1 Hg]]. injection E1 as E1. subst ty1.
      destruct (erel_var p cp n G _ e ce v _ He Hg) as [val [pv [El [Ec [Hv Hd]]]]].
      { apply (Sof_in (mkcb (new_id v) CPrd (compile_ty ty0))). apply fvt_var. reflexivity. }
      unfold tkind in Hk0. simpl in Hk0. rewrite (is_codata_compile p cp Hcod), Hk0 in Hd.
      destruct n as [|n1]; [apply sim_zero|].
      eapply sim_fstep; [simpl; rewrite El; reflexivity|].
      apply sim_cstep. simpl. rewrite Ec.
      eapply Kb_ret; [exact HK | lia | exact Hd | eapply vrel_mono; [exact Hv | lia]].
    - intros n Hn G cur ty' st c st' e ce Hc Hf Hkd Hk1 Hws Hl HG Hb Hty He.
      rewrite cmp_unfold in Hc. apply cmp_var_inv in Hc. destruct Hc as [ty0 [Ety [Es Est]]]. subst.
      simpl in Hws. apply var_ok_inv in Hws. destruct Hws as [ty1 [E1 Hg]]. injection E1 as E1. subst ty1.
      destruct (erel_var p cp n G _ e ce v _ He Hg) as [val [pv [El [Ec [Hv Hd]]]]].
      { apply (Sof_in (mkcb (new_id v) CPrd (compile_ty ty0))). apply fvt_var. reflexivity. }
      unfold tkind in Hk1. simpl in Hk1. rewrite (is_codata_compile p cp Hcod), Hk1 in Hd. simpl in Hd.
      exists pv. split; [|split; [|split; [|split]]].
      + intros m. simpl. rewrite Ec. reflexivity.
      + intros v0 s0 ty1. simpl. rewrite Ec. reflexivity.
      + intros cd tag vals. simpl. rewrite Ec. reflexivity.
      + (* the thunk of a variable behaves like the variable's value *)
        apply Co_intro. intros j Hj x args args' k kv Hargs Hdf Hk.
        eapply sim_fstep; [reflexivity|].
        destruct j as [|j1]; [apply sim_zero|].
        eapply sim_fstep; [simpl; rewrite El; reflexivity|].
        destruct j1 as [|j2]; [apply sim_zero|].
        apply (vrel_co p cp (S n) val pv Hd) in Hv || apply (vrel_co p cp n val pv Hd) in Hv.
        apply (Co_use p cp n val pv Hv j2 ltac:(lia)).
        * eapply brels_mono; [exact Hargs | lia].
        * exact Hdf.
        * eapply Kk_mono; [exact Hk | lia].
      + intros y ty1 chi0 E. injection E as E1 E2 E3. subst. exists val. auto.
  Qed.

  (* ---------- literals ---------- *)
  Lemma fl_lit : forall N z, flw p cp N (FLit z) /\ flc p cp N (FLit z).
  Proof.
    intros N z. split.
    - intros n Hn G cur cont st s st' e ce k Hwc Hf Hkd Hws Hl HG Hb Hni Hsh He HCK.
      rewrite wc_unfold in Hwc. unfold wc_lit in Hwc. apply mret_inv in Hwc. destruct Hwc; subst.
      change (tkind p (FLit z)) with false in *.
      destruct (CK_head n k cont ce _ Hsh HCK) as [kv [Hh Hk]].
      { intros bb Hbb. apply Sof_in. apply fvs_cut. right. exact Hbb. }
      destruct n as [|n1]; [apply sim_zero|].
      eapply sim_fstep; [reflexivity|].
      apply sim_cstep. rewrite (cstep_cut_lit cp); [|exact Hsh]. rewrite Hh.
      eapply Kb_use; [exact Hk | lia | exact I | reflexivity].
    - intros n Hn G cur ty' st c st' e ce k m Hc Hf Hkd Hk0 Hws Hl HG Hb Hty He HK.
      rewrite cmp_unfold in Hc. unfold cmp_lit in Hc. apply mret_inv in Hc. destruct Hc; subst.
      destruct n as [|n1]; [apply sim_zero|].
      eapply sim_fstep; [reflexivity|]. apply sim_cstep. simpl.
      eapply Kb_ret; [exact HK | lia | exact I | reflexivity].
  Qed.

  (* ---------- operators ---------- *)
  Lemma op_core : forall N a o b, flc p cp N a -> flc p cp N b ->
    forall n, (n <= N)%nat -> forall G cur st a' st1 b' st2 e ce k m,
    cmp (codata_of p) cur false a CI64 st = Ok (a', st1) ->
    cmp (codata_of p) cur false b CI64 st1 = Ok (b', st2) ->
    frag p a = true -> frag p b = true -> kd p a = true -> kd p b = true -> tkind p a = false -> tkind p b = false ->
    ws G a = true -> ws G b = true ->
    lifted_ok cp st2 -> Gused G st -> incl (bnd a) (st_used_vars st) -> incl (bnd b) (st_used_vars st) ->
    erel p cp n G (Sof (fvt (COp a' (op_of o) b'))) e ce ->
    Kb p cp n k (KRet m) ->
    sim p cp n (FEval a e (FkOpL o b e k)) (SNext (Arg (CProducer a') ce (MOpL (op_of o) b' ce m))).
  Proof.
    intros N a o b Ha Hb n Hn G cur st a' st1 b' st2 e ce k m Hca Hcb Hfa Hfb Hka Hkb Hta Htb Hwa Hwb Hl HG Hba Hbb He HK.
    assert (Hg1 : grows st st1) by (eapply cmp_grows; exact Hca).
    assert (Hg2 : grows st1 st2) by (eapply cmp_grows; exact Hcb).
    apply (Ha n Hn G cur CI64 st a' st1 e ce _ _ Hca Hfa Hka Hta Hwa).
    - eapply lifted_ok_grows; eauto.
    - exact HG.
    - exact Hba.
    - reflexivity.
    - eapply erel_weaken; [exact He | | apply Nat.le_refl]. apply Sof_incl. intros bb Hx. apply fvt_op. left. exact Hx.
    - apply Kb_intro. intros j Hj v pv Hd Hv. rewrite (dval_interact_ret p cp j v pv _ Hd Hv).
      destruct j as [|j1]; [apply sim_zero|].
      destruct v as [x|tag args|cls0 e0|t0 e0]; try contradiction;
        [|eapply sim_stuck; reflexivity].
      apply vrel_int in Hv. subst pv.
      eapply sim_fstep; [reflexivity|]. apply sim_cstep. simpl.
      apply (Hb j1 ltac:(lia) G cur CI64 st1 b' st2 e ce _ _ Hcb Hfb Hkb Htb Hwb Hl).
      + eapply Gused_grows; eauto.
      + eapply incl_grows; eauto.
      + reflexivity.
      + eapply erel_weaken; [exact He | | lia]. apply Sof_incl. intros bb Hx. apply fvt_op. right. exact Hx.
      + apply Kb_intro. intros i Hi v2 pv2 Hd2 Hv2. rewrite (dval_interact_ret p cp i v2 pv2 _ Hd2 Hv2).
        destruct i as [|i1]; [apply sim_zero|].
        destruct v2 as [y|tag args|cls0 e0|t0 e0]; try contradiction;
          [|eapply sim_stuck; reflexivity].
        apply vrel_int in Hv2. subst pv2.
        apply sim_cstep. simpl. rewrite ax_binop_op_of.
        destruct (eval_op (ax_fbinop o) x y) as [z|w] eqn:Eo.
        * eapply sim_fstep; [simpl; rewrite Eo; reflexivity|].
          eapply Kb_ret; [exact HK | lia | exact I | reflexivity].
        * assert (Hs : fstep p (FRet (FkOpR o x k) (FvInt y)) = FHalt (OUndef w)) by (simpl; rewrite Eo; reflexivity).
          exact (sim_halt p cp i1 _ _ Hs).
  Qed.

  Lemma fl_op : forall N a o b, flc p cp N a -> flc p cp N b ->
    flw p cp N (FOp a o b) /\ flc p cp N (FOp a o b).
  Proof.
    intros N a o b Ha Hb. split.
    - intros n Hn G cur cont st s st' e ce k Hwc Hf Hkd Hws Hl HG Hbn Hni Hsh He HCK.
      rewrite wc_unfold in Hwc. apply wc_op_inv in Hwc. destruct Hwc as [a' [st1 [b' [Hca [Hcb Es]]]]]. subst s.
      change (tkind p (FOp a o b)) with false in *.
      simpl in Hf, Hkd, Hws.
      apply andb_prop in Hf. destruct Hf as [Hf1 Hf2]. apply andb_prop in Hws. destruct Hws as [Hw1 Hw2].
      apply andb_prop in Hkd. destruct Hkd as [Hkd Htb]. apply andb_prop in Hkd. destruct Hkd as [Hkd Hta].
      apply andb_prop in Hkd. destruct Hkd as [Hka Hkb]. apply negb_true_iff in Hta. apply negb_true_iff in Htb.
      destruct n as [|n1]; [apply sim_zero|].
      eapply sim_fstep; [reflexivity|]. apply sim_cstep. rewrite cstep_cut_op.
      assert (Hstep : match cont with
                      | CXtor _ tag args _ => start_args cp args ce (FinXtorK tag (MCutP (is_codata cp CI64) (COp a' (op_of o) b') ce))
                      | _ => SNext (Arg (CProducer a') ce (MOpL (op_of o) b' ce (MCutK cont ce)))
                      end = SNext (Arg (CProducer a') ce (MOpL (op_of o) b' ce (MCutK cont ce)))).
      { destruct cont; simpl in Hsh; try contradiction; try discriminate Hsh; reflexivity. }
      rewrite Hstep.
      eapply (op_core N a o b Ha Hb n1 ltac:(lia) G cur st a' st1 b' st' e ce k); eauto.
      + intros z Hz. apply Hbn. simpl. apply in_or_app. left. exact Hz.
      + intros z Hz. apply Hbn. simpl. apply in_or_app. right. exact Hz.
      + eapply erel_weaken; [exact He | | lia]. apply Sof_incl. intros bb Hx. apply fvs_cut. left. exact Hx.
      + eapply Kb_mono; [eapply (CK_mcutk (S n1)); eauto | lia].
        intros bb Hbb. apply Sof_in. apply fvs_cut. right. exact Hbb.
    - intros n Hn G cur ty' st c st' e ce k m Hc Hf Hkd Hk0 Hws Hl HG Hbn Hty He HK.
      rewrite cmp_unfold in Hc. apply cmp_op_inv in Hc. destruct Hc as [a' [st1 [b' [Hca [Hcb Es]]]]]. subst c.
      simpl in Hf, Hkd, Hws.
      apply andb_prop in Hf. destruct Hf as [Hf1 Hf2]. apply andb_prop in Hws. destruct Hws as [Hw1 Hw2].
      apply andb_prop in Hkd. destruct Hkd as [Hkd Htb]. apply andb_prop in Hkd. destruct Hkd as [Hkd Hta].
      apply andb_prop in Hkd. destruct Hkd as [Hka Hkb]. apply negb_true_iff in Hta. apply negb_true_iff in Htb.
      destruct n as [|n1]; [apply sim_zero|].
      eapply sim_fstep; [reflexivity|]. apply sim_cstep. simpl.
      eapply (op_core N a o b Ha Hb n1 ltac:(lia) G cur st a' st1 b' st' e ce k); eauto.
      + intros z Hz. apply Hbn. simpl. apply in_or_app. left. exact Hz.
      + intros z Hz. apply Hbn. simpl. apply in_or_app. right. exact Hz.
      + eapply erel_weaken; [exact He | | lia]. intros x Hx. exact Hx.
      + eapply Kb_mono; [exact HK | lia].
  Qed.

  (* ---------- exit ---------- *)
  Lemma fl_exit : forall N a ty, flc p cp N a -> flw p cp N (FExit a ty).
  Proof.
    intros N a ty Ha.
    intros n Hn G cur cont st s st' e ce k Hwc Hf Hkd Hws Hl HG Hbn Hni Hsh He HCK.
    rewrite wc_unfold in Hwc. apply wc_exit_inv in Hwc. destruct Hwc as [a' [ty0 [Hca [Ety Es]]]]. subst s.
    simpl in Hf, Hkd, Hws. apply andb_prop in Hkd. destruct Hkd as [Hka Hta]. apply negb_true_iff in Hta.
    destruct n as [|n1]; [apply sim_zero|].
    eapply sim_fstep; [reflexivity|]. apply sim_cstep. simpl.
    apply (Ha n1 ltac:(lia) G cur CI64 st a' st' e ce _ _ Hca Hf Hka Hta Hws Hl HG Hbn eq_refl).
    - eapply erel_weaken; [exact He | | lia]. intros x Hx. exact Hx.
    - apply Kb_intro. intros j Hj v pv Hd Hv. rewrite (dval_interact_ret p cp j v pv _ Hd Hv).
      destruct j as [|j1]; [apply sim_zero|].
      destruct v as [x|tag args|cls0 e0|t0 e0]; try contradiction;
        [|eapply sim_stuck; reflexivity].
      apply vrel_int in Hv. subst pv. apply sim_cstep. simpl.
      assert (Hs : fstep p (FRet FkExit (FvInt x)) = FHalt (OExit x)) by reflexivity.
      exact (sim_halt p cp j1 _ _ Hs).
  Qed.

  (* ---------- parentheses ---------- *)
  Lemma fl_paren : forall N t, flw p cp N t -> flc p cp N t -> flt p cp N t ->
    flw p cp N (FParen t) /\ flc p cp N (FParen t) /\ flt p cp N (FParen t).
  Proof.
    intros N t Hw Hc Ht. split; [|split].
    - intros n Hn G cur cont st s st' e ce k Hwc Hf Hkd Hws Hl HG Hbn Hni Hsh He HCK.
      rewrite wc_unfold in Hwc. simpl in Hf, Hkd, Hws, Hbn.
      change (tkind p (FParen t)) with (tkind p t) in *.
      destruct n as [|n1]; [apply sim_zero|].
      eapply sim_fstep; [reflexivity|].
      apply (Hw n1 ltac:(lia) G cur cont st s st' e ce k Hwc Hf Hkd Hws Hl HG Hbn Hni Hsh).
      + eapply erel_weaken; [exact He | | lia]. intros x Hx. exact Hx.
      + eapply CK_transfer; [exact Hsh | exact HCK | | lia]. intros x _ Hx. split; [exact Hx | reflexivity].
    - intros n Hn G cur ty' st c st' e ce k m Hcc Hf Hkd Hk0 Hws Hl HG Hbn Hty He HK.
      rewrite cmp_unfold in Hcc. simpl in Hf, Hkd, Hws, Hbn.
      change (tkind p (FParen t)) with (tkind p t) in *.
      destruct n as [|n1]; [apply sim_zero|].
      eapply sim_fstep; [reflexivity|].
      apply (Hc n1 ltac:(lia) G cur ty' st c st' e ce k m Hcc Hf Hkd Hk0 Hws Hl HG Hbn Hty).
      + eapply erel_weaken; [exact He | | lia]. intros x Hx. exact Hx.
      + eapply Kb_mono; [exact HK | lia].
    - intros n Hn G cur ty' st c st' e ce Hcc Hf Hkd Hk1 Hws Hl HG Hbn Hty He.
      rewrite cmp_unfold in Hcc. simpl in Hf, Hkd, Hws, Hbn.
      change (tkind p (FParen t)) with (tkind p t) in *.
      destruct (Ht n Hn G cur ty' st c st' e ce Hcc Hf Hkd Hk1 Hws Hl HG Hbn Hty He) as [pv [H1 [H2 [H2' [H3 H4]]]]].
      exists pv. split; [exact H1|]. split; [exact H2|]. split; [exact H2'|]. split.
      + (* one more source step: the parenthesis *)
        apply Co_intro. intros j Hj x args args' k kv Hargs Hdf Hk.
        eapply sim_fstep; [reflexivity|].
        destruct j as [|j1]; [apply sim_zero|].
        eapply sim_fstep; [reflexivity|].
        assert (Hc1 : sim p cp (S j1) (FRet (FkDtor x args k) (FvThunk t e)) (interact_val pv (KDtor (new_id x) (args' ++ [BK kv])))).
        { apply (Co_use p cp n _ pv H3 j1 ltac:(lia)).
          - eapply brels_mono; [exact Hargs | lia].
          - exact Hdf.
          - eapply Kk_mono; [exact Hk | lia]. }
        (* FRet (FkDtor ..) (FvThunk t e) steps to FEval t e (FkDtor ..) *)
        intros out o Hr Fo. apply (Hc1 out o); [|exact Fo].
        rewrite (frun_next p j1 _ _ out (eq_refl : fstep p (FRet (FkDtor x args k) (FvThunk t e)) = FNext (FEval t e (FkDtor x args k)))).
        exact Hr.
      + intros y ty0 chi0 E. discriminate E.
  Qed.
End FLe.
