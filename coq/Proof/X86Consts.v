(* The model's config functions against the values the compiled crate computes (regenerated into
   Generated/Constants.v on every run).  A change of stack_offset, field_offset, jump_length or
   arg in config.rs that the model does not follow breaks these lemmas. *)
From Coq Require Import List ZArith NArith.
From SCC Require Import Model.Backend Model.X86 Generated.Constants.
Import ListNotations.

Lemma x86_stack_offset_samples :
  map stack_offset [0; 1; 2; 3; 4; 5; 6; 7]%N = X86C.stack_offset_samples.
Proof. reflexivity. Qed.
Lemma x86_field_offset_samples :
  map (field_offset Fst) [0; 1; 2; 3]%N = X86C.field_offset_fst /\
  map (field_offset Snd) [0; 1; 2; 3]%N = X86C.field_offset_snd.
Proof. split; reflexivity. Qed.
Lemma x86_jump_length_samples :
  map jump_length [0; 1; 2; 3; 4; 5]%N = X86C.jump_length_samples.
Proof. reflexivity. Qed.
(* the block size used by the bump allocator is the distance heap -> free set up by the prologue *)
Lemma x86_block_is_64_bytes : field_offset Fst FIELDS_PER_BLOCK = 64%Z.
Proof. reflexivity. Qed.
Lemma x86_spill_space : SPILL_SPACE = (8 * Z.of_N SPILL_NUM)%Z.
Proof. reflexivity. Qed.
