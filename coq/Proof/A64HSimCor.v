(* C07, all statement forms: corollaries of Proof/A64HSimTop.a64_codegen_simulates.
   - for runs that end with a result the argument count is right (no arity hypothesis);
   - for outputs of the linearization pass the two structural checks (`lin_check_prog`, `ann_check_prog`) are theorems
     (C05 linearize_exact; Proof/X86HAnnLin.linearize_ann - back-end independent despite the file name);
   - `heap_fits` is decided by running the instrumented machine (`fits_run`, shared with x86-64: the bound is the same). *)
From Coq Require Import List ZArith NArith String Bool Lia.
From SCC Require Import Base.Sexp Lang.AxSyn Sem.AxSem Sem.AxHeap Model.Backend Model.A64 Sem.A64Sem Sem.A64Wf
     Model.Linearize Model.LinCheck Proof.LinearizeProof Proof.SimFrag Proof.A64SimAddr Proof.A64SimTop
     Proof.X86HAnn Proof.X86HAnnLin Proof.A64HSimTop.
From SCC Require Model.Heap Proof.AxHeapTyping Proof.X86HSimTop Proof.X86HSimExample.
Import ListNotations.
Open Scope Z_scope.

Corollary a64_codegen_correct_heap p lc cs n lc' args fuel o :
  lin_check_prog p = true -> ann_check_prog p = true -> AxHeapTyping.entry_ext p = true ->
  plain_names p = true -> plain_types p = true -> lits_i64 p = true -> tags_i64 p = true ->
  a64_compile p lc = Ok (cs, n, lc') -> asm_wf cs = None -> code_small cs = true ->
  args_i64 args = true -> heap_fits p args ->
  run_linear fuel p args = o -> defined o = true ->
  exists outer inner, fst (run_a64 outer inner cs args) = o.
Proof.
  intros LIN ANN EE0 PL PLT LI TG XC WF SM AI FIT RUN D.
  assert (G : good o) by (left; unfold defined in D; destruct (snd o); try discriminate; eauto).
  eapply a64_codegen_simulates; eauto; [eapply a64_compile_arity; eauto|apply good_not_oof; exact G].
Qed.

(* the code generator applied to the output of the linearization pass *)
Corollary a64_codegen_correct_linearized a lc cs n lc' args fuel o :
  prog_ok a = true ->
  AxHeapTyping.entry_ext (linearize a) = true -> plain_names (linearize a) = true -> plain_types (linearize a) = true ->
  lits_i64 (linearize a) = true -> tags_i64 (linearize a) = true ->
  a64_compile (linearize a) lc = Ok (cs, n, lc') -> asm_wf cs = None -> code_small cs = true ->
  args_i64 args = true -> heap_fits (linearize a) args ->
  run_linear fuel (linearize a) args = o -> defined o = true ->
  exists outer inner, fst (run_a64 outer inner cs args) = o.
Proof.
  intros OK. intros. eapply a64_codegen_correct_heap; eauto using linearize_exact, linearize_ann.
Qed.

Theorem fits_run_sound fuel p args : X86HSimExample.fits_run fuel p args = true -> heap_fits p args.
Proof. intros H. apply heap_fits_x86. now apply X86HSimExample.fits_run_sound with (fuel := fuel). Qed.
