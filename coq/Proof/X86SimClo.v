(* C06, forward simulation, part 7: closures without captured variables (`create v : T = (){ clauses }`,
   `invoke v D`).  Such a closure needs no heap block: its first temporary is the null pointer and its
   second temporary the address of the code the Create statement emitted after its continuation - a jump
   table (one `jmp near` of 5 bytes per destructor) followed by the clause bodies, or the single clause.
   This file: the closure fragment, what `code_statement` emits for Create / Invoke, where the clause
   bodies sit in the image and how an indirect jump reaches them (`clo_ok`), and the two statement-level
   simulation theorems. *)
From Coq Require Import List ZArith NArith String Bool Lia FMapPositive.
From SCC Require Import Base.Sexp Lang.AxSyn Sem.AxSem Model.ParMoves Model.Backend Model.X86 Sem.X86Sem Sem.X86Wf
     Model.Linearize Model.LinCheck Generated.Constants Proof.LinBasics
     Proof.X86State Proof.X86Sel Proof.X86Exec Proof.X86ParMoves Proof.SubstGraph Proof.X86Subst
     Proof.X86SimRel Proof.X86SimStmt Proof.X86SimAddr.
From SCC Require Export Proof.SimFrag.
Import ListNotations.
Open Scope Z_scope.
Open Scope list_scope.
(* names that lived in this file before they moved to Proof/SimFrag.v (kept for qualified uses) *)
Notation is_cf_binding := SimFrag.is_cf_binding (only parsing).
Notation ctx_cf := SimFrag.ctx_cf (only parsing).
Notation is_nil := SimFrag.is_nil (only parsing).
Notation stmt_cf := SimFrag.stmt_cf (only parsing).
Notation clauses_cf := SimFrag.clauses_cf (only parsing).
Notation stmt_cf_create := SimFrag.stmt_cf_create (only parsing).
Notation split_last0 := SimFrag.split_last0 (only parsing).
Notation find_clause_pos := SimFrag.find_clause_pos (only parsing).
Notation cls_sig_length := SimFrag.cls_sig_length (only parsing).
Notation sig_match_join := SimFrag.sig_match_join (only parsing).
Notation NoDup_app_head := SimFrag.NoDup_app_head (only parsing).
Notation split_last1_inv := SimFrag.split_last1_inv (only parsing).
Notation find_clause_total := SimFrag.find_clause_total (only parsing).
Notation split_last1_app := SimFrag.split_last1_app (only parsing).

(* ---------- the fragment: integers and closures without captured variables ---------- *)
(* is_cf_binding, ctx_cf, stmt_cf, clauses_cf, stmt_cf_create: Proof/SimFrag.v *)

(* ---------- what code_statement emits ---------- *)
Section CC.
Variables (types : list tydecl) (env : ctx) (fresh : string).
Fixpoint clauses_code (l : list clause) (lc : N) {struct l} : res (list xcode * N) :=
  match l with
  | [] => Ok ([], lc)
  | (x, cx, body) :: r =>
      dor ld <- x_load env cx lc;
      let '(cl, lc1) := ld in
      dor bd <- xcs types body (cx ++ env) lc1;
      let '(cb, lc2) := bd in
      dor rs <- clauses_code r lc2;
      let '(cr, lc3) := rs in
      Ok ([LAB (fresh +++ "_" +++ show_ident x)] ++ cl ++ cb ++ cr, lc3)
  end.
End CC.

Definition table_or_nil (cls : list clause) (fresh : string) : list xcode :=
  if Nat.leb (List.length cls) 1 then [] else code_table x86_backend cls fresh.

Lemma cs_create types v t env cls next c lc code lc' :
  xcs types (Create v t (Some env) cls next) c lc = Ok (code, lc') ->
  exists rest cenv c1 lc1 tmpv c3 lc3 c5,
    Backend.split_last (List.length env) c = Ok (rest, cenv) /\
    x_store cenv rest lc = Ok (c1, lc1) /\
    xvt (rest ++ [mkb v Cns t]) (idn v) = Ok tmpv /\
    xcs types next (rest ++ [mkb v Cns t]) (lc1 + 1)%N = Ok (c3, lc3) /\
    clauses_code types cenv (type_label t (lc1 + 1)%N) cls lc3 = Ok (c5, lc') /\
    code = c1 ++ x_load_label tmpv (type_label t (lc1 + 1)%N) ++ c3 ++
           ([LAB (type_label t (lc1 + 1)%N)] ++ table_or_nil cls (type_label t (lc1 + 1)%N)) ++ c5.
Proof.
  intros H. cbn [code_statement] in H.
  destruct (Backend.split_last (List.length env) c) as [[rest cenv]|] eqn:SL; cbn [rbind] in H; [|discriminate].
  cbn [b_store x86_backend x86_backend_with] in H.
  destruct (x_store cenv rest lc) as [[c1 lc1]|] eqn:ST; cbn [rbind] in H; [|discriminate].
  destruct (xvt (rest ++ [mkb v Cns t]) (idn v)) as [tmpv|] eqn:TV; cbn [rbind] in H; [|discriminate].
  destruct (xcs types next (rest ++ [mkb v Cns t]) (lc1 + 1)%N) as [[c3 lc3]|] eqn:NX; cbn [rbind] in H; [|discriminate].
  match type of H with
  | context [rbind (?f cls lc3) _] => change (f cls lc3) with (clauses_code types cenv (type_label t (lc1 + 1)%N) cls lc3) in H
  end.
  destruct (clauses_code types cenv (type_label t (lc1 + 1)%N) cls lc3) as [[c5 lc5]|] eqn:CC; cbn [rbind] in H; [|discriminate].
  cbn in H. inversion H; subst. exists rest, cenv, c1, lc1, tmpv, c3, lc3, c5. repeat split; auto.
Qed.

Lemma cs_invoke types v tag t args c lc code lc' :
  xcs types (Invoke v tag t args) c lc = Ok (code, lc') ->
  exists tmpv d, xvt c (idn v) = Ok tmpv /\ lookup_type types t = Ok d /\ lc' = lc /\
    if Nat.leb (List.length (txtors d)) 1 then code = x_jump tmpv
    else exists k, xtor_position (txtors d) tag 0 = Ok k /\ code = x_add_and_jump tmpv (jump_length k).
Proof.
  intros H. cbn [code_statement] in H.
  destruct (xvt c (idn v)) as [tmpv|] eqn:TV; cbn [rbind] in H; [|discriminate].
  destruct (lookup_type types t) as [d|] eqn:LT; cbn [rbind] in H; [|discriminate].
  exists tmpv, d. split; [reflexivity|]. split; [reflexivity|].
  destruct (Nat.leb (List.length (txtors d)) 1).
  - cbn in H. inversion H; subst. auto.
  - destruct (xtor_position (txtors d) tag 0) as [k|] eqn:XP; cbn [rbind] in H; [|discriminate].
    cbn in H. inversion H; subst. eauto.
Qed.

(* ---------- the code of a statement of the fragment ends with an instruction of non-zero size ---------- *)
Definition ends_nz (cs : list xcode) : Prop := exists pre c, cs = pre ++ [c] /\ 0 < isize c.
Lemma ends_nz_app a b : ends_nz b -> ends_nz (a ++ b).
Proof. intros (pre & c & -> & H). exists (a ++ pre), c. split; [now rewrite app_assoc|exact H]. Qed.
Lemma ends_nz_last a c : 0 < isize c -> ends_nz (a ++ [c]).
Proof. intros H. exists a, c. auto. Qed.

Lemma clauses_ends_nz types env fresh : forall cls lc c5 lc',
  Forall (fun c => forall ct lc code lc', stmt_cf (cl_body c) = true -> xcs types (cl_body c) ct lc = Ok (code, lc') -> ends_nz code) cls ->
  cls <> [] -> clauses_cf cls = true ->
  clauses_code types env fresh cls lc = Ok (c5, lc') -> ends_nz c5.
Proof.
  induction cls as [|[[x cx] body] r IH]; intros lc c5 lc' FA NE CF H; [congruence|].
  cbn [clauses_code] in H.
  destruct (x_load env cx lc) as [[cl lc1]|] eqn:LD; cbn [rbind] in H; [|discriminate].
  destruct (xcs types body (cx ++ env) lc1) as [[cb lc2]|] eqn:BD; cbn [rbind] in H; [|discriminate].
  destruct (clauses_code types env fresh r lc2) as [[cr lc3]|] eqn:RS; cbn [rbind] in H; [|discriminate].
  inversion H; subst c5 lc'. inversion FA as [|? ? P0 FA']; subst.
  cbn [clauses_cf forallb cl_ctx cl_body fst snd] in CF. apply andb_true_iff in CF as [CF0 CF']. apply andb_true_iff in CF0 as [_ SB].
  apply (ends_nz_app [_]), ends_nz_app. destruct r as [|c' r'].
  - cbn [clauses_code] in RS. inversion RS; subst. rewrite app_nil_r. exact (P0 _ _ _ _ SB BD).
  - apply ends_nz_app. eapply IH; eauto. discriminate.
Qed.

Lemma cs_ends_nz types : forall s c lc code lc',
  stmt_cf s = true -> xcs types s c lc = Ok (code, lc') -> ends_nz code.
Proof.
  intros s. induction s using stmt_ind2; intros c lc code lc' CF CS; cbn [stmt_cf] in CF; try discriminate.
  - apply andb_true_iff in CF as [_ CF].
    destruct (cs_substitute _ _ _ _ _ _ _ CS) as (c1 & lc1 & c2 & c3 & _ & _ & NX & ->). apply ends_nz_app, ends_nz_app. eauto.
  - destruct (cs_call _ _ _ _ _ _ _ CS) as (-> & _). apply (ends_nz_last []). cbn; lia.
  - destruct (stmt_cf_create v t env cls s CF) as (-> & NE & CFc & CFn).
    destruct (cs_create _ _ _ _ _ _ _ _ _ _ CS) as (rest & cenv & c1 & lc1 & tmpv & c3 & lc3 & c5 & _ & _ & _ & _ & CC & ->).
    apply ends_nz_app, ends_nz_app, ends_nz_app, ends_nz_app. eapply clauses_ends_nz; eauto.
  - destruct (cs_invoke _ _ _ _ _ _ _ _ _ CS) as (tmpv & d & _ & _ & _ & CD).
    destruct (Nat.leb (List.length (txtors d)) 1).
    + subst code. destruct tmpv; cbn [x_jump]; [apply (ends_nz_last [])|apply (ends_nz_last [_])]; cbn; lia.
    + destruct CD as (k & _ & ->). destruct tmpv; cbn [x_add_and_jump]; [apply (ends_nz_last [_])|apply (ends_nz_last [_; _])]; cbn; lia.
  - destruct (cs_literal _ _ _ _ _ _ _ _ CS) as (tv & c2 & _ & NX & ->). apply ends_nz_app. eauto.
  - destruct (cs_op _ _ _ _ _ _ _ _ _ _ CS) as (tv & ta & tb & c2 & _ & _ & _ & NX & ->). apply ends_nz_app. eauto.
  - destruct (cs_print _ _ _ _ _ _ _ _ CS) as (tv & c2 & _ & NX & ->). apply ends_nz_app. eauto.
  - apply andb_true_iff in CF as [CF1 CF2].
    destruct (cs_ifc _ _ _ _ _ _ _ _ _ _ CS) as (ta & c1 & c2 & lc2 & c3 & _ & _ & _ & TH & ->).
    apply ends_nz_app, ends_nz_app, ends_nz_app. eauto.
  - destruct (cs_exit _ _ _ _ _ _ CS) as (tv & _ & -> & _). apply ends_nz_last. cbn; lia.
Qed.

(* where clause k sits in the clause code *)
Lemma clauses_code_nth types env fresh : forall cls lc c5 lc' k x cx body,
  clauses_code types env fresh cls lc = Ok (c5, lc') -> nth_error cls k = Some (x, cx, body) ->
  exists pre lc0 cl lc1 cb lc2 post,
    c5 = pre ++ [LAB (fresh +++ "_" +++ show_ident x)] ++ cl ++ cb ++ post /\
    x_load env cx lc0 = Ok (cl, lc1) /\ xcs types body (cx ++ env) lc1 = Ok (cb, lc2) /\ (k = O -> pre = []).
Proof.
  induction cls as [|[[x0 cx0] body0] r IH]; intros lc c5 lc' k x cx body H Hk; [destruct k; discriminate|].
  cbn [clauses_code] in H.
  destruct (x_load env cx0 lc) as [[cl lc1]|] eqn:LD; cbn [rbind] in H; [|discriminate].
  destruct (xcs types body0 (cx0 ++ env) lc1) as [[cb lc2]|] eqn:BD; cbn [rbind] in H; [|discriminate].
  destruct (clauses_code types env fresh r lc2) as [[cr lc3]|] eqn:RS; cbn [rbind] in H; [|discriminate].
  inversion H; subst c5 lc'. destruct k as [|k]; cbn [nth_error] in Hk.
  - inversion Hk; subst. exists [], lc, cl, lc1, cb, lc2, cr. auto.
  - destruct (IH _ _ _ _ _ _ _ RS Hk) as (pre & lc0 & cl' & lc1' & cb' & lc2' & post & -> & L & B & _).
    exists ([LAB (fresh +++ "_" +++ show_ident x0)] ++ cl ++ cb ++ pre), lc0, cl', lc1', cb', lc2', post.
    split; [|split; [auto|split; [auto|discriminate]]]. rewrite <- !app_assoc. reflexivity.
Qed.

(* the jump table *)
Lemma code_table_nth cls fresh k c :
  nth_error cls k = Some c -> nth_error (code_table x86_backend cls fresh) k = Some (JMPLN (fresh +++ "_" +++ show_ident (cl_xtor c))).
Proof.
  unfold code_table. cbn [b_jump_label_fixed x86_backend x86_backend_with]. revert k.
  induction cls as [|c0 r IH]; intros k H; [destruct k; discriminate|]. cbn [flat_map app].
  destruct k as [|k]; cbn [nth_error] in *; [inversion H; reflexivity|auto].
Qed.
Lemma code_table_length cls fresh : List.length (code_table x86_backend cls fresh) = List.length cls.
Proof. unfold code_table. cbn [b_jump_label_fixed x86_backend x86_backend_with]. induction cls; cbn; auto. Qed.
Lemma code_table_size cls fresh : forall k, (k <= List.length cls)%nat -> size_of (firstn k (code_table x86_backend cls fresh)) = 5 * Z.of_nat k.
Proof.
  unfold code_table. cbn [b_jump_label_fixed x86_backend x86_backend_with].
  induction cls as [|c0 r IH]; intros k H; cbn [List.length] in H.
  - destruct k; [reflexivity|lia].
  - destruct k as [|k]; [reflexivity|]. cbn [flat_map app firstn size_of isize]. rewrite IH by lia. lia.
Qed.

Lemma nh_sub_label f y : is_hash_label f = false -> is_hash_label (f +++ "_" +++ y) = false.
Proof. exact (hash_name_sub f y). Qed.
Lemma x_load_nil cx lc : x_load [] cx lc = Ok ([], lc).
Proof. reflexivity. Qed.

Lemma wrap_small_range z : 0 <= z < 4611686018427387904 + 2147483648 -> wrap z = z.
Proof. unfold wrap, two63, two64. intros H. rewrite Z.mod_small by lia. lia. Qed.

Section Clo.
Variable im : image.
Variable p : prog.
Hypothesis IMG : img_ok im.
Hypothesis SMALL : forall pc a, PM.find pc (addr_of im) = Some a -> a < 4611686018427387904.
Hypothesis ENC : forall pc c, PM.find pc (code im) = Some c -> instr_wf c = true.

(* what the second temporary of a closure variable points to: clause k of a closure whose clauses are the
   declared destructors in declaration order is entered, by an indirect jump to a (one clause) or to
   a + 5k (jump table), at the code generated for its body, with the state unchanged; the body is linearly
   well-typed in the clause context and belongs to the fragment *)
Definition clo_ok (a : Z) (tn : ident) (cls : list clause) : Prop :=
  cls_ok (sigs_of p) (Decl tn) cls = true /\ 0 <= a < 4611686018427387904 /\
  forall k c, nth_error cls k = Some c ->
    exists i pcb lcb cb lcb',
      PM.find (key (a + (if Nat.leb (List.length cls) 1 then 0 else jump_length (N.of_nat k)))) (index_at im) = Some i /\
      (forall s, exec_to im i s pcb s) /\
      xcs (ptypes p) (cl_body c) (cl_ctx c) lcb = Ok (cb, lcb') /\ code_at im pcb cb /\ labels_at_nh im pcb cb /\
      lin_check (sigs_of p) (cl_ctx c) (cl_body c) = true /\ stmt_cf (cl_body c) = true /\ ctx_cf (cl_ctx c) = true.

(* arriving at table entry k *)
Definition entry_index (pcl : positive) (k : nat) : positive := match k with O => pcl | S _ => padd pcl (1 + k) end.
Lemma table_entry pcl fresh cls R a :
  code_at im pcl ([LAB fresh] ++ code_table x86_backend cls fresh ++ R) ->
  PM.find pcl (addr_of im) = Some a -> PM.find (key a) (index_at im) = Some pcl ->
  forall k, (k < List.length cls)%nat ->
    PM.find (key (a + 5 * Z.of_nat k)) (index_at im) = Some (entry_index pcl k) /\
    forall s, exec_to im (entry_index pcl k) s (padd pcl (1 + k)) s.
Proof.
  intros CA A IX k Hk.
  set (tb := code_table x86_backend cls fresh) in *.
  assert (LT : List.length tb = List.length cls) by apply code_table_length.
  assert (NTH : forall j cj, nth_error tb j = Some cj -> nth_error ([LAB fresh] ++ tb ++ R) (1 + j) = Some cj).
  { intros j cj Ej. cbn [app Nat.add nth_error]. rewrite nth_error_app1; [exact Ej|]. apply nth_error_Some. congruence. }
  assert (ADDR : forall j, (j < List.length cls)%nat -> PM.find (padd pcl (1 + j)) (addr_of im) = Some (a + 5 * Z.of_nat j)).
  { intros j Hj. destruct (nth_error tb j) as [cj|] eqn:Ej; [|apply nth_error_None in Ej; lia].
    rewrite (addr_along im IMG _ pcl a CA A (1 + j) cj (NTH j cj Ej)).
    f_equal. cbn [app Nat.add firstn size_of isize]. rewrite firstn_app.
    replace (j - List.length tb)%nat with O by lia. cbn [firstn]. rewrite app_nil_r.
    unfold tb. rewrite code_table_size by lia. lia. }
  destruct k as [|k]; cbn [entry_index].
  - rewrite Z.mul_0_r, Z.add_0_r. split; [exact IX|]. intros s.
    apply code_at_cons in CA as [C0 _]. eapply exec_next; [exact C0|reflexivity|]. cbn [Nat.add padd]. apply exec_refl.
  - split; [|intros s; apply exec_refl].
    destruct (nth_error tb k) as [ck|] eqn:Ek; [|apply nth_error_None in Ek; lia].
    destruct (nth_error tb (S k)) as [ck'|] eqn:Ek'; [|apply nth_error_None in Ek'; lia].
    assert (CK : PM.find (padd pcl (1 + k)) (code im) = Some ck) by (apply CA, NTH, Ek).
    assert (CK' : PM.find (Pos.succ (padd pcl (1 + k))) (code im) = Some ck').
    { rewrite <- padd_succ. apply (CA (S (1 + k))). apply (NTH (S k)), Ek'. }
    assert (SZ : isize ck = 5).
    { unfold tb, code_table in Ek. cbn [b_jump_label_fixed x86_backend x86_backend_with] in Ek.
      clear -Ek. revert k Ek. induction cls as [|c0 r IH]; intros k Ek; [destruct k; discriminate|].
      cbn [flat_map app] in Ek. destruct k; cbn [nth_error] in Ek; [inversion Ek; reflexivity|eauto]. }
    pose proof (io_index im IMG _ ck ck' _ CK CK' ltac:(lia) (ADDR k ltac:(lia))) as IXk.
    rewrite SZ in IXk. replace (a + 5 * Z.of_nat (S k)) with (a + 5 * Z.of_nat k + 5) by lia.
    rewrite IXk. f_equal. rewrite <- padd_succ. reflexivity.
Qed.

(* the closure code a Create statement emits establishes clo_ok for the address of its label *)
Lemma create_layout pc P fresh tn cls c5 lc3 lc5 :
  code_at im pc (P ++ ([LAB fresh] ++ table_or_nil cls fresh) ++ c5) ->
  labels_at_nh im pc (P ++ ([LAB fresh] ++ table_or_nil cls fresh) ++ c5) ->
  ends_nz P -> is_hash_label fresh = false ->
  clauses_code (ptypes p) [] fresh cls lc3 = Ok (c5, lc5) ->
  cls <> [] -> cls_ok (sigs_of p) (Decl tn) cls = true ->
  (forall c, In c cls -> lin_check (sigs_of p) (cl_ctx c) (cl_body c) = true /\ stmt_cf (cl_body c) = true /\ ctx_cf (cl_ctx c) = true) ->
  exists a, label_addr im fresh = Some a /\ clo_ok a tn cls.
Proof.
  intros CA LA (pre & cz & -> & SZ) NH CC NE CO ST.
  (* the label, its address, and the way back from the address *)
  rewrite <- !app_assoc in CA, LA. cbn [app] in CA, LA.
  pose proof CA as CA'. apply code_at_app in CA' as [_ CAz]. apply code_at_cons in CAz as [CZ CAl].
  set (pcz := padd pc (List.length pre)) in *. set (pcl := Pos.succ pcz) in *.
  pose proof CAl as CAl'. apply code_at_cons in CAl' as [CL CAt].
  destruct (io_addr im IMG pcz cz CZ) as (az & AZ & _).
  pose proof (io_next im IMG pcz cz _ az CZ CL AZ) as AL.
  pose proof (io_index im IMG pcz cz _ az CZ CL SZ AZ) as IX. fold pcl in AL, IX.
  set (a := az + isize cz) in *.
  assert (PCL : padd pc (List.length pre + 1) = pcl) by (unfold pcl, pcz; rewrite padd_add; reflexivity).
  assert (FL : find_label (labels im) fresh = Some pcl).
  { rewrite (LA (List.length pre + 1)%nat fresh); [now rewrite PCL| |exact NH].
    rewrite nth_error_app2 by lia. replace (_ + 1 - _)%nat with 1%nat by lia. reflexivity. }
  exists a. split; [exact (label_addr_at im fresh pcl a FL AL)|].
  split; [exact CO|]. split.
  { split; [|exact (SMALL pcl a AL)]. destruct (io_addr im IMG pcl _ CL) as (a' & A' & GE). unfold CODE_BASE in GE. assert (a' = a) by congruence. lia. }
  intros k c Hk.
  destruct c as [[x cx] body].
  destruct (clauses_code_nth _ _ _ _ _ _ _ k x cx body CC Hk) as (pre5 & lc0 & cl & lc1 & cb & lc2 & post5 & E5 & LD & BD & PRE0).
  rewrite x_load_nil in LD. inversion LD; subst cl lc1. rewrite app_nil_r in BD. cbn [app] in E5.
  destruct (ST _ (nth_error_In _ _ Hk)) as (S1 & S2 & S3). cbn [cl_ctx cl_body fst snd] in *.
  assert (Lk : (k < List.length cls)%nat) by (apply nth_error_Some; congruence).
  (* position of the clause label and of the body *)
  set (tb := table_or_nil cls fresh) in *.
  set (lx := fresh +++ "_" +++ show_ident x) in *.
  assert (CODE : code_at im pcl ([LAB fresh] ++ tb ++ pre5 ++ [LAB lx] ++ cb ++ post5)).
  { rewrite E5 in CAl. exact CAl. }
  assert (LABS : labels_at_nh im pcl ([LAB fresh] ++ tb ++ pre5 ++ [LAB lx] ++ cb ++ post5)).
  { apply labels_at_nh_app in LA as [_ LA]. change (cz :: LAB fresh :: ?r) with ([cz] ++ LAB fresh :: r) in LA.
    apply labels_at_nh_app in LA as [_ LA]. cbn [List.length] in LA. rewrite <- padd_add, PCL in LA.
    rewrite E5 in LA. exact LA. }
  set (jl := (1 + List.length tb + List.length pre5)%nat).
  assert (NL : nth_error ([LAB fresh] ++ tb ++ pre5 ++ [LAB lx] ++ cb ++ post5) jl = Some (LAB lx)).
  { unfold jl. cbn [app Nat.add nth_error]. rewrite nth_error_app2 by lia. rewrite nth_error_app2 by lia.
    replace (_ - _ - _)%nat with O by lia. reflexivity. }
  pose proof (code_at_nth im pcl _ jl _ CODE NL) as CLx.
  pose proof (LABS jl _ NL (nh_sub_label fresh (show_ident x) NH)) as FLx.
  assert (CB : code_at im (padd pcl (S jl)) cb /\ labels_at_nh im (padd pcl (S jl)) cb).
  { pose proof CODE as CODE'. pose proof LABS as LABS'.
    replace ([LAB fresh] ++ tb ++ pre5 ++ [LAB lx] ++ cb ++ post5)
      with (([LAB fresh] ++ tb ++ pre5 ++ [LAB lx]) ++ cb ++ post5) in CODE', LABS'
      by (rewrite <- !app_assoc; reflexivity).
    apply code_at_app in CODE' as [_ CODE']. apply code_at_app in CODE' as [CODE' _].
    apply labels_at_nh_app in LABS' as [_ LABS']. apply labels_at_nh_app in LABS' as [LABS' _].
    replace (List.length ([LAB fresh] ++ tb ++ pre5 ++ [LAB lx])) with (S jl) in CODE', LABS'
      by (unfold jl; rewrite !app_length; cbn [List.length]; lia).
    auto. }
  destruct CB as [CB LB].
  (* from the clause label into the body *)
  assert (INTO : forall s, exec_to im (padd pcl jl) s (padd pcl (S jl)) s).
  { intros s. eapply exec_next; [exact CLx|reflexivity|]. rewrite <- padd_succ. apply exec_refl. }
  destruct (Nat.leb (List.length cls) 1) eqn:LE.
  - (* a single clause, no table: the label of the closure is followed by the label of the clause *)
    exists pcl, (padd pcl (S jl)), lc0, cb, lc2.
    split; [rewrite Z.add_0_r; exact IX|]. split; [|repeat split; auto].
    assert (TB : table_or_nil cls fresh = []) by (unfold table_or_nil; now rewrite LE).
    assert (K0 : k = O) by (apply Nat.leb_le in LE; lia). subst k.
    assert (P5 : pre5 = []) by (apply PRE0; reflexivity).
    intros s. assert (J1 : jl = 1%nat) by (unfold jl, tb; rewrite TB, P5; reflexivity).
    apply code_at_cons in CODE as [C0 _]. eapply exec_next; [exact C0|reflexivity|].
    specialize (INTO s). rewrite J1 in INTO. cbn [padd] in INTO. rewrite J1. cbn [padd]. exact INTO.
  - (* the jump table *)
    assert (TB : tb = code_table x86_backend cls fresh) by (unfold tb, table_or_nil; now rewrite LE).
    rewrite TB in CODE.
    destruct (table_entry pcl fresh cls _ a CODE AL IX k Lk) as (IXk & ARR).
    exists (entry_index pcl k), (padd pcl (S jl)), lc0, cb, lc2.
    split; [unfold jump_length; rewrite nat_N_Z; exact IXk|]. split; [|repeat split; auto].
    intros s. eapply exec_to_trans; [apply ARR|].
    assert (CJ : PM.find (padd pcl (1 + k)) (code im) = Some (JMPLN lx)).
    { apply CODE. cbn [app Nat.add nth_error]. rewrite nth_error_app1 by (rewrite code_table_length; lia).
      apply (code_table_nth cls fresh k (x, cx, body) Hk). }
    eapply exec_jump; [exact CJ|cbn [step]; unfold goto_label; rewrite FLx; reflexivity|]. apply INTO.
Qed.

Local Notation rel := (rel clo_ok).

(* ---------- Create ---------- *)
Lemma local_load_label t l : lok t = true -> local_code (x_load_label t l) = true.
Proof.
  intros H. destruct t as [r|q]; cbn [x_load_label local_code forallb local_instr lok] in *.
  - now rewrite H.
  - change STACK with 0%N. change TEMP with 1%N. cbn [nz N.eqb negb andb]. now rewrite H.
Qed.
Lemma load_label_ok s sp t l a :
  frame_ok s sp -> loc_ok t -> t <> XR TEMP -> label_addr im l = Some a ->
  exists s', exec_straight im (x_load_label t l) s = Some s' /\ lget s' sp t = Some a /\ preserved s s' sp t.
Proof.
  intros F T NT LA. assert (SP : sp_ok sp) by apply F.
  unfold x_load_label. destruct t as [tr|tp]; cbn [loc_ok] in T.
  - cbn [exec_straight step]. rewrite LA. eexists; split; [reflexivity|]. split; [rd; reflexivity|pres].
  - cbn [exec_straight]. change (step im (LEAL TEMP l) s) with (match label_addr im l with Some t => Next (rset s TEMP (Some t)) | None => Fault ("undefined-label " ++ l)%string s end).
    rewrite LA. cbv iota beta. rewrite (step_MOVS_slot im _ sp) by (frame || exact T).
    eexists; split; [reflexivity|]. split; [rd; reflexivity|pres].
Qed.

Lemma x_store_nil c lc : x_store [] c lc = dor t <- x_fresh Fst c; Ok (x_load_immediate t 0, lc).
Proof. reflexivity. Qed.

Theorem sim_create c e s sp v tn cls next lc code lc' pc :
  rel c e s sp -> NoDup (ids (c ++ [mkb v Cns (Decl tn)])) ->
  xcs (ptypes p) (Create v (Decl tn) (Some []) cls next) c lc = Ok (code, lc') ->
  code_at im pc code -> labels_at_nh im pc code ->
  is_hash_label (type_label (Decl tn) (lc + 1)%N) = false ->
  cls <> [] -> stmt_cf next = true -> cls_ok (sigs_of p) (Decl tn) cls = true ->
  (forall cl, In cl cls -> lin_check (sigs_of p) (cl_ctx cl) (cl_body cl) = true /\ stmt_cf (cl_body cl) = true /\ ctx_cf (cl_ctx cl) = true) ->
  exists c12 c3 lc3 rest s',
    code = c12 ++ c3 ++ rest /\
    xcs (ptypes p) next (c ++ [mkb v Cns (Decl tn)]) (lc + 1)%N = Ok (c3, lc3) /\
    exec_straight im c12 s = Some s' /\
    rel (c ++ [mkb v Cns (Decl tn)]) (e ++ [(v, VClo tn cls [])]) s' sp /\ frame_eq s s' sp.
Proof.
  intros R ND CS CA LA NH NE CFn CO ST.
  destruct (cs_create _ _ _ _ _ _ _ _ _ _ CS) as (rest & cenv & c1 & lc1 & tmpv & c3 & lc3 & c5 & SL & STO & TV & NX & CC & ->).
  cbn [List.length] in SL. rewrite split_last0 in SL. inversion SL; subst rest cenv. clear SL.
  rewrite x_store_nil in STO. destruct (x_fresh Fst c) as [t1|] eqn:T1; cbn [rbind] in STO; [|discriminate].
  inversion STO; subst c1 lc1. clear STO.
  assert (T1' : xtpos Fst (List.length c) = Ok t1) by exact T1.
  assert (T2 : xtpos Snd (List.length c) = Ok tmpv).
  { rewrite <- TV. symmetry. change (idn v) with (idn (bvar (mkb v Cns (Decl tn)))). apply vt_tpos; auto. apply nth_error_mid. }
  set (fresh := type_label (Decl tn) (lc + 1)%N) in *.
  (* the closure's code *)
  destruct (create_layout pc (x_load_immediate t1 0 ++ x_load_label tmpv fresh ++ c3) fresh tn cls c5 lc3 lc') as (a & LAD & CLO); auto.
  { rewrite <- !app_assoc. exact CA. }
  { rewrite <- !app_assoc. exact LA. }
  { apply ends_nz_app, ends_nz_app. eapply cs_ends_nz; eauto. }
  (* the two instructions sequences *)
  pose proof (rel_frame R) as F.
  destruct (xtpos_ok _ _ _ T1') as (L1 & N1 & _ & NF1 & _). destruct (xtpos_ok _ _ _ T2) as (L2 & N2 & _ & NF2 & _).
  destruct (x86_load_immediate_ok im s sp t1 0 F L1 N1) as (s1 & E1 & V1 & P1).
  destruct P1 as (PR1 & _ & _ & F1).
  destruct (load_label_ok s1 sp tmpv fresh a F1 L2 N2 LAD) as (s2 & E2 & V2 & P2).
  destruct P2 as (PR2 & _ & _ & F2).
  assert (NE12 : t1 <> tmpv).
  { intros E; subst. destruct (tpos_inj x86_backend x86_backend_ok _ _ _ _ _ T1' T2) as [X _]. discriminate. }
  exists (x_load_immediate t1 0 ++ x_load_label tmpv fresh), c3, lc3, (([LAB fresh] ++ table_or_nil cls fresh) ++ c5), s2.
  split; [rewrite <- !app_assoc; reflexivity|]. split; [exact NX|].
  split; [rewrite exec_straight_app, E1; exact E2|].
  assert (KEEP : forall l, loc_ok l -> l <> XR TEMP -> l <> t1 -> l <> tmpv -> lget s2 sp l = lget s sp l).
  { intros l Ll Nl A1 A2. rewrite PR2 by auto. apply PR1; auto. }
  split.
  - pose proof (rel_length R) as LEN. destruct R as [F0 Al Ro Fr Ids ND0 Vals]. split; auto.
    + destruct Fr as (f & Fr). exists f. rewrite <- Fr. apply (KEEP (XR FREE)); [cbn; discriminate|discriminate|congruence|congruence].
    + unfold env_ids, ids in *. rewrite !map_app, Ids. reflexivity.
    + intros i x w Hn. destruct (Nat.lt_ge_cases i (List.length e)) as [L|L].
      * rewrite nth_error_app1 in Hn by exact L. destruct (Vals i x w Hn) as (b & Hb & V).
        exists b. split; [rewrite nth_error_app1 by lia; exact Hb|].
        eapply vrep_keep; [|exact V]. intros n t0 _ T0.
        destruct (xtpos_ok _ _ _ T0) as (A & B & _). apply KEEP; auto.
        -- intros E; subst t0. destruct (tpos_inj x86_backend x86_backend_ok _ _ _ _ _ T0 T1') as [_ E]. lia.
        -- intros E; subst t0. destruct (tpos_inj x86_backend x86_backend_ok _ _ _ _ _ T0 T2) as [_ E]. lia.
      * rewrite nth_error_app2 in Hn by exact L. destruct (i - List.length e)%nat as [|k] eqn:K; cbn in Hn; [|destruct k; discriminate].
        inversion Hn; subst. exists (mkb x Cns (Decl tn)). split.
        -- rewrite nth_error_app2 by lia. replace (i - List.length c)%nat with O by lia. reflexivity.
        -- replace i with (List.length c) by lia.
           apply (vrep_clo clo_ok s2 sp (List.length c) (mkb x Cns (Decl tn)) tn cls a t1 tmpv); auto.
           rewrite PR2; auto.
  - assert (LC : local_code (x_load_immediate t1 0 ++ x_load_label tmpv fresh) = true).
    { rewrite local_code_app, local_load_immediate, local_load_label by (apply loc_ok_lok; assumption). reflexivity. }
    eapply exec_straight_local; [exact LC|exact F|]. rewrite exec_straight_app, E1. exact E2.
Qed.


(* ---------- Invoke ---------- *)
(* find_clause_pos, cls_sig_length, sig_match_join, NoDup_app_head, split_last1_inv/_app, find_clause_total: Proof/SimFrag.v *)
Lemma rel_prefix c0 b e0 ev s sp : rel (c0 ++ [b]) (e0 ++ [ev]) s sp -> rel c0 e0 s sp.
Proof.
  intros R. pose proof (rel_length R) as LEN. rewrite !app_length in LEN. cbn [List.length] in LEN.
  destruct R as [F Al Ro Fr Ids ND Vals]. split; auto.
  - unfold env_ids, ids in *. rewrite !map_app in Ids. cbn [map] in Ids. apply app_inj_tail in Ids. tauto.
  - unfold ids in *. rewrite map_app in ND. eapply NoDup_app_head; eauto.
  - intros i x v Hi. assert (Li : (i < List.length e0)%nat) by (apply nth_error_Some; congruence).
    destruct (Vals i x v) as (b' & Hb' & V); [rewrite nth_error_app1 by exact Li; exact Hi|].
    exists b'. split; [|exact V]. rewrite nth_error_app1 in Hb' by lia. exact Hb'.
Qed.

Theorem sim_invoke c e s sp v tag t args code lc lc' pc e0 x tn cls ce cl e1 :
  rel c e s sp ->
  AxSem.split_last 1 e = Some (e0, [(x, VClo tn cls ce)]) -> N.eqb (idn x) (idn v) = true ->
  find_clause cls tag = Some cl -> bind (vars (cl_ctx cl)) (map snd e0) = Some e1 ->
  lin_check (sigs_of p) c (Invoke v tag t args) = true ->
  xcs (ptypes p) (Invoke v tag t args) c lc = Ok (code, lc') -> code_at im pc code ->
  exists pcb lcb cb lcb' s',
    exec_to im pc s pcb s' /\
    xcs (ptypes p) (cl_body cl) (cl_ctx cl) lcb = Ok (cb, lcb') /\ code_at im pcb cb /\ labels_at_nh im pcb cb /\
    lin_check (sigs_of p) (cl_ctx cl) (cl_body cl) = true /\ stmt_cf (cl_body cl) = true /\ ctx_cf (cl_ctx cl) = true /\
    rel (cl_ctx cl) (e1 ++ ce) s' sp /\ frame_eq s s' sp.
Proof.
  intros R SL IDX FC BD LC CS CA.
  apply split_last1_inv in SL. subst e.
  pose proof (rel_length R) as LEN. rewrite app_length in LEN. cbn [List.length] in LEN.
  (* the typing side: the context ends with the closure variable *)
  cbn [lin_check] in LC. apply andb_true_iff in LC as [_ LC].
  destruct (split_lastn 1 c) as [[c0 [|b [|b' r]]]|] eqn:SLc; try discriminate.
  apply split_lastn_Some in SLc as [-> _].
  apply andb_true_iff in LC as [LC AO]. apply andb_true_iff in LC as [LC TY]. apply andb_true_iff in LC as [IDb CH].
  apply N.eqb_eq in IDb. apply ty_eqb_eq in TY. apply chi_eqb_eq in CH.
  assert (L0 : List.length e0 = List.length c0) by (rewrite app_length in LEN; cbn [List.length] in LEN; lia).
  (* the closure's representation *)
  destruct (rel_vals R (List.length e0) x (VClo tn cls ce)) as (b0 & Hb0 & V); [apply nth_error_mid|].
  rewrite L0, nth_error_mid in Hb0. inversion Hb0; subst b0. clear Hb0.
  inversion V as [|b1 tn1 cls1 a t1 t2 K1 K2 T1 T2 V1 V2 CLO]; subst. clear V.
  destruct CLO as (CO & AB & ENTRY).
  (* the temporary the generator jumps through *)
  destruct (cs_invoke _ _ _ _ _ _ _ _ _ CS) as (tmpv & d & TV & LT & _ & CODE).
  assert (TVeq : tmpv = t2).
  { rewrite <- IDb in TV. rewrite (vt_of_nth0 (c0 ++ [b]) (List.length c0) b (rel_nodup R) (nth_error_mid _ _ _)) in TV.
    rewrite L0 in T2. congruence. }
  subst tmpv.
  (* the declaration and the position of the clause *)
  rewrite K2 in *. unfold cls_ok, type_xtors in CO. cbn [sigs_of sg_types] in CO.
  unfold lookup_type in LT.
  destruct (find (fun d => ident_eqb (tname d) tn) (ptypes p)) as [d'|] eqn:FD; [|discriminate]. inversion LT; subst d'. clear LT.
  destruct (find_clause_pos cls (txtors d) tag cl 0%N CO FC) as (k & xk & Hk & Hxk & XP & FX & SMk).
  pose proof (cls_sig_length _ _ CO) as LCL.
  destruct (ENTRY k cl Hk) as (i & pcb & lcb & cb & lcb' & IX & ARR & CSb & CAb & LAb & LCb & CFb & CXb).
  (* the new environment *)
  pose proof (rel_frame R) as F.
  assert (T2' : xtpos Snd (List.length c0) = Ok t2) by (rewrite <- L0; exact T2).
  destruct (xtpos_ok _ _ _ T2') as (Lt2 & Nt2 & _ & NFt2 & _).
  assert (R1 : forall s', frame_ok s' sp -> rget s' FREE = rget s FREE ->
             (forall l, loc_ok l -> l <> XR TEMP -> l <> t2 -> lget s' sp l = lget s sp l) ->
             rel (cl_ctx cl) (e1 ++ []) s' sp).
  { intros s' F' FR' KEEP. rewrite app_nil_r.
    assert (R0 : rel c0 e0 s' sp).
    { apply (rel_keep clo_ok c0 e0 s s' sp (rel_prefix c0 b e0 _ s sp R) F' FR'). intros j bj n tj Hj AL Tj.
      destruct (xtpos_ok _ _ _ Tj) as (A & B & _). apply KEEP; auto.
      intros E; subst tj. assert (Lj : (j < List.length c0)%nat) by (apply nth_error_Some; congruence).
      destruct (tpos_inj x86_backend x86_backend_ok _ _ _ _ _ Tj T2') as [_ E]. lia. }
    eapply (bind_rel clo_ok c0 e0 s' sp); eauto.
    - eapply lin_nodup; eauto.
    - unfold args_ok, lookup_xtor, type_xtors in AO. cbn [sigs_of sg_types] in AO. rewrite FD, FX in AO.
      eapply sig_match_join; eauto. }
  (* the jump *)
  assert (GO : forall rj s1 off, rget s1 rj = Some (a + off) ->
             off = (if Nat.leb (List.length cls) 1 then 0 else jump_length (N.of_nat k)) ->
             step im (JMP rj) s1 = Jump s1 i).
  { intros rj s1 off RG ->. cbn [step]. unfold need. rewrite RG. unfold goto_addr. now rewrite IX. }
  exists pcb, lcb, cb, lcb'.
  assert (FIN : forall s', exec_to im pc s pcb s' -> rel (cl_ctx cl) (e1 ++ []) s' sp -> frame_eq s s' sp ->
           exists s'0, exec_to im pc s pcb s'0 /\
             xcs (ptypes p) (cl_body cl) (cl_ctx cl) lcb = Ok (cb, lcb') /\ code_at im pcb cb /\ labels_at_nh im pcb cb /\
             lin_check (sigs_of p) (cl_ctx cl) (cl_body cl) = true /\ stmt_cf (cl_body cl) = true /\ ctx_cf (cl_ctx cl) = true /\
             rel (cl_ctx cl) (e1 ++ []) s'0 sp /\ frame_eq s s'0 sp).
  { intros s' X RR FE. exists s'. tauto. }
  rewrite <- LCL in CODE. destruct (Nat.leb (List.length cls) 1) eqn:LE.
  - (* one destructor: jump through the temporary *)
    subst code. destruct t2 as [r|q]; cbn [x_jump lget loc_ok] in *.
    + apply code_at_cons in CA as [CJ _]. apply (FIN s).
      * eapply exec_jump; [exact CJ|apply (GO r s 0); [rewrite Z.add_0_r; exact V2|reflexivity]|apply ARR].
      * apply R1; auto.
      * apply frame_eq_refl.
    + apply code_at_cons in CA as [C0 CA]. apply code_at_cons in CA as [CJ _].
      apply (FIN (rset s TEMP (Some a))).
      * eapply exec_next; [exact C0|rewrite (step_MOVL_slot im s sp F) by exact Lt2; rewrite V2; reflexivity|].
        eapply exec_jump; [exact CJ|apply (GO TEMP _ 0); [rewrite Z.add_0_r; apply rget_rset_same|reflexivity]|apply ARR].
      * apply R1; [apply frame_ok_rset; [discriminate|exact F]|apply rget_rset_other; discriminate|].
        intros l Ll Nl _. apply (lget_lset_other s sp (XR TEMP) l); [apply F|cbn; discriminate|exact Ll|congruence].
      * apply frame_eq_rset.
  - (* several destructors: add the table offset, then jump *)
    destruct CODE as (k' & XP' & ->). assert (k' = N.of_nat k) by (rewrite XP in XP'; inversion XP'; lia). subst k'.
    set (off := jump_length (N.of_nat k)) in *.
    assert (OFF : 0 <= off) by (unfold off, jump_length; lia).
    destruct t2 as [r|q]; cbn [x_add_and_jump lget loc_ok] in *.
    + apply code_at_cons in CA as [C0 CA]. apply code_at_cons in CA as [CJ _].
      pose proof (ENC _ _ C0) as W. cbn [instr_wf] in W. apply andb_true_iff in W as [_ FI].
      assert (FI' : off < 2147483648) by (unfold fits32 in FI; lia).
      set (s1 := set_flags (rset s r (Some (a + off))) None).
      assert (ST : step im (ADDI r off) s = Next s1).
      { cbn [step]. rewrite FI. unfold need. rewrite V2. rewrite wrap_small_range by lia. reflexivity. }
      apply (FIN s1).
      * eapply exec_next; [exact C0|exact ST|].
        eapply exec_jump; [exact CJ|apply (GO r s1 off); [unfold s1; rewrite rget_set_flags; apply rget_rset_same|reflexivity]|apply ARR].
      * apply R1; [unfold s1; apply frame_ok_set_flags, frame_ok_rset; auto|unfold s1; rewrite rget_set_flags; apply rget_rset_other; congruence|].
        intros l Ll Nl N2. unfold s1. rewrite lget_set_flags. apply (lget_lset_other s sp (XR r) l); [apply F|exact Lt2|exact Ll|congruence].
      * unfold s1. eapply frame_eq_trans; [apply frame_eq_rset|apply frame_eq_set_flags].
    + apply code_at_cons in CA as [C0 CA]. apply code_at_cons in CA as [C1 CA]. apply code_at_cons in CA as [CJ _].
      pose proof (ENC _ _ C1) as W. cbn [instr_wf] in W. apply andb_true_iff in W as [_ FI].
      assert (FI' : off < 2147483648) by (unfold fits32 in FI; lia).
      set (s0 := rset s TEMP (Some a)). set (s1 := set_flags (rset s0 TEMP (Some (a + off))) None).
      assert (ST : step im (ADDI TEMP off) s0 = Next s1).
      { cbn [step]. rewrite FI. unfold need. unfold s0 at 1. rewrite rget_rset_same. rewrite wrap_small_range by lia. reflexivity. }
      apply (FIN s1).
      * eapply exec_next; [exact C0|rewrite (step_MOVL_slot im s sp F) by exact Lt2; rewrite V2; reflexivity|].
        eapply exec_next; [exact C1|exact ST|].
        eapply exec_jump; [exact CJ|apply (GO TEMP s1 off); [unfold s1; rewrite rget_set_flags; apply rget_rset_same|reflexivity]|apply ARR].
      * apply R1.
        -- unfold s1, s0. apply frame_ok_set_flags, frame_ok_rset; [discriminate|]. apply frame_ok_rset; [discriminate|exact F].
        -- unfold s1, s0. rewrite rget_set_flags. rewrite !rget_rset_other by discriminate. reflexivity.
        -- intros l Ll Nl _. unfold s1, s0. rewrite lget_set_flags.
           change (rset (rset s TEMP (Some a)) TEMP (Some (a + off))) with (lset (lset s sp (XR TEMP) (Some a)) sp (XR TEMP) (Some (a + off))).
           rewrite !lget_lset_other; [reflexivity|apply F|cbn; discriminate|exact Ll|congruence|apply F|cbn; discriminate|exact Ll|congruence].
      * unfold s1, s0. eapply frame_eq_trans; [apply frame_eq_rset|]. eapply frame_eq_trans; [apply frame_eq_rset|apply frame_eq_set_flags].
Qed.


(* progress at Invoke: under the relation a linearly well-typed invoke finds its closure, its clause and
   its arguments *)
Lemma invoke_progress c e s sp v tag t args :
  rel c e s sp -> lin_check (sigs_of p) c (Invoke v tag t args) = true ->
  exists e0 x tn cls cl e1,
    AxSem.split_last 1 e = Some (e0, [(x, VClo tn cls [])]) /\ N.eqb (idn x) (idn v) = true /\
    find_clause cls tag = Some cl /\ bind (vars (cl_ctx cl)) (map snd e0) = Some e1.
Proof.
  intros R LC. pose proof (rel_length R) as LEN.
  cbn [lin_check] in LC. apply andb_true_iff in LC as [_ LC].
  destruct (split_lastn 1 c) as [[c0 [|b [|b' r]]]|] eqn:SLc; try discriminate.
  apply split_lastn_Some in SLc as [-> _].
  apply andb_true_iff in LC as [LC AO]. apply andb_true_iff in LC as [LC TY]. apply andb_true_iff in LC as [IDb CH].
  apply N.eqb_eq in IDb. apply ty_eqb_eq in TY. apply chi_eqb_eq in CH.
  rewrite app_length in LEN. cbn [List.length] in LEN.
  (* the environment ends with the closure *)
  destruct (exists_last (l := e)) as (e0 & [x val] & ->); [intros ->; cbn in LEN; lia|].
  rewrite app_length in LEN. cbn [List.length] in LEN.
  assert (L0 : List.length e0 = List.length c0) by lia.
  destruct (rel_vals R (List.length e0) x val) as (b0 & Hb0 & V); [apply nth_error_mid|].
  rewrite L0, nth_error_mid in Hb0. inversion Hb0; subst b0. clear Hb0.
  inversion V as [? z ? K1 ?|b1 tn cls a t1 t2 K1 K2 T1 T2 V1 V2 CLO]; subst; [congruence|]. clear V.
  destruct CLO as (CO & _ & ENTRY).
  assert (IDX : idn x = idn v).
  { pose proof (rel_ids R) as Ids. unfold env_ids, ids in Ids. rewrite !map_app in Ids. cbn [map fst] in Ids.
    apply app_inj_tail in Ids as [_ E]. congruence. }
  rewrite K2 in *. unfold cls_ok, type_xtors in CO. cbn [sigs_of sg_types] in CO.
  unfold args_ok, lookup_xtor, type_xtors in AO. cbn [sigs_of sg_types] in AO.
  destruct (find (fun d => ident_eqb (tname d) tn) (ptypes p)) as [d|] eqn:FD; [|discriminate].
  destruct (find (fun x => ident_eqb (xname x) tag) (txtors d)) as [xk|] eqn:FX; [|discriminate].
  destruct (find_clause_total cls (txtors d) tag xk CO FX) as (cl & FC).
  destruct (find_clause_pos cls (txtors d) tag cl 0%N CO FC) as (k & xk' & Hk & Hxk & XP & FX' & SMk).
  assert (xk' = xk) by congruence. subst xk'.
  destruct (bind_total (vars (cl_ctx cl)) (map snd e0)) as (e1 & BD).
  { apply sig_match_iff, same_kt_length in AO. apply sig_match_iff, same_kt_length in SMk. unfold vars. rewrite !map_length. lia. }
  exists e0, x, tn, cls, cl, e1. split; [apply split_last1_app|]. split; [apply N.eqb_eq; exact IDX|]. auto.
Qed.

End Clo.
