(* C13 on AArch64, the arithmetic part: the code around the print runtime and the routine
   prologue/epilogue of the model of axcut2aarch64 (Model/A64.v: a_print,
   save/restore_caller_save_registers, caller_save_registers_info, setup, cleanup), for EVERY
   context (any number of variables of any kinds).  Mirrors Proof/X86Wf.v (C13 part).

   Register numbers are the INTERNAL ones: 0..17 = X0..X17 (caller-saved under AAPCS64),
   18..28 = X19..X29 (callee-saved), 29 = X30 (link register).

   [sp_delta cs] is the net change of SP caused by a straight-line instruction list; [sp_safe d cs]
   walks the list with the running displacement d of SP from its value in the routine body and
   demands d = 0 (mod 16) at every BL and at every SP-relative access (the hardware alignment check
   and the AAPCS64 rule at calls), and that no instruction writes SP other than the four tracked
   forms (SUB/ADD SP, SP, #i; STP pre-index / LDP post-index on SP). *)
From Coq Require Import List ZArith NArith String Bool Lia.
From SCC Require Import Base.Sexp Lang.AxSyn Model.Backend Model.A64 Generated.Constants.
Import ListNotations.
Open Scope Z_scope.

(* ---------- SP bookkeeping ---------- *)
Definition sp_delta1 (c : acode) : Z :=
  match c with
  | SUBI SP SP i => - i
  | ADDI SP SP i => i
  | STP_PRE_INDEX _ _ SP i => i
  | LDP_POST_INDEX _ _ SP i => i
  | _ => 0
  end.
Definition sp_delta (cs : list acode) : Z := fold_right (fun c acc => sp_delta1 c + acc) 0 cs.

Definition is_sp (r : areg) : bool := match r with SP => true | _ => false end.
(* the registers an instruction writes *)
Definition writes (c : acode) : list areg :=
  match c with
  | ADD d _ _ | ADDI d _ _ | SUB d _ _ | SUBI d _ _ | MUL d _ _ | SDIV d _ _ | MSUB d _ _ _ => [d]
  | ADR d _ | MOVR d _ | MOVZ d _ _ | MOVN d _ _ | MOVK d _ _ | LDR d _ _ => [d]
  | LDP_POST_INDEX d1 d2 b _ => [d1; d2; b]
  | STP_PRE_INDEX _ _ b _ => [b]
  | _ => []
  end.
(* SP is written only by the forms whose effect sp_delta1 accounts for *)
Definition sp_tracked (c : acode) : bool :=
  match c with
  | SUBI SP SP _ | ADDI SP SP _ => true
  | STP_PRE_INDEX a b SP _ | LDP_POST_INDEX a b SP _ => negb (is_sp a) && negb (is_sp b)
  | _ => negb (existsb is_sp (writes c))
  end.
(* instructions at which SP must be 16-byte aligned: calls, and loads/stores with SP as base *)
Definition sp_sensitive (c : acode) : bool :=
  match c with
  | BL _ => true
  | LDR _ SP _ | STR _ SP _ | STP_PRE_INDEX _ _ SP _ | LDP_POST_INDEX _ _ SP _ => true
  | _ => false
  end.
Fixpoint sp_safe (d : Z) (cs : list acode) : Prop :=
  match cs with
  | [] => True
  | c :: r => (sp_sensitive c = true -> d mod 16 = 0) /\ sp_tracked c = true /\ sp_safe (d + sp_delta1 c) r
  end.

Lemma sp_delta_cons c l : sp_delta (c :: l) = sp_delta1 c + sp_delta l.
Proof. reflexivity. Qed.
Lemma sp_delta_app a b : sp_delta (a ++ b) = sp_delta a + sp_delta b.
Proof.
  induction a as [|c a IH]; [reflexivity|].
  change ((c :: a) ++ b)%list with (c :: (a ++ b))%list. rewrite !sp_delta_cons, IH. lia.
Qed.
Lemma sp_safe_app d a b : sp_safe d (a ++ b) <-> sp_safe d a /\ sp_safe (d + sp_delta a) b.
Proof.
  revert d; induction a as [|c a IH]; intros d.
  - cbn [app sp_safe]. change (sp_delta []) with 0. rewrite Z.add_0_r. tauto.
  - change ((c :: a) ++ b)%list with (c :: (a ++ b))%list. cbn [sp_safe]. rewrite IH, sp_delta_cons, Z.add_assoc. tauto.
Qed.
(* instructions that neither move SP nor write it *)
Definition sp_neutral (c : acode) : Prop := sp_tracked c = true /\ sp_delta1 c = 0.
Lemma sp_delta_neutral l : Forall sp_neutral l -> sp_delta l = 0.
Proof. induction 1 as [|c l [_ Hc] _ IH]; [reflexivity|]. rewrite sp_delta_cons, Hc, IH. reflexivity. Qed.
Lemma sp_safe_neutral d l : d mod 16 = 0 -> Forall sp_neutral l -> sp_safe d l.
Proof.
  intros Hd. induction 1 as [|c l [Ht Hc] _ IH]; cbn [sp_safe]; [exact I|].
  rewrite Hc, Z.add_0_r. auto.
Qed.
Lemma Forall_map_neutral {X} (f : X -> acode) (l : list X) : (forall x, sp_neutral (f x)) -> Forall sp_neutral (map f l).
Proof. intros H. induction l; cbn; constructor; auto. Qed.

(* ---------- numbered lists: combine (nseq 0 n) l ---------- *)
Fixpoint indexed {X} (o : N) (l : list X) : list (N * X) :=
  match l with [] => [] | x :: r => (o, x) :: indexed (o + 1) r end.
Lemma nseq_indexed {X} (l : list X) : forall o, combine (nseq o (N.of_nat (List.length l))) l = indexed o l.
Proof.
  unfold nseq. induction l as [|x l IH]; intros o; [rewrite Nnat.Nat2N.id; reflexivity|].
  rewrite Nnat.Nat2N.id. cbn [List.length seq map combine indexed]. rewrite Nnat.N2Nat.id. f_equal.
  specialize (IH (o + 1)%N). rewrite Nnat.Nat2N.id in IH. rewrite <- IH. f_equal. f_equal. f_equal. lia.
Qed.
Lemma indexed_length {X} (l : list X) o : List.length (indexed o l) = List.length l.
Proof. revert o; induction l; intros o; cbn; auto. Qed.
Lemma indexed_snd {X} (l : list X) o : map snd (indexed o l) = l.
Proof. revert o; induction l as [|x l IH]; intros o; cbn; [reflexivity|]. now rewrite IH. Qed.
Lemma indexed_nth {X} (l : list X) : forall o k x, nth_error l k = Some x -> nth_error (indexed o l) k = Some ((o + N.of_nat k)%N, x).
Proof.
  induction l as [|y l IH]; intros o k x H; [destruct k; discriminate|].
  destruct k as [|k]; cbn in *.
  - inversion H; subst. now rewrite N.add_0_r.
  - rewrite (IH (o + 1)%N k x H). f_equal. f_equal. lia.
Qed.
Lemma indexed_in {X} (l : list X) : forall o i x, In (i, x) (indexed o l) -> (o <= i)%N /\ nth_error l (N.to_nat (i - o)) = Some x.
Proof.
  induction l as [|y l IH]; intros o i x H; [destruct H|].
  destruct H as [E|H].
  - inversion E; subst. split; [lia|]. now rewrite N.sub_diag.
  - destruct (IH _ _ _ H) as [L Hn]. split; [lia|].
    replace (N.to_nat (i - o)) with (S (N.to_nat (i - (o + 1)))) by lia. exact Hn.
Qed.

(* ---------- the save / restore code, for every list of registers ---------- *)
Section SaveRestore.
Variables (fb : N) (regs : list N).
Let used := backup_used fb regs.
Let pc := push_count fb regs.
Let rest := (List.length regs - used)%nat.

Definition movs_out := map (fun or_ : N * N => MOVR (X (fb + fst or_)) (X (snd or_))) (indexed 0 (firstn used regs)).
Definition movs_back := map (fun or_ : N * N => MOVR (X (snd or_)) (X (fb + fst or_))) (indexed 0 (firstn used regs)).
Definition strs := map (fun or_ : N * N => STR (X (snd or_)) SP (address (Z.of_nat pc - 1 - Z.of_N (fst or_)))) (indexed 0 (skipn used regs)).
Definition ldrs := map (fun or_ : N * N => LDR (X (snd or_)) SP (address (Z.of_nat pc - 1 - Z.of_N (fst or_)))) (rev (indexed 0 (skipn used regs))).

Lemma used_le : (used <= List.length regs)%nat.
Proof. unfold used, backup_used. lia. Qed.
Lemma firstn_used_length : List.length (firstn used regs) = used.
Proof. rewrite firstn_length. pose proof used_le. lia. Qed.
Lemma skipn_used_length : List.length (skipn used regs) = rest.
Proof. apply skipn_length. Qed.

Lemma save_shape :
  save_caller_save_registers fb regs =
  movs_out ++ (if Nat.eqb rest 0 then [] else [SUBI SP SP (address (Z.of_nat pc))] ++ strs).
Proof.
  unfold save_caller_save_registers, movs_out, strs. fold used pc rest.
  rewrite <- firstn_used_length at 1. rewrite nseq_indexed.
  rewrite <- skipn_used_length. rewrite nseq_indexed. reflexivity.
Qed.
Lemma restore_shape :
  restore_caller_save_registers fb regs =
  movs_back ++ (if Nat.eqb rest 0 then [] else ldrs ++ [ADDI SP SP (address (Z.of_nat pc))]).
Proof.
  unfold restore_caller_save_registers, movs_back, ldrs. fold used pc rest.
  rewrite <- firstn_used_length at 1. rewrite nseq_indexed.
  rewrite <- skipn_used_length. rewrite nseq_indexed. reflexivity.
Qed.

Lemma pc_even : Nat.even pc = true.
Proof.
  unfold pc, push_count. fold used. destruct (Nat.even (List.length regs - used)) eqn:E; [exact E|].
  rewrite Nat.even_succ. rewrite <- Nat.negb_even, E. reflexivity.
Qed.
Lemma pc_bounds : (rest <= pc <= S rest)%nat.
Proof. unfold pc, push_count. fold used rest. destruct (Nat.even rest); lia. Qed.
Lemma push_area_mod16 : address (Z.of_nat pc) mod 16 = 0.
Proof.
  pose proof pc_even as E. apply Nat.even_spec in E as (h & E). unfold address. change A64C.address1 with 8.
  rewrite E. replace (8 * Z.of_nat (2 * h)) with (Z.of_nat h * 16) by lia. apply Z.mod_mul. lia.
Qed.

Lemma movs_out_neutral : Forall sp_neutral movs_out.
Proof. apply Forall_map_neutral. intros [a b]. split; reflexivity. Qed.
Lemma movs_back_neutral : Forall sp_neutral movs_back.
Proof. apply Forall_map_neutral. intros [a b]. split; reflexivity. Qed.
Lemma strs_neutral : Forall sp_neutral strs.
Proof. apply Forall_map_neutral. intros [a b]. split; reflexivity. Qed.
Lemma ldrs_neutral : Forall sp_neutral ldrs.
Proof. apply Forall_map_neutral. intros [a b]. split; reflexivity. Qed.

(* the net effect of the save code on SP: nothing, or minus the (even number of) 8-byte cells pushed *)
Lemma save_delta :
  sp_delta (save_caller_save_registers fb regs) = if Nat.eqb rest 0 then 0 else - address (Z.of_nat pc).
Proof.
  rewrite save_shape, sp_delta_app, (sp_delta_neutral _ movs_out_neutral).
  destruct (Nat.eqb rest 0); [reflexivity|].
  rewrite sp_delta_app, (sp_delta_neutral _ strs_neutral). cbn. lia.
Qed.
Lemma restore_delta :
  sp_delta (restore_caller_save_registers fb regs) = if Nat.eqb rest 0 then 0 else address (Z.of_nat pc).
Proof.
  rewrite restore_shape, sp_delta_app, (sp_delta_neutral _ movs_back_neutral).
  destruct (Nat.eqb rest 0); [reflexivity|].
  rewrite sp_delta_app, (sp_delta_neutral _ ldrs_neutral). cbn. lia.
Qed.

(* SP = 0 (mod 16) in the body ==> SP = 0 (mod 16) after the save code, i.e. at the BL *)
Theorem save_caller_save_alignment : sp_delta (save_caller_save_registers fb regs) mod 16 = 0.
Proof.
  rewrite save_delta. destruct (Nat.eqb rest 0); [reflexivity|].
  rewrite Z.mod_opp_l_z; [reflexivity|lia|apply push_area_mod16].
Qed.
Theorem save_restore_balanced :
  sp_delta (save_caller_save_registers fb regs) + sp_delta (restore_caller_save_registers fb regs) = 0.
Proof. rewrite save_delta, restore_delta. destruct (Nat.eqb rest 0); lia. Qed.

(* every SP-relative store of the save code and every load of the restore code happens with SP
   16-byte aligned; SP is only moved by the one SUB / ADD *)
Theorem save_sp_safe d : d mod 16 = 0 -> sp_safe d (save_caller_save_registers fb regs).
Proof.
  intros Hd. rewrite save_shape. apply sp_safe_app. split; [apply sp_safe_neutral; auto using movs_out_neutral|].
  rewrite (sp_delta_neutral _ movs_out_neutral), Z.add_0_r.
  destruct (Nat.eqb rest 0); [exact I|].
  cbn [app sp_safe sp_sensitive sp_tracked sp_delta1]. split; [discriminate|]. split; [reflexivity|].
  apply sp_safe_neutral; [|apply strs_neutral].
  rewrite <- Zplus_mod_idemp_r. rewrite Z.mod_opp_l_z by (lia || apply push_area_mod16).
  now rewrite Z.add_0_r.
Qed.
Theorem restore_sp_safe d :
  d mod 16 = 0 -> sp_safe (d + sp_delta (save_caller_save_registers fb regs)) (restore_caller_save_registers fb regs).
Proof.
  intros Hd. assert (D : (d + sp_delta (save_caller_save_registers fb regs)) mod 16 = 0).
  { rewrite <- Zplus_mod_idemp_r, save_caller_save_alignment, Z.add_0_r. exact Hd. }
  rewrite restore_shape. apply sp_safe_app. split; [apply sp_safe_neutral; auto using movs_back_neutral|].
  rewrite (sp_delta_neutral _ movs_back_neutral), Z.add_0_r.
  destruct (Nat.eqb rest 0); [exact I|].
  apply sp_safe_app. split; [apply sp_safe_neutral; auto using ldrs_neutral|].
  cbn [sp_safe sp_sensitive sp_tracked]. split; [discriminate|]. split; [reflexivity|exact I].
Qed.

(* the restore code mirrors the save code: the register-to-register backups are undone pairwise;
   the loads are the stores in reverse order, register by register from the SAME stack cell;
   the cells are distinct, 8-aligned, and inside the area the SUB reserved; together the backups
   and the stores cover exactly the list of registers to save, in order *)
Definition str_to_ldr (c : acode) : acode := match c with STR r b i => LDR r b i | c => c end.
Definition mov_swap (c : acode) : acode := match c with MOVR a b => MOVR b a | c => c end.
Definition saved_reg (c : acode) : list N :=
  match c with MOVR _ (X r) => [r] | STR (X r) SP _ => [r] | _ => [] end.
Definition str_offset (c : acode) : list Z := match c with STR _ SP i => [i] | _ => [] end.

Theorem restore_mirrors_save :
  exists sub add,
    save_caller_save_registers fb regs = movs_out ++ sub ++ (if Nat.eqb rest 0 then [] else strs) /\
    restore_caller_save_registers fb regs = movs_back ++ (if Nat.eqb rest 0 then [] else ldrs) ++ add /\
    movs_back = map mov_swap movs_out /\
    ldrs = rev (map str_to_ldr strs) /\
    ((rest = 0%nat /\ sub = [] /\ add = []) \/
     (rest <> 0%nat /\ sub = [SUBI SP SP (address (Z.of_nat pc))] /\ add = [ADDI SP SP (address (Z.of_nat pc))])) /\
    flat_map saved_reg (movs_out ++ strs) = regs /\
    NoDup (flat_map str_offset strs) /\
    Forall (fun i => 0 <= i /\ i + 8 <= address (Z.of_nat pc) /\ i mod 8 = 0) (flat_map str_offset strs).
Proof.
  exists (if Nat.eqb rest 0 then [] else [SUBI SP SP (address (Z.of_nat pc))]),
         (if Nat.eqb rest 0 then [] else [ADDI SP SP (address (Z.of_nat pc))]).
  split; [rewrite save_shape; destruct (Nat.eqb rest 0); reflexivity|].
  split; [rewrite restore_shape; destruct (Nat.eqb rest 0); reflexivity|].
  split; [unfold movs_back, movs_out; rewrite map_map; apply map_ext; intros [a b]; reflexivity|].
  split; [unfold ldrs, strs; rewrite map_map, <- map_rev; apply map_ext; intros [a b]; reflexivity|].
  split; [destruct (Nat.eqb_spec rest 0); [left|right]; auto|].
  split.
  { rewrite flat_map_app. unfold movs_out, strs.
    assert (G : forall (f : N * N -> acode) l, (forall p, saved_reg (f p) = [snd p]) -> flat_map saved_reg (map f l) = map snd l).
    { intros f l H. induction l as [|p l IH]; cbn; [reflexivity|]. now rewrite H, IH. }
    rewrite !G by (intros [a b]; reflexivity). rewrite !indexed_snd. apply firstn_skipn. }
  assert (OFF : flat_map str_offset strs = map (fun or_ : N * N => address (Z.of_nat pc - 1 - Z.of_N (fst or_))) (indexed 0 (skipn used regs))).
  { unfold strs. induction (indexed 0 (skipn used regs)) as [|p l IH]; [reflexivity|]. cbn [map flat_map]. rewrite IH. reflexivity. }
  rewrite OFF. split.
  - (* distinct cells: the index determines the offset *)
    assert (ND : forall (l : list N) o, NoDup (map fst (indexed o l))).
    { induction l as [|x l IH]; intros o; cbn; constructor; [|apply IH].
      intros Hin. apply in_map_iff in Hin as ([i y] & E & Hin). cbn in E; subst i. apply indexed_in in Hin. lia. }
    specialize (ND (skipn used regs) 0%N). revert ND. generalize (indexed 0 (skipn used regs)). intros l ND.
    induction l as [|[i x] l IH]; cbn [map fst] in *; constructor; inversion ND as [|? ? Hn ND']; subst; auto.
    intros Hin. apply Hn. apply in_map_iff in Hin as ([j y] & E & Hin). cbn [fst] in E. unfold address in E.
    change A64C.address1 with 8 in E.
    apply in_map_iff. exists (j, y). split; [cbn [fst]; lia|exact Hin].
  - apply Forall_forall. intros z Hz. apply in_map_iff in Hz as ([i x] & <- & Hin). cbn [fst].
    apply indexed_in in Hin as [_ Hn]. rewrite N.sub_0_r in Hn.
    assert (N.to_nat i < rest)%nat as Hi by (rewrite <- skipn_used_length; apply nth_error_Some; congruence).
    pose proof pc_bounds. unfold address. change A64C.address1 with 8.
    split; [lia|]. split; [lia|]. rewrite Z.mul_comm. apply Z.mod_mul. lia.
Qed.
(* the same lists as data: (backup register, saved register) and (saved register, stack offset) *)
Definition backup_pairs : list (N * N) := map (fun or_ : N * N => (fb + fst or_, snd or_)%N) (indexed 0 (firstn used regs)).
Definition push_cells : list (N * Z) :=
  map (fun or_ : N * N => (snd or_, address (Z.of_nat pc - 1 - Z.of_N (fst or_)))) (indexed 0 (skipn used regs)).
Lemma movs_out_pairs : movs_out = map (fun p : N * N => MOVR (X (fst p)) (X (snd p))) backup_pairs.
Proof. unfold movs_out, backup_pairs. rewrite map_map. reflexivity. Qed.
Lemma movs_back_pairs : movs_back = map (fun p : N * N => MOVR (X (snd p)) (X (fst p))) backup_pairs.
Proof. unfold movs_back, backup_pairs. rewrite map_map. reflexivity. Qed.
Lemma strs_cells : strs = map (fun p : N * Z => STR (X (fst p)) SP (snd p)) push_cells.
Proof. unfold strs, push_cells. rewrite map_map. reflexivity. Qed.
Lemma ldrs_cells : ldrs = map (fun p : N * Z => LDR (X (fst p)) SP (snd p)) (rev push_cells).
Proof. unfold ldrs, push_cells. rewrite <- map_rev, map_map. reflexivity. Qed.
Lemma backup_pairs_snd : map snd backup_pairs = firstn used regs.
Proof. unfold backup_pairs. rewrite map_map. cbn [snd]. apply indexed_snd. Qed.
Lemma push_cells_fst : map fst push_cells = skipn used regs.
Proof. unfold push_cells. rewrite map_map. cbn [fst]. apply indexed_snd. Qed.
Lemma indexed_fst_nodup {X} (l : list X) : forall o, NoDup (map fst (indexed o l)).
Proof.
  induction l as [|x l IH]; intros o; cbn; constructor; [|apply IH].
  intros Hin. apply in_map_iff in Hin as ([i y] & E & Hin). cbn in E; subst i. apply indexed_in in Hin. lia.
Qed.
Lemma backup_pairs_range d r : In (d, r) backup_pairs -> (fb <= d < fb + N.of_nat used)%N.
Proof.
  unfold backup_pairs. intros H. apply in_map_iff in H as ([o x] & E & Hin). inversion E; subst. cbn [fst].
  apply indexed_in in Hin as [_ Hn]. rewrite N.sub_0_r in Hn.
  assert (N.to_nat o < used)%nat by (rewrite <- firstn_used_length; apply nth_error_Some; congruence). lia.
Qed.
Lemma backup_pairs_nodup : NoDup (map fst backup_pairs).
Proof.
  unfold backup_pairs. rewrite map_map. cbn [fst].
  pose proof (indexed_fst_nodup (firstn used regs) 0%N) as ND. revert ND.
  generalize (indexed 0 (firstn used regs)). intros l ND.
  induction l as [|[i x] l IH]; cbn [map fst] in *; constructor; inversion ND as [|? ? Hn ND']; subst; auto.
  intros Hin. apply Hn. apply in_map_iff in Hin as ([j y] & E & Hin). cbn [fst] in E.
  apply in_map_iff. exists (j, y). split; [cbn [fst]; lia|exact Hin].
Qed.
Lemma push_cells_offsets : map snd push_cells = flat_map str_offset strs.
Proof.
  unfold strs, push_cells. rewrite map_map. cbn [snd].
  induction (indexed 0 (skipn used regs)) as [|p l IH]; [reflexivity|]. cbn [map flat_map]. rewrite <- IH. reflexivity.
Qed.
Lemma push_cells_nodup : NoDup (map snd push_cells).
Proof. rewrite push_cells_offsets. destruct restore_mirrors_save as (? & ? & _ & _ & _ & _ & _ & _ & H & _). exact H. Qed.
Lemma push_cells_range :
  Forall (fun i => 0 <= i /\ i + 8 <= address (Z.of_nat pc) /\ i mod 8 = 0) (map snd push_cells).
Proof. rewrite push_cells_offsets. destruct restore_mirrors_save as (? & ? & _ & _ & _ & _ & _ & _ & _ & H). exact H. Qed.
End SaveRestore.

(* ---------- which registers are saved: caller_save_registers_info ---------- *)
Definition ctx_regs (context : ctx) : list N :=
  flat_map (fun ob : N * binding =>
              match bchi (snd ob) with
              | Ext => [CALLER_SAVE_FIRST + 2 * fst ob + 1]
              | _ => [CALLER_SAVE_FIRST + 2 * fst ob; CALLER_SAVE_FIRST + 2 * fst ob + 1]
              end)%N (indexed 0 (firstn 7 context)).
Lemma info_shape context :
  caller_save_registers_info context =
  (N.max (2 * N.of_nat (List.length context) + 4) 18,
   [0; 1]%N ++ (if N.leb 30 (2 * N.of_nat (List.length context) + 4) then [29]%N else []) ++ ctx_regs context).
Proof.
  unfold caller_save_registers_info, ctx_regs. rewrite nseq_indexed.
  change (N.to_nat ((CALLER_SAVE_LAST + 1 - CALLER_SAVE_FIRST) / 2)) with 7%nat.
  f_equal. f_equal. f_equal. apply flat_map_ext. intros [o b]. reflexivity.
Qed.

(* the register of a variable's temporary *)
Lemma tfp_register p r :
  temporary_from_position p = Ok (AR (X r)) -> r = (p + 4)%N /\ (r < 30)%N.
Proof.
  unfold temporary_from_position. change RESERVED with 4%N. change REGISTER_NUM with 30%N.
  destruct (N.ltb_spec (p + 4) 30) as [H|H].
  - intros E; inversion E; subst. auto.
  - destruct (N.ltb _ _); discriminate.
Qed.

(* EVERY caller-saved register (X0-X17) and the link register X30 that holds a live variable - the
   second temporary of any variable, the first temporary of a non-integer variable - is in the list
   of registers saved around the call.
   This is the theorem that FAILS for the code before fix b8c7d78 (`first_free_register > REGISTER_NUM`
   instead of `>=`): with exactly 13 variables the second temporary of the 13th variable is X30
   (internal 29 = 2*12+1+4), first_free_register = 30 = REGISTER_NUM, and 29 would not be in the list:
   the case `r = 29` below cannot be closed (N.leb 30 30 = true is what closes it; `N.ltb 30 30` is false). *)
Theorem saved_covers_live (context : ctx) i b n r :
  nth_error context i = Some b -> (n = Snd \/ bchi b <> Ext) ->
  temporary_from_position (2 * N.of_nat i + tnum_n n) = Ok (AR (X r)) ->
  (r <= 17)%N \/ r = 29%N ->
  In r (snd (caller_save_registers_info context)).
Proof.
  intros Hi Hn Ht Hr. rewrite info_shape. cbn [snd]. apply tfp_register in Ht as [-> Hlt].
  assert (Hlen : (i < List.length context)%nat) by (apply nth_error_Some; congruence).
  destruct Hr as [Hr|Hr].
  - (* a caller-saved register: one of the first seven variables *)
    apply in_or_app; right. apply in_or_app; right.
    assert (i < 7)%nat as Hi7 by (destruct n; cbn [tnum_n] in Hr; lia).
    unfold ctx_regs. apply in_flat_map. exists (N.of_nat i, b). split.
    + assert (nth_error (firstn 7 context) i = Some b) as Hf.
      { rewrite <- (firstn_skipn 7 context) in Hi. rewrite nth_error_app1 in Hi; [exact Hi|].
        rewrite firstn_length. lia. }
      apply (indexed_nth _ 0%N) in Hf. rewrite N.add_0_l in Hf. eapply nth_error_In; eauto.
    + cbn [fst snd]. change CALLER_SAVE_FIRST with 4%N.
      destruct n; cbn [tnum_n].
      * destruct Hn as [Hn|Hn]; [discriminate|]. destruct (bchi b); [left; lia|left; lia|congruence].
      * destruct (bchi b); cbn [In]; [right; left; lia|right; left; lia|left; lia].
  - (* the link register: the 13th variable exists, so first_free_register >= REGISTER_NUM *)
    apply in_or_app; right. apply in_or_app; left.
    destruct (N.leb_spec 30 (2 * N.of_nat (List.length context) + 4)) as [_|Hc]; [left; symmetry; exact Hr|].
    exfalso. destruct n; cbn [tnum_n] in Hr; lia.
Qed.

(* HEAP (X0) and FREE (X1) are always saved; X30 is saved exactly when a variable lives in it,
   i.e. exactly when the context has a 13th variable *)
Theorem saved_heap_free context :
  In 0%N (snd (caller_save_registers_info context)) /\ In 1%N (snd (caller_save_registers_info context)).
Proof. rewrite info_shape. cbn. auto. Qed.
Lemma ctx_regs_range context r : In r (ctx_regs context) -> (4 <= r <= 17)%N.
Proof.
  unfold ctx_regs. intros H. apply in_flat_map in H as ([o b] & Hin & Hr). cbn [fst snd] in Hr.
  apply indexed_in in Hin as [_ Hn]. rewrite N.sub_0_r in Hn.
  assert (N.to_nat o < 7)%nat.
  { assert (N.to_nat o < List.length (firstn 7 context))%nat by (apply nth_error_Some; congruence).
    rewrite firstn_length in *. lia. }
  change CALLER_SAVE_FIRST with 4%N in Hr.
  destruct (bchi b); cbn [In] in Hr; lia.
Qed.
Lemma ctx_regs_nodup context : NoDup (ctx_regs context).
Proof.
  unfold ctx_regs. change CALLER_SAVE_FIRST with 4%N.
  assert (G : forall (l : list binding) o,
             NoDup (flat_map (fun ob : N * binding => match bchi (snd ob) with
                                                   | Ext => [4 + 2 * fst ob + 1]
                                                   | _ => [4 + 2 * fst ob; 4 + 2 * fst ob + 1] end)%N (indexed o l)) /\
             forall r, In r (flat_map (fun ob : N * binding => match bchi (snd ob) with
                                                   | Ext => [4 + 2 * fst ob + 1]
                                                   | _ => [4 + 2 * fst ob; 4 + 2 * fst ob + 1] end)%N (indexed o l)) -> (4 + 2 * o <= r)%N).
  { induction l as [|b l IH]; intros o; cbn [indexed flat_map]; [split; [constructor|intros r []]|].
    destruct (IH (o + 1)%N) as [ND LB]. cbn [fst snd].
    split.
    - destruct (bchi b); cbn [app]; repeat constructor; auto; cbn [In]; intros H;
        repeat match goal with H : _ \/ _ |- _ => destruct H as [H|H] end; try lia;
        try (apply LB in H; lia).
    - intros r H. apply in_app_or in H as [H|H]; [|apply LB in H; lia].
      destruct (bchi b); cbn [In] in H; lia. }
  apply G.
Qed.
Theorem saved_nodup context : NoDup (snd (caller_save_registers_info context)).
Proof.
  rewrite info_shape. cbn [snd app].
  pose proof (ctx_regs_nodup context) as ND. pose proof (ctx_regs_range context) as RG.
  destruct (N.leb _ _); cbn [app]; repeat constructor; auto; cbn [In]; intros H;
    repeat match goal with H : _ \/ _ |- _ => destruct H as [H|H] end; try lia; try discriminate;
    try (apply RG in H; lia).
Qed.
Lemma saved_length context : (List.length (snd (caller_save_registers_info context)) <= 17)%nat.
Proof.
  rewrite info_shape. cbn [snd]. rewrite !app_length.
  assert (List.length (ctx_regs context) <= 14)%nat.
  { unfold ctx_regs. assert (L : (List.length (indexed 0 (firstn 7 context)) <= 7)%nat) by (rewrite indexed_length, firstn_length; lia).
    revert L. generalize (indexed 0 (firstn 7 context)). intros l. 
    assert (G : forall l : list (N * binding),
              (List.length (flat_map (fun ob : N * binding => match bchi (snd ob) with
                 | Ext => [CALLER_SAVE_FIRST + 2 * fst ob + 1]
                 | _ => [CALLER_SAVE_FIRST + 2 * fst ob; CALLER_SAVE_FIRST + 2 * fst ob + 1] end)%N l) <= 2 * List.length l)%nat).
    { induction l0 as [|[o b] l0 IH]; cbn [flat_map List.length]; [lia|]. rewrite app_length. cbn [snd]. destruct (bchi b); cbn [List.length]; lia. }
    specialize (G l). lia. }
  destruct (N.leb _ _); cbn [List.length]; lia.
Qed.
Theorem saved_link_register_iff context :
  In 29%N (snd (caller_save_registers_info context)) <->
  exists b, nth_error context 12 = Some b /\ temporary_from_position (2 * 12 + tnum_n Snd) = Ok (AR (X 29)).
Proof.
  rewrite info_shape. cbn [snd]. split.
  - intros H. apply in_app_or in H as [H|H]; [cbn in H; lia|].
    apply in_app_or in H as [H|H]; [|apply ctx_regs_range in H; lia].
    destruct (N.leb_spec 30 (2 * N.of_nat (List.length context) + 4)) as [Hc|Hc]; [|destruct H].
    destruct (nth_error context 12) as [b|] eqn:E.
    + exists b. split; reflexivity.
    + apply nth_error_None in E. lia.
  - intros (b & Hb & _). assert (12 < List.length context)%nat by (apply nth_error_Some; congruence).
    apply in_or_app; right. apply in_or_app; left.
    destruct (N.leb_spec 30 (2 * N.of_nat (List.length context) + 4)); [left; reflexivity|lia].
Qed.

(* the register list as it was computed BEFORE fix b8c7d78 (`>` instead of `>=`): with exactly 13
   live variables the second temporary of the 13th variable is X30, and X30 is NOT saved - so
   [saved_covers_live] is false of that code (and its proof above breaks in the case r = 29) *)
Definition info_before_fix (context : ctx) : list N :=
  let first_free_register := (2 * N.of_nat (List.length context) + RESERVED)%N in
  [0; 1]%N ++ (if N.ltb REGISTER_NUM first_free_register then [REGISTER_NUM - 1]%N else []) ++ ctx_regs context.
Example saved_covers_live_fails_before_fix :
  let context := repeat (mkb ("x"%string, 0%N) Ext I64) 13 in
  nth_error context 12 = Some (mkb ("x"%string, 0%N) Ext I64) /\
  temporary_from_position (2 * N.of_nat 12 + tnum_n Snd) = Ok (AR (X 29)) /\
  ~ In 29%N (info_before_fix context) /\
  In 29%N (snd (caller_save_registers_info context)).
Proof. vm_compute. repeat split; try tauto. intros H. repeat (destruct H as [H|H]; [discriminate|]). exact H. Qed.

(* every saved register is one the callee may clobber *)
Theorem saved_are_clobberable context r :
  In r (snd (caller_save_registers_info context)) -> (r <= 17)%N \/ r = 29%N.
Proof.
  rewrite info_shape. cbn [snd]. intros H. apply in_app_or in H as [H|H]; [cbn in H; lia|].
  apply in_app_or in H as [H|H]; [destruct (N.leb _ _); cbn in H; lia|apply ctx_regs_range in H; lia].
Qed.

(* the backup registers are callee-saved registers (X19-X29, never the link register) above every
   register of the context: the callee preserves them and no variable lives in them *)
Theorem backups_callee_saved_and_free context k :
  let '(fb, regs) := caller_save_registers_info context in
  (k < backup_used fb regs)%nat ->
  (18 <= fb + N.of_nat k <= 28)%N /\ (2 * N.of_nat (List.length context) + 4 <= fb + N.of_nat k)%N.
Proof.
  rewrite info_shape. unfold backup_used. change REGISTER_NUM with 30%N. intros H. lia.
Qed.

(* ---------- the whole print sequence ---------- *)
Theorem print_sp_safe newline s context d :
  d mod 16 = 0 -> sp_safe d (a_print newline s context) /\ sp_delta (a_print newline s context) = 0.
Proof.
  intros Hd. unfold a_print. destruct (caller_save_registers_info context) as [fb regs].
  set (pre := match s with AS _ => move_to_register TEMP s | AR _ => [] end).
  assert (PN : Forall sp_neutral pre).
  { subst pre. destruct s as [r|p]; [constructor|]. cbn [move_to_register]. constructor; [split; reflexivity|constructor]. }
  set (mv := match s with AR r => MOVR (X 0) r | AS _ => MOVR (X 0) TEMP end).
  assert (MN : sp_neutral mv) by (subst mv; destruct s; split; reflexivity).
  split.
  - apply sp_safe_app. split; [apply sp_safe_neutral; auto|]. rewrite (sp_delta_neutral _ PN), Z.add_0_r.
    apply sp_safe_app. split; [apply save_sp_safe; auto|].
    assert (D : (d + sp_delta (save_caller_save_registers fb regs)) mod 16 = 0).
    { rewrite <- Zplus_mod_idemp_r, save_caller_save_alignment, Z.add_0_r. exact Hd. }
    cbn [app sp_safe]. destruct MN as [M1 M2]. rewrite M2, Z.add_0_r.
    split; [destruct mv; cbn; discriminate || auto|]. split; [exact M1|].
    split; [intros _; exact D|]. split; [reflexivity|].
    cbn [sp_delta1]. rewrite Z.add_0_r. apply restore_sp_safe. exact Hd.
  - rewrite !sp_delta_app, (sp_delta_neutral _ PN). cbn [sp_delta fold_right]. fold (sp_delta (restore_caller_save_registers fb regs)).
    destruct MN as [_ M2]. rewrite M2. cbn [sp_delta1]. pose proof (save_restore_balanced fb regs). lia.
Qed.

(* ---------- prologue / epilogue ---------- *)
Lemma move_arguments_neutral n : forall ma, move_arguments n = Ok ma -> Forall sp_neutral ma.
Proof.
  induction n as [|m IH]; cbn [move_arguments]; intros ma M.
  - injection M as <-. constructor.
  - destruct (Nat.ltb 7 (S m)); [discriminate|]. destruct (move_arguments m) as [r|]; cbn [rbind] in M; [|discriminate].
    injection M as <-. cbn [app]. constructor; [split; reflexivity|auto].
Qed.
Lemma setup_shape n cs :
  setup n = Ok cs ->
  exists ma, Forall sp_neutral ma /\
    cs = [STP_PRE_INDEX (X 18) (X 19) SP (-16); STP_PRE_INDEX (X 20) (X 21) SP (-16);
          STP_PRE_INDEX (X 22) (X 23) SP (-16); STP_PRE_INDEX (X 24) (X 25) SP (-16);
          STP_PRE_INDEX (X 26) (X 27) SP (-16); STP_PRE_INDEX (X 28) (X 29) SP (-16);
          SUBI SP SP SPILL_SPACE] ++ ma ++ [MOVR FREE HEAP; ADDI FREE FREE (field_offset Fst FIELDS_PER_BLOCK)].
Proof.
  unfold setup, rbind. destruct (move_arguments n) as [ma|] eqn:M; [|discriminate].
  intros E; injection E as <-. exists ma. split; [eapply move_arguments_neutral; eauto|reflexivity].
Qed.
(* SP = 0 (mod 16) on entry (AAPCS64) ==> every store of the prologue happens with SP aligned and
   SP = 0 (mod 16) in the body *)
Theorem body_alignment n cs : setup n = Ok cs -> sp_delta cs mod 16 = 0 /\ sp_safe 0 cs.
Proof.
  intros E. destruct (setup_shape n cs E) as (ma & MN & ->).
  assert (TN : Forall sp_neutral (ma ++ [MOVR FREE HEAP; ADDI FREE FREE (field_offset Fst FIELDS_PER_BLOCK)])).
  { apply Forall_app; split; [exact MN|]. repeat constructor. }
  split.
  - rewrite sp_delta_app, (sp_delta_neutral _ TN). reflexivity.
  - apply sp_safe_app. split; [cbn; repeat split; auto|]. apply sp_safe_neutral; [reflexivity|exact TN].
Qed.
Theorem prologue_epilogue_balanced n cs :
  setup n = Ok cs -> sp_delta cs + sp_delta cleanup = 0 /\ sp_safe (sp_delta cs) cleanup.
Proof.
  intros E. destruct (setup_shape n cs E) as (ma & MN & ->).
  assert (TN : Forall sp_neutral (ma ++ [MOVR FREE HEAP; ADDI FREE FREE (field_offset Fst FIELDS_PER_BLOCK)])).
  { apply Forall_app; split; [exact MN|]. repeat constructor. }
  rewrite sp_delta_app, (sp_delta_neutral _ TN). split; [reflexivity|]. cbn. repeat split; auto.
Qed.
(* the epilogue reloads exactly the register pairs the prologue stored, in reverse order; together
   they are the callee-saved registers X19-X29 and the link register X30 *)
Definition stp_pairs (c : acode) : list (areg * areg) := match c with STP_PRE_INDEX a b SP (-16) => [(a, b)] | _ => [] end.
Definition ldp_pairs (c : acode) : list (areg * areg) := match c with LDP_POST_INDEX a b SP 16 => [(a, b)] | _ => [] end.
Theorem epilogue_restores_callee_saved n cs :
  setup n = Ok cs ->
  flat_map ldp_pairs cleanup = rev (flat_map stp_pairs cs) /\
  flat_map (fun p => [fst p; snd p]) (flat_map stp_pairs cs) = map X [18; 19; 20; 21; 22; 23; 24; 25; 26; 27; 28; 29]%N.
Proof.
  intros E. destruct (setup_shape n cs E) as (ma & MN & ->).
  assert (Z0 : flat_map stp_pairs (ma ++ [MOVR FREE HEAP; ADDI FREE FREE (field_offset Fst FIELDS_PER_BLOCK)]) = []).
  { rewrite flat_map_app. cbn. rewrite app_nil_r. clear E. induction MN as [|c l [Ht Hd] _ IH]; [reflexivity|].
    cbn [flat_map]. rewrite IH, app_nil_r.
    destruct c; try reflexivity. destruct b; try reflexivity. cbn in Hd. subst i. reflexivity. }
  rewrite flat_map_app, Z0. split; reflexivity.
Qed.
