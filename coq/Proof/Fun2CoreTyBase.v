(* ======================================================================================
   Proof/Fun2CoreTyBase  -  basic facts about the typing guard [tg] of Model/Fun2CoreTyGuard.v:
   - one unfolding equation per term form (the nested list traversals as [tg_args] / [tg_clauses] /
     [tg_coclauses]);
   - [tg_ext]: the guard of a term only depends on the bindings of its FREE names;
   - equations for [fv_fterm] and [shadowing_risk] on the forms with nested lists;
   - the Kripke-style invariant of a continuation ([agree], [KT]): a continuation stays well typed in
     every scope that gives the same bindings to its free user names S and to the names generated so far.
   ====================================================================================== *)
From Coq Require Import List ZArith NArith String Bool Lia.
From SCC Require Import Base.Sexp Lang.SynUtil Lang.FunSyn Lang.FunTy Lang.CoreSyn.
From SCC Require Import Sem.AxSem Sem.FunSem Sem.FsCheck Sem.CoreCheck Model.Fun2Core Model.Fun2CoreGuard Model.Fun2CoreTyGuard.
From SCC Require Import Proof.Fun2CoreProof Proof.Fun2CoreTfv Proof.Fun2CoreInv Proof.CoreTyRules.
Import ListNotations.
Open Scope string_scope.
Open Scope list_scope.

Arguments var_ok : simpl never.

Lemma gl_clookup : forall G x, gl G x = clookup G x.
Proof. induction G as [|b r IH]; intros x; simpl; [reflexivity|]. destruct (cident_eqb (cbvar b) x); [reflexivity | apply IH]. Qed.

Lemma var_ok_look : forall G v ty chi, var_ok G v ty chi = true ->
  exists ty0, ty = Some ty0 /\ clookup G (new_id v) = Some (mkcb (new_id v) chi (compile_ty ty0)).
Proof. intros G v ty chi H. apply var_ok_inv in H. destruct H as [ty0 [E H]]. rewrite gl_clookup in H. eauto. Qed.

Lemma var_ok_ext : forall G1 G2 v ty chi, clookup G1 (new_id v) = clookup G2 (new_id v) ->
  var_ok G1 v ty chi = var_ok G2 v ty chi.
Proof. intros G1 G2 v ty chi H. unfold var_ok. rewrite !gl_clookup, H. reflexivity. Qed.

Lemma split_last_spec : forall l pre last, split_last l = Some (pre, last) -> l = pre ++ [last].
Proof.
  induction l as [|b r IH]; intros pre last H; simpl in H; [discriminate|].
  destruct r as [|b' r'].
  - injection H as <- <-. reflexivity.
  - destruct (split_last (b' :: r')) as [[pre' last']|] eqn:E; [|discriminate].
    injection H as <- <-. rewrite (IH _ _ eq_refl). reflexivity.
Qed.

(* ---------- free names ---------- *)
Definition fv_cl (c : fclause) : list string :=
  match c with FClause _ _ _ ctx body => remove_all (fvars ctx) (fv_fterm body) end.
Lemma fv_call : forall f args r, fv_fterm (FCall f args r) = flat_map fv_fterm args.
Proof. reflexivity. Qed.
Lemma fv_ctor : forall f args r, fv_fterm (FCtor f args r) = flat_map fv_fterm args.
Proof. reflexivity. Qed.
Lemma fv_dtor : forall s x ta args r, fv_fterm (FDtor s x ta args r) = fv_fterm s ++ flat_map fv_fterm args.
Proof. reflexivity. Qed.
Lemma fv_cls_eq : forall cls,
  (fix go (l : list fclause) : list string :=
     match l with
     | [] => []
     | FClause _ _ _ ctx body :: r => remove_all (fvars ctx) (fv_fterm body) ++ go r
     end) cls = flat_map fv_cl cls.
Proof. induction cls as [|[pl x names ctx body] r IH]; simpl; [reflexivity | rewrite IH; reflexivity]. Qed.
Lemma fv_case : forall s ta cls r, fv_fterm (FCase s ta cls r) = fv_fterm s ++ flat_map fv_cl cls.
Proof. intros. cbn [fv_fterm]. rewrite fv_cls_eq. reflexivity. Qed.
Lemma fv_new : forall cls r, fv_fterm (FNew cls r) = flat_map fv_cl cls.
Proof. intros. cbn [fv_fterm]. rewrite fv_cls_eq. reflexivity. Qed.

Lemma remove_all_In : forall xs l x, In x (remove_all xs l) <-> In x l /\ ~ In x xs.
Proof.
  intros xs l x. unfold remove_all. rewrite filter_In, negb_true_iff. rewrite mem_false_not_In. tauto.
Qed.

Section Base.
  Variable p : fcprog.
  Variables data codata : list ctydecl.
  Notation tg := (tg p data codata).
  Notation tg_arg := (tg_arg p data codata).
  Notation tg_args := (tg_args p data codata).
  Notation tg_clause := (tg_clause p data codata).
  Notation tg_clauses := (tg_clauses p data codata).
  Notation tg_coclause := (tg_coclause p data codata).
  Notation tg_coclauses := (tg_coclauses p data codata).
  Notation tyd := (tyd data codata).
  Notation ann_ok := (ann_ok data codata).

  (* ---------- types of annotated terms ---------- *)
  Lemma has_ty_tyo : forall t ty, has_ty t ty = true -> tyo t = Some ty.
  Proof. intros t ty H. unfold has_ty in H. destruct (tyo t) as [ty'|]; [|discriminate]. apply ceq_ty in H. subst. reflexivity. Qed.
  Lemma tyo_has_ty : forall t ty, tyo t = Some ty -> has_ty t ty = true.
  Proof. intros t ty H. unfold has_ty. rewrite H. apply ceq_ty_refl. Qed.
  Lemma same_ty_tyo : forall t o, same_ty t o = true -> exists ty0, o = Some ty0 /\ tyo t = Some (compile_ty ty0).
  Proof. intros t [ty0|] H; simpl in H; [|discriminate]. exists ty0. split; [reflexivity | apply has_ty_tyo; exact H]. Qed.
  Lemma tyo_fterm_type : forall t ty, tyo t = Some ty -> exists ty0, fterm_type t = Some ty0 /\ ty = compile_ty ty0.
  Proof. intros t ty H. unfold tyo in H. destruct (fterm_type t) as [ty0|]; [|discriminate]. injection H as H. eauto. Qed.
  Lemma ann_ok_inv : forall o, ann_ok o = true -> exists ty0, o = Some ty0 /\ tyd (compile_ty ty0) = true.
  Proof. intros [ty0|] H; simpl in H; [eauto | discriminate]. Qed.

  (* ---------- unfolding equations ---------- *)
  Lemma tg_var : forall G v ty chi, tg G (FVar v ty chi) = var_ok G v ty CPrd.
  Proof. reflexivity. Qed.
  Lemma tg_op : forall G a o b, tg G (FOp a o b) = tg G a && tg G b && has_ty a CI64 && has_ty b CI64.
  Proof. reflexivity. Qed.
  Lemma tg_ifc : forall G s a b t1 t2 ty, tg G (FIfC s a b t1 t2 ty) =
    tg G a && has_ty a CI64
    && (match b with Some b' => tg G b' && has_ty b' CI64 | None => true end)
    && tg G t1 && tg G t2 && same_ty t1 ty && same_ty t2 ty.
  Proof. reflexivity. Qed.
  Lemma tg_print : forall G nl a next ty, tg G (FPrint nl a next ty) =
    tg G a && has_ty a CI64 && tg G next && same_ty next ty.
  Proof. reflexivity. Qed.
  Lemma tg_let : forall G v vty bound body ty, tg G (FLet v vty bound body ty) =
    tg G bound && has_ty bound (compile_ty vty) && tyd (compile_ty vty)
    && tg (mkcb (new_id v) CPrd (compile_ty vty) :: G) body && same_ty body ty.
  Proof. reflexivity. Qed.
  Lemma tg_call : forall G f args ret, tg G (FCall f args ret) =
    (negb (String.eqb f "main") || calls_main_prog p)
    && match ffind_def p f, ret with
       | Some d, Some r =>
           tg_args G args (compile_ctx (fdctx d))
           && cty_eqb (compile_ty r) (compile_ty (fdret d)) && tyd (compile_ty r)
       | _, _ => false
       end.
  Proof. reflexivity. Qed.
  Lemma tg_ctor : forall G x args ty, tg G (FCtor x args ty) =
    match tyo (FCtor x args ty) with
    | Some (CDecl n) =>
        match find_decl data n with
        | Some d => match find_cxtor d (new_id x) with Some sg => tg_args G args (cxargs sg) | None => false end
        | None => false
        end
    | _ => false
    end.
  Proof. reflexivity. Qed.
  Lemma tg_dtor : forall G scrut x ta args ty, tg G (FDtor scrut x ta args ty) =
    tg G scrut
    && match tyo scrut with
       | Some (CDecl n) =>
           match find_decl codata n with
           | Some d =>
               match find_cxtor d (new_id x) with
               | Some sg =>
                   match split_last (cxargs sg) with
                   | Some (pre, last) =>
                       tg_args G args pre && cchi_eqb (cbchi last) CCns && has_ty (FDtor scrut x ta args ty) (cbty last)
                   | None => false
                   end
               | None => false
               end
           | None => false
           end
       | _ => false
       end.
  Proof. reflexivity. Qed.
  Lemma tg_case : forall G scrut ta cls ty, tg G (FCase scrut ta cls ty) =
    tg G scrut
    && match tyo scrut with
       | Some (CDecl n) =>
           match find_decl data n with
           | Some d => tg_clauses G ty cls (ctxtors d)
           | None => false
           end
       | _ => false
       end.
  Proof. reflexivity. Qed.
  Lemma tg_new : forall G cls ty, tg G (FNew cls ty) =
    match tyo (FNew cls ty) with
    | Some (CDecl n) =>
        match find_decl codata n with
        | Some d => tg_coclauses G cls (ctxtors d)
        | None => false
        end
    | _ => false
    end.
  Proof. reflexivity. Qed.
  Lemma tg_label : forall G l t' ty, tg G (FLabel l t' ty) =
    match ty with
    | Some ty0 =>
        tyd (compile_ty ty0) && tg (mkcb (new_id l) CCns (compile_ty ty0) :: G) t' && has_ty t' (compile_ty ty0)
    | None => false
    end.
  Proof. reflexivity. Qed.
  Lemma tg_goto : forall G l t' ty, tg G (FGoto l t' ty) =
    var_ok G l (fterm_type t') CCns && ann_ok (fterm_type t') && tg G t'.
  Proof. reflexivity. Qed.
  Lemma tg_exit : forall G a ty, tg G (FExit a ty) = tg G a && has_ty a CI64 && ann_ok ty.
  Proof. reflexivity. Qed.
  Lemma tg_paren : forall G t', tg G (FParen t') = tg G t'.
  Proof. reflexivity. Qed.

  Lemma tg_args_cons : forall G y r b sr, tg_args G (y :: r) (b :: sr) = tg_arg G y b && tg_args G r sr.
  Proof. reflexivity. Qed.
  Lemma tg_clauses_cons : forall G ty c r sg xr,
    tg_clauses G ty (c :: r) (sg :: xr) = tg_clause G ty c sg && tg_clauses G ty r xr.
  Proof. reflexivity. Qed.
  Lemma tg_coclauses_cons : forall G c r sg xr,
    tg_coclauses G (c :: r) (sg :: xr) = tg_coclause G c sg && tg_coclauses G r xr.
  Proof. reflexivity. Qed.

  (* ---------- the guard only depends on the bindings of the free names ---------- *)
  Definition same_on (l : list string) (G1 G2 : cctx) : Prop :=
    forall x, In x l -> clookup G1 (new_id x) = clookup G2 (new_id x).
  Lemma same_on_incl : forall l l' G1 G2, same_on l G1 G2 -> incl l' l -> same_on l' G1 G2.
  Proof. intros l l' G1 G2 H Hi x Hx. apply H. apply Hi. exact Hx. Qed.
  Lemma same_on_app : forall A l G1 G2, same_on (remove_all (map (fun b => fst (cbvar b)) A) l) G1 G2 ->
    (forall b, In b A -> cbvar b = new_id (fst (cbvar b))) -> same_on l (A ++ G1) (A ++ G2).
  Proof.
    intros A l G1 G2 H Hid x Hx. rewrite !clookup_app.
    destruct (clookup A (new_id x)) as [b|] eqn:E; [reflexivity|].
    apply H. apply remove_all_In. split; [exact Hx|]. intros Hin. apply in_map_iff in Hin.
    destruct Hin as [b [Eb Hb]]. apply clookup_none in E. apply E. apply in_map_iff. exists b. split; [|exact Hb].
    rewrite (Hid b Hb), Eb. reflexivity.
  Qed.
  Lemma same_on_cons : forall b l G1 G2 v, cbvar b = new_id v -> same_on (remove_all [v] l) G1 G2 ->
    same_on l (b :: G1) (b :: G2).
  Proof.
    intros b l G1 G2 v Hb H. apply (same_on_app [b] l G1 G2).
    - simpl. rewrite Hb. exact H.
    - intros b' [<-|[]]. rewrite Hb. reflexivity.
  Qed.
  Lemma compile_ctx_ids : forall ctx b, In b (compile_ctx ctx) -> cbvar b = new_id (fst (cbvar b)).
  Proof. intros ctx b H. unfold compile_ctx in H. apply in_map_iff in H. destruct H as [fb [<- _]]. reflexivity. Qed.
  Lemma compile_ctx_names : forall ctx, map (fun b => fst (cbvar b)) (compile_ctx ctx) = fvars ctx.
  Proof. induction ctx as [|b r IH]; simpl; [reflexivity | rewrite IH; reflexivity]. Qed.

  Definition GE (t : fterm) : Prop := forall G1 G2, same_on (fv_fterm t) G1 G2 -> tg G1 t = tg G2 t.

  Lemma ge_args : forall args, Forall GE args -> forall G1 G2 sig,
    same_on (flat_map fv_fterm args) G1 G2 -> tg_args G1 args sig = tg_args G2 args sig.
  Proof.
    intros args H G1 G2. induction H as [|y r Hy Hr IH]; intros sig Hs; destruct sig as [|b sr]; try reflexivity.
    rewrite !tg_args_cons. f_equal.
    - unfold Fun2CoreTyGuard.tg_arg. destruct (cbchi b).
      + rewrite (Hy G1 G2); [reflexivity|]. eapply same_on_incl; [exact Hs|]. intros z Hz. simpl. apply in_or_app. left. exact Hz.
      + destruct y; try reflexivity. destruct chi as [[|]|]; try reflexivity.
        rewrite (var_ok_ext G1 G2); [reflexivity|]. apply Hs. simpl. left. reflexivity.
    - apply IH. eapply same_on_incl; [exact Hs|]. intros z Hz. simpl. apply in_or_app. right. exact Hz.
  Qed.
  Lemma ge_clauses : forall cls, Forall (fun c => GE (clause_body c)) cls -> forall G1 G2 ty xs,
    same_on (flat_map fv_cl cls) G1 G2 -> tg_clauses G1 ty cls xs = tg_clauses G2 ty cls xs.
  Proof.
    intros cls H G1 G2 ty. induction H as [|c r Hc Hr IH]; intros xs Hs; destruct xs as [|sg xr]; try reflexivity.
    rewrite !tg_clauses_cons. f_equal.
    - destruct c as [pl x names ctx body]. unfold Fun2CoreTyGuard.tg_clause. simpl in Hc.
      rewrite (Hc (compile_ctx ctx ++ G1) (compile_ctx ctx ++ G2)); [reflexivity|].
      apply same_on_app; [|apply compile_ctx_ids]. rewrite compile_ctx_names.
      eapply same_on_incl; [exact Hs|]. intros z Hz. simpl. apply in_or_app. left. exact Hz.
    - apply IH. eapply same_on_incl; [exact Hs|]. intros z Hz. simpl. apply in_or_app. right. exact Hz.
  Qed.
  Lemma ge_coclauses : forall cls, Forall (fun c => GE (clause_body c)) cls -> forall G1 G2 xs,
    same_on (flat_map fv_cl cls) G1 G2 -> tg_coclauses G1 cls xs = tg_coclauses G2 cls xs.
  Proof.
    intros cls H G1 G2. induction H as [|c r Hc Hr IH]; intros xs Hs; destruct xs as [|sg xr]; try reflexivity.
    rewrite !tg_coclauses_cons. f_equal.
    - destruct c as [pl x names ctx body]. unfold Fun2CoreTyGuard.tg_coclause. simpl in Hc.
      rewrite (Hc (compile_ctx ctx ++ G1) (compile_ctx ctx ++ G2)); [reflexivity|].
      apply same_on_app; [|apply compile_ctx_ids]. rewrite compile_ctx_names.
      eapply same_on_incl; [exact Hs|]. intros z Hz. simpl. apply in_or_app. left. exact Hz.
    - apply IH. eapply same_on_incl; [exact Hs|]. intros z Hz. simpl. apply in_or_app. right. exact Hz.
  Qed.

  Ltac sub_on Hs := eapply same_on_incl; [exact Hs|]; let z := fresh "z" in let Hz := fresh "Hz" in
    intros z Hz; simpl; rewrite ?in_app_iff; simpl; tauto.

  Theorem tg_ext : forall t, GE t.
  Proof.
    induction t using fterm_ind'; intros G1 G2 Hs.
    - rewrite !tg_var. rewrite (var_ok_ext G1 G2); [reflexivity|]. apply Hs. left. reflexivity.
    - reflexivity.
    - rewrite !tg_op. rewrite (IHt1 G1 G2), (IHt2 G1 G2); [reflexivity | sub_on Hs | sub_on Hs].
    - rewrite !tg_ifc. rewrite (IHt1 G1 G2), (IHt2 G1 G2), (IHt3 G1 G2); [| sub_on Hs | sub_on Hs | sub_on Hs].
      destruct b as [b'|]; [|reflexivity]. simpl in H. rewrite (H G1 G2); [reflexivity | sub_on Hs].
    - rewrite !tg_print. rewrite (IHt1 G1 G2), (IHt2 G1 G2); [reflexivity | sub_on Hs | sub_on Hs].
    - rewrite !tg_let. rewrite (IHt1 G1 G2); [|sub_on Hs].
      rewrite (IHt2 (mkcb (new_id v) CPrd (compile_ty vty) :: G1) (mkcb (new_id v) CPrd (compile_ty vty) :: G2)); [reflexivity|].
      apply (same_on_cons _ _ _ _ v); [reflexivity|]. sub_on Hs.
    - rewrite !tg_call. destruct (ffind_def p f) as [d|]; [|reflexivity]. destruct ret as [r|]; [|reflexivity].
      rewrite (ge_args args H G1 G2); [reflexivity|]. rewrite fv_call in Hs. exact Hs.
    - rewrite !tg_ctor. destruct (tyo (FCtor x args ty)) as [[|n]|]; try reflexivity.
      destruct (find_decl data n) as [d|]; [|reflexivity]. destruct (find_cxtor d (new_id x)) as [sg|]; [|reflexivity].
      apply (ge_args args H G1 G2). rewrite fv_ctor in Hs. exact Hs.
    - rewrite !tg_dtor. rewrite fv_dtor in Hs. rewrite (IHt G1 G2); [|sub_on Hs].
      destruct (tyo t) as [[|n]|]; try reflexivity.
      destruct (find_decl codata n) as [d|]; [|reflexivity]. destruct (find_cxtor d (new_id x)) as [sg|]; [|reflexivity].
      destruct (split_last (cxargs sg)) as [[pre last]|]; [|reflexivity].
      rewrite (ge_args args H G1 G2); [reflexivity|]. eapply same_on_incl; [exact Hs|]. intros z Hz. apply in_or_app. right. exact Hz.
    - rewrite !tg_case. rewrite fv_case in Hs. rewrite (IHt G1 G2); [|sub_on Hs].
      destruct (tyo t) as [[|n]|]; try reflexivity. destruct (find_decl data n) as [d|]; [|reflexivity].
      rewrite (ge_clauses cls H G1 G2); [reflexivity|]. eapply same_on_incl; [exact Hs|]. intros z Hz. apply in_or_app. right. exact Hz.
    - rewrite !tg_new. rewrite fv_new in Hs. destruct (tyo (FNew cls ty)) as [[|n]|]; try reflexivity.
      destruct (find_decl codata n) as [d|]; [|reflexivity]. apply (ge_coclauses cls H G1 G2). exact Hs.
    - rewrite !tg_label. destruct ty as [ty0|]; [|reflexivity].
      rewrite (IHt (mkcb (new_id l) CCns (compile_ty ty0) :: G1) (mkcb (new_id l) CCns (compile_ty ty0) :: G2)); [reflexivity|].
      apply (same_on_cons _ _ _ _ l); [reflexivity|]. exact Hs.
    - rewrite !tg_goto. rewrite (IHt G1 G2); [|sub_on Hs]. rewrite (var_ok_ext G1 G2); [reflexivity|]. apply Hs. left. reflexivity.
    - rewrite !tg_exit. rewrite (IHt G1 G2); [reflexivity | exact Hs].
    - rewrite !tg_paren. apply IHt. exact Hs.
  Qed.
End Base.

(* ---------- equations for the capture detector ---------- *)
Section Risk.
  Variable cd : fty -> bool.
  Definition risk_cl (S : list string) (c : fclause) : bool :=
    match c with FClause _ _ _ ctx body => inter_nonempty (fvars ctx) S || shadowing_risk cd body S end.
  Definition cont_cl (S : list string) (c : fclause) : list string :=
    match c with FClause _ _ _ ctx body => remove_all (fvars ctx) (fv_fterm body ++ S) end.
  Lemma risk_call : forall f args r S,
    shadowing_risk cd (FCall f args r) S = existsb (fun y => shadowing_risk cd y []) args.
  Proof. reflexivity. Qed.
  Lemma risk_ctor : forall f args r S,
    shadowing_risk cd (FCtor f args r) S = existsb (fun y => shadowing_risk cd y []) args.
  Proof. reflexivity. Qed.
  Lemma risk_dtor : forall s x ta args r S, shadowing_risk cd (FDtor s x ta args r) S =
    existsb (fun y => shadowing_risk cd y []) args || shadowing_risk cd s (flat_map fv_fterm args ++ S).
  Proof. reflexivity. Qed.
  Lemma risk_case : forall s ta cls r S, shadowing_risk cd (FCase s ta cls r) S =
    existsb (risk_cl S) cls || shadowing_risk cd s (flat_map (cont_cl S) cls).
  Proof.
    intros. cbn [shadowing_risk]. f_equal.
    - induction cls as [|[pl x names ctx body] l IH]; simpl; [reflexivity | rewrite IH; reflexivity].
    - f_equal. induction cls as [|[pl x names ctx body] l IH]; simpl; [reflexivity | rewrite IH; reflexivity].
  Qed.
  Lemma risk_new : forall cls r S, shadowing_risk cd (FNew cls r) S =
    existsb (fun c => shadowing_risk cd (clause_body c) []) cls.
  Proof.
    intros. cbn [shadowing_risk].
    induction cls as [|[pl x names ctx body] l IH]; simpl; [reflexivity | rewrite IH; reflexivity].
  Qed.
  Lemma inter_nonempty_false : forall a b, inter_nonempty a b = false -> forall x, In x a -> ~ In x b.
  Proof.
    intros a b H x Ha Hb. unfold inter_nonempty in H.
    assert (existsb (fun x0 => mem x0 b) a = true); [|congruence].
    apply existsb_exists. exists x. split; [exact Ha | apply mem_In; exact Hb].
  Qed.
End Risk.
