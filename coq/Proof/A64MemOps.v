(* C09 on AArch64: the allocator operations of axcut2aarch64/src/memory.rs refine Model/Heap.v on the ISA model.
     a64_share_block_ok, a64_erase_block_ok   `share_block_n`, `erase_block` (pointer in a register or spill slot, null
                                              included), from a64abi's word-level theorems (Proof/A64MemSubst.v);
     a64_release_block_ok                     `release_block`;
     a64_acquire_block_reg_ok / _spill_ok     `acquire_block`, all three ways to refill the heap register: (1) next block
                                              of the reuse list, (2) first deferred block with the lazy erasure of its
                                              three children, (3) bump; new block in a register or in a spill slot.
   Every theorem also states the exact frame: registers, spill slots, the rest of the stack (`stack_frame`), the
   heap words that are not block headers (`nonblk_same`), the output.
   Differences to x86-64 (Proof/X86Mem.v): the header test is CMP #0 on the 64-bit value (`wrap h = 0`), so headers
   must be 64-bit values (`hdr64`, part of `bounded`); counts are updated through TEMP2 = X3. *)
From Coq Require Import List ZArith NArith String Bool Lia FMapPositive.
From SCC Require Import Base.Sexp Lang.AxSyn Sem.AxSem Model.Backend Model.A64 Sem.A64Sem Generated.Constants
     Proof.A64State Proof.A64ImmHw Proof.A64Imm Proof.A64Sel Proof.A64Exec Proof.A64MemSubst Proof.A64Mem.
From SCC Require Model.Heap Sem.X86Sem Proof.X86Mem Proof.X86MemFrame.
Import ListNotations.
Open Scope list_scope.
Open Scope Z_scope.

Ltac rg := repeat first [rewrite rget_set_flags | rewrite rget_set_heap | rewrite rget_sset
                        | rewrite rget_rset_other by (first [congruence|discriminate])].

(* all block headers and the free pointer are 64-bit values at least k above the smallest *)
Definition bounded (k : Z) (s : astate) (f : Z) : Prop :=
  (forall x, is_blk x -> min_int + k <= hword s x <= max_int) /\ min_int + k <= f <= max_int.

Lemma is_blk_in64 x : is_blk x -> min_int + 3 <= x <= max_int. Proof. apply X86Mem.is_blk_range. Qed.
Lemma is_blk_block_ok x : is_blk x -> block_ok x. Proof. intros H. apply heap_addr_block_ok, blk_heap_addr, H. Qed.
Lemma blk0_block_ok p : p = 0 \/ is_blk p -> p = 0 \/ block_ok p.
Proof. intros [H|H]; [now left|right; now apply is_blk_block_ok]. Qed.

(* ---------- the word-level meanings (Proof/A64Exec.v) as abstract operations ---------- *)
Lemma share_h_abs F s s' p n f :
  (p = 0 \/ is_blk p) -> (p <> 0 -> wrap (hword s p + n) = hword s p + n) ->
  rget s' HEAP = rget s HEAP -> rget s' FREE = rget s FREE ->
  (heap s', f) = share_h p n (heap s, f) ->
  st_eqB (abs_heap F s') (Heap.share p n (abs_heap F s)) /\
  (forall a, hword s' a = if negb (p =? 0) && (a =? p) then hword s p + n else hword s a).
Proof.
  intros Hp Hw EH EF E. unfold share_h in E. cbn [fst snd] in E. unfold Heap.share.
  destruct (Z.eqb_spec p 0) as [->|Hn0].
  - inversion E as [E']. cbn [negb andb]. split; [|intros a; unfold hword; now rewrite E'].
    apply abs_heap_eqB; auto. intros a. unfold hword. now rewrite E'.
  - destruct Hp as [|Hb]; [contradiction|]. inversion E as [E']. cbn [negb andb].
    assert (W : forall a, hword s' a = if a =? p then hword s p + n else hword s a).
    { intros a. unfold hword. rewrite E', hget_add by (now apply is_blk_pos). fold (hword s p). now rewrite Hw. }
    split; [|exact W].
    split; [|split; [|split]]; cbn [abs_heap Heap.m Heap.heap Heap.free Heap.frontier]; unfold reg_or0; rewrite ?EH, ?EF; try reflexivity.
    intros x Hx. change (Heap.hdr (abs_mem s p)) with (hword s p). now apply abs_mem_upd.
Qed.

Lemma erase_h_abs F s s' c f f' :
  (c = 0 \/ is_blk c) -> (c <> 0 -> min_int + 1 <= hword s c <= max_int) ->
  rget s FREE = Some f -> rget s' FREE = Some f' -> rget s' HEAP = rget s HEAP ->
  (heap s', f') = erase_h c (heap s, f) ->
  st_eqB (abs_heap F s') (Heap.erase c (abs_heap F s)) /\ f' = Heap.free (Heap.erase c (abs_heap F s)) /\
  nonblk_same s s'.
Proof.
  intros Hc Hw RF RF' RH E. unfold Heap.erase.
  assert (FA : Heap.free (abs_heap F s) = f) by (unfold abs_heap, reg_or0; cbn [Heap.free]; now rewrite RF).
  destruct (Z.eqb_spec c 0) as [->|Hn0].
  - unfold erase_h in E. cbn [Z.eqb] in E. inversion E as [[E1 E2]]. split; [|split; [now rewrite FA|now apply nonblk_same_heap]].
    apply abs_heap_eqB; [intros a; unfold hword; now rewrite E1|exact RH|now rewrite RF, RF', E2].
  - destruct Hc as [|Hb]; [contradiction|]. specialize (Hw Hn0).
    rewrite erase_h_in64 in E by (cbn [fst]; fold (hword s c); lia). cbn [fst snd] in E. fold (hword s c) in E.
    destruct (Z.eqb_spec c 0) as [|_]; [contradiction|].
    change (Heap.hdr (Heap.m (abs_heap F s) c)) with (hword s c).
    destruct (Z.eqb_spec (hword s c) 0) as [H0|Hnz]; inversion E as [[E1 E2]].
    + assert (W : forall a, hword s' a = if a =? c then f else hword s a).
      { intros a. unfold hword. now rewrite E1, hget_add by (now apply is_blk_pos). }
      split; [|split; [reflexivity|]].
      * split; [|split; [|split]]; cbn [abs_heap Heap.m Heap.heap Heap.free Heap.frontier]; unfold reg_or0; rewrite ?RH, ?RF', ?RF; try reflexivity; try assumption.
        intros x Hx. now apply abs_mem_upd.
      * intros a Ha. rewrite W. destruct (Z.eqb_spec a c); [subst; contradiction|reflexivity].
    + assert (W : forall a, hword s' a = if a =? c then hword s c - 1 else hword s a).
      { intros a. unfold hword. rewrite E1, hget_add by (now apply is_blk_pos). fold (hword s c).
        now rewrite (wrap_in64 (hword s c - 1)) by lia. }
      split; [|split; [cbn [Heap.free]; now rewrite FA|]].
      * split; [|split; [|split]]; cbn [abs_heap Heap.m Heap.heap Heap.free Heap.frontier]; unfold reg_or0; rewrite ?RH, ?RF', ?RF; try reflexivity; try assumption.
        intros x Hx. change (Heap.hdr (abs_mem s c)) with (hword s c). now apply abs_mem_upd.
      * intros a Ha. rewrite W. destruct (Z.eqb_spec a c); [subst; contradiction|reflexivity].
Qed.

Section Refine.
Variable im : image.

(* ---------- share_block_n ---------- *)
Theorem a64_share_block_ok pos t n lc s sp p F :
  let cs := fst (a_share_block_n t n lc) in
  code_at im pos cs -> labels_at im pos cs ->
  frame_ok s sp -> operand_ok t -> lget s sp t = Some p ->
  (p = 0 \/ is_blk p) ->
  (p <> 0 -> wrap (hword s p + Z.of_N n) = hword s p + Z.of_N n) ->
  exists s', exec_to im pos s (padd pos (List.length cs)) s' /\
     st_eqB (abs_heap F s') (Heap.share p (Z.of_N n) (abs_heap F s)) /\
     sbt s s' /\ frame_ok s' sp /\
     (forall a, hword s' a = if negb (p =? 0) && (a =? p) then hword s p + Z.of_N n else hword s a).
Proof.
  intros cs HC HL FR T P Hp Hw.
  destruct (a64_share_ok im pos s sp t n lc p 0 HC HL FR T P (blk0_block_ok p Hp)) as (s' & EX & EH & R & ST & OUT).
  assert (SB : sbt s s') by (split; [exact R|split; assumption]).
  destruct (share_h_abs F s s' p (Z.of_N n) 0 Hp Hw ltac:(apply R; discriminate) ltac:(apply R; discriminate) EH) as [EQ W].
  exists s'. split; [exact EX|]. split; [exact EQ|]. split; [exact SB|]. split; [eapply sbt_frame; eauto|exact W].
Qed.

(* ---------- erase_block ---------- *)
Theorem a64_erase_block_ok pos t lc s sp p f F :
  let cs := fst (a_erase_block t lc) in
  code_at im pos cs -> labels_at im pos cs ->
  frame_ok s sp -> operand_ok t -> t <> AR FREE -> t <> AR HEAP -> lget s sp t = Some p -> rget s FREE = Some f ->
  (p = 0 \/ is_blk p) ->
  (p <> 0 -> min_int + 1 <= hword s p <= max_int) ->
  exists s', exec_to im pos s (padd pos (List.length cs)) s' /\
     st_eqB (abs_heap F s') (Heap.erase p (abs_heap F s)) /\
     sbtf s s' /\ frame_ok s' sp /\ rget s' FREE = Some (Heap.free (Heap.erase p (abs_heap F s))) /\
     nonblk_same s s'.
Proof.
  intros cs HC HL FR T NF NH P Fr Hp Hw.
  destruct (a64_erase_ok im pos s sp t lc p f HC HL FR T NF P (blk0_block_ok p Hp) Fr) as (s' & f' & EX & RF' & EH & R & ST & OUT).
  assert (SB : sbtf s s') by (split; [exact R|split; assumption]).
  destruct (erase_h_abs F s s' p f f' Hp Hw Fr RF' ltac:(apply R; discriminate) EH) as (EQ & Ef & NB).
  exists s'. split; [exact EX|]. split; [exact EQ|]. split; [exact SB|]. split; [eapply sbtf_frame; eauto|].
  split; [now rewrite RF', Ef|exact NB].
Qed.

(* ---------- release_block ---------- *)
Theorem a64_release_block_ok pos r s p h F :
  code_at im pos (release_block r) -> gp r ->
  rget s r = Some p -> rget s HEAP = Some h -> is_blk p ->
  exists s', exec_to im pos s (padd pos 2) s' /\
     st_eqB (abs_heap F s') (Heap.release p (abs_heap F s)) /\
     (forall r', r' <> HEAP -> rget s' r' = rget s r') /\ rget s' HEAP = Some p /\ stack s' = stack s /\ out s' = out s /\
     (forall a, hword s' a = if a =? p then h else hword s a).
Proof.
  intros HC G R Hh Hb. unfold release_block in HC. change NEXT_ELEMENT_OFFSET with 0 in HC. change HEAP with (X 0) in *.
  pose proof (blk_heap_addr0 p Hb) as Ha.
  exists (rset (hset s (p + 0) h) (X 0) (Some p)). split; [|split; [|split; [|split; [|split; [|split]]]]].
  - eapply exec_next; [apply (HC 0%nat); reflexivity|apply (step_STR_h im s (X 0) r 0 p h G R Ha Hh)|].
    eapply exec_next; [apply (HC 1%nat); reflexivity|apply step_MOVR|]. rg. rewrite R. apply exec_refl.
  - rewrite Z.add_0_r. unfold Heap.release. unfold abs_heap at 1, reg_or0. change HEAP with (X 0). change FREE with (X 1).
    rewrite rget_rset_same by exact I. rg.
    split; [reflexivity|]. split; [reflexivity|]. split; [reflexivity|].
    intros x Hx. cbn [Heap.m abs_heap Heap.heap]. unfold reg_or0 at 1. change HEAP with (X 0). rewrite Hh.
    rewrite <- (abs_mem_hset s p h x Hb Hx). unfold abs_mem, hword. now rewrite !heap_rset.
  - intros r' Hr. now rg.
  - apply rget_rset_same. exact I.
  - now rewrite stack_rset.
  - now rewrite out_rset.
  - intros a. rewrite Z.add_0_r, hword_rset, hword_hset by (now apply is_blk_pos). reflexivity.
Qed.

(* ---------- one iteration of erase_fields in acquire_block: load a child, erase it ---------- *)
Lemma a64_erase_field_ok pos off lc s sp h2 f F :
  let cs := LDR TEMP HEAP off :: fst (a_erase_block (AR TEMP) lc) in
  code_at im pos cs -> labels_at im pos cs ->
  (off = 16 \/ off = 32 \/ off = 48) ->
  frame_ok s sp -> rget s HEAP = Some h2 -> is_blk h2 -> rget s FREE = Some f ->
  let c := hword s (h2 + off) in
  (c = 0 \/ is_blk c) ->
  (c <> 0 -> min_int + 1 <= hword s c <= max_int) ->
  exists s', exec_to im pos s (padd pos (List.length cs)) s' /\
    st_eqB (abs_heap F s') (Heap.erase c (abs_heap F s)) /\
    sbtf s s' /\ frame_ok s' sp /\
    rget s' FREE = Some (Heap.free (Heap.erase c (abs_heap F s))) /\ nonblk_same s s'.
Proof.
  intros cs HC HL Hoff FR Hh Hb Hf c Hc Hw. subst cs.
  assert (Ha : heap_addr (h2 + off)) by (apply X86Mem.is_blk_addr; auto; tauto).
  set (s0 := rset s TEMP (Some c)).
  assert (F0 : frame_ok s0 sp) by (apply frame_ok_rset; [discriminate|exact FR]).
  pose proof (code_at_tail _ _ _ _ HC) as HC1. pose proof (labels_at_tail _ _ _ _ HL) as HL1.
  assert (E0 : abs_heap F s0 = abs_heap F s).
  { apply abs_heap_ext; unfold s0; [apply heap_rset|change TEMP with (X 2); change HEAP with (X 0); now rg|change TEMP with (X 2); change FREE with (X 1); now rg]. }
  destruct (a64_erase_reg im (Pos.succ pos) s0 2%N lc c f HC1 HL1 ltac:(discriminate) ltac:(discriminate)) as (s' & f' & EX & RF' & EH & R & ST & OUT & SPV).
  { unfold s0. change TEMP with (X 2). apply rget_rset_same. exact I. }
  { now apply blk0_block_ok. }
  { unfold s0. change TEMP with (X 2). change FREE with (X 1) in *. now rg. }
  destruct (erase_h_abs F s0 s' c f f' Hc) as (EQ & Ef & NB).
  { unfold s0. intros H. rewrite hword_rset. auto. }
  { unfold s0. change TEMP with (X 2). change FREE with (X 1) in *. now rg. }
  { exact RF'. }
  { apply R; discriminate. }
  { exact EH. }
  rewrite E0 in EQ, Ef.
  exists s'. split; [|split; [exact EQ|split; [|split; [|split; [now rewrite RF', Ef|]]]]].
  - eapply exec_next; [apply (HC 0%nat); reflexivity|apply (step_LDR_h im s TEMP HEAP off h2 I Hh Ha)|].
    cbn [List.length padd]. fold c. fold s0. exact EX.
  - split; [|split; [now rewrite ST|now rewrite OUT]]. intros r H1 H2 H3. rewrite R by assumption. unfold s0. now rg.
  - split; [|apply FR]. rewrite SPV. apply F0.
  - intros a Ha'. rewrite NB by exact Ha'. unfold s0. apply hword_rset.
Qed.

(* ---------- the code of acquire_block, its parts folded ---------- *)
Definition acq_pre (t : atemp) : list acode :=
  match t with AR r => [MOVR r HEAP] | AS p => [MOVR TEMP HEAP; STR HEAP SP (stack_offset p)] end.
Definition acq_init (t : atemp) : list acode :=
  match t with AR r => [STR XZR r REFERENCE_COUNT_OFFSET] | AS _ => [STR XZR TEMP REFERENCE_COUNT_OFFSET] end.
Definition ef_code (off : Z) (lc : N) : list acode := LDR TEMP HEAP off :: fst (a_erase_block (AR TEMP) lc).

Lemma erase_fields_shape lc :
  let l1 := snd (a_erase_block (AR TEMP) lc) in
  let l2 := snd (a_erase_block (AR TEMP) l1) in
  erase_fields HEAP lc = ((ef_code 16 lc ++ ef_code 32 l1) ++ ef_code 48 l2, snd (a_erase_block (AR TEMP) l2)).
Proof.
  unfold erase_fields, ef_code. change (nseq 0 FIELDS_PER_BLOCK) with [0; 1; 2]%N. cbn [fold_left].
  change (field_offset Fst 0) with 16. change (field_offset Fst 1) with 32. change (field_offset Fst 2) with 48.
  destruct (a_erase_block (AR TEMP) lc) as [c0 l1]. cbn [fst snd].
  destruct (a_erase_block (AR TEMP) l1) as [c1 l2]. cbn [fst snd].
  destruct (a_erase_block (AR TEMP) l2) as [c2 l3]. cbn [fst snd app]. reflexivity.
Qed.

Lemma acquire_block_shape t lc :
  exists ef lc1 lc2,
    erase_fields HEAP lc = (ef, lc1) /\
    fst (acquire_block t lc) =
      (acq_pre t ++ [LDR HEAP HEAP NEXT_ELEMENT_OFFSET]) ++
      fst (if_zero_then_else HEAP
             ([MOVR HEAP FREE; LDR FREE FREE NEXT_ELEMENT_OFFSET] ++
              fst (if_zero_then_else FREE [ADDI FREE HEAP (field_offset Fst FIELDS_PER_BLOCK)]
                     ([STR XZR HEAP NEXT_ELEMENT_OFFSET] ++ ef) lc1))
             (acq_init t) lc2).
Proof.
  unfold acquire_block. destruct (erase_fields HEAP lc) as [ef lc1].
  destruct (if_zero_then_else FREE _ _ lc1) as [inner lc2] eqn:EI.
  exists ef, lc1, lc2. split; [reflexivity|].
  destruct (if_zero_then_else HEAP _ _ lc2) as [outer lc3] eqn:EO. cbn [fst].
  rewrite EI. cbn [fst]. unfold acq_pre, acq_init. rewrite EO. reflexivity.
Qed.

(* the three erasures of case (2), from a state whose HEAP register points to the recycled block *)
Lemma a64_erase_fields_ok pos lc s sp h2 f F :
  code_at im pos (fst (erase_fields HEAP lc)) -> labels_at im pos (fst (erase_fields HEAP lc)) ->
  frame_ok s sp -> rget s HEAP = Some h2 -> is_blk h2 -> rget s FREE = Some f ->
  (forall off, off = 16 \/ off = 32 \/ off = 48 -> hword s (h2 + off) = 0 \/ is_blk (hword s (h2 + off))) ->
  bounded 3 s f ->
  exists s', exec_to im pos s (padd pos (List.length (fst (erase_fields HEAP lc)))) s' /\
    st_eqB (abs_heap F s')
      (fold_left (fun a c => Heap.erase c a) [hword s (h2 + 16); hword s (h2 + 32); hword s (h2 + 48)] (abs_heap F s)) /\
    sbtf s s' /\ frame_ok s' sp /\ (exists f', rget s' FREE = Some f') /\ nonblk_same s s'.
Proof.
  intros HC HL FR Hh Hb Hf Hk BD. rewrite erase_fields_shape in *. cbn [fst] in *.
  set (l1 := snd (a_erase_block (AR TEMP) lc)) in *. set (l2 := snd (a_erase_block (AR TEMP) l1)) in *.
  apply code_at_app2 in HC as [HC HC3]. apply labels_at_app2 in HL as [HL HL3].
  apply code_at_app2 in HC as [HC1 HC2]. apply labels_at_app2 in HL as [HL1 HL2].
  assert (NB16 : ~ is_blk (h2 + 16)) by (apply X86MemFrame.not_blk_off; [exact Hb|lia]).
  assert (NB32 : ~ is_blk (h2 + 32)) by (apply X86MemFrame.not_blk_off; [exact Hb|lia]).
  assert (NB48 : ~ is_blk (h2 + 48)) by (apply X86MemFrame.not_blk_off; [exact Hb|lia]).
  set (c1 := hword s (h2 + 16)). set (c2 := hword s (h2 + 32)). set (c3 := hword s (h2 + 48)).
  assert (FA : Heap.free (abs_heap F s) = f) by (unfold abs_heap, reg_or0; cbn [Heap.free]; now rewrite Hf).
  (* bounds survive an erase with one unit less of room *)
  assert (BAE : forall k s0 f0 s1 c, bounded (k + 1) s0 f0 -> 0 <= k <= 2 -> Heap.free (abs_heap F s0) = f0 -> (c = 0 \/ is_blk c) ->
            st_eqB (abs_heap F s1) (Heap.erase c (abs_heap F s0)) -> bounded k s1 (Heap.free (Heap.erase c (abs_heap F s0)))).
  { intros k s0 f0 s1 c [B1 B2] Hk0 Hf0 Hc (_ & _ & _ & E). split.
    - intros x Hx. change (hword s1 x) with (Heap.hdr (Heap.m (abs_heap F s1) x)). rewrite (E x Hx).
      specialize (B1 x Hx). change (hword s0 x) with (Heap.hdr (Heap.m (abs_heap F s0) x)) in B1.
      destruct (X86Mem.erase_hdr_cases (abs_heap F s0) c x) as [->|[->| ->]]; rewrite ?Hf0; lia.
    - destruct (X86Mem.erase_free_cases (abs_heap F s0) c) as [->| ->]; [rewrite Hf0; lia|].
      destruct Hc as [->|Hcb]; [unfold min_int, max_int, two63; lia|]. pose proof (is_blk_in64 c Hcb). lia. }
  (* first child *)
  destruct (a64_erase_field_ok pos 16 lc s sp h2 f F HC1 HL1 ltac:(auto) FR Hh Hb Hf (Hk 16 ltac:(auto)))
    as (s1 & X1 & Q1 & SB1 & FR1 & RF1 & N1).
  { intros Hn. fold c1 in Hn |- *. destruct (Hk 16 ltac:(auto)) as [|Hcb]; [contradiction|]. destruct BD as [B _]. specialize (B _ Hcb). fold c1 in B. lia. }
  fold c1 in Q1, RF1.
  pose proof (BAE 2 s f s1 c1 BD ltac:(lia) FA (Hk 16 ltac:(auto)) Q1) as BD1.
  set (a1 := Heap.erase c1 (abs_heap F s)) in *.
  assert (FA1 : Heap.free (abs_heap F s1) = Heap.free a1) by (unfold abs_heap, reg_or0; cbn [Heap.free]; now rewrite RF1).
  assert (Hh1 : rget s1 HEAP = Some h2) by (destruct SB1 as (R & _); rewrite R by discriminate; exact Hh).
  (* second child *)
  destruct (a64_erase_field_ok _ 32 l1 s1 sp h2 _ F HC2 HL2 ltac:(auto) FR1 Hh1 Hb RF1) as (s2 & X2 & Q2 & SB2 & FR2 & RF2 & N2).
  { rewrite N1 by exact NB32. apply Hk. auto. }
  { rewrite N1 by exact NB32. intros Hn. destruct (Hk 32 ltac:(auto)) as [|Hcb]; [contradiction|]. destruct BD1 as [B _]. specialize (B _ Hcb). lia. }
  rewrite N1 in Q2, RF2 by exact NB32. fold c2 in Q2, RF2.
  assert (Q2' : st_eqB (abs_heap F s2) (Heap.erase c2 a1)).
  { eapply X86Mem.st_eqB_trans; [exact Q2|]. apply X86Mem.erase_st_eqB; [exact Q1|apply Hk; auto]. }
  assert (RF2' : rget s2 FREE = Some (Heap.free (Heap.erase c2 a1))).
  { rewrite RF2. f_equal. assert (st_eqB (Heap.erase c2 (abs_heap F s1)) (Heap.erase c2 a1)) as (_ & E & _); [|exact E].
    apply X86Mem.erase_st_eqB; [exact Q1|apply Hk; auto]. }
  pose proof (BAE 1 s1 _ s2 c2 BD1 ltac:(lia) FA1 (Hk 32 ltac:(auto)) Q2) as BD2.
  set (a2 := Heap.erase c2 a1) in *.
  assert (Hh2 : rget s2 HEAP = Some h2) by (destruct SB2 as (R & _); rewrite R by discriminate; exact Hh1).
  (* third child *)
  destruct (a64_erase_field_ok _ 48 l2 s2 sp h2 _ F HC3 HL3 ltac:(auto) FR2 Hh2 Hb RF2) as (s3 & X3 & Q3 & SB3 & FR3 & RF3 & N3).
  { rewrite N2, N1 by assumption. apply Hk. auto. }
  { rewrite N2, N1 by assumption. intros Hn. destruct (Hk 48 ltac:(auto)) as [|Hcb]; [contradiction|]. destruct BD2 as [B _]. specialize (B _ Hcb). lia. }
  rewrite N2, N1 in Q3, RF3 by assumption. fold c3 in Q3, RF3.
  exists s3. split; [|split; [|split; [|split; [|split]]]].
  - rewrite !app_length, !padd_add. eapply exec_to_trans; [exact X1|]. eapply exec_to_trans; [exact X2|exact X3].
  - cbn [fold_left]. fold a1 a2. eapply X86Mem.st_eqB_trans; [exact Q3|]. apply X86Mem.erase_st_eqB; [exact Q2'|apply Hk; auto].
  - eapply sbtf_trans; [exact SB1|]. eapply sbtf_trans; eassumption.
  - exact FR3.
  - eexists; exact RF3.
  - eapply nonblk_same_trans; [exact N1|]. eapply nonblk_same_trans; eassumption.
Qed.

(* ---------- acquire_block after the copy of the block pointer ---------- *)
(* ri holds the acquired block (the target register, or TEMP when the target is a spill slot); it is the
   register through which case (1) initialises the header of the acquired block.
   SEEDED DEFECT 1 (acquire_block into a spill slot writes `STR XZR, [HEAP]` instead of `STR XZR, [TEMP]`):
   with ri := HEAP the hypothesis `rget s ri = Some rv` is false after `LDR HEAP, [HEAP]` - the proof of case (1)
   below needs the store to go to rv (`step_STR_h ... Ri`), and the conclusion `st_eqB ... (Heap.acquire ...)`
   demands header(rv) = 0 while the defective code leaves the free-list link there and zeroes the header of the
   NEXT reusable block instead.  So `a64_acquire_block_spill_ok` does not prove for that variant. *)
Ltac padd_eq := rewrite <- ?padd_add; f_equal; repeat (rewrite app_length || cbn [List.length]); lia.

Lemma a64_acquire_tail pos ri lc lc1 lc2 s sp rv h2 F :
  let ef := fst (erase_fields HEAP lc) in
  let inner := fst (if_zero_then_else FREE [ADDI FREE HEAP (field_offset Fst FIELDS_PER_BLOCK)]
                      ([STR XZR HEAP NEXT_ELEMENT_OFFSET] ++ ef) lc1) in
  let cs := [LDR HEAP HEAP NEXT_ELEMENT_OFFSET] ++
            fst (if_zero_then_else HEAP ([MOVR HEAP FREE; LDR FREE FREE NEXT_ELEMENT_OFFSET] ++ inner)
                   [STR XZR ri REFERENCE_COUNT_OFFSET] lc2) in
  code_at im pos cs -> labels_at im pos cs ->
  frame_ok s sp -> gp ri -> ri <> HEAP -> ri <> FREE ->
  rget s ri = Some rv -> rget s HEAP = Some rv -> is_blk rv -> rget s FREE = Some h2 ->
  min_int <= hword s rv <= max_int ->
  (hword s rv = 0 -> is_blk h2) ->
  (hword s rv = 0 -> hword s h2 <> 0 ->
     (forall off, off = 16 \/ off = 32 \/ off = 48 -> hword s (h2 + off) = 0 \/ is_blk (hword s (h2 + off))) /\
     bounded 3 s (hword s h2)) ->
  exists s', exec_to im pos s (padd pos (List.length cs)) s' /\
    st_eqB (abs_heap (Heap.frontier (snd (Heap.acquire (abs_heap F s)))) s') (snd (Heap.acquire (abs_heap F s))) /\
    fst (Heap.acquire (abs_heap F s)) = rv /\
    (forall r', r' <> TEMP -> r' <> TEMP2 -> r' <> HEAP -> r' <> FREE -> rget s' r' = rget s r') /\
    (hword s rv <> 0 -> rget s' TEMP = rget s TEMP /\ rget s' TEMP2 = rget s TEMP2) /\
    stack s' = stack s /\ out s' = out s /\ frame_ok s' sp /\ nonblk_same s s'.
Proof.
  intros ef inner cs HC HL FR G NH NF Ri Hh Hb Hf I64 Hb2 Hch. subst cs.
  change NEXT_ELEMENT_OFFSET with 0 in *. change REFERENCE_COUNT_OFFSET with 0 in *.
  assert (HA : Heap.heap (abs_heap F s) = rv) by (unfold abs_heap, reg_or0; cbn [Heap.heap]; now rewrite Hh).
  assert (FA : Heap.free (abs_heap F s) = h2) by (unfold abs_heap, reg_or0; cbn [Heap.free]; now rewrite Hf).
  pose proof (blk_heap_addr0 rv Hb) as Ha.
  apply code_at_app2 in HC as [HC0 HC]. apply labels_at_app2 in HL as [_ HL]. cbn [List.length padd] in HC, HL.
  set (TB := [MOVR HEAP FREE; LDR FREE FREE 0] ++ inner) in *. set (EB := [STR XZR ri 0]) in *.
  destruct (ite_frame im (Pos.succ pos) HEAP TB EB lc2 HC HL) as (lt & le & _ & _ & CE & _ & _ & _ & _ & CT & LT & _ & _).
  set (s1 := rset s HEAP (Some (hword s (rv + 0)))).
  assert (X0 : exec_to im pos s (Pos.succ pos) s1).
  { eapply exec_next; [apply (HC0 0%nat); reflexivity|apply (step_LDR_h im s HEAP HEAP 0 rv I Hh Ha)|apply exec_refl]. }
  assert (R1 : rget s1 HEAP = Some (hword s rv)) by (unfold s1; rewrite Z.add_0_r; apply rget_rset_same; exact I).
  set (s1f := set_flags s1 (Some (cmp_flags (hword s rv) 0))) in *.
  assert (LEN : padd pos (List.length ([LDR HEAP HEAP 0] ++ fst (if_zero_then_else HEAP TB EB lc2))) =
                padd (Pos.succ pos) (List.length (fst (if_zero_then_else HEAP TB EB lc2)))) by reflexivity.
  rewrite LEN. clear LEN.
  unfold Heap.acquire. rewrite HA, FA. change (Heap.hdr (Heap.m (abs_heap F s) rv)) with (hword s rv).
  change (Heap.hdr (Heap.m (abs_heap F s) h2)) with (hword s h2).
  destruct (Z.eqb_spec (hword s rv) 0) as [H0|Hn0]; cbn [negb].
  2:{ (* (1) the reuse list has a next block *)
    cbn [fst snd Heap.frontier].
    exists (hset s1f (rv + 0) 0). split; [|split; [|split; [reflexivity|split; [|split; [|split; [|split; [|split]]]]]]].
    - eapply exec_to_trans; [exact X0|]. eapply ite_nz; [exact HC|exact HL|exact R1|rewrite wrap_in64 by exact I64; now apply Z.eqb_neq|].
      eapply exec_next; [apply (CE 0%nat); reflexivity| |apply exec_refl].
      apply (step_STR_h im s1f XZR ri 0 rv 0 G); [unfold s1f, s1; now rg|exact Ha|reflexivity].
    - rewrite Z.add_0_r.
      split; [|split; [|split]]; cbn [abs_heap Heap.m Heap.heap Heap.free Heap.frontier]; unfold reg_or0.
      + unfold s1f. rg. now rewrite R1.
      + unfold s1f, s1. change HEAP with (X 0). change FREE with (X 1). rg. change (X 1) with FREE. now rewrite Hf.
      + reflexivity.
      + intros x Hx. apply abs_mem_upd; auto. intros a. rewrite hword_hset by (now apply is_blk_pos). reflexivity.
    - intros r' _ _ N3 _. unfold s1f, s1. now rg.
    - intros _. unfold s1f, s1. change HEAP with (X 0). change TEMP with (X 2). change TEMP2 with (X 3). split; now rg.
    - reflexivity.
    - reflexivity.
    - apply frame_ok_hset, frame_ok_set_flags, frame_ok_rset; [discriminate|exact FR].
    - rewrite Z.add_0_r. intros a Na. rewrite hword_hset by (now apply is_blk_pos). destruct (Z.eqb_spec a rv); [subst; contradiction|reflexivity]. }
  (* the reuse list is exhausted: look at the deferred list *)
  specialize (Hb2 H0). pose proof (blk_heap_addr0 h2 Hb2) as Ha2.
  apply code_at_app2 in CT as [CT0 CI]. apply labels_at_app2 in LT as [_ LI]. cbn [List.length] in CI, LI.
  set (pT := padd (Pos.succ pos) (4 + List.length EB)) in *.
  set (s2 := rset s1f HEAP (Some h2)).
  set (s3 := rset s2 FREE (Some (hword s (h2 + 0)))).
  assert (X3 : exec_to im pT s1f (padd pT 2) s3).
  { eapply exec_next; [apply (CT0 0%nat); reflexivity|apply step_MOVR|].
    replace (rget s1f FREE) with (Some h2) by (unfold s1f, s1; change HEAP with (X 0); change FREE with (X 1) in *; now rg).
    fold s2. eapply exec_next; [apply (CT0 1%nat); reflexivity| |apply exec_refl].
    apply (step_LDR_h im s2 FREE FREE 0 h2 I); [unfold s2, s1f, s1; change HEAP with (X 0); change FREE with (X 1) in *; now rg|exact Ha2]. }
  assert (R3H : rget s3 HEAP = Some h2) by (unfold s3, s2; change HEAP with (X 0); change FREE with (X 1); rg; apply rget_rset_same; exact I).
  assert (R3F : rget s3 FREE = Some (hword s h2)) by (unfold s3; rewrite Z.add_0_r; apply rget_rset_same; exact I).
  assert (W3 : forall a, hword s3 a = hword s a) by (intros a; unfold s3, s2, s1f, s1; now rewrite !hword_rset, hword_set_flags, hword_rset).
  assert (FR3 : frame_ok s3 sp).
  { unfold s3, s2, s1f, s1. repeat first [apply frame_ok_rset; [discriminate|] | apply frame_ok_set_flags]. exact FR. }
  assert (O3 : forall r', r' <> HEAP -> r' <> FREE -> rget s3 r' = rget s r') by (intros r' N1 N2; unfold s3, s2, s1f, s1; now rg).
  set (TBF := [ADDI FREE HEAP (field_offset Fst FIELDS_PER_BLOCK)]) in *. set (EBF := [STR XZR HEAP 0] ++ ef) in *.
  destruct (ite_frame im (padd pT 2) FREE TBF EBF lc1 CI LI) as (lt' & le' & _ & _ & CE' & LE' & _ & _ & _ & CT' & _ & _ & _).
  set (s3f := set_flags s3 (Some (cmp_flags (hword s h2) 0))) in *.
  assert (TOP : forall s', exec_to im (padd pT 2) s3 (padd (padd pT 2) (List.length inner)) s' ->
            exec_to im pos s (padd (Pos.succ pos) (List.length (fst (if_zero_then_else HEAP TB EB lc2)))) s').
  { intros s' X. eapply exec_to_trans; [exact X0|]. eapply ite_zero; [exact HC|exact HL|exact R1|rewrite H0; reflexivity|].
    fold pT. fold s1f. eapply exec_to_trans; [exact X3|].
    replace (padd (Pos.succ pos) (4 + List.length EB + List.length TB)) with (padd (padd pT 2) (List.length inner)); [exact X|].
    unfold pT, TB. padd_eq. }
  destruct (Z.eqb_spec (hword s h2) 0) as [F0|Fn0].
  - (* (3) nothing deferred: bump *)
    cbn [fst snd Heap.frontier]. unfold Heap.BLOCK.
    set (s4 := rset s3f FREE (Some (wrap (h2 + field_offset Fst FIELDS_PER_BLOCK)))).
    exists s4. split; [|split; [|split; [reflexivity|split; [|split; [|split; [|split; [|split]]]]]]].
    + apply TOP. eapply ite_zero; [exact CI|exact LI|exact R3F|rewrite F0; reflexivity|].
      fold s3f. eapply exec_next; [apply (CT' 0%nat); reflexivity| |apply exec_refl].
      apply step_ADDI_reg. unfold s3f. rg. exact R3H.
    + assert (WR : wrap (h2 + field_offset Fst FIELDS_PER_BLOCK) = h2 + 64).
      { rewrite fo_F3. apply wrap_in64. pose proof (is_blk_in64 h2 Hb2). destruct Hb2 as (k & Hk & E & L). unfb. unfold min_int, max_int, two63 in *. lia. }
      split; [|split; [|split]]; cbn [abs_heap Heap.m Heap.heap Heap.free Heap.frontier]; unfold reg_or0.
      * unfold s4, s3f. change HEAP with (X 0) in *. change FREE with (X 1) in *. rg. now rewrite R3H.
      * unfold s4. rewrite rget_rset_same by exact I. exact WR.
      * reflexivity.
      * intros x Hx. unfold abs_mem. unfold s4, s3f. rewrite !hword_rset, !hword_set_flags, !W3. reflexivity.
    + intros r' _ _ N3 N4. unfold s4, s3f. rg. now apply O3.
    + intros C. contradiction.
    + unfold s4, s3f, s3, s2, s1f, s1. now rewrite !stack_rset.
    + unfold s4, s3f, s3, s2, s1f, s1. now rewrite !out_rset.
    + unfold s4, s3f. apply frame_ok_rset; [discriminate|]. apply frame_ok_set_flags. exact FR3.
    + intros a _. unfold s4, s3f. rewrite hword_rset, hword_set_flags. apply W3.
  - (* (2) recycle the first deferred block, erase its children *)
    destruct (Hch H0 Fn0) as [Hk BD].
    apply code_at_app2 in CE' as [CS CEF]. apply labels_at_app2 in LE' as [_ LEF]. cbn [List.length] in CEF, LEF.
    set (s4 := hset s3f (h2 + 0) 0).
    assert (W4 : forall a, hword s4 a = if a =? h2 then 0 else hword s a).
    { intros a. unfold s4. rewrite Z.add_0_r, hword_hset by (now apply is_blk_pos). unfold s3f. now rewrite hword_set_flags, W3. }
    assert (R4H : rget s4 HEAP = Some h2) by (unfold s4, s3f; rg; exact R3H).
    assert (R4F : rget s4 FREE = Some (hword s h2)) by (unfold s4, s3f; rg; exact R3F).
    assert (FR4 : frame_ok s4 sp) by (apply frame_ok_hset, frame_ok_set_flags, FR3).
    assert (X4 : exec_to im (padd (padd pT 2) 2) s3f (padd (padd (padd pT 2) 2) 1) s4).
    { eapply exec_next; [apply (CS 0%nat); reflexivity| |apply exec_refl].
      apply (step_STR_h im s3f XZR HEAP 0 h2 0 I); [unfold s3f; rg; exact R3H|exact Ha2|reflexivity]. }
    assert (NBo : forall off, off = 16 \/ off = 32 \/ off = 48 -> hword s4 (h2 + off) = hword s (h2 + off)).
    { intros off Ho. rewrite W4. destruct (Z.eqb_spec (h2 + off) h2); [lia|reflexivity]. }
    destruct (a64_erase_fields_ok _ lc s4 sp h2 (hword s h2) F CEF LEF FR4 R4H Hb2 R4F) as (s5 & X5 & Q5 & SB5 & FR5 & (f5 & RF5) & N5).
    { intros off Ho. rewrite NBo by exact Ho. now apply Hk. }
    { destruct BD as [B1 B2]. split; [|exact B2]. intros x Hx. rewrite W4. destruct (x =? h2); [unfold min_int, max_int, two63; lia|now apply B1]. }
    rewrite !NBo in Q5 by auto.
    (* the abstract state before the erasures *)
    set (a1 := {| Heap.m := Heap.set_hdr (Heap.m (abs_heap F s)) h2 0; Heap.heap := h2; Heap.free := hword s h2;
                  Heap.frontier := Heap.frontier (abs_heap F s) |}).
    assert (E4 : st_eqB (abs_heap F s4) a1).
    { split; [|split; [|split]]; cbn [abs_heap a1 Heap.m Heap.heap Heap.free Heap.frontier]; unfold reg_or0.
      - now rewrite R4H.
      - now rewrite R4F.
      - reflexivity.
      - intros x Hx. now apply abs_mem_upd. }
    assert (KF : Forall (fun c => c = 0 \/ is_blk c) [hword s (h2 + 16); hword s (h2 + 32); hword s (h2 + 48)]).
    { repeat (apply Forall_cons; [apply Hk; auto|]). apply Forall_nil. }
    cbn [fst snd]. change (Heap.ps (Heap.m (abs_heap F s) h2)) with [hword s (h2 + 16); hword s (h2 + 32); hword s (h2 + 48)].
    fold a1.
    assert (FRN : forall l a, Heap.frontier (fold_left (fun s c => Heap.erase c s) l a) = Heap.frontier a).
    { induction l as [|c l IH]; intros a; cbn [fold_left]; [reflexivity|]. rewrite IH. unfold Heap.erase.
      destruct (c =? 0); [reflexivity|]. destruct (_ =? 0); reflexivity. }
    rewrite FRN. cbn [a1 Heap.frontier abs_heap].
    exists s5. split; [|split; [|split; [reflexivity|split; [|split; [|split; [|split; [|split]]]]]]].
    + apply TOP. eapply ite_nz; [exact CI|exact LI|exact R3F|rewrite wrap_in64 by (destruct BD as [_ B2]; lia); now apply Z.eqb_neq|].
      fold s3f. eapply exec_to_trans; [exact X4|].
      replace (padd (padd pT 2) (2 + List.length EBF)) with (padd (padd (padd (padd pT 2) 2) 1) (List.length ef)) by (unfold EBF; padd_eq).
      exact X5.
    + eapply X86Mem.st_eqB_trans; [exact Q5|]. apply X86MemFrame.erase_list_st_eqB; [exact E4|exact KF].
    + intros r' N1 N2 N3 N4. destruct SB5 as (R5 & _). rewrite R5 by assumption. unfold s4, s3f. rg. now apply O3.
    + intros C. contradiction.
    + destruct SB5 as (_ & S5 & _). rewrite S5. unfold s4, s3f, s3, s2, s1f, s1. cbn [stack set_heap set_flags]. now rewrite !stack_rset.
    + destruct SB5 as (_ & _ & O5). rewrite O5. unfold s4, s3f, s3, s2, s1f, s1. cbn [out set_heap set_flags]. now rewrite !out_rset.
    + exact FR5.
    + intros a Na. rewrite N5 by exact Na. rewrite W4. destruct (Z.eqb_spec a h2); [subst; contradiction|reflexivity].
Qed.

(* ---------- acquire_block, the new block in a register ---------- *)
Theorem a64_acquire_block_reg_ok pos r lc s sp rv h2 F :
  let cs := fst (acquire_block (AR r) lc) in
  code_at im pos cs -> labels_at im pos cs ->
  frame_ok s sp -> gp r -> r <> HEAP -> r <> FREE -> r <> TEMP -> r <> TEMP2 ->
  rget s HEAP = Some rv -> is_blk rv -> rget s FREE = Some h2 ->
  min_int <= hword s rv <= max_int ->
  (hword s rv = 0 -> is_blk h2) ->
  (hword s rv = 0 -> hword s h2 <> 0 ->
     (forall off, off = 16 \/ off = 32 \/ off = 48 -> hword s (h2 + off) = 0 \/ is_blk (hword s (h2 + off))) /\
     bounded 3 s (hword s h2)) ->
  exists s', exec_to im pos s (padd pos (List.length cs)) s' /\
    st_eqB (abs_heap (Heap.frontier (snd (Heap.acquire (abs_heap F s)))) s') (snd (Heap.acquire (abs_heap F s))) /\
    rget s' r = Some rv /\ fst (Heap.acquire (abs_heap F s)) = rv /\
    (forall r', r' <> r -> r' <> TEMP -> r' <> TEMP2 -> r' <> HEAP -> r' <> FREE -> rget s' r' = rget s r') /\
    stack s' = stack s /\ out s' = out s /\ frame_ok s' sp /\ nonblk_same s s'.
Proof.
  intros cs HC HL FR G NH NF NT NT2 Hh Hb Hf I64 Hb2 Hch. subst cs.
  destruct (acquire_block_shape (AR r) lc) as (ef & lc1 & lc2 & EF & SH). rewrite SH in *. clear SH.
  assert (ef = fst (erase_fields HEAP lc)) as -> by (now rewrite EF).
  cbn [acq_pre acq_init] in *. rewrite <- app_assoc in HC, HL |- *.
  apply code_at_app2 in HC as [HC0 HC]. apply labels_at_app2 in HL as [_ HL]. cbn [List.length] in HC, HL.
  set (s0 := rset s r (Some rv)).
  assert (E0 : abs_heap F s0 = abs_heap F s).
  { apply abs_heap_ext; unfold s0; [apply heap_rset|now rg|now rg]. }
  destruct (a64_acquire_tail (padd pos 1) r lc lc1 lc2 s0 sp rv h2 F HC HL) as (s' & EX & EQ & Ef & Oth & _ & Stk & Out & FR' & NB); auto.
  { unfold s0. apply frame_ok_rset; [now apply gp_not_sp|exact FR]. }
  { unfold s0. now apply rget_rset_same. }
  { unfold s0. now rg. }
  { unfold s0. now rg. }
  { unfold s0. now rewrite hword_rset. }
  { unfold s0. now rewrite hword_rset. }
  { unfold s0. rewrite !hword_rset. intros A B. destruct (Hch A B) as [K [B1 B2]]. split; [intros off Ho; rewrite hword_rset; auto|].
    split; [intros x Hx; rewrite hword_rset; auto|exact B2]. }
  rewrite E0 in EQ, Ef.
  exists s'. split; [|split; [exact EQ|split; [|split; [exact Ef|split; [|split; [|split; [|split]]]]]]].
  - eapply exec_next; [apply (HC0 0%nat); reflexivity|apply step_MOVR|]. rewrite Hh. fold s0.
    rewrite app_length, padd_add. exact EX.
  - rewrite Oth by assumption. unfold s0. now apply rget_rset_same.
  - intros r' N1 N2 N3 N4 N5. rewrite Oth by assumption. unfold s0. now rg.
  - rewrite Stk. unfold s0. apply stack_rset.
  - rewrite Out. unfold s0. apply out_rset.
  - exact FR'.
  - intros a Na. rewrite NB by exact Na. unfold s0. apply hword_rset.
Qed.

(* ---------- acquire_block, the new block in a spill slot ---------- *)
Theorem a64_acquire_block_spill_ok pos q lc s sp rv h2 F :
  let cs := fst (acquire_block (AS q) lc) in
  code_at im pos cs -> labels_at im pos cs ->
  frame_ok s sp -> slot_ok q ->
  rget s HEAP = Some rv -> is_blk rv -> rget s FREE = Some h2 ->
  min_int <= hword s rv <= max_int ->
  (hword s rv = 0 -> is_blk h2) ->
  (hword s rv = 0 -> hword s h2 <> 0 ->
     (forall off, off = 16 \/ off = 32 \/ off = 48 -> hword s (h2 + off) = 0 \/ is_blk (hword s (h2 + off))) /\
     bounded 3 s (hword s h2)) ->
  exists s', exec_to im pos s (padd pos (List.length cs)) s' /\
    st_eqB (abs_heap (Heap.frontier (snd (Heap.acquire (abs_heap F s)))) s') (snd (Heap.acquire (abs_heap F s))) /\
    sget s' sp q = Some rv /\ fst (Heap.acquire (abs_heap F s)) = rv /\
    (forall r', r' <> TEMP -> r' <> TEMP2 -> r' <> HEAP -> r' <> FREE -> rget s' r' = rget s r') /\
    (forall q', slot_ok q' -> q' <> q -> sget s' sp q' = sget s sp q') /\ out s' = out s /\ frame_ok s' sp /\
    nonblk_same s s' /\ stack_frame s s' sp.
Proof.
  intros cs HC HL FR Q Hh Hb Hf I64 Hb2 Hch. subst cs.
  destruct (acquire_block_shape (AS q) lc) as (ef & lc1 & lc2 & EF & SH). rewrite SH in *. clear SH.
  assert (ef = fst (erase_fields HEAP lc)) as -> by (now rewrite EF).
  cbn [acq_pre acq_init] in *. rewrite <- app_assoc in HC, HL |- *.
  apply code_at_app2 in HC as [HC0 HC]. apply labels_at_app2 in HL as [_ HL]. cbn [List.length] in HC, HL.
  set (s0 := rset s TEMP (Some rv)).
  assert (F0 : frame_ok s0 sp) by (apply frame_ok_rset; [discriminate|exact FR]).
  set (s1 := sset s0 sp q (Some rv)).
  assert (E1 : abs_heap F s1 = abs_heap F s).
  { apply abs_heap_ext; unfold s1, s0; [now rewrite heap_sset, heap_rset|change TEMP with (X 2); change HEAP with (X 0); now rg
                                        |change TEMP with (X 2); change FREE with (X 1); now rg]. }
  assert (W1 : forall a, hword s1 a = hword s a) by (intros a; unfold s1, s0; now rewrite hword_sset, hword_rset).
  destruct (a64_acquire_tail (padd pos 2) TEMP lc lc1 lc2 s1 sp rv h2 F HC HL) as (s' & EX & EQ & Ef & Oth & _ & Stk & Out & FR' & NB).
  { unfold s1. now apply frame_ok_sset. }
  { exact I. } { discriminate. } { discriminate. }
  { unfold s1, s0. rg. apply rget_rset_same. exact I. }
  { unfold s1, s0. change TEMP with (X 2). change HEAP with (X 0) in *. now rg. }
  { exact Hb. }
  { unfold s1, s0. change TEMP with (X 2). change FREE with (X 1) in *. now rg. }
  { now rewrite W1. }
  { now rewrite W1. }
  { rewrite !W1. intros A B. destruct (Hch A B) as [K [B1 B2]]. split; [intros off Ho; rewrite W1; auto|].
    split; [intros x Hx; rewrite W1; auto|exact B2]. }
  rewrite E1 in EQ, Ef.
  exists s'. split; [|split; [exact EQ|split; [|split; [exact Ef|split; [|split; [|split; [|split; [|split]]]]]]]].
  - eapply exec_next; [apply (HC0 0%nat); reflexivity|apply step_MOVR|]. rewrite Hh. fold s0.
    eapply exec_next; [apply (HC0 1%nat); reflexivity|apply (step_STR_slot im s0 sp F0); exact Q|].
    replace (rget s0 HEAP) with (Some rv) by (unfold s0; change TEMP with (X 2); change HEAP with (X 0) in *; now rg). fold s1.
    rewrite app_length, padd_add. exact EX.
  - unfold sget. rewrite Stk. unfold s1. apply sget_sset_same.
  - intros r' N1 N2 N3 N4. rewrite Oth by assumption. unfold s1, s0. now rg.
  - intros q' Q' Nq. unfold sget at 1. rewrite Stk. fold (sget s1 sp q'). unfold s1. rewrite sget_sset_other by (auto; apply FR).
    unfold s0. apply sget_rset.
  - rewrite Out. unfold s1, s0. cbn [out sset]. apply out_rset.
  - exact FR'.
  - intros a Na. rewrite NB by exact Na. apply W1.
  - intros k Hk. rewrite Stk. unfold s1. rewrite (stack_frame_sset s0 sp q (Some rv) Q k Hk). unfold s0. now rewrite stack_rset.
Qed.

(* ---------- acquire_block into the temporary of a position (register or spill slot) ---------- *)
Lemma a64_acquire_block_tpos_ok pos k lc s sp rv h2 F :
  let cs := fst (acquire_block (tpos k) lc) in
  (k < MAXPOS)%N ->
  code_at im pos cs -> labels_at im pos cs -> frame_ok s sp ->
  rget s HEAP = Some rv -> is_blk rv -> rget s FREE = Some h2 ->
  min_int <= hword s rv <= max_int ->
  (hword s rv = 0 -> is_blk h2) ->
  (hword s rv = 0 -> hword s h2 <> 0 ->
     (forall off, off = 16 \/ off = 32 \/ off = 48 -> hword s (h2 + off) = 0 \/ is_blk (hword s (h2 + off))) /\
     bounded 3 s (hword s h2)) ->
  exists s', exec_to im pos s (padd pos (List.length cs)) s' /\
    st_eqB (abs_heap (Heap.frontier (snd (Heap.acquire (abs_heap F s)))) s') (snd (Heap.acquire (abs_heap F s))) /\
    lget s' sp (tpos k) = Some rv /\ fst (Heap.acquire (abs_heap F s)) = rv /\
    (forall l, loc_ok l -> l <> tpos k -> l <> AR TEMP -> l <> AR TEMP2 -> l <> AR HEAP -> l <> AR FREE -> lget s' sp l = lget s sp l) /\
    out s' = out s /\ frame_ok s' sp /\ nonblk_same s s' /\ stack_frame s s' sp.
Proof.
  intros cs Hk HC HL FR R Hb Rf I64 Hb2 Hch. unfold cs in *. clear cs.
  pose proof (tpos_loc_ok k Hk) as LK. destruct (tpos_not_reserved k) as (NH & NF & NT & NT2 & _).
  destruct (tpos k) as [r|q] eqn:Et; cbn [loc_ok] in LK.
  - destruct (a64_acquire_block_reg_ok pos r lc s sp rv h2 F HC HL FR) as (s' & ST & EQ & Rr & Ef & Oth & Stk & Out & FR' & NB); auto; try congruence.
    exists s'. split; [exact ST|]. split; [exact EQ|]. split; [exact Rr|]. split; [exact Ef|]. split; [|auto using stack_frame_eq].
    intros l Ll N1 N2 N3 N4 N5. destruct l as [r'|q']; cbn [lget].
    + apply Oth; congruence.
    + unfold sget. now rewrite Stk.
  - destruct (a64_acquire_block_spill_ok pos q lc s sp rv h2 F HC HL FR LK R Hb Rf I64 Hb2 Hch) as (s' & ST & EQ & Rr & Ef & Oth & Slots & Out & FR' & NB & SF).
    exists s'. split; [exact ST|]. split; [exact EQ|]. split; [exact Rr|]. split; [exact Ef|]. split; [|auto].
    intros l Ll N1 N2 N3 N4 N5. destruct l as [r'|q']; cbn [lget loc_ok] in *.
    + apply Oth; congruence.
    + apply Slots; auto. congruence.
Qed.
End Refine.
