(* ======================================================================================
   Proof/Fun2CoreBarendregt  -  the Barendregt condition of Model/Fun2Core.v ([barendregt]: the binders
   of a definition are pairwise distinct and distinct from its parameters) implies, for well-scoped
   definitions of the fragment, the capture guard [nocap] under which the simulation is proved.
   ====================================================================================== *)
From Coq Require Import List ZArith NArith String Bool Lia Permutation.
From SCC Require Import Base.Sexp Lang.SynUtil Lang.FunSyn Lang.FunTy Lang.CoreSyn.
From SCC Require Import Sem.AxSem Sem.CoreSem Sem.FunSem Model.Fun2Core.
From SCC Require Import Proof.Fun2CoreProof Proof.Fun2CoreInv Proof.Fun2CoreProg.
Import ListNotations.
Open Scope string_scope.
Open Scope list_scope.

Arguments var_ok : simpl never.

Lemma nodup_str_NoDup : forall l, nodup_str l = true <-> NoDup l.
Proof.
  induction l as [|x l IH]; simpl.
  - split; [constructor | reflexivity].
  - rewrite andb_true_iff, negb_true_iff, mem_false_not_In, IH. split.
    + intros [A B]. constructor; assumption.
    + intros H. inversion H; subst. split; assumption.
Qed.

Definition gnames (G : list cbinding) : list cident := map cbvar G.

Definition cnt (l : list string) (x : string) : nat := count_occ string_dec l x.
Arguments cnt : simpl never.
Lemma cnt_app : forall a b x, cnt (a ++ b) x = (cnt a x + cnt b x)%nat.
Proof. intros. unfold cnt. apply count_occ_app. Qed.
Lemma cnt_cons : forall y l x, cnt (y :: l) x = ((if string_dec y x then 1 else 0) + cnt l x)%nat.
Proof. intros. unfold cnt. simpl. destruct (string_dec y x); reflexivity. Qed.
Lemma cnt_rev_append : forall l a x, cnt (rev_append l a) x = (cnt l x + cnt a x)%nat.
Proof. intros. unfold cnt. rewrite rev_append_rev, count_occ_app, count_occ_rev. reflexivity. Qed.
Lemma cnt_nil : forall x, cnt [] x = 0%nat.
Proof. reflexivity. Qed.

Section Bar.
  Variable p : fcprog.

  (* ---------- used_binders, counted: the binders plus the accumulator ---------- *)
  Definition var_or_frag (y : fterm) : Prop := (exists v ty chi, y = FVar v ty chi) \/ frag p y = true.
  Lemma arg_ok_vf : forall args, forallb (arg_ok p) args = true -> forall y, In y args -> var_or_frag y.
  Proof.
    intros args H y Hy. rewrite forallb_forall in H. specialize (H y Hy).
    destruct y; try (right; apply andb_prop in H; tauto). left. eauto.
  Qed.
  Lemma darg_ok_vf : forall args, forallb (darg_ok p) args = true -> forall y, In y args -> var_or_frag y.
  Proof.
    intros args H y Hy. rewrite forallb_forall in H. specialize (H y Hy). right.
    unfold darg_ok in H. apply andb_prop in H. destruct H as [H _]. apply andb_prop in H. tauto.
  Qed.

  Lemma ub_terms_cnt : forall args,
    Forall (fun t => forall acc x, frag p t = true -> cnt (used_binders t acc) x = (cnt (bnd t) x + cnt acc x)%nat) args ->
    (forall y, In y args -> var_or_frag y) ->
    forall acc x, cnt (ub_terms args acc) x = (cnt (flat_map bnd args) x + cnt acc x)%nat.
  Proof.
    intros args H. induction H as [|y l Hy Hl IH]; intros Hf acc x; [reflexivity|].
    unfold ub_terms. simpl. fold (ub_terms l (used_binders y acc)).
    rewrite IH by (intros y0 Hy0; apply Hf; right; exact Hy0). rewrite cnt_app.
    assert (Hp : cnt (used_binders y acc) x = (cnt (bnd y) x + cnt acc x)%nat).
    { destruct (Hf y (or_introl eq_refl)) as [[v [ty [chi E]]]|Hfy]; [subst y; reflexivity | apply Hy; exact Hfy]. }
    rewrite Hp. lia.
  Qed.
  Lemma ub_cls_cnt : forall cls,
    Forall (fun c => forall acc x, frag p (clause_body c) = true ->
                     cnt (used_binders (clause_body c) acc) x = (cnt (bnd (clause_body c)) x + cnt acc x)%nat) cls ->
    forallb (fun c => match c with FClause _ _ names ctx body =>
                          list_eqb String.eqb names (fvars ctx) && ctx_data p ctx && frag p body end) cls = true ->
    forall a z, cnt (ub_cls cls a) z =
      (cnt (flat_map (fun c => match c with FClause _ _ _ ctx body => fvars ctx ++ bnd body end) cls) z + cnt a z)%nat.
  Proof.
    intros cls H. induction H as [|[pl x0 names ctx body] l Hy Hl IH]; intros Hfc a z; [reflexivity|].
    simpl in Hfc. apply andb_prop in Hfc. destruct Hfc as [Hfy Hfl].
    apply andb_prop in Hfy. destruct Hfy as [Hfy Hfb]. apply andb_prop in Hfy. destruct Hfy as [Hnames _].
    apply str_list_eqb_eq in Hnames. subst names.
    unfold ub_cls. simpl. fold (ub_cls l (used_binders body (rev_append (fvars ctx) a))).
    rewrite (IH Hfl). simpl in Hy. rewrite (Hy _ _ Hfb), cnt_rev_append, !cnt_app. lia.
  Qed.

  Lemma used_binders_cnt : forall t acc x, frag p t = true -> cnt (used_binders t acc) x = (cnt (bnd t) x + cnt acc x)%nat.
  Proof.
    induction t using fterm_ind'; intros acc z Hf; simpl in Hf; try discriminate; try reflexivity.
    - apply andb_prop in Hf. destruct Hf as [Hf1 Hf2]. simpl. rewrite (IHt2 _ _ Hf2), (IHt1 _ _ Hf1), cnt_app. lia.
    - apply andb_prop in Hf. destruct Hf as [Hf Hf3]. apply andb_prop in Hf. destruct Hf as [Hf Hf2].
      apply andb_prop in Hf. destruct Hf as [Hf1 Hfb]. simpl.
      rewrite (IHt3 _ _ Hf3), (IHt2 _ _ Hf2), !cnt_app.
      destruct b as [b'|]; simpl in H.
      + rewrite (H _ _ Hfb), (IHt1 _ _ Hf1). lia.
      + rewrite (IHt1 _ _ Hf1), cnt_nil. lia.
    - apply andb_prop in Hf. destruct Hf as [Hf1 Hf2]. simpl. rewrite (IHt2 _ _ Hf2), (IHt1 _ _ Hf1), cnt_app. lia.
    - apply andb_prop in Hf. destruct Hf as [Hf1 Hf2]. simpl.
      rewrite (IHt2 _ _ Hf2), (IHt1 _ _ Hf1), !cnt_cons, cnt_app. lia.
    - apply andb_prop in Hf. destruct Hf as [_ Hf]. rewrite used_binders_call. simpl.
      apply ub_terms_cnt; [exact H | apply arg_ok_vf; exact Hf].
    - rewrite used_binders_ctor. simpl. apply ub_terms_cnt; [exact H | apply darg_ok_vf; exact Hf].
    - (* dtor *)
      apply andb_prop in Hf. destruct Hf as [Hf _]. apply andb_prop in Hf. destruct Hf as [Hfs Hfa].
      rewrite used_binders_dtor. simpl. rewrite (ub_terms_cnt args H (darg_ok_vf args Hfa)), (IHt _ _ Hfs), cnt_app. lia.
    - (* case *)
      apply andb_prop in Hf. destruct Hf as [Hf Hfc]. apply andb_prop in Hf. destruct Hf as [Hfs _].
      rewrite used_binders_case. simpl. rewrite (ub_cls_cnt cls H Hfc), (IHt _ _ Hfs), cnt_app. lia.
    - (* new *)
      rewrite used_binders_new. simpl. apply ub_cls_cnt; assumption.
    - apply andb_prop in Hf. destruct Hf as [_ Hf]. simpl. rewrite (IHt _ _ Hf), !cnt_cons. lia.
    - simpl. apply IHt. exact Hf.
    - simpl. apply IHt. exact Hf.
    - simpl. apply IHt. exact Hf.
  Qed.

  (* ---------- every name of a well-scoped term is one of its binders or a name in scope ---------- *)
  Lemma var_ok_scope : forall G v ty chi, var_ok G v ty chi = true -> In (new_id v) (gnames G).
  Proof.
    intros G v ty chi H. apply var_ok_inv in H. destruct H as [ty0 [_ Hg]].
    pose proof (gl_In _ _ _ Hg) as Hin. unfold gnames. apply in_map_iff. eexists. split; [|exact Hin]. reflexivity.
  Qed.

  Definition cns_or_frag (y : fterm) : Prop := is_cns_var y = true \/ frag p y = true.
  Lemma arg_ok_cf : forall args, forallb (arg_ok p) args = true -> forall y, In y args -> cns_or_frag y.
  Proof.
    intros args H y Hy. rewrite forallb_forall in H. specialize (H y Hy).
    destruct y; try (right; apply andb_prop in H; tauto). right. reflexivity.
  Qed.
  Lemma darg_ok_cf : forall args, forallb (darg_ok p) args = true -> forall y, In y args -> cns_or_frag y.
  Proof.
    intros args H y Hy. rewrite forallb_forall in H. specialize (H y Hy). right.
    unfold darg_ok in H. apply andb_prop in H. destruct H as [H _]. apply andb_prop in H. tauto.
  Qed.

  Lemma nm_scope_args : forall G args,
    Forall (fun t => forall G x, frag p t = true -> ws G t = true -> In x (nm t) -> In x (bnd t) \/ In (new_id x) (gnames G)) args ->
    (forall y, In y args -> cns_or_frag y) -> forallb (ws_arg G) args = true ->
    forall z, In z (flat_map nm args) -> In z (flat_map bnd args) \/ In (new_id z) (gnames G).
  Proof.
    intros G args H. induction H as [|y l Hy Hl IH]; intros Hf Hw z Hz; simpl in Hz; [contradiction|].
    simpl in Hw. apply andb_prop in Hw. destruct Hw as [Hwy Hwl].
    simpl. rewrite in_app_iff in *. destruct Hz as [Hz|Hz].
    - assert (Hy' : In z (bnd y) \/ In (new_id z) (gnames G)).
      { destruct (Hf y (or_introl eq_refl)) as [Hc|Hfy].
        - destruct y; simpl in Hc; try discriminate. destruct chi as [[|]|]; try discriminate.
          simpl in Hz. destruct Hz as [Hz|[]]. subst z. right. eapply var_ok_scope; eauto.
        - destruct y; try (apply Hy; assumption).
          destruct chi as [[|]|]; try (apply Hy; assumption).
          simpl in Hz. destruct Hz as [Hz|[]]. subst z. right. eapply var_ok_scope; eauto. }
      tauto.
    - destruct (IH (fun y0 Hy0 => Hf y0 (or_intror Hy0)) Hwl z Hz); tauto.
  Qed.
  Lemma nm_scope_cls : forall G cls,
    Forall (fun c => forall G x, frag p (clause_body c) = true -> ws G (clause_body c) = true -> In x (nm (clause_body c)) ->
                     In x (bnd (clause_body c)) \/ In (new_id x) (gnames G)) cls ->
    forallb (fun c => match c with FClause _ _ names ctx body =>
                          list_eqb String.eqb names (fvars ctx) && ctx_data p ctx && frag p body end) cls = true ->
    forallb (fun c => match c with FClause _ _ _ ctx body => ws (compile_ctx ctx ++ G) body end) cls = true ->
    forall z, In z (flat_map (fun c => match c with FClause _ _ _ ctx body => fvars ctx ++ nm body end) cls) ->
    In z (flat_map (fun c => match c with FClause _ _ _ ctx body => fvars ctx ++ bnd body end) cls) \/ In (new_id z) (gnames G).
  Proof.
    intros G cls H. induction H as [|[pl x0 names ctx body] l Hy Hl IH]; intros Hfc Hwc z Hz; simpl in Hz; [contradiction|].
    simpl in Hfc, Hwc. apply andb_prop in Hfc. destruct Hfc as [Hfy Hfl]. apply andb_prop in Hwc. destruct Hwc as [Hwy Hwl].
    apply andb_prop in Hfy. destruct Hfy as [_ Hfb].
    simpl. rewrite !in_app_iff in *. destruct Hz as [[Hz|Hz]|Hz].
    - tauto.
    - simpl in Hy. destruct (Hy _ z Hfb Hwy Hz) as [Hb|Hg]; [tauto|].
      unfold gnames in Hg. rewrite map_app, in_app_iff in Hg. destruct Hg as [Hg|Hg]; [|right; exact Hg].
      unfold compile_ctx in Hg. rewrite map_map in Hg. apply in_map_iff in Hg. destruct Hg as [b0 [E Hb0]].
      simpl in E. apply new_id_inj in E. subst z. left. left. left. unfold fvars. apply in_map. exact Hb0.
    - destruct (IH Hfl Hwl z Hz) as [Hb|Hg]; tauto.
  Qed.

  Lemma nm_scope : forall t G x, frag p t = true -> ws G t = true -> In x (nm t) ->
    In x (bnd t) \/ In (new_id x) (gnames G).
  Proof.
    induction t using fterm_ind'; intros G z Hf Hw Hz; simpl in Hf; try discriminate.
    - simpl in Hz. destruct Hz as [Hz|[]]. subst z. right. simpl in Hw. eapply var_ok_scope; eauto.
    - simpl in Hz. contradiction.
    - apply andb_prop in Hf. destruct Hf as [Hf1 Hf2]. simpl in Hw. apply andb_prop in Hw. destruct Hw as [Hw1 Hw2].
      simpl in Hz. simpl. rewrite in_app_iff in *. destruct Hz as [Hz|Hz].
      + destruct (IHt1 G z Hf1 Hw1 Hz); tauto.
      + destruct (IHt2 G z Hf2 Hw2 Hz); tauto.
    - apply andb_prop in Hf. destruct Hf as [Hf Hf3]. apply andb_prop in Hf. destruct Hf as [Hf Hf2].
      apply andb_prop in Hf. destruct Hf as [Hf1 Hfb].
      simpl in Hw. apply andb_prop in Hw. destruct Hw as [Hw Hw3]. apply andb_prop in Hw. destruct Hw as [Hw Hw2].
      apply andb_prop in Hw. destruct Hw as [Hw1 Hwb].
      simpl in Hz. simpl. rewrite !in_app_iff in *. destruct Hz as [Hz|[Hz|[Hz|Hz]]].
      + destruct (IHt1 G z Hf1 Hw1 Hz); tauto.
      + destruct b as [b'|]; [|contradiction]. simpl in H. destruct (H G z Hfb Hwb Hz); tauto.
      + destruct (IHt2 G z Hf2 Hw2 Hz); tauto.
      + destruct (IHt3 G z Hf3 Hw3 Hz); tauto.
    - apply andb_prop in Hf. destruct Hf as [Hf1 Hf2]. simpl in Hw. apply andb_prop in Hw. destruct Hw as [Hw1 Hw2].
      simpl in Hz. simpl. rewrite in_app_iff in *. destruct Hz as [Hz|Hz].
      + destruct (IHt1 G z Hf1 Hw1 Hz); tauto.
      + destruct (IHt2 G z Hf2 Hw2 Hz); tauto.
    - apply andb_prop in Hf. destruct Hf as [Hf1 Hf2].
      simpl in Hw. apply andb_prop in Hw. destruct Hw as [Hw1 Hw2].
      simpl in Hz. simpl. destruct Hz as [Hz|Hz]; [left; left; exact Hz|]. rewrite in_app_iff in *. destruct Hz as [Hz|Hz].
      + destruct (IHt1 G z Hf1 Hw1 Hz); tauto.
      + destruct (IHt2 _ z Hf2 Hw2 Hz) as [Hb|Hg]; [tauto|]. simpl in Hg. destruct Hg as [Hg|Hg]; [|tauto].
        apply new_id_inj in Hg. left. left. exact Hg.
    - (* call *)
      apply andb_prop in Hf. destruct Hf as [_ Hf]. simpl in Hw. simpl in Hz. simpl.
      eapply nm_scope_args; eauto. apply arg_ok_cf. exact Hf.
    - (* ctor *)
      simpl in Hw. simpl in Hz. simpl. eapply nm_scope_args; eauto. apply darg_ok_cf. exact Hf.
    - (* dtor *)
      apply andb_prop in Hf. destruct Hf as [Hf _]. apply andb_prop in Hf. destruct Hf as [Hfs Hfa].
      simpl in Hw. apply andb_prop in Hw. destruct Hw as [Hws Hwa].
      simpl in Hz. simpl. rewrite in_app_iff in *. destruct Hz as [Hz|Hz].
      + destruct (IHt G z Hfs Hws Hz); tauto.
      + destruct (nm_scope_args G args H (darg_ok_cf args Hfa) Hwa z Hz); tauto.
    - (* case *)
      apply andb_prop in Hf. destruct Hf as [Hf Hfc]. apply andb_prop in Hf. destruct Hf as [Hfs _].
      simpl in Hw. apply andb_prop in Hw. destruct Hw as [Hws Hwc].
      simpl in Hz. simpl. rewrite in_app_iff in *. destruct Hz as [Hz|Hz].
      + destruct (IHt G z Hfs Hws Hz); tauto.
      + destruct (nm_scope_cls G cls H Hfc Hwc z Hz); tauto.
    - (* new *)
      simpl in Hw. simpl in Hz. simpl. eapply nm_scope_cls; eauto.
    - (* label *)
      apply andb_prop in Hf. destruct Hf as [_ Hf]. simpl in Hw. destruct ty as [ty0|]; [|discriminate].
      simpl in Hz. simpl. destruct Hz as [Hz|Hz]; [left; left; exact Hz|].
      destruct (IHt _ z Hf Hw Hz) as [Hb|Hg]; [tauto|]. simpl in Hg. destruct Hg as [Hg|Hg]; [|tauto].
      apply new_id_inj in Hg. left. left. exact Hg.
    - (* goto *)
      simpl in Hw. apply andb_prop in Hw. destruct Hw as [Hw1 Hw2]. simpl in Hz. simpl. destruct Hz as [Hz|Hz].
      + subst z. right. eapply var_ok_scope; eauto.
      + apply IHt; assumption.
    - simpl in Hw, Hz. simpl. apply IHt; assumption.
    - simpl in Hw, Hz. simpl. apply IHt; assumption.
  Qed.

  (* ---------- Barendregt implies the capture guard ---------- *)
  Lemma cnt_In : forall l x, In x l -> (1 <= cnt l x)%nat.
  Proof. intros l x H. unfold cnt. apply (proj1 (count_occ_In string_dec l x)) in H. lia. Qed.
  Lemma disj_intro : forall a b, (forall x, In x a -> In x b -> False) -> disj a b = true.
  Proof.
    intros a b H. unfold disj, inter_nonempty. apply negb_true_iff.
    destruct (existsb (fun x => mem x b) a) eqn:E; [|reflexivity].
    apply existsb_exists in E. destruct E as [x [Ha Hb]]. apply mem_In in Hb. exfalso. exact (H x Ha Hb).
  Qed.
  Lemma cnt_flat_map_ge : forall X (f : X -> list string) l c x, In c l -> (cnt (f c) x <= cnt (flat_map f l) x)%nat.
  Proof.
    intros X f l c x H. induction l as [|y r IH]; [contradiction|]. simpl. rewrite cnt_app.
    destruct H as [H|H]; [subst; lia | specialize (IH H); lia].
  Qed.

  Definition scope_in (G : list cbinding) (acc : list string) : Prop :=
    forall y, In y (gnames G) -> exists x, y = new_id x /\ In x acc.

  Definition bar_stmt (t : fterm) : Prop :=
    forall G acc, frag p t = true -> ws G t = true ->
    (forall x, cnt (bnd t) x + cnt acc x <= 1)%nat -> scope_in G acc -> nocap t = true.

  Lemma bar_args : forall G acc args, Forall bar_stmt args ->
    (forall y, In y args -> cns_or_frag y) -> forallb (ws_arg G) args = true ->
    (forall x, cnt (flat_map bnd args) x + cnt acc x <= 1)%nat -> scope_in G acc ->
    forallb nocap args = true.
  Proof.
    intros G acc args H. induction H as [|y l Hy Hl IH]; intros Hf Hw Hc Hs; [reflexivity|].
    simpl in Hw, Hc. apply andb_prop in Hw. destruct Hw as [Hwy Hwl].
    simpl. apply andb_true_iff. split.
    - destruct (Hf y (or_introl eq_refl)) as [Hcv|Hfy].
      + destruct y; simpl in Hcv; try discriminate. reflexivity.
      + destruct y; try (apply (Hy G acc Hfy Hwy); [|exact Hs];
                         intros x1; specialize (Hc x1); rewrite cnt_app in Hc; lia).
        reflexivity.
    - apply IH; [intros y0 Hy0; apply Hf; right; exact Hy0 | exact Hwl | | exact Hs].
      intros x1. specialize (Hc x1). rewrite cnt_app in Hc. lia.
  Qed.
  Lemma bar_cls : forall G acc cls, Forall (fun c => bar_stmt (clause_body c)) cls ->
    forallb (fun c => match c with FClause _ _ names ctx body =>
                          list_eqb String.eqb names (fvars ctx) && ctx_data p ctx && frag p body end) cls = true ->
    forallb (fun c => match c with FClause _ _ _ ctx body => ws (compile_ctx ctx ++ G) body end) cls = true ->
    (forall x, cnt (flat_map (fun c => match c with FClause _ _ _ ctx body => fvars ctx ++ bnd body end) cls) x + cnt acc x <= 1)%nat ->
    scope_in G acc ->
    forallb (fun c => match c with FClause _ _ _ _ body => nocap body end) cls = true.
  Proof.
    intros G acc cls H Hfc Hwc Hc Hs. apply forallb_forall. intros c0 Hc0. rewrite Forall_forall in H. specialize (H c0 Hc0).
    rewrite forallb_forall in Hfc, Hwc. specialize (Hfc _ Hc0). specialize (Hwc _ Hc0).
    destruct c0 as [pl x0 names ctx body]. simpl in H, Hfc, Hwc.
    apply andb_prop in Hfc. destruct Hfc as [_ Hfb].
    apply (H _ (fvars ctx ++ acc) Hfb Hwc).
    - intros x. specialize (Hc x).
      match type of Hc with context [cnt (flat_map ?f cls) x] => pose proof (cnt_flat_map_ge _ f cls _ x Hc0) as C2 end.
      cbv beta iota in C2. rewrite cnt_app in C2. rewrite cnt_app. unfold fname in *. lia.
    - intros y Hy. unfold gnames in Hy. rewrite map_app, in_app_iff in Hy. destruct Hy as [Hy|Hy].
      + unfold compile_ctx in Hy. rewrite map_map in Hy. apply in_map_iff in Hy. destruct Hy as [b0 [E Hb0]].
        exists (fbvar b0). split; [symmetry; exact E|]. apply in_or_app. left. unfold fvars. apply in_map. exact Hb0.
      + destruct (Hs _ Hy) as [x [Ex Hx]]. exists x. split; [exact Ex | apply in_or_app; right; exact Hx].
  Qed.
  (* a name of the clauses that is a binder of t, where binders and acc are all distinct: impossible *)
  Lemma cls_names_dup : forall G acc cls bt x,
    forallb (fun c => match c with FClause _ _ names ctx body =>
                          list_eqb String.eqb names (fvars ctx) && ctx_data p ctx && frag p body end) cls = true ->
    forallb (fun c => match c with FClause _ _ _ ctx body => ws (compile_ctx ctx ++ G) body end) cls = true ->
    (cnt bt x + cnt (flat_map (fun c => match c with FClause _ _ _ ctx body => fvars ctx ++ bnd body end) cls) x + cnt acc x <= 1)%nat ->
    scope_in G acc -> In x bt -> In x (flat_map cl_nm cls) -> False.
  Proof.
    intros G acc cls bt x Hfc Hwc Hc Hs Hx1 Hx2.
    pose proof (cnt_In _ _ Hx1) as C1. apply in_flat_map in Hx2. destruct Hx2 as [c0 [Hc0 Hx2]].
    match type of Hc with context [cnt (flat_map ?f cls) x] => pose proof (cnt_flat_map_ge _ f cls c0 x Hc0) as C2 end.
    rewrite forallb_forall in Hfc, Hwc. specialize (Hfc _ Hc0). specialize (Hwc _ Hc0).
    destruct c0 as [pl x0 names ctx body]. simpl in Hx2, Hfc, Hwc. cbv beta iota in C2. rewrite cnt_app in C2.
    apply andb_prop in Hfc. destruct Hfc as [_ Hfb].
    apply in_app_or in Hx2. destruct Hx2 as [Hx2|Hx2].
    - pose proof (cnt_In _ _ Hx2). unfold fname in *. lia.
    - destruct (nm_scope body _ x Hfb Hwc Hx2) as [Hb|Hg].
      + pose proof (cnt_In _ _ Hb). unfold fname in *. lia.
      + unfold gnames in Hg. rewrite map_app, in_app_iff in Hg. destruct Hg as [Hg|Hg].
        * unfold compile_ctx in Hg. rewrite map_map in Hg. apply in_map_iff in Hg. destruct Hg as [b0 [E Hb0]].
          simpl in E. apply new_id_inj in E. subst x.
          assert (Hin : In (fbvar b0) (fvars ctx)) by (unfold fvars; apply in_map; exact Hb0).
          pose proof (cnt_In _ _ Hin). unfold fname in *. lia.
        * destruct (Hs _ Hg) as [y [Ey Hy]]. apply new_id_inj in Ey. subst y. pose proof (cnt_In _ _ Hy). unfold fname in *. lia.
  Qed.

  Lemma bar_nocap : forall t, bar_stmt t.
  Proof.
    unfold bar_stmt.
    induction t using fterm_ind'; intros G acc Hf Hw Hc Hs; simpl in Hf; try discriminate; try reflexivity.
    - apply andb_prop in Hf. destruct Hf as [Hf1 Hf2]. simpl in Hw. apply andb_prop in Hw. destruct Hw as [Hw1 Hw2].
      simpl in Hc. simpl. apply andb_true_iff. split.
      + apply (IHt1 G acc Hf1 Hw1); [|exact Hs]. intros x. specialize (Hc x). rewrite cnt_app in Hc. lia.
      + apply (IHt2 G acc Hf2 Hw2); [|exact Hs]. intros x. specialize (Hc x). rewrite cnt_app in Hc. lia.
    - apply andb_prop in Hf. destruct Hf as [Hf Hf3]. apply andb_prop in Hf. destruct Hf as [Hf Hf2].
      apply andb_prop in Hf. destruct Hf as [Hf1 Hfb].
      simpl in Hw. apply andb_prop in Hw. destruct Hw as [Hw Hw3]. apply andb_prop in Hw. destruct Hw as [Hw Hw2].
      apply andb_prop in Hw. destruct Hw as [Hw1 Hwb].
      simpl in Hc. simpl. rewrite !andb_true_iff. repeat split.
      + apply (IHt1 G acc Hf1 Hw1); [|exact Hs]. intros x. specialize (Hc x). rewrite !cnt_app in Hc. lia.
      + destruct b as [b'|]; [|reflexivity]. simpl in H. apply (H G acc Hfb Hwb); [|exact Hs].
        intros x. specialize (Hc x). rewrite !cnt_app in Hc. lia.
      + apply (IHt2 G acc Hf2 Hw2); [|exact Hs]. intros x. specialize (Hc x). rewrite !cnt_app in Hc. lia.
      + apply (IHt3 G acc Hf3 Hw3); [|exact Hs]. intros x. specialize (Hc x). rewrite !cnt_app in Hc. lia.
    - apply andb_prop in Hf. destruct Hf as [Hf1 Hf2]. simpl in Hw. apply andb_prop in Hw. destruct Hw as [Hw1 Hw2].
      simpl in Hc. simpl. apply andb_true_iff. split.
      + apply (IHt1 G acc Hf1 Hw1); [|exact Hs]. intros x. specialize (Hc x). rewrite cnt_app in Hc. lia.
      + apply (IHt2 G acc Hf2 Hw2); [|exact Hs]. intros x. specialize (Hc x). rewrite cnt_app in Hc. lia.
    - (* let *)
      apply andb_prop in Hf. destruct Hf as [Hf1 Hf2].
      simpl in Hw. apply andb_prop in Hw. destruct Hw as [Hw1 Hw2].
      simpl in Hc. simpl. rewrite !andb_true_iff. repeat split.
      + apply disj_intro. intros x Hx1 Hx2. specialize (Hc x). rewrite cnt_cons, cnt_app in Hc.
        pose proof (cnt_In _ _ Hx1) as C1. destruct Hx2 as [Hx2|Hx2].
        * subst x. destruct (string_dec v v); [lia | congruence].
        * destruct (nm_scope t2 _ x Hf2 Hw2 Hx2) as [Hb|Hg].
          -- pose proof (cnt_In _ _ Hb). lia.
          -- simpl in Hg. destruct Hg as [Hg|Hg].
             ++ apply new_id_inj in Hg. subst x. destruct (string_dec v v); [lia | congruence].
             ++ destruct (Hs _ Hg) as [y [Ey Hy]]. apply new_id_inj in Ey. subst y. pose proof (cnt_In _ _ Hy). lia.
      + apply (IHt1 G acc Hf1 Hw1); [|exact Hs]. intros x. specialize (Hc x). rewrite cnt_cons, cnt_app in Hc. lia.
      + apply (IHt2 _ (v :: acc) Hf2 Hw2).
        * intros x. specialize (Hc x). rewrite cnt_cons, cnt_app in Hc. rewrite cnt_cons. lia.
        * intros y Hy. simpl in Hy. destruct Hy as [Hy|Hy]; [exists v; split; [symmetry; exact Hy | left; reflexivity]|].
          destruct (Hs _ Hy) as [x [Ex Hx]]. exists x. split; [exact Ex | right; exact Hx].
    - (* call *)
      apply andb_prop in Hf. destruct Hf as [_ Hf]. simpl in Hw, Hc. simpl.
      eapply bar_args; eauto. apply arg_ok_cf. exact Hf.
    - (* ctor *)
      simpl in Hw, Hc. simpl. eapply bar_args; eauto. apply darg_ok_cf. exact Hf.
    - (* dtor *)
      apply andb_prop in Hf. destruct Hf as [Hf _]. apply andb_prop in Hf. destruct Hf as [Hfs Hfa].
      simpl in Hw. apply andb_prop in Hw. destruct Hw as [Hws Hwa].
      simpl in Hc. simpl. rewrite !andb_true_iff. repeat split.
      + apply disj_intro. intros z Hx1 Hx2. specialize (Hc z). rewrite cnt_app in Hc.
        pose proof (cnt_In _ _ Hx1) as C1.
        destruct (nm_scope_args G args (proj2 (Forall_forall _ args) (fun a _ => nm_scope a)) (darg_ok_cf args Hfa) Hwa z Hx2) as [Hb|Hg].
        * pose proof (cnt_In _ _ Hb). lia.
        * destruct (Hs _ Hg) as [y [Ey Hy]]. apply new_id_inj in Ey. subst y. pose proof (cnt_In _ _ Hy). lia.
      + apply (IHt G acc Hfs Hws); [|exact Hs]. intros z. specialize (Hc z). rewrite cnt_app in Hc. lia.
      + eapply (bar_args G acc args H (darg_ok_cf args Hfa) Hwa); [|exact Hs].
        intros z. specialize (Hc z). rewrite cnt_app in Hc. lia.
    - (* case *)
      apply andb_prop in Hf. destruct Hf as [Hf Hfc]. apply andb_prop in Hf. destruct Hf as [Hfs _].
      simpl in Hw. apply andb_prop in Hw. destruct Hw as [Hws Hwc].
      simpl in Hc. simpl. rewrite !andb_true_iff. repeat split.
      + apply disj_intro. intros x Hx1 Hx2. specialize (Hc x). rewrite cnt_app in Hc.
        eapply (cls_names_dup G acc cls (bnd t) x Hfc Hwc); eauto.
      + apply (IHt G acc Hfs Hws); [|exact Hs]. intros x. specialize (Hc x). rewrite cnt_app in Hc. lia.
      + eapply (bar_cls G acc cls H Hfc Hwc); [|exact Hs].
        intros x. specialize (Hc x). rewrite cnt_app in Hc. lia.
    - (* new *)
      simpl in Hw, Hc. simpl. eapply bar_cls; eauto.
    - (* label *)
      apply andb_prop in Hf. destruct Hf as [_ Hf]. simpl in Hw. destruct ty as [ty0|]; [|discriminate].
      simpl in Hc. simpl. apply andb_true_iff. split.
      + apply negb_true_iff. apply mem_false_not_In. intros Hin. specialize (Hc l). rewrite cnt_cons in Hc.
        pose proof (cnt_In _ _ Hin). destruct (string_dec l l); [lia | congruence].
      + apply (IHt _ (l :: acc) Hf Hw).
        * intros x. specialize (Hc x). rewrite cnt_cons in Hc. rewrite cnt_cons. lia.
        * intros y Hy. simpl in Hy. destruct Hy as [Hy|Hy]; [exists l; split; [symmetry; exact Hy | left; reflexivity]|].
          destruct (Hs _ Hy) as [x [Ex Hx]]. exists x. split; [exact Ex | right; exact Hx].
    - (* goto *)
      simpl in Hw. apply andb_prop in Hw. destruct Hw as [Hw1 Hw2]. simpl in Hc. simpl. apply andb_true_iff. split.
      + apply negb_true_iff. apply mem_false_not_In. intros Hin.
        destruct (Hs _ (var_ok_scope _ _ _ _ Hw1)) as [y [Ey Hy]]. apply new_id_inj in Ey. subst y.
        specialize (Hc l). pose proof (cnt_In _ _ Hin). pose proof (cnt_In _ _ Hy). lia.
      + apply (IHt G acc Hf Hw2 Hc Hs).
    - simpl in Hw, Hc. simpl. apply (IHt G acc Hf Hw Hc Hs).
    - simpl in Hw, Hc. simpl. apply (IHt G acc Hf Hw Hc Hs).
  Qed.

  (* the official guard: for a well-scoped definition of the fragment, barendregt_def implies nocap *)
  Theorem barendregt_def_nocap : forall d,
    frag p (fdbody d) = true -> ws (compile_ctx (fdctx d)) (fdbody d) = true -> barendregt_def d = true ->
    nocap (fdbody d) = true.
  Proof.
    intros d Hf Hw Hb. unfold barendregt_def in Hb. apply nodup_str_NoDup in Hb.
    apply (bar_nocap (fdbody d) (compile_ctx (fdctx d)) (fvars (fdctx d)) Hf Hw).
    - intros x. rewrite <- (used_binders_cnt (fdbody d) (fvars (fdctx d)) x Hf).
      unfold cnt. apply (proj1 (NoDup_count_occ string_dec _) Hb).
    - intros y Hy. unfold gnames, compile_ctx in Hy. rewrite map_map in Hy. apply in_map_iff in Hy.
      destruct Hy as [b0 [E Hb0]]. exists (fbvar b0). split; [symmetry; exact E | unfold fvars; apply in_map; exact Hb0].
  Qed.
End Bar.

Theorem barendregt_prog_guard : forall p, frag_prog p = true -> barendregt p = true -> prog_guard p = true.
Proof.
  intros p Hf Hb. unfold prog_guard, frag_prog, barendregt in *.
  rewrite forallb_forall in *.
  intros d Hd. specialize (Hf d Hd). specialize (Hb d Hd). unfold def_guard_b in Hf. unfold def_guard.
  apply andb_prop in Hf. destruct Hf as [Hf Hkeq]. apply andb_prop in Hf. destruct Hf as [Hf Hkd].
  apply andb_prop in Hf. destruct Hf as [Hf Hm]. apply andb_prop in Hf. destruct Hf as [Hfr Hws].
  rewrite Hfr, Hws, Hm, Hkd, Hkeq. reflexivity.
Qed.
