(* ======================================================================================
   Proof/FocusNames  -  after `Prog::focus` identifiers with the same id are spelled alike (C12):
   every variable occurrence of the focused statement is, BY ID, the first binding of its scope with that id,
   and carries that binding's name ([nc_stmt] of Sem/FsFrag2.v, the fragment predicate names_ok of the
   shrinking theorems).  Same induction as Proof/FocusTy.v (typed input, scopes related by [rel], CPS
   invariant for continuations), with the conclusion "the binding found by id IS the occurrence".
   ====================================================================================== *)
From Coq Require Import List ZArith NArith String Bool Lia.
From SCC Require Import Base.Sexp Lang.SynUtil Lang.CoreSyn Sem.FsCheck Sem.CoreCheck Sem.FsFrag2
     Model.Backend Model.Uniquify Model.Focus Model.FocusCheck
     Proof.CoreInd Proof.SubstProof Proof.CheckLemmas Proof.FocusKont Proof.FocusMono Proof.CoreTyRules Proof.FsTyRules Proof.FocusTy.
Import ListNotations.
Open Scope list_scope.
Open Scope N_scope.

Lemma find_cvars : forall G i, find (fun y => N.eqb (cid_id y) i) (cvars G) = option_map cbvar (flookup G i).
Proof.
  induction G as [|b r IH]; intros i; simpl; [reflexivity|].
  destruct (N.eqb (cid_id (cbvar b)) i); [reflexivity | apply IH].
Qed.
Definition bound_self (G : cctx) (b : cbinding) : Prop := flookup G (cid_id (cbvar b)) = Some b.
Lemma nc_var_intro : forall G b, bound_self G b -> nc_var (cvars G) (cbvar b) = true.
Proof. intros G b H. unfold nc_var. rewrite find_cvars, H. simpl. apply ceq_id_refl. Qed.
Lemma nc_vars_intro : forall G bs, Forall (bound_self G) bs -> forallb (nc_var (cvars G)) (cvars bs) = true.
Proof. intros G bs H. induction H as [|b r Hb Hr IH]; simpl; [reflexivity|]. rewrite (nc_var_intro _ _ Hb), IH. reflexivity. Qed.
Lemma bound_self_ext : forall m G G' b, ext m G G' -> mem_le m (cids G) -> bound_self G b -> bound_self G' b.
Proof. intros m G G' b He Hm H. unfold bound_self in *. eapply flookup_ext; eauto. Qed.

Definition nc_cls (L : list cident) : list fsclause -> bool :=
  fix go (cls : list fsclause) : bool :=
    match cls with [] => true | FsClause _ _ ctx body :: r => nc_stmt (cvars ctx ++ L) body && go r end.
Lemma nc_xcase : forall L c cls t, nc_term L (FsXCase c cls t) = nc_cls L cls.
Proof. reflexivity. Qed.
Definition nc_clause (L : list cident) (cl : fsclause) : bool :=
  match cl with FsClause _ _ ctx body => nc_stmt (cvars ctx ++ L) body end.
Lemma nc_cls_forall : forall L cls, nc_cls L cls = forallb (nc_clause L) cls.
Proof. intros L. induction cls as [|[c x ctx b] r IH]; simpl; [reflexivity | rewrite IH; reflexivity]. Qed.
Lemma cvars_app : forall A G, cvars (A ++ G) = cvars A ++ cvars G.
Proof. intros. unfold cvars. apply map_app. Qed.

Section Names.
Variables (data codata : list ctydecl) (defs : list cdef).
Notation ct := (ccheck_term data codata defs).
Notation cs := (ccheck_stmt data codata defs).
Notation arg_typed := (arg_typed data codata defs).
Notation args_typed := (args_typed data codata defs).
Notation clause_typed := (clause_typed data codata defs).

Definition KN (k : kont) (Gt : cctx) (m : N) : Prop :=
  forall b m1 Gt' s' m2, ext m Gt Gt' -> m <= m1 -> mem_le m1 (cids Gt') -> bound_self Gt' b ->
    k b m1 = Ok (s', m2) -> nc_stmt (cvars Gt') s' = true.
Definition KVN (kv : kontv) (Gt : cctx) (m : N) : Prop :=
  forall bs m1 Gt' s' m2, ext m Gt Gt' -> m <= m1 -> mem_le m1 (cids Gt') -> Forall (bound_self Gt') bs ->
    kv bs m1 = Ok (s', m2) -> nc_stmt (cvars Gt') s' = true.

Lemma KN_mono : forall k Gt m Gt1 m1, KN k Gt m -> ext m Gt Gt1 -> m <= m1 -> KN k Gt1 m1.
Proof.
  intros k Gt m Gt1 m1 H He L b m2 Gt' s' m3 He' L' Hm Hb Hk.
  eapply (H b m2 Gt'); eauto; [eapply ext_trans; eassumption | lia].
Qed.

Definition NBt (t : cterm) : Prop := forall c k m Gs Gt ty T s' m',
  bind_term c t k m = Ok (s', m') -> ct Gs c ty t = None ->
  rel Gs Gt -> NoDup (binder_ids_term t ++ cids Gs) -> ids_le_term T t = true -> mem_le T (cids Gs) -> T <= m ->
  mem_le m (cids Gt) -> kmono k -> KN k Gt m -> nc_stmt (cvars Gt) s' = true.
Definition NFt (t : cterm) : Prop := forall c m Gs Gt ty T t' m',
  focus_term c t m = Ok (t', m') -> ct Gs c ty t = None ->
  rel Gs Gt -> NoDup (binder_ids_term t ++ cids Gs) -> ids_le_term T t = true -> mem_le T (cids Gs) -> T <= m ->
  mem_le m (cids Gt) -> nc_term (cvars Gt) t' = true.
Definition NBa (a : carg) : Prop := forall k m Gs Gt s T s' m',
  bind_arg a k m = Ok (s', m') -> arg_typed Gs a s ->
  rel Gs Gt -> NoDup (binder_ids_arg a ++ cids Gs) -> ids_le_arg T a = true -> mem_le T (cids Gs) -> T <= m ->
  mem_le m (cids Gt) -> kmono k -> KN k Gt m -> nc_stmt (cvars Gt) s' = true.
Definition NFc (cl : cclause) : Prop := forall m Gs Gt T cl' m',
  focus_clause cl m = Ok (cl', m') -> clause_typed Gs cl ->
  rel Gs Gt -> NoDup (binder_ids_clause cl ++ cids Gs) -> ids_le_clause T cl = true -> mem_le T (cids Gs) -> T <= m ->
  mem_le m (cids Gt) -> nc_clause (cvars Gt) cl' = true.
Definition NFs (s : cstmt) : Prop := forall m Gs Gt T s' m',
  focus_stmt s m = Ok (s', m') -> cs Gs s = None ->
  rel Gs Gt -> NoDup (binder_ids_stmt s ++ cids Gs) -> ids_le_stmt T s = true -> mem_le T (cids Gs) -> T <= m ->
  mem_le m (cids Gt) -> nc_stmt (cvars Gt) s' = true.
Definition nsub_ok (t : cterm) : Prop :=
  match t with
  | CXtor _ _ args _ => Forall NBa args
  | COp a _ b => NBt a /\ NBt b
  | _ => True
  end.
Definition Nt (t : cterm) : Prop := NBt t /\ NFt t /\ nsub_ok t.

Lemma nfresh_front : forall (k : kont) c ty Gt m m1 m2 base s' m3,
  KN k Gt m -> m <= m1 -> m1 + 1 <= m2 -> mem_le m1 (cids Gt) ->
  k (mkcb (base, m1 + 1) c ty) m2 = Ok (s', m3) ->
  nc_stmt ((base, m1 + 1) :: cvars Gt) s' = true.
Proof.
  intros k c ty Gt m m1 m2 base s' m3 HK L L2 Hm Hk.
  change ((base, m1 + 1) :: cvars Gt) with (cvars (mkcb (base, m1 + 1) c ty :: Gt)).
  eapply (HK (mkcb (base, m1 + 1) c ty) m2 (mkcb (base, m1 + 1) c ty :: Gt) s' m3); [| | | | exact Hk].
  - apply ext_cons. simpl. lia.
  - lia.
  - apply mem_le_cids_cons; [simpl; lia | eapply mem_le_mono; [exact Hm | lia]].
  - unfold bound_self. rewrite flookup_cons. simpl. rewrite N.eqb_refl. reflexivity.
Qed.

Lemma nfresh_front' : forall (k : kont) c ty Gt m Gt1 m1 base s' m3,
  KN k Gt m -> ext m Gt Gt1 -> m <= m1 -> mem_le m1 (cids Gt1) ->
  k (mkcb (base, m1 + 1) c ty) (m1 + 1) = Ok (s', m3) ->
  nc_stmt ((base, m1 + 1) :: cvars Gt1) s' = true.
Proof.
  intros k c ty Gt m Gt1 m1 base s' m3 HK He L Hm Hk.
  eapply (nfresh_front k c ty Gt1 m1 m1 (m1 + 1)); [eapply KN_mono; eauto | lia | lia | exact Hm | exact Hk].
Qed.

Lemma bind_many_nm : forall args, Forall NBa args -> forall kv m Gs Gt sig T s' m',
  bind_many args kv m = Ok (s', m') -> args_typed Gs args sig ->
  rel Gs Gt -> NoDup (flat_map binder_ids_arg args ++ cids Gs) -> forallb (ids_le_arg T) args = true ->
  mem_le T (cids Gs) -> T <= m -> mem_le m (cids Gt) -> kvmono kv -> KVN kv Gt m -> nc_stmt (cvars Gt) s' = true.
Proof.
  induction 1 as [|a r Ha Hr IH]; intros kv m Gs Gt sig T s' m' Hb Ht Hrel Hnd Hid HGs LE HGt Kmono HK.
  - rewrite bind_many_nil in Hb. exact (HK [] m Gt s' m' (ext_refl _ _) (N.le_refl _) HGt (Forall_nil _) Hb).
  - inversion Ht as [|? s ? sr Hs Hrs]; subst. rewrite bind_many_cons in Hb. simpl in Hnd, Hid.
    apply andb_true_iff in Hid. destruct Hid as [Hid1 Hid2]. rewrite <- app_assoc in Hnd.
    assert (Nda : NoDup (binder_ids_arg a ++ cids Gs)) by nd2.
    assert (Ndr : NoDup (flat_map binder_ids_arg r ++ cids Gs)) by nd2.
    refine (Ha (many_k r kv) m Gs Gt s T s' m' Hb Hs Hrel Nda Hid1 HGs LE HGt (kmono_many r kv Kmono) _).
    intros b m1 Gt1 s1 m2 He L1 Hm1 Hfb Hk. unfold many_k in Hk.
    refine (IH (cons_kv b kv) m1 Gs Gt1 sr T s1 m2 Hk Hrs (rel_ext _ _ _ _ Hrel He HGt) Ndr Hid2 HGs _ Hm1 (kvmono_cons b kv Kmono) _); [lia|].
    intros bs m3 Gt2 s2 m4 He2 L2 Hm2 Hbs Hk2. unfold cons_kv in Hk2.
    refine (HK (b :: bs) m3 Gt2 s2 m4 (ext_trans _ _ _ _ _ He He2 L1) _ Hm2 _ Hk2); [lia|].
    constructor; [eapply bound_self_ext; eauto | exact Hbs].
Qed.

Lemma focus_clauses_nm : forall cls, Forall NFc cls -> forall m Gs Gt T cls' m',
  maprs focus_clause cls m = Ok (cls', m') -> Forall (clause_typed Gs) cls ->
  rel Gs Gt -> NoDup (flat_map binder_ids_clause cls ++ cids Gs) -> forallb (ids_le_clause T) cls = true ->
  mem_le T (cids Gs) -> T <= m -> mem_le m (cids Gt) -> nc_cls (cvars Gt) cls' = true.
Proof.
  induction 1 as [|cl r Hc Hr IH]; intros m Gs Gt T cls' m' Hf Ht Hrel Hnd Hid HGs LE HGt; simpl in Hf.
  - okinv Hf. reflexivity.
  - apply rbind_ok in Hf. destruct Hf as ([cl1 m1] & E & Hf). apply rbind_ok in Hf. destruct Hf as ([r1 m2] & E0 & Hf). okinv Hf.
    inversion Ht as [|? ? Ht1 Ht2]; subst. simpl in Hnd, Hid.
    apply andb_true_iff in Hid. destruct Hid as [Hid1 Hid2]. rewrite <- app_assoc in Hnd.
    assert (L1 : m <= m1).
    { destruct cl as [c x ctx body]. rewrite focus_clause_eq in E. apply rbind_ok in E. destruct E as ([b1 mb] & E & E'). okinv E'.
      eapply focus_stmt_mono; eauto. }
    assert (Nd1 : NoDup (binder_ids_clause cl ++ cids Gs)) by nd2.
    assert (Nd2 : NoDup (flat_map binder_ids_clause r ++ cids Gs)) by nd2.
    rewrite nc_cls_forall. simpl. rewrite <- nc_cls_forall.
    rewrite (Hc m Gs Gt T cl1 m1 E Ht1 Hrel Nd1 Hid1 HGs LE HGt). simpl.
    refine (IH m1 Gs Gt T r1 m' E0 Ht2 Hrel Nd2 Hid2 HGs _ _); [lia | eapply mem_le_mono; eauto].
Qed.

Lemma focus_nm_all : (forall t, Nt t) /\ (forall a, NBa a) /\ (forall c, NFc c) /\ (forall s, NFs s).
Proof.
  apply core_mutind.
  - (* XVar *)
    intros c0 v ty0. split; [|split; [|exact I]].
    + intros c k m Gs Gt ty T s' m' Hb Ht Hrel Hnd Hid HGs LE HGt Kmono HK. rewrite bind_xvar in Hb.
      apply ct_var in Ht. destruct Ht as [-> [-> Hl]].
      exact (HK (mkcb v c ty) m Gt s' m' (ext_refl _ _) (N.le_refl _) HGt (Hrel _ _ Hl) Hb).
    + intros c m Gs Gt ty T t' m' Hf Ht Hrel Hnd Hid HGs LE HGt. rewrite focus_term_xvar in Hf. okinv Hf.
      apply ct_var in Ht. destruct Ht as [-> [-> Hl]]. cbn [nc_term].
      exact (nc_var_intro Gt (mkcb v c ty) (Hrel _ _ Hl)).
  - (* Lit *)
    intros n. split; [|split; [|exact I]].
    + intros c k m Gs Gt ty T s' m' Hb Ht Hrel Hnd Hid HGs LE HGt Kmono HK.
      apply ct_lit in Ht. destruct Ht as [-> ->]. rewrite bind_lit in Hb.
      apply rbind_ok in Hb. destruct Hb as ([sk m2] & Ek & Hb). okinv Hb. cbn [nc_stmt nc_term andb].
      exact (nfresh_front k CPrd CI64 Gt m m (m + 1) _ sk m' HK (N.le_refl _) (N.le_refl _) HGt Ek).
    + intros c m Gs Gt ty T t' m' Hf Ht Hrel Hnd Hid HGs LE HGt.
      apply ct_lit in Ht. destruct Ht as [-> ->]. simpl in Hf. okinv Hf. reflexivity.
  - (* Op *)
    intros a o b (Ba & _ & _) (Bb & _ & _). split; [|split; [|split; assumption]].
    + intros c k m Gs Gt ty T s' m' Hb Ht Hrel Hnd Hid HGs LE HGt Kmono HK.
      apply ct_op in Ht. destruct Ht as [-> [-> [Hta Htb]]]. rewrite bind_op in Hb. simpl in Hnd, Hid.
      apply andb_true_iff in Hid. destruct Hid as [Hid1 Hid2]. rewrite <- app_assoc in Hnd.
      assert (Nda : NoDup (binder_ids_term a ++ cids Gs)) by nd2.
      assert (Ndb : NoDup (binder_ids_term b ++ cids Gs)) by nd2.
      refine (Ba CPrd (opL_k b o k) m Gs Gt CI64 T s' m' Hb Hta Hrel Nda Hid1 HGs LE HGt (kmono_opL b o k Kmono) _).
      intros b1 m1 Gt1 s1 m2 He L1 Hm1 Hf1 Hk1. unfold opL_k in Hk1.
      refine (Bb CPrd (opR_k b1 o k) m1 Gs Gt1 CI64 T s1 m2 Hk1 Htb (rel_ext _ _ _ _ Hrel He HGt) Ndb Hid2 HGs _ Hm1 (kmono_opR b1 o k Kmono) _); [lia|].
      intros b2 m3 Gt2 s2 m4 He2 L2 Hm2 Hf2 Hk2. unfold opR_k in Hk2. simpl in Hk2.
      apply rbind_ok in Hk2. destruct Hk2 as ([sk mk] & Ek & Hk2). injection Hk2 as <- <-. cbn [nc_stmt nc_term].
      rewrite (nc_var_intro Gt2 b1 (bound_self_ext _ _ _ _ He2 Hm1 Hf1)), (nc_var_intro Gt2 b2 Hf2). cbn [andb].
      refine (nfresh_front' k CPrd CI64 Gt m Gt2 m3 _ sk mk HK (ext_trans _ _ _ _ _ He He2 L1) _ Hm2 Ek). lia.
    + intros c m Gs Gt ty T t' m' Hf. destruct c; discriminate.
  - (* Mu *)
    intros c0 v s ty0 IHs. split; [|split; [|exact I]].
    + intros c k m Gs Gt ty T s' m' Hb Ht Hrel Hnd Hid HGs LE HGt Kmono HK.
      apply ct_mu in Ht. destruct Ht as [-> [-> Hts]]. simpl in Hnd, Hid.
      apply andb_true_iff in Hid. destruct Hid as [Hidv Hids]. apply N.leb_le in Hidv.
      assert (Hvn : ~ In (cid_id v) (cids Gs)) by (inversion Hnd; subst; intros Hin; apply H1; apply in_or_app; right; exact Hin).
      assert (Nds : NoDup (binder_ids_stmt s ++ cids (mkcb v (opp c) ty :: Gs))).
      { simpl. inversion Hnd; subst. apply NoDup_app_iff in H2. destruct H2 as (N1 & N2 & N3).
        apply NoDup_app_iff. split; [exact N1|]. split; [constructor; assumption|].
        intros x Hx [<-|Hx2]; [apply H1; apply in_or_app; left; exact Hx | eapply N3; eauto]. }
      destruct c.
      * rewrite bind_mu_prd in Hb.
        apply rbind_ok in Hb. destruct Hb as ([s1 m1] & Es & Hb). apply rbind_ok in Hb. destruct Hb as ([sk m2] & Ek & Hb). okinv Hb.
        assert (L1 : m + 1 <= m1) by (eapply focus_stmt_mono; eauto).
        cbn [nc_stmt nc_term]. apply andb_true_iff. split.
        -- change (v :: cvars Gt) with (cvars (mkcb v (opp CPrd) ty :: Gt)).
           refine (IHs (m + 1) (mkcb v (opp CPrd) ty :: Gs) (mkcb v (opp CPrd) ty :: Gt) T s1 m1 Es Hts (rel_cons_both Gs Gt (mkcb v (opp CPrd) ty) Hrel Hvn) Nds Hids _ _ _).
           ++ apply mem_le_cids_cons; [simpl; lia | exact HGs].
           ++ lia.
           ++ apply mem_le_cids_cons; [simpl; lia | eapply mem_le_mono; [exact HGt | lia]].
        -- exact (nfresh_front k CPrd ty Gt m m m1 _ sk m' HK (N.le_refl _) L1 HGt Ek).
      * rewrite bind_mu_cns in Hb.
        apply rbind_ok in Hb. destruct Hb as ([sk m1] & Ek & Hb). apply rbind_ok in Hb. destruct Hb as ([s1 m2] & Es & Hb). okinv Hb.
        assert (L1 : m + 1 <= m1) by (eapply Kmono; eauto).
        cbn [nc_stmt nc_term]. apply andb_true_iff. split.
        -- exact (nfresh_front k CCns ty Gt m m (m + 1) _ sk m1 HK (N.le_refl _) (N.le_refl _) HGt Ek).
        -- change (v :: cvars Gt) with (cvars (mkcb v (opp CCns) ty :: Gt)).
           refine (IHs m1 (mkcb v (opp CCns) ty :: Gs) (mkcb v (opp CCns) ty :: Gt) T s1 m' Es Hts (rel_cons_both Gs Gt (mkcb v (opp CCns) ty) Hrel Hvn) Nds Hids _ _ _).
           ++ apply mem_le_cids_cons; [simpl; lia | exact HGs].
           ++ lia.
           ++ apply mem_le_cids_cons; [simpl; lia | eapply mem_le_mono; [exact HGt | lia]].
    + intros c m Gs Gt ty T t' m' Hf Ht Hrel Hnd Hid HGs LE HGt. rewrite focus_term_mu in Hf.
      apply rbind_ok in Hf. destruct Hf as ([s1 m1] & Es & Hf). okinv Hf.
      apply ct_mu in Ht. destruct Ht as [-> [-> Hts]]. simpl in Hnd, Hid.
      apply andb_true_iff in Hid. destruct Hid as [Hidv Hids]. apply N.leb_le in Hidv.
      assert (Hvn : ~ In (cid_id v) (cids Gs)) by (inversion Hnd; subst; intros Hin; apply H1; apply in_or_app; right; exact Hin).
      cbn [nc_term]. change (v :: cvars Gt) with (cvars (mkcb v (opp c) ty :: Gt)).
      refine (IHs m (mkcb v (opp c) ty :: Gs) (mkcb v (opp c) ty :: Gt) T s1 m' Es Hts (rel_cons_both Gs Gt (mkcb v (opp c) ty) Hrel Hvn) _ Hids _ LE _).
      * simpl. inversion Hnd; subst. apply NoDup_app_iff in H2. destruct H2 as (N1 & N2 & N3).
        apply NoDup_app_iff. split; [exact N1|]. split; [constructor; assumption|].
        intros x Hx [<-|Hx2]; [apply H1; apply in_or_app; left; exact Hx | eapply N3; eauto].
      * apply mem_le_cids_cons; [simpl; lia | exact HGs].
      * apply mem_le_cids_cons; [simpl; lia | exact HGt].
  - (* Xtor *)
    intros c0 x args ty0 IHa. split; [|split; [|exact IHa]].
    + intros c k m Gs Gt ty T s' m' Hb Ht Hrel Hnd Hid HGs LE HGt Kmono HK.
      apply ct_xtor in Ht. destruct Ht as [-> [-> [n [d [sg [-> [Hd [Hsg Hargs]]]]]]]]. simpl in Hnd, Hid. destruct c.
      * rewrite bind_xtor_prd in Hb.
        refine (bind_many_nm args IHa (xtorP_kv CPrd x (CDecl n) k) m Gs Gt (cxargs sg) T s' m' Hb Hargs Hrel Hnd Hid HGs LE HGt (kvmono_xtorP _ _ _ _ Kmono) _).
        intros bs m1 Gt1 s1 m2 He L1 Hm1 Hbs Hk1. unfold xtorP_kv in Hk1. simpl in Hk1.
        apply rbind_ok in Hk1. destruct Hk1 as ([sk mk] & Ek & Hk1). injection Hk1 as <- <-. cbn [nc_stmt nc_term].
        rewrite (nc_vars_intro _ _ Hbs). cbn [andb].
        exact (nfresh_front' k CPrd (CDecl n) Gt m Gt1 m1 _ sk mk HK He L1 Hm1 Ek).
      * rewrite bind_xtor_cns in Hb.
        refine (bind_many_nm args IHa (xtorK_kv CCns x (CDecl n) k) m Gs Gt (cxargs sg) T s' m' Hb Hargs Hrel Hnd Hid HGs LE HGt (kvmono_xtorK _ _ _ _ Kmono) _).
        intros bs m1 Gt1 s1 m2 He L1 Hm1 Hbs Hk1. unfold xtorK_kv in Hk1. simpl in Hk1.
        apply rbind_ok in Hk1. destruct Hk1 as ([sk mk] & Ek & Hk1). injection Hk1 as <- <-. cbn [nc_stmt nc_term].
        rewrite (nc_vars_intro _ _ Hbs), andb_true_r.
        exact (nfresh_front' k CCns (CDecl n) Gt m Gt1 m1 _ sk mk HK He L1 Hm1 Ek).
    + intros c m Gs Gt ty T t' m' Hf. discriminate.
  - (* XCase *)
    intros c0 cls ty0 IHc. split; [|split; [|exact I]].
    + intros c k m Gs Gt ty T s' m' Hb Ht Hrel Hnd Hid HGs LE HGt Kmono HK.
      apply ct_xcase in Ht. destruct Ht as [-> [-> [n [d [-> [Hd [Hm Hcl]]]]]]]. simpl in Hnd, Hid. destruct c.
      * rewrite bind_xcase_prd in Hb.
        apply rbind_ok in Hb. destruct Hb as ([sk m2] & Ek & Hb). apply rbind_ok in Hb. destruct Hb as ([cls' m3] & Ec & Hb). okinv Hb.
        assert (L1 : m + 1 <= m2) by (eapply Kmono; eauto).
        cbn [nc_stmt]. rewrite nc_xcase. cbn [nc_term].
        rewrite (focus_clauses_nm cls IHc m2 Gs Gt T cls' m' Ec Hcl Hrel Hnd Hid HGs); [|lia | eapply mem_le_mono; [exact HGt | lia]].
        cbn [andb]. exact (nfresh_front k CPrd (CDecl n) Gt m m (m + 1) _ sk m2 HK (N.le_refl _) (N.le_refl _) HGt Ek).
      * rewrite bind_xcase_cns in Hb.
        apply rbind_ok in Hb. destruct Hb as ([sk m2] & Ek & Hb). apply rbind_ok in Hb. destruct Hb as ([cls' m3] & Ec & Hb). okinv Hb.
        assert (L1 : m + 1 <= m2) by (eapply Kmono; eauto).
        cbn [nc_stmt]. rewrite nc_xcase. cbn [nc_term].
        rewrite (focus_clauses_nm cls IHc m2 Gs Gt T cls' m' Ec Hcl Hrel Hnd Hid HGs); [|lia | eapply mem_le_mono; [exact HGt | lia]].
        rewrite andb_true_r. exact (nfresh_front k CCns (CDecl n) Gt m m (m + 1) _ sk m2 HK (N.le_refl _) (N.le_refl _) HGt Ek).
    + intros c m Gs Gt ty T t' m' Hf Ht Hrel Hnd Hid HGs LE HGt. rewrite focus_term_xcase in Hf.
      apply rbind_ok in Hf. destruct Hf as ([cls' m3] & Ec & Hf). okinv Hf.
      apply ct_xcase in Ht. destruct Ht as [-> [-> [n [d [-> [Hd [Hm Hcl]]]]]]]. simpl in Hnd, Hid.
      rewrite nc_xcase. exact (focus_clauses_nm cls IHc m Gs Gt T cls' m' Ec Hcl Hrel Hnd Hid HGs LE HGt).
  - (* Producer *)
    intros p (Bp & _ & _) k m Gs Gt s T s' m' Hb Ht Hrel Hnd Hid HGs LE HGt Kmono HK.
    unfold CoreTyRules.arg_typed in Ht. destruct (cbchi s) eqn:Ec; [|contradiction]. rewrite bind_arg_prd in Hb.
    exact (Bp CPrd k m Gs Gt (cbty s) T s' m' Hb Ht Hrel Hnd Hid HGs LE HGt Kmono HK).
  - (* Consumer *)
    intros p (Bp & _ & _) k m Gs Gt s T s' m' Hb Ht Hrel Hnd Hid HGs LE HGt Kmono HK.
    unfold CoreTyRules.arg_typed in Ht. destruct (cbchi s) eqn:Ec; [contradiction|]. rewrite bind_arg_cns in Hb.
    exact (Bp CCns k m Gs Gt (cbty s) T s' m' Hb Ht Hrel Hnd Hid HGs LE HGt Kmono HK).
  - (* Clause *)
    intros c x ctx body IHb m Gs Gt T cl' m' Hf Ht Hrel Hnd Hid HGs LE HGt.
    rewrite focus_clause_eq in Hf. apply rbind_ok in Hf. destruct Hf as ([b1 mb] & Eb & Hf). okinv Hf.
    unfold CoreTyRules.clause_typed in Ht. simpl in Hnd, Hid.
    apply andb_true_iff in Hid. destruct Hid as [Hidc Hidb]. unfold nc_clause. rewrite <- cvars_app.
    assert (Hidc' : mem_le T (cids ctx)).
    { intros i Hi. rewrite forallb_forall in Hidc. specialize (Hidc i Hi). apply N.leb_le in Hidc. exact Hidc. }
    assert (Ecc : cids (ctx ++ Gs) = cids ctx ++ cids Gs) by (unfold cids; apply map_app).
    rewrite <- app_assoc in Hnd.
    refine (IHb m (ctx ++ Gs) (ctx ++ Gt) T b1 m' Eb Ht _ _ Hidb _ LE _).
    + apply rel_app_both; [exact Hrel|]. nd2.
    + rewrite Ecc. apply NoDup_app_iff in Hnd. destruct Hnd as (N1 & N2 & N3). apply NoDup_app_iff in N2. destruct N2 as (N4 & N5 & N6).
      apply NoDup_app_iff. split; [exact N4|]. split; [apply NoDup_app_iff; repeat split; auto|].
      * intros y Hy1 Hy2. eapply N3; [exact Hy1 | apply in_or_app; right; exact Hy2].
      * intros y Hy1 Hy2. apply in_app_or in Hy2. destruct Hy2 as [Hy2|Hy2]; [eapply N3; [exact Hy2 | apply in_or_app; left; exact Hy1] | eapply N6; eauto].
    + apply mem_le_cids_app; assumption.
    + apply mem_le_cids_app; [eapply mem_le_mono; [exact Hidc' | lia] | exact HGt].
  - (* Cut *)
    intros p ty q (Bp & Fp & Sp) (Bq & Fq & Sq) m Gs Gt T s' m' Hf Ht Hrel Hnd Hid HGs LE HGt.
    apply cs_cut in Ht. destruct Ht as [Hty [Htp Htq]]. simpl in Hnd, Hid.
    apply andb_true_iff in Hid. destruct Hid as [Hidp Hidq]. rewrite <- app_assoc in Hnd.
    assert (Hndp : NoDup (binder_ids_term p ++ cids Gs)) by nd2.
    assert (Hndq : NoDup (binder_ids_term q ++ cids Gs)) by nd2.
    destruct (is_xtor p) eqn:Exp.
    + destruct p as [| | | |pc px pargs pty|]; try discriminate.
      apply ct_xtor in Htp. destruct Htp as [-> [-> [n [d [sg [-> [Hd [Hsg Hargs]]]]]]]].
      rewrite focus_cut_xtorP in Hf. simpl in Sp, Hndp, Hidp.
      refine (bind_many_nm pargs Sp (cutP_kv CPrd px (CDecl n) q) m Gs Gt (cxargs sg) T s' m' Hf Hargs Hrel Hndp Hidp HGs LE HGt (kvmono_cutP _ _ _ _) _).
      intros bs m1 Gt1 s1 m2 He L1 Hm1 Hbs Hk1. unfold cutP_kv in Hk1.
      apply rbind_ok in Hk1. destruct Hk1 as ([q' mq] & Eq & Hk1). okinv Hk1. cbn [nc_stmt nc_term].
      rewrite (nc_vars_intro _ _ Hbs). simpl.
      refine (Fq CCns m1 Gs Gt1 (CDecl n) T q' m2 Eq Htq (rel_ext _ _ _ _ Hrel He HGt) Hndq Hidq HGs _ Hm1). lia.
    + destruct (is_xtor q) eqn:Exq.
      * destruct q as [| | | |qc qx qargs qty|]; try discriminate.
        apply ct_xtor in Htq. destruct Htq as [-> [-> [n [d [sg [-> [Hd [Hsg Hargs]]]]]]]].
        rewrite focus_cut_xtorK in Hf; [|destruct p; try exact I; discriminate]. simpl in Sq, Hndq, Hidq.
        refine (bind_many_nm qargs Sq (cutK_kv CCns qx (CDecl n) p) m Gs Gt (cxargs sg) T s' m' Hf Hargs Hrel Hndq Hidq HGs LE HGt (kvmono_cutK _ _ _ _) _).
        intros bs m1 Gt1 s1 m2 He L1 Hm1 Hbs Hk1. unfold cutK_kv in Hk1.
        apply rbind_ok in Hk1. destruct Hk1 as ([p' mp] & Ep & Hk1). okinv Hk1. cbn [nc_stmt nc_term].
        rewrite (nc_vars_intro _ _ Hbs), andb_true_r.
        refine (Fp CPrd m1 Gs Gt1 (CDecl n) T p' m2 Ep Htp (rel_ext _ _ _ _ Hrel He HGt) Hndp Hidp HGs _ Hm1). lia.
      * destruct (is_op p) eqn:Eop.
        -- destruct p as [| |a o b| | |]; try discriminate. destruct Sp as [Ba Bb].
           apply ct_op in Htp. destruct Htp as [_ [-> [Hta Htb]]].
           rewrite focus_cut_op in Hf; [|destruct q; try exact I; discriminate]. simpl in Hndp, Hidp.
           apply andb_true_iff in Hidp. destruct Hidp as [Hida Hidb]. rewrite <- app_assoc in Hndp.
           assert (Nda : NoDup (binder_ids_term a ++ cids Gs)) by nd2.
           assert (Ndb : NoDup (binder_ids_term b ++ cids Gs)) by nd2.
           refine (Ba CPrd (cutopL_k b o CI64 q) m Gs Gt CI64 T s' m' Hf Hta Hrel Nda Hida HGs LE HGt (kmono_cutopL _ _ _ _) _).
           intros b1 m1 Gt1 s1 m2 He L1 Hm1 Hf1 Hk1. unfold cutopL_k in Hk1.
           refine (Bb CPrd (cutopR_k b1 o CI64 q) m1 Gs Gt1 CI64 T s1 m2 Hk1 Htb (rel_ext _ _ _ _ Hrel He HGt) Ndb Hidb HGs _ Hm1 (kmono_cutopR _ _ _ _) _); [lia|].
           intros b2 m3 Gt2 s2 m4 He2 L2 Hm2 Hf2 Hk2. unfold cutopR_k in Hk2.
           apply rbind_ok in Hk2. destruct Hk2 as ([q' mq] & Eq & Hk2). okinv Hk2. cbn [nc_stmt nc_term].
           rewrite (nc_var_intro Gt2 b1 (bound_self_ext _ _ _ _ He2 Hm1 Hf1)), (nc_var_intro Gt2 b2 Hf2). simpl.
           refine (Fq CCns m3 Gs Gt2 CI64 T q' m4 Eq Htq _ Hndq Hidq HGs _ Hm2); [|lia].
           eapply rel_ext; [eapply rel_ext; eauto | eauto | eauto].
        -- rewrite focus_cut_heads in Hf; [| destruct p; try exact I; discriminate | destruct q; try exact I; discriminate].
           apply rbind_ok in Hf. destruct Hf as ([p' m1] & Ep & Hf). apply rbind_ok in Hf. destruct Hf as ([q' m2] & Eq & Hf). okinv Hf.
           assert (L1 : m <= m1) by (eapply focus_term_mono; eauto).
           cbn [nc_stmt]. apply andb_true_iff. split.
           ++ exact (Fp CPrd m Gs Gt ty T p' m1 Ep Htp Hrel Hndp Hidp HGs LE HGt).
           ++ refine (Fq CCns m1 Gs Gt ty T q' m' Eq Htq Hrel Hndq Hidq HGs _ _); [lia | eapply mem_le_mono; eauto].
  - (* IfC *)
    intros so a b t e (Ba & _ & _) IHb IHt IHe m Gs Gt T s' m' Hf Ht Hrel Hnd Hid HGs LE HGt.
    apply cs_ifc in Ht. destruct Ht as [Hta [Htb [Htt Hte]]]. rewrite focus_ifc in Hf. simpl in Hnd, Hid.
    apply andb_true_iff in Hid. destruct Hid as [Hid Hide]. apply andb_true_iff in Hid. destruct Hid as [Hid Hidt].
    apply andb_true_iff in Hid. destruct Hid as [Hida Hidb]. rewrite <- !app_assoc in Hnd.
    assert (Nda : NoDup (binder_ids_term a ++ cids Gs)) by nd2.
    assert (Ndt : NoDup (binder_ids_stmt t ++ cids Gs)) by nd2.
    assert (Nde : NoDup (binder_ids_stmt e ++ cids Gs)) by nd2.
    refine (Ba CPrd (if1_k so b t e) m Gs Gt CI64 T s' m' Hf Hta Hrel Nda Hida HGs LE HGt (kmono_if1 so b t e) _).
    intros b1 m1 Gt1 s1 m2 He L1 Hm1 Hf1 Hk1. unfold if1_k in Hk1.
    assert (Hrel1 : rel Gs Gt1) by (eapply rel_ext; eauto).
    destruct b as [b0|].
    + destruct IHb as (Bb & _ & _).
      assert (Ndb : NoDup (binder_ids_term b0 ++ cids Gs)) by nd2.
      refine (Bb CPrd (if2_k so b1 t e) m1 Gs Gt1 CI64 T s1 m2 Hk1 Htb Hrel1 Ndb Hidb HGs _ Hm1 (kmono_if2 so b1 t e) _); [lia|].
      intros b2 m3 Gt2 s2 m4 He2 L2 Hm2 Hf2 Hk2. unfold if2_k in Hk2.
      apply rbind_ok in Hk2. destruct Hk2 as ([t' mt] & Et & Hk2). apply rbind_ok in Hk2. destruct Hk2 as ([e' me] & Ee & Hk2). okinv Hk2.
      assert (Hrel2 : rel Gs Gt2) by (eapply rel_ext; eauto).
      assert (L3 : m3 <= mt) by (eapply focus_stmt_mono; eauto).
      cbn [nc_stmt]. rewrite (nc_var_intro Gt2 b1 (bound_self_ext _ _ _ _ He2 Hm1 Hf1)), (nc_var_intro Gt2 b2 Hf2). simpl.
      apply andb_true_iff. split.
      * refine (IHt m3 Gs Gt2 T t' mt Et Htt Hrel2 Ndt Hidt HGs _ Hm2). lia.
      * refine (IHe mt Gs Gt2 T e' m4 Ee Hte Hrel2 Nde Hide HGs _ _); [lia | eapply mem_le_mono; eauto].
    + apply rbind_ok in Hk1. destruct Hk1 as ([t' mt] & Et & Hk1). apply rbind_ok in Hk1. destruct Hk1 as ([e' me] & Ee & Hk1). okinv Hk1.
      assert (L3 : m1 <= mt) by (eapply focus_stmt_mono; eauto).
      cbn [nc_stmt]. rewrite (nc_var_intro Gt1 b1 Hf1). simpl. apply andb_true_iff. split.
      * refine (IHt m1 Gs Gt1 T t' mt Et Htt Hrel1 Ndt Hidt HGs _ Hm1). lia.
      * refine (IHe mt Gs Gt1 T e' m2 Ee Hte Hrel1 Nde Hide HGs _ _); [lia | eapply mem_le_mono; eauto].
  - (* Print *)
    intros nl a next (Ba & _ & _) IHn m Gs Gt T s' m' Hf Ht Hrel Hnd Hid HGs LE HGt.
    apply cs_print in Ht. destruct Ht as [Hta Htn]. rewrite focus_print in Hf. simpl in Hnd, Hid.
    apply andb_true_iff in Hid. destruct Hid as [Hida Hidn]. rewrite <- app_assoc in Hnd.
    assert (Nda : NoDup (binder_ids_term a ++ cids Gs)) by nd2.
    assert (Ndn : NoDup (binder_ids_stmt next ++ cids Gs)) by nd2.
    refine (Ba CPrd (print_k nl next) m Gs Gt CI64 T s' m' Hf Hta Hrel Nda Hida HGs LE HGt (kmono_print nl next) _).
    intros b1 m1 Gt1 s1 m2 He L1 Hm1 Hf1 Hk1. unfold print_k in Hk1.
    apply rbind_ok in Hk1. destruct Hk1 as ([n' mn] & En & Hk1). okinv Hk1.
    cbn [nc_stmt]. rewrite (nc_var_intro Gt1 b1 Hf1). simpl.
    refine (IHn m1 Gs Gt1 T n' m2 En Htn _ Ndn Hidn HGs _ Hm1); [eapply rel_ext; eauto | lia].
  - (* Call *)
    intros f args ty IHa m Gs Gt T s' m' Hf Ht Hrel Hnd Hid HGs LE HGt.
    apply cs_call in Ht. destruct Ht as [Hty [d [Hd Hargs]]]. rewrite focus_call in Hf. simpl in Hnd, Hid.
    refine (bind_many_nm args IHa (call_kv f) m Gs Gt (cdctx d) T s' m' Hf Hargs Hrel Hnd Hid HGs LE HGt (kvmono_call f) _).
    intros bs m1 Gt1 s1 m2 He L1 Hm1 Hbs Hk1. unfold call_kv in Hk1. okinv Hk1. cbn [nc_stmt]. exact (nc_vars_intro _ _ Hbs).
  - (* Exit *)
    intros a ty (Ba & _ & _) m Gs Gt T s' m' Hf Ht Hrel Hnd Hid HGs LE HGt.
    apply cs_exit in Ht. destruct Ht as [_ Hta]. rewrite focus_exit in Hf. simpl in Hnd, Hid.
    refine (Ba CPrd exit_k m Gs Gt CI64 T s' m' Hf Hta Hrel Hnd Hid HGs LE HGt kmono_exit _).
    intros b1 m1 Gt1 s1 m2 He L1 Hm1 Hf1 Hk1. unfold exit_k in Hk1. okinv Hk1. cbn [nc_stmt]. exact (nc_var_intro Gt1 b1 Hf1).
Qed.
Definition focus_stmt_names := proj2 (proj2 (proj2 focus_nm_all)).
End Names.
