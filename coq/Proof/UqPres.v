(* C03, uniquify preserves behaviour, part 6: programs.
   [uniquify_preserves]: run_core fuel (uniquify p) args = run_core fuel p args for EVERY fuel and
   argument tuple (equal observations, stuck and out-of-fuel runs included), for programs whose
   identifiers are <= max_id, of the shape focus_wf, and chirality-consistently scoped ([cs_prog]). *)
From Coq Require Import List ZArith NArith String Bool Lia.
From SCC Require Import Base.Sexp Lang.CoreSyn Sem.AxSem Sem.CoreSem Model.Backend Model.Uniquify Model.FocusCheck
     Proof.CoreInd Proof.SubstProof Proof.UniquifyProof Proof.FocusExtra Proof.FocusKont
     Proof.UqSubst Proof.UqAeq Proof.UqProof Proof.UqMain Proof.UqSim.
From SCC Require Import Model.FocusGuard.
Import ListNotations.
Open Scope list_scope.
Open Scope N_scope.

Definition def_rel (d d1 : cdef) : Prop :=
  cdname d1 = cdname d /\ ctx_like (cdctx d) (cdctx d1) /\
  aeq_s (gzip (cdctx d) (cdctx d1)) (cdbody d) (cdbody d1).

Lemma J_empty : J [] [] [].
Proof. split; [intros k t []|]. split; [intros k t []|]. intros x c _. destruct c; reflexivity. Qed.

Lemma uq_def_aeq : forall d m d1 m1 T,
  uq_def d m = Ok (d1, m1) -> wf_stmt (cdbody d) = true -> ids_le_def T d = true -> T <= m -> cs_def d = true ->
  def_rel d d1 /\ m <= m1.
Proof.
  intros d m d1 m1 T U W I L SC. unfold uq_def in U. rewrite uq_context_uqc in U.
  destruct (uqc (cdctx d) m) as [[[ctx' vs] cs] m0] eqn:UC.
  rb U body1 E1. rb2 U body2 m2 E2. okinv U.
  unfold ids_le_def in I. apply andb_true_iff in I. destruct I as [I1 I2].
  destruct (uqc_spec _ _ _ _ _ _ UC) as (L0 & CL & _).
  assert (ID : subst_stmt (cdbody d) [] [] = Ok (cdbody d)) by (apply subst_not_free_stmt; [exact W | intros k []]).
  pose proof (compose_ctx (cdbody d) [] [] (cdctx d) m ctx' vs cs m0 (cdbody d) body1
                (fun k t (x : In (k, t) []) => match x with end) (fun k t (x : In (k, t) []) => match x with end) UC ID E1) as CMP.
  simpl in CMP.
  pose proof (J_ctx [] [] [] _ _ _ _ _ _ J_empty UC) as HJ. simpl in HJ.
  pose proof (uqc_GOK _ _ _ _ _ _ T [] UC (GOK_nil T m) L I1) as K.
  assert (SC' : cs_stmt (gsrc (gzip (cdctx d) ctx' ++ [])) (cdbody d) = true).
  { rewrite app_nil_r, gsrc_gzip; [exact SC | apply ctx_like_length; exact CL]. }
  destruct (proj2 (proj2 (uq_aeq_all (uq_fuel body1))) _ _ _ _ _ _ _ _ _ CMP E2 HJ K ltac:(lia) I2 SC') as [A L1].
  rewrite app_nil_r in A.
  split; [|lia]. split; [reflexivity|]. split; assumption.
Qed.

Lemma uq_defs_aeq : forall ds m ds1 m1 T,
  maprs uq_def ds m = Ok (ds1, m1) -> forallb (fun d => wf_stmt (cdbody d)) ds = true ->
  forallb (ids_le_def T) ds = true -> T <= m -> forallb cs_def ds = true ->
  Forall2 def_rel ds ds1.
Proof.
  induction ds as [|d r IH]; intros m ds1 m1 T U W I L SC; simpl in U.
  - okinv U. constructor.
  - rb2 U d1 m2 E1. rb2 U r1 m3 E2. okinv U. simpl in W, I, SC.
    apply andb_true_iff in W. destruct W as [W1 W2]. apply andb_true_iff in I. destruct I as [I1 I2].
    apply andb_true_iff in SC. destruct SC as [S1 S2].
    destruct (uq_def_aeq _ _ _ _ _ E1 W1 I1 L S1) as [R1 L1].
    constructor; [exact R1|]. eapply IH; eauto. lia.
Qed.

Lemma defs_find : forall ds ds1 f, Forall2 def_rel ds ds1 ->
  match find (fun d => cident_eqb (cdname d) f) ds, find (fun d => cident_eqb (cdname d) f) ds1 with
  | Some d, Some d1 => ctx_like (cdctx d) (cdctx d1) /\ aeq_s (gzip (cdctx d) (cdctx d1)) (cdbody d) (cdbody d1)
  | None, None => True
  | _, _ => False
  end.
Proof.
  induction 1 as [|d d1 r r1 (N & CL & A) HR IH]; simpl; [exact I|].
  rewrite N. destruct (cident_eqb (cdname d) f); [split; assumption | exact IH].
Qed.

Lemma UVs_ints : forall zs : list Z, UVs (map (fun z => BP (PInt z)) zs) (map (fun z => BP (PInt z)) zs).
Proof. induction zs; simpl; constructor; auto. constructor. Qed.

Lemma ctx_like_chi : forall ctx ctx', ctx_like ctx ctx' ->
  forallb (fun b => match cbchi b with CPrd => true | CCns => false end) ctx' =
  forallb (fun b => match cbchi b with CPrd => true | CCns => false end) ctx.
Proof. induction 1 as [|b b' r r' [E _] HR IH]; simpl; [reflexivity|]. rewrite E, IH. reflexivity. Qed.

Theorem uniquify_preserves : forall p p1,
  uniquify_prog p = Ok p1 -> focus_wf p = true -> forallb (ids_le_def (cpmax p)) (cpdefs p) = true ->
  cs_prog p = true ->
  forall fuel args, run_core fuel p1 args = run_core fuel p args.
Proof.
  intros p p1 U W I SC fuel args. unfold uniquify_prog in U. rb2 U ds m E. okinv U.
  pose proof (uq_defs_aeq _ _ _ _ _ E W I (N.le_refl _) SC) as DR.
  set (p1 := mkcp ds (cpdata p) (cpcodata p) m).
  assert (Hcod : forall ty, is_codata p1 ty = is_codata p ty) by reflexivity.
  assert (Hdefs : forall f,
            match cfind_def p f, cfind_def p1 f with
            | Some d, Some d1 => ctx_like (cdctx d) (cdctx d1) /\ aeq_s (gzip (cdctx d) (cdctx d1)) (cdbody d) (cdbody d1)
            | None, None => True
            | _, _ => False
            end).
  { intros f. unfold cfind_def. simpl. apply defs_find. exact DR. }
  unfold run_core. simpl.
  destruct DR as [|d d1 r r1 (N & CL & A) HR]; [reflexivity|].
  unfold centry_env. rewrite (ctx_like_chi _ _ CL).
  destruct (forallb (fun b => match cbchi b with CPrd => true | CCns => false end) (cdctx d)); [|reflexivity].
  pose proof (u_cbind _ _ _ _ _ _ _ CL (UVs_ints args) UE_nil) as B. rewrite app_nil_r in B.
  destruct (cbind (cvars (cdctx d)) (map (fun z => BP (PInt z)) args) []),
           (cbind (cvars (cdctx d1)) (map (fun z => BP (PInt z)) args) []); try contradiction; [|reflexivity].
  apply (u_crun p p1 Hcod Hdefs). econstructor; eauto.
Qed.
