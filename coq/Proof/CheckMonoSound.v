(* C15, soundness of the model of the type checker (faithful and repaired) with respect to the
   declarative typing rules, on the fragment without type parameters / type arguments. *)
From Coq Require Import List ZArith String Bool Permutation Lia.
From SCC Require Import Base.Sexp Lang.SynUtil Lang.FunSyn Model.Check Sem.FunTyping
  Proof.FunInd Proof.FunEq Proof.CheckAnn Proof.TypingReject Proof.CheckBuild Proof.CheckMono.
Import ListNotations.
Open Scope list_scope.

(* ---------- environments: the context list of the checker as the function of the rules ---------- *)
Definition E (c : fctx) : env := env_of_ctx env_empty c.

Lemma env_of_ctx_app : forall c d G, env_of_ctx G (c ++ d) = env_of_ctx (env_of_ctx G c) d.
Proof. induction c as [|b r IH]; intros d G; simpl; [reflexivity|apply IH]. Qed.
Lemma E_snoc : forall c v ch t, E (c ++ [mkfb v ch t]) = extend (E c) v ch t.
Proof. intros. unfold E. rewrite env_of_ctx_app. reflexivity. Qed.

Lemma env_of_ctx_lookup : forall c G v,
  env_of_ctx G c v = match lookup_last c v with Some b => Some (fbchi b, fbty b) | None => G v end.
Proof.
  induction c as [|b r IH]; intros G v; simpl; [reflexivity|].
  rewrite IH. destruct (lookup_last r v); [reflexivity|].
  unfold extend. rewrite String.eqb_sym. destruct (String.eqb (fbvar b) v); reflexivity.
Qed.
Lemma E_lookup : forall c v, E c v = match lookup_last c v with Some b => Some (fbchi b, fbty b) | None => None end.
Proof. intros. unfold E. rewrite env_of_ctx_lookup. reflexivity. Qed.
Lemma lookup_last_in : forall c v b, lookup_last c v = Some b -> In b c /\ fbvar b = v.
Proof.
  induction c as [|x r IH]; simpl; intros v b H; [discriminate|].
  destruct (lookup_last r v) eqn:El.
  - inversion H; subst. destruct (IH _ _ El). auto.
  - destruct (String.eqb (fbvar x) v) eqn:Ev; [|discriminate]. inversion H; subst.
    apply String.eqb_eq in Ev. auto.
Qed.

(* ---------- instantiation with no parameters is the identity ---------- *)
Lemma inst_nil : forall targs t, inst [] targs t = t.
Proof.
  intros targs. fix IH 1. intros [|n args]; simpl; [reflexivity|]. f_equal.
  induction args as [|a r IHr]; simpl; [reflexivity|]. rewrite IH, IHr. reflexivity.
Qed.
Lemma extend_sig_nil : forall xs sg G targs, extend_sig G [] targs xs sg = env_of_ctx G (zip_names xs sg).
Proof.
  induction xs as [|x xr IH]; intros sg G targs; simpl; [reflexivity|].
  destruct sg as [|b br]; simpl; [reflexivity|]. rewrite inst_nil. apply IH.
Qed.

(* ---------- uniqueness of xtor names ---------- *)
Lemma nodup_app_l : forall a b, nodup (a ++ b) = true -> nodup a = true.
Proof.
  induction a as [|x r IH]; intros b H; simpl in *; [reflexivity|].
  apply andb_true_iff in H. destruct H as [Hm Hn]. rewrite (IH _ Hn), andb_true_r.
  destruct (mem x r) eqn:E; [|reflexivity]. apply mem_In in E.
  assert (mem x (r ++ b) = true) by (apply mem_In; apply in_or_app; auto). rewrite H in Hm. discriminate.
Qed.
Lemma nodup_app_r : forall a b, nodup (a ++ b) = true -> nodup b = true.
Proof.
  induction a as [|x r IH]; intros b H; simpl in *; [assumption|].
  apply andb_true_iff in H. destruct H as [_ Hn]. auto.
Qed.
Lemma nodup_app_disj : forall a b x, nodup (a ++ b) = true -> In x a -> In x b -> False.
Proof.
  induction a as [|y r IH]; intros b x H Ha Hb; [destruct Ha|]. simpl in H.
  apply andb_true_iff in H. destruct H as [Hm Hn]. destruct Ha as [->|Ha].
  - assert (mem x (r ++ b) = true) by (apply mem_In; apply in_or_app; auto). rewrite H in Hm. discriminate.
  - eapply IH; eassumption.
Qed.

Lemma find_xtor_unique : forall ts pol td x s,
  nodup (xtor_names pol ts) = true -> In td ts -> td_pol td = pol -> find_xsig td x = Some s ->
  find_xtor ts pol x = Some (td, s).
Proof.
  induction ts as [|t0 r IH]; intros pol td x s Hn Hin Hp Hs; [destruct Hin|].
  rewrite find_xtor_cons. unfold xtor_names in Hn. simpl in Hn.
  destruct Hin as [->|Hin].
  - rewrite Hp, fpol_eqb_refl, Hs. reflexivity.
  - destruct (fpol_eqb (td_pol t0) pol) eqn:Ep; simpl.
    + destruct (find_xsig t0 x) as [s0|] eqn:E0; simpl.
      * exfalso. apply find_xsig_spec in E0. destruct E0 as [Hi0 Hn0].
        apply find_xsig_spec in Hs. destruct Hs as [Hi Hnm].
        eapply (nodup_app_disj _ _ x Hn).
        -- apply in_map_iff. eauto.
        -- apply in_flat_map. exists td. split; [assumption|]. rewrite Hp, fpol_eqb_refl.
           apply in_map_iff. eauto.
      * apply IH; try assumption. eapply nodup_app_r. eassumption.
    + apply IH; try assumption.
Qed.
Lemma xtor_names_of_type_nodup : forall ts pol td,
  nodup (xtor_names pol ts) = true -> In td ts -> td_pol td = pol -> nodup (map xs_name (td_xtors td)) = true.
Proof.
  induction ts as [|t0 r IH]; intros pol td Hn Hin Hp; [destruct Hin|].
  unfold xtor_names in Hn. simpl in Hn. destruct Hin as [->|Hin].
  - rewrite Hp, fpol_eqb_refl in Hn. eapply nodup_app_l. eassumption.
  - eapply IH; try eassumption. eapply nodup_app_r. eassumption.
Qed.
Lemma find_type_unique : forall ts td, nodup (map td_name ts) = true -> In td ts -> find_type ts (td_name td) = Some td.
Proof.
  induction ts as [|t0 r IH]; intros td Hn Hin; [destruct Hin|]. unfold find_type. simpl.
  simpl in Hn. apply andb_true_iff in Hn. destruct Hn as [Hm Hn].
  destruct Hin as [->|Hin]; [rewrite String.eqb_refl; reflexivity|].
  destruct (String.eqb (td_name t0) (td_name td)) eqn:E; [|apply IH; assumption].
  apply String.eqb_eq in E. exfalso.
  assert (mem (td_name t0) (map td_name r) = true) by (apply mem_In; rewrite E; apply in_map; assumption).
  rewrite H in Hm. discriminate.
Qed.
Lemma find_type_name : forall ts n td, find_type ts n = Some td -> td_name td = n.
Proof. intros ts n td H. unfold find_type in H. apply find_some in H. destruct H as [_ E]. apply String.eqb_eq. assumption. Qed.

(* ---------- the clause loop of the rules as a conjunction over the clauses ---------- *)
Definition clause_ok (ts : list tdecl) (fs : list fdef) (G : env) (td : tdecl) (targs : list fty) (T : option fty) (c : fclause) : bool :=
  match c with
  | FClause _ x xs _ body =>
      match find_xsig td x with
      | None => false
      | Some s =>
          nodup xs && Nat.eqb (List.length xs) (List.length (xs_args s))
          && match T, xs_ret s with
             | Some T, _ => chk ts fs (extend_sig G (td_params td) targs xs (xs_args s)) body T
             | None, Some R => chk ts fs (extend_sig G (td_params td) targs xs (xs_args s)) body (inst (td_params td) targs R)
             | None, None => false
             end
      end
  end.
Lemma chk_clauses_forallb : forall ts fs G td targs T cls,
  chk_clauses_with (chk ts fs) G td targs T cls = forallb (clause_ok ts fs G td targs T) cls.
Proof.
  intros ts fs G td targs T cls. induction cls as [|[p x xs cx body] r IH]; simpl; [reflexivity|].
  rewrite IH. reflexivity.
Qed.

Lemma In_aget : forall {V} (l : amap V) k v, NoDup (map fst l) -> In (k, v) l -> aget l k = Some v.
Proof.
  induction l as [|[k0 v0] r IH]; intros k v Hn Hin; [destruct Hin|]. simpl in *.
  inversion Hn as [|? ? Hnotin Hn']; subst.
  destruct Hin as [Heq|Hin].
  - inversion Heq; subst. rewrite String.eqb_refl. reflexivity.
  - destruct (String.eqb k0 k) eqn:E; [|auto].
    apply String.eqb_eq in E. subst. exfalso. apply Hnotin. apply in_map_iff. exists (k, v). auto.
Qed.

Lemma existsb_names_find : forall x l,
  existsb (String.eqb x) (map xs_name l) = is_some (find (fun s => String.eqb (xs_name s) x) l).
Proof.
  induction l as [|s r IH]; simpl; [reflexivity|]. rewrite (String.eqb_sym x (xs_name s)).
  destruct (String.eqb (xs_name s) x); [reflexivity|apply IH].
Qed.
(* scanning the template table for an xtor = find_xtor of the rules *)
Lemma find_template_find_xtor : forall ts pol x,
  find_template_for_xtor pol (map (fun td => (td_name td, tt_val td)) ts) x
  = option_map (fun p => (td_name (fst p), map xs_name (td_xtors (fst p)))) (find_xtor ts pol x).
Proof.
  induction ts as [|t0 r IH]; intros pol x; simpl; [reflexivity|].
  rewrite find_xtor_cons. unfold tt_val at 1. simpl.
  rewrite existsb_names_find. unfold find_xsig at 1.
  destruct (fpol_eqb (td_pol t0) pol); simpl; [|apply IH].
  unfold find_xsig. destruct (find (fun s => String.eqb (xs_name s) x) (td_xtors t0)); simpl; [reflexivity|apply IH].
Qed.

(* ---------- the world: a program of the fragment whose tables have been built ---------- *)
Record mono_world (ts : list tdecl) (fs : list fdef) : Prop := {
  W_names : names_ok ts fs = true;
  W_params : forall td, In td ts -> td_params td = [];
  W_sigs : forall td s, In td ts -> In s (td_xtors td) -> mono_ctx (xs_args s) = true /\ mono_ann (xs_ret s) = true;
  W_defs : forall d, In d fs -> mono_ctx (fdctx d) = true /\ mono_ty (fdret d) = true;
  W_ret : forall td s, In td ts -> td_pol td = FCodata -> In s (td_xtors td) -> xs_ret s <> None
}.

Section Sound.
  Variable ts : list tdecl.
  Variable fs : list fdef.
  Hypothesis W : mono_world ts fs.

  Lemma names_ok_parts : nodup (map td_name ts) = true /\ nodup (xtor_names FData ts) = true
                         /\ nodup (xtor_names FCodata ts) = true /\ nodup (map fdname fs) = true.
  Proof.
    pose proof (W_names _ _ W) as H. unfold names_ok in H.
    apply andb_true_iff in H. destruct H as [H H4]. apply andb_true_iff in H. destruct H as [H H3].
    apply andb_true_iff in H. destruct H as [H1 H2]. auto.
  Qed.
  Lemma nodup_xtors : forall pol, nodup (xtor_names pol ts) = true.
  Proof. intros [|]; apply names_ok_parts. Qed.

  (* an instance found by scanning the instance table *)
  Lemma lookup_ty_for_xtor_mono : forall st pol x ty xs,
    minv st -> lookup_ty_for_xtor pol st x = Some (ty, xs) ->
    exists n, ty = FDecl n [] /\ aget (st_types st) n = Some (pol, [], xs) /\ In x xs.
  Proof.
    intros st pol x ty xs I. unfold lookup_ty_for_xtor.
    assert (Hall : forall k v, In (k, v) (st_types st) -> aget (st_types st) k = Some v).
    { intros. apply In_aget; [apply (mi_nodup _ I)|assumption]. }
    revert Hall. generalize (st_types st) at 1 3. intros l. induction l as [|[name [[p targs] xtors]] r IH]; intros Hall H; simpl in H; [discriminate|].
    destruct (fpol_eqb p pol && xtor_matches (print_targs targs) x xtors) eqn:Ec.
    - inversion H; subst. apply andb_true_iff in Ec. destruct Ec as [Ep Ex]. apply fpol_eqb_eq in Ep. subst p.
      pose proof (Hall name _ (or_introl eq_refl)) as Hg.
      destruct (mi_types _ I _ _ _ _ Hg) as [-> _]. exists name. simpl. split; [reflexivity|]. split; [assumption|].
      unfold xtor_matches in Ex. apply existsb_exists in Ex. destruct Ex as [y [Hy Ey]].
      simpl in Ey. rewrite append_nil_r in Ey. apply String.eqb_eq in Ey. subst. assumption.
    - apply IH; [|assumption]. intros. apply Hall. right. assumption.
  Qed.
  (* ... and conversely an existing instance is found *)
  Lemma lookup_ty_for_xtor_found : forall st pol x n xs,
    minv st -> aget (st_types st) n = Some (pol, [], xs) -> In x xs ->
    exists ty xs', lookup_ty_for_xtor pol st x = Some (ty, xs').
  Proof.
    intros st pol x n xs I Hg Hx. unfold lookup_ty_for_xtor.
    apply aget_In in Hg. revert Hg. generalize (st_types st). intros l. induction l as [|[name [[p targs] xtors]] r IH]; intros Hin; [destruct Hin|].
    simpl. destruct (fpol_eqb p pol && xtor_matches (print_targs targs) x xtors) eqn:Ec; [eauto|].
    destruct Hin as [Heq|Hin]; [|auto].
    inversion Heq; subst. rewrite fpol_eqb_refl in Ec. simpl in Ec.
    assert (xtor_matches "" x xs = true).
    { unfold xtor_matches. apply existsb_exists. exists x. split; [assumption|]. rewrite append_nil_r. apply String.eqb_refl. }
    congruence.
  Qed.

  (* the declared type behind a table entry *)
  Lemma template_type : forall st n pol xs, tables ts fs st ->
    aget (st_type_templates st) n = Some (pol, [], xs) ->
    exists td, In td ts /\ find_type ts n = Some td /\ td_name td = n /\ td_pol td = pol /\ map xs_name (td_xtors td) = xs.
  Proof.
    intros st n pol xs T H. destruct (find_type_tt ts fs st n pol [] xs T H) as [td [Hf [Hp [_ Hx]]]].
    exists td. pose proof (find_type_in _ _ _ Hf). pose proof (find_type_name _ _ _ Hf). auto.
  Qed.
  Lemma xtor_of_type : forall td x, In td ts -> In x (map xs_name (td_xtors td)) ->
    exists s, find_xsig td x = Some s /\ find_xtor ts (td_pol td) x = Some (td, s) /\ In s (td_xtors td).
  Proof.
    intros td x Hin Hx. destruct (find_xsig_in_name _ _ Hx) as [s Hs]. exists s. split; [assumption|].
    split; [apply find_xtor_unique; auto using nodup_xtors|]. apply find_xsig_spec in Hs. tauto.
  Qed.
  (* the signature stored for a constructor / destructor of a declared type *)
  Lemma ctor_template_sig : forall st td x s sg, tables ts fs st -> In td ts -> td_pol td = FData ->
    find_xsig td x = Some s -> aget (st_ctor_templates st) x = Some sg -> sg = xs_args s.
  Proof.
    intros st td x s sg T Hin Hp Hs H. rewrite (t_ct _ _ _ T) in H.
    rewrite (find_xtor_unique ts FData td x s (nodup_xtors _) Hin Hp Hs) in H. simpl in H. congruence.
  Qed.
  Lemma dtor_template_sig : forall st td x s sg ret, tables ts fs st -> In td ts -> td_pol td = FCodata ->
    find_xsig td x = Some s -> aget (st_dtor_templates st) x = Some (sg, ret) -> sg = xs_args s /\ xs_ret s = Some ret.
  Proof.
    intros st td x s sg ret T Hin Hp Hs H. rewrite (t_dt _ _ _ T) in H.
    rewrite (find_xtor_unique ts FCodata td x s (nodup_xtors _) Hin Hp Hs) in H. unfold dt_val in H. simpl in H.
    destruct (xs_ret s); inversion H; auto.
  Qed.

  Lemma mono_ctx_in : forall c b, mono_ctx c = true -> In b c -> mono_ty (fbty b) = true.
  Proof. intros c b H Hin. unfold mono_ctx in H. rewrite forallb_forall in H. auto. Qed.
  Lemma mono_ctx_app : forall a b, mono_ctx a = true -> mono_ctx b = true -> mono_ctx (a ++ b) = true.
  Proof. intros a b Ha Hb. unfold mono_ctx in *. rewrite forallb_app, Ha, Hb. reflexivity. Qed.
  Lemma mono_zip_names : forall xs sg, mono_ctx sg = true -> mono_ctx (zip_names xs sg) = true.
  Proof.
    induction xs as [|x r IH]; intros sg H; simpl; [reflexivity|]. destruct sg as [|b br]; [reflexivity|].
    simpl in *. apply andb_true_iff in H. destruct H as [H1 H2]. rewrite H1. simpl. auto.
  Qed.

  (* ---------- what soundness means for one term, and for the arguments ---------- *)
  Definition sound_at (t : fterm) : Prop :=
    forall eager st ctx T t' st',
      mono_term t = true -> mono_ctx ctx = true -> mono_ty T = true -> tables ts fs st -> minv st ->
      check_term_gen eager t st ctx T = COk (t', st') ->
      chk ts fs (E ctx) t T = true /\ minv st' /\ same_templates st st' /\ grows st st'.

  Lemma lookup_covar_E : forall ctx v found, lookup_covar ctx v = COk found ->
    E ctx v = Some (FCns, found) /\ exists b, In b ctx /\ fbty b = found.
  Proof.
    intros ctx v found H. unfold lookup_covar in H. destruct (lookup_last ctx v) as [b|] eqn:El; [|discriminate].
    destruct (fbchi b) eqn:Ec; [discriminate|]. inversion H; subst.
    rewrite E_lookup, El, Ec. split; [reflexivity|]. apply lookup_last_in in El. exists b. tauto.
  Qed.
  Lemma lookup_var_E : forall ctx v found, lookup_var ctx v = COk found ->
    E ctx v = Some (FPrd, found) /\ exists b, In b ctx /\ fbty b = found.
  Proof.
    intros ctx v found H. unfold lookup_var in H. destruct (lookup_last ctx v) as [b|] eqn:El; [|discriminate].
    destruct (fbchi b) eqn:Ec; [|discriminate]. inversion H; subst.
    rewrite E_lookup, El, Ec. split; [reflexivity|]. apply lookup_last_in in El. exists b. tauto.
  Qed.

  (* the optional annotation check `if let Some(ty) = variable.ty { check_equality(ty, found) }` *)
  Lemma ann_check_sound : forall (a : option fty) found st st',
    mono_ann a = true -> mono_ty found = true -> tables ts fs st -> minv st ->
    match a with Some t => check_equality st t found | None => COk st end = COk st' ->
    ann_ok a found = true /\ minv st' /\ same_templates st st' /\ grows st st'.
  Proof.
    intros a found st st' Ha Hf T I H. destruct a as [t|].
    - destruct (check_equality_mono_sound ts fs (W_ret _ _ W) t found st st' Ha Hf T I H) as [-> [_ [I' [S [G _]]]]].
      simpl. rewrite fty_eqb_refl. auto.
    - inversion H; subst. simpl. auto using same_templates_refl, grows_refl.
  Qed.

  Lemma check_args_with_sound : forall args, Forall sound_at args ->
    forall eager tys st ctx args' st',
      mono_terms args = true -> mono_ctx ctx = true -> mono_ctx tys = true -> tables ts fs st -> minv st ->
      check_args_with (check_term_gen eager) args tys st ctx = COk (args', st') ->
      List.length args = List.length tys ->
      chk_args_with (chk ts fs) (E ctx) [] [] args tys = true /\ minv st' /\ same_templates st st' /\ grows st st'.
  Proof.
    intros args HF. induction HF as [|a ar Ha _ IH]; intros eager tys st ctx args' st' Hm Hc Ht T I H Hlen.
    - destruct tys; [|discriminate]. simpl in H. inversion H; subst.
      simpl. auto using same_templates_refl, grows_refl.
    - destruct tys as [|b br]; [discriminate|]. simpl in Hlen. simpl in Hm, Ht.
      apply andb_true_iff in Hm. destruct Hm as [Hma Hmr]. apply andb_true_iff in Ht. destruct Ht as [Htb Htr].
      simpl in H. simpl chk_args_with. rewrite inst_nil.
      destruct (fbchi b) eqn:Ech.
      + (* producer argument *)
        apply cbind_ok in H. destruct H as [st1 [H1 H]].
        apply cbind_ok in H. destruct H as [[a' st2] [H2 H]].
        apply cbind_ok in H. destruct H as [[ar' st3] [H3 H]]. inversion H; subst.
        destruct (ty_check_mono_sound ts fs (W_ret _ _ W) _ _ _ Htb T I H1) as [_ [I1 [S1 [G1 _]]]].
        destruct (Ha eager st1 ctx (fbty b) a' st2 Hma Hc Htb (tables_same _ _ _ _ T S1) I1 H2) as [Hk [I2 [S2 G2]]].
        assert (S12 : same_templates st st2) by eauto using same_templates_trans.
        destruct (IH eager br st2 ctx ar' st' Hmr Hc Htr (tables_same _ _ _ _ T S12) I2 H3) as [Hkr [I3 [S3 G3]]]; [lia|].
        rewrite Hk, Hkr. splits; eauto using same_templates_trans, grows_trans.
      + (* consumer argument: a covariable *)
        destruct a as [v ann chi| | | | | | | | | | | | | |]; try discriminate.
        destruct chi as [[|]|]; try discriminate.
        * apply cbind_ok in H. destruct H as [found [Hl H]].
          apply cbind_ok in H. destruct H as [st1 [H1 H]].
          apply cbind_ok in H. destruct H as [st2 [H2 H]].
          apply cbind_ok in H. destruct H as [[ar' st3] [H3 H]]. inversion H; subst.
          destruct (lookup_covar_E _ _ _ Hl) as [HE [b0 [Hb0 Hbt]]].
          assert (Hmf : mono_ty found = true) by (subst found; apply (mono_ctx_in ctx); assumption).
          destruct (ann_check_sound ann found st st1 Hma Hmf T I H1) as [Hann [I1 [S1 G1]]].
          destruct (check_equality_mono_sound ts fs (W_ret _ _ W) _ _ _ _ Htb Hmf (tables_same _ _ _ _ T S1) I1 H2) as [Heq [_ [I2 [S2 [G2 _]]]]].
          assert (S12 : same_templates st st2) by eauto using same_templates_trans.
          destruct (IH eager br st2 ctx ar' st' Hmr Hc Htr (tables_same _ _ _ _ T S12) I2 H3) as [Hkr [I3 [S3 G3]]]; [lia|].
          unfold is_cns. rewrite HE, Heq, fty_eqb_refl, Hkr. rewrite Hann.
          splits; eauto using same_templates_trans, grows_trans.
        * apply cbind_ok in H. destruct H as [found [Hl H]].
          apply cbind_ok in H. destruct H as [st1 [H1 H]].
          apply cbind_ok in H. destruct H as [st2 [H2 H]].
          apply cbind_ok in H. destruct H as [[ar' st3] [H3 H]]. inversion H; subst.
          destruct (lookup_covar_E _ _ _ Hl) as [HE [b0 [Hb0 Hbt]]].
          assert (Hmf : mono_ty found = true) by (subst found; apply (mono_ctx_in ctx); assumption).
          destruct (ann_check_sound ann found st st1 Hma Hmf T I H1) as [Hann [I1 [S1 G1]]].
          destruct (check_equality_mono_sound ts fs (W_ret _ _ W) _ _ _ _ Htb Hmf (tables_same _ _ _ _ T S1) I1 H2) as [Heq [_ [I2 [S2 [G2 _]]]]].
          assert (S12 : same_templates st st2) by eauto using same_templates_trans.
          destruct (IH eager br st2 ctx ar' st' Hmr Hc Htr (tables_same _ _ _ _ T S12) I2 H3) as [Hkr [I3 [S3 G3]]]; [lia|].
          unfold is_cns. rewrite HE, Heq, fty_eqb_refl, Hkr. rewrite Hann.
          splits; eauto using same_templates_trans, grows_trans.
  Qed.

  (* ---------- clauses ---------- *)
  Definition pc_sound (pc : pclause) : Prop :=
    forall st ctx T t' st',
      mono_ctx ctx = true -> mono_ty T = true -> tables ts fs st -> minv st ->
      pc_chk pc st ctx T = COk (t', st') ->
      chk ts fs (E ctx) (pc_body pc) T = true /\ minv st' /\ same_templates st st' /\ grows st st'.

  Lemma names_no_dups_nodup : forall l, names_no_dups l = COk tt -> nodup l = true.
  Proof. exact names_no_dups_ok. Qed.

  Lemma check_clauses_sound : forall (is_case : bool) T td xtors pcls st ctx cls' leftover st',
    Forall pc_sound pcls -> mono_ctx ctx = true -> tables ts fs st -> minv st ->
    In td ts -> (forall x, In x xtors -> In x (map xs_name (td_xtors td))) ->
    td_pol td = (if is_case then FData else FCodata) -> (is_case = true -> mono_ty T = true) ->
    check_clauses is_case "" T xtors pcls st ctx = COk (cls', leftover, st') ->
    exists used, Permutation (used ++ leftover) pcls /\ map pc_xtor used = xtors
      /\ Forall (fun pc => clause_ok ts fs (E ctx) td [] (if is_case then Some T else None) (clause_of pc) = true) used
      /\ minv st' /\ same_templates st st' /\ grows st st'.
  Proof.
    intros is_case T td xtors. induction xtors as [|x xr IH];
      intros pcls st ctx cls' leftover st' HF Hc Tb I Htd Hxs Hpol HT H.
    - simpl in H. inversion H; subst. exists []. simpl.
      splits; auto using same_templates_refl, grows_refl.
    - simpl in H.
      destruct (swap_remove_first (fun c => String.eqb (pc_xtor c) x) pcls) as [[cl pcls']|] eqn:Es; [|destruct is_case; discriminate].
      apply swap_remove_first_spec in Es. destruct Es as [Hx Hperm]. apply String.eqb_eq in Hx.
      assert (HF' : Forall pc_sound (cl :: pcls')).
      { eapply Permutation_Forall; [apply Permutation_sym; eassumption|assumption]. }
      inversion HF' as [|? ? Hcl HFr]; subst.
      rewrite append_nil_r in H.
      apply cbind_ok in H. destruct H as [[sg bty] [Hsig H]].
      apply cbind_ok in H. destruct H as [[] [Hnd H]].
      apply cbind_ok in H. destruct H as [cctx [Hadd H]].
      apply cbind_ok in H. destruct H as [[body' st1] [Hbody H]].
      apply cbind_ok in H. destruct H as [[[rest left'] st2] [Hrest H]]. inversion H; subst.
      (* the signature *)
      destruct (xtor_of_type td (pc_xtor cl)) as [s [Hs [Hfx Hsin]]]; [assumption|apply Hxs; left; reflexivity|].
      destruct (W_sigs _ _ W td s Htd Hsin) as [Hms Hmr].
      assert (Hsg : sg = xs_args s /\ (if is_case then bty = T else xs_ret s = Some bty)).
      { destruct is_case.
        - destruct (aget (st_ctors st) (pc_xtor cl)) as [sg0|] eqn:Eg; [|discriminate]. inversion Hsig; subst.
          destruct (mi_ctors _ I _ _ Eg) as [Ht _]. split; [|reflexivity].
          eapply ctor_template_sig; eassumption.
        - destruct (aget (st_dtors st) (pc_xtor cl)) as [[sg0 ret0]|] eqn:Eg; [|discriminate]. inversion Hsig; subst.
          destruct (mi_dtors _ I _ _ Eg) as [Ht _].
          eapply dtor_template_sig; eassumption. }
      destruct Hsg as [-> Hbty].
      unfold add_types in Hadd.
      destruct (Nat.eqb (List.length (pc_names cl)) (List.length (xs_args s))) eqn:Elen; [|discriminate]. simpl in Hadd.
      inversion Hadd; subst cctx.
      assert (Hmb : mono_ty bty = true).
      { destruct is_case; [subst; auto|]. rewrite Hbty in Hmr. exact Hmr. }
      assert (Hmc : mono_ctx (ctx ++ zip_names (pc_names cl) (xs_args s)) = true)
        by (apply mono_ctx_app; [assumption|apply mono_zip_names; assumption]).
      destruct (Hcl st _ bty body' st1 Hmc Hmb Tb I Hbody) as [Hk [I1 [S1 G1]]].
      destruct (IH pcls' st1 ctx rest leftover st' HFr Hc (tables_same _ _ _ _ Tb S1) I1 Htd) as [used [Hp [Hmap [Hall [I2 [S2 G2]]]]]]; auto.
      { intros y Hy. apply Hxs. right. assumption. }
      exists (cl :: used). splits.
      + simpl. eapply perm_trans; [apply perm_skip; eassumption|assumption].
      + simpl. rewrite Hmap. reflexivity.
      + constructor; [|].
        * unfold clause_of, clause_ok. rewrite Hs, (names_no_dups_nodup _ Hnd), Elen. simpl.
          rewrite (W_params _ _ W td Htd), extend_sig_nil.
          unfold E in Hk. rewrite env_of_ctx_app in Hk.
          destruct is_case; [subst bty; exact Hk|]. rewrite Hbty, inst_nil. exact Hk.
        * eapply Forall_impl; [|exact Hall]. intros pc Hpc. exact Hpc.
      + assumption.
      + eauto using same_templates_trans.
      + eauto using grows_trans.
  Qed.

  Lemma prep_clauses_sound : forall eager cls,
    Forall (fun c => sound_at (clause_body c)) cls -> mono_clauses cls = true ->
    Forall pc_sound (prep_clauses (check_term_gen eager) cls).
  Proof.
    intros eager cls HF. induction HF as [|[p x ns c b] r Hc _ IH]; intros Hm; simpl; constructor.
    - simpl in Hm. apply andb_true_iff in Hm. destruct Hm as [Hb _].
      unfold pc_sound. simpl. intros. eapply Hc; eassumption.
    - apply IH. simpl in Hm. apply andb_true_iff in Hm. tauto.
  Qed.

  (* the clause list of the term against the constructor / destructor list of the type *)
  Lemma clauses_complete_list : forall (is_case : bool) (T : fty) td cls used,
    In td ts -> td_pol td = (if is_case then FData else FCodata) ->
    Permutation used (prep_clauses (check_term_gen false) cls) -> True.
  Proof. trivial. Qed.

  Lemma clauses_sound_result : forall eager (is_case : bool) T td cls st ctx cls' st',
    Forall (fun c => sound_at (clause_body c)) cls -> mono_clauses cls = true ->
    mono_ctx ctx = true -> tables ts fs st -> minv st -> In td ts ->
    td_pol td = (if is_case then FData else FCodata) -> (is_case = true -> mono_ty T = true) ->
    check_clauses is_case "" T (map xs_name (td_xtors td)) (prep_clauses (check_term_gen eager) cls) st ctx = COk (cls', [], st') ->
    same_names (map clause_xtor cls) (map xs_name (td_xtors td)) = true
    /\ chk_clauses_with (chk ts fs) (E ctx) td [] (if is_case then Some T else None) cls = true
    /\ minv st' /\ same_templates st st' /\ grows st st'.
  Proof.
    intros eager is_case T td cls st ctx cls' st' HF Hm Hc Tb I Htd Hpol HT H.
    destruct (check_clauses_sound is_case T td _ _ st ctx cls' [] st' (prep_clauses_sound eager cls HF Hm) Hc Tb I Htd (fun x H => H) Hpol HT H)
      as [used [Hp [Hmap [Hall [I' [S G]]]]]].
    rewrite app_nil_r in Hp.
    assert (Hpc : Permutation (map clause_of used) cls).
    { rewrite <- (prep_clauses_map (check_term_gen eager) cls). apply Permutation_map. assumption. }
    assert (Hnames : Permutation (map xs_name (td_xtors td)) (map clause_xtor cls)).
    { rewrite <- Hmap. eapply perm_trans; [|apply Permutation_map; exact Hpc].
      rewrite map_map. apply Permutation_refl'. apply map_ext. intros pc. reflexivity. }
    splits; try assumption.
    - unfold same_names.
      assert (Hnd : nodup (map xs_name (td_xtors td)) = true).
      { eapply xtor_names_of_type_nodup; [apply nodup_xtors|eassumption|reflexivity]. }
      apply andb_true_iff. split; [apply andb_true_iff; split|].
      + apply NoDup_nodup. eapply Permutation_NoDup; [exact Hnames|]. apply nodup_NoDup. assumption.
      + apply PeanoNat.Nat.eqb_eq. symmetry. apply Permutation_length. assumption.
      + apply forallb_forall. intros x Hx. apply mem_In. eapply Permutation_in; [apply Permutation_sym; exact Hnames|assumption].
    - rewrite chk_clauses_forallb. apply forallb_forall. intros c Hcin.
      apply (Permutation_in _ (Permutation_sym Hpc)) in Hcin. apply in_map_iff in Hcin. destruct Hcin as [pc [<- Hpin]].
      rewrite Forall_forall in Hall. apply Hall. assumption.
  Qed.

  (* ---------- the type of a case / destructor scrutinee ---------- *)
  Lemma lookup_or_template_sound : forall pol st x ty xs st1,
    tables ts fs st -> minv st ->
    lookup_ty_for_xtor_or_template pol st x [] = COk (ty, xs, st1) ->
    exists td, In td ts /\ td_pol td = pol /\ ty = FDecl (td_name td) [] /\ xs = map xs_name (td_xtors td)
               /\ In x xs /\ minv st1 /\ same_templates st st1 /\ grows st st1.
  Proof.
    intros pol st x ty xs st1 T I H. unfold lookup_ty_for_xtor_or_template in H.
    rewrite print_targs_nil, append_nil_r in H.
    destruct (lookup_ty_for_xtor pol st x) as [[ty0 xs0]|] eqn:El.
    - inversion H; subst. destruct (lookup_ty_for_xtor_mono _ _ _ _ _ I El) as [n [-> [Hg Hx]]].
      destruct (mi_types _ I _ _ _ _ Hg) as [_ Ht].
      destruct (template_type _ _ _ _ T Ht) as [td [Hin [_ [Hn [Hp Hxs]]]]].
      exists td. subst. splits; auto using same_templates_refl, grows_refl.
    - unfold lookup_ty_template_for_xtor in H. rewrite (t_tt_list _ _ _ T), find_template_find_xtor in H.
      destruct (find_xtor ts pol x) as [[td s]|] eqn:Ef; simpl in H; [|discriminate].
      apply cbind_ok in H. destruct H as [st2 [Hc H]]. inversion H; subst.
      destruct (ty_check_mono_sound ts fs (W_ret _ _ W) (FDecl (td_name td) []) st st1 eq_refl T I Hc) as [_ [I1 [S1 [G1 _]]]].
      apply find_xtor_in in Ef. destruct Ef as [Hin [Hp Hs]].
      exists td. splits; auto.
      apply find_xsig_spec in Hs. destruct Hs as [Hs <-]. apply in_map. assumption.
  Qed.

  Lemma eager_step : forall (eager : bool) T st st0, mono_ty T = true -> tables ts fs st -> minv st ->
    (if eager then ty_check T st else COk st) = COk st0 ->
    minv st0 /\ same_templates st st0 /\ grows st st0.
  Proof.
    intros eager T st st0 Hm Tb I H. destruct eager.
    - destruct (ty_check_mono_sound ts fs (W_ret _ _ W) _ _ _ Hm Tb I H) as [_ [I1 [S1 [G1 _]]]]. auto.
    - inversion H; subst. auto using same_templates_refl, grows_refl.
  Qed.

  Ltac frame := eauto using same_templates_trans, grows_trans, same_templates_refl, grows_refl.

  Theorem check_term_gen_sound : forall t, sound_at t.
  Proof.
    intros t. induction t using fterm_ind'; unfold sound_at;
      intros eager st ctx T t' st' Hm Hc HT Tb I Hk; simpl in Hk; simpl in Hm.
    - (* FVar *)
      assert (Hchi : match chi with Some FCns => false | _ => true end = true /\
                     exists found st1, lookup_var ctx v = COk found /\
                       match ty with Some t => check_equality st t found | None => COk st end = COk st1 /\
                       check_equality st1 T found = COk st').
      { destruct chi as [[|]|]; try discriminate;
          (apply cbind_ok in Hk; destruct Hk as [found [Hl Hk]];
           apply cbind_ok in Hk; destruct Hk as [st1 [H1 Hk]];
           apply cbind_ok in Hk; destruct Hk as [st2 [H2 Hk]]; inversion Hk; subst; eauto 10). }
      destruct Hchi as [Hchi [found [st1 [Hl [H1 H2]]]]].
      destruct (lookup_var_E _ _ _ Hl) as [HE [b0 [Hb0 Hbt]]].
      assert (Hmf : mono_ty found = true) by (subst found; apply (mono_ctx_in ctx); assumption).
      destruct (ann_check_sound ty found st st1 Hm Hmf Tb I H1) as [Hann [I1 [S1 G1]]].
      destruct (check_equality_mono_sound ts fs (W_ret _ _ W) _ _ _ _ HT Hmf (tables_same _ _ _ _ Tb S1) I1 H2) as [Heq [_ [I2 [S2 [G2 _]]]]].
      rewrite <- Heq in HE, Hann. simpl. unfold is_prd. rewrite HE, fty_eqb_refl, Hann, Hchi. splits; frame.
    - (* FLit *)
      apply cbind_ok in Hk. destruct Hk as [st1 [H1 Hk]]. inversion Hk; subst.
      destruct (check_equality_mono_sound ts fs (W_ret _ _ W) T FI64 _ _ HT eq_refl Tb I H1) as [Heq [_ [I2 [S2 [G2 _]]]]].
      subst T. splits; frame.
    - (* FOp *)
      apply andb_true_iff in Hm. destruct Hm as [Hm1 Hm2].
      apply cbind_ok in Hk. destruct Hk as [st1 [H1 Hk]].
      apply cbind_ok in Hk. destruct Hk as [[a' st2] [H2 Hk]].
      apply cbind_ok in Hk. destruct Hk as [[b' st3] [H3 Hk]]. inversion Hk; subst.
      destruct (check_equality_mono_sound ts fs (W_ret _ _ W) FI64 T _ _ eq_refl HT Tb I H1) as [Heq [_ [I1 [S1 [G1 _]]]]].
      subst T.
      destruct (IHt1 eager st1 ctx FI64 a' st2 Hm1 Hc eq_refl (tables_same _ _ _ _ Tb S1) I1 H2) as [K1 [I2 [S2 G2]]].
      assert (S12 : same_templates st st2) by frame.
      destruct (IHt2 eager st2 ctx FI64 b' st' Hm2 Hc eq_refl (tables_same _ _ _ _ Tb S12) I2 H3) as [K2 [I3 [S3 G3]]].
      simpl. rewrite K1, K2. splits; frame.
    - (* FIfC *)
      apply andb_true_iff in Hm. destruct Hm as [Hm Hm4]. apply andb_true_iff in Hm. destruct Hm as [Hm Hm3].
      apply andb_true_iff in Hm. destruct Hm as [Hm1 Hm2].
      apply cbind_ok in Hk. destruct Hk as [[a' st1] [H1 Hk]].
      apply cbind_ok in Hk. destruct Hk as [[b' st2] [H2 Hk]].
      apply cbind_ok in Hk. destruct Hk as [[th' st3] [H3 Hk]].
      apply cbind_ok in Hk. destruct Hk as [[el' st4] [H4 Hk]]. inversion Hk; subst.
      destruct (IHt1 eager st ctx FI64 a' st1 Hm1 Hc eq_refl Tb I H1) as [K1 [I1 [S1 G1]]].
      assert (Hb : match b with Some b' => chk ts fs (E ctx) b' FI64 | None => true end = true
                   /\ minv st2 /\ same_templates st1 st2 /\ grows st1 st2).
      { destruct b as [b0|].
        - apply cbind_ok in H2. destruct H2 as [[b1 sb] [H2 H2']]. inversion H2'; subst.
          eapply H; [reflexivity|exact Hm2|exact Hc|reflexivity|exact (tables_same _ _ _ _ Tb S1)|exact I1|exact H2].
        - inversion H2; subst. splits; frame. }
      destruct Hb as [K2 [I2 [S2 G2]]].
      assert (S02 : same_templates st st2) by frame.
      destruct (IHt2 eager st2 ctx T th' st3 Hm3 Hc HT (tables_same _ _ _ _ Tb S02) I2 H3) as [K3 [I3 [S3 G3]]].
      assert (S03 : same_templates st st3) by frame.
      destruct (IHt3 eager st3 ctx T el' st' Hm4 Hc HT (tables_same _ _ _ _ Tb S03) I3 H4) as [K4 [I4 [S4 G4]]].
      simpl. rewrite K1, K2, K3, K4. splits; frame.
    - (* FPrint *)
      apply andb_true_iff in Hm. destruct Hm as [Hm1 Hm2].
      apply cbind_ok in Hk. destruct Hk as [[a' st1] [H1 Hk]].
      apply cbind_ok in Hk. destruct Hk as [[n' st2] [H2 Hk]]. inversion Hk; subst.
      destruct (IHt1 eager st ctx FI64 a' st1 Hm1 Hc eq_refl Tb I H1) as [K1 [I1 [S1 G1]]].
      destruct (IHt2 eager st1 ctx T n' st' Hm2 Hc HT (tables_same _ _ _ _ Tb S1) I1 H2) as [K2 [I2 [S2 G2]]].
      simpl. rewrite K1, K2. splits; frame.
    - (* FLet *)
      apply andb_true_iff in Hm. destruct Hm as [Hm Hm3]. apply andb_true_iff in Hm. destruct Hm as [Hm1 Hm2].
      apply cbind_ok in Hk. destruct Hk as [st1 [H1 Hk]].
      apply cbind_ok in Hk. destruct Hk as [[a' st2] [H2 Hk]].
      apply cbind_ok in Hk. destruct Hk as [[b' st3] [H3 Hk]]. inversion Hk; subst.
      destruct (ty_check_mono_sound ts fs (W_ret _ _ W) _ _ _ Hm1 Tb I H1) as [Hw [I1 [S1 [G1 _]]]].
      destruct (IHt1 eager st1 ctx vty a' st2 Hm2 Hc Hm1 (tables_same _ _ _ _ Tb S1) I1 H2) as [K1 [I2 [S2 G2]]].
      assert (S02 : same_templates st st2) by frame.
      assert (Hc' : mono_ctx (ctx ++ [mkfb v FPrd vty]) = true).
      { apply mono_ctx_app; [assumption|]. simpl. rewrite Hm1. reflexivity. }
      destruct (IHt2 eager st2 _ T b' st' Hm3 Hc' HT (tables_same _ _ _ _ Tb S02) I2 H3) as [K2 [I3 [S3 G3]]].
      rewrite E_snoc in K2. simpl. rewrite Hw, K1, K2. splits; frame.
    - (* FCall *)
      rewrite mono_terms_eq in Hm.
      destruct (aget (st_defs st) f) as [[types ret]|] eqn:Ed; [|discriminate].
      rewrite (t_df _ _ _ Tb) in Ed. destruct (find_def fs f) as [d|] eqn:Ef; [|discriminate]. simpl in Ed. inversion Ed; subst.
      assert (Hdin : In d fs) by (unfold find_def in Ef; apply find_some in Ef; tauto).
      destruct (W_defs _ _ W d Hdin) as [Hmd Hmr].
      apply cbind_ok in Hk. destruct Hk as [st1 [H1 Hk]].
      apply cbind_ok in Hk. destruct Hk as [[args' st2] [H2 Hk]]. inversion Hk; subst.
      destruct (check_equality_mono_sound ts fs (W_ret _ _ W) _ _ _ _ HT Hmr Tb I H1) as [Heq [_ [I1 [S1 [G1 _]]]]].
      unfold check_args in H2.
      destruct (Nat.eqb (List.length (fdctx d)) (List.length args)) eqn:El; [|discriminate]. simpl in H2.
      apply PeanoNat.Nat.eqb_eq in El.
      destruct (check_args_with_sound args H eager _ _ _ _ _ Hm Hc Hmd (tables_same _ _ _ _ Tb S1) I1 H2 (eq_sym El)) as [K [I2 [S2 G2]]].
      subst T. simpl. rewrite Ef, fty_eqb_refl, K. splits; frame.
    - (* FCtor *)
      rewrite mono_terms_eq in Hm.
      apply cbind_ok in Hk. destruct Hk as [st0 [H0 Hk]].
      destruct (eager_step _ _ _ _ HT Tb I H0) as [I0 [S0 G0]].
      pose proof (tables_same _ _ _ _ Tb S0) as Tb0.
      destruct T as [|n targs]; [discriminate|]. pose proof (mono_ty_decl _ _ HT) as ->.
      rewrite print_targs_nil, append_nil_r in Hk.
      destruct (aget (st_ctors st0) x) as [types|] eqn:Ec; [|discriminate].
      destruct (lookup_ty_for_xtor FData st0 x) as [[ty xs]|] eqn:El; [|discriminate].
      apply cbind_ok in Hk. destruct Hk as [[args' st1] [H1 Hk]].
      apply cbind_ok in Hk. destruct Hk as [st2 [H2 Hk]]. inversion Hk; subst.
      destruct (lookup_ty_for_xtor_mono _ _ _ _ _ I0 El) as [n' [-> [Hg Hx]]].
      destruct (mi_types _ I0 _ _ _ _ Hg) as [_ Ht].
      destruct (template_type _ _ _ _ Tb0 Ht) as [td [Hin [Hft [Hn [Hp Hxs]]]]].
      subst xs. destruct (xtor_of_type td x Hin Hx) as [s [Hs [_ Hsin]]].
      destruct (mi_ctors _ I0 _ _ Ec) as [Htc _].
      pose proof (ctor_template_sig _ _ _ _ _ Tb0 Hin Hp Hs Htc) as ->.
      destruct (W_sigs _ _ W td s Hin Hsin) as [Hms _].
      unfold check_args in H1.
      destruct (Nat.eqb (List.length (xs_args s)) (List.length args)) eqn:Elen; [|discriminate]. simpl in H1.
      apply PeanoNat.Nat.eqb_eq in Elen.
      destruct (check_args_with_sound args H eager _ _ _ _ _ Hm Hc Hms Tb0 I0 H1 (eq_sym Elen)) as [K [I1 [S1 G1]]].
      assert (S01 : same_templates st st1) by frame.
      destruct (check_equality_mono_sound ts fs (W_ret _ _ W) (FDecl n []) (FDecl n' []) _ _ HT eq_refl (tables_same _ _ _ _ Tb S01) I1 H2) as [Heq [_ [I2 [S2 [G2 _]]]]].
      inversion Heq; subst n'. simpl. rewrite Hft, Hp, (W_params _ _ W td Hin), Hs. simpl. rewrite K. splits; frame.
    - (* FDtor *)
      apply andb_true_iff in Hm. destruct Hm as [Hm Hm3]. apply andb_true_iff in Hm. destruct Hm as [Hm1 Hm2].
      rewrite mono_terms_eq in Hm3. destruct targs; [|discriminate].
      rewrite print_targs_nil, append_nil_r in Hk.
      apply cbind_ok in Hk. destruct Hk as [[[ty xs] st1] [H1 Hk]].
      apply cbind_ok in Hk. destruct Hk as [[s' st2] [H2 Hk]].
      destruct (lookup_or_template_sound _ _ _ _ _ _ Tb I H1) as [td [Hin [Hp [-> [-> [Hx [I1 [S1 G1]]]]]]]].
      destruct (IHt eager st1 ctx (FDecl (td_name td) []) s' st2 Hm2 Hc eq_refl (tables_same _ _ _ _ Tb S1) I1 H2) as [K1 [I2 [S2 G2]]].
      assert (S02 : same_templates st st2) by frame. pose proof (tables_same _ _ _ _ Tb S02) as Tb2.
      destruct (aget (st_dtors st2) x) as [[types ret]|] eqn:Ed; [|discriminate].
      apply cbind_ok in Hk. destruct Hk as [[args' st3] [H3 Hk]].
      apply cbind_ok in Hk. destruct Hk as [st4 [H4 Hk]]. inversion Hk; subst.
      destruct (xtor_of_type td x Hin Hx) as [s [Hs [Hfx Hsin]]]. rewrite Hp in Hfx.
      destruct (mi_dtors _ I2 _ _ Ed) as [Htd _].
      destruct (dtor_template_sig _ _ _ _ _ _ Tb2 Hin Hp Hs Htd) as [-> Hret].
      destruct (W_sigs _ _ W td s Hin Hsin) as [Hms Hmr]. rewrite Hret in Hmr. simpl in Hmr.
      unfold check_args in H3.
      destruct (Nat.eqb (List.length (xs_args s)) (List.length args)) eqn:Elen; [|discriminate]. simpl in H3.
      apply PeanoNat.Nat.eqb_eq in Elen.
      destruct (check_args_with_sound args H eager _ _ _ _ _ Hm3 Hc Hms Tb2 I2 H3 (eq_sym Elen)) as [K2 [I3 [S3 G3]]].
      assert (S03 : same_templates st st3) by frame.
      destruct (check_equality_mono_sound ts fs (W_ret _ _ W) _ _ _ _ HT Hmr (tables_same _ _ _ _ Tb S03) I3 H4) as [Heq [_ [I4 [S4 [G4 _]]]]].
      simpl. rewrite Hfx, (W_params _ _ W td Hin). simpl. rewrite K1, K2, Hret, inst_nil, Heq, fty_eqb_refl. splits; frame.
    - (* FCase *)
      apply andb_true_iff in Hm. destruct Hm as [Hm Hm3]. apply andb_true_iff in Hm. destruct Hm as [Hm1 Hm2].
      rewrite mono_clauses_eq in Hm3. destruct targs; [|discriminate].
      destruct cls as [|[p0 x0 ns0 c0 b0] clr]; [discriminate|].
      apply cbind_ok in Hk. destruct Hk as [[[ty xs] st1] [H1 Hk]].
      apply cbind_ok in Hk. destruct Hk as [[s' st2] [H2 Hk]].
      apply cbind_ok in Hk. destruct Hk as [[[cls' leftover] st3] [H3 Hk]].
      destruct leftover; [|discriminate]. inversion Hk; subst.
      destruct (lookup_or_template_sound _ _ _ _ _ _ Tb I H1) as [td [Hin [Hp [-> [-> [Hx [I1 [S1 G1]]]]]]]].
      destruct (IHt eager st1 ctx (FDecl (td_name td) []) s' st2 Hm2 Hc eq_refl (tables_same _ _ _ _ Tb S1) I1 H2) as [K1 [I2 [S2 G2]]].
      assert (S02 : same_templates st st2) by frame.
      rewrite print_targs_nil in H3.
      destruct (clauses_sound_result eager true T td _ st2 ctx cls' st' H Hm3 Hc (tables_same _ _ _ _ Tb S02) I2 Hin Hp (fun _ => HT) H3)
        as [Ksn [Kcl [I3 [S3 G3]]]].
      destruct (xtor_of_type td x0 Hin Hx) as [s [Hs [Hfx Hsin]]]. rewrite Hp in Hfx.
      assert (Hgoal : chk ts fs (E ctx) (FCase t [] (FClause p0 x0 ns0 c0 b0 :: clr) r) T =
                (Nat.eqb (List.length (@nil fty)) (List.length (td_params td)) && forallb (wf_ty ts) []
                 && chk ts fs (E ctx) t (FDecl (td_name td) [])
                 && same_names (map clause_xtor (FClause p0 x0 ns0 c0 b0 :: clr)) (map xs_name (td_xtors td))
                 && chk_clauses_with (chk ts fs) (E ctx) td [] (Some T) (FClause p0 x0 ns0 c0 b0 :: clr))).
      { simpl. rewrite Hfx. reflexivity. }
      rewrite Hgoal, K1, Ksn, Kcl, (W_params _ _ W td Hin). splits; frame.
    - (* FNew *)
      rewrite mono_clauses_eq in Hm.
      apply cbind_ok in Hk. destruct Hk as [st0 [H0 Hk]].
      destruct (eager_step _ _ _ _ HT Tb I H0) as [I0 [S0 G0]].
      pose proof (tables_same _ _ _ _ Tb S0) as Tb0.
      destruct T as [|n targs]; [discriminate|]. pose proof (mono_ty_decl _ _ HT) as ->.
      rewrite print_targs_nil, append_nil_r in Hk.
      destruct (aget (st_types st0) n) as [[[pol targs] dtors]|] eqn:Eg; [|discriminate].
      destruct pol; [discriminate|].
      apply cbind_ok in Hk. destruct Hk as [[[cls' leftover] st1] [H1 Hk]].
      destruct leftover; [|discriminate]. inversion Hk; subst.
      destruct (mi_types _ I0 _ _ _ _ Eg) as [-> Ht].
      destruct (template_type _ _ _ _ Tb0 Ht) as [td [Hin [Hft [Hn [Hp Hxs]]]]]. subst dtors.
      destruct (clauses_sound_result eager false (FDecl n []) td _ st0 ctx cls' st' H Hm Hc Tb0 I0 Hin Hp (fun H => ltac:(discriminate)) H1)
        as [Ksn [Kcl [I3 [S3 G3]]]].
      simpl. rewrite Hft, Hp, (W_params _ _ W td Hin). simpl. rewrite Ksn, Kcl. splits; frame.
    - (* FLabel *)
      apply cbind_ok in Hk. destruct Hk as [[b' st1] [H1 Hk]]. inversion Hk; subst.
      assert (Hc' : mono_ctx (ctx ++ [mkfb l FCns T]) = true).
      { apply mono_ctx_app; [assumption|]. simpl. rewrite HT. reflexivity. }
      destruct (IHt eager st _ T b' st' Hm Hc' HT Tb I H1) as [K [I1 [S1 G1]]].
      rewrite E_snoc in K. simpl. rewrite K. splits; frame.
    - (* FGoto *)
      apply cbind_ok in Hk. destruct Hk as [cont [Hl Hk]].
      apply cbind_ok in Hk. destruct Hk as [[b' st1] [H1 Hk]]. inversion Hk; subst.
      destruct (lookup_covar_E _ _ _ Hl) as [HE [b0 [Hb0 Hbt]]].
      assert (Hmf : mono_ty cont = true) by (subst cont; apply (mono_ctx_in ctx); assumption).
      destruct (IHt eager st ctx cont b' st' Hm Hc Hmf Tb I H1) as [K [I1 [S1 G1]]].
      simpl. unfold cns_ty. rewrite HE, K. splits; frame.
    - (* FExit *)
      apply cbind_ok in Hk. destruct Hk as [[b' st1] [H1 Hk]]. inversion Hk; subst.
      destruct (IHt eager st ctx FI64 b' st' Hm Hc eq_refl Tb I H1) as [K [I1 [S1 G1]]].
      simpl. rewrite K. splits; frame.
    - (* FParen *)
      apply cbind_ok in Hk. destruct Hk as [[b' st1] [H1 Hk]]. inversion Hk; subst.
      destruct (IHt eager st ctx T b' st' Hm Hc HT Tb I H1) as [K [I1 [S1 G1]]].
      simpl. rewrite K. splits; frame.
  Qed.
End Sound.
