(* C14: the AArch64 back end obeys the label discipline of Proof/LabelGen.v ([a64_labels_ok]). *)
From Coq Require Import List ZArith NArith String Ascii Bool Lia Permutation.
From SCC Require Import Base.Sexp Lang.AxSyn Model.ParMoves Model.Backend Model.A64 Sem.A64Wf
  Proof.LabelStrings Proof.LabelGen.
Import ListNotations.
Local Open Scope string_scope.
Local Open Scope list_scope.

Notation adefs := all_defs.
Notation arefs := referenced.
Definition nolab (c : acode) : bool :=
  match c with
  | LAB _ | B _ | ADR _ _ | BEQ _ | BNE _ | BLT _ | BLE _ | BGT _ | BGE _ => false
  | _ => true
  end.
Notation defs := (defs adefs).
Notation refs := (refs arefs).
Notation plain := (plain adefs arefs).
Notation labs_ok := (labs_ok adefs arefs).

Lemma nolab_plain l : forallb nolab l = true -> plain l.
Proof.
  unfold LabelGen.plain, LabelGen.defs, LabelGen.refs. induction l as [|c l IH]; intros H; [split; reflexivity|].
  cbn [forallb] in H. apply andb_true_iff in H as [H1 H2]. destruct (IH H2) as [D R]. cbn [flat_map]. rewrite D, R.
  destruct c; try discriminate; split; reflexivity.
Qed.
Lemma forallb_map_all {X} (f : X -> acode) l : (forall x, nolab (f x) = true) -> forallb nolab (map f l) = true.
Proof. intros H. induction l; cbn; [reflexivity|]. rewrite H, IHl. reflexivity. Qed.

Ltac nl :=
  repeat first
    [ reflexivity
    | rewrite forallb_app
    | apply andb_true_intro; split
    | apply forallb_map_all; intros; reflexivity
    | match goal with |- context [match ?t with AR _ => _ | AS _ => _ end] => destruct t end
    | match goal with |- context [if ?b then _ else _] => destruct b end
    | progress cbn [forallb nolab app] ].

Lemma nl_rem t a b : forallb nolab (r_rem t a b) = true. Proof. unfold r_rem. nl. Qed.
Lemma nl_op f t a b : (forall x y z, forallb nolab (f x y z) = true) -> forallb nolab (a_op f t a b) = true.
Proof. intros H. unfold a_op, scratch_for. nl; apply H. Qed.
Lemma nl_arith o t a b : forallb nolab (a_arith o t a b) = true.
Proof. destruct o; cbn [a_arith]; apply nl_op; intros; first [apply nl_rem|reflexivity]. Qed.
Lemma nl_mov t s : forallb nolab (a_mov t s) = true.
Proof. unfold a_mov, move_to_register, move_from_register. nl. Qed.
Lemma nl_jump t : forallb nolab (a_jump t) = true. Proof. unfold a_jump. nl. Qed.
Lemma nl_imm_pieces r v inv ign : forall is fd, forallb nolab (imm_pieces r v inv ign fd is) = true.
Proof. induction is as [|i is IH]; intros fd; cbn [imm_pieces]; [reflexivity|]. nl; apply IH. Qed.
Lemma nl_imm_code r v : forallb nolab (imm_code r v) = true.
Proof. unfold imm_code. nl; apply nl_imm_pieces. Qed.
Lemma nl_load_immediate t i : forallb nolab (a_load_immediate t i) = true.
Proof. unfold a_load_immediate. destruct t; [apply nl_imm_code|]. rewrite forallb_app, nl_imm_code. reflexivity. Qed.
Lemma nl_add_offset r i : forallb nolab (add_offset r i) = true.
Proof. unfold add_offset. destruct (add_imm_fits i); [reflexivity|]. rewrite forallb_app, nl_imm_code. reflexivity. Qed.
Lemma nl_add_and_jump t i : forallb nolab (a_add_and_jump t i) = true.
Proof. unfold a_add_and_jump. destruct t; rewrite ?forallb_app, nl_add_offset; reflexivity. Qed.
Lemma nl_compare a b : forallb nolab (compare a b) = true. Proof. unfold compare. nl. Qed.
Lemma nl_compare_immediate a i : forallb nolab (compare_immediate a i) = true. Proof. unfold compare_immediate. nl. Qed.
Lemma nl_print nl_ t c : forallb nolab (a_print nl_ t c) = true.
Proof.
  unfold a_print. destruct (caller_save_registers_info c) as [fb regs].
  unfold save_caller_save_registers, restore_caller_save_registers, move_to_register. nl.
Qed.
Lemma nl_store_temporary t f : forallb nolab (a_store_temporary t f) = true. Proof. unfold a_store_temporary. nl. Qed.
Lemma nl_restore_temporary t f : forallb nolab (a_restore_temporary t f) = true. Proof. unfold a_restore_temporary. nl. Qed.

(* ---------- memory.rs: the label counter ---------- *)
Definition okp (lc : N) (p : list acode * N) : Prop := labs_ok lc (fst p) (snd p).
Definition okr (lc : N) (r : res (list acode * N)) : Prop := forall c lc', r = Ok (c, lc') -> labs_ok lc c lc'.
Lemma nolab_labs a l : forallb nolab l = true -> labs_ok a l a.
Proof. intros H. destruct (nolab_plain l H) as [D R]. apply labs_plain; assumption. Qed.
Lemma labs_pre a b pre c : forallb nolab pre = true -> labs_ok a c b -> labs_ok a (pre ++ c) b.
Proof. intros H K. apply (labs_app _ _ a a b); [apply nolab_labs; exact H|exact K]. Qed.
Lemma labs_post a b post c : forallb nolab post = true -> labs_ok a c b -> labs_ok a (c ++ post) b.
Proof. intros H K. apply (labs_app _ _ a b b); [exact K|apply nolab_labs; exact H]. Qed.

Ltac dr := unfold LabelGen.defs, LabelGen.refs; rewrite ?flat_map_app; cbn [flat_map all_defs referenced app].

Lemma sk_ok a cond body lc : labs_ok a body lc -> okp a (skip_if_zero cond body lc).
Proof.
  intros H. unfold okp, skip_if_zero. cbn [fst snd].
  apply (labs_skip _ _ a lc body); [exact H| |].
  - rewrite !(defs_app adefs). dr. rewrite ?app_nil_r. reflexivity.
  - rewrite !(refs_app arefs). dr. rewrite ?app_nil_r. apply incl_refl.
Qed.
Lemma ite_ok a b c cond th el : labs_ok a th b -> labs_ok b el c -> okp a (if_zero_then_else cond th el c).
Proof.
  intros H1 H2. unfold okp, if_zero_then_else. cbn [fst snd].
  apply (labs_ite _ _ a b c th el); [exact H1|exact H2| |].
  - rewrite !(defs_app adefs). dr; rewrite ?app_nil_r; reflexivity.
  - rewrite !(refs_app arefs). dr; rewrite ?app_nil_r; cbn [app]; apply incl_refl.
Qed.

Lemma erase_valid_ok r lc : okp lc (erase_valid_object r lc).
Proof. unfold erase_valid_object. apply (ite_ok lc lc lc); apply nolab_labs; reflexivity. Qed.
Lemma erase_ok t lc : okp lc (a_erase_block t lc).
Proof.
  destruct t as [r|p]; cbn [a_erase_block].
  - pose proof (erase_valid_ok r lc) as H. destruct (erase_valid_object r lc) as [c lc1]. apply sk_ok.
    unfold okp in H. cbn [fst snd] in H. apply (labs_pre _ _ [_]); [reflexivity|exact H].
  - pose proof (erase_valid_ok TEMP lc) as H. destruct (erase_valid_object TEMP lc) as [c lc1].
    unfold okp in H. cbn [fst snd] in H.
    pose proof (sk_ok lc TEMP ([LDR TEMP2 TEMP REFERENCE_COUNT_OFFSET] ++ c) lc1 (labs_pre _ _ [LDR TEMP2 TEMP REFERENCE_COUNT_OFFSET] _ eq_refl H)) as H2.
    destruct (skip_if_zero TEMP ([LDR TEMP2 TEMP REFERENCE_COUNT_OFFSET] ++ c) lc1) as [c2 lc2].
    unfold okp in *. cbn [fst snd] in *. apply labs_pre; [reflexivity|exact H2].
Qed.
Lemma share_ok t n lc : okp lc (a_share_block_n t n lc).
Proof.
  destruct t as [r|p]; cbn [a_share_block_n].
  - apply sk_ok; apply nolab_labs; reflexivity.
  - pose proof (sk_ok lc TEMP (share_code TEMP n) lc (nolab_labs lc (share_code TEMP n) eq_refl)) as H.
    destruct (skip_if_zero TEMP (share_code TEMP n) lc) as [c lc1]. unfold okp in *. cbn [fst snd] in *.
    apply (labs_pre _ _ [_]); [reflexivity|exact H].
Qed.

Lemma erase_fields_ok r a : forall l acc, okp a acc ->
  okp a (fold_left (fun (acc : list acode * N) (offset : N) =>
               let '(c, lc) := acc in
               let '(c1, lc1) := a_erase_block (AR TEMP) lc in
               (c ++ [LDR TEMP r (field_offset Fst offset)] ++ c1, lc1)) l acc).
Proof.
  induction l as [|o l IH]; intros [c lc] H; cbn [fold_left]; [exact H|]. apply IH.
  pose proof (erase_ok (AR TEMP) lc) as H2. destruct (a_erase_block (AR TEMP) lc) as [c1 lc1]. unfold okp in *. cbn [fst snd] in *.
  apply (labs_app _ _ a lc lc1); [exact H|]. apply (labs_pre lc lc1 [_]); [reflexivity|exact H2].
Qed.
Lemma acquire_ok t lc : okp lc (acquire_block t lc).
Proof.
  unfold acquire_block. pose proof (erase_fields_ok HEAP lc (nseq 0 FIELDS_PER_BLOCK) ([], lc)) as H1.
  fold (erase_fields HEAP lc) in H1. destruct (erase_fields HEAP lc) as [ef lc1].
  assert (H1' : okp lc (ef, lc1)) by (apply H1; apply nolab_labs; reflexivity). clear H1. unfold okp in H1'. cbn [fst snd] in H1'.
  assert (L1 : (lc <= lc1)%N) by apply H1'.
  pose proof (ite_ok lc lc lc1 FREE [ADDI FREE HEAP (field_offset Fst FIELDS_PER_BLOCK)]
                ([STR XZR HEAP NEXT_ELEMENT_OFFSET] ++ ef)) as H2.
  destruct (if_zero_then_else FREE _ _ lc1) as [inner lc2].
  assert (H2' : okp lc (inner, lc2)) by (apply H2; [apply nolab_labs; reflexivity|apply (labs_pre lc lc1 [_]); [reflexivity|exact H1']]).
  clear H2. unfold okp in H2'. cbn [fst snd] in H2'.
  match goal with |- context [if_zero_then_else HEAP ?th ?el lc2] =>
    pose proof (ite_ok lc lc2 lc2 HEAP th el) as H3; destruct (if_zero_then_else HEAP th el lc2) as [outer lc3] end.
  assert (H3' : okp lc (outer, lc3)).
  { apply H3; [apply (labs_pre lc lc2 [_; _]); [reflexivity|exact H2']|apply nolab_labs; destruct t; reflexivity]. }
  unfold okp in *. cbn [fst snd] in *. apply labs_pre; [destruct t; reflexivity|exact H3'].
Qed.

Lemma nl_store_field n c b o code : store_field n c b o = Ok code -> forallb nolab code = true.
Proof. unfold store_field. intros H. rinv H. inversion H; subst. destruct x; reflexivity. Qed.
Lemma nl_load_field n c b o code : load_field n c b o = Ok code -> forallb nolab code = true.
Proof. unfold load_field. intros H. rinv H. inversion H; subst. destruct x; reflexivity. Qed.
Lemma nl_store_value b rem blk o code : store_value b rem blk o = Ok code -> forallb nolab code = true.
Proof.
  unfold store_value. intros H. rinv H. pose proof (nl_store_field _ _ _ _ _ E) as N1. destruct (bchi b).
  - rinv H. inversion H; subst. rewrite forallb_app, N1, (nl_store_field _ _ _ _ _ E0). reflexivity.
  - rinv H. inversion H; subst. rewrite forallb_app, N1, (nl_store_field _ _ _ _ _ E0). reflexivity.
  - inversion H; subst. rewrite forallb_app, N1. reflexivity.
Qed.
Lemma nl_store_zeros n b : forallb nolab (store_zeros n b) = true.
Proof. unfold store_zeros. induction (nseq 0 n); cbn; [reflexivity|exact IHl]. Qed.
Lemma nl_store_values rem blk : forall l ff code, store_values l rem blk ff = Ok code -> forallb nolab code = true.
Proof.
  induction l as [|b l IH]; intros ff code H; cbn [store_values] in H.
  - inversion H; subst. apply nl_store_zeros.
  - rinv H. inversion H; subst. rewrite forallb_app, (nl_store_value _ _ _ _ _ E), (IH _ _ E0). reflexivity.
Qed.

Lemma load_value_ok b ex blk o m lc : okr lc (load_value b ex blk o m lc).
Proof.
  unfold okr, load_value. intros c lc' H. rinv H. pose proof (nl_load_field _ _ _ _ _ E) as N1.
  destruct (bchi b).
  1,2: rinv H; pose proof (nl_load_field _ _ _ _ _ E0) as N2; destruct m.
  - inversion H; subst. apply nolab_labs. rewrite forallb_app, N1, N2. reflexivity.
  - match type of H with context [a_share_block_n ?t ?n ?l] =>
      pose proof (share_ok t n l) as S; destruct (a_share_block_n t n l) as [c3 lc1] end.
    inversion H; subst. unfold okp in S. cbn [fst snd] in S. apply labs_pre; [exact N1|]. apply labs_pre; [exact N2|exact S].
  - inversion H; subst. apply nolab_labs. rewrite forallb_app, N1, N2. reflexivity.
  - match type of H with context [a_share_block_n ?t ?n ?l] =>
      pose proof (share_ok t n l) as S; destruct (a_share_block_n t n l) as [c3 lc1] end.
    inversion H; subst. unfold okp in S. cbn [fst snd] in S. apply labs_pre; [exact N1|]. apply labs_pre; [exact N2|exact S].
  - inversion H; subst. apply nolab_labs. exact N1.
Qed.
Lemma load_values_ok ex blk m : forall l ff lc, okr lc (load_values l ex blk ff m lc).
Proof.
  induction l as [|b l IH]; intros ff lc c lc' H; cbn [load_values] in H.
  - inversion H; subst. apply nolab_labs. reflexivity.
  - rinv H. inversion H; subst. apply (labs_app _ _ lc n lc'); [apply (load_value_ok _ _ _ _ _ _ _ _ E)|apply (IH _ _ _ _ E0)].
Qed.

Lemma store_fields_ok : forall fuel to_store remaining bp lc, okr lc (store_fields fuel to_store remaining bp lc).
Proof.
  induction fuel as [|fuel IH]; intros to_store remaining bp lc c lc' H; cbn [store_fields] in H; [discriminate|].
  destruct to_store as [|b0 ts].
  - destruct bp; [rinv H|]; inversion H; subst; apply nolab_labs; [apply nl_load_immediate|reflexivity].
  - rinv H. pose proof (acquire_ok x1 lc) as A. destruct (acquire_block x1 lc) as [c2 lc2]. rinv H. inversion H; subst.
    unfold okp in A. cbn [fst snd] in A.
    assert (N0 : forallb nolab x = true) by (destruct bp; [inversion E; reflexivity|apply (nl_store_field _ _ _ _ _ E)]).
    apply labs_pre; [exact N0|]. apply labs_pre; [apply (nl_store_values _ _ _ _ _ E0)|].
    apply (labs_app _ _ lc lc2 lc'); [exact A|apply (IH _ _ _ _ _ _ E2)].
Qed.

Lemma load_fields_ok : forall fuel to_load existing bp m freed lc c freed' lc',
  load_fields fuel to_load existing bp m freed lc = Ok (c, freed', lc') -> labs_ok lc c lc'.
Proof.
  induction fuel as [|fuel IH]; intros to_load existing bp m freed lc c freed' lc' H; cbn [load_fields] in H; [discriminate|].
  destruct to_load as [|b0 tl].
  - inversion H; subst. apply nolab_labs. reflexivity.
  - rstep H. destruct x as [[c0 freed0] lc0]. rinv H. pose proof (IH _ _ _ _ _ _ _ _ _ E) as I0.
    assert (NR : forall r, forallb nolab (match m with Release => release_block r | Share => [] end) = true) by (intros r; destruct m; reflexivity).
    destruct x as [mr|mp]; rinv H; inversion H; subst.
    + assert (N2 : forallb nolab x = true) by (destruct bp; [inversion E1; reflexivity|apply (nl_load_field _ _ _ _ _ E1)]).
      apply (labs_app _ _ lc lc0 lc'); [exact I0|]. apply labs_pre; [apply NR|]. apply labs_pre; [exact N2|].
      apply (load_values_ok _ _ _ _ _ _ _ _ E2).
    + assert (N2 : forallb nolab x = true) by (destruct bp; [inversion E1; reflexivity|apply (nl_load_field _ _ _ _ _ E1)]).
      apply (labs_app _ _ lc lc0 lc'); [exact I0|]. apply labs_pre; [destruct freed0; reflexivity|]. apply (labs_pre _ _ [_]); [reflexivity|].
      apply labs_pre; [apply NR|]. apply labs_pre; [exact N2|]. apply labs_post; [destruct bp; reflexivity|].
      apply (load_values_ok _ _ _ _ _ _ _ _ E2).
Qed.

Lemma load_register_ok blk to_load existing lc : okr lc (load_register blk to_load existing lc).
Proof.
  unfold okr, load_register. intros c lc' H. rstep H. destruct x as [[th f1] lc1]. rstep H. destruct x as [[eb f2] lc2].
  pose proof (load_fields_ok _ _ _ _ _ _ _ _ _ _ E) as I1. pose proof (load_fields_ok _ _ _ _ _ _ _ _ _ _ E0) as I2.
  match type of H with Ok ?p = _ => assert (K : okp lc p) end.
  { apply (ite_ok lc lc1 lc2); [exact I1|apply (labs_pre _ _ [_; _]); [reflexivity|exact I2]]. }
  match type of H with Ok ?p = _ => remember p as q eqn:Q; clear Q end. destruct q as [cc ll]. inversion H; subst. exact K.
Qed.
Lemma load_ok to_load existing lc : okr lc (a_load to_load existing lc).
Proof.
  unfold okr, a_load. intros c lc' H. destruct to_load as [|b0 tl].
  - inversion H; subst. apply nolab_labs. reflexivity.
  - rinv H. destruct x as [r|p].
    + rinv H. destruct x as [c1 l1]. cbn [fst snd] in H. inversion H; subst. apply (labs_pre _ _ [_]); [reflexivity|].
      apply (load_register_ok _ _ _ _ _ _ E0).
    + rinv H. destruct x as [c1 l1]. cbn [fst snd] in H. inversion H; subst. apply (labs_pre _ _ [_; _]); [reflexivity|].
      apply (load_register_ok _ _ _ _ _ _ E0).
Qed.
Lemma store_ok to_store remaining lc : okr lc (a_store to_store remaining lc).
Proof. unfold a_store. apply store_fields_ok. Qed.

(* ---------- the record ---------- *)
Lemma only_1 i l : adefs i = [] -> incl (arefs i) [l] -> refs_only adefs arefs [i] l.
Proof. intros D R. split; unfold LabelGen.defs, LabelGen.refs; cbn [flat_map]; rewrite ?D, ?app_nil_r; [reflexivity|exact R]. Qed.
Lemma only_pre pre c l : forallb nolab pre = true -> refs_only adefs arefs c l -> refs_only adefs arefs (pre ++ c) l.
Proof.
  intros H [D R]. destruct (nolab_plain _ H) as [D0 R0]. split; [rewrite (defs_app adefs), D0, D; reflexivity|].
  rewrite (refs_app arefs), R0. exact R.
Qed.
Lemma only_post post c l : forallb nolab post = true -> refs_only adefs arefs c l -> refs_only adefs arefs (c ++ post) l.
Proof.
  intros H [D R]. destruct (nolab_plain _ H) as [D0 R0]. split; [rewrite (defs_app adefs), D0, D; reflexivity|].
  rewrite (refs_app arefs), R0, app_nil_r. exact R.
Qed.

Theorem a64_labels_ok : labels_ok a64_backend adefs arefs.
Proof.
  constructor; cbn [a64_backend a64_backend_with b_label b_mark b_jump b_jump_label b_jump_label_fixed b_jcc2 b_jcc1
    b_load_immediate b_load_label b_add_and_jump b_arith b_mov b_print b_erase b_share_n b_store b_load
    b_store_temporary b_restore_temporary].
  - intros l. split; reflexivity.
  - intros c. split; reflexivity.
  - intros t. apply nolab_plain, nl_jump.
  - intros l. apply only_1; [reflexivity|apply incl_refl].
  - intros l. apply only_1; [reflexivity|apply incl_refl].
  - intros s a b l. apply only_pre; [apply nl_compare|]. apply only_1; destruct s; first [reflexivity|apply incl_refl].
  - intros s a l. apply only_pre; [apply nl_compare_immediate|]. apply only_1; destruct s; first [reflexivity|apply incl_refl].
  - intros t i. apply nolab_plain, nl_load_immediate.
  - intros t l. destruct t; cbn [a_load_label].
    + apply only_1; [reflexivity|apply incl_refl].
    + apply (only_post [_] [_]); [reflexivity|]. apply only_1; [reflexivity|apply incl_refl].
  - intros t i. apply nolab_plain, nl_add_and_jump.
  - intros o t a b. apply nolab_plain, nl_arith.
  - intros t s. apply nolab_plain, nl_mov.
  - intros n t c. apply nolab_plain, nl_print.
  - intros t f. apply nolab_plain, nl_store_temporary.
  - intros t f. apply nolab_plain, nl_restore_temporary.
  - intros t lc. apply erase_ok.
  - intros t n lc. apply share_ok.
  - intros a b lc c lc'. apply store_ok.
  - intros a b lc c lc'. apply load_ok.
Qed.
