(* C08, heap statements, shared definitions and the congruence lemmas (the RISC-V counterpart of
   Proof/X86HeapDefs.v and Proof/X86HeapCongr.v of the x86-64 development, restricted to objects that fit
   into ONE block: at most three fields).

     pad3 / heq      agreement of an abstract state `a` (in practice `abs_heap F s`, whose blocks always
                     have three pointer slots) with the abstract heap `hs` of the instrumented machine
                     Sem/AxHeap.v UP TO ZERO PADDING (a block that was never written has `ps = []` in hs
                     and [0;0;0] in abs_heap);
     P3              every block of hs has at most three pointer slots;
     acq_ok          what `acquire_block` needs of the allocator state, on the abstract state;
     heq_*           the operations of Model/Heap.v respect `heq`. *)
From Coq Require Import List ZArith NArith String Bool Lia.
From SCC Require Import Sem.AxSem Sem.AxHeap Sem.RVSem Proof.RVSel Proof.RVHeapAbs.
From SCC Require Model.Heap Proof.HeapMore Proof.HeapRepAlloc Proof.HeapRepLoad.
Import ListNotations.
Open Scope list_scope.
Open Scope Z_scope.

Definition LIMIT : Z := HEAP_BASE + HEAP_SIZE.

Definition pad3 (l : list Z) : list Z := [nth 0 l 0; nth 1 l 0; nth 2 l 0].

Definition heq (a hs : Heap.st) : Prop :=
  Heap.heap a = Heap.heap hs /\ Heap.free a = Heap.free hs /\ Heap.frontier a = Heap.frontier hs /\
  forall x, is_blk x ->
    Heap.hdr (Heap.m a x) = Heap.hdr (Heap.m hs x) /\ Heap.ps (Heap.m a x) = pad3 (Heap.ps (Heap.m hs x)).

Definition P3 (hs : Heap.st) : Prop := forall x, (List.length (Heap.ps (Heap.m hs x)) <= 3)%nat.

Lemma pad3_len3 l : List.length l = 3%nat -> pad3 l = l.
Proof. destruct l as [|a [|b [|c [|d r]]]]; cbn; intros H; try discriminate; reflexivity. Qed.
Lemma pad3_nil : pad3 [] = [0; 0; 0]. Proof. reflexivity. Qed.
Lemma pad3_nth l i : nth i (pad3 l) 0 = match i with O | S O | S (S O) => nth i l 0 | _ => 0 end.
Proof. destruct i as [|[|[|i]]]; cbn; auto. destruct i; reflexivity. Qed.

Lemma heq_eqB a' a hs : st_eqB a' a -> heq a hs -> heq a' hs.
Proof.
  intros (E1 & E2 & E3 & E4) (H1 & H2 & H3 & H4). split; [congruence|]. split; [congruence|]. split; [congruence|].
  intros x Hx. rewrite (E4 x Hx). now apply H4.
Qed.
Lemma heq_abs_ps F s hs x : heq (abs_heap F s) hs -> is_blk x ->
  pad3 (Heap.ps (Heap.m hs x)) = [hword s (x + 16); hword s (x + 32); hword s (x + 48)] /\ Heap.hdr (Heap.m hs x) = hword s x.
Proof. intros (_ & _ & _ & H) Hx. destruct (H x Hx) as [A B]. split; [now rewrite <- B|now rewrite <- A]. Qed.

(* ---------- the block-wise part of heq ---------- *)
Definition meq (ma mh : Heap.mem) : Prop :=
  forall x, is_blk x -> Heap.hdr (ma x) = Heap.hdr (mh x) /\ Heap.ps (ma x) = pad3 (Heap.ps (mh x)).

Lemma heq_meq a hs : heq a hs -> meq (Heap.m a) (Heap.m hs).
Proof. intros (_ & _ & _ & H). exact H. Qed.
Lemma heq_hdr a hs x : heq a hs -> is_blk x -> Heap.hdr (Heap.m a x) = Heap.hdr (Heap.m hs x).
Proof. intros (_ & _ & _ & H) Hx. now destruct (H x Hx). Qed.
Lemma heq_ps a hs x : heq a hs -> is_blk x -> Heap.ps (Heap.m a x) = pad3 (Heap.ps (Heap.m hs x)).
Proof. intros (_ & _ & _ & H) Hx. now destruct (H x Hx). Qed.
Lemma heq_intro a hs :
  Heap.heap a = Heap.heap hs -> Heap.free a = Heap.free hs -> Heap.frontier a = Heap.frontier hs ->
  meq (Heap.m a) (Heap.m hs) -> heq a hs.
Proof. intros H1 H2 H3 H4. split; [exact H1|]. split; [exact H2|]. split; [exact H3|exact H4]. Qed.

Lemma meq_set_hdr ma mh p h : meq ma mh -> meq (Heap.set_hdr ma p h) (Heap.set_hdr mh p h).
Proof.
  intros H x Hx. destruct (H x Hx) as [A B]. unfold Heap.set_hdr, Heap.upd.
  destruct (Z.eqb_spec x p) as [->|Hne]; cbn [Heap.hdr Heap.ps]; auto.
Qed.

(* ---------- reference counts ---------- *)
Lemma heq_share a hs p n : heq a hs -> (p = 0 \/ is_blk p) -> heq (Heap.share p n a) (Heap.share p n hs).
Proof.
  intros E Hp. unfold Heap.share. destruct (Z.eqb_spec p 0) as [|Hp0]; [exact E|].
  destruct Hp as [|Hb]; [contradiction|]. pose proof E as (E1 & E2 & E3 & E4).
  apply heq_intro; cbn [Heap.m Heap.heap Heap.free Heap.frontier]; auto.
  rewrite (heq_hdr a hs p E Hb). now apply meq_set_hdr.
Qed.
Lemma heq_erase a hs p : heq a hs -> (p = 0 \/ is_blk p) -> heq (Heap.erase p a) (Heap.erase p hs).
Proof.
  intros E Hp. unfold Heap.erase. destruct (Z.eqb_spec p 0) as [|Hp0]; [exact E|].
  destruct Hp as [|Hb]; [contradiction|]. pose proof E as (E1 & E2 & E3 & E4).
  rewrite (heq_hdr a hs p E Hb).
  destruct (Heap.hdr (Heap.m hs p) =? 0); apply heq_intro; cbn [Heap.m Heap.heap Heap.free Heap.frontier]; auto.
  - rewrite E2. now apply meq_set_hdr.
  - now apply meq_set_hdr.
Qed.
Lemma heq_release a hs p : heq a hs -> is_blk p -> heq (Heap.release p a) (Heap.release p hs).
Proof.
  intros E Hb. pose proof E as (E1 & E2 & E3 & E4). unfold Heap.release.
  apply heq_intro; cbn [Heap.m Heap.heap Heap.free Heap.frontier]; auto.
  rewrite E1. now apply meq_set_hdr.
Qed.
Lemma heq_dec a hs p : heq a hs -> is_blk p -> heq (Heap.dec p a) (Heap.dec p hs).
Proof.
  intros E Hb. pose proof E as (E1 & E2 & E3 & E4). unfold Heap.dec.
  apply heq_intro; cbn [Heap.m Heap.heap Heap.free Heap.frontier]; auto.
  rewrite (heq_hdr a hs p E Hb). now apply meq_set_hdr.
Qed.

Definition rc_opnd_ok (o : Heap.op) : Prop :=
  match o with Heap.OShare p _ | Heap.OErase p => p = 0 \/ is_blk p | _ => False end.
Lemma heq_rc_ops : forall ops a hs, heq a hs -> Forall rc_opnd_ok ops -> heq (hrun ops a) (hrun ops hs).
Proof.
  unfold hrun. induction ops as [|o ops IH]; intros a hs E Hops; cbn [fold_left]; [exact E|].
  inversion Hops as [|? ? Ho Hops']; subst. apply IH; [|exact Hops'].
  destruct o; cbn [rc_opnd_ok] in Ho; try contradiction; cbn [Heap.step].
  - now apply heq_share.
  - now apply heq_erase.
Qed.
Lemma step_eqB o a b : st_eqB a b -> rc_opnd_ok o -> st_eqB (Heap.step a o) (Heap.step b o).
Proof.
  intros E Ho. destruct o; cbn [rc_opnd_ok] in Ho; try contradiction; cbn [Heap.step].
  - now apply share_st_eqB.
  - now apply erase_st_eqB.
Qed.
Lemma hrun_eqB : forall ops a b, st_eqB a b -> Forall rc_opnd_ok ops -> st_eqB (hrun ops a) (hrun ops b).
Proof.
  unfold hrun. induction ops as [|o ops IH]; intros a b E Hops; cbn [fold_left]; [exact E|].
  inversion Hops as [|? ? Ho Hops']; subst. apply IH; [|exact Hops']. now apply step_eqB.
Qed.

(* ---------- P3 is an invariant of the instrumented machine ---------- *)
Definition machine_op (o : Heap.op) : Prop :=
  match o with Heap.OShare _ _ | Heap.OErase _ | Heap.OAllocObj _ | Heap.OLoadObj _ _ => True | _ => False end.
Lemma P3_ext hs hs' : (forall x, Heap.ps (Heap.m hs' x) = Heap.ps (Heap.m hs x)) -> P3 hs -> P3 hs'.
Proof. intros H K x. rewrite H. apply K. Qed.
Lemma P3_alloc hs P : P3 hs -> (List.length P <= 3)%nat -> P3 (snd (Heap.alloc P hs)).
Proof. intros K HP x. rewrite HeapRepAlloc.alloc_ps. destruct (x =? Heap.heap hs); [exact HP|apply K]. Qed.
Lemma len_block2 rest link : List.length (Heap.pad 2 (Heap.lastn 2 rest) ++ [link]) = 3%nat.
Proof.
  rewrite app_length, HeapRepAlloc.length_pad; [reflexivity|]. rewrite HeapRepAlloc.length_lastn. lia.
Qed.
Lemma len_block3 (fields : list Z) : List.length (Heap.pad 3 (Heap.lastn 3 fields)) = 3%nat.
Proof. rewrite HeapRepAlloc.length_pad; [reflexivity|]. rewrite HeapRepAlloc.length_lastn. lia. Qed.
Lemma store_other_step f rest link a :
  rest <> [] ->
  Heap.store_other (S f) rest link a =
  Heap.store_other f (Heap.butlastn 2 rest) (fst (Heap.alloc (Heap.pad 2 (Heap.lastn 2 rest) ++ [link]) a))
                   (snd (Heap.alloc (Heap.pad 2 (Heap.lastn 2 rest) ++ [link]) a)).
Proof.
  intros H. cbn [Heap.store_other]. destruct rest; [contradiction|].
  destruct (Heap.alloc _ a) as [b a1]. reflexivity.
Qed.
Lemma P3_store_other : forall f rest link hs, P3 hs -> P3 (snd (Heap.store_other f rest link hs)).
Proof.
  induction f as [|f IH]; intros rest link hs K; [exact K|].
  destruct rest as [|x r]; [exact K|]. rewrite store_other_step by discriminate.
  apply IH. apply P3_alloc; [exact K|]. rewrite len_block2. lia.
Qed.
Lemma alloc_object_step fields a :
  fields <> [] ->
  Heap.alloc_object fields a =
  Heap.store_other (List.length fields) (Heap.butlastn 3 fields)
    (fst (Heap.alloc (Heap.pad 3 (Heap.lastn 3 fields)) a)) (snd (Heap.alloc (Heap.pad 3 (Heap.lastn 3 fields)) a)).
Proof.
  intros H. unfold Heap.alloc_object. destruct fields; [contradiction|].
  destruct (Heap.alloc _ a) as [b a1]. reflexivity.
Qed.
(* an object of at most three fields is ONE allocation *)
Lemma alloc_object_small fields a :
  fields <> [] -> (List.length fields <= 3)%nat ->
  Heap.alloc_object fields a = Heap.alloc (Heap.pad 3 fields) a.
Proof.
  intros NE L. rewrite alloc_object_step by exact NE.
  assert (E1 : Heap.lastn 3 fields = fields).
  { unfold Heap.lastn. replace (List.length fields - 3)%nat with O by lia. reflexivity. }
  assert (E2 : Heap.butlastn 3 fields = []).
  { unfold Heap.butlastn. replace (List.length fields - 3)%nat with O by lia. reflexivity. }
  rewrite E1, E2. destruct (List.length fields) as [|k] eqn:EL; [destruct fields; [congruence|cbn in EL; discriminate]|].
  cbn [Heap.store_other]. now destruct (Heap.alloc (Heap.pad 3 fields) a).
Qed.
Lemma P3_alloc_object hs fields : P3 hs -> P3 (snd (Heap.alloc_object fields hs)).
Proof.
  intros K. destruct fields as [|x r]; [exact K|]. rewrite alloc_object_step by discriminate.
  apply P3_store_other. apply P3_alloc; [exact K|]. rewrite len_block3. lia.
Qed.
Lemma P3_step hs o : P3 hs -> machine_op o -> P3 (Heap.step hs o).
Proof.
  intros K Ho. destruct o; cbn [machine_op] in Ho; try contradiction; cbn [Heap.step].
  - eapply P3_ext; [|exact K]. intros x. apply HeapMore.share_ps.
  - eapply P3_ext; [|exact K]. intros x. apply HeapMore.erase_ps.
  - now apply P3_alloc_object.
  - eapply P3_ext; [|exact K]. intros x. apply HeapRepLoad.load_object_ps.
Qed.
Lemma P3_hrun : forall ops hs, P3 hs -> Forall machine_op ops -> P3 (hrun ops hs).
Proof.
  unfold hrun. induction ops as [|o ops IH]; intros hs K Hops; cbn [fold_left]; [exact K|].
  inversion Hops as [|? ? Ho Hops']; subst. apply IH; [|exact Hops']. now apply P3_step.
Qed.
Lemma P3_init base : P3 (Heap.init base).
Proof. intros x. cbn. lia. Qed.

(* ---------- folding an operation that ignores 0 over a padded list ---------- *)
Section FoldPad.
Variable f : Z -> Heap.st -> Heap.st.
Hypothesis f0 : forall s, f 0 s = s.
Lemma fold_pad3 l s : (List.length l <= 3)%nat ->
  fold_left (fun s c => f c s) (pad3 l) s = fold_left (fun s c => f c s) l s.
Proof.
  intros H. destruct l as [|x0 [|x1 [|x2 [|x3 r]]]]; cbn [List.length] in H; try lia;
    cbn [pad3 nth fold_left]; rewrite ?f0; reflexivity.
Qed.
End FoldPad.
Lemma erase_0 s : Heap.erase 0 s = s. Proof. reflexivity. Qed.
Lemma share_0 n s : Heap.share 0 n s = s. Proof. reflexivity. Qed.

Definition slots_ok (l : list Z) : Prop := Forall (fun c => c = 0 \/ is_blk c) l.

Lemma heq_erase_list : forall l a hs, heq a hs -> slots_ok l ->
  heq (fold_left (fun s c => Heap.erase c s) l a) (fold_left (fun s c => Heap.erase c s) l hs).
Proof.
  induction l as [|c l IH]; intros a hs E Hl; cbn [fold_left]; [exact E|].
  inversion Hl as [|? ? Hc Hl']; subst. apply IH; [|exact Hl']. now apply heq_erase.
Qed.
Lemma heq_share_list : forall l a hs, heq a hs -> slots_ok l ->
  heq (Heap.share_list l a) (Heap.share_list l hs).
Proof.
  unfold Heap.share_list. induction l as [|c l IH]; intros a hs E Hl; cbn [fold_left]; [exact E|].
  inversion Hl as [|? ? Hc Hl']; subst. apply IH; [|exact Hl']. now apply heq_share.
Qed.

(* ---------- acquire / alloc ---------- *)
Definition acq_ok (a : Heap.st) : Prop :=
  is_blk (Heap.heap a) /\ Heap.free a <> 0 /\
  (Heap.hdr (Heap.m a (Heap.heap a)) = 0 -> is_blk (Heap.free a)) /\
  (Heap.hdr (Heap.m a (Heap.heap a)) = 0 -> Heap.hdr (Heap.m a (Heap.free a)) <> 0 ->
     slots_ok (Heap.ps (Heap.m a (Heap.free a))) /\
     (forall x, is_blk x -> min_int + 3 <= Heap.hdr (Heap.m a x) <= max_int) /\
     min_int + 3 <= Heap.hdr (Heap.m a (Heap.free a)) <= max_int).

Lemma heq_acquire a hs :
  heq a hs -> P3 hs -> is_blk (Heap.heap a) ->
  (Heap.hdr (Heap.m a (Heap.heap a)) = 0 -> is_blk (Heap.free a)) ->
  (Heap.hdr (Heap.m a (Heap.heap a)) = 0 -> Heap.hdr (Heap.m a (Heap.free a)) <> 0 ->
     slots_ok (Heap.ps (Heap.m a (Heap.free a)))) ->
  fst (Heap.acquire a) = fst (Heap.acquire hs) /\ heq (snd (Heap.acquire a)) (snd (Heap.acquire hs)).
Proof.
  intros E K Hh Hf Hk. pose proof E as (E1 & E2 & E3 & E4). unfold Heap.acquire.
  rewrite <- E1, <- E2, <- (heq_hdr a hs _ E Hh).
  destruct (Z.eqb_spec (Heap.hdr (Heap.m a (Heap.heap a))) 0) as [H0|Hn0]; cbn [negb].
  2:{ cbn [fst snd]. split; [reflexivity|].
      apply heq_intro; cbn [Heap.m Heap.heap Heap.free Heap.frontier]; auto. now apply meq_set_hdr. }
  specialize (Hf H0). specialize (Hk H0). rewrite <- (heq_hdr a hs _ E Hf).
  destruct (Z.eqb_spec (Heap.hdr (Heap.m a (Heap.free a))) 0) as [F0|Fn0]; cbn [fst snd].
  - split; [reflexivity|]. apply heq_intro; cbn [Heap.m Heap.heap Heap.free Heap.frontier]; auto.
  - split; [reflexivity|]. specialize (Hk Fn0).
    rewrite <- (fold_pad3 (fun c s => Heap.erase c s) erase_0 (Heap.ps (Heap.m hs (Heap.free a)))) by (apply K).
    assert (EP : Heap.ps (Heap.m a (Heap.free a)) = pad3 (Heap.ps (Heap.m hs (Heap.free a)))) by (now apply heq_ps).
    rewrite <- EP. apply heq_erase_list; [|exact Hk].
    apply heq_intro; cbn [Heap.m Heap.heap Heap.free Heap.frontier]; auto. now apply meq_set_hdr.
Qed.

Lemma heq_alloc a hs P : heq a hs -> P3 hs -> acq_ok a -> List.length P = 3%nat ->
  fst (Heap.alloc P a) = fst (Heap.alloc P hs) /\ heq (snd (Heap.alloc P a)) (snd (Heap.alloc P hs)) /\
  P3 (snd (Heap.alloc P hs)).
Proof.
  intros E K (A1 & A2 & A3 & A4) HP. pose proof E as (E1 & E2 & E3 & E4).
  assert (K' : P3 (snd (Heap.alloc P hs))) by (apply P3_alloc; [exact K|lia]).
  unfold Heap.alloc.
  set (A := {| Heap.m := Heap.set_ps (Heap.m a) (Heap.heap a) P; Heap.heap := Heap.heap a; Heap.free := Heap.free a; Heap.frontier := Heap.frontier a |}).
  set (B := {| Heap.m := Heap.set_ps (Heap.m hs) (Heap.heap hs) P; Heap.heap := Heap.heap hs; Heap.free := Heap.free hs; Heap.frontier := Heap.frontier hs |}).
  assert (EAB : heq A B).
  { apply heq_intro; unfold A, B; cbn [Heap.m Heap.heap Heap.free Heap.frontier]; auto.
    intros x Hx. rewrite <- E1. unfold Heap.set_ps, Heap.upd. destruct (E4 x Hx) as [X1 X2].
    destruct (Z.eqb_spec x (Heap.heap a)) as [->|Hne]; cbn [Heap.hdr Heap.ps].
    - split; [now apply heq_hdr|]. symmetry. now apply pad3_len3.
    - split; assumption. }
  assert (KB : P3 B).
  { intros x. unfold B. cbn [Heap.m]. unfold Heap.set_ps, Heap.upd. destruct (x =? Heap.heap hs); cbn [Heap.ps]; [lia|apply K]. }
  assert (HA : Heap.hdr (Heap.m A (Heap.heap A)) = Heap.hdr (Heap.m a (Heap.heap a))).
  { unfold A. cbn [Heap.m Heap.heap]. unfold Heap.set_ps. now rewrite Heap.upd_same. }
  destruct (heq_acquire A B EAB KB) as [Ef Es].
  - exact A1.
  - rewrite HA. exact A3.
  - rewrite HA. intros H0. specialize (A3 H0). unfold A. cbn [Heap.m Heap.free Heap.heap].
    unfold Heap.set_ps, Heap.upd. destruct (Z.eqb_spec (Heap.free a) (Heap.heap a)) as [e|Hne].
    + cbn [Heap.hdr]. rewrite <- e at 1. rewrite e, H0. intros X; contradiction.
    + intros Hn0. now destruct (A4 H0 Hn0).
  - split; [exact Ef|]. split; [exact Es|exact K'].
Qed.
Lemma alloc_fst P a : fst (Heap.alloc P a) = Heap.heap a.
Proof.
  unfold Heap.alloc, Heap.acquire. cbn [Heap.heap Heap.m Heap.free].
  destruct (negb _); [reflexivity|]. destruct (_ =? 0); reflexivity.
Qed.

(* ---------- load of a one-block object ---------- *)
Lemma heq_load_object0 p a hs : heq a hs -> P3 hs -> is_blk p -> slots_ok (Heap.ps (Heap.m a p)) ->
  heq (Heap.load_object 0 p a) (Heap.load_object 0 p hs).
Proof.
  intros E K Hp Hs. unfold Heap.load_object. rewrite <- (heq_hdr a hs p E Hp).
  destruct (Heap.hdr (Heap.m a p) =? 0); cbn [Heap.load_object_release]; [now apply heq_release|].
  unfold Heap.load_object_share. cbn [Heap.share_walk].
  assert (Hps : forall x, Heap.ps (Heap.m (Heap.dec p a) x) = Heap.ps (Heap.m a x)) by (intros; apply HeapMore.dec_ps).
  assert (Hps' : forall x, Heap.ps (Heap.m (Heap.dec p hs) x) = Heap.ps (Heap.m hs x)) by (intros; apply HeapMore.dec_ps).
  rewrite Hps, Hps'. unfold Heap.share_list at 2.
  rewrite <- (fold_pad3 (fun c s => Heap.share c 1 s) (share_0 1) (Heap.ps (Heap.m hs p))) by (apply K).
  rewrite <- (heq_ps a hs p E Hp). apply heq_share_list; [now apply heq_dec|exact Hs].
Qed.
