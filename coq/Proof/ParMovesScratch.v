(* Two facts about the generic parallel-move code (Model/ParMoves.v) needed to run it on a machine
   whose scratch location differs from root to root:
   1. the moves of one root never read the scratch before writing it, so what the temporaries hold
      afterwards does not depend on the scratch's initial contents;
   2. every temporary named by the emitted code is a key or a target of the assignment map. *)
From Coq Require Import List Bool Arith Lia.
From SCC Require Import Model.ParMoves.
Import ListNotations.

Section S.
Variable T : Type.
Variable eqb : T -> T -> bool.
Hypothesis eqb_spec : forall a b, reflect (a = b) (eqb a b).
Variable V : Type.

Notation exec := (exec T eqb V).
Notation tree_moves := (tree_moves T).
Notation root_moves := (root_moves T).

Definition is_restore (i : pinstr T) : bool := match i with Restore _ _ => true | _ => false end.
Definition is_save (i : pinstr T) : bool := match i with Save _ _ => true | _ => false end.

Lemma exec_no_restore (is : list (pinstr T)) : forall (st : T -> V) (sc sc' : V),
  forallb (fun i => negb (is_restore i)) is = true ->
  fst (exec is (st, sc)) = fst (exec is (st, sc')) /\
  (existsb is_save is = true -> snd (exec is (st, sc)) = snd (exec is (st, sc'))).
Proof.
  induction is as [|i is IH]; intros st sc sc' NR; cbn in *; [split; [reflexivity|discriminate]|].
  apply andb_true_iff in NR as [Ni NR]. destruct i as [d s|t|t]; cbn in *; try discriminate.
  - apply (IH _ sc sc' NR).
  - split; reflexivity.
Qed.

Lemma tree_moves_no_restore tr : forall p, forallb (fun i => negb (is_restore i)) (tree_moves p tr) = true.
Proof.
  induction tr as [|t cs IH] using tree_ind2; intros p; cbn; [reflexivity|].
  rewrite forallb_app. cbn. rewrite andb_true_r.
  apply forallb_forall. intros i Hi. apply in_flat_map in Hi as (c & Hc & Hi).
  rewrite Forall_forall in IH. specialize (IH c Hc t). rewrite forallb_forall in IH. auto.
Qed.
Lemma children_no_restore t cs : forallb (fun i => negb (is_restore i)) (flat_map (tree_moves t) cs) = true.
Proof.
  apply forallb_forall. intros i Hi. apply in_flat_map in Hi as (c & Hc & Hi).
  pose proof (tree_moves_no_restore c t) as H. rewrite forallb_forall in H. auto.
Qed.

Lemma refers_back_save tr : forall p, refers_back T tr = true -> existsb is_save (tree_moves p tr) = true.
Proof.
  induction tr as [|t cs IH] using tree_ind2; intros p H; cbn in *; [reflexivity|].
  rewrite existsb_app. apply orb_true_iff. left.
  apply existsb_exists in H as (c & Hc & H). rewrite Forall_forall in IH.
  specialize (IH c Hc t H). apply existsb_exists in IH as (i & Hi & Si).
  apply existsb_exists. exists i. split; auto. apply in_flat_map. eauto.
Qed.
Lemma children_save t cs : existsb (refers_back T) cs = true -> existsb is_save (flat_map (tree_moves t) cs) = true.
Proof.
  intros H. apply existsb_exists in H as (c & Hc & H).
  pose proof (refers_back_save c t H) as S. apply existsb_exists in S as (i & Hi & Si).
  apply existsb_exists. exists i. split; auto. apply in_flat_map. eauto.
Qed.

(* 1. *)
Lemma root_scratch_indep (r : root T) (st : T -> V) (sc sc' : V) :
  fst (exec (root_moves r) (st, sc)) = fst (exec (root_moves r) (st, sc')).
Proof.
  destruct r as [k cs]. cbn [ParMoves.root_moves]. rewrite !exec_app.
  destruct (exec_no_restore (flat_map (tree_moves k) cs) st sc sc' (children_no_restore k cs)) as [F S].
  destruct (existsb (refers_back T) cs) eqn:RB.
  - specialize (S (children_save k cs RB)). cbn. now rewrite F, S.
  - cbn. exact F.
Qed.

(* 2. *)
Definition pinstr_temps (i : pinstr T) : list T :=
  match i with Mov _ d s => [d; s] | Save _ t => [t] | Restore _ t => [t] end.

Lemma tree_moves_temps tr : forall p i t, In i (tree_moves p tr) -> In t (pinstr_temps i) -> t = p \/ In t (nodes T tr).
Proof.
  induction tr as [|n cs IH] using tree_ind2; intros p i t Hi Ht; cbn in *.
  - destruct Hi as [<-|[]]. cbn in Ht. intuition.
  - apply in_app_iff in Hi as [Hi|[<-|[]]].
    + apply in_flat_map in Hi as (c & Hc & Hi). rewrite Forall_forall in IH.
      destruct (IH c Hc n i t Hi Ht) as [->|H]; [right; now left|]. right; right. apply in_flat_map; eauto.
    + cbn in Ht. destruct Ht as [<-|[<-|[]]]; [right; now left|now left].
Qed.

Lemma root_moves_temps k cs i t : In i (root_moves (StartNode T k cs)) -> In t (pinstr_temps i) ->
  t = k \/ In t (flat_map (nodes T) cs).
Proof.
  cbn [ParMoves.root_moves]. intros Hi Ht. apply in_app_iff in Hi as [Hi|Hi].
  - apply in_flat_map in Hi as (c & Hc & Hi). destruct (tree_moves_temps c k i t Hi Ht) as [->|H]; [now left|].
    right. apply in_flat_map; eauto.
  - destruct (existsb _ cs); [|destruct Hi]. destruct Hi as [<-|[]]. cbn in Ht. intuition.
Qed.

Section Forest.
Variable A : amap T.
Hypothesis IDA : indeg1 T eqb A.

Lemma forest_temps fuel : forall keys pm rs,
  (forall a b, edge T eqb pm a b -> edge T eqb A a b) ->
  nodup_targets T eqb pm ->
  forest_loop T eqb fuel keys pm = Some rs ->
  forall r i t, In r rs -> In i (root_moves r) -> In t (pinstr_temps i) -> In t keys \/ In t (all_targets T A).
Proof.
  induction keys as [|k ks IH]; intros pm rs Sub NT H r i t Hr Hi Ht.
  - inversion H; subst. destruct Hr.
  - cbn [forest_loop] in H. destruct (root_for T eqb fuel pm k) as [r0|] eqn:R; [|discriminate].
    destruct (forest_loop T eqb fuel ks _) as [rs'|] eqn:F; [|discriminate]. inversion H; subst; clear H.
    assert (indeg1 T eqb pm) as ID by (intros a a' b E1 E2; eapply IDA; eauto).
    destruct Hr as [<-|Hr].
    + assert (exists cs, r0 = StartNode T k cs) as (cs & ->).
      { unfold root_for in R. destruct (lookup T eqb pm k); [|discriminate]. destruct (mapM _ _); inversion R; eauto. }
      destruct (root_for_spec T eqb eqb_spec pm ID NT fuel k cs R) as (_ & _ & HE & _).
      destruct (root_moves_temps k cs i t Hi Ht) as [->|Hn]; [left; now left|].
      right. apply in_flat_map in Hn as (c & Hc & Hn).
      destruct (nodes_have_edges T c k t Hn) as (a & Ha).
      eapply edge_all_targets. apply Sub. apply HE. apply in_flat_map. eauto.
    + destruct (IH _ rs' (fun a b E => Sub a b (proj1 (proj1 (edge_delete T eqb eqb_spec _ pm a b) E)))
                  ltac:(intros a ts L; rewrite lookup_delete in L; destruct (lookup T eqb pm a) as [ts0|] eqn:L0; [|discriminate];
                        inversion L; subst; apply NoDup_filter; eauto)
                  F r i t Hr Hi Ht) as [?|?]; [left; now right|now right].
Qed.
End Forest.

Lemma spanning_forest_temps fuel (A : amap T) rs :
  indeg1 T eqb A -> nodup_targets T eqb A ->
  spanning_forest T eqb fuel A = Some rs ->
  forall r i t, In r rs -> In i (root_moves r) -> In t (pinstr_temps i) -> In t (map fst A) \/ In t (all_targets T A).
Proof. intros ID NT H. eapply (forest_temps A ID fuel (map fst A) A rs); eauto. Qed.
End S.
