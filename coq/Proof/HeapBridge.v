(* C06, heap statements: facts about the abstract allocator (Model/Heap.v) that the x86-64 simulation needs
   and that follow from the invariant InvA of Proof/HeapMore.v:
     hdr_bounds     every header of a block is a small non-negative number (a free-list link below the
                    frontier, or a reference count bounded by the number of references);
     alloc_stage    one `alloc`: the acquired block is the reserved block, it is not reachable from the
                    roots, everything reachable stays reachable, the frontier does not move back;
     stage_perm     the roots between two rounds of `store_other`. *)
From Coq Require Import List ZArith Lia Bool Permutation.
From SCC Require Import Model.Heap Proof.HeapMore Proof.HeapTrace Proof.HeapRep Proof.HeapRepAlloc.
Import ListNotations.
Open Scope Z_scope.

Lemma cnt_le_length l b : cnt l b <= Z.of_nat (length l).
Proof.
  unfold cnt. induction l as [|a l IH]; cbn [count_occ length]; [lia|].
  destruct (Z.eq_dec a b); lia.
Qed.
Lemma chain_hdr mm stop : forall a l, chain mm stop a l -> forall x, In x l -> hdr (mm x) = stop \/ In (hdr (mm x)) l.
Proof.
  induction 1 as [|a l Ha Hc IH]; intros x Hx; [destruct Hx|].
  destruct Hx as [<-|Hx].
  - inversion Hc; subst; [now left|right; right; now left].
  - destruct (IH x Hx) as [E|E]; [now left|right; now right].
Qed.
Lemma length_flat_map_le (f : Z -> list Z) k : (forall x, (length (f x) <= k)%nat) ->
  forall l, (length (flat_map f l) <= k * length l)%nat.
Proof. intros H. induction l as [|a l IH]; cbn [flat_map length]; [lia|]. rewrite app_length. specialize (H a). lia. Qed.

(* the elements of the three lists are blocks strictly below the frontier; their number is the size of the heap *)
Lemma list_blk base s R hl fl cl a : InvA base s R hl fl cl -> In a (hl ++ fl ++ cl) -> blk base a /\ 0 < a < frontier s.
Proof. intros [I X] Ha. split; [apply (x_al _ _ _ _ _ X a Ha)|apply (i_below _ _ _ _ _ I a Ha)]. Qed.

Lemma hdr_bounds base s R hl fl cl :
  InvA base s R hl fl cl -> (forall x, (length (ps (m s x)) <= 3)%nat) -> 0 < base ->
  forall x, blk base x ->
    0 <= hdr (m s x) <= Z.max (frontier s) (Z.of_nat (length R) + 3 * Z.of_nat (length (cl ++ fl))).
Proof.
  intros IA P3 Hb x Hx. pose proof (proj1 IA) as I. pose proof (proj2 IA) as X.
  pose proof (i_front _ _ _ _ _ I) as HF.
  destruct (Z_lt_ge_dec x (frontier s)) as [Hlt|Hge].
  2:{ rewrite (i_fresh _ _ _ _ _ I x) by lia. cbn. lia. }
  pose proof (x_tot _ _ _ _ _ X x Hx Hlt) as Hin.
  rewrite !in_app_iff in Hin. destruct Hin as [Hh|[Hf|Hc]].
  - destruct (chain_hdr _ _ _ _ (i_hl _ _ _ _ _ I) x Hh) as [E|E]; [rewrite E; lia|].
    pose proof (i_below _ _ _ _ _ I (hdr (m s x)) ltac:(rewrite !in_app_iff; auto)). lia.
  - destruct (chain_hdr _ _ _ _ (i_fl _ _ _ _ _ I) x Hf) as [E|E]; [rewrite E; lia|].
    pose proof (i_below _ _ _ _ _ I (hdr (m s x)) ltac:(rewrite !in_app_iff; auto)). lia.
  - pose proof (x_pos _ _ _ _ _ X x Hc) as Hp. pose proof (i_rc _ _ _ _ _ I x Hc) as Hrc.
    pose proof (cnt_le_length (refs (m s) R cl fl) x) as Hle. unfold refs in Hle, Hrc. rewrite app_length in Hle.
    pose proof (length_flat_map_le (fun y => ps (m s y)) 3 P3 (cl ++ fl)). lia.
Qed.

(* the number of blocks in use is bounded by the size of the heap below the frontier *)
Lemma in_use_bound base s R hl fl cl :
  InvA base s R hl fl cl -> Z.of_nat (length (cl ++ fl)) * 64 <= frontier s - base.
Proof.
  intros [_ X]. pose proof (x_sz _ _ _ _ _ X) as E. unfold BLOCK in E. rewrite !app_length in *. lia.
Qed.

(* ---------- one allocation ---------- *)
Lemma alloc_stage base s R R0 hl fl cl sl :
  InvA base s R hl fl cl -> Permutation R (nz sl ++ R0) ->
  fst (alloc sl s) = heap s /\ heap s <> 0 /\
  (exists hl' fl' cl', InvA base (snd (alloc sl s)) (heap s :: R0) hl' fl' cl') /\
  frontier s <= frontier (snd (alloc sl s)) /\
  ~ reach (m s) R (heap s) /\
  (forall b, reach (m s) R b -> reach (m (snd (alloc sl s))) (heap s :: R0) b).
Proof.
  intros IA HP. pose proof (proj1 IA) as I.
  destruct (alloc_invA base s R R0 hl fl cl sl IA HP) as [Hfst (hl' & fl' & cl' & IA' & FR & _)].
  destruct (heap_not_counted _ _ _ _ _ I) as [Hrcl Hrfl].
  assert (Hr0 : heap s <> 0) by (eapply heap_nonzero; eauto).
  set (r := heap s) in *. set (s' := snd (alloc sl s)) in *.
  assert (Hps : forall b, ps (m s' b) = if b =? r then sl else ps (m s b)) by (intros; apply alloc_ps).
  assert (Hpsr : ps (m s' r) = sl) by (rewrite Hps, Z.eqb_refl; reflexivity).
  assert (Hpso : forall b, b <> r -> ps (m s' b) = ps (m s b)).
  { intros b Hb. rewrite Hps. destruct (Z.eqb_spec b r); congruence. }
  assert (Hnr : ~ reach (m s) R r) by (intros Hr; apply Hrcl; eapply reach_root_counted; eauto).
  split; [exact Hfst|]. split; [exact Hr0|]. split; [eauto|]. split.
  { destruct FR as [[E _]|[E _]]; lia. }
  split; [exact Hnr|].
  induction 1 as [b Hb Hb0|x b Hx IH Hb Hb0].
  - apply (Permutation_in _ HP) in Hb. apply in_app_iff in Hb as [Hb|Hb].
    + apply in_nz in Hb as [Hb _]. eapply reach_slot; [apply reach_src; [now left|exact Hr0]| |exact Hb0]. now rewrite Hpsr.
    + apply reach_src; auto. now right.
  - eapply reach_slot; [exact IH| |exact Hb0]. rewrite Hpso; [exact Hb|]. intros ->. contradiction.
Qed.

(* the roots before a round of store_other, rearranged for alloc_stage *)
Lemma stage_perm rest link R0 : link <> 0 -> rest <> [] ->
  Permutation (link :: nz rest ++ R0) (nz (pad 2 (lastn 2 rest) ++ [link]) ++ (nz (butlastn 2 rest) ++ R0)).
Proof.
  intros Hl _. rewrite nz_app, nz_pad, nz_single by auto.
  pose proof (nz_split_last 2 rest) as HS.
  apply perm_of_cnt. intros b. repeat (rewrite ?cnt_app, ?cnt_cons). change (cnt [] b) with 0.
  rewrite (cnt_perm _ _ b HS), cnt_app. lia.
Qed.
Lemma first_perm fields R R0 : Permutation R (nz fields ++ R0) ->
  Permutation R (nz (pad 3 (lastn 3 fields)) ++ (nz (butlastn 3 fields) ++ R0)).
Proof.
  intros HR. etransitivity; [exact HR|]. rewrite nz_pad, app_assoc. apply Permutation_app_tail. apply nz_split_last.
Qed.

(* the roots do not grow along the rounds *)
Lemma nz_length_le l : (length (nz l) <= length l)%nat.
Proof. unfold nz. induction l as [|a l IH]; cbn [filter length]; [lia|]. destruct (negb (a =? 0)); cbn [length]; lia. Qed.
Lemma stage_roots_len rest link (R0 : list Z) :
  (length (link :: nz (butlastn 2 rest) ++ R0) <= length (link :: nz rest ++ R0))%nat.
Proof.
  cbn [length]. rewrite !app_length. pose proof (nz_split_last 2 rest) as HS. apply Permutation_length in HS.
  rewrite app_length in HS. lia.
Qed.
