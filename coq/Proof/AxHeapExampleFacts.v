(* Facts about the example program of Proof/AxHeapExample.v, by computation and by the theorems of
   Proof/AxHeapSafe.v / Proof/AxHeapProps.v (non-vacuity of their hypotheses). *)
From Coq Require Import String List ZArith NArith Bool Permutation.
From SCC Require Import Base.Sexp Lang.AxSyn Sem.AxSem Model.Linearize Model.LinCheck Sem.AxHeap.
From SCC Require Import Proof.AxHeapTyping Proof.AxHeapExample.
From SCC Require Import Model.Heap Proof.HeapMore Proof.HeapTrace Proof.AxHeapSafe Proof.AxHeapProps.
Import ListNotations.
Open Scope Z_scope.

Lemma hx_checked : prog_ok hx_prog = true /\ lin_check_prog hx_lin = true /\ entry_ext hx_lin = true.
Proof. vm_compute. auto. Qed.

(* the runs with 3 and with 30 iterations: output, exit value, final frontier *)
Lemma hx_frontier_3 : hx_frontier 3 = Some (([(true, 106)], OExit 106), 4480).
Proof. vm_compute. reflexivity. Qed.
Lemma hx_frontier_30 : hx_frontier 30 = Some (([(true, 565)], OExit 565), 4480).
Proof. vm_compute. reflexivity. Qed.

Lemma hx_reach n o f : hx_frontier n = Some (o, f) ->
  exists c, hreach 4096 hx_lin [n; 100] (hx_trace n) c /\ frontier (hc_heap c) = f.
Proof.
  unfold hx_frontier, hx_trace. destruct (hrun_prog 2000 4096 hx_lin [n; 100]) as [[[o' c] tr]|] eqn:E; [|discriminate].
  intros H. inversion H; subst. exists c. split; [eapply hrun_prog_reach; eauto|reflexivity].
Qed.

(* the trace of the 3-iteration run: 32 operations of every kind *)
Lemma hx_trace_3 : hx_trace 3 =
  [OAllocObj [0]; OAllocObj []; OAllocObj [0; 0]; OAllocObj [0; 4160]; OShare 4224 1;
   OAllocObj [0; 0; 4224; 0; 4224]; OLoadObj 1 4352; OLoadObj 0 4224; OErase 4160; OLoadObj 0 4224; OErase 4160;
   OAllocObj []; OAllocObj [0; 0]; OAllocObj [0; 4224]; OShare 4288 1;
   OAllocObj [0; 0; 4288; 0; 4288]; OLoadObj 1 4416; OLoadObj 0 4288; OErase 4224; OLoadObj 0 4288; OErase 4224;
   OAllocObj []; OAllocObj [0; 0]; OAllocObj [0; 4288]; OShare 4352 1;
   OAllocObj [0; 0; 4352; 0; 4352]; OLoadObj 1 4160; OLoadObj 0 4352; OErase 4288; OLoadObj 0 4352; OErase 4288;
   OLoadObj 0 4096].
Proof. vm_compute. reflexivity. Qed.

(* by the THEOREM (not by computation): every precondition holds along the trace *)
Lemma hx_trace_wf n o f : hx_frontier n = Some (o, f) -> pre_trace (init 4096) [] (hx_trace n).
Proof.
  intros H. destruct (hx_reach n o f H) as (c & HR & _). destruct hx_checked as (_ & LP & EE).
  apply (prog_trace_wf 4096 hx_lin [n; 100] LP EE ltac:(reflexivity) _ c HR).
Qed.
(* ... which the boolean form of the preconditions confirms on the 3-iteration run *)
Lemma hx_trace_wf_computed : pre_traceb (init 4096) [] (hx_trace 3) = true.
Proof. vm_compute. reflexivity. Qed.

(* peak of blocks in use: 5 in both runs *)
Lemma hx_peak_3 : peak_bound 4096 (hx_trace 3) 5 /\ peak_attained 4096 (hx_trace 3) 5.
Proof.
  apply (peak_n_peak 4096 100); [reflexivity|exact (hx_trace_wf 3 _ _ hx_frontier_3)|vm_compute; reflexivity].
Qed.
Lemma hx_peak_30 : peak_bound 4096 (hx_trace 30) 5 /\ peak_attained 4096 (hx_trace 30) 5.
Proof.
  apply (peak_n_peak 4096 100); [reflexivity|exact (hx_trace_wf 30 _ _ hx_frontier_30)|vm_compute; reflexivity].
Qed.

(* the hypotheses of prog_loop_space_constant are satisfiable: 3 and 30 iterations *)
Lemma hx_loop_space :
  exists c1 c2, hreach 4096 hx_lin [3; 100] (hx_trace 3) c1 /\ hreach 4096 hx_lin [30; 100] (hx_trace 30) c2 /\
    frontier (hc_heap c1) = frontier (hc_heap c2) /\ frontier (hc_heap c1) = 4096 + (5 + 1) * BLOCK.
Proof.
  destruct (hx_reach 3 _ _ hx_frontier_3) as (c1 & R1 & F1). destruct (hx_reach 30 _ _ hx_frontier_30) as (c2 & R2 & F2).
  destruct hx_checked as (_ & LP & EE). destruct hx_peak_3 as [B1 A1]. destruct hx_peak_30 as [B2 A2].
  exists c1, c2. split; [exact R1|]. split; [exact R2|]. split.
  - exact (prog_loop_space_constant 4096 hx_lin _ _ _ c1 _ c2 5%nat LP EE ltac:(reflexivity) R1 R2 B1 A1 B2 A2).
  - exact (prog_footprint_exact 4096 hx_lin _ LP EE ltac:(reflexivity) _ c1 5%nat R1 B1 A1).
Qed.
