(* C06, heap statements: where the clauses of a Switch / a Create sit in the image and how control reaches them.
     mk_image_back      an indirect jump to the address of ANY placed instruction enters at the first
                        instruction placed at that address and reaches the instruction through zero-size
                        pseudo-instructions (labels, directives), the state unchanged;
     gclauses           the code of the clauses, generically in the load code and the body context
                        (Create: load the captured environment after the clause context; Switch: load the
                        clause context after the rest of the context);
     dispatch_layout    `LAB fresh; jump table (for two or more clauses); clauses`: the address of the label
                        (+ 5k for table entry k) leads to the code `load ++ body` of clause k. *)
From Coq Require Import List ZArith NArith String Bool Lia FMapPositive.
From SCC Require Import Base.Sexp Lang.AxSyn Sem.AxSem Model.ParMoves Model.Backend Model.X86 Sem.X86Sem Sem.X86Wf
     Model.Linearize Model.LinCheck Generated.Constants Proof.LinBasics
     Proof.X86State Proof.X86Sel Proof.X86Exec Proof.X86ParMoves Proof.SubstGraph Proof.X86Subst
     Proof.X86SimRel Proof.X86SimStmt Proof.X86SimAddr Proof.X86SimClo.
Import ListNotations.
Open Scope Z_scope.
Open Scope list_scope.

(* ---------- zero-size instructions are no-ops ---------- *)
Lemma zero_size_step im c s : isize c = 0 -> step im c s = Next s.
Proof. destruct c; cbn [isize]; intros H; try lia; reflexivity. Qed.

Lemma zero_run (cs : list xcode) : forall n, exists m, (m <= n)%nat /\
  (forall j c, (m <= j < n)%nat -> nth_error cs j = Some c -> isize c = 0) /\
  (m = O \/ exists c0, nth_error cs (m - 1) = Some c0 /\ 0 < isize c0).
Proof.
  induction n as [|n (m & Hm & Z & P)].
  - exists O. split; [lia|]. split; [intros j c Hj; lia|now left].
  - destruct (nth_error cs n) as [c|] eqn:Hn.
    + destruct (Z.eq_dec (isize c) 0) as [E|E].
      * exists m. split; [lia|]. split; [|exact P]. intros j cj Hj Hc.
        destruct (Nat.eq_dec j n) as [->|NE]; [congruence|apply (Z j cj); [lia|exact Hc]].
      * exists (S n). split; [lia|]. split; [intros j cj Hj; lia|]. right. exists c. cbn [Nat.sub]. rewrite Nat.sub_0_r.
        split; [exact Hn|]. pose proof (isize_nonneg c). lia.
    + exists m. split; [lia|]. split; [|exact P]. intros j cj Hj Hc.
      destruct (Nat.eq_dec j n) as [->|NE]; [congruence|apply (Z j cj); [lia|exact Hc]].
Qed.
Lemma size_zero_run (cs : list xcode) : forall n m, (m <= n)%nat -> (n <= List.length cs)%nat ->
  (forall j c, (m <= j < n)%nat -> nth_error cs j = Some c -> isize c = 0) ->
  size_of (firstn n cs) = size_of (firstn m cs).
Proof.
  induction n as [|n IH]; intros m Hm Hl Z; [replace m with O by lia; reflexivity|].
  destruct (Nat.eq_dec m (S n)) as [->|NE]; [reflexivity|].
  destruct (nth_error cs n) as [c|] eqn:Hn; [|apply nth_error_None in Hn; lia].
  rewrite (firstn_S_size cs n c Hn), (Z n c ltac:(lia) Hn), Z.add_0_r.
  apply IH; [lia|lia|]. intros j cj Hj. apply Z. lia.
Qed.

(* the image built by mk_image *)
Definition back_ok (im : image) : Prop :=
  forall pc c a, PM.find pc (code im) = Some c -> PM.find pc (addr_of im) = Some a ->
    exists i0, PM.find (key a) (index_at im) = Some i0 /\ forall s, exec_to im i0 s pc s.

Theorem mk_image_back cs : back_ok (mk_image cs).
Proof.
  intros pc c a Hc Ha.
  apply build_code_inv in Hc as [Hc|(n & -> & Hn)]; [cbn in Hc; rewrite PM.gempty in Hc; discriminate|].
  unfold mk_image in Ha. rewrite (build_addr_nth cs _ _ _ n c Hn) in Ha.
  assert (Ea : a = CODE_BASE + size_of (firstn n cs)) by congruence. subst a. clear Ha.
  destruct (zero_run cs n) as (m & Hm & Z & P).
  assert (Ln : (n < List.length cs)%nat) by (apply nth_error_Some; congruence).
  destruct (nth_error cs m) as [cm|] eqn:Hcm; [|apply nth_error_None in Hcm; lia].
  rewrite (size_zero_run cs n m Hm ltac:(lia) Z).
  exists (padd 1%positive m). split.
  - apply (build_index_first cs 1%positive CODE_BASE _ m cm); [reflexivity|exact Hcm| |exact P].
    intros b _. cbn. apply PM.gempty.
  - intros s. assert (G : forall d, (m + d <= n)%nat -> exec_to (mk_image cs) (padd 1%positive m) s (padd 1%positive (m + d)) s).
    { induction d as [|d IHd]; intros Hd; [rewrite Nat.add_0_r; apply exec_refl|].
      eapply exec_to_trans; [apply IHd; lia|].
      destruct (nth_error cs (m + d)) as [cd|] eqn:Hcd; [|apply nth_error_None in Hcd; lia].
      eapply exec_next; [apply (build_code_nth cs 1%positive CODE_BASE _ (m + d) cd Hcd)|apply zero_size_step; apply (Z (m + d)%nat cd); [lia|exact Hcd]|].
      rewrite <- padd_succ. replace (S (m + d)) with (m + S d)%nat by lia. apply exec_refl. }
    specialize (G (n - m)%nat ltac:(lia)). now replace (m + (n - m))%nat with n in G by lia.
Qed.

(* ---------- the code of a list of clauses, generically ---------- *)
Section GC.
Variables (types : list tydecl) (ld : ctx -> N -> res (list xcode * N)) (bc : ctx -> ctx) (fresh : string).
Fixpoint gclauses (l : list clause) (lc : N) {struct l} : res (list xcode * N) :=
  match l with
  | [] => Ok ([], lc)
  | (x, cx, body) :: r =>
      dor ldc <- ld cx lc;
      let '(cl, lc1) := ldc in
      dor bd <- xcs types body (bc cx) lc1;
      let '(cb, lc2) := bd in
      dor rs <- gclauses r lc2;
      let '(cr, lc3) := rs in
      Ok ([LAB (fresh +++ "_" +++ show_ident x)] ++ cl ++ cb ++ cr, lc3)
  end.

Lemma gclauses_nth : forall cls lc c5 lc' k x cx body,
  gclauses cls lc = Ok (c5, lc') -> nth_error cls k = Some (x, cx, body) ->
  exists pre lc0 cl lc1 cb lc2 post,
    c5 = pre ++ [LAB (fresh +++ "_" +++ show_ident x)] ++ cl ++ cb ++ post /\
    ld cx lc0 = Ok (cl, lc1) /\ xcs types body (bc cx) lc1 = Ok (cb, lc2) /\ (k = O -> pre = []).
Proof.
  induction cls as [|[[x0 cx0] body0] r IH]; intros lc c5 lc' k x cx body H Hk; [destruct k; discriminate|].
  cbn [gclauses] in H.
  destruct (ld cx0 lc) as [[cl lc1]|] eqn:LD; cbn [rbind] in H; [|discriminate].
  destruct (xcs types body0 (bc cx0) lc1) as [[cb lc2]|] eqn:BD; cbn [rbind] in H; [|discriminate].
  destruct (gclauses r lc2) as [[cr lc3]|] eqn:RS; cbn [rbind] in H; [|discriminate].
  inversion H; subst c5 lc'. destruct k as [|k]; cbn [nth_error] in Hk.
  - inversion Hk; subst. exists [], lc, cl, lc1, cb, lc2, cr. auto.
  - destruct (IH _ _ _ _ _ _ _ RS Hk) as (pre & lc0 & cl' & lc1' & cb' & lc2' & post & -> & L & B & _).
    exists ([LAB (fresh +++ "_" +++ show_ident x0)] ++ cl ++ cb ++ pre), lc0, cl', lc1', cb', lc2', post.
    split; [|split; [auto|split; [auto|discriminate]]]. rewrite <- !app_assoc. reflexivity.
Qed.
End GC.

Section Layout.
Variable im : image.
Hypothesis IMG : img_ok im.
Hypothesis BACK : back_ok im.

(* arriving at table entry k >= 1: the instruction before it is a 5-byte jump *)
Lemma table_entry_k pcl fresh cls R a :
  code_at im pcl ([LAB fresh] ++ code_table x86_backend cls fresh ++ R) ->
  PM.find pcl (addr_of im) = Some a ->
  forall k, (S k < List.length cls)%nat ->
    PM.find (key (a + 5 * Z.of_nat (S k))) (index_at im) = Some (padd pcl (1 + S k)) /\
    PM.find (padd pcl (1 + S k)) (addr_of im) = Some (a + 5 * Z.of_nat (S k)).
Proof.
  intros CA A k Hk.
  set (tb := code_table x86_backend cls fresh) in *.
  assert (LT : List.length tb = List.length cls) by apply code_table_length.
  assert (NTH : forall j cj, nth_error tb j = Some cj -> nth_error ([LAB fresh] ++ tb ++ R) (1 + j) = Some cj).
  { intros j cj Ej. cbn [app Nat.add nth_error]. rewrite nth_error_app1; [exact Ej|]. apply nth_error_Some. congruence. }
  assert (ADDR : forall j, (j < List.length cls)%nat -> PM.find (padd pcl (1 + j)) (addr_of im) = Some (a + 5 * Z.of_nat j)).
  { intros j Hj. destruct (nth_error tb j) as [cj|] eqn:Ej; [|apply nth_error_None in Ej; lia].
    rewrite (addr_along im IMG _ pcl a CA A (1 + j) cj (NTH j cj Ej)).
    f_equal. cbn [app Nat.add firstn size_of isize]. rewrite firstn_app.
    replace (j - List.length tb)%nat with O by lia. cbn [firstn]. rewrite app_nil_r.
    unfold tb. rewrite code_table_size by lia. lia. }
  destruct (nth_error tb k) as [ck|] eqn:Ek; [|apply nth_error_None in Ek; lia].
  destruct (nth_error tb (S k)) as [ck'|] eqn:Ek'; [|apply nth_error_None in Ek'; lia].
  assert (CK : PM.find (padd pcl (1 + k)) (code im) = Some ck) by (apply CA, NTH, Ek).
  assert (CK' : PM.find (Pos.succ (padd pcl (1 + k))) (code im) = Some ck').
  { rewrite <- padd_succ. apply (CA (S (1 + k))). apply (NTH (S k)), Ek'. }
  assert (SZ : isize ck = 5).
  { unfold tb, code_table in Ek. cbn [b_jump_label_fixed x86_backend x86_backend_with] in Ek.
    clear -Ek. revert k Ek. induction cls as [|c0 r IH]; intros k Ek; [destruct k; discriminate|].
    cbn [flat_map app] in Ek. destruct k; cbn [nth_error] in Ek; [inversion Ek; reflexivity|eauto]. }
  pose proof (io_index im IMG _ ck ck' _ CK CK' ltac:(lia) (ADDR k ltac:(lia))) as IXk.
  rewrite SZ in IXk. replace (a + 5 * Z.of_nat (S k)) with (a + 5 * Z.of_nat k + 5) by lia.
  split; [|rewrite (ADDR (S k) ltac:(lia)); f_equal; lia].
  rewrite IXk. f_equal. rewrite <- padd_succ. reflexivity.
Qed.

(* the label, the table and the clauses: where clause k is, and how the address of the label leads there *)
Lemma dispatch_layout types ld bc pcl fresh cls c5 lc3 lc5 a :
  code_at im pcl (([LAB fresh] ++ table_or_nil cls fresh) ++ c5) ->
  labels_at_nh im pcl (([LAB fresh] ++ table_or_nil cls fresh) ++ c5) ->
  is_hash_label fresh = false ->
  gclauses types ld bc fresh cls lc3 = Ok (c5, lc5) ->
  PM.find pcl (addr_of im) = Some a ->
  forall k c, nth_error cls k = Some c ->
    exists i pcc lcl cl lcb cb lcb',
      PM.find (key (a + (if Nat.leb (List.length cls) 1 then 0 else jump_length (N.of_nat k)))) (index_at im) = Some i /\
      (exists pca, PM.find pca (addr_of im) = Some (a + (if Nat.leb (List.length cls) 1 then 0 else jump_length (N.of_nat k)))) /\
      (forall s, exec_to im i s pcc s) /\
      (Nat.leb (List.length cls) 1 = true -> forall s, exec_to im pcl s pcc s) /\
      ld (cl_ctx c) lcl = Ok (cl, lcb) /\ xcs types (cl_body c) (bc (cl_ctx c)) lcb = Ok (cb, lcb') /\
      code_at im pcc (cl ++ cb) /\ labels_at_nh im pcc (cl ++ cb).
Proof.
  intros CA LA NH CC AL k c Hk.
  rewrite <- !app_assoc in CA, LA.
  destruct c as [[x cx] body].
  destruct (gclauses_nth types ld bc fresh _ _ _ _ k x cx body CC Hk) as (pre5 & lc0 & cl & lc1 & cb & lc2 & post5 & E5 & LD & BD & PRE0).
  cbn [cl_ctx cl_body fst snd] in *.
  assert (Lk : (k < List.length cls)%nat) by (apply nth_error_Some; congruence).
  set (tb := table_or_nil cls fresh) in *.
  set (lx := fresh +++ "_" +++ show_ident x) in *.
  assert (CODE : code_at im pcl ([LAB fresh] ++ tb ++ pre5 ++ [LAB lx] ++ (cl ++ cb) ++ post5)).
  { rewrite E5 in CA. repeat rewrite <- app_assoc in CA. repeat rewrite <- app_assoc. cbn [app] in *. exact CA. }
  assert (LABS : labels_at_nh im pcl ([LAB fresh] ++ tb ++ pre5 ++ [LAB lx] ++ (cl ++ cb) ++ post5)).
  { rewrite E5 in LA. repeat rewrite <- app_assoc in LA. repeat rewrite <- app_assoc. cbn [app] in *. exact LA. }
  set (jl := (1 + List.length tb + List.length pre5)%nat).
  assert (NL : nth_error ([LAB fresh] ++ tb ++ pre5 ++ [LAB lx] ++ (cl ++ cb) ++ post5) jl = Some (LAB lx)).
  { unfold jl. cbn [app Nat.add nth_error]. rewrite nth_error_app2 by lia. rewrite nth_error_app2 by lia.
    replace (_ - _ - _)%nat with O by lia. reflexivity. }
  pose proof (code_at_nth im pcl _ jl _ CODE NL) as CLx.
  pose proof (LABS jl _ NL (nh_sub_label fresh (show_ident x) NH)) as FLx.
  assert (CB : code_at im (padd pcl (S jl)) (cl ++ cb) /\ labels_at_nh im (padd pcl (S jl)) (cl ++ cb)).
  { pose proof CODE as CODE'. pose proof LABS as LABS'.
    replace ([LAB fresh] ++ tb ++ pre5 ++ [LAB lx] ++ (cl ++ cb) ++ post5)
      with (([LAB fresh] ++ tb ++ pre5 ++ [LAB lx]) ++ (cl ++ cb) ++ post5) in CODE', LABS'
      by (rewrite <- !app_assoc; reflexivity).
    apply code_at_app in CODE' as [_ CODE']. apply code_at_app in CODE' as [CODE' _].
    apply labels_at_nh_app in LABS' as [_ LABS']. apply labels_at_nh_app in LABS' as [LABS' _].
    replace (List.length ([LAB fresh] ++ tb ++ pre5 ++ [LAB lx])) with (S jl) in CODE', LABS'
      by (unfold jl; rewrite !app_length; cbn [List.length]; lia).
    auto. }
  destruct CB as [CB LB].
  assert (INTO : forall s, exec_to im (padd pcl jl) s (padd pcl (S jl)) s).
  { intros s. eapply exec_next; [exact CLx|reflexivity|]. rewrite <- padd_succ. apply exec_refl. }
  pose proof CODE as CODE0. apply code_at_cons in CODE0 as [C0 _].
  destruct (BACK pcl _ a C0 AL) as (i0 & IX0 & B0).
  destruct (Nat.leb (List.length cls) 1) eqn:LE.
  - (* at most one clause: the label of the dispatch is followed by the label of the clause *)
    assert (TB : tb = []) by (unfold tb, table_or_nil; now rewrite LE).
    assert (K0 : k = O) by (apply Nat.leb_le in LE; lia). subst k.
    assert (P5 : pre5 = []) by (apply PRE0; reflexivity).
    assert (J1 : jl = 1%nat) by (unfold jl; rewrite TB, P5; reflexivity).
    assert (DOWN : forall s, exec_to im pcl s (padd pcl (S jl)) s).
    { intros s. eapply exec_next; [exact C0|reflexivity|].
      specialize (INTO s). rewrite J1 in INTO. cbn [padd] in INTO. rewrite J1. cbn [padd]. exact INTO. }
    exists i0, (padd pcl (S jl)), lc0, cl, lc1, cb, lc2.
    split; [rewrite Z.add_0_r; exact IX0|]. split; [exists pcl; rewrite Z.add_0_r; exact AL|]. split; [intros s; eapply exec_to_trans; [apply B0|apply DOWN]|].
    split; [intros _; exact DOWN|]. repeat split; auto.
  - (* the jump table *)
    assert (TB : tb = code_table x86_backend cls fresh) by (unfold tb, table_or_nil; now rewrite LE).
    rewrite TB in CODE.
    assert (CJ : PM.find (padd pcl (1 + k)) (code im) = Some (JMPLN lx)).
    { apply CODE. cbn [app Nat.add nth_error]. rewrite nth_error_app1 by (rewrite code_table_length; lia).
      apply (code_table_nth cls fresh k (x, cx, body) Hk). }
    assert (FROM : forall s, exec_to im (padd pcl (1 + k)) s (padd pcl (S jl)) s).
    { intros s. eapply exec_jump; [exact CJ|cbn [step]; unfold goto_label; rewrite FLx; reflexivity|]. apply INTO. }
    destruct k as [|k].
    + exists i0, (padd pcl (S jl)), lc0, cl, lc1, cb, lc2.
      split; [unfold jump_length; cbn [N.of_nat Z.of_N]; rewrite Z.mul_0_r, Z.add_0_r; exact IX0|].
      split; [exists pcl; unfold jump_length; cbn [N.of_nat Z.of_N]; rewrite Z.mul_0_r, Z.add_0_r; exact AL|].
      split; [|split; [discriminate|repeat split; auto]].
      intros s. eapply exec_to_trans; [apply B0|]. eapply exec_next; [exact C0|reflexivity|]. apply (FROM s).
    + exists (padd pcl (1 + S k)), (padd pcl (S jl)), lc0, cl, lc1, cb, lc2.
      destruct (table_entry_k pcl fresh cls _ a CODE AL k Lk) as [TE1 TE2].
      split; [unfold jump_length; rewrite nat_N_Z; exact TE1|].
      split; [exists (padd pcl (1 + S k)); unfold jump_length; rewrite nat_N_Z; exact TE2|].
      split; [exact FROM|split; [discriminate|repeat split; auto]].
Qed.
End Layout.
