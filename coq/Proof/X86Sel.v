(* Instruction-selection lemmas for the x86-64 back end (L1 -> L2 of DESIGN.md C06): the code the
   MODEL of axcut2x86_64::code emits for one abstract operation, executed on the ISA semantics of
   Sem/X86Sem.v, has the abstract operation's effect for EVERY placement of target and operands in
   registers or spill slots and every register/memory contents, and changes nothing but the target,
   the scratch register rcx and the flags. *)
From Coq Require Import List ZArith NArith String Bool Lia FMapPositive.
From SCC Require Import Base.Sexp Lang.AxSyn Sem.AxSem Model.Backend Model.X86 Sem.X86Sem Generated.Constants Proof.X86State.
Import ListNotations.
Open Scope Z_scope.

Lemma STACK_is_0 : STACK = 0%N. Proof. reflexivity. Qed.
Lemma TEMP_is_1 : TEMP = 1%N. Proof. reflexivity. Qed.

Lemma ea_stack s sp p k : frame_ok s sp -> slot_ok p -> ea s STACK (stack_offset p) k = k (slot_addr sp p).
Proof.
  intros F P. destruct (slot_addr_facts sp p (proj2 F) P) as (_ & _ & _ & LE & _).
  destruct F as (H & _). unfold ea, need. rewrite STACK_is_0, H. fold (slot_addr sp p).
  destruct (in_stack (slot_addr sp p)); [|reflexivity].
  destruct (Z.ltb_spec (slot_addr sp p) sp); [lia|reflexivity].
Qed.

Section Steps.
Variable im : image.
Variables (s : xstate) (sp : Z).
Hypothesis F : frame_ok s sp.

Lemma step_MOV a b : step im (MOV a b) s = Next (rset s a (rget s b)).
Proof. reflexivity. Qed.
Lemma step_MOVL_slot a p : slot_ok p -> step im (MOVL a STACK (stack_offset p)) s = Next (rset s a (sget s sp p)).
Proof. intros P. cbn [step]. rewrite (ea_stack s sp) by (exact F || assumption). unfold withm. now rewrite mload_slot. Qed.
Lemma step_MOVS_slot a p : slot_ok p -> step im (MOVS a STACK (stack_offset p)) s = Next (sset s sp p (rget s a)).
Proof. intros P. cbn [step]. rewrite (ea_stack s sp) by (exact F || assumption). unfold withm. now rewrite mstore_slot. Qed.

Lemma step_arith_rr f a b x y :
  rget s a = Some x -> rget s b = Some y ->
  arith_rr f s a b = Next (set_flags (rset s a (Some (wrap (f x y)))) None).
Proof. intros A B. unfold arith_rr, need. now rewrite A, B. Qed.
Lemma step_arith_rm f a p x y :
  slot_ok p -> rget s a = Some x -> sget s sp p = Some y ->
  arith_rm f s a STACK (stack_offset p) = Next (set_flags (rset s a (Some (wrap (f x y)))) None).
Proof.
  intros P A B. unfold arith_rm, need. rewrite A, (ea_stack s sp) by (exact F || assumption). unfold withm.
  rewrite mload_slot by auto. now rewrite B.
Qed.
Lemma step_arith_mr f p b x y :
  slot_ok p -> sget s sp p = Some x -> rget s b = Some y ->
  arith_mr f s STACK (stack_offset p) b = Next (set_flags (sset s sp p (Some (wrap (f x y)))) None).
Proof.
  intros P A B. unfold arith_mr. rewrite (ea_stack s sp) by (exact F || assumption). unfold withm, need.
  rewrite mload_slot by auto. rewrite A, B. now rewrite mstore_slot.
Qed.
End Steps.

(* ---------- the helper functions of code.rs ---------- *)
Section Helpers.
Variable im : image.

Lemma move_to_register_ok s sp r t :
  frame_ok s sp -> loc_ok t ->
  exec_straight im (move_to_register r t) s = Some (rset s r (lget s sp t)).
Proof.
  intros F T. destruct t as [q|p]; cbn [move_to_register exec_straight lget].
  - reflexivity.
  - now rewrite (step_MOVL_slot im s sp F).
Qed.
Lemma move_from_register_ok s sp t r :
  frame_ok s sp -> loc_ok t ->
  exec_straight im (move_from_register t r) s = Some (lset s sp t (rget s r)).
Proof.
  intros F T. destruct t as [q|p]; cbn [move_from_register exec_straight lset].
  - reflexivity.
  - now rewrite (step_MOVS_slot im s sp F).
Qed.

(* the three families <op>_to_register / <op>_to_spill *)
Inductive aop := AAdd | ASub | AMul.
Definition aop_f (o : aop) : Z -> Z -> Z := match o with AAdd => Z.add | ASub => Z.sub | AMul => Z.mul end.
Definition to_register (o : aop) := match o with AAdd => add_to_register | ASub => sub_to_register | AMul => mul_to_register end.
Definition to_spill (o : aop) := match o with AAdd => add_to_spill | ASub => sub_to_spill | AMul => mul_to_spill end.

Lemma to_register_ok o s sp r t x y :
  frame_ok s sp -> loc_ok t -> rget s r = Some x -> lget s sp t = Some y ->
  exec_straight im (to_register o r t) s = Some (set_flags (rset s r (Some (wrap (aop_f o x y)))) None).
Proof.
  intros F T X Y. destruct t as [q|p]; cbn [lget] in Y; destruct o; cbn [to_register add_to_register sub_to_register mul_to_register exec_straight step aop_f].
  all: try (rewrite (step_arith_rr s _ _ _ x y X Y); reflexivity).
  all: rewrite (step_arith_rm s sp F _ _ _ x y T X Y); reflexivity.
Qed.

Lemma to_spill_ok o s sp q t x y :
  frame_ok s sp -> slot_ok q -> loc_ok t ->
  sget s sp q = Some x -> lget s sp t = Some y ->
  exec_straight im (to_spill o q t) s =
    Some (set_flags (sset (match t with XR _ => s | XS _ => rset s TEMP (Some y) end) sp q (Some (wrap (aop_f o x y)))) None).
Proof.
  intros F Q T X Y. destruct t as [r|p]; cbn [lget] in Y.
  - destruct o; cbn [to_spill add_to_spill sub_to_spill mul_to_spill exec_straight step aop_f];
      rewrite (step_arith_mr s sp F _ _ _ x y Q X Y); reflexivity.
  - assert (F1 : frame_ok (rset s TEMP (sget s sp p)) sp) by (apply frame_ok_rset; [discriminate|exact F]).
    destruct o; cbn [to_spill add_to_spill sub_to_spill mul_to_spill exec_straight aop_f];
      rewrite (step_MOVL_slot im s sp F) by exact T; cbn [step];
      rewrite (step_arith_mr _ sp F1 _ _ _ x y Q); rewrite ?sget_rset, ?rget_rset_same, ?Y; auto.
Qed.
End Helpers.

(* ---------- what "nothing else changes" means ---------- *)
Definition preserved (s s' : xstate) (sp : Z) (t : xtemp) : Prop :=
  (forall l, loc_ok l -> l <> t -> l <> XR TEMP -> lget s' sp l = lget s sp l) /\
  heap s' = heap s /\ out s' = out s /\ frame_ok s' sp.

Lemma xtemp_eqb_spec a b : reflect (a = b) (xtemp_eqb a b).
Proof.
  destruct a as [x|x], b as [y|y]; cbn; try (constructor; congruence);
    destruct (N.eqb_spec x y); constructor; congruence.
Qed.

(* reading a location through a chain of writes *)
Ltac rd :=
  repeat (cbn [lget lset];
    first [ rewrite rget_set_flags | rewrite sget_set_flags | rewrite rget_sset | rewrite sget_rset
          | rewrite rget_rset_same | rewrite sget_sset_same
          | rewrite rget_rset_other by congruence
          | rewrite sget_sset_other by (first [assumption | congruence]) ]).
Ltac locs :=
  first [ assumption | (apply not_eq_sym; assumption) | (cbn; congruence) | congruence
        | (cbn; intro; congruence) ].
Ltac frame :=
  repeat first [ apply frame_ok_set_flags | apply frame_ok_sset | apply frame_ok_rset; [first [congruence | (vm_compute; congruence)]|] | assumption ].
Ltac pres :=
  split; [ let l := fresh "l" in let L := fresh "L" in intros l L ? ?; destruct l; cbn [loc_ok] in L; rd; reflexivity
         | split; [reflexivity | split; [reflexivity | frame]] ].

Section Arith.
Variable im : image.

(* add / mul (op_commutative) and sub: target t, operands s1 s2 anywhere, any aliasing *)
Theorem x86_op_commutative_ok o s sp t s1 s2 a b :
  o <> ASub ->
  frame_ok s sp -> loc_ok t -> loc_ok s1 -> loc_ok s2 ->
  t <> XR TEMP -> s1 <> XR TEMP -> s2 <> XR TEMP ->
  lget s sp s1 = Some a -> lget s sp s2 = Some b ->
  exists s', exec_straight im (op_commutative (to_register o) (to_spill o) t s1 s2) s = Some s' /\
             lget s' sp t = Some (wrap (aop_f o a b)) /\ preserved s s' sp t.
Proof.
  intros Ho F T S1 S2 NT N1 N2 A B.
  assert (SP : sp_ok sp) by apply F.
  assert (COMM : forall x y, aop_f o x y = aop_f o y x) by (destruct o; cbn; intros; try lia; congruence).
  unfold op_commutative. destruct t as [tr|tp]; cbn [loc_ok] in T.
  - destruct (xtemp_eqb_spec (XR tr) s1) as [E1|E1]; [|destruct (xtemp_eqb_spec (XR tr) s2) as [E2|E2]].
    + subst s1. cbn [lget] in A. rewrite (to_register_ok im o s sp tr s2 a b F S2 A B).
      eexists; split; [reflexivity|]. split; [rd; reflexivity|pres].
    + subst s2. cbn [lget] in B. rewrite (to_register_ok im o s sp tr s1 b a F S1 B A).
      eexists; split; [reflexivity|]. split; [rd; now rewrite COMM|pres].
    + rewrite exec_straight_app, (move_to_register_ok im s sp tr s1 F S1).
      assert (F1 : frame_ok (rset s tr (lget s sp s1)) sp) by frame.
      assert (B1 : lget (rset s tr (lget s sp s1)) sp s2 = Some b).
      { rewrite <- B. apply (lget_lset_other s sp (XR tr)); auto. }
      rewrite (to_register_ok im o _ sp tr s2 a b F1 S2); [|now rewrite rget_rset_same|exact B1].
      eexists; split; [reflexivity|]. split; [rd; reflexivity|pres].
  - destruct (xtemp_eqb_spec (XS tp) s1) as [E1|E1]; [|destruct (xtemp_eqb_spec (XS tp) s2) as [E2|E2]].
    + subst s1. cbn [lget] in A. rewrite (to_spill_ok im o s sp tp s2 a b F T S2 A B).
      eexists; split; [reflexivity|]. split; [rd; reflexivity|].
      destruct s2; pres.
    + subst s2. cbn [lget] in B. rewrite (to_spill_ok im o s sp tp s1 b a F T S1 B A).
      eexists; split; [reflexivity|]. split; [rd; now rewrite COMM|].
      destruct s1; pres.
    + rewrite exec_straight_app, (move_to_register_ok im s sp TEMP s1 F S1), exec_straight_app.
      assert (F1 : frame_ok (rset s TEMP (lget s sp s1)) sp) by frame.
      assert (B1 : lget (rset s TEMP (lget s sp s1)) sp s2 = Some b).
      { rewrite <- B. apply (lget_lset_other s sp (XR TEMP)); auto. cbn; discriminate. }
      rewrite (to_register_ok im o _ sp TEMP s2 a b F1 S2); [|now rewrite rget_rset_same|exact B1].
      cbn [exec_straight]. rewrite (step_MOVS_slot im _ sp) by (frame || exact T).
      eexists; split; [reflexivity|]. split; [rd; reflexivity|pres].
Qed.

Theorem x86_sub_ok s sp t s1 s2 a b :
  frame_ok s sp -> loc_ok t -> loc_ok s1 -> loc_ok s2 ->
  t <> XR TEMP -> s1 <> XR TEMP -> s2 <> XR TEMP ->
  lget s sp s1 = Some a -> lget s sp s2 = Some b ->
  exists s', exec_straight im (sub t s1 s2) s = Some s' /\
             lget s' sp t = Some (wrap (a - b)) /\ preserved s s' sp t.
Proof.
  intros F T S1 S2 NT N1 N2 A B.
  assert (SP : sp_ok sp) by apply F.
  unfold sub. change sub_to_register with (to_register ASub). change sub_to_spill with (to_spill ASub).
  destruct t as [tr|tp]; cbn [loc_ok] in T.
  - destruct (xtemp_eqb_spec (XR tr) s1) as [E1|E1]; [|destruct (xtemp_eqb_spec (XR tr) s2) as [E2|E2]].
    + subst s1. cbn [lget] in A. rewrite (to_register_ok im ASub s sp tr s2 a b F S2 A B).
      eexists; split; [reflexivity|]. split; [rd; reflexivity|pres].
    + subst s2. cbn [lget] in B.
      rewrite exec_straight_app, (move_to_register_ok im s sp TEMP s1 F S1), exec_straight_app.
      assert (F1 : frame_ok (rset s TEMP (lget s sp s1)) sp) by frame.
      rewrite (to_register_ok im ASub _ sp TEMP (XR tr) a b F1 S2);
        [|now rewrite rget_rset_same|cbn [lget]; rewrite rget_rset_other by congruence; exact B].
      cbn [exec_straight step].
      eexists; split; [reflexivity|]. split; [rd; reflexivity|pres].
    + rewrite exec_straight_app, (move_to_register_ok im s sp tr s1 F S1).
      assert (F1 : frame_ok (rset s tr (lget s sp s1)) sp) by frame.
      assert (B1 : lget (rset s tr (lget s sp s1)) sp s2 = Some b).
      { rewrite <- B. apply (lget_lset_other s sp (XR tr)); auto. }
      rewrite (to_register_ok im ASub _ sp tr s2 a b F1 S2); [|now rewrite rget_rset_same|exact B1].
      eexists; split; [reflexivity|]. split; [rd; reflexivity|pres].
  - destruct (xtemp_eqb_spec (XS tp) s1) as [E1|E1].
    + subst s1. cbn [lget] in A. rewrite (to_spill_ok im ASub s sp tp s2 a b F T S2 A B).
      eexists; split; [reflexivity|]. split; [rd; reflexivity|].
      destruct s2; pres.
    + rewrite exec_straight_app, (move_to_register_ok im s sp TEMP s1 F S1), exec_straight_app.
      assert (F1 : frame_ok (rset s TEMP (lget s sp s1)) sp) by frame.
      assert (B1 : lget (rset s TEMP (lget s sp s1)) sp s2 = Some b).
      { rewrite <- B. apply (lget_lset_other s sp (XR TEMP)); auto. cbn; discriminate. }
      rewrite (to_register_ok im ASub _ sp TEMP s2 a b F1 S2); [|now rewrite rget_rset_same|exact B1].
      cbn [exec_straight]. rewrite (step_MOVS_slot im _ sp) by (frame || exact T).
      eexists; split; [reflexivity|]. split; [rd; reflexivity|pres].
Qed.

(* mov between any two temporaries (the instruction the parallel-move code is made of) *)
Theorem x86_mov_ok s sp t src :
  frame_ok s sp -> loc_ok t -> loc_ok src -> t <> XR TEMP -> src <> XR TEMP ->
  exists s', exec_straight im (x_mov t src) s = Some s' /\
             lget s' sp t = lget s sp src /\ preserved s s' sp t.
Proof.
  intros F T S NT NS. assert (SP : sp_ok sp) by apply F.
  unfold x_mov. destruct src as [sr|sq]; [|destruct t as [tr|tq]].
  - rewrite (move_from_register_ok im s sp t sr F T).
    eexists; split; [reflexivity|]. split; [apply lget_lset_same|].
    destruct t; cbn [loc_ok] in T; pres.
  - rewrite (move_to_register_ok im s sp tr (XS sq) F S).
    eexists; split; [reflexivity|]. split; [rd; reflexivity|]. cbn [loc_ok] in T. pres.
  - rewrite exec_straight_app, (move_to_register_ok im s sp TEMP (XS sq) F S).
    assert (F1 : frame_ok (rset s TEMP (lget s sp (XS sq))) sp) by frame.
    rewrite (move_from_register_ok im _ sp (XS tq) TEMP F1 T).
    eexists; split; [reflexivity|]. split; [rd; reflexivity|]. cbn [loc_ok] in T, S. pres.
Qed.

(* literals: every 64-bit value, register or spill target *)
Theorem x86_load_immediate_ok s sp t i :
  frame_ok s sp -> loc_ok t -> t <> XR TEMP ->
  exists s', exec_straight im (x_load_immediate t i) s = Some s' /\
             lget s' sp t = Some i /\ preserved s s' sp t.
Proof.
  intros F T NT. assert (SP : sp_ok sp) by apply F.
  unfold x_load_immediate. destruct t as [tr|tp]; cbn [loc_ok] in T.
  - cbn [exec_straight step]. eexists; split; [reflexivity|]. split; [rd; reflexivity|pres].
  - destruct (fits_i32 i) eqn:FI.
    + cbn [exec_straight step]. replace (fits32 i) with true by (symmetry; exact FI).
      rewrite (ea_stack s sp) by (exact F || assumption). unfold withm. rewrite mstore_slot by auto.
      eexists; split; [reflexivity|]. split; [rd; reflexivity|pres].
    + cbn [exec_straight]. change (step im (MOVI TEMP i) s) with (Next (rset s TEMP (Some i))). cbv iota beta.
      rewrite (step_MOVS_slot im _ sp) by (frame || exact T).
      eexists; split; [reflexivity|]. split; [rd; reflexivity|pres].
Qed.

(* comparison followed by a conditional jump: branches exactly when the AxCut comparison holds *)
Theorem x86_compare_ok s sp t1 t2 a b :
  frame_ok s sp -> loc_ok t1 -> loc_ok t2 -> t1 <> XR TEMP -> t2 <> XR TEMP ->
  lget s sp t1 = Some a -> lget s sp t2 = Some b ->
  exists s', exec_straight im (compare t1 t2) s = Some s' /\ flags s' = Some (a, b) /\
             (forall l, loc_ok l -> l <> XR TEMP -> lget s' sp l = lget s sp l) /\
             heap s' = heap s /\ out s' = out s /\ frame_ok s' sp.
Proof.
  intros F T1 T2 N1 N2 A B. assert (SP : sp_ok sp) by apply F.
  destruct t1 as [r1|p1], t2 as [r2|p2]; cbn [lget loc_ok] in *; cbn [compare exec_straight];
    [cbn [step] | cbn [step] | cbn [step] | ].
  - unfold need. rewrite A, B. eexists; split; [reflexivity|]. repeat split; try reflexivity; try apply F.
  - unfold need. rewrite A, (ea_stack s sp) by (exact F || assumption). unfold withm. rewrite mload_slot by auto. rewrite B.
    eexists; split; [reflexivity|]. repeat split; try reflexivity; try apply F.
  - rewrite (ea_stack s sp) by (exact F || assumption). unfold withm, need. rewrite mload_slot by auto. rewrite A, B.
    eexists; split; [reflexivity|]. repeat split; try reflexivity; try apply F.
  - rewrite (step_MOVL_slot im s sp F) by exact T1.
    assert (F1 : frame_ok (rset s TEMP (sget s sp p1)) sp) by frame.
    rewrite A in *. cbn [step]. unfold need. rewrite rget_rset_same, (ea_stack _ sp) by (exact F1 || assumption). unfold withm.
    rewrite mload_slot by auto. rewrite sget_rset, B.
    eexists; split; [reflexivity|]. split; [reflexivity|].
    split; [|split; [reflexivity|split; [reflexivity|frame]]].
    intros l L NL. destruct l; cbn [loc_ok] in L; rd; reflexivity.
Qed.
Theorem x86_compare_zero_ok s sp t a :
  frame_ok s sp -> loc_ok t -> lget s sp t = Some a ->
  exec_straight im (compare_immediate t 0) s = Some (set_flags s (Some (a, 0))).
Proof.
  intros F T A. destruct t as [r|p]; cbn [lget loc_ok] in *; cbn [compare_immediate exec_straight step].
  - unfold need. cbn [fits32 Z.leb Z.compare andb]. now rewrite A.
  - cbn [fits32 Z.leb Z.compare andb]. rewrite (ea_stack s sp) by (exact F || assumption). unfold withm, need.
    rewrite mload_slot by auto. now rewrite A.
Qed.
Lemma x86_jcc_step sort l s x y :
  flags s = Some (x, y) ->
  step im (jcc sort l) s = if eval_cmp sort x y then goto_label im s l else Next s.
Proof. intros H. destruct sort; cbn [jcc step]; unfold cond_jump; now rewrite H. Qed.

(* division and remainder: dividend through rax, rdx backed up in rcx, a divisor living in rdx
   redirected to rcx; rax and rdx are restored *)
Definition divisor_loc (s2 : xtemp) : xtemp :=
  match s2 with XR r => if N.eqb r RETURN2 then XR TEMP else s2 | XS _ => s2 end.

Lemma R4 : RETURN1 = 4%N. Proof. reflexivity. Qed.
Lemma R5 : RETURN2 = 5%N. Proof. reflexivity. Qed.
Lemma R1 : TEMP = 1%N. Proof. reflexivity. Qed.

Lemma div_core_ok s sp s2 a b :
  frame_ok s sp -> loc_ok s2 -> s2 <> XR 4%N ->
  rget s 4%N = Some a -> lget s sp (divisor_loc s2) = Some b ->
  b <> 0 -> ~ (a = min_int /\ b = -1) ->
  exec_straight im (div_core s2) s =
    Some (set_flags (rset (rset (rset s 5%N (Some (if a <? 0 then -1 else 0))) 4%N (Some (Z.quot a b)))
                          5%N (Some (Z.rem a b))) None).
Proof.
  intros F S2 N4 A B NZ NO.
  assert (Hz : (b =? 0) = false) by (apply Z.eqb_neq; exact NZ).
  assert (Ho : ((a =? min_int) && (b =? -1)) = false).
  { destruct (Z.eqb_spec a min_int), (Z.eqb_spec b (-1)); cbn; auto. exfalso; apply NO; auto. }
  assert (A' : rget (rset s 5%N (Some (if a <? 0 then -1 else 0))) 4%N = Some a)
    by (rewrite rget_rset_other by congruence; exact A).
  assert (D' : rget (rset s 5%N (Some (if a <? 0 then -1 else 0))) 5%N = Some (if a <? 0 then -1 else 0))
    by apply rget_rset_same.
  unfold div_core, divisor_loc in *. rewrite ?R5, ?R1 in *. destruct s2 as [r|p]; cbn [lget loc_ok] in *.
  - destruct (N.eqb_spec r 5%N) as [->|NE]; cbn [lget] in B; cbn [exec_straight step]; unfold need.
    + rewrite A. cbv iota beta. rewrite A', D'. cbv iota beta.
      rewrite rget_rset_other by congruence. rewrite B. cbv iota beta.
      rewrite Z.eqb_refl, Hz, Ho. reflexivity.
    + rewrite A. cbv iota beta. rewrite A', D'. cbv iota beta.
      rewrite rget_rset_other by congruence. rewrite B. cbv iota beta.
      rewrite Z.eqb_refl, Hz, Ho. reflexivity.
  - cbn [exec_straight step]; unfold need.
    rewrite A. cbv iota beta. rewrite A', D'. cbv iota beta.
    assert (F1 : frame_ok (rset s 5%N (Some (if a <? 0 then -1 else 0))) sp) by frame.
    rewrite (ea_stack _ sp) by (exact F1 || assumption). unfold withm. rewrite mload_slot by auto.
    rewrite sget_rset, B. cbv iota beta. rewrite Z.eqb_refl, Hz, Ho. reflexivity.
Qed.

Definition div_pre (t s1 s2 : xtemp) : Prop :=
  loc_ok t /\ loc_ok s1 /\ loc_ok s2 /\
  t <> XR TEMP /\ t <> XR RETURN1 /\ t <> XR RETURN2 /\ t <> s1 /\ t <> s2 /\
  s1 <> XR TEMP /\ s1 <> XR RETURN1 /\ s2 <> XR TEMP /\ s2 <> XR RETURN1.

Theorem x86_div_rem_ok (is_rem : bool) s sp t s1 s2 a b :
  frame_ok s sp -> div_pre t s1 s2 ->
  lget s sp s1 = Some a -> lget s sp s2 = Some b ->
  b <> 0 -> ~ (a = min_int /\ b = -1) ->
  exists s', exec_straight im (if is_rem then x_rem t s1 s2 else x_div t s1 s2) s = Some s' /\
             lget s' sp t = Some (if is_rem then Z.rem a b else Z.quot a b) /\ preserved s s' sp t.
Proof.
  intros F PRE A B NZ NO. unfold div_pre, preserved in *. rewrite ?R4, ?R5, ?R1 in *.
  destruct PRE as (T & S1 & S2 & NT1 & NT4 & NT5 & NTS1 & NTS2 & N11 & N14 & N21 & N24).
  assert (SP : sp_ok sp) by apply F.
  (* 1: rcx := rdx *)
  set (st1 := rset s 1%N (rget s 5%N)).
  assert (F1 : frame_ok st1 sp) by (subst st1; frame).
  (* 2: t := rax *)
  set (st2 := lset st1 sp t (rget st1 4%N)).
  assert (F2 : frame_ok st2 sp) by (subst st2; apply frame_ok_lset; locs).
  (* 3: rax := s1 *)
  set (st3 := rset st2 4%N (lget st2 sp s1)).
  assert (F3 : frame_ok st3 sp) by (subst st3; frame).
  assert (A3 : rget st3 4%N = Some a).
  { subst st3. rewrite rget_rset_same. subst st2. rewrite (lget_lset_other st1 sp t s1) by locs.
    subst st1. rewrite <- A. apply (lget_lset_other s sp (XR 1%N)); locs. }
  assert (B3 : lget st3 sp (divisor_loc s2) = Some b).
  { unfold divisor_loc. rewrite ?R5, ?R1. destruct s2 as [r|p].
    - destruct (N.eqb_spec r 5%N) as [->|NE].
      + subst st3 st2. cbn [lget]. rewrite rget_rset_other by congruence.
        change (rget (lset st1 sp t (rget st1 4%N)) 1%N) with (lget (lset st1 sp t (rget st1 4%N)) sp (XR 1%N)).
        rewrite lget_lset_other by locs. subst st1. cbn [lget]. rewrite rget_rset_same. exact B.
      + subst st3 st2. cbn [lget]. rewrite rget_rset_other by congruence.
        change (rget (lset st1 sp t (rget st1 4%N)) r) with (lget (lset st1 sp t (rget st1 4%N)) sp (XR r)).
        rewrite lget_lset_other by locs. subst st1. cbn [lget]. rewrite rget_rset_other by congruence. exact B.
    - subst st3 st2. cbn [lget]. rewrite sget_rset.
      change (sget (lset st1 sp t (rget st1 4%N)) sp p) with (lget (lset st1 sp t (rget st1 4%N)) sp (XS p)).
      rewrite lget_lset_other by locs. subst st1. cbn [lget]. rewrite sget_rset. exact B. }
  (* 4: the division *)
  set (st4 := set_flags (rset (rset (rset st3 5%N (Some (if a <? 0 then -1 else 0))) 4%N (Some (Z.quot a b)))
                              5%N (Some (Z.rem a b))) None).
  assert (D4 : exec_straight im (div_core s2) st3 = Some st4) by (apply (div_core_ok st3 sp s2 a b); locs).
  assert (F4 : frame_ok st4 sp) by (subst st4; frame).
  (* what t holds after the division: still the old rax *)
  assert (T4 : lget st4 sp t = rget s 4%N).
  { subst st4. rewrite lget_set_flags.
    change (lget (rset (rset (rset st3 5%N ?x) 4%N ?y) 5%N ?z) sp t)
      with (lget (lset (lset (lset st3 sp (XR 5%N) x) sp (XR 4%N) y) sp (XR 5%N) z) sp t).
    rewrite !lget_lset_other by locs.
    subst st3. change (rset st2 4%N ?x) with (lset st2 sp (XR 4%N) x).
    rewrite lget_lset_other by locs. subst st2. rewrite lget_lset_same.
    subst st1. apply rget_rset_other; congruence. }
  destruct is_rem.
  - (* rem *)
    unfold x_rem. rewrite ?R4, ?R5, ?R1. cbn [app exec_straight].
    change (step im (MOV 1%N 5%N) s) with (Next st1). cbv iota beta.
    rewrite exec_straight_app, (move_from_register_ok im st1 sp t 4%N F1 T). fold st2. cbv iota beta.
    rewrite exec_straight_app, (move_to_register_ok im st2 sp 4%N s1 F2 S1). fold st3. cbv iota beta.
    rewrite exec_straight_app, D4. cbv iota beta.
    rewrite exec_straight_app, (move_to_register_ok im st4 sp 4%N t F4 T). cbv iota beta.
    set (st5 := rset st4 4%N (lget st4 sp t)).
    assert (F5 : frame_ok st5 sp) by (subst st5; frame).
    rewrite exec_straight_app, (move_from_register_ok im st5 sp t 5%N F5 T). cbv iota beta.
    set (st6 := lset st5 sp t (rget st5 5%N)).
    cbn [exec_straight]. change (step im (MOV 5%N 1%N) st6) with (Next (rset st6 5%N (rget st6 1%N))).
    cbv iota beta. eexists; split; [reflexivity|].
    assert (V6 : rget st5 5%N = Some (Z.rem a b)).
    { subst st5. rewrite rget_rset_other by congruence. subst st4. rewrite rget_set_flags. apply rget_rset_same. }
    split.
    + change (rset st6 5%N ?x) with (lset st6 sp (XR 5%N) x).
      rewrite lget_lset_other by locs. subst st6. rewrite lget_lset_same. exact V6.
    + split; [|split; [|split]].
      * intros l L NL NLT.
        destruct (xtemp_eqb_spec l (XR 5%N)) as [->|N5].
        { cbn [lget]. rewrite rget_rset_same. subst st6.
          change (rget (lset st5 sp t ?x) 1%N) with (lget (lset st5 sp t x) sp (XR 1%N)).
          rewrite lget_lset_other by locs. subst st5 st4. cbn [lget].
          rewrite rget_rset_other, rget_set_flags by congruence. rewrite !rget_rset_other by congruence.
          subst st3. rewrite rget_rset_other by congruence.
          change (rget st2 1%N) with (lget st2 sp (XR 1%N)). subst st2.
          rewrite lget_lset_other by locs. subst st1. cbn [lget]. apply rget_rset_same. }
        change (rset st6 5%N ?x) with (lset st6 sp (XR 5%N) x).
        rewrite lget_lset_other by locs. subst st6. rewrite lget_lset_other by locs.
        destruct (xtemp_eqb_spec l (XR 4%N)) as [->|N4].
        { subst st5. cbn [lget]. rewrite rget_rset_same. exact T4. }
        subst st5. change (rset st4 4%N ?x) with (lset st4 sp (XR 4%N) x).
        rewrite lget_lset_other by locs. subst st4. rewrite lget_set_flags.
        change (lget (rset (rset (rset st3 5%N ?x) 4%N ?y) 5%N ?z) sp l)
          with (lget (lset (lset (lset st3 sp (XR 5%N) x) sp (XR 4%N) y) sp (XR 5%N) z) sp l).
        rewrite !lget_lset_other by locs.
        subst st3. change (rset st2 4%N ?x) with (lset st2 sp (XR 4%N) x).
        rewrite lget_lset_other by locs. subst st2. rewrite lget_lset_other by locs.
        subst st1. apply (lget_lset_other s sp (XR 1%N)); locs.
      * cbn [heap rset]. subst st6. rewrite heap_lset. subst st5 st4 st3. cbn [heap rset set_flags].
        subst st2. rewrite heap_lset. reflexivity.
      * cbn [out rset]. subst st6. rewrite out_lset. subst st5 st4 st3. cbn [out rset set_flags].
        subst st2. rewrite out_lset. reflexivity.
      * apply frame_ok_rset; [congruence|]. subst st6. apply frame_ok_lset; locs.
  - (* div *)
    unfold x_div. rewrite ?R4, ?R5, ?R1. cbn [app exec_straight].
    change (step im (MOV 1%N 5%N) s) with (Next st1). cbv iota beta.
    rewrite exec_straight_app, (move_from_register_ok im st1 sp t 4%N F1 T). fold st2. cbv iota beta.
    rewrite exec_straight_app, (move_to_register_ok im st2 sp 4%N s1 F2 S1). fold st3. cbv iota beta.
    rewrite exec_straight_app, D4. cbv iota beta. cbn [app exec_straight].
    change (step im (MOV 5%N 4%N) st4) with (Next (rset st4 5%N (rget st4 4%N))). cbv iota beta.
    set (st4' := rset st4 5%N (rget st4 4%N)).
    assert (F4' : frame_ok st4' sp) by (subst st4'; frame).
    assert (T4' : lget st4' sp t = rget s 4%N).
    { subst st4'. change (rset st4 5%N ?x) with (lset st4 sp (XR 5%N) x).
      rewrite lget_lset_other by locs. exact T4. }
    rewrite exec_straight_app, (move_to_register_ok im st4' sp 4%N t F4' T). cbv iota beta.
    set (st5 := rset st4' 4%N (lget st4' sp t)).
    assert (F5 : frame_ok st5 sp) by (subst st5; frame).
    rewrite exec_straight_app, (move_from_register_ok im st5 sp t 5%N F5 T). cbv iota beta.
    set (st6 := lset st5 sp t (rget st5 5%N)).
    cbn [exec_straight]. change (step im (MOV 5%N 1%N) st6) with (Next (rset st6 5%N (rget st6 1%N))).
    cbv iota beta. eexists; split; [reflexivity|].
    assert (V6 : rget st5 5%N = Some (Z.quot a b)).
    { subst st5. rewrite rget_rset_other by congruence. subst st4'. rewrite rget_rset_same.
      subst st4. rewrite rget_set_flags. rewrite rget_rset_other by congruence. apply rget_rset_same. }
    split.
    + change (rset st6 5%N ?x) with (lset st6 sp (XR 5%N) x).
      rewrite lget_lset_other by locs. subst st6. rewrite lget_lset_same. exact V6.
    + split; [|split; [|split]].
      * intros l L NL NLT.
        destruct (xtemp_eqb_spec l (XR 5%N)) as [->|N5].
        { cbn [lget]. rewrite rget_rset_same. subst st6.
          change (rget (lset st5 sp t ?x) 1%N) with (lget (lset st5 sp t x) sp (XR 1%N)).
          rewrite lget_lset_other by locs. subst st5 st4' st4. cbn [lget].
          rewrite !rget_rset_other by congruence. rewrite rget_set_flags. rewrite !rget_rset_other by congruence.
          subst st3. rewrite rget_rset_other by congruence.
          change (rget st2 1%N) with (lget st2 sp (XR 1%N)). subst st2.
          rewrite lget_lset_other by locs. subst st1. cbn [lget]. apply rget_rset_same. }
        change (rset st6 5%N ?x) with (lset st6 sp (XR 5%N) x).
        rewrite lget_lset_other by locs. subst st6. rewrite lget_lset_other by locs.
        destruct (xtemp_eqb_spec l (XR 4%N)) as [->|N4].
        { subst st5. cbn [lget]. rewrite rget_rset_same. exact T4'. }
        subst st5. change (rset st4' 4%N ?x) with (lset st4' sp (XR 4%N) x).
        rewrite lget_lset_other by locs.
        subst st4'. change (rset st4 5%N ?x) with (lset st4 sp (XR 5%N) x).
        rewrite lget_lset_other by locs. subst st4. rewrite lget_set_flags.
        change (lget (rset (rset (rset st3 5%N ?x) 4%N ?y) 5%N ?z) sp l)
          with (lget (lset (lset (lset st3 sp (XR 5%N) x) sp (XR 4%N) y) sp (XR 5%N) z) sp l).
        rewrite !lget_lset_other by locs.
        subst st3. change (rset st2 4%N ?x) with (lset st2 sp (XR 4%N) x).
        rewrite lget_lset_other by locs. subst st2. rewrite lget_lset_other by locs.
        subst st1. apply (lget_lset_other s sp (XR 1%N)); locs.
      * cbn [heap rset]. subst st6. rewrite heap_lset. subst st5 st4' st4 st3. cbn [heap rset set_flags].
        subst st2. rewrite heap_lset. reflexivity.
      * cbn [out rset]. subst st6. rewrite out_lset. subst st5 st4' st4 st3. cbn [out rset set_flags].
        subst st2. rewrite out_lset. reflexivity.
      * apply frame_ok_rset; [congruence|]. subst st6. apply frame_ok_lset; locs.
Qed.

(* all five operators at once, against the AxCut meaning eval_op *)
Theorem x86_arith_ok o s sp t s1 s2 a b v :
  frame_ok s sp -> div_pre t s1 s2 ->
  lget s sp s1 = Some a -> lget s sp s2 = Some b -> eval_op o a b = OpVal v ->
  exists s', exec_straight im (x_arith o t s1 s2) s = Some s' /\
             lget s' sp t = Some v /\ preserved s s' sp t.
Proof.
  intros F PRE A B E.
  pose proof PRE as (T & S1 & S2 & NT1 & NT4 & NT5 & NTS1 & NTS2 & N11 & N14 & N21 & N24).
  destruct o; cbn [x_arith eval_op] in *.
  - destruct (Z.eqb_spec b 0) as [|NZ]; [discriminate|].
    destruct (Z.eqb_spec a min_int) as [Ea|Na], (Z.eqb_spec b (-1)) as [Eb|Nb]; cbn [andb] in E; try discriminate;
      injection E as <-; apply (x86_div_rem_ok false); auto; tauto.
  - injection E as <-. apply (x86_op_commutative_ok AMul); auto; discriminate.
  - destruct (Z.eqb_spec b 0) as [|NZ]; [discriminate|].
    destruct (Z.eqb_spec a min_int) as [Ea|Na], (Z.eqb_spec b (-1)) as [Eb|Nb]; cbn [andb] in E; try discriminate;
      injection E as <-; apply (x86_div_rem_ok true); auto; tauto.
  - injection E as <-. apply (x86_op_commutative_ok AAdd); auto; discriminate.
  - injection E as <-. apply x86_sub_ok; auto.
Qed.
End Arith.
