(* Proof/AxToLin.v (property C12): the checker for non-linear AxCut that is run on the output of
   shrinking (Sem/AxCheck.v: check_prog / wt_ax) against the hypothesis of the linearization theorem
   (Model/LinCheck.v: prog_ok).

     prog_ok p  =  for every definition:  ax_check (typing, non-linear discipline)
                                          /\ binders GLOBALLY pairwise distinct (and distinct from the parameters)
                                          /\ every parameter/binder id <= max_id
     wt_ax p    =  typing (a superset of ax_check's demands: also declared parameter types, distinct
                   definition/type/xtor names, clause order diagnosed separately, lifted definitions closed)
                   /\ binders fresh along every PATH (two branches may bind the same id)
                   and it ACCEPTS explicit substitutions and annotated closure environments, which
                   ax_check rejects / ignores.

   Theorem wt_ax_prog_ok:  wt_ax p, no Substitute and no annotated environment (pre_linear: what
   shrinking emits), globally distinct bounded binders (binders_ok)  ==>  prog_ok p.
   The binder condition is NOT implied by wt_ax: wt_ax_not_prog_ok (two branches binding the same id). *)
From Coq Require Import List ZArith NArith String Bool Lia.
From SCC Require Import Base.Sexp Lang.AxSyn Model.Linearize.
From SCC Require Sem.AxCheck.
From SCC Require Import Model.LinCheck Model.WtDefs Proof.LinBasics.
Import ListNotations.
Open Scope list_scope.

Lemma seq_none {X} (a b : option X) : match a with None => b | Some e => Some e end = None -> a = None /\ b = None.
Proof. destruct a; [discriminate|auto]. Qed.
Lemma ensure_none b m : AxCheck.ensure b m = None -> b = true.
Proof. destruct b; [reflexivity|discriminate]. Qed.
Ltac seqs H :=
  repeat match type of H with
         | match ?a with None => _ | Some e => Some e end = None =>
             let H1 := fresh "E" in apply seq_none in H; destruct H as [H1 H];
             try (apply ensure_none in H1)
         end.

Lemma lookup_same G x : AxCheck.lookup_b G x = lookup_b G x.
Proof.
  unfold lookup_b. induction G as [|b r IH]; cbn [AxCheck.lookup_b find]; [reflexivity|].
  destruct (N.eqb (idn (bvar b)) x); [reflexivity|exact IH].
Qed.
Lemma bound_has G x c t : AxCheck.bound G x c t = None -> has G x c t = true.
Proof.
  unfold AxCheck.bound, has. rewrite lookup_same. destruct (lookup_b G (idn x)) as [b|]; [|discriminate].
  apply ensure_none.
Qed.
Lemma args_ok_sig what G : forall args sig,
  AxCheck.args_ok what G args sig = None -> sig_match args sig = true /\ forallb (has_b G) args = true.
Proof.
  induction args as [|a ar IH]; intros [|s sr] H; cbn [AxCheck.args_ok] in H; try discriminate; [split; reflexivity|].
  seqs H. destruct (IH _ H) as [I1 I2]. cbn [sig_match forallb]. unfold kt_eqb, AxCheck.same_sig in *.
  rewrite E, I1, I2. unfold has_b. rewrite (bound_has _ _ _ _ E0). split; reflexivity.
Qed.
Lemma params_ok_sig what : forall ps sig, AxCheck.params_ok what ps sig = None -> sig_match ps sig = true.
Proof.
  induction ps as [|a ar IH]; intros [|s sr] H; cbn [AxCheck.params_ok] in H; try discriminate; [reflexivity|].
  seqs H. cbn [sig_match]. unfold kt_eqb, AxCheck.same_sig in *. rewrite E, (IH _ H). reflexivity.
Qed.

Section S.
Variable ts : list tydecl.
Variable ds : list def.
Let S : sigs := mks (map (fun d => (dname d, dctx d)) ds) ts.

Lemma type_of_xtors what t d :
  AxCheck.type_of ts what t = (None, Some d) -> type_xtors S t = Some (txtors d).
Proof.
  unfold AxCheck.type_of, type_xtors, AxCheck.find_type. destruct t as [|n]; [discriminate|]. cbn [sg_types S].
  destruct (find (fun t => ident_eqb (tname t) n) ts) as [d'|]; [|discriminate].
  intros H; inversion H; reflexivity.
Qed.
Lemma find_xtor_lookup what t d tag sg :
  AxCheck.type_of ts what t = (None, Some d) -> AxCheck.find_xtor d tag = Some sg ->
  lookup_xtor S t tag = Some (xargs sg).
Proof.
  intros T F. unfold lookup_xtor. rewrite (type_of_xtors _ _ _ T). unfold AxCheck.find_xtor in F. rewrite F. reflexivity.
Qed.
Lemma find_label l d :
  find (fun d => ident_eqb (dname d) l) ds = Some d -> lookup_label S l = Some (dctx d).
Proof.
  unfold lookup_label. cbn [sg_labels S]. induction ds as [|d0 r IH]; cbn [find map]; [discriminate|].
  cbn [fst]. destruct (ident_eqb (dname d0) l); [intros H; inversion H; reflexivity|exact IH].
Qed.

Definition IHa (s : stmt) : Prop :=
  forall G, AxCheck.check_stmt ts ds G s = None -> pre_linear s = true -> ax_check S G s = true.

Theorem check_stmt_ax_check : forall s, IHa s.
Proof.
  induction s using stmt_ind2; intros G HC PL.
  - (* Substitute *) discriminate.
  - (* Call *)
    cbn [AxCheck.check_stmt] in HC. destruct (find _ ds) as [d|] eqn:F; [|discriminate].
    cbn [ax_check]. rewrite (find_label _ _ F). destruct (args_ok_sig _ _ _ _ HC) as [A1 A2]. rewrite A1, A2. reflexivity.
  - (* Let *)
    cbn [AxCheck.check_stmt] in HC. destruct (AxCheck.type_of ts _ t) as [[e|] [d|]] eqn:T; try discriminate.
    destruct (AxCheck.find_xtor d tag) as [sg|] eqn:F; [|discriminate]. seqs HC.
    destruct (args_ok_sig _ _ _ _ E) as [A1 A2].
    cbn [ax_check]. unfold args_ok. rewrite (find_xtor_lookup _ _ _ _ _ T F), A1, A2. cbn [andb].
    apply IHs; [exact HC|exact PL].
  - (* Switch *)
    cbn [AxCheck.check_stmt] in HC. destruct (AxCheck.type_of ts _ t) as [[e|] [d|]] eqn:T; try discriminate. seqs HC.
    destruct (negb _ && _); [discriminate|].
    cbn [pre_linear] in PL. cbn [ax_check]. rewrite (bound_has _ _ _ _ E). unfold cls_ok. rewrite (type_of_xtors _ _ _ T).
    cbn [andb]. apply andb_true_iff.
    revert HC PL. generalize (txtors d). generalize ("switch " ++ show_ident v)%string.
    induction H as [|[[x c] b] cr Hb Hr IH]; intros what xs HC PL; destruct xs as [|sg xr]; try discriminate; [split; reflexivity|].
    seqs HC. apply andb_true_iff in PL as [P1 P2].
    destruct (IH what xr HC P2) as [I1 I2].
    cbn [cls_sig]. unfold cl_xtor, cl_ctx. cbn [fst snd].
    rewrite E0, (params_ok_sig _ _ _ E1), I1, I2. cbn [andb]. unfold cl_body in Hb. cbn [snd] in Hb. rewrite (Hb _ E3 P1). split; reflexivity.
  - (* Create *)
    cbn [pre_linear] in PL. destruct env as [env|]; [discriminate|]. cbn [andb] in PL. apply andb_true_iff in PL as [PLc PLn].
    cbn [AxCheck.check_stmt] in HC. destruct (AxCheck.type_of ts _ t) as [[e|] [d|]] eqn:T; try discriminate. seqs HC.
    destruct (negb _ && _); [discriminate|].
    cbn [ax_check]. unfold cls_ok. rewrite (type_of_xtors _ _ _ T), (IHs _ HC PLn), andb_true_r.
    apply andb_true_iff.
    revert E PLc. generalize (txtors d). generalize ("create " ++ show_ident v)%string.
    induction H as [|[[x c] b] cr Hb Hr IH]; intros what xs HC' PL; destruct xs as [|sg xr]; try discriminate; [split; reflexivity|].
    seqs HC'. apply andb_true_iff in PL as [P1 P2].
    destruct (IH what xr HC' P2) as [I1 I2].
    cbn [cls_sig]. unfold cl_xtor, cl_ctx. cbn [fst snd].
    rewrite E, (params_ok_sig _ _ _ E1), I1, I2. cbn [andb]. unfold cl_body in Hb. cbn [snd] in Hb. rewrite (Hb _ E3 P1). split; reflexivity.
  - (* Invoke *)
    cbn [AxCheck.check_stmt] in HC. destruct (AxCheck.type_of ts _ t) as [[e|] [d|]] eqn:T; try discriminate.
    destruct (AxCheck.find_xtor d tag) as [sg|] eqn:F; [|discriminate]. seqs HC.
    destruct (args_ok_sig _ _ _ _ HC) as [A1 A2].
    cbn [ax_check]. unfold args_ok. rewrite (find_xtor_lookup _ _ _ _ _ T F), A1, A2, (bound_has _ _ _ _ E). reflexivity.
  - (* Literal *)
    cbn [AxCheck.check_stmt] in HC. seqs HC. cbn [ax_check]. apply IHs; [exact HC|exact PL].
  - (* Op *)
    cbn [AxCheck.check_stmt] in HC. seqs HC. cbn [ax_check]. unfold has_ext.
    rewrite (bound_has _ _ _ _ E), (bound_has _ _ _ _ E0). cbn [andb]. apply IHs; [exact HC|exact PL].
  - (* Print *)
    cbn [AxCheck.check_stmt] in HC. seqs HC. cbn [ax_check]. unfold has_ext.
    rewrite (bound_has _ _ _ _ E). cbn [andb]. apply IHs; [exact HC|exact PL].
  - (* IfC *)
    cbn [AxCheck.check_stmt] in HC. seqs HC. cbn [pre_linear] in PL. apply andb_true_iff in PL as [P1 P2].
    cbn [ax_check]. unfold has_ext. rewrite (bound_has _ _ _ _ E), (IHs1 _ E1 P1), (IHs2 _ HC P2).
    destruct b as [b|]; [rewrite (bound_has _ _ _ _ E0)|]; reflexivity.
  - (* Exit *)
    cbn [AxCheck.check_stmt] in HC. cbn [ax_check]. unfold has_ext. apply bound_has. exact HC.
Qed.
End S.

Lemma check_def_stmt ts ds d : AxCheck.check_def ts ds d = None -> AxCheck.check_stmt ts ds (dctx d) (dbody d) = None.
Proof.
  unfold AxCheck.check_def. intros H.
  destruct (AxCheck.is_lifted_name (dname d)).
  - destruct (negb _); [discriminate|]. destruct (AxCheck.minus_n _ _); [|discriminate]. seqs H. exact H.
  - seqs H. exact H.
Qed.

(* 2. the output-of-shrink checker implies the hypothesis of the linearization theorem, given what it
   does not look at *)
Theorem wt_ax_prog_ok : forall p,
  AxCheck.check_prog p = None -> pre_linear_prog p = true -> binders_ok p = true -> prog_ok p = true.
Proof.
  intros p HC PL BO. unfold AxCheck.check_prog in HC. seqs HC.
  unfold prog_ok. apply forallb_forall. intros d Hd.
  unfold pre_linear_prog in PL. unfold binders_ok in BO.
  pose proof (proj1 (forallb_forall _ _) PL d Hd) as PLd. pose proof (proj1 (forallb_forall _ _) BO d Hd) as BOd.
  cbn beta in PLd, BOd. apply andb_true_iff in BOd as [B1 B2].
  unfold def_ok. rewrite B1, B2, !andb_true_r.
  assert (CD : AxCheck.check_def (ptypes p) (pdefs p) d = None).
  { clear -HC Hd. revert HC. generalize (pdefs p) at 1 3. intros all. induction (pdefs p) as [|d0 r IH]; [contradiction|].
    intros HC. seqs HC. destruct Hd as [->|Hd]; [exact E|apply IH; assumption]. }
  exact (check_stmt_ax_check (ptypes p) (pdefs p) (dbody d) (dctx d) (check_def_stmt _ _ _ CD) PLd).
Qed.

(* the binder condition is not implied: both branches of a conditional bind id 2 - fresh along
   each path (wt_ax accepts), not globally distinct (prog_ok rejects; linearization would still be
   correct here, but its theorem is stated for globally distinct binders) *)
Definition two_branches : prog :=
  mkp [mkd ("main", 0%N) []
         (Literal 1 ("x", 1%N)
            (IfC Eq ("x", 1%N) None
               (Literal 2 ("y", 2%N) (Exit ("y", 2%N)))
               (Literal 3 ("y", 2%N) (Exit ("y", 2%N)))))] [] 2.
Lemma wt_ax_not_prog_ok :
  AxCheck.check_prog two_branches = None /\ pre_linear_prog two_branches = true /\ prog_ok two_branches = false.
Proof. repeat split; vm_compute; reflexivity. Qed.
Print Assumptions wt_ax_prog_ok.
