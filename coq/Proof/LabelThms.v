(* C14: label uniqueness and definedness for `compile` of the generic code generator and for the
   complete routines of the three back ends.
   The guard [labels_guard] is a boolean predicate of the (linearized AxCut) program:
     - the printed names of the definitions are pairwise distinct and start with a lower-case letter;
     - the sanitised name of every type a Switch / Create dispatches on does not start with a
       lower-case letter (the lexical classes of the source language: definitions [a-z]..., types
       [A-Z]..., generated continuation types _Cont...);
     - the clauses of one Switch / Create have pairwise distinct printed xtor names;
     - EITHER no such type name contains an underscore followed by a digit, OR no xtor name does and
       none starts with a digit.
   Without the last clause the statement is false ([compile_labels_unique_refuted]): the label texts
   <Type>_<k> and <Type>_<k>_<Xtor> are not injective. *)
From Coq Require Import List ZArith NArith String Ascii Bool Lia Permutation.
From SCC Require Import Base.Sexp Lang.AxSyn Model.ParMoves Model.Backend Model.X86 Model.A64 Model.RV
  Sem.X86Wf Sem.A64Wf Sem.RVWf Sem.LabelGuard
  Proof.LabelStrings Proof.LabelGen Proof.LabelsX86 Proof.LabelsA64 Proof.LabelsRV.
Import ListNotations.
Local Open Scope string_scope.
Local Open Scope list_scope.


Section Generic.
Context {Code Temp : Type} (B : backend Code Temp) (cdefs crefs : Code -> list string).
Hypothesis LO : labels_ok B cdefs crefs.
Notation defs := (LabelGen.defs cdefs).
Notation refs := (LabelGen.refs crefs).

(* a label defined by the code of `translate`: a definition label, or a generated label whose number
   was drawn from the counter during this call *)
Definition label_of_call (lc lc' : N) (l : string) : Prop :=
  exists g, l = pr g /\ (is_gen g = true -> (lc < key g <= lc')%N).

Lemma translate_unique types ds lc c lc' :
  guard_types ds || guard_xtors ds = true -> translate B types ds lc = Ok (c, lc') ->
  NoDup (defs c) /\ (lc <= lc')%N /\ (forall l, In l (defs c) -> label_of_call lc lc' l).
Proof.
  intros G H. apply orb_true_iff in G as [G|G].
  - destruct (translate_labels_unique B cdefs crefs LO ty_ok all_true pr_inj_types types ds lc c lc' G H) as (N & L & I).
    split; [exact N|]. split; [exact L|]. intros l Hl. destruct (I l Hl) as (g & E & _ & K). exists g. split; assumption.
  - destruct (translate_labels_unique B cdefs crefs LO all_true xtor_ok pr_inj_xtors types ds lc c lc' G H) as (N & L & I).
    split; [exact N|]. split; [exact L|]. intros l Hl. destruct (I l Hl) as (g & E & _ & K). exists g. split; assumption.
Qed.

Theorem compile_labels_unique p lc c n lc' :
  labels_guard p = true -> compile B p lc = Ok (c, n, lc') ->
  NoDup (defs c) /\ (lc <= lc')%N /\ ~ In "cleanup" (defs c) /\ ~ In "asm_main" (defs c).
Proof.
  unfold compile, labels_guard. intros G H. destruct (pdefs p) as [|d0 ds] eqn:E; [discriminate|]. rewrite <- E in *.
  rinv H. destruct x as [c0 l0]. cbn [fst snd] in H. inversion H; subst.
  destruct (translate_unique _ _ _ _ _ G E0) as (N & L & I). split; [exact N|]. split; [exact L|]. split.
  - intros X. destruct (I _ X) as (g & Eg & _). symmetry in Eg. exact (cleanup_not_pr g Eg).
  - intros X. destruct (I _ X) as (g & Eg & _). symmetry in Eg. exact (asm_main_not_pr g Eg).
Qed.

Theorem compile_refs_defined p lc c n lc' :
  calls_guard p = true -> compile B p lc = Ok (c, n, lc') ->
  forall l, In l (refs c) -> In l (defs c) \/ l = "cleanup".
Proof.
  unfold compile, calls_guard. intros G H. destruct (pdefs p) as [|d0 ds] eqn:E; [discriminate|]. rewrite <- E in *.
  rinv H. destruct x as [c0 l0]. cbn [fst snd] in H. inversion H; subst.
  apply (translate_refs_defined B cdefs crefs LO _ _ _ _ _ G E0).
Qed.

(* the counter is monotone and the labels of different calls are different: when a second
   compilation starts where (or after) the first one stopped, the two outputs share no generated label *)
Theorem labels_of_later_call_fresh types1 ds1 lc1 c1 lc1' types2 ds2 lc2 c2 lc2' :
  (guard_types ds1 && guard_types ds2) || (guard_xtors ds1 && guard_xtors ds2) = true ->
  translate B types1 ds1 lc1 = Ok (c1, lc1') -> translate B types2 ds2 lc2 = Ok (c2, lc2') -> (lc1' <= lc2)%N ->
  forall l, In l (defs c1) -> In l (defs c2) -> exists name, l = (name ++ "_")%string /\ lower_first name = true.
Proof.
  intros G H1 H2 L l I1 I2. apply orb_true_iff in G as [G|G]; apply andb_true_iff in G as [G1 G2].
  - destruct (translate_labels_unique B cdefs crefs LO ty_ok all_true pr_inj_types _ _ _ _ _ G1 H1) as (_ & _ & K1).
    destruct (translate_labels_unique B cdefs crefs LO ty_ok all_true pr_inj_types _ _ _ _ _ G2 H2) as (_ & _ & K2).
    destruct (K1 l I1) as (g1 & E1 & U1 & R1). destruct (K2 l I2) as (g2 & E2 & U2 & R2).
    assert (g1 = g2) by (apply pr_inj_types; [exact U1|exact U2|congruence]). subst g2.
    destruct g1 as [s|k|T k|T k X]; [exists s; split; [exact E1|exact U1]| | |];
      specialize (R1 eq_refl); specialize (R2 eq_refl); cbn [key] in *; lia.
  - destruct (translate_labels_unique B cdefs crefs LO all_true xtor_ok pr_inj_xtors _ _ _ _ _ G1 H1) as (_ & _ & K1).
    destruct (translate_labels_unique B cdefs crefs LO all_true xtor_ok pr_inj_xtors _ _ _ _ _ G2 H2) as (_ & _ & K2).
    destruct (K1 l I1) as (g1 & E1 & U1 & R1). destruct (K2 l I2) as (g2 & E2 & U2 & R2).
    assert (g1 = g2) by (apply pr_inj_xtors; [exact U1|exact U2|congruence]). subst g2.
    destruct g1 as [s|k|T k|T k X]; [exists s; split; [exact E1|exact U1]| | |];
      specialize (R1 eq_refl); specialize (R2 eq_refl); cbn [key] in *; lia.
Qed.
End Generic.

(* ---------- the complete routines ---------- *)
Lemma nolab_args_x86 : forall n x, X86.move_arguments n = Ok x -> forallb LabelsX86.nolab x = true.
Proof.
  induction n as [|n IH]; intros x E; cbn [X86.move_arguments] in E; [inversion E; reflexivity|].
  destruct (Nat.ltb 5 (S n)); [discriminate|]. rinv E. inversion E; subst. cbn [app forallb LabelsX86.nolab andb]. apply (IH _ E0).
Qed.
Lemma nolab_setup_x86 n s : X86.setup n = Ok s -> forallb LabelsX86.nolab s = true.
Proof.
  unfold X86.setup. intros H. rinv H. inversion H; subst. cbn [app forallb LabelsX86.nolab andb]. apply (nolab_args_x86 _ _ E).
Qed.
Theorem x86_routine_labels p lc r n lc' :
  labels_guard p = true -> calls_guard p = true -> x86_compile p lc = Ok (r, n, lc') ->
  NoDup (LabelGen.defs xdefs r) /\ incl (LabelGen.refs X86Wf.referenced r) (LabelGen.defs xdefs r) /\ (lc <= lc')%N.
Proof.
  unfold x86_compile, x86_compile_with, into_x86_64_routine. intros G1 G2 H. rstep H. destruct x as [[is n0] l0]. rinv H. inversion H; subst. clear H.
  match goal with E0 : rbind _ _ = Ok _ |- _ => rename E0 into ES end. rstep ES. rename E0 into E1.
  match type of ES with Ok ?t = Ok ?v => assert (EV : v = t) by congruence; subst v; clear ES end.
  destruct (compile_labels_unique x86_backend xdefs X86Wf.referenced x86_labels_ok _ _ _ _ _ G1 E) as (N & L & C1 & C2).
  pose proof (compile_refs_defined x86_backend xdefs X86Wf.referenced x86_labels_ok _ _ _ _ _ G2 E) as R.
  destruct (LabelsX86.nolab_plain _ (nolab_setup_x86 _ _ E1)) as [D0 R0].
  assert (DE : LabelGen.defs xdefs (X86.preamble ++ x ++ is ++ X86.cleanup) = "asm_main" :: LabelGen.defs xdefs is ++ ["cleanup"]).
  { rewrite !(defs_app xdefs), D0. reflexivity. }
  assert (RE : LabelGen.refs X86Wf.referenced (X86.preamble ++ x ++ is ++ X86.cleanup) = LabelGen.refs X86Wf.referenced is).
  { rewrite !(refs_app X86Wf.referenced), R0. cbn. apply app_nil_r. }
  rewrite DE, RE. split; [|split; [|exact L]].
  - constructor.
    + intros X. apply in_app_or in X as [X|[X|[]]]; [exact (C2 X)|discriminate].
    + apply NoDup_app_intro; [exact N|constructor; [intros []|constructor]|]. intros l X [<-|[]]. exact (C1 X).
  - intros l Hl. right. apply in_or_app. destruct (R l Hl) as [X| ->]; [left; exact X|right; left; reflexivity].
Qed.

Lemma nolab_args_a64 : forall n x, A64.move_arguments n = Ok x -> forallb LabelsA64.nolab x = true.
Proof.
  induction n as [|n IH]; intros x E; cbn [A64.move_arguments] in E; [inversion E; reflexivity|].
  destruct (Nat.ltb 7 (S n)); [discriminate|]. rinv E. inversion E; subst. cbn [app forallb LabelsA64.nolab andb]. apply (IH _ E0).
Qed.
Lemma nolab_setup_a64 n s : A64.setup n = Ok s -> forallb LabelsA64.nolab s = true.
Proof.
  unfold A64.setup. intros H. rinv H. inversion H; subst. cbn [app forallb LabelsA64.nolab andb]. rewrite forallb_app.
  rewrite (nolab_args_a64 _ _ E). reflexivity.
Qed.
Theorem a64_routine_labels p lc r n lc' :
  labels_guard p = true -> calls_guard p = true -> a64_compile p lc = Ok (r, n, lc') ->
  NoDup (LabelGen.defs A64Wf.all_defs r) /\ incl (LabelGen.refs A64Wf.referenced r) (LabelGen.defs A64Wf.all_defs r) /\ (lc <= lc')%N.
Proof.
  unfold a64_compile, a64_compile_with, into_aarch64_routine. intros G1 G2 H. rstep H. destruct x as [[is n0] l0]. rinv H. inversion H; subst. clear H.
  match goal with E0 : rbind _ _ = Ok _ |- _ => rename E0 into ES end. rstep ES. rename E0 into E1.
  match type of ES with Ok ?t = Ok ?v => assert (EV : v = t) by congruence; subst v; clear ES end.
  change (a64_backend_with (fun _ => [])) with a64_backend in E.
  destruct (compile_labels_unique a64_backend A64Wf.all_defs A64Wf.referenced a64_labels_ok _ _ _ _ _ G1 E) as (N & L & C1 & C2).
  pose proof (compile_refs_defined a64_backend A64Wf.all_defs A64Wf.referenced a64_labels_ok _ _ _ _ _ G2 E) as R.
  destruct (LabelsA64.nolab_plain _ (nolab_setup_a64 _ _ E1)) as [D0 R0].
  assert (DE : LabelGen.defs A64Wf.all_defs (A64.preamble ++ x ++ is ++ A64.cleanup) = "asm_main" :: LabelGen.defs A64Wf.all_defs is ++ ["cleanup"]).
  { rewrite !(defs_app A64Wf.all_defs), D0. reflexivity. }
  assert (RE : LabelGen.refs A64Wf.referenced (A64.preamble ++ x ++ is ++ A64.cleanup) = LabelGen.refs A64Wf.referenced is).
  { rewrite !(refs_app A64Wf.referenced), R0. cbn. apply app_nil_r. }
  rewrite DE, RE. split; [|split; [|exact L]].
  - constructor.
    + intros X. apply in_app_or in X as [X|[X|[]]]; [exact (C2 X)|discriminate].
    + apply NoDup_app_intro; [exact N|constructor; [intros []|constructor]|]. intros l X [<-|[]]. exact (C1 X).
  - intros l Hl. right. apply in_or_app. destruct (R l Hl) as [X| ->]; [left; exact X|right; left; reflexivity].
Qed.

(* the RISC-V instruction list does not contain `cleanup:`; the routine text appends it *)
Theorem rv_routine_labels p lc c n lc' :
  labels_guard p = true -> calls_guard p = true -> rv_compile p lc = Ok (c, n, lc') ->
  NoDup ("cleanup" :: LabelGen.defs RVWf.all_defs c)
  /\ incl (LabelGen.refs RVWf.referenced c) ("cleanup" :: LabelGen.defs RVWf.all_defs c) /\ (lc <= lc')%N.
Proof.
  unfold rv_compile. intros G1 G2 H. destruct (prog_has_print p); [discriminate|].
  destruct (compile_labels_unique rv_backend RVWf.all_defs RVWf.referenced rv_labels_ok _ _ _ _ _ G1 H) as (N & L & C1 & C2).
  pose proof (compile_refs_defined rv_backend RVWf.all_defs RVWf.referenced rv_labels_ok _ _ _ _ _ G2 H) as R.
  split; [constructor; assumption|]. split; [|exact L].
  intros l Hl. destruct (R l Hl) as [X| ->]; [right; exact X|left; reflexivity].
Qed.

(* ---------- the guard cannot be dropped; it is satisfiable ---------- *)
(* main: switch on Aa (one clause Bx_2_Cy); inside, switch on Aa_1_Bx (one clause Cy): the counter
   gives the outer switch 1 and the inner one 2, so both clause labels read Aa_1_Bx_2_Cy *)
Definition collide_prog : prog :=
  let v : ident := ("v", 0%N) in
  mkp [mkd ("main", 0%N) []
         (Switch v (Decl ("Aa", 0%N))
            [(("Bx_2_Cy", 0%N), [], Switch v (Decl ("Aa_1_Bx", 0%N)) [(("Cy", 0%N), [], Call ("main", 0%N) [])])])]
      [] 0%N.
Theorem compile_labels_unique_refuted :
  unguarded_labels_guard collide_prog = true /\ calls_guard collide_prog = true /\
  exists c n lc', compile x86_backend collide_prog 0 = Ok (c, n, lc') /\ ~ NoDup (LabelGen.defs xdefs c).
Proof.
  split; [reflexivity|]. split; [reflexivity|]. eexists _, _, _. split; [vm_compute; reflexivity|].
  intros N. cbn in N. inversion N as [|? ? _ N1]; subst. inversion N1 as [|? ? _ N2]; subst. inversion N2 as [|? ? X _]; subst.
  apply X. right. left. reflexivity.
Qed.
(* the same program with neutral names passes the guard and (hence) has distinct labels *)
Definition distinct_prog : prog :=
  let v : ident := ("v", 0%N) in
  mkp [mkd ("main", 0%N) []
         (Switch v (Decl ("Aa", 0%N))
            [(("Bx", 0%N), [], Switch v (Decl ("List[i64]", 0%N)) [(("Cy", 0%N), [], Call ("main", 0%N) [])])]);
       mkd ("lab3", 0%N) [mkb ("x", 1%N) Ext I64] (IfC Eq ("x", 1%N) None (Call ("cleanup", 0%N) []) (Call ("lab3", 0%N) []));
       mkd ("cleanup", 0%N) [] (Call ("lab3", 0%N) [])]
      [] 0%N.
Example labels_guard_satisfiable :
  labels_guard distinct_prog = true /\ calls_guard distinct_prog = true /\
  LabelGen.defs xdefs (match compile x86_backend distinct_prog 7 with Ok (c, _, _) => c | Err _ => [] end)
  = ["main_"; "Aa_8"; "Aa_8_Bx"; "List_i64_9"; "List_i64_9_Cy"; "lab3_"; "lab10"; "cleanup_"].
Proof. vm_compute. split; [reflexivity|]. split; reflexivity. Qed.
