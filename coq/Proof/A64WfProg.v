(* C14, AArch64: [a64_compile_asm_wf] (asm_wf cs = None for every program inside the boolean guards of
   Sem/WfGuard64.v) and [a64_compile_code_small].
   From the per-method lemmas of Proof/A64WfAll.v through the generic theorem Proof/CodegenForallLinP.v (every piece
   of code_statement's output comes from a back-end method; bounds 4096 - from the capacity, tfp_cap - and 1024 - a guard - of Sem/WfGuard64.v), the label
   theorems of Proof/LabelThms.v (labels once, references defined) and the size theorem of C19 (Proof/SizeA64.v:
   at most 28 + 85 * cg_bound_defs instructions) in its two-weight refinement Proof/SizeA64Fine.v (28 + cg_fine_defs 14 74
   instructions of 4 bytes each - below the reach of B.cond / ADR under reach_guard_a64). *)
From Coq Require Import List ZArith NArith String Ascii Bool Lia.
From SCC Require Import Base.Sexp Lang.AxSyn Lang.AxSize Model.ParMoves Model.Backend Model.Linearize Model.LinCheck Model.A64
  Model.SizeWf Sem.A64Sem Sem.A64Wf Sem.LabelGuard Sem.WfGuard Sem.WfGuard64 Generated.Constants
  Proof.LinBasics Proof.SubstGraph Proof.LabelStrings Proof.LabelGen Proof.LabelsA64 Proof.LabelThms
  Proof.CodegenForallLin Proof.CodegenForallLinP Proof.SimFrag Proof.A64SimAddr Proof.SizeCodegenWf Proof.SizeA64 Proof.SizeA64Fine
  Proof.SubstBackends Proof.A64WfAll.
From SCC Require Proof.X86WfAll Proof.X86WfCor.
Import ListNotations.
Local Open Scope string_scope.
Local Open Scope list_scope.

Lemma hash_same l : is_hash_label l = Sem.X86Wf.is_hash_label l.
Proof. reflexivity. Qed.

(* fewer than 281 positions have a temporary (26 registers, 255 spill slots) *)
Lemma tfp_cap q t : temporary_from_position q = Ok t -> (q < 2 * A64_SUBST_MAX)%N.
Proof.
  unfold temporary_from_position, A64_SUBST_MAX. change RESERVED with 4%N. change REGISTER_NUM with 30%N. change SPILL_NUM with 256%N.
  change RESERVED_SPILLS with 1%N. destruct (N.ltb_spec (q + 4) 30); [intros _; lia|].
  destruct (N.ltb_spec (q + 4 - 30 + 1) 256); [intros _; lia|discriminate].
Qed.

Lemma max_xtors_le types : xtors_le (max_xtors types) types = true.
Proof.
  unfold xtors_le. apply forallb_forall. intros d Hd. apply N.leb_le.
  induction types as [|d0 r IH]; [destruct Hd|]. cbn [max_xtors fold_right]. destruct Hd as [<-|Hd]; [lia|].
  specialize (IH Hd). fold (max_xtors r). lia.
Qed.

Section Prog.
Variable p : prog.
Hypothesis PN : plain_names p = true.
Hypothesis PT : plain_types p = true.

Lemma a64_translate_W defs lc code lc' :
  forallb (fun d => lin_check (sigs_of p) (dctx d) (dbody d) && stmt_immP any_lit (dbody d)) defs = true ->
  (forall d, In d defs -> In d (pdefs p)) ->
  translate a64_backend (ptypes p) defs lc = Ok (code, lc') -> W code.
Proof.
  intros G SUB H.
  apply (translate_QLP a64_backend a64_backend_ok (sigs_of p) A64_SUBST_MAX (max_xtors (ptypes p)) any_lit temp_enc W X86WfAll.Lp W_nil W_app)
    with (defs := defs) (lc := lc) (lc' := lc');
    cbn [a64_backend a64_backend_with b_temporary_from_position b_temp b_return1 b_label b_mark b_jump b_jump_label b_jump_label_fixed
         b_jcc2 b_jcc1 b_load_immediate b_load_label b_add_and_jump b_arith b_mov b_print b_erase b_share_n b_store b_load
         b_store_temporary b_restore_temporary b_jump_length sg_types sigs_of]; try assumption.
  - exact tfp_enc.
  - exact reg_TEMP.
  - reflexivity.
  - intros l _. wf.
  - intros c. exact W_nil.
  - exact W_jump.
  - intros l HL. unfold X86WfAll.Lp in HL. rewrite <- hash_same in HL. wf.
  - intros l HL. unfold X86WfAll.Lp in HL. rewrite <- hash_same in HL. wf.
  - intros s a b l A Bb HL. apply W_app; [apply W_compare; assumption|apply W_bcc; rewrite hash_same; exact HL].
  - intros s a l A HL. apply W_app; [apply W_compare_immediate; assumption|apply W_bcc; rewrite hash_same; exact HL].
  - intros t i T _. apply W_load_immediate; exact T.
  - intros t k T K. apply W_load_immediate; exact T.
  - intros t l T HL. apply W_load_label; [exact T|rewrite hash_same; exact HL].
  - intros t k T _. apply W_add_and_jump; exact T.
  - intros o t a b T A Bb _ _. apply W_arith; auto.
  - intros a A. apply W_arith; [exact reg_TEMP|exact reg_TEMP|exact A].
  - exact W_mov.
  - intros nl t c T. apply W_print; exact T.
  - intros t l T. apply W_erase; exact T.
  - intros t n l T N. apply W_share; assumption.
  - intros a r l c l'. apply W_a_store.
  - intros a r l c l'. apply W_a_load.
  - exact W_store_temporary.
  - exact W_restore_temporary.
  - intros k. reflexivity.
  - reflexivity.
  - exact (X86WfAll.L_def_p p PN).
  - exact (X86WfAll.L_type_p p PT).
  - apply max_xtors_le.
  - exact tfp_cap.
  - intros d Hd. destruct (lookup_label_def p d (SUB d Hd)) as [ps E]. exact (X86WfAll.L_def_p p PN _ _ E).
Qed.
End Prog.

(* no condition on literals *)
Lemma stmt_imm_any : forall s, stmt_immP any_lit s = true.
Proof.
  induction s using stmt_ind2; cbn [stmt_immP any_lit andb]; auto.
  - induction H as [|[[x cx] b] r Hb Hr IHr]; [reflexivity|]. unfold cl_body in Hb; cbn [snd] in Hb. rewrite Hb. exact IHr.
  - rewrite IHs, andb_true_r. induction H as [|[[x cx] b] r Hb Hr IHr]; [reflexivity|]. unfold cl_body in Hb; cbn [snd] in Hb. rewrite Hb. exact IHr.
  - rewrite IHs1, IHs2. reflexivity.
Qed.

(* ---------- from the facts to asm_wf ---------- *)
Lemma mem_str_In x l : mem_str x l = true <-> In x l.
Proof.
  unfold mem_str. rewrite existsb_exists. split.
  - intros (y & I & E). apply String.eqb_eq in E. subst. exact I.
  - intros I. exists x. split; [exact I|apply String.eqb_refl].
Qed.
Lemma first_dup_NoDup l : NoDup l -> first_dup l = None.
Proof.
  induction l as [|x r IH]; intros N; [reflexivity|]. inversion N as [|? ? NI N']; subst. cbn [first_dup].
  destruct (mem_str x r) eqn:M; [apply mem_str_In in M; contradiction|]. exact (IH N').
Qed.
Lemma find_none_intro {X} (f : X -> bool) l : (forall x, In x l -> f x = false) -> find f l = None.
Proof.
  induction l as [|x l IH]; intros H; [reflexivity|]. cbn [find]. rewrite (H x (or_introl eq_refl)).
  apply IH. intros y Hy. apply H. right. exact Hy.
Qed.
Lemma defined_labels_filter cs :
  defined_labels cs = filter (fun l => negb (is_hash_label l)) (LabelGen.defs all_defs cs).
Proof.
  unfold defined_labels, LabelGen.defs. induction cs as [|c cs IH]; [reflexivity|]. cbn [flat_map]. rewrite filter_app, IH. f_equal.
  destruct c; try reflexivity. cbn [all_defs filter]. destruct (is_hash_label l); reflexivity.
Qed.
Lemma W_parts body :
  W body ->
  (forall l, In l (flat_map referenced body) -> is_hash_label l = false) /\
  (forall l, In l (calls body) -> l = "print_i64" \/ l = "println_i64") /\
  globals body = [] /\ (forall c, In c body -> instr_wf c = true).
Proof.
  intros H. unfold W in H. rewrite Forall_forall in H. repeat split.
  - intros l Hl. apply in_flat_map in Hl as (c & Hc & Hl). specialize (H c Hc). unfold cok in H.
    apply andb_true_iff in H as [H _]. apply andb_true_iff in H as [_ H]. rewrite forallb_forall in H. specialize (H l Hl).
    destruct (is_hash_label l); [discriminate|reflexivity].
  - intros l Hl. unfold calls in Hl. apply in_flat_map in Hl as (c & Hc & Hl). specialize (H c Hc).
    destruct c; cbn [In] in Hl; try contradiction. destruct Hl as [<-|[]]. unfold cok in H.
    apply andb_true_iff in H as [_ H]. apply orb_true_iff in H as [H|H]; apply String.eqb_eq in H; auto.
  - unfold globals. induction body as [|c body IH]; [reflexivity|]. cbn [flat_map].
    rewrite IH by (intros; apply H; right; assumption). pose proof (H c (or_introl eq_refl)) as Hc.
    destruct c; try reflexivity. unfold cok in Hc. rewrite andb_false_r in Hc. discriminate.
  - intros c Hc. specialize (H c Hc). unfold cok in H. apply andb_true_iff in H as [H _]. apply andb_true_iff in H as [H _]. exact H.
Qed.

(* every instruction is 4 bytes: the routine is shorter than the reach of the narrowest branch form *)
Lemma code_bytes_le cs : (code_bytes cs <= 4 * Z.of_N (AxSize.len cs))%Z.
Proof.
  unfold code_bytes, AxSize.len.
  assert (G : forall l a, (fold_left (fun a c => a + isz c) l a <= a + 4 * Z.of_nat (List.length l))%Z).
  { induction l as [|c l IH]; intros a; cbn [fold_left List.length]; [lia|]. specialize (IH (a + isz c)%Z).
    assert (isz c <= 4)%Z by (destruct c; cbn; lia). lia. }
  specialize (G cs 0%Z). lia.
Qed.
Lemma branches_near cs : (AxSize.len cs < A64_REACH)%N -> branches_in_range cs = None.
Proof.
  intros H. unfold branches_in_range. pose proof (code_bytes_le cs) as B. unfold A64_REACH in H.
  destruct (Z.ltb_spec (code_bytes cs) 1048572); [reflexivity|lia].
Qed.

Lemma asm_wf_intro body :
  W body ->
  NoDup (LabelGen.defs all_defs (preamble ++ body)) ->
  incl (LabelGen.refs referenced (preamble ++ body)) (LabelGen.defs all_defs (preamble ++ body)) ->
  ~ In "print_i64" (LabelGen.defs all_defs (preamble ++ body)) ->
  ~ In "println_i64" (LabelGen.defs all_defs (preamble ++ body)) ->
  (AxSize.len (preamble ++ body) < A64_REACH)%N ->
  asm_wf (preamble ++ body) = None.
Proof.
  intros HW ND RF P1 P2 SZ. destruct (W_parts body HW) as (NH & CL & EX & IW).
  set (cs := preamble ++ body) in *.
  assert (DL : forall l, In l (defined_labels cs) <-> In l (LabelGen.defs all_defs cs) /\ is_hash_label l = false).
  { intros l. rewrite defined_labels_filter, filter_In. destruct (is_hash_label l); cbn; intuition discriminate. }
  assert (RB : flat_map referenced cs = flat_map referenced body) by (unfold cs; rewrite flat_map_app; reflexivity).
  assert (CB : calls cs = calls body) by (unfold cs, calls; rewrite flat_map_app; reflexivity).
  assert (GB : globals cs = ["asm_main"]).
  { unfold cs, globals. rewrite flat_map_app. fold (globals body). rewrite EX. reflexivity. }
  unfold asm_wf.
  rewrite first_dup_NoDup by (rewrite defined_labels_filter; apply NoDup_filter; exact ND).
  rewrite find_none_intro.
  2:{ intros l Hl. apply negb_false_iff. apply mem_str_In. apply DL. split.
      - apply RF. exact Hl.
      - apply NH. rewrite <- RB. exact Hl. }
  rewrite find_none_intro.
  2:{ intros l Hl. rewrite GB in Hl. destruct Hl as [<-|[]]. apply negb_false_iff. apply mem_str_In. apply DL.
      split; [|reflexivity]. unfold cs, LabelGen.defs. cbn. left. reflexivity. }
  rewrite find_none_intro.
  2:{ intros l Hl. rewrite CB in Hl. destruct (mem_str l (defined_labels cs)) eqn:M; [|reflexivity]. exfalso.
      apply mem_str_In in M. apply DL in M as [M _]. destruct (CL l Hl) as [-> | ->]; contradiction. }
  rewrite find_none_intro.
  2:{ intros c Hc. apply negb_false_iff. unfold cs in Hc. apply in_app_or in Hc as [Hc|Hc]; [|exact (IW c Hc)].
      cbn in Hc. repeat (destruct Hc as [<-|Hc]; [reflexivity|]). contradiction. }
  rewrite (branches_near cs SZ). reflexivity.
Qed.

Theorem a64_compile_asm_wf p lc cs n lc' :
  labels_guard p = true -> lin_check_prog p = true ->
  plain_names p = true -> plain_types p = true -> reach_guard_a64 p = true ->
  a64_compile p lc = Ok (cs, n, lc') -> asm_wf cs = None.
Proof.
  intros G1 LIN PN PT RG H. pose proof (X86WfCor.lin_check_calls_guard p LIN) as G2.
  destruct (a64_routine_labels p lc cs n lc' G1 G2 H) as (ND & RF & _).
  pose proof (a64_compile_fine_size p lc cs n lc' (lin_check_prog_sub_wf p LIN) H) as SZ.
  unfold a64_compile, a64_compile_with, into_aarch64_routine in H. rstep H. destruct x as [[is n0] l0]. rinv H. inversion H; subst. clear H.
  match goal with E0 : rbind _ _ = Ok _ |- _ => rename E0 into ES end. rstep ES. rename E0 into E1.
  match type of ES with Ok ?t = Ok ?v => assert (EV : v = t) by congruence; subst v; clear ES end.
  assert (GD : forallb (fun d => lin_check (sigs_of p) (dctx d) (dbody d) && stmt_immP any_lit (dbody d)) (pdefs p) = true).
  { apply forallb_forall. intros d Hd. unfold lin_check_prog in LIN. rewrite forallb_forall in LIN.
    specialize (LIN d Hd). unfold lin_check_def in LIN. rewrite LIN, stmt_imm_any. reflexivity. }
  clear LIN.
  pose proof (X86WfAll.compile_translate _ _ _ _ _ _ E) as E0.
  unfold labels_guard in G1.
  destruct (translate_unique a64_backend all_defs referenced a64_labels_ok _ _ _ _ _ G1 E0) as (_ & _ & I).
  destruct (LabelsA64.nolab_plain _ (nolab_setup_a64 _ _ E1)) as [D0 R0].
  assert (DE : LabelGen.defs all_defs (preamble ++ x ++ is ++ cleanup) = "asm_main" :: LabelGen.defs all_defs is ++ ["cleanup"]).
  { rewrite !(defs_app all_defs), D0. reflexivity. }
  assert (NP : forall s, (forall g, pr g <> s) -> s <> "asm_main" -> s <> "cleanup" ->
                         ~ In s (LabelGen.defs all_defs (preamble ++ x ++ is ++ cleanup))).
  { intros s NG N1 N2 X. rewrite DE in X. destruct X as [X|X]; [congruence|]. apply in_app_or in X as [X|[X|[]]]; [|congruence].
    destruct (I _ X) as (g & Eg & _). symmetry in Eg. exact (NG g Eg). }
  apply asm_wf_intro; [|exact ND|exact RF|apply NP; [exact X86WfAll.print_not_pr|discriminate|discriminate]
                                          |apply NP; [exact X86WfAll.println_not_pr|discriminate|discriminate]|].
  - apply W_app; [exact (W_setup _ _ E1)|]. apply W_app; [|exact W_cleanup].
    eapply (a64_translate_W p PN PT (pdefs p)); [exact GD|auto|exact E0].
  - unfold reach_guard_a64 in RG. apply N.ltb_lt in RG. lia.
Qed.

(* ---------- code_small from the size bound of C19 ---------- *)
Lemma size_of_le cs : (size_of cs <= 4 * Z.of_N (AxSize.len cs))%Z.
Proof.
  unfold AxSize.len. induction cs as [|c cs IH]; [cbn; lia|]. cbn [size_of List.length].
  assert (isize c <= 4)%Z by (destruct c; cbn; lia). lia.
Qed.
Lemma a64_K_85 : a64_K = 85%N.
Proof. reflexivity. Qed.
Lemma a64_bound_eq p : a64_bound p = (28 + a64_K * cg_bound_defs (pdefs p))%N.
Proof. reflexivity. Qed.
Theorem a64_compile_code_small p lc cs n lc' :
  lin_check_prog p = true -> size_guard p = true ->
  a64_compile p lc = Ok (cs, n, lc') -> code_small cs = true.
Proof.
  intros LIN SG H. pose proof (a64_compile_size p lc cs n lc' (lin_check_prog_sub_wf p LIN) H) as B.
  rewrite a64_bound_eq, a64_K_85 in B. unfold size_guard in SG. apply N.leb_le in SG. unfold SIZE_MAX in SG.
  apply Z.ltb_lt. pose proof (size_of_le cs). unfold CODE_BASE. lia.
Qed.
(* the reach guard alone bounds the code *)
Theorem a64_compile_code_small_reach p lc cs n lc' :
  lin_check_prog p = true -> reach_guard_a64 p = true ->
  a64_compile p lc = Ok (cs, n, lc') -> code_small cs = true.
Proof.
  intros LIN RG H. pose proof (a64_compile_fine_size p lc cs n lc' (lin_check_prog_sub_wf p LIN) H) as B.
  unfold reach_guard_a64 in RG. apply N.ltb_lt in RG. unfold A64_REACH in RG.
  apply Z.ltb_lt. pose proof (size_of_le cs). unfold CODE_BASE. lia.
Qed.
