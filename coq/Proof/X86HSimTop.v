(* C06, forward simulation for ALL statement forms: the program-level theorem.
   Every run of the linear AxCut machine that does not run out of fuel is reproduced by the x86-64 code on the
   ISA model, with the same observation, for every linearly checked program whose entry takes integers.
   Besides the checks of C14 on the output (`asm_wf`, `code_small`) and the plain names, two hypotheses:
     ann_check_prog p   the annotation of every Create is the end of its context (Proof/X86HAnn.v; holds for
                        every output of the linearization pass, Proof/X86HAnnLin.v);
     heap_fits p args   the run stays inside the 32 MiB heap region of the ISA model (the linear machine
                        has no memory bound): in every configuration the instrumented machine reaches, the
                        allocation frontier leaves room for the reserved block. *)
From Coq Require Import List ZArith NArith String Bool Lia FMapPositive Permutation.
From SCC Require Import Proof.X86Mem Proof.X86MemFrame Proof.X86StackFrame.
From SCC Require Import Base.Sexp Lang.AxSyn Sem.AxSem Sem.AxHeap Model.ParMoves Model.Backend Model.X86 Sem.X86Sem Sem.X86Wf
     Model.Linearize Model.LinCheck Generated.Constants Proof.LinBasics Proof.LinTyping Proof.LinMachine Proof.X86State Proof.X86Sel Proof.X86Exec Proof.X86ParMoves
     Proof.SubstGraph Proof.X86Subst Proof.X86SimRel Proof.X86SimStmt Proof.X86SimPrint Proof.X86SimAddr Proof.X86SimClo Proof.X86SimProg Proof.X86SimProgC Proof.X86SimTop Proof.X86SimTopC
     Proof.X86HeapDefs Proof.X86HeapCongr Proof.X86HBridge Proof.X86HFrame
     Proof.X86HSimRel Proof.X86HSimStmt Proof.X86HConv Proof.X86HSimStore Proof.X86HSimLoad Proof.X86HSimSubst Proof.X86HLayout
     Proof.X86HSimHeapA Proof.X86HAnn Proof.X86HSimHeapB Proof.X86HSimHeapC Proof.X86HSimProgA Proof.X86HSimProg.
From SCC Require Model.Heap Proof.HeapMore Proof.HeapTrace Proof.HeapRep Proof.AxHeapErase Proof.AxHeapTyping Proof.AxHeapSafe.
Import ListNotations.
Open Scope Z_scope.
Open Scope list_scope.

Definition heap_fits (p : prog) (args : list Z) : Prop :=
  forall tr c, hreach HEAP_BASE p args tr c -> Heap.frontier (hc_heap c) + 64 <= HEAP_BASE + HEAP_SIZE.

Lemma all_ext_ctx_int c : AxHeapTyping.all_ext c = true -> ctx_int c = true.
Proof.
  unfold AxHeapTyping.all_ext, ctx_int. rewrite !forallb_forall. intros H b Hb. specialize (H b Hb).
  apply andb_true_iff in H as [K T]. apply chi_eqb_eq in K. apply ty_eqb_eq in T. unfold is_int_binding. now rewrite K, T.
Qed.

Theorem x86_codegen_simulates p lc cs n lc' args fuel o :
  lin_check_prog p = true -> ann_check_prog p = true -> AxHeapTyping.entry_ext p = true ->
  plain_names p = true -> plain_types p = true ->
  x86_compile p lc = Ok (cs, n, lc') -> asm_wf cs = None -> code_small cs = true ->
  List.length args = n -> heap_fits p args ->
  run_linear fuel p args = o -> snd o <> OOutOfFuel ->
  exists outer inner, fst (run_x86 outer inner cs args) = o.
Proof.
  intros LIN ANN EI PL PLTY XC WF SM.
  unfold x86_compile, x86_compile_with in XC.
  destruct (compile x86_backend p lc) as [[[is n0] lc0]|] eqn:CP; cbn [rbind] in XC; [|discriminate].
  destruct (into_x86_64_routine is n0) as [r|] eqn:RT; cbn [rbind] in XC; [|discriminate].
  inversion XC; subst r n0 lc0; clear XC.
  unfold compile in CP. destruct (pdefs p) as [|d0 rest] eqn:PD; [discriminate|].
  destruct (translate x86_backend (ptypes p) (d0 :: rest) lc) as [[is' lc1]|] eqn:TR; cbn [rbind] in CP; [|discriminate].
  cbn in CP. inversion CP; subst is n lc'; clear CP.
  unfold into_x86_64_routine in RT. destruct (setup (List.length (dctx d0))) as [su|] eqn:SU; cbn [rbind] in RT; [|discriminate].
  inversion RT; subst cs; clear RT.
  intros NARGS FITS RUN G.
  assert (LEN : List.length args = List.length (dctx d0)) by exact NARGS.
  destruct (bind_total (vars (dctx d0)) (map VInt args)) as (e0 & EE); [unfold vars; rewrite !map_length; auto|].
  assert (LE5 : (List.length args <= 5)%nat).
  { rewrite LEN. destruct (List.length (dctx d0)) as [|[|[|[|[|[|k]]]]]] eqn:K; try lia.
    exfalso. unfold setup in SU. cbn [move_arguments Nat.ltb Nat.leb] in SU. discriminate. }
  set (cs := preamble ++ su ++ is' ++ cleanup) in *.
  set (im := mk_image cs).
  destruct (mk_image_layout cs WF) as [CA LA]. fold im in CA, LA.
  assert (IMG : img_ok im) by apply mk_image_ok.
  assert (BACK : back_ok im) by apply mk_image_back.
  assert (SMALL : forall pc a, PM.find pc (addr_of im) = Some a -> a < 4611686018427387904) by (apply mk_image_small; exact SM).
  assert (ENC : forall pc c, PM.find pc (code im) = Some c -> instr_wf c = true).
  { intros pc c Hc. apply mk_image_code_in in Hc. apply (asm_wf_enc cs WF c Hc). }
  assert (PLT : forall d, In d (ptypes p) -> is_hash_label (label_of_type_name (show_ident (tname d))) = false).
  { unfold plain_types in PLTY. rewrite forallb_forall in PLTY. intros d Hd. specialize (PLTY d Hd).
    destruct (is_hash_label _); [discriminate|reflexivity]. }
  assert (DEFS : forall d, In d (pdefs p) ->
    exists pcd lcd cd lcd', find_label (labels im) (show_ident (dname d) +++ "_") = Some pcd /\
      PM.find pcd (code im) = Some (LAB (show_ident (dname d) +++ "_")) /\
      xcs (ptypes p) (dbody d) (dctx d) lcd = Ok (cd, lcd') /\
      code_at im (Pos.succ pcd) cd /\ labels_at_nh im (Pos.succ pcd) cd).
  { intros d Hd. rewrite PD in Hd.
    destruct (translate_defs (ptypes p) _ _ _ _ TR d Hd) as (pre & lcd & cd & lcd' & post & EQ & CD).
    assert (NH : is_hash_label (show_ident (dname d) +++ "_") = false).
    { unfold plain_names in PL. rewrite forallb_forall in PL. rewrite <- PD in Hd. specialize (PL d Hd).
      destruct (is_hash_label (show_ident (dname d) +++ "_")) eqn:E; auto.
      apply is_hash_app_ in E. rewrite E in PL. discriminate. }
    destruct (layout_at im cs (preamble ++ su ++ pre) (LAB (show_ident (dname d) +++ "_") :: cd) (post ++ cleanup) CA LA)
      as [CAd LAd].
    { unfold cs. rewrite EQ. rewrite <- !app_assoc. cbn [app]. rewrite <- !app_assoc. reflexivity. }
    exists (padd 1%positive (List.length (preamble ++ su ++ pre))), lcd, cd, lcd'.
    apply code_at_cons in CAd as [C0 C1].
    change (LAB (show_ident (dname d) +++ "_") :: cd) with ([LAB (show_ident (dname d) +++ "_")] ++ cd) in LAd.
    pose proof LAd as LAd'. apply labels_at_nh_app in LAd' as [_ L1]. cbn [List.length padd] in L1.
    split; [exact (LAd O _ eq_refl NH)|]. split; [exact C0|]. split; [exact CD|]. split; [exact C1|exact L1]. }
  assert (CLEAN : exists pcc, find_label (labels im) "cleanup" = Some pcc /\ code_at im pcc cleanup).
  { destruct (layout_at im cs (preamble ++ su ++ is') cleanup [] CA LA) as [CAc LAc].
    { unfold cs. rewrite app_nil_r, <- !app_assoc. reflexivity. }
    exists (padd 1%positive (List.length (preamble ++ su ++ is'))). split; [|exact CAc].
    exact (LAc O "cleanup"%string eq_refl eq_refl). }
  (* the run of the instrumented machine *)
  assert (ERUN : o = fst (fst (hexec fuel p (mkhc (attach e0 []) (Heap.init HEAP_BASE) (dbody d0)) [] []))).
  { rewrite AxHeapErase.hexec_erase. cbn [hc_env hc_stmt]. rewrite AxHeapErase.erase_attach.
    unfold run_linear in RUN. rewrite PD in RUN. unfold entry_env in RUN. rewrite EE in RUN. congruence. }
  assert (D0 : In d0 (pdefs p)) by (rewrite PD; now left).
  assert (I1 : ctx_int (dctx d0) = true).
  { apply all_ext_ctx_int. unfold AxHeapTyping.entry_ext in EI. rewrite PD in EI. exact EI. }
  assert (HI0 : hinv p (attach e0 []) (Heap.init HEAP_BASE) (dbody d0)).
  { split.
    - apply (AxHeapSafe.hinit_inv HEAP_BASE d0 e0 args); [unfold HEAP_BASE; lia|exact EE].
    - apply (AxHeapTyping.hinit_wt HEAP_BASE p d0 rest e0 args LIN EI PD EE).
    - apply P03_init.
    - intros tr c' HSs. apply (FITS tr c'). exists d0, rest, e0. repeat split; auto. }
  assert (FIN : finishes im 6%positive (init_state args) o).
  { destruct (layout_at im cs [NOEXECSTACK; TEXT; EXTERN "print_i64"; EXTERN "println_i64"; GLOBAL "asm_main"]
                [LAB "asm_main"] (su ++ is' ++ cleanup) CA LA eq_refl) as [CA0 _].
    destruct (layout_at im cs preamble su (is' ++ cleanup) CA LA eq_refl) as [CA1 _].
    cbn [List.length padd preamble] in CA0, CA1.
    rewrite <- LEN in SU. destruct (hprologue_ok im args su SU) as (s1 & E1 & F1 & OK1 & O1 & RH1 & RF1 & HE1 & RG1).
    cbn [translate] in TR.
    destruct (xcs (ptypes p) (dbody d0) (dctx d0) lc) as [[cd0 lcd0]|] eqn:C0; cbn [rbind] in TR; [|discriminate].
    destruct (translate x86_backend (ptypes p) rest lcd0) as [[c2 lc2]|] eqn:TR2; cbn [rbind] in TR; [|discriminate].
    cbn in TR. inversion TR; subst is' lc1; clear TR.
    destruct (layout_at im cs (preamble ++ su) (LAB (show_ident (dname d0) +++ "_") :: cd0) (c2 ++ cleanup) CA LA) as [CAe LAe].
    { unfold cs. rewrite <- !app_assoc. cbn [app]. rewrite <- !app_assoc. reflexivity. }
    apply code_at_cons in CAe as [CL CAe].
    change (LAB (show_ident (dname d0) +++ "_") :: cd0) with ([LAB (show_ident (dname d0) +++ "_")] ++ cd0) in LAe.
    apply labels_at_nh_app in LAe as [_ LAe]. cbn [List.length padd] in LAe.
    rewrite app_length in CL. cbn [List.length preamble] in CL. rewrite padd_add in CL. cbn [padd] in CL.
    eapply exec_to_finishes.
    { eapply exec_next; [apply (CA0 O _ eq_refl)|reflexivity|].
      eapply exec_to_trans; [apply (exec_straight_exec_to im su _ _ s1 CA1 E1)|].
      eapply exec_next; [exact CL|reflexivity|apply exec_refl]. }
    rewrite ERUN.
    assert (R0 : hrel (ptypes p) (hclo_ok im p) (dctx d0) (attach e0 []) (Heap.init HEAP_BASE) s1 sp0).
    { eapply hentry_rel; eauto. eapply lin_nodup. unfold lin_check_prog in LIN. rewrite forallb_forall in LIN. exact (LIN d0 D0). }
    rewrite app_length in CAe, LAe. cbn [List.length preamble] in CAe, LAe. rewrite padd_add in CAe, LAe. cbn [padd] in CAe, LAe.
    eapply (hsim_exec im p sp0 IMG BACK SMALL ENC PLT DEFS CLEAN LIN ANN) with (c := dctx d0) (lc := lc); eauto.
    - unfold lin_check_prog in LIN. rewrite forallb_forall in LIN. exact (LIN d0 D0).
    - unfold ann_check_prog in ANN. rewrite forallb_forall in ANN. exact (ANN d0 D0).
    - rewrite attach_names. exact (bind_ids _ _ _ EE).
    - unfold not_oof. rewrite <- ERUN. exact G. }
  destruct (finishes_run im _ _ _ FIN) as (outer & inner & RN).
  exists outer, inner. unfold run_x86. cbv zeta. change (mk_image _) with im.
  assert (AM : find_label (labels im) "asm_main" = Some 6%positive).
  { exact (LA 5%nat "asm_main"%string eq_refl eq_refl). }
  rewrite AM. destruct (Nat.ltb_spec 5 (List.length args)); [lia|]. exact RN.
Qed.
Print Assumptions x86_codegen_simulates.
