(* C15: witness programs, by computation.
   - soundness of the model of the type checker is false (ill-formed types in declarations are
     accepted): still the behaviour of the real checker, confirmed by every correspondence run;
   - the instance-order programs are REGRESSION inputs: the checker before fix d524b1f
     ([check_before_fix]) rejected them although they are well-typed, the checker as it is ([check])
     accepts them, in every order of the definitions.
   The same programs are in corpus/fun/c15-*.sc. *)
From Coq Require Import List ZArith String Bool Permutation.
From SCC Require Import Lang.FunSyn Model.Check Sem.FunTyping.
Import ListNotations.
Open Scope string_scope.

(* corpus/fun/c15-wt-instance-order.sc:
     data Bar { MkBar }   codata Foo { get : Bar }   def f(): Foo { new { get => MkBar } } *)
Definition p_instance_order : fprog :=
  mkfprog [FDData (mkfdata "Bar" [] [mkfctor "MkBar" []]);
           FDCodata (mkfcodata "Foo" [] [mkfdtor "get" [] (FDecl "Bar" [])]);
           FDDef (mkfdef "f" [] (FDecl "Foo" [])
                    (FNew [FClause FCodata "get" [] [] (FCtor "MkBar" [] None)] None))].
(* corpus/fun/c15-wt-instance-order-reordered.sc: the same with  def g(x: Bar): i64 { 0 }  before f *)
Definition p_instance_order_fixed : fprog :=
  mkfprog [FDData (mkfdata "Bar" [] [mkfctor "MkBar" []]);
           FDCodata (mkfcodata "Foo" [] [mkfdtor "get" [] (FDecl "Bar" [])]);
           FDDef (mkfdef "g" [mkfb "x" FPrd (FDecl "Bar" [])] FI64 (FLit 0));
           FDDef (mkfdef "f" [] (FDecl "Foo" [])
                    (FNew [FClause FCodata "get" [] [] (FCtor "MkBar" [] None)] None))].
(* ... and with g AFTER f: rejected again before the fix - acceptance depended on the order *)
Definition p_instance_order_late : fprog :=
  mkfprog [FDData (mkfdata "Bar" [] [mkfctor "MkBar" []]);
           FDCodata (mkfcodata "Foo" [] [mkfdtor "get" [] (FDecl "Bar" [])]);
           FDDef (mkfdef "f" [] (FDecl "Foo" [])
                    (FNew [FClause FCodata "get" [] [] (FCtor "MkBar" [] None)] None));
           FDDef (mkfdef "g" [mkfb "x" FPrd (FDecl "Bar" [])] FI64 (FLit 0))].

Lemma instance_order_well_typed : has_type_b p_instance_order = true.
Proof. vm_compute. reflexivity. Qed.
(* the checker as it is accepts all three *)
Lemma instance_order_accepted : exists q, check p_instance_order = COk q.
Proof. eexists. vm_compute. reflexivity. Qed.
Lemma instance_order_fixed_accepted : exists q, check p_instance_order_fixed = COk q.
Proof. eexists. vm_compute. reflexivity. Qed.
Lemma instance_order_late_accepted : exists q, check p_instance_order_late = COk q.
Proof. eexists. vm_compute. reflexivity. Qed.
(* before the fix: rejected, and dependent on the order of the definitions *)
Lemma instance_order_rejected_before_fix : check_before_fix p_instance_order = CErr EUndefined.
Proof. vm_compute. reflexivity. Qed.
Lemma instance_order_fixed_accepted_before_fix : exists q, check_before_fix p_instance_order_fixed = COk q.
Proof. eexists. vm_compute. reflexivity. Qed.
Lemma instance_order_late_rejected_before_fix :
  has_type_b p_instance_order_late = true /\ check_before_fix p_instance_order_late = CErr EUndefined.
Proof. split; vm_compute; reflexivity. Qed.

(* corpus/fun/c15-ill-accepted-decl-type-args.sc:
     data List[A] { Nil, Cons(x: A, xs: List[A]) }   data Foo { C(x: List) }   def main(): i64 { 0 } *)
Definition p_decl_type_args : fprog :=
  mkfprog [FDData (mkfdata "List" ["A"] [mkfctor "Nil" [];
                                         mkfctor "Cons" [mkfb "x" FPrd (FDecl "A" []);
                                                         mkfb "xs" FPrd (FDecl "List" [FDecl "A" []])]]);
           FDData (mkfdata "Foo" [] [mkfctor "C" [mkfb "x" FPrd (FDecl "List" [])]]);
           FDDef (mkfdef "main" [] FI64 (FLit 0))].
Lemma decl_type_args_ill_typed : has_type_b p_decl_type_args = false.
Proof. vm_compute. reflexivity. Qed.
(* rejected since fix eb42971; accepted by the code before it *)
Lemma decl_type_args_rejected : check p_decl_type_args = CErr EWrongNumberOfTypeArguments.
Proof. vm_compute. reflexivity. Qed.
Lemma decl_type_args_accepted_before_fix : exists q, old_check_decls p_decl_type_args = COk q.
Proof. eexists. vm_compute. reflexivity. Qed.

(* corpus/fun/c15-ill-accepted-decl-unknown-type.sc *)
Definition p_decl_unknown_type : fprog :=
  mkfprog [FDData (mkfdata "List" ["A"] [mkfctor "Nil" [];
                                         mkfctor "Cons" [mkfb "x" FPrd (FDecl "A" []);
                                                         mkfb "xs" FPrd (FDecl "List" [FDecl "NoSuchType" []])]]);
           FDDef (mkfdef "isEmpty" [mkfb "l" FPrd (FDecl "List" [FI64])] FI64
                    (FCase (FVar "l" None None) [FI64]
                       [FClause FData "Nil" [] [] (FLit 1); FClause FData "Cons" ["x"; "xs"] [] (FLit 0)] None));
           FDDef (mkfdef "main" [] FI64 (FCall "isEmpty" [FCtor "Nil" [] None] None))].
Lemma decl_unknown_type_ill_typed : has_type_b p_decl_unknown_type = false.
Proof. vm_compute. reflexivity. Qed.
Lemma decl_unknown_type_rejected : check p_decl_unknown_type = CErr EUndefined.
Proof. vm_compute. reflexivity. Qed.
Lemma decl_unknown_type_accepted_before_fix : exists q, old_check_decls p_decl_unknown_type = COk q.
Proof. eexists. vm_compute. reflexivity. Qed.

(* corpus/fun/c15-ill-accepted-param-applied.sc:  data Box[A] { B(x: A[i64, i64]) } … *)
Definition p_param_applied : fprog :=
  mkfprog [FDData (mkfdata "Box" ["A"] [mkfctor "B" [mkfb "x" FPrd (FDecl "A" [FI64; FI64])]]);
           FDDef (mkfdef "unbox" [mkfb "b" FPrd (FDecl "Box" [FI64])] FI64
                    (FCase (FVar "b" None None) [FI64] [FClause FData "B" ["x"] [] (FVar "x" None None)] None));
           FDDef (mkfdef "main" [] FI64 (FCall "unbox" [FCtor "B" [FLit 1] None] None))].
Lemma param_applied_ill_typed : has_type_b p_param_applied = false.
Proof. vm_compute. reflexivity. Qed.
Lemma param_applied_rejected : check p_param_applied = CErr EWrongNumberOfTypeArguments.
Proof. vm_compute. reflexivity. Qed.
Lemma param_applied_accepted_before_fix : exists q, old_check_decls p_param_applied = COk q.
Proof. eexists. vm_compute. reflexivity. Qed.

(* regression: soundness, full statement, was false of the checker before fix eb42971 (declaration types
   checked by head name only) *)
Lemma old_check_decls_unsound :
  ~ (forall p q, old_check_decls p = COk q -> has_type p).
Proof.
  intro H. destruct decl_type_args_accepted_before_fix as [q Hq].
  specialize (H _ _ Hq). unfold has_type in H. rewrite decl_type_args_ill_typed in H. discriminate.
Qed.
(* regression: without the line added by fix d524b1f the model is incomplete and order-dependent *)
Lemma check_before_fix_incomplete :
  ~ (forall p, has_type p -> exists q, check_before_fix p = COk q).
Proof.
  intro H. destruct (H p_instance_order instance_order_well_typed) as [q Hq].
  rewrite instance_order_rejected_before_fix in Hq. discriminate.
Qed.
Lemma check_before_fix_order_dependent :
  (exists q, check_before_fix p_instance_order_fixed = COk q) /\ check_before_fix p_instance_order_late = CErr EUndefined
  /\ Permutation (fpdecls p_instance_order_fixed) (fpdecls p_instance_order_late).
Proof.
  split; [exact instance_order_fixed_accepted_before_fix|]. split; [exact (proj2 instance_order_late_rejected_before_fix)|].
  unfold p_instance_order_fixed, p_instance_order_late; simpl.
  do 2 apply perm_skip. apply perm_swap.
Qed.
