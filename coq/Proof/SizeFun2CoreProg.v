(* C19, fun2core: whole programs.  compile_prog p = Ok c ->
     cz k (all definitions of c, the lifted share_* ones included)
        <= fz k p * (6 + (2 + k) * (fun_occ p + 2))
   for k = 0 (node counts: size_cprog / size_fcprog) and k = 1 (weighted sizes: c_wprog / f_wprog).
   fun_occ p = largest number of distinct typed variable occurrences in a definition (<= 2 * size). *)
From Coq Require Import List ZArith NArith String Bool Lia.
From SCC Require Import Base.Sexp Lang.SynUtil Lang.FunSyn Lang.FunTy Lang.CoreSyn Lang.AxSize Lang.CoreSize.
From SCC Require Import Model.Fun2Core Model.SizeFun Proof.Fun2CoreProof Proof.Fun2CoreTfv Proof.Fun2CoreInv
     Proof.Fun2CoreProg Proof.SizeLin Proof.SizeGen Proof.SizeFun2CoreFv Proof.SizeFun2Core Proof.SizeFun2CoreEntry.
Import ListNotations.
Open Scope string_scope.
Open Scope list_scope.
Open Scope N_scope.
Local Arguments N.add : simpl never.
Local Arguments N.mul : simpl never.
Local Arguments len : simpl never.

Lemma bdedup_In : forall l x, In x (bdedup l) <-> In x l.
Proof.
  induction l as [|y r IH]; intros x; cbn [bdedup]; [tauto|].
  destruct (existsb (cbinding_eqb y) r) eqn:E.
  - rewrite IH. split; [intros H; right; exact H|]. intros [H|H]; [|exact H]. subst y.
    apply existsb_exists in E. destruct E as [z [Hz Ez]]. apply cbinding_eqb_eq in Ez. subst z. exact Hz.
  - simpl. rewrite IH. tauto.
Qed.
Lemma bdedup_len : forall l, len (bdedup l) <= len l.
Proof.
  induction l as [|y r IH]; cbn [bdedup]; [lia|]. destruct (existsb (cbinding_eqb y) r); rewrite !len_cons; lia.
Qed.

Lemma Q_factor : forall k U, Q k U = f2c_factor k (len U).
Proof. intros. unfold Q, kL, L, f2c_factor. lia. Qed.
Lemma f2c_factor_mono : forall k V V', V <= V' -> f2c_factor k V <= f2c_factor k V'.
Proof. intros k V V' H. unfold f2c_factor. apply N.add_le_mono_l. apply N.mul_le_mono_l. lia. Qed.
Section Prog.
  Variable k : N.
  Variable codata : list ctydecl.

  Definition Ud (d : fdef) : list cbinding := bdedup (tocc (fdbody d)).
  Definition Qd (d : fdef) : N := Q k (Ud d).
  Lemma Qd_factor : forall d, Qd d = f2c_factor k (fun_occ_def d).
  Proof. intros d. unfold Qd. rewrite Q_factor. reflexivity. Qed.
  Lemma Ud_incl : forall d, incl (tocc (fdbody d)) (Ud d).
  Proof. intros d x Hx. apply bdedup_In. exact Hx. Qed.

  Lemma k_le_Q : forall U, k <= Q k U.
  Proof. intros U. pose proof (k_le_kL k U). rewrite Q_eq. lia. Qed.

  Lemma def_size : forall d ul g ul', compile_def false d codata ul = Ok (g, ul') ->
    cz_defs k g <= fz_def k d * Qd d.
  Proof.
    intros d ul g ul' H. unfold compile_def, run_def_body in H.
    destruct (fterm_type (fdbody d)) as [bty|]; [|discriminate].
    match type of H with rbind ?e _ = _ => destruct e as [[[a body] st]|e0] eqn:E; [|discriminate] end.
    cbn [rbind] in H. inversion H; subst; clear H.
    minv E. minv E. apply mret_inv in E. destruct E as [Ea Eb]. inversion Ea; subst; clear Ea.
    pose proof (fresh_covar_lz k _ _ _ E0) as Hl. unfold lz in Hl. cbn [st_lifted cz_defs] in Hl.
    pose proof (sz_wc codata (fdname d) k (Ud d) (fdbody d) _ _ _ _ E1 (cok_var _ _ _ _) (Ud_incl d)) as Hs.
    unfold lz in Hs. rewrite Hl in Hs. cbn [cz_term] in Hs.
    cbn [cz_defs]. unfold cz_def at 1. cbn [cdctx cdbody]. rewrite len_app, len_cons, len_nil. unfold compile_ctx. rewrite len_map.
    unfold fz_def. fold (Qd d) in *. unfold P in Hs. fold (Qd d) in Hs.
    pose proof (mulQ_ge k (Ud d) (k * len (fdctx d))) as Hm. fold (Qd d) in Hm.
    pose proof (k_le_Q (Ud d)) as Hk. fold (Qd d) in Hk. lia.
  Qed.

  (* the same with the slack that pays for the entry point when main is called: 9 units per definition and per
     weighted parameter *)
  Lemma two_mul_Q : forall U x, 10 * x <= x * Q k U.
  Proof. intros U x. rewrite (N.mul_comm 10 x). apply N.mul_le_mono_l. rewrite Q_eq. unfold L. lia. Qed.
  Lemma def_size_slack : forall d ul g ul', compile_def false d codata ul = Ok (g, ul') ->
    cz_defs k g + 9 * (1 + k * len (fdctx d)) <= fz_def k d * Qd d.
  Proof.
    intros d ul g ul' H. unfold compile_def, run_def_body in H.
    destruct (fterm_type (fdbody d)) as [bty|]; [|discriminate].
    match type of H with rbind ?e _ = _ => destruct e as [[[a body] st]|e0] eqn:E; [|discriminate] end.
    cbn [rbind] in H. inversion H; subst; clear H.
    minv E. minv E. apply mret_inv in E. destruct E as [Ea Eb]. inversion Ea; subst; clear Ea.
    pose proof (fresh_covar_lz k _ _ _ E0) as Hl. unfold lz in Hl. cbn [st_lifted cz_defs] in Hl.
    pose proof (sz_wc codata (fdname d) k (Ud d) (fdbody d) _ _ _ _ E1 (cok_var _ _ _ _) (Ud_incl d)) as Hs.
    unfold lz in Hs. rewrite Hl in Hs. cbn [cz_term] in Hs.
    cbn [cz_defs]. unfold cz_def at 1. cbn [cdctx cdbody]. rewrite len_app, len_cons, len_nil. unfold compile_ctx. rewrite len_map.
    unfold fz_def. fold (Qd d) in *. unfold P in Hs. fold (Qd d) in Hs.
    pose proof (two_mul_Q (Ud d) (k * len (fdctx d))) as Hm. fold (Qd d) in Hm.
    assert (Hq : 10 + 2 * k <= Qd d).
    { unfold Qd. rewrite Q_eq. unfold kL, L. nia. }
    lia.
  Qed.

  Lemma main_size : forall d ul g ul', compile_main false d codata ul = Ok (g, ul') ->
    cz_defs k g <= fz_def k d * Qd d.
  Proof.
    intros d ul g ul' H. unfold compile_main, run_def_body in H.
    destruct (fterm_type (fdbody d)) as [bty|]; [|discriminate].
    match type of H with rbind ?e _ = _ => destruct e as [[body st]|e0] eqn:E; [|discriminate] end.
    cbn [rbind] in H. inversion H; subst; clear H.
    minv E. assert (Hl : cz_defs k (st_lifted st0) = 0) by (apply fresh_in_vars_inv in E0; destruct E0 as (_ & _ & _ & E0); rewrite E0; reflexivity).
    assert (Hc : cok (Ud d) (CMu CCns (new_id x) (CExit (CXVar CPrd (new_id x) (compile_ty bty)) (compile_ty bty)) (compile_ty bty))).
    { split; [reflexivity|]. exists (mkcb (new_id x) CPrd (compile_ty bty)). intros bb Hb. apply fvt_mu_1 in Hb.
      apply fvs_exit in Hb. apply fvt_var in Hb. left. symmetry. exact Hb. }
    pose proof (sz_wc codata (fdname d) k (Ud d) (fdbody d) _ _ _ _ E Hc (Ud_incl d)) as Hs.
    unfold lz in Hs. rewrite Hl in Hs. cbn [cz_term cz_stmt] in Hs.
    cbn [cz_defs]. unfold cz_def at 1. cbn [cdctx cdbody]. unfold compile_ctx. rewrite len_map.
    unfold fz_def. fold (Qd d) in *. unfold P in Hs. fold (Qd d) in Hs.
    pose proof (mulQ_ge k (Ud d) (k * len (fdctx d))) as Hm. fold (Qd d) in Hm.
    assert (Hq : 2 <= Qd d) by (unfold Qd; rewrite Q_eq; lia). lia.
  Qed.

  (* the definitions that come first: compile_main of main, or (main is called) the entry point and main compiled by
     compile_def.  The entry point costs 5 + (1 + k) * #params units: paid by the slack of main's own bound, except - for
     node counts, k = 0 - the #params variables of the call *)
  Lemma main_group_size : forall called d ul g ul', compile_main_group false called d codata ul = Ok (g, ul') ->
    cz_defs k g <= fz_def k d * Qd d + (if called then len (fdctx d) else 0).
  Proof.
    intros called d ul g ul' H.
    destruct (compile_main_group_inv _ _ _ _ _ _ _ H) as [[_ Hm]|[Hc [nm [e [ule [m [_ [He [Hm ->]]]]]]]]].
    - pose proof (main_size _ _ _ _ Hm). lia.
    - rewrite andb_true_r in Hc. subst called. rewrite cz_defs_app, (entry_size k _ _ _ _ _ _ He).
      pose proof (def_size_slack _ _ _ _ Hm). lia.
  Qed.
  Lemma main_group_size_weighted : forall called d ul g ul', 1 <= k ->
    compile_main_group false called d codata ul = Ok (g, ul') -> cz_defs k g <= fz_def k d * Qd d.
  Proof.
    intros called d ul g ul' Hk H.
    destruct (compile_main_group_inv _ _ _ _ _ _ _ H) as [[_ Hm]|[Hc [nm [e [ule [m [_ [He [Hm ->]]]]]]]]].
    - exact (main_size _ _ _ _ Hm).
    - rewrite cz_defs_app, (entry_size k _ _ _ _ _ _ He).
      pose proof (def_size_slack _ _ _ _ Hm). assert (len (fdctx d) <= k * len (fdctx d)) by nia. lia.
  Qed.

  Lemma defs_size : forall called defs ul front back res,
    compile_defs false called defs codata ul front back = Ok res ->
    cz_defs k res <= cz_defs k front + cz_defs k back + nsum (fun d => fz_def k d * Qd d) defs
                     + (if called then nsum main_params defs else 0).
  Proof.
    intros called. induction defs as [|d r IH]; intros ul front back res H; cbn [compile_defs] in H.
    - inversion H; subst. rewrite cz_defs_app, cz_defs_rev_append. cbn [cz_defs nsum]. destruct called; lia.
    - rewrite !nsum_cons. unfold main_params at 1. destruct (String.eqb (fdname d) "main").
      + destruct (compile_main_group false called d codata ul) as [g|e] eqn:E; [|discriminate]. cbn [rbind] in H.
        apply IH in H. rewrite cz_defs_app in H. destruct g as [g ul']. pose proof (main_group_size _ _ _ _ _ E). cbn [fst] in H.
        destruct called; lia.
      + destruct (compile_def false d codata ul) as [g|e] eqn:E; [|discriminate]. cbn [rbind] in H.
        apply IH in H. rewrite cz_defs_rev_append in H. destruct g as [g ul']. pose proof (def_size _ _ _ _ E). cbn [fst] in H.
        destruct called; lia.
  Qed.
  Lemma defs_size_weighted : forall called defs ul front back res, 1 <= k ->
    compile_defs false called defs codata ul front back = Ok res ->
    cz_defs k res <= cz_defs k front + cz_defs k back + nsum (fun d => fz_def k d * Qd d) defs.
  Proof.
    intros called defs ul front back res Hk. revert ul front back res.
    induction defs as [|d r IH]; intros ul front back res H; cbn [compile_defs] in H.
    - inversion H; subst. rewrite cz_defs_app, cz_defs_rev_append. cbn [cz_defs nsum]. lia.
    - rewrite nsum_cons. destruct (String.eqb (fdname d) "main").
      + destruct (compile_main_group false called d codata ul) as [g|e] eqn:E; [|discriminate]. cbn [rbind] in H.
        apply IH in H. rewrite cz_defs_app in H. destruct g as [g ul']. pose proof (main_group_size_weighted _ _ _ _ _ Hk E). cbn [fst] in H. lia.
      + destruct (compile_def false d codata ul) as [g|e] eqn:E; [|discriminate]. cbn [rbind] in H.
        apply IH in H. rewrite cz_defs_rev_append in H. destruct g as [g ul']. pose proof (def_size _ _ _ _ E). cbn [fst] in H. lia.
  Qed.
End Prog.

Lemma fun_occ_def_le : forall p d, In d (fcpdefs p) -> fun_occ_def d <= fun_occ p.
Proof.
  intros p d H. unfold fun_occ. induction (fcpdefs p) as [|y r IH]; [contradiction|].
  cbn [map fold_right]. destruct H as [H|H]; [subst; lia|]. specialize (IH H). lia.
Qed.

(* since fix f929eb7 of /repo a program in which main is called gets one more definition, the entry point
   def main<n>(params) { main(params, mu~x. exit x) }  of 5 + (1 + k) * #params units.  The slack of main's own bound pays
   for all of it but the #params argument variables when k = 0 (the parameters of a definition are not nodes of the
   source): additive term entry_params p (Model/SizeFun.v; 0 when main is not called); none for k >= 1 *)
Lemma defs_factor : forall k p l, (forall d, In d l -> In d (fcpdefs p)) ->
  nsum (fun d => fz_def k d * Qd k d) l <= nsum (fz_def k) l * f2c_factor k (fun_occ p).
Proof.
  intros k p. induction l as [|d r IH]; intros Hin; [cbn [nsum]; lia|]. rewrite !nsum_cons, N.mul_add_distr_r.
  apply N.add_le_mono; [|apply IH; intros d' Hd'; apply Hin; right; exact Hd'].
  apply N.mul_le_mono_l. rewrite Qd_factor. apply f2c_factor_mono. apply fun_occ_def_le. apply Hin. left. reflexivity.
Qed.
Theorem fun2core_size_gen : forall k p c, compile_prog p = Ok c ->
  cz_defs k (cpdefs c) <= fz_prog k p * f2c_factor k (fun_occ p) + entry_params p.
Proof.
  intros k p c H. unfold compile_prog, compile_prog_gen in H.
  match type of H with rbind ?e _ = _ => destruct e as [defs|e0] eqn:E; [|discriminate] end.
  cbn [rbind] in H. inversion H; subst; clear H. cbn [cpdefs].
  apply defs_size with (k := k) in E. cbn [cz_defs] in E. eapply N.le_trans; [exact E|]. clear E.
  unfold fz_prog, entry_params. rewrite !N.add_0_l. apply N.add_le_mono_r. apply defs_factor. auto.
Qed.
Theorem fun2core_size_gen_weighted : forall k p c, 1 <= k -> compile_prog p = Ok c ->
  cz_defs k (cpdefs c) <= fz_prog k p * f2c_factor k (fun_occ p).
Proof.
  intros k p c Hk H. unfold compile_prog, compile_prog_gen in H.
  match type of H with rbind ?e _ = _ => destruct e as [defs|e0] eqn:E; [|discriminate] end.
  cbn [rbind] in H. inversion H; subst; clear H. cbn [cpdefs].
  apply defs_size_weighted with (k := k) in E; [|exact Hk]. cbn [cz_defs] in E. eapply N.le_trans; [exact E|]. clear E.
  unfold fz_prog. rewrite !N.add_0_l. apply defs_factor. auto.
Qed.
Lemma entry_params_ncm : forall p, calls_main_prog p = false -> entry_params p = 0.
Proof. intros p H. unfold entry_params. rewrite H. reflexivity. Qed.
(* the additive term is at most the weighted source size (which counts the parameters of every definition) *)
Lemma entry_params_le : forall p, entry_params p <= f_wprog p.
Proof.
  intros p. unfold entry_params, f_wprog, fz_prog. destruct (calls_main_prog p); [|lia].
  induction (fcpdefs p) as [|d r IH]; [cbn [nsum]; lia|]. rewrite !nsum_cons.
  apply N.add_le_mono; [|exact IH]. unfold main_params, fz_def. destruct (String.eqb (fdname d) "main"); lia.
Qed.

(* ---------- the instance k = 0 is the node count of Lang/FunSyn.v ---------- *)
Lemma fz0_size : forall t, fz 0 t = size_fterm t.
Proof.
  induction t using fterm_ind'; cbn [fz size_fterm]; try congruence.
  - rewrite IHt1, IHt2, IHt3. destruct b as [b'|]; [simpl in H; rewrite H|]; reflexivity.
  - f_equal. induction H as [|y r Hy Hr IH]; [reflexivity|]. cbn [nsum]. rewrite Hy, IH. reflexivity.
  - f_equal. induction H as [|y r Hy Hr IH]; [reflexivity|]. cbn [nsum]. rewrite Hy, IH. reflexivity.
  - rewrite IHt. f_equal. induction H as [|y r Hy Hr IH]; [reflexivity|]. cbn [nsum]. rewrite Hy, IH. reflexivity.
  - rewrite IHt. f_equal. induction H as [|y r Hy Hr IH]; [reflexivity|]. cbn [nsum]. rewrite IH.
    destruct y as [pl x names ctx body]. cbn [clause_body size_fclause] in *. rewrite Hy. lia.
  - f_equal. induction H as [|y r Hy Hr IH]; [reflexivity|]. cbn [nsum]. rewrite IH.
    destruct y as [pl x names ctx body]. cbn [clause_body size_fclause] in *. rewrite Hy. lia.
Qed.
Lemma fsum_sizes_acc : forall {X} (f : X -> N) l a, fold_left (fun acc x => acc + f x) l a = a + nsum f l.
Proof.
  intros X f l. induction l as [|x r IH]; intros a; cbn [fold_left nsum]; [lia|]. rewrite IH. lia.
Qed.
Lemma fz0_prog : forall p, fz_prog 0 p = size_fcprog p.
Proof.
  intros p. unfold fz_prog, size_fcprog, fsum_sizes. rewrite fsum_sizes_acc, N.add_0_l.
  induction (fcpdefs p) as [|d r IH]; [reflexivity|]. cbn [nsum]. rewrite IH. f_equal.
  unfold fz_def, size_fdef. rewrite fz0_size. lia.
Qed.

(* the number of typed occurrences is at most the node count *)
Lemma occ_arg_len : forall y, len (tocc y) <= size_fterm y -> len (occ_arg y) <= size_fterm y.
Proof.
  intros y H. unfold occ_arg, occ_arg_with. destruct y; try exact H. destruct chi as [[|]|]; try exact H.
  unfold occ_cns. destruct ty; cbn [size_fterm]; rewrite ?len_cons, ?len_nil; lia.
Qed.
Lemma tocc_len : forall t, len (tocc t) <= size_fterm t.
Proof.
  induction t using fterm_ind'; cbn [tocc size_fterm]; fold occ_arg; rewrite ?len_app.
  - unfold occ_prd. destruct ty as [ty0|]; rewrite ?len_cons, ?len_nil; lia.
  - rewrite len_nil. lia.
  - lia.
  - destruct b as [b'|]; [simpl in H|rewrite len_nil]; lia.
  - lia.
  - lia.
  - assert (G : len (flat_map occ_arg args) <= (fix go (l : list fterm) : N := match l with [] => 0 | y :: r => size_fterm y + go r end) args).
    { induction H as [|y r Hy Hr IH]; [cbn [flat_map]; rewrite len_nil; lia|]. cbn [flat_map]. rewrite len_app. pose proof (occ_arg_len y Hy). lia. }
    lia.
  - assert (G : len (flat_map occ_arg args) <= (fix go (l : list fterm) : N := match l with [] => 0 | y :: r => size_fterm y + go r end) args).
    { induction H as [|y r Hy Hr IH]; [cbn [flat_map]; rewrite len_nil; lia|]. cbn [flat_map]. rewrite len_app. pose proof (occ_arg_len y Hy). lia. }
    lia.
  - assert (G : len (flat_map occ_arg args) <= (fix go (l : list fterm) : N := match l with [] => 0 | y :: r => size_fterm y + go r end) args).
    { induction H as [|y r Hy Hr IH]; [cbn [flat_map]; rewrite len_nil; lia|]. cbn [flat_map]. rewrite len_app. pose proof (occ_arg_len y Hy). lia. }
    lia.
  - assert (G : len (flat_map (fun c => match c with FClause _ _ _ _ body => tocc body end) cls) <=
                (fix go (l : list fclause) : N := match l with [] => 0 | y :: r => size_fclause y + go r end) cls).
    { induction H as [|y r Hy Hr IH]; [cbn [flat_map]; rewrite len_nil; lia|]. cbn [flat_map]. rewrite len_app.
      destruct y as [pl x names ctx body]. cbn [clause_body size_fclause] in *. lia. }
    lia.
  - assert (G : len (flat_map (fun c => match c with FClause _ _ _ _ body => tocc body end) cls) <=
                (fix go (l : list fclause) : N := match l with [] => 0 | y :: r => size_fclause y + go r end) cls).
    { induction H as [|y r Hy Hr IH]; [cbn [flat_map]; rewrite len_nil; lia|]. cbn [flat_map]. rewrite len_app.
      destruct y as [pl x names ctx body]. cbn [clause_body size_fclause] in *. lia. }
    lia.
  - lia.
  - unfold occ_goto, occ_cns. destruct (fterm_type t); rewrite ?len_cons, ?len_nil; lia.
  - lia.
  - lia.
Qed.
Lemma fun_occ_le_size : forall p, fun_occ p <= size_fcprog p.
Proof.
  intros p. rewrite <- fz0_prog. unfold fun_occ, fz_prog. induction (fcpdefs p) as [|d r IH]; [cbn; lia|].
  cbn [map fold_right nsum]. assert (fun_occ_def d <= fz_def 0 d); [|lia].
  unfold fun_occ_def, fz_def. rewrite fz0_size. pose proof (bdedup_len (tocc (fdbody d))). pose proof (tocc_len (fdbody d)). lia.
Qed.

(* ---------- the statements of Props/C19.v ---------- *)
Theorem fun2core_size_nodes : forall p c, compile_prog p = Ok c ->
  size_cprog c <= size_fcprog p * (10 + 2 * fun_occ p) + entry_params p.
Proof.
  intros p c H. rewrite <- cz0_prog, <- fz0_prog. eapply N.le_trans; [apply fun2core_size_gen; exact H|].
  apply N.add_le_mono_r. apply N.mul_le_mono_l. unfold f2c_factor. lia.
Qed.
Theorem fun2core_size_weighted : forall p c, compile_prog p = Ok c ->
  c_wprog c <= f_wprog p * (12 + 3 * fun_occ p).
Proof.
  intros p c H. rewrite <- cz1_prog. unfold f_wprog. eapply N.le_trans; [apply fun2core_size_gen_weighted; [lia | exact H]|].
  apply N.mul_le_mono_l. unfold f2c_factor. lia.
Qed.
Theorem fun2core_size_quadratic : forall p c, compile_prog p = Ok c ->
  size_cprog c <= size_fcprog p * (10 + 2 * size_fcprog p) + entry_params p.
Proof.
  intros p c H. eapply N.le_trans; [apply fun2core_size_nodes; exact H|].
  apply N.add_le_mono_r. apply N.mul_le_mono_l. pose proof (fun_occ_le_size p). lia.
Qed.
Lemma f2c_bound_nodes_eq : forall p, f2c_bound_nodes p = size_fcprog p * (10 + 2 * fun_occ p) + entry_params p.
Proof. intros. unfold f2c_bound_nodes, f2c_factor. f_equal. f_equal. lia. Qed.
Lemma f2c_bound_weighted_eq : forall p, f2c_bound_weighted p = f_wprog p * (12 + 3 * fun_occ p).
Proof. intros. unfold f2c_bound_weighted, f2c_factor. f_equal. lia. Qed.

(* ---------- scoped programs: occurrences <= typed binders ---------- *)
Lemma bdedup_NoDup : forall l, NoDup (bdedup l).
Proof.
  induction l as [|y r IH]; cbn [bdedup]; [constructor|].
  destruct (existsb (cbinding_eqb y) r) eqn:E; [exact IH|]. constructor; [|exact IH].
  intros H. apply (proj1 (bdedup_In _ _)) in H. assert (existsb (cbinding_eqb y) r = true); [|congruence].
  apply existsb_exists. exists y. split; [exact H | apply cbinding_eqb_eq; reflexivity].
Qed.
Lemma occ_scoped_def_le : forall d, occ_scoped_def d = true -> fun_occ_def d <= len (def_tb d).
Proof.
  intros d H. unfold fun_occ_def, len.
  assert (List.length (bdedup (tocc (fdbody d))) <= List.length (def_tb d))%nat; [|lia].
  apply NoDup_incl_length; [apply bdedup_NoDup|]. intros b Hb. apply (proj1 (bdedup_In _ _)) in Hb.
  unfold occ_scoped_def in H. rewrite forallb_forall in H. specialize (H b Hb).
  apply existsb_exists in H. destruct H as [b' [Hin E]]. apply cbinding_eqb_eq in E. subst b'. exact Hin.
Qed.
Lemma occ_scoped_le : forall p, occ_scoped p = true -> fun_occ p <= fun_tb p.
Proof.
  intros p H. unfold occ_scoped in H. unfold fun_occ, fun_tb. induction (fcpdefs p) as [|d r IH]; [cbn; lia|].
  cbn [forallb] in H. apply andb_true_iff in H as [H1 H2]. cbn [map fold_right].
  pose proof (occ_scoped_def_le d H1). specialize (IH H2). lia.
Qed.
Theorem fun2core_size_scoped : forall p c, compile_prog p = Ok c -> occ_scoped p = true ->
  size_cprog c <= size_fcprog p * (10 + 2 * fun_tb p) + entry_params p /\ c_wprog c <= f_wprog p * (12 + 3 * fun_tb p).
Proof.
  intros p c H S. pose proof (occ_scoped_le p S) as L. split.
  - eapply N.le_trans; [apply fun2core_size_nodes; exact H|]. apply N.add_le_mono_r. apply N.mul_le_mono_l. lia.
  - eapply N.le_trans; [apply fun2core_size_weighted; exact H|]. apply N.mul_le_mono_l. lia.
Qed.
