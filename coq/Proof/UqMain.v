(* C03, uniquify preserves behaviour, part 4: [uq_aeq_all] - what the model of `uniquify` returns for a
   term that went through the pending substitution (P, C) is alpha-equivalent, under the binder
   correspondence G, to the ORIGINAL term. *)
From Coq Require Import List ZArith NArith String Bool Lia.
From SCC Require Import Base.Sexp Lang.CoreSyn Model.Backend Model.Uniquify Model.FocusCheck Proof.CoreInd
     Proof.SubstProof Proof.UniquifyProof Proof.FocusKont Proof.UqSubst Proof.UqAeq Proof.UqProof.
From SCC Require Import Model.FocusGuard.
Import ListNotations.
Open Scope list_scope.
Open Scope N_scope.

Ltac rb H x E := apply rbind_ok in H; destruct H as (x & E & H).
Ltac rb2 H x y E := apply rbind_ok in H; destruct H as ([x y] & E & H).

Definition UQt (f : nat) : Prop := forall c t P C t1 m t' m' G T,
  subst_term c t P C = Ok t1 -> uq_term f t1 m = Ok (t', m') ->
  J G P C -> GOK T m G -> T <= m -> ids_le_term T t = true -> cs_term (gsrc G) c t = true ->
  aeq_t G t t' /\ m <= m'.
Definition UQa (f : nat) : Prop := forall a P C a1 m a' m' G T,
  subst_arg a P C = Ok a1 -> uq_arg_with (uq_term f) a1 m = Ok (a', m') ->
  J G P C -> GOK T m G -> T <= m -> ids_le_arg T a = true -> cs_arg (gsrc G) a = true ->
  aeq_a G a a' /\ m <= m'.
Definition UQc (f : nat) : Prop := forall cl P C cl1 m cl' m' G T,
  subst_clause cl P C = Ok cl1 -> uq_clause f cl1 m = Ok (cl', m') ->
  J G P C -> GOK T m G -> T <= m -> ids_le_clause T cl = true -> cs_clause (gsrc G) cl = true ->
  aeq_c G cl cl' /\ m <= m'.
Definition UQs (f : nat) : Prop := forall s P C s1 m s' m' G T,
  subst_stmt s P C = Ok s1 -> uq_stmt f s1 m = Ok (s', m') ->
  J G P C -> GOK T m G -> T <= m -> ids_le_stmt T s = true -> cs_stmt (gsrc G) s = true ->
  aeq_s G s s' /\ m <= m'.

Lemma UQt_UQa : forall f, UQt f -> UQa f.
Proof.
  intros f H a P C a1 m a' m' G T S U HJ K L I SC. destruct a as [p|p]; simpl in S.
  - rb S p1 E. okinv S. simpl in U. rb2 U p' m1 E2. okinv U.
    destruct (H _ _ _ _ _ _ _ _ _ _ E E2 HJ K L I SC). split; [constructor|]; auto.
  - rb S p1 E. okinv S. simpl in U. rb2 U p' m1 E2. okinv U.
    destruct (H _ _ _ _ _ _ _ _ _ _ E E2 HJ K L I SC). split; [constructor|]; auto.
Qed.

Lemma uq_args_aeq : forall f, UQa f -> forall args P C args1 m args' m' G T,
  mapr (fun a => subst_arg a P C) args = Ok args1 -> maprs (uq_arg_with (uq_term f)) args1 m = Ok (args', m') ->
  J G P C -> GOK T m G -> T <= m -> forallb (ids_le_arg T) args = true -> forallb (cs_arg (gsrc G)) args = true ->
  aeq_as G args args' /\ m <= m'.
Proof.
  intros f H. induction args as [|a r IH]; intros P C args1 m args' m' G T S U HJ K L I SC; simpl in S.
  - okinv S. simpl in U. okinv U. split; [constructor | lia].
  - rb S a1 E1. rb S r1 E2. okinv S. simpl in U. rb2 U a' m1 E3. rb2 U r' m2 E4. okinv U.
    simpl in I, SC. apply andb_true_iff in I. destruct I as [I1 I2]. apply andb_true_iff in SC. destruct SC as [S1 S2].
    destruct (H _ _ _ _ _ _ _ _ _ E1 E3 HJ K L I1 S1) as [A1 L1].
    destruct (IH _ _ _ _ _ _ _ _ E2 E4 HJ (GOK_mono _ _ _ _ K L1) ltac:(lia) I2 S2) as [A2 L2].
    split; [constructor; auto | lia].
Qed.
Lemma uq_clauses_aeq : forall f, UQc f -> forall cls P C cls1 m cls' m' G T,
  mapr (fun a => subst_clause a P C) cls = Ok cls1 -> maprs (uq_clause f) cls1 m = Ok (cls', m') ->
  J G P C -> GOK T m G -> T <= m -> forallb (ids_le_clause T) cls = true -> forallb (cs_clause (gsrc G)) cls = true ->
  aeq_cs G cls cls' /\ m <= m'.
Proof.
  intros f H. induction cls as [|a r IH]; intros P C cls1 m cls' m' G T S U HJ K L I SC; simpl in S.
  - okinv S. simpl in U. okinv U. split; [constructor | lia].
  - rb S a1 E1. rb S r1 E2. okinv S. simpl in U. rb2 U a' m1 E3. rb2 U r' m2 E4. okinv U.
    simpl in I, SC. apply andb_true_iff in I. destruct I as [I1 I2]. apply andb_true_iff in SC. destruct SC as [S1 S2].
    destruct (H _ _ _ _ _ _ _ _ _ E1 E3 HJ K L I1 S1) as [A1 L1].
    destruct (IH _ _ _ _ _ _ _ _ E2 E4 HJ (GOK_mono _ _ _ _ K L1) ltac:(lia) I2 S2) as [A2 L2].
    split; [constructor; auto | lia].
Qed.

Lemma scoped_of_cs : forall G c x, match sfind (gsrc G) x with Some ch => cchi_eqb ch c | None => true end = true ->
  scoped_at G c x.
Proof.
  intros G c x H. unfold scoped_at. rewrite sfind_gsrc in H. destruct (gfind G x) as [[ch x']|]; simpl in H; [|exact I].
  destruct ch, c; simpl in H; try discriminate; reflexivity.
Qed.

Lemma in_remove_key : forall v k P, In k (keys (subst_remove v P)) -> k <> v.
Proof.
  intros v k P H E. subst k. unfold keys, subst_remove in H. apply in_map_iff in H. destruct H as ([k t] & EQ & H).
  simpl in EQ. subst k. apply filter_In in H. simpl in H. destruct H as [_ H]. rewrite cident_eqb_refl in H. discriminate.
Qed.
Lemma in_remove_ctx_key : forall ctx k P, In k (keys (subst_remove_ctx ctx P)) -> ~ In k (cvars ctx).
Proof.
  intros ctx k P H E. unfold keys, subst_remove_ctx in H. apply in_map_iff in H. destruct H as ([k0 t] & EQ & H).
  simpl in EQ. subst k0. apply filter_In in H. simpl in H. destruct H as [_ H]. apply negb_true_iff in H.
  assert (X : existsb (cident_eqb k) (cvars ctx) = true) by (apply existsb_exists; exists k; split; auto; apply cident_eqb_refl).
  congruence.
Qed.

(* the substitution for a renamed mu binder composes with the pending one *)
Lemma compose_mu : forall s P C v s1 s2 P2 C2,
  rvar0 P -> rvar0 C -> cid_id v = 0 ->
  (forall k, In k (keys P2 ++ keys C2) -> k = v) ->
  subst_stmt s (subst_remove v P) (subst_remove v C) = Ok s1 -> subst_stmt s1 P2 C2 = Ok s2 ->
  subst_stmt s (P2 ++ subst_remove v P) (C2 ++ subst_remove v C) = Ok s2.
Proof.
  intros s P C v s1 s2 P2 C2 RP RC Z KV S1 S2. eapply subst_compose; eauto.
  assert (R : forall S, rvar0 S -> rvar (subst_remove v S) (keys P2 ++ keys C2)).
  { intros S RS k t I. unfold subst_remove in I. apply filter_In in I. destruct (RS k t (proj1 I)) as (ch & n & ty & E & NZ).
    exists ch, n, ty. split; auto. intros Q. apply KV in Q. subst n. congruence. }
  split; [apply R; exact RP|]. split; [apply R; exact RC|].
  intros k Hk F. apply KV in Hk. subst k. apply in_app_or in F. destruct F as [F|F]; apply in_remove_key in F; congruence.
Qed.

Lemma compose_ctx : forall s P C ctx m ctx' vs cs m1 s1 s2,
  rvar0 P -> rvar0 C -> uqc ctx m = (ctx', vs, cs, m1) ->
  subst_stmt s (subst_remove_ctx ctx P) (subst_remove_ctx ctx C) = Ok s1 ->
  (if is_nil vs && is_nil cs then Ok s1 else subst_stmt s1 vs cs) = Ok s2 ->
  subst_stmt s (vs ++ subst_remove_ctx ctx P) (cs ++ subst_remove_ctx ctx C) = Ok s2.
Proof.
  intros s P C ctx m ctx' vs cs m1 s1 s2 RP RC U S1 S2.
  destruct (is_nil vs && is_nil cs) eqn:NIL.
  - apply andb_true_iff in NIL. destruct NIL as [N1 N2]. destruct vs; [|discriminate]. destruct cs; [|discriminate].
    okinv S2. exact S1.
  - destruct (uqc_spec _ _ _ _ _ _ U) as (L & CL & FV & FC & _).
    assert (KEY : forall k, In k (keys vs ++ keys cs) -> In k (cvars ctx) /\ cid_id k = 0).
    { intros k Hk. apply in_app_or in Hk. destruct Hk as [Hk|Hk]; unfold keys in Hk; apply in_map_iff in Hk;
        destruct Hk as ([k0 t] & EQ & Hk); simpl in EQ; subst k0;
        [destruct (FV _ _ Hk) as (? & ? & ? & _ & _ & A & B) | destruct (FC _ _ Hk) as (? & ? & ? & _ & _ & A & B)]; auto. }
    eapply subst_compose; eauto.
    assert (R : forall S, rvar0 S -> rvar (subst_remove_ctx ctx S) (keys vs ++ keys cs)).
    { intros S RS k t I. unfold subst_remove_ctx in I. apply filter_In in I. destruct (RS k t (proj1 I)) as (ch & n & ty & E & NZ).
      exists ch, n, ty. split; auto. intros Q. apply KEY in Q. destruct Q as [_ Q]. congruence. }
    split; [apply R; exact RP|]. split; [apply R; exact RC|].
    intros k Hk F. apply KEY in Hk. destruct Hk as [Hk _]. apply in_app_or in F.
    destruct F as [F|F]; apply in_remove_ctx_key in F; contradiction.
Qed.

Theorem uq_aeq_all : forall f, UQt f /\ UQc f /\ UQs f.
Proof.
  induction f as [|f (Ht & Hc & Hs)].
  - split; [|split].
    + intros c t P C t1 m t' m' G T S U. simpl in U. discriminate.
    + intros cl P C cl1 m cl' m' G T S U. simpl in U. discriminate.
    + intros s P C s1 m s' m' G T S U. simpl in U. discriminate.
  - pose proof (UQt_UQa f Ht) as Ha.
    split; [|split].
    + (* terms *)
      intros c t P C t1 m t' m' G T S U HJ K L I SC.
      destruct t as [c0 x ty|n|a o b|c0 v s ty|c0 tag args ty|c0 cls ty].
      * (* variable *)
        simpl in S, I, SC. apply N.leb_le in I.
        pose proof (scoped_of_cs _ _ _ SC) as SA.
        destruct HJ as (RP & RC & HJ). specialize (HJ x c SA).
        change (match c with CPrd => P | CCns => C end) with (sel c P C) in S.
        destruct (subst_find x (sel c P C)) as [p|] eqn:F.
        -- okinv S. destruct (subst_find_key _ _ _ F) as [_ IN].
           assert (RV : exists ch n ty0, t1 = CXVar ch n ty0).
           { destruct c; simpl in IN; [destruct (RP _ _ IN) as (ch & n & ty0 & E & _) | destruct (RC _ _ IN) as (ch & n & ty0 & E & _)]; eauto. }
           destruct RV as (ch & n & ty0 & ->). simpl in U. okinv U. simpl in HJ. subst n.
           split; [|lia]. constructor. eapply vmatch_img; eauto.
        -- okinv S. simpl in U. okinv U. simpl in HJ. split; [|lia]. constructor. pose proof (vmatch_img _ _ _ x K I) as VM. rewrite <- HJ in VM. exact VM.
      * (* literal *)
        destruct c; simpl in S; [|discriminate]. okinv S. simpl in U. okinv U. split; [constructor | lia].
      * (* operator *)
        destruct c; simpl in S; [|discriminate]. rb S a1 E1. rb S b1 E2. okinv S.
        simpl in U. rb2 U a' m1 E3. rb2 U b' m2 E4. okinv U.
        simpl in I, SC. apply andb_true_iff in I. destruct I as [I1 I2]. apply andb_true_iff in SC. destruct SC as [S1 S2].
        destruct (Ht _ _ _ _ _ _ _ _ _ _ E1 E3 HJ K L I1 S1) as [A1 L1].
        destruct (Ht _ _ _ _ _ _ _ _ _ _ E2 E4 HJ (GOK_mono _ _ _ _ K L1) ltac:(lia) I2 S2) as [A2 L2].
        split; [constructor; auto | lia].
      * (* mu *)
        simpl in S. rb S s1 E1. okinv S. simpl in I, SC. apply andb_true_iff in I. destruct I as [I1 I2]. apply N.leb_le in I1.
        simpl in U. destruct (N.eqb (cid_id v) 0) eqn:Z.
        -- apply N.eqb_eq in Z. unfold fresh_identifier in U.
           rb U s2 E2. rb2 U s3 m2 E3. okinv U.
           destruct HJ as (RP & RC & HJ0). pose proof (conj RP (conj RC HJ0)) as HJ.
           set (nv := (cid_name v, m + 1)) in *.
           assert (CMP : subst_stmt s (match mu_binds c0 with CPrd => (v, CXVar CPrd nv ty) :: subst_remove v P | CCns => subst_remove v P end)
                                      (match mu_binds c0 with CPrd => subst_remove v C | CCns => (v, CXVar CCns nv ty) :: subst_remove v C end) = Ok s2).
           { destruct c0; simpl.
             - unfold subst_covar_stmt in E2.
               apply (compose_mu s P C v s1 s2 [] [(v, CXVar CCns nv ty)]); auto.
               intros k [Q|[]]. simpl in Q. auto.
             - unfold subst_var_stmt in E2.
               apply (compose_mu s P C v s1 s2 [(v, CXVar CPrd nv ty)] []); auto.
               intros k [Q|[]]. simpl in Q. auto. }
           assert (K' : GOK T (m + 1) ((v, mu_binds c0, nv) :: G)).
           { constructor; [eapply GOK_mono; eauto; lia|]. right. split; [unfold nv; simpl; lia|].
             intros z c1 z' IN Q. subst z'. destruct (GOK_in _ _ _ _ _ _ K IN) as [[Q1 Q2]|Q]; [subst z; unfold nv in Q2; simpl in Q2; lia | unfold nv in Q; simpl in Q; lia]. }
           destruct (Hs _ _ _ _ _ _ _ _ _ CMP E3 (J_rename G P C v nv ty (mu_binds c0) HJ ltac:(unfold nv; simpl; lia)) K' ltac:(lia) I2 SC) as [A1 L1].
           split; [constructor; exact A1 | lia].
        -- apply N.eqb_neq in Z. rb2 U s3 m2 E3. okinv U.
           assert (K' : GOK T m ((v, mu_binds c0, v) :: G)) by (constructor; auto).
           destruct (Hs _ _ _ _ _ _ _ _ _ E1 E3 (J_keep G P C v (mu_binds c0) HJ) K' L I2 SC) as [A1 L1].
           split; [constructor; exact A1 | lia].
      * (* xtor *)
        simpl in S. rb S l1 E1. okinv S. simpl in U. rb2 U l' m1 E2. okinv U. simpl in I, SC.
        destruct (uq_args_aeq f Ha _ _ _ _ _ _ _ _ _ E1 E2 HJ K L I SC) as [A1 L1]. split; [constructor; auto | lia].
      * (* xcase *)
        simpl in S. rb S l1 E1. okinv S. simpl in U. rb2 U l' m1 E2. okinv U. simpl in I, SC.
        destruct (uq_clauses_aeq f Hc _ _ _ _ _ _ _ _ _ E1 E2 HJ K L I SC) as [A1 L1]. split; [constructor; auto | lia].
    + (* clauses *)
      intros cl P C cl1 m cl' m' G T S U HJ K L I SC. destruct cl as [c0 x ctx body].
      simpl in S. rb S b1 E1. okinv S. simpl in U. rewrite uq_context_uqc in U.
      destruct (uqc ctx m) as [[[ctx' vs] cs] m1] eqn:UC.
      rb U b2 E2. rb2 U b3 m2 E3. okinv U.
      simpl in I, SC. apply andb_true_iff in I. destruct I as [I1 I2].
      destruct HJ as (RP & RC & HJ0). pose proof (conj RP (conj RC HJ0)) as HJ.
      pose proof (compose_ctx _ _ _ _ _ _ _ _ _ _ _ RP RC UC E1 E2) as CMP.
      destruct (uqc_spec _ _ _ _ _ _ UC) as (L1 & CL & _).
      assert (SC' : cs_stmt (gsrc (gzip ctx ctx' ++ G)) body = true).
      { rewrite gsrc_app, gsrc_gzip; [exact SC | apply ctx_like_length; exact CL]. }
      destruct (Hs _ _ _ _ _ _ _ _ _ CMP E3 (J_ctx _ _ _ _ _ _ _ _ _ HJ UC) (uqc_GOK _ _ _ _ _ _ _ _ UC K L I1) ltac:(lia) I2 SC') as [A1 L2].
      split; [constructor; auto | lia].
    + (* statements *)
      intros s P C s1 m s' m' G T S U HJ K L I SC.
      destruct s as [p ty k|so a b t e|nl a next|g args ty|a ty]; simpl in S, I, SC.
      * rb S p1 E1. rb S k1 E2. okinv S. simpl in U. rb2 U p' m1 E3. rb2 U k' m2 E4. okinv U.
        apply andb_true_iff in I. destruct I as [I1 I2]. apply andb_true_iff in SC. destruct SC as [S1 S2].
        destruct (Ht _ _ _ _ _ _ _ _ _ _ E1 E3 HJ K L I1 S1) as [A1 L1].
        destruct (Ht _ _ _ _ _ _ _ _ _ _ E2 E4 HJ (GOK_mono _ _ _ _ K L1) ltac:(lia) I2 S2) as [A2 L2].
        split; [constructor; auto | lia].
      * rb S a1 E1. rb S b1 E2. rb S t1 E3. rb S e1 E4. okinv S.
        simpl in U. rb2 U a' m1 F1. rb2 U b' m2 F2. rb2 U t' m3 F3. rb2 U e' m4 F4. okinv U.
        apply andb_true_iff in I. destruct I as [I Ie]. apply andb_true_iff in I. destruct I as [I It].
        apply andb_true_iff in I. destruct I as [Ia Ib].
        apply andb_true_iff in SC. destruct SC as [SC Se]. apply andb_true_iff in SC. destruct SC as [SC St].
        apply andb_true_iff in SC. destruct SC as [Sa Sb].
        destruct (Ht _ _ _ _ _ _ _ _ _ _ E1 F1 HJ K L Ia Sa) as [A1 L1].
        assert (AB : aeq_o G b b' /\ m1 <= m2).
        { destruct b as [b0|].
          - rb E2 b01 E5. okinv E2. rb2 F2 b0' m5 F5. okinv F2.
            destruct (Ht _ _ _ _ _ _ _ _ _ _ E5 F5 HJ (GOK_mono _ _ _ _ K L1) ltac:(lia) Ib Sb) as [A2 L2].
            split; [constructor; auto | lia].
          - okinv E2. okinv F2. split; [constructor | lia]. }
        destruct AB as [A2 L2].
        assert (K3 : GOK T m2 G) by (eapply GOK_mono; [exact K | lia]).
        assert (LT3 : T <= m2) by lia.
        destruct (Hs _ _ _ _ _ _ _ _ _ E3 F3 HJ K3 LT3 It St) as [A3 L3].
        assert (K4 : GOK T m3 G) by (eapply GOK_mono; [exact K | lia]).
        assert (LT4 : T <= m3) by lia.
        destruct (Hs _ _ _ _ _ _ _ _ _ E4 F4 HJ K4 LT4 Ie Se) as [A4 L4].
        split; [constructor; auto | lia].
      * rb S a1 E1. rb S n1 E2. okinv S. simpl in U. rb2 U a' m1 E3. rb2 U n' m2 E4. okinv U.
        apply andb_true_iff in I. destruct I as [I1 I2]. apply andb_true_iff in SC. destruct SC as [S1 S2].
        destruct (Ht _ _ _ _ _ _ _ _ _ _ E1 E3 HJ K L I1 S1) as [A1 L1].
        destruct (Hs _ _ _ _ _ _ _ _ _ E2 E4 HJ (GOK_mono _ _ _ _ K L1) ltac:(lia) I2 S2) as [A2 L2].
        split; [constructor; auto | lia].
      * rb S l1 E1. okinv S. simpl in U. rb2 U l' m1 E2. okinv U.
        destruct (uq_args_aeq f Ha _ _ _ _ _ _ _ _ _ E1 E2 HJ K L I SC) as [A1 L1]. split; [constructor; auto | lia].
      * rb S a1 E1. okinv S. simpl in U. rb2 U a' m1 E2. okinv U.
        destruct (Ht _ _ _ _ _ _ _ _ _ _ E1 E2 HJ K L I SC) as [A1 L1]. split; [constructor; auto | lia].
Qed.
