(* C06, heap statements: every statement the linearization pass produces passes the annotation check
   (Proof/X86HAnn.v) in the context it was linearized in: the `Create` annotation the pass writes IS the end of
   the context (names included), and the clause bodies are linearized in exactly the context the check uses. *)
From Coq Require Import String List ZArith NArith Bool Lia.
From SCC Require Import Base.Sexp Lang.AxSyn Model.Linearize Model.LinCheck.
From SCC Require Import Proof.LinBasics Proof.LinTyping Proof.LinearizeProof Proof.X86HAnn.
Import ListNotations.
Open Scope list_scope.

(* ---------- small facts ---------- *)
Lemma freshen_length : forall c cl m, length (fst (freshen c cl m)) = length c.
Proof.
  induction c as [|b r IH]; intros cl m; cbn [freshen]; [reflexivity|].
  destruct (mem (idn (bvar b)) cl).
  - specialize (IH cl (m + 1)%N). destruct (freshen r cl (m + 1)%N) as [r' m']. cbn [fst length] in *. now rewrite IH.
  - specialize (IH (idn (bvar b) :: cl) m). destruct (freshen r (idn (bvar b) :: cl) m) as [r' m']. cbn [fst length] in *. now rewrite IH.
Qed.

Lemma map_fst_vars : forall (a b : ctx), length a = length b -> map fst (combine a (vars b)) = a.
Proof. intros a b H. apply combine_map_fst. now rewrite vars_length. Qed.

Lemma map_fst_self_re : forall c, map fst (self_re c) = c.
Proof. intros c. unfold self_re. now apply map_fst_vars. Qed.

Lemma ctx_eqb_refl : forall c, ctx_eqb c c = true.
Proof. intros c. now apply ctx_eqb_eq. Qed.

Lemma split_lastn_1 : forall (a : ctx) b, split_lastn 1 (a ++ [b]) = Some (a, [b]).
Proof. intros a b. exact (split_lastn_app a [b]). Qed.

(* renaming does not introduce explicit substitutions *)
Lemma has_subst_cls_sub : forall su cls,
  Forall (fun c => has_subst (sub_s su (cl_body c)) = has_subst (cl_body c)) cls ->
  existsb (fun c => has_subst (cl_body c)) (map (fun c => (cl_xtor c, cl_ctx c, sub_s su (cl_body c))) cls)
  = existsb (fun c => has_subst (cl_body c)) cls.
Proof.
  intros su cls H; induction H as [|c r Hc _ IH]; [reflexivity|].
  cbn [map existsb]. rewrite IH. unfold cl_body at 1. cbn [snd]. now rewrite Hc.
Qed.
Lemma has_subst_sub : forall su s, has_subst (sub_s su s) = has_subst s.
Proof.
  intros su s; induction s using stmt_ind2; try reflexivity; try (cbn [sub_s has_subst]; assumption).
  - rewrite sub_s_switch, !has_subst_switch. now apply has_subst_cls_sub.
  - rewrite sub_s_create, !has_subst_create, IHs. f_equal. now apply has_subst_cls_sub.
  - cbn [sub_s has_subst]. now rewrite IHs1, IHs2.
Qed.

Lemma existsb_false_In' : forall {A} (P : A -> bool) l x, existsb P l = false -> In x l -> P x = false.
Proof.
  intros A P l x H Hin. destruct (P x) eqn:E; [|reflexivity].
  assert (existsb P l = true) by (apply existsb_exists; eauto). congruence.
Qed.

Lemma ann_check_subst : forall c re next, ann_check c (Substitute re next) = ann_check (map fst re) next.
Proof. reflexivity. Qed.

(* ---------- the clause loop ---------- *)
Lemma lin_cls_ann : forall (L : stmt -> ctx -> N -> stmt * N) (mk : ctx -> ctx) cls m,
  (forall cl m0, In cl cls -> ann_check (mk (cl_ctx cl)) (fst (L (cl_body cl) (mk (cl_ctx cl)) m0)) = true) ->
  forallb (fun cl => ann_check (mk (cl_ctx cl)) (cl_body cl)) (fst (lin_cls L mk cls m)) = true.
Proof.
  intros L mk cls; induction cls as [|[[x cc] body] r IH]; intros m H; cbn [lin_cls]; [reflexivity|].
  pose proof (H (x, cc, body) m (or_introl eq_refl)) as H1. unfold cl_ctx, cl_body in H1; cbn [fst snd] in H1.
  destruct (L body (mk cc) m) as [b' m'] eqn:E. cbn [fst] in H1.
  specialize (IH m' (fun cl m0 Hin => H cl m0 (or_intror Hin))).
  destruct (lin_cls L mk r m') as [r' m''] eqn:E'. cbn [fst] in *.
  cbn [forallb]. unfold cl_ctx at 1, cl_body at 1. cbn [fst snd]. now rewrite H1, IH.
Qed.

(* ---------- the statement ---------- *)
Theorem lin_ann : forall f s c m, has_subst s = false -> ann_check c (fst (lin f s c m)) = true.
Proof.
  induction f as [|f IH]; intros s c m Hs; [reflexivity|].
  destruct s as [re next|l args|v t tag args next|v t cls|v t e cls next|v tag t args|n v next|a o b v next|nl v next|so a b t e|v].
  - discriminate.
  - (* Call *)
    rewrite lin_call. destruct (ctx_eqb c args); [reflexivity|].
    destruct (freshen args [] m) as [fr m1]. reflexivity.
  - (* Let *)
    rewrite lin_let. cbv zeta. cbn [has_subst] in Hs.
    set (nc := filter_by_set c (fv next)).
    destruct (ctx_eqb c (nc ++ args)) eqn:E.
    + apply ctx_eqb_eq in E.
      pose proof (IH next (nc ++ [mkb v Prd t]) m Hs) as Hn.
      destruct (lin f next (nc ++ [mkb v Prd t]) m) as [n' m1]. cbn [fst] in *.
      cbn [ann_check]. rewrite E, split_lastn_app. exact Hn.
    + pose proof (freshen_length args (ids nc) m) as Hl.
      destruct (freshen args (ids nc) m) as [args' m1]. cbn [fst] in Hl.
      pose proof (IH next (nc ++ [mkb v Prd t]) m1 Hs) as Hn.
      destruct (lin f next (nc ++ [mkb v Prd t]) m1) as [n' m2]. cbn [fst] in *.
      cbn [ann_check]. rewrite map_fst_vars by (rewrite !app_length; lia).
      rewrite split_lastn_app. exact Hn.
  - (* Switch *)
    rewrite lin_switch. cbv zeta. rewrite has_subst_switch in Hs.
    set (nc := filter_by_set c (fv_clauses cls)).
    assert (Hcl : forall m0, ann_clauses_sw nc (fst (lin_cls (lin f) (fun cc => nc ++ cc) cls m0)) = true).
    { intros m0. unfold ann_clauses_sw. apply (lin_cls_ann (lin f) (fun cc => nc ++ cc)).
      intros cl m' Hin. apply IH. exact (existsb_false_In' _ _ _ Hs Hin). }
    specialize (Hcl m). destruct (lin_cls (lin f) (fun cc => nc ++ cc) cls m) as [cls' m1]. cbn [fst] in *.
    destruct (ctx_eqb c (nc ++ [mkb v Prd t])) eqn:E.
    + apply ctx_eqb_eq in E. cbn [fst]. rewrite ann_check_switch, E, split_lastn_1. exact Hcl.
    + destruct (mem (idn v) (ids nc)); cbn [fst]; rewrite ann_check_subst;
        (rewrite map_fst_vars by (rewrite !app_length; reflexivity));
        rewrite ann_check_switch, split_lastn_1; exact Hcl.
  - (* Create *)
    rewrite lin_create. cbv zeta. rewrite has_subst_create in Hs. apply orb_false_iff in Hs. destruct Hs as [Hsc Hsn].
    set (cn := filter_by_set c (fv next)).
    set (cc := filter_by_set (skipn (length cn) c ++ firstn (length cn) c) (fv_clauses cls)).
    assert (Hcl : forall m0, ann_clauses_cr cc (fst (lin_cls (lin f) (fun x => x ++ cc) cls m0)) = true).
    { intros m0. unfold ann_clauses_cr. apply (lin_cls_ann (lin f) (fun x => x ++ cc)).
      intros cl m' Hin. apply IH. exact (existsb_false_In' _ _ _ Hsc Hin). }
    specialize (Hcl m). destruct (lin_cls (lin f) (fun x => x ++ cc) cls m) as [cls' m1]. cbn [fst] in *.
    destruct (ctx_eqb c (cn ++ cc)) eqn:E.
    + apply ctx_eqb_eq in E.
      pose proof (IH next (cn ++ [mkb v Cns t]) m1 Hsn) as Hn.
      destruct (lin f next (cn ++ [mkb v Cns t]) m1) as [n' m2]. cbn [fst] in *.
      rewrite ann_check_create, E, split_lastn_app, ctx_eqb_refl, Hcl, Hn. reflexivity.
    + pose proof (freshen_length cn (ids cc) m1) as Hl.
      destruct (freshen cn (ids cc) m1) as [cnf m2]. cbn [fst] in Hl.
      pose proof (IH (sub_s (combine (ids cn) (vars cnf)) next) (cnf ++ [mkb v Cns t]) m2) as Hn.
      rewrite has_subst_sub in Hn. specialize (Hn Hsn).
      destruct (lin f (sub_s (combine (ids cn) (vars cnf)) next) (cnf ++ [mkb v Cns t]) m2) as [n' m3]. cbn [fst] in *.
      rewrite ann_check_subst, map_fst_vars by (rewrite !app_length; lia).
      rewrite ann_check_create, split_lastn_app, ctx_eqb_refl, Hcl, Hn. reflexivity.
  - (* Invoke *)
    rewrite lin_invoke. destruct (ctx_eqb c (args ++ [mkb v Cns t])); [reflexivity|].
    destruct (freshen args [idn v] m) as [fr m1]. reflexivity.
  - (* Literal *)
    rewrite lin_literal. cbv zeta. cbn [has_subst] in Hs.
    set (nc := filter_by_set c (fv next)).
    pose proof (IH next (nc ++ [mkb v Ext I64]) m Hs) as Hn.
    destruct (lin f next (nc ++ [mkb v Ext I64]) m) as [n' m1]. cbn [fst] in *.
    destruct (ctx_eqb c nc) eqn:E; cbn [fst].
    + apply ctx_eqb_eq in E. rewrite E. exact Hn.
    + rewrite ann_check_subst, map_fst_self_re. exact Hn.
  - (* Op *)
    rewrite lin_op. cbv zeta. cbn [has_subst] in Hs.
    set (nc := filter_by_set c (add (idn b) (add (idn a) (fv next)))).
    pose proof (IH next (nc ++ [mkb v Ext I64]) m Hs) as Hn.
    destruct (lin f next (nc ++ [mkb v Ext I64]) m) as [n' m1]. cbn [fst] in *.
    destruct (ctx_eqb c nc) eqn:E; cbn [fst].
    + apply ctx_eqb_eq in E. rewrite E. exact Hn.
    + rewrite ann_check_subst, map_fst_self_re. exact Hn.
  - (* PrintI64 *)
    rewrite lin_print. cbv zeta. cbn [has_subst] in Hs.
    set (nc := filter_by_set c (add (idn v) (fv next))).
    pose proof (IH next nc m Hs) as Hn.
    destruct (lin f next nc m) as [n' m1]. cbn [fst] in *.
    destruct (ctx_eqb c nc) eqn:E; cbn [fst].
    + apply ctx_eqb_eq in E. rewrite E. exact Hn.
    + rewrite ann_check_subst, map_fst_self_re. exact Hn.
  - (* IfC *)
    rewrite lin_ifc. cbn [has_subst] in Hs. apply orb_false_iff in Hs. destruct Hs as [Hst Hse].
    pose proof (IH t c m Hst) as Ht.
    destruct (lin f t c m) as [t' m1]. cbn [fst] in Ht.
    pose proof (IH e c m1 Hse) as He.
    destruct (lin f e c m1) as [e' m2]. cbn [fst] in *.
    cbn [ann_check]. now rewrite Ht, He.
  - reflexivity.
Qed.

(* ---------- definitions and programs ---------- *)
Lemma lin_defs_ann : forall ds m, (forall d, In d ds -> has_subst (dbody d) = false) ->
  forallb (fun d => ann_check (dctx d) (dbody d)) (fst (lin_defs ds m)) = true.
Proof.
  induction ds as [|d r IH]; intros m H; cbn [lin_defs]; [reflexivity|].
  pose proof (lin_ann (stmt_size (dbody d)) (dbody d) (dctx d) m (H d (or_introl eq_refl))) as Hd.
  unfold lin_def. destruct (lin (stmt_size (dbody d)) (dbody d) (dctx d) m) as [b m1]. cbn [fst] in Hd.
  specialize (IH m1 (fun d0 Hin => H d0 (or_intror Hin))).
  destruct (lin_defs r m1) as [r' m2]. cbn [fst] in *.
  cbn [forallb dctx dbody]. now rewrite Hd, IH.
Qed.

(* every program the linearization pass produces passes the annotation check *)
Theorem linearize_ann : forall p, prog_ok p = true -> ann_check_prog (linearize p) = true.
Proof.
  intros p H. unfold ann_check_prog, linearize.
  pose proof (lin_defs_ann (pdefs p) (pmax p)) as Hd.
  destruct (lin_defs (pdefs p) (pmax p)) as [ds m]. cbn [fst pdefs] in *.
  apply Hd. intros d Hin.
  destruct (def_ok_inv _ _ _ (prog_ok_defs p H d Hin)) as [Hax _].
  exact (ax_check_no_subst _ _ _ Hax).
Qed.
