(* Proof/ShrinkTyF.v (C12, fragment 2) - typing of the clauses produced by shrink_clauses and the
   cases of the typing lemma built on it (switch, create), let and invoke. *)
From Coq Require Import List ZArith NArith String Bool Lia.
From SCC Require Import Base.Sexp Lang.SynUtil Lang.CoreSyn Lang.AxSyn Sem.FsCheck Model.Shrink Model.LinCheck Model.WtDefs
     Proof.ShrinkProof Proof.ShrinkRn Proof.ShrinkSimBase Proof.ShrinkSimData Proof.ShrinkSimEta Proof.ShrinkTfv
     Proof.ShrinkSimC Proof.ShrinkTyA Proof.ShrinkTyB Proof.ShrinkTyC Proof.ShrinkTyD Proof.ShrinkTyE.
From SCC Require Sem.AxCheck.
Import ListNotations.
Open Scope list_scope.

Lemma pre_linear_switch : forall v t cls, pre_linear (Switch v t cls) = forallb (fun c : clause => pre_linear (snd c)) cls.
Proof. intros. simpl. induction cls as [|[[x c] b] r IH]; [reflexivity|]. simpl. now rewrite IH. Qed.
Lemma pre_linear_create : forall v t cls n,
  pre_linear (Create v t None cls n) = forallb (fun c : clause => pre_linear (snd c)) cls && pre_linear n.
Proof. intros. simpl. f_equal. induction cls as [|[[x c] b] r IH]; [reflexivity|]. simpl. now rewrite IH. Qed.

Section TyF.
Variable p : fsprog.
Variable ds' : list def.
Notation data := (fspdata p).
Notation codata := (fspcodata p).
Notation defs := (fspdefs p).
Notation m0 := (fspmax p).
Notation D := (data ++ [cont_int]).
Notation ts := (ts_of p).
Notation TLs := (TLs p ds').
Notation TLn := (TLn p ds').
Hypothesis Hdisj : forall n, find_decl data n <> None -> find_decl codata n = None.
Hypothesis Hcont : find_decl data cont_name = None /\ find_decl codata cont_name = None.
(* the field types of every xtor are declared *)
Hypothesis Hfields : forall d, In d (data ++ codata) -> forall sg, In sg (ctxtors d) -> forall b, In b (cxargs sg) -> ty_ok data codata (cbty b) = true.

(* the chirality collapse at declared types *)
Lemma sb_data : forall x T, is_codata codata (CDecl T) = false ->
  shrink_binding codata (mkcb x CPrd (CDecl T)) = mkb x Prd (Decl T) /\ shrink_binding codata (mkcb x CCns (CDecl T)) = mkb x Cns (Decl T).
Proof. intros x T H. apply (shrink_binding_chirality codata x T). exact H. Qed.
Lemma sb_codata : forall x T, is_codata codata (CDecl T) = true ->
  shrink_binding codata (mkcb x CPrd (CDecl T)) = mkb x Cns (Decl T) /\ shrink_binding codata (mkcb x CCns (CDecl T)) = mkb x Prd (Decl T).
Proof. intros x T H. apply (shrink_binding_chirality codata x T). exact H. Qed.

Lemma find_decl_in : forall l T d, find_decl l T = Some d -> In d l.
Proof. intros l T d H. unfold find_decl in H. apply find_some in H. tauto. Qed.

(* pushing the parameters of a clause *)
Lemma push_params : forall (need need' : cident -> Prop) Ga G rho th st st' ctx sg,
  inv p G rho th st -> grel p need (fun y => th (rho y)) Ga G -> ginv p Ga G st st' -> decl_ok p G ->
  NoDup (cids ctx) -> (forall i, In i (cids ctx) -> ~ In i (cids G) /\ (i <= m0)%N) ->
  fparams_ok ctx sg = true -> (forall b, In b sg -> ty_ok data codata (cbty b) = true) ->
  (forall y, need' y -> need y) ->
  AxCheck.fresh_all Ga (shrink_context codata ctx) = None /\
  grel p need' (fun y => th (rho y)) (shrink_context codata ctx ++ Ga) (ctx ++ G) /\
  ginv p (shrink_context codata ctx ++ Ga) (ctx ++ G) st st' /\ decl_ok p (ctx ++ G).
Proof.
  intros need need' Ga G rho th st st' ctx sg Hinv Hg Hgi Hdecl Hnd Hids Hps Hsg Hn.
  assert (Hni : forall i, In i (ids (shrink_context codata ctx)) -> ~ In i (ids Ga)).
  { intros i Hi. rewrite ids_shrink_context in Hi. destruct (Hids i Hi). eapply ginv_old; eauto. }
  split; [apply fresh_all_intro; [rewrite ids_shrink_context; exact Hnd | exact Hni]|]. split; [|split].
  - eapply grel_push_list with (pi := fun y => th (rho y)) (need := need); [exact Hg | | rewrite ids_shrink_context; exact Hnd | exact Hni |].
    + intros b Hb Hb'. split; [now apply Hn | reflexivity].
    + clear -Hinv Hids. induction ctx as [|b r IH]; [constructor|]. cbn [shrink_context map]. constructor.
      * rewrite shrink_binding_var. destruct (Hids (cid_id (cbvar b)) (or_introl eq_refl)) as [H1 H2].
        rewrite (inv_self p _ _ _ _ _ Hinv H1 H2). auto.
      * apply IH. intros i Hi. apply Hids. now right.
  - intros i Hi. unfold ids in Hi. rewrite map_app in Hi. apply in_app_or in Hi as [Hi|Hi].
    + fold (ids (shrink_context codata ctx)) in Hi. rewrite ids_shrink_context in Hi. destruct (Hids i Hi) as [H1 H2].
      split; [left; rewrite cids_app; apply in_or_app; now left|]. pose proof (inv_st _ _ _ _ _ Hinv). lia.
    + destruct (Hgi i Hi) as [[A|A] Bn]; (split; [|exact Bn]); [left; rewrite cids_app; apply in_or_app; now right | now right].
  - intros b Hb. apply in_app_or in Hb as [Hb|Hb]; [|now apply Hdecl].
    clear -Hps Hsg Hb. revert sg Hps Hsg. induction ctx as [|a r IH]; intros [|s sr] Hps Hsg; simpl in Hps; try discriminate; [contradiction|].
    apply andb_prop in Hps as [H1 H2]. destruct Hb as [<-|Hb].
    + apply csame_sig_eq' in H1 as [_ Ht]. rewrite Ht. apply Hsg. now left.
    + eapply IH; eauto. intros b0 Hb0. apply Hsg. now right.
Qed.

Lemma cls_typed : forall k, TLn k -> forall lbl side T cls xs G rho th st cls' st' Ga,
  inv p G rho th st ->
  clauses_match side T cls xs = None -> check_bodies data codata defs G cls = None ->
  ub_clauses (cids G) cls = true -> ib_clauses m0 cls = true -> nc_clauses (cvars G) cls = true -> decl_ok p G ->
  (forall sg, In sg xs -> forall b, In b (cxargs sg) -> ty_ok data codata (cbty b) = true) ->
  shrink_clauses (shrink_stmt k (mksenv D codata lbl)) (mksenv D codata lbl) (rn_clauses rho cls) st = SOk (cls', st') ->
  grel p (fun x => occ_clauses x cls) (fun x => th (rho x)) Ga G -> ginv p Ga G st st' ->
  lifted_in' ds' st' -> lift_wt p ds' st ->
  cls_ok ts ds' Ga (arn_cls th cls') (map (shrink_xtor codata) xs) /\
  forallb (fun c : clause => pre_linear (snd c)) cls' = true /\ lift_wt p ds' st'.
Proof.
  intros k IH lbl side T cls. induction cls as [|[c x ctx b] r IHr]; intros xs G rho th st cls' st' Ga Hinv Hcm Hcb Hub Hib Hnc Hdecl Hxs Hsh Hg Hgi Hlin Hlw.
  - destruct xs; [|discriminate Hcm]. simpl in Hsh. inv Hsh. split; [constructor | split; [reflexivity | exact Hlw]].
  - destruct xs as [|sg xr]; [discriminate Hcm|]. cbn [clauses_match] in Hcm.
    apply seq_none in Hcm as [_ Hcm]. apply seq_none in Hcm as [Hname Hcm]. apply seq_none in Hcm as [Hps Hcm].
    apply fensure_none in Hname. apply fensure_none in Hps. apply cident_eqb_eq in Hname.
    cbn [rn_clauses map rn_clause shrink_clauses] in Hsh. fold (rn_clauses rho r) in Hsh.
    destruct (shrink_stmt k _ (rn_stmt rho b) st) as [[b' st1]|] eqn:E1; [|discriminate Hsh]. cbn [sbind] in Hsh.
    destruct (shrink_clauses _ _ (rn_clauses rho r) st1) as [[r' st2]|] eqn:E2; [|discriminate Hsh]. cbn [sbind] in Hsh. inv Hsh.
    rewrite check_bodies_cons in Hcb. destruct (check_stmt data codata defs (ctx ++ G) b) eqn:Hcb1; [discriminate|].
    unfold ub_clauses in Hub. cbn [forallb ub_clause] in Hub. apply andb_prop in Hub as [Hub1 Hubr]. apply andb_prop in Hub1 as [Hubc Hubb].
    apply fresh_ids_spec in Hubc as [Hnd Hnotin]. rewrite ub_cids_app in Hubb.
    unfold ib_clauses in Hib. cbn [forallb clause_ctx clause_body] in Hib. apply andb_prop in Hib as [Hib1 Hibr]. apply andb_prop in Hib1 as [Hibc Hibb].
    unfold nc_clauses in Hnc. cbn [forallb clause_ctx clause_body] in Hnc. apply andb_prop in Hnc as [Hncb Hncr].
    unfold cvars in Hncb. rewrite <- map_app in Hncb. fold (cvars (ctx ++ G)) in Hncb.
    destruct (shrink_mono p _ _ _ _ _ _ _ Hibb (inv_st _ _ _ _ _ Hinv) E1) as [Hm1 (nd1 & Hl1)].
    assert (Hinv1 : inv p G rho th st1) by (eapply inv_st_mono; eauto).
    destruct (shrink_clauses_mono p _ _ _ _ _ _ _ E2 (fun c0 Hc0 => proj2 (ib_clauses_in p _ _ Hibr Hc0)) (inv_st _ _ _ _ _ Hinv1)) as [Hm2 (nd2 & Hl2)].
    assert (Hids : forall i, In i (cids ctx) -> ~ In i (cids G) /\ (i <= m0)%N).
    { intros i Hi. split; [now apply Hnotin | eapply ctx_le_ids; eauto]. }
    assert (Hgi1 : ginv p Ga G st st1) by (eapply ginv_sub; [exact Hgi | lia | lia]).
    destruct (push_params _ (fun y => occurs y b) _ _ _ _ _ _ ctx (cxargs sg) Hinv Hg Hgi1 Hdecl Hnd Hids Hps
                (Hxs sg (or_introl eq_refl))) as (Hfa & Hg' & Hgi' & Hdecl').
    { intros y Hy. eexists. split; [left; reflexivity | exact Hy]. }
    destruct (IH b lbl (ctx ++ G) rho th st b' st1 _ (inv_push_list p _ _ _ _ _ Hinv Hnd Hids) Hcb1 Hubb Hibb Hncb Hdecl' E1 Hg' Hgi'
                ltac:(eapply lifted_in'_mono; eauto) Hlw) as (T1 & T2 & T3).
    destruct (IHr xr G rho th st1 r' st' Ga Hinv1 Hcm Hcb Hubr Hibr Hncr Hdecl (fun s0 H0 => Hxs s0 (or_intror H0)) E2) as (U1 & U2 & U3); auto.
    { intros b0 Hb0 (c0 & Hc0 & Hoc). apply Hg; [exact Hb0|]. exists c0. split; [now right | exact Hoc]. }
    { eapply ginv_sub; [exact Hgi | lia | lia]. }
    split; [|split; [cbn [forallb snd]; now rewrite T2, U2 | exact U3]].
    cbn [arn_cls map fst snd]. constructor; [|exact U1]. cbn [fst snd shrink_xtor xname xargs]. unfold shrink_identifier.
    split; [reflexivity|]. split; [apply params_ok_shrink; exact Hps|]. split; [exact Hfa | exact T1].
Qed.

Lemma fields_of : forall l T d, find_decl l T = Some d -> (forall x, In x l -> In x (data ++ codata)) ->
  forall sg, In sg (ctxtors d) -> forall b, In b (cxargs sg) -> ty_ok data codata (cbty b) = true.
Proof. intros l T d H Hl sg Hsg b Hb. eapply Hfields; eauto. apply Hl. eapply find_decl_in; eauto. Qed.
Lemma in_data : forall x, In x data -> In x (data ++ codata).
Proof. intros. apply in_or_app. now left. Qed.
Lemma in_codata : forall x, In x codata -> In x (data ++ codata).
Proof. intros. apply in_or_app. now right. Qed.
Lemma ty_ok_data : forall T d, find_decl data T = Some d -> ty_ok data codata (CDecl T) = true.
Proof. intros T d H. unfold ty_ok. rewrite H. reflexivity. Qed.
Lemma ty_ok_codata : forall T d, find_decl codata T = Some d -> ty_ok data codata (CDecl T) = true.
Proof. intros T d H. unfold ty_ok. rewrite H. destruct (find_decl data T); reflexivity. Qed.

Ltac occx := cbn [occurs]; right; apply occ_term_xcase; assumption.

(* <x | case {..}> *)
Lemma tl_switch_case : forall k, TLn k -> forall c1 x t1 ty c2 cls t2, TLs (S k) (FsCut (FsXVar c1 x t1) ty (FsXCase c2 cls t2)).
Proof.
  intros k IH c1 x t1 ty c2 cls t2. tstart. cbn [rn_stmt] in Hsh. rewrite rn_term_xcase in Hsh.
  cbn [rn_term shrink_step shrink_cut] in Hsh. unfold shrink_identifier in Hsh.
  destruct (shrink_clauses _ _ (rn_clauses rho cls) st) as [[cls' st1]|] eqn:E1; [|discriminate Hsh]. cbn [sbind] in Hsh. inv Hsh.
  rewrite check_stmt_cut_eq in Hck. apply seq_none in Hck as [Hty Hck]. apply seq_none in Hck as [Hcp Hck].
  cbn [check_term] in Hcp. apply seq_none in Hcp as [_ Hcp]. apply seq_none in Hcp as [_ Hcx].
  destruct (xcase_typing p _ _ _ _ _ _ Hck) as (T & d & -> & Hd & Hcm & Hcb).
  rewrite ib_stmt_cut, ib_term_xcase in Hib. apply andb_prop in Hib as [_ Hib].
  cbn [ub_stmt] in Hub. rewrite ub_term_xcase in Hub. cbn [ub_term andb] in Hub.
  pose proof (nc_cut_case_r _ _ _ _ _ _ Hnc) as Hncc. apply nc_cut in Hnc as [Hncx _]. cbn [nc_term] in Hncx.
  destruct (cls_typed k IH lbl CCns T cls (ctxtors d) G rho th st cls' st' Ga Hinv Hcm Hcb Hub Hib Hncc Hdecl (fields_of _ _ _ Hd in_data) E1) as (T1 & T2 & T3); auto.
  { eapply grel_weaken; [exact Hg | intros y Hy; occx]. }
  split; [|split; [rewrite pre_linear_switch; exact T2 | exact T3]].
  rewrite arn_switch. cbn [shrink_ty]. unfold shrink_identifier.
  eapply ck_switch; [apply (find_type_data p _ _ Hd) | | exact T1].
  pose proof (occ_bound p _ _ _ _ x CPrd (CDecl T) Hg Hcx Hncx ltac:(occ)) as Hb.
  rewrite (proj1 (sb_data x T (data_not_codata p Hdisj _ _ Hd))) in Hb. exact Hb.
Qed.

(* <cocase {..} | a> *)
Lemma tl_switch_cocase : forall k, TLn k -> forall c1 cls t1 ty c2 b t2, TLs (S k) (FsCut (FsXCase c1 cls t1) ty (FsXVar c2 b t2)).
Proof.
  intros k IH c1 cls t1 ty c2 b t2. tstart. cbn [rn_stmt] in Hsh. rewrite rn_term_xcase in Hsh.
  cbn [rn_term shrink_step shrink_cut] in Hsh. unfold shrink_identifier in Hsh.
  destruct (shrink_clauses _ _ (rn_clauses rho cls) st) as [[cls' st1]|] eqn:E1; [|discriminate Hsh]. cbn [sbind] in Hsh. inv Hsh.
  rewrite check_stmt_cut_eq in Hck. apply seq_none in Hck as [Hty Hck]. apply seq_none in Hck as [Hcp Hck].
  cbn [check_term] in Hck. apply seq_none in Hck as [_ Hck]. apply seq_none in Hck as [_ Hcx].
  destruct (xcase_typing p _ _ _ _ _ _ Hcp) as (T & d & -> & Hd & Hcm & Hcb).
  rewrite ib_stmt_cut, ib_term_xcase in Hib. apply andb_prop in Hib as [Hib _].
  cbn [ub_stmt] in Hub. rewrite ub_term_xcase in Hub. cbn [ub_term] in Hub. rewrite andb_true_r in Hub.
  pose proof (nc_cut_case_l _ _ _ _ _ _ Hnc) as Hncc. apply nc_cut in Hnc as [_ Hncx]. cbn [nc_term] in Hncx.
  destruct (cls_typed k IH lbl CPrd T cls (ctxtors d) G rho th st cls' st' Ga Hinv Hcm Hcb Hub Hib Hncc Hdecl (fields_of _ _ _ Hd in_codata) E1) as (T1 & T2 & T3); auto.
  { eapply grel_weaken; [exact Hg | intros y Hy; cbn [occurs]; left; apply occ_term_xcase; assumption]. }
  split; [|split; [rewrite pre_linear_switch; exact T2 | exact T3]].
  rewrite arn_switch. cbn [shrink_ty]. unfold shrink_identifier.
  eapply ck_switch; [apply (find_type_codata p Hdisj Hcont _ _ Hd) | | exact T1].
  pose proof (occ_bound p _ _ _ _ b CCns (CDecl T) Hg Hcx Hncx ltac:(occ)) as Hb.
  rewrite (proj2 (sb_codata b T (codata_is_codata p _ _ Hd))) in Hb. exact Hb.
Qed.

(* <mu a.s | case {..}> *)
Lemma tl_create_case : forall k, TLn k -> forall c1 a s' t1 ty c2 cls t2, TLs (S k) (FsCut (FsMu c1 a s' t1) ty (FsXCase c2 cls t2)).
Proof.
  intros k IH c1 a s' t1 ty c2 cls t2. tstart. cbn [rn_stmt] in Hsh. rewrite rn_term_xcase in Hsh.
  cbn [rn_term shrink_step shrink_cut] in Hsh. unfold shrink_identifier in Hsh.
  destruct (shrink_clauses _ _ (rn_clauses rho cls) st) as [[cls' st1]|] eqn:E1; [|discriminate Hsh]. cbn [sbind] in Hsh.
  destruct (shrink_stmt k _ (rn_stmt rho s') st1) as [[next st2]|] eqn:E2; [|discriminate Hsh]. cbn [sbind] in Hsh. inv Hsh.
  rewrite check_stmt_cut_eq in Hck. apply seq_none in Hck as [Hty Hck]. apply seq_none in Hck as [Hcp Hck].
  rewrite check_term_mu_eq in Hcp. apply seq_none in Hcp as [_ Hcp]. apply seq_none in Hcp as [_ Hcs]. cbn [opp] in Hcs.
  destruct (xcase_typing p _ _ _ _ _ _ Hck) as (T & d & -> & Hd & Hcm & Hcb).
  rewrite ib_stmt_cut, ib_term_xcase, ib_term_mu in Hib. apply andb_prop in Hib as [Hib1 Hibc].
  apply andb_prop in Hib1 as [Hia Hibs]. apply id_le_le' in Hia.
  cbn [ub_stmt] in Hub. rewrite ub_term_xcase in Hub. cbn [ub_term] in Hub. apply andb_prop in Hub as [Hub1 Hubc].
  apply andb_prop in Hub1 as [Hua Hubs]. apply negb_mem_notin' in Hua.
  pose proof (nc_cut_case_r _ _ _ _ _ _ Hnc) as Hncc. pose proof (nc_cut_mu_l _ _ _ _ _ _ _ Hnc) as Hncs.
  destruct (shrink_clauses_mono p _ _ _ _ _ _ _ E1 (fun c Hc => proj2 (ib_clauses_in p _ _ Hibc Hc)) (inv_st _ _ _ _ _ Hinv)) as [Hm1 (nd1 & Hl1)].
  assert (Hinv1 : inv p G rho th st1) by (eapply inv_st_mono; eauto).
  destruct (shrink_mono p _ _ _ _ _ _ _ Hibs (inv_st _ _ _ _ _ Hinv1) E2) as [Hm2 (nd2 & Hl2)].
  destruct (cls_typed k IH lbl CCns T cls (ctxtors d) G rho th st cls' st1 Ga Hinv Hcm Hcb Hubc Hibc Hncc Hdecl (fields_of _ _ _ Hd in_data) E1) as (T1 & T2 & T3); auto.
  { eapply grel_weaken; [exact Hg | intros y Hy; occx]. }
  { eapply ginv_sub; [exact Hgi | lia | lia]. }
  { eapply lifted_in'_mono; eauto. }
  assert (Hgi2 : ginv p Ga G st1 st') by (eapply ginv_sub; [exact Hgi | lia | lia]).
  destruct (push_old p _ (fun y => occurs y s') _ _ _ _ _ _ a CCns (CDecl T) Hinv1 Hg Hgi2 Hua Hia ltac:(intros y Hy; occ)) as (Hfa & Hga & Hgia).
  destruct (IH s' lbl _ rho th st1 next st' _ (inv_push p _ _ _ _ a CCns (CDecl T) Hinv1 Hua Hia) Hcs Hubs Hibs Hncs (decl_push p _ a CCns (CDecl T) Hdecl (ty_ok_data _ _ Hd)) E2 Hga Hgia Hlin T3) as (U1 & U2 & U3).
  split; [|split; [rewrite pre_linear_create, T2, U2; reflexivity | exact U3]].
  rewrite arn_create. cbn [shrink_ty option_map]. unfold shrink_identifier.
  eapply ck_create; [apply (find_type_data p _ _ Hd) | exact T1 | exact Hfa |].
  rewrite (proj2 (sb_data a T (data_not_codata p Hdisj _ _ Hd))) in U1. exact U1.
Qed.

(* <cocase {..} | mu~ x.s> *)
Lemma tl_create_cocase : forall k, TLn k -> forall c1 cls t1 ty c2 x s' t2, TLs (S k) (FsCut (FsXCase c1 cls t1) ty (FsMu c2 x s' t2)).
Proof.
  intros k IH c1 cls t1 ty c2 x s' t2. tstart. cbn [rn_stmt] in Hsh. rewrite rn_term_xcase in Hsh.
  cbn [rn_term shrink_step shrink_cut] in Hsh. unfold shrink_identifier in Hsh.
  destruct (shrink_clauses _ _ (rn_clauses rho cls) st) as [[cls' st1]|] eqn:E1; [|discriminate Hsh]. cbn [sbind] in Hsh.
  destruct (shrink_stmt k _ (rn_stmt rho s') st1) as [[next st2]|] eqn:E2; [|discriminate Hsh]. cbn [sbind] in Hsh. inv Hsh.
  rewrite check_stmt_cut_eq in Hck. apply seq_none in Hck as [Hty Hck]. apply seq_none in Hck as [Hcp Hck].
  rewrite check_term_mu_eq in Hck. apply seq_none in Hck as [_ Hck]. apply seq_none in Hck as [_ Hcs]. cbn [opp] in Hcs.
  destruct (xcase_typing p _ _ _ _ _ _ Hcp) as (T & d & -> & Hd & Hcm & Hcb).
  rewrite ib_stmt_cut, ib_term_xcase, ib_term_mu in Hib. apply andb_prop in Hib as [Hibc Hib1].
  apply andb_prop in Hib1 as [Hix Hibs]. apply id_le_le' in Hix.
  cbn [ub_stmt] in Hub. rewrite ub_term_xcase in Hub. cbn [ub_term] in Hub. apply andb_prop in Hub as [Hubc Hub1].
  apply andb_prop in Hub1 as [Hux Hubs]. apply negb_mem_notin' in Hux.
  pose proof (nc_cut_case_l _ _ _ _ _ _ Hnc) as Hncc. pose proof (nc_cut_mu_r _ _ _ _ _ _ _ Hnc) as Hncs.
  destruct (shrink_clauses_mono p _ _ _ _ _ _ _ E1 (fun c Hc => proj2 (ib_clauses_in p _ _ Hibc Hc)) (inv_st _ _ _ _ _ Hinv)) as [Hm1 (nd1 & Hl1)].
  assert (Hinv1 : inv p G rho th st1) by (eapply inv_st_mono; eauto).
  destruct (shrink_mono p _ _ _ _ _ _ _ Hibs (inv_st _ _ _ _ _ Hinv1) E2) as [Hm2 (nd2 & Hl2)].
  destruct (cls_typed k IH lbl CPrd T cls (ctxtors d) G rho th st cls' st1 Ga Hinv Hcm Hcb Hubc Hibc Hncc Hdecl (fields_of _ _ _ Hd in_codata) E1) as (T1 & T2 & T3); auto.
  { eapply grel_weaken; [exact Hg | intros y Hy; cbn [occurs]; left; apply occ_term_xcase; assumption]. }
  { eapply ginv_sub; [exact Hgi | lia | lia]. }
  { eapply lifted_in'_mono; eauto. }
  assert (Hgi2 : ginv p Ga G st1 st') by (eapply ginv_sub; [exact Hgi | lia | lia]).
  destruct (push_old p _ (fun y => occurs y s') _ _ _ _ _ _ x CPrd (CDecl T) Hinv1 Hg Hgi2 Hux Hix ltac:(intros y Hy; occ)) as (Hfx & Hgx & Hgix).
  destruct (IH s' lbl _ rho th st1 next st' _ (inv_push p _ _ _ _ x CPrd (CDecl T) Hinv1 Hux Hix) Hcs Hubs Hibs Hncs (decl_push p _ x CPrd (CDecl T) Hdecl (ty_ok_codata _ _ Hd)) E2 Hgx Hgix Hlin T3) as (U1 & U2 & U3).
  split; [|split; [rewrite pre_linear_create, T2, U2; reflexivity | exact U3]].
  rewrite arn_create. cbn [shrink_ty option_map]. unfold shrink_identifier.
  eapply ck_create; [apply (find_type_codata p Hdisj Hcont _ _ Hd) | exact T1 | exact Hfx |].
  rewrite (proj1 (sb_codata x T (codata_is_codata p _ _ Hd))) in U1. exact U1.
Qed.
End TyF.
