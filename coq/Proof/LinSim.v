(* C05, semantic half: forward simulation from the named machine on a program to the linear
   machine on its linearization.

   Relation between the two machine states (named: env ne, statement s; linear: env le parallel to
   a context c, statement s'):
     srel rho c s s'   s' is what `lin` returns for the statement `sub_s rho s` in context c, and the
                       hypotheses of the syntactic theorem hold there.  rho is the accumulated
                       renaming (Create renames `next`); it never touches binders.
     erel rho F ne le  every variable x in F (the free variables of s) has a value in ne, the
                       variable `rho x` has a value in le, and the two values are related.
     vrel              integers equal; objects field-wise; closures: same clauses up to
                       linearization, captured environments related on the free variables. *)
From Coq Require Import String List ZArith NArith Bool Lia Permutation.
From SCC Require Import Base.Sexp Lang.AxSyn Sem.AxSem Model.Linearize Model.LinCheck.
From SCC Require Import Proof.LinBasics Proof.LinFbs Proof.LinFreshen Proof.LinTyping Proof.LinSubst.
From SCC Require Import Proof.LinearizeProof Proof.LinMachine.
Import ListNotations.
Open Scope list_scope.
Open Scope N_scope.

Definition srel (Sg : sigs) (rho : list (N * ident)) (c : ctx) (s s' : stmt) : Prop :=
  exists f m, (stmt_size s <= f)%nat /\ has_subst s = false /\ untouched rho (binders s) /\
              ax_check Sg c (sub_s rho s) = true /\ inv c (sub_s rho s) m /\
              s' = fst (lin f (sub_s rho s) c m).

Inductive vrel (Sg : sigs) : value -> value -> Prop :=
| VR_int : forall z, vrel Sg (VInt z) (VInt z)
| VR_obj : forall ty tag fs fs', Forall2 (vrel Sg) fs fs' -> vrel Sg (VObj ty tag fs) (VObj ty tag fs')
| VR_clo : forall ty cls cls' ne le rho cc,
    map fst le = vars cc ->
    Forall2 (fun cl cl' => cl_xtor cl' = cl_xtor cl /\ cl_ctx cl' = cl_ctx cl /\
                           srel Sg rho (cl_ctx cl ++ cc) (cl_body cl) (cl_body cl')) cls cls' ->
    (forall x, In x (fv_clauses cls) ->
       exists v v', lookup ne x = Some v /\ lookup le (sub_n rho x) = Some v' /\ vrel Sg v v') ->
    vrel Sg (VClo ty cls ne) (VClo ty cls' le).

Definition erel (Sg : sigs) (rho : list (N * ident)) (F : list N) (ne le : env) : Prop :=
  forall x, In x F -> exists v v', lookup ne x = Some v /\ lookup le (sub_n rho x) = Some v' /\ vrel Sg v v'.

Lemma erel_sub : forall Sg rho F F' ne le, erel Sg rho F ne le -> (forall x, In x F' -> In x F) -> erel Sg rho F' ne le.
Proof. intros Sg rho F F' ne le H Hs x Hx. apply H; auto. Qed.

Lemma vrel_int_inv : forall Sg z v', vrel Sg (VInt z) v' -> v' = VInt z.
Proof. intros Sg z v' H; inversion H; auto. Qed.

Lemma erel_int : forall Sg rho F ne le x z,
  erel Sg rho F ne le -> In (idn x) F -> lookup_int ne x = Some z -> lookup_int le (sub_id rho x) = Some z.
Proof.
  intros Sg rho F ne le x z H Hx Hl. destruct (H _ Hx) as [v [v' [L1 [L2 V]]]].
  unfold lookup_int, lookup_id in *. rewrite L1 in Hl. destruct v; try discriminate. inversion Hl; subst.
  apply vrel_int_inv in V. subst. rewrite sub_id_n, L2. auto.
Qed.

Lemma untouched_sub_n : forall rho xs x, untouched rho xs -> In x xs -> sub_n rho x = x.
Proof. intros rho xs x H Hx. apply sub_n_notin. apply H; auto. Qed.

Lemma rebind_self_lookup0 : forall le nc x,
  NoDup (ids nc) -> In x (ids nc) -> lookup (rebind le nc nc) x = Some (getv le x).
Proof. intros. rewrite <- (app_nil_r (rebind le nc nc)). apply rebind_self_lookup; auto. Qed.

(* ---------- generic facts about the continuation `next` in `filter_by_set c F ++ [vb]` ---------- *)
Lemma snoc_ok : forall Sg c s m F vb next pre,
  inv c s m -> binders s = idn (bvar vb) :: pre ++ binders next ->
  ax_check Sg (vb :: c) next = true ->
  (forall x, In x (fv next) -> In x F \/ x = idn (bvar vb)) ->
  let nc := filter_by_set c F in
  ax_check Sg (nc ++ [vb]) next = true /\ (forall m', m <= m' -> inv (nc ++ [vb]) next m') /\
  NoDup (ids (nc ++ [vb])) /\ NoDup (ids nc) /\ ~ In (idn (bvar vb)) (ids c).
Proof.
  intros Sg c s m F vb next pre Hinv Hb Hax HF nc.
  assert (I1 : NoDup (ids c)) by apply Hinv.
  assert (Iv : ~ In (idn (bvar vb)) (ids c)).
  { destruct Hinv as [_ [_ [I3 _]]]. intros Hin. apply (I3 _ Hin). rewrite Hb. simpl; auto. }
  assert (Hnc : NoDup (ids nc)) by (apply fbs_NoDup; auto).
  assert (Hnd' : NoDup (ids (nc ++ [vb]))).
  { rewrite ids_app. apply NoDup_snoc; auto. intros Hin. apply Iv. eapply fbs_ids_incl; eauto. }
  split; [|split; [|split; [|split]]]; auto.
  - rewrite <- Hax. symmetry. apply ax_check_ext. intros x Hx. apply lookup_snoc_fbs; auto.
  - intros m' Hm'.
    apply inv_gen with (c := c) (s := s) (m := m) (pre := idn (bvar vb) :: pre) (post := []);
      [exact Hinv|lia|auto|rewrite Hb; simpl; rewrite app_nil_r; auto|].
    intros x Hx. rewrite ids_app in Hx. apply in_app_or in Hx. destruct Hx as [Hx|[<-|[]]].
    + left. eapply fbs_ids_incl; eauto.
    + right. left. simpl; auto.
Qed.

Section Sim.
  Variable P : prog.
  Hypothesis HP : prog_ok P = true.
  Notation Sg := (sigs_of P).
  Notation P' := (linearize P).
  Notation srel := (srel Sg).
  Notation vrel := (vrel Sg).
  Notation erel := (erel Sg).

  Definition sim_n (n : nat) : Prop := forall rho c s s' ne le out o,
    srel rho c s s' -> map fst le = vars c -> erel rho (fv s) ne le ->
    exec_named n P ne s out = o -> good o -> exists n', exec_linear n' P' le s' out = o.

  (* the environment after binding one new variable at the end *)
  Lemma erel_snoc : forall rho Fs F_r c v (val val' : value) next ne le,
    map fst le = vars c -> NoDup (ids c) -> untouched rho [idn v] -> ~ In (idn v) (ids c) ->
    (forall x, In x (fv next) -> x <> idn v -> In x Fs /\ In (sub_n rho x) F_r) ->
    erel rho Fs ne le -> vrel val val' ->
    erel rho (fv next) ((v, val) :: ne)
         (rebind le (filter_by_set c F_r) (filter_by_set c F_r) ++ [(v, val')]).
  Proof.
    intros rho Fs F_r c v val val' next ne le Hsh Hnd Hu Hv HF He Hval x Hx.
    set (nc := filter_by_set c F_r).
    assert (Hnc : NoDup (ids nc)) by (apply fbs_NoDup; auto).
    destruct (N.eq_dec x (idn v)) as [->|Hne].
    - exists val, val'. simpl. rewrite N.eqb_refl.
      rewrite (untouched_sub_n rho [idn v]) by (simpl; auto).
      rewrite rebind_notin; auto.
      + simpl. rewrite N.eqb_refl. auto.
      + intros Hin. apply Hv. eapply fbs_ids_incl; eauto.
    - destruct (HF x Hx Hne) as [H1 H2]. destruct (He x H1) as [w [w' [L1 [L2 V]]]].
      exists w, w'. simpl. apply N.eqb_neq in Hne. rewrite N.eqb_sym in Hne. rewrite Hne.
      split; auto. split; auto.
      rewrite rebind_self_lookup; auto.
      + rewrite (getv_Some _ _ _ L2). auto.
      + apply fbs_ids_In. split; auto.
        destruct (in_dec N.eq_dec (sub_n rho x) (ids c)); auto.
        exfalso. assert (lookup le (sub_n rho x) = None).
        { apply lookup_None. rewrite (env_ids_shape le c); auto. }
        congruence.
  Qed.

  Lemma srel_intro : forall rho c s s' f m,
    (stmt_size s <= f)%nat -> has_subst s = false -> untouched rho (binders s) ->
    ax_check Sg c (sub_s rho s) = true -> inv c (sub_s rho s) m ->
    s' = fst (lin f (sub_s rho s) c m) -> srel rho c s s'.
  Proof. intros rho c s s' f m H1 H2 H3 H4 H5 H6. exists f, m. auto 10. Qed.

  Lemma srel_fuel : forall rho c s s', srel rho c s s' ->
    exists f m, (stmt_size s <= S f)%nat /\ has_subst s = false /\ untouched rho (binders s) /\
                ax_check Sg c (sub_s rho s) = true /\ inv c (sub_s rho s) m /\
                s' = fst (lin (S f) (sub_s rho s) c m).
  Proof.
    intros rho c s s' [f [m [H1 H2]]]. destruct f as [|f].
    - pose proof (stmt_size_pos s). lia.
    - exists f, m. auto.
  Qed.

  (* ---------------- exit ---------------- *)
  Lemma sim_exit : forall n rho c v s' ne le out o,
    srel rho c (Exit v) s' -> map fst le = vars c -> erel rho (fv (Exit v)) ne le ->
    exec_named (S n) P ne (Exit v) out = o -> good o -> exists n', exec_linear n' P' le s' out = o.
  Proof.
    intros n rho c v s' ne le out o Hs Hsh He Hrun Hg.
    apply srel_fuel in Hs. destruct Hs as [f [m [_ [_ [_ [_ [_ ->]]]]]]].
    simpl in Hrun. simpl.
    destruct (lookup_int ne v) as [z|] eqn:E; [|subst; exfalso; eapply finish_stuck_not_good; eauto].
    assert (E' : lookup_int le (sub_id rho v) = Some z) by (eapply erel_int; eauto; simpl; auto).
    exists 1%nat. simpl. rewrite E'. auto.
  Qed.

  (* ---------------- ifc ---------------- *)
  Lemma sim_ifc : forall n, sim_n n -> forall rho c so a b t e s' ne le out o,
    srel rho c (IfC so a b t e) s' -> map fst le = vars c -> erel rho (fv (IfC so a b t e)) ne le ->
    exec_named (S n) P ne (IfC so a b t e) out = o -> good o -> exists n', exec_linear n' P' le s' out = o.
  Proof.
    intros n IH rho c so a b t e s' ne le out o Hs Hsh He Hrun Hg.
    apply srel_fuel in Hs. destruct Hs as [f [m [Hsz [Hns [Hu [Hax [Hinv ->]]]]]]].
    simpl sub_s in *. rewrite lin_ifc. simpl in Hsz, Hns, Hu. apply orb_false_iff in Hns. destruct Hns as [Hns1 Hns2].
    simpl in Hax.
    apply andb_true_iff in Hax. destruct Hax as [Hax Hae].
    apply andb_true_iff in Hax. destruct Hax as [Hax Hat].
    assert (It : inv c (sub_s rho t) m).
    { apply inv_gen with (c := c) (s := IfC so (sub_id rho a) (option_map (sub_id rho) b) (sub_s rho t) (sub_s rho e))
                         (m := m) (pre := []) (post := binders (sub_s rho e));
        [exact Hinv|lia|apply Hinv|reflexivity|auto]. }
    pose proof (lin_good Sg f (sub_s rho t) c m) as Gt.
    destruct Gt as [_ [Gt2 _]]; [rewrite size_sub; lia|auto|auto|].
    destruct (lin f (sub_s rho t) c m) as [t' m1] eqn:Et. cbn [fst snd] in *.
    assert (Ie : inv c (sub_s rho e) m1).
    { apply inv_gen with (c := c) (s := IfC so (sub_id rho a) (option_map (sub_id rho) b) (sub_s rho t) (sub_s rho e))
                         (m := m) (pre := binders (sub_s rho t)) (post := []);
        [exact Hinv|lia|apply Hinv|simpl; rewrite app_nil_r; auto|auto]. }
    destruct (lin f (sub_s rho e) c m1) as [e' m2] eqn:Ee. cbn [fst snd] in *.
    (* the named step *)
    simpl in Hrun.
    destruct (lookup_int ne a) as [x|] eqn:Ea; [|subst; exfalso; eapply finish_stuck_not_good; eauto].
    assert (Eb : exists y, match b with Some b0 => lookup_int ne b0 | None => Some 0%Z end = Some y).
    { destruct (match b with Some b0 => lookup_int ne b0 | None => Some 0%Z end) eqn:Eb; eauto.
      subst; exfalso; eapply finish_stuck_not_good; eauto. }
    destruct Eb as [y Eb]. rewrite Eb in Hrun.
    assert (Ea' : lookup_int le (sub_id rho a) = Some x).
    { eapply erel_int; eauto. simpl. destruct b; apply add_In; auto. right. apply add_In; auto. }
    assert (Eb' : match option_map (sub_id rho) b with Some b0 => lookup_int le b0 | None => Some 0%Z end = Some y).
    { destruct b as [b0|]; simpl in *; auto. eapply erel_int; eauto. apply add_In; auto. }
    assert (Hfv : forall z, In z (union (fv e) (fv t)) -> In z (fv (IfC so a b t e))).
    { intros z Hz. simpl. destruct b; repeat (apply add_In; right); auto. }
    destruct (eval_cmp so x y) eqn:Ec.
    - destruct (IH rho c t t' ne le out o) as [n1 Hn1]; auto.
      + apply srel_intro with (f := f) (m := m); auto; [lia| |rewrite Et; auto].
        intros z Hz. apply Hu. apply in_or_app; auto.
      + eapply erel_sub; eauto. intros z Hz. apply Hfv. apply union_In; auto.
      + exists (S n1). simpl. rewrite Ea', Eb', Ec. auto.
    - destruct (IH rho c e e' ne le out o) as [n1 Hn1]; auto.
      + apply srel_intro with (f := f) (m := m1); auto; [lia| |rewrite Ee; auto].
        intros z Hz. apply Hu. apply in_or_app; auto.
      + eapply erel_sub; eauto. intros z Hz. apply Hfv. apply union_In; auto.
      + exists (S n1). simpl. rewrite Ea', Eb', Ec. auto.
  Qed.

  Lemma erel_filter : forall rho Fs F' F_r c ne le,
    map fst le = vars c -> NoDup (ids c) -> erel rho Fs ne le ->
    (forall x, In x F' -> In x Fs /\ In (sub_n rho x) F_r) ->
    erel rho F' ne (rebind le (filter_by_set c F_r) (filter_by_set c F_r)).
  Proof.
    intros rho Fs F' F_r c ne le Hsh Hnd He HF x Hx.
    destruct (HF x Hx) as [H1 H2]. destruct (He x H1) as [w [w' [L1 [L2 V]]]].
    exists w, w'. split; auto. split; auto.
    rewrite rebind_self_lookup0.
    - rewrite (getv_Some _ _ _ L2). auto.
    - apply fbs_NoDup; auto.
    - apply fbs_ids_In. split; auto.
      destruct (in_dec N.eq_dec (sub_n rho x) (ids c)); auto.
      exfalso. assert (lookup le (sub_n rho x) = None).
      { apply lookup_None. rewrite (env_ids_shape le c); auto. }
      congruence.
  Qed.

  Lemma shape_snoc : forall le (nc : ctx) v (val : value),
    map fst (rebind le nc nc ++ [(v, val)]) = vars (nc ++ [mkb v Ext I64]).
  Proof. intros. rewrite map_app, rebind_fst, vars_app; auto. Qed.

  Lemma fbs_in_ctx : forall c F b, In b (filter_by_set c F) -> In (idn (bvar b)) (ids c).
  Proof. intros c F b H. apply fbs_In in H. destruct H. apply In_ids; auto. Qed.

  (* ---------------- print ---------------- *)
  Lemma sim_print : forall n, sim_n n -> forall rho c nl v next s' ne le out o,
    srel rho c (PrintI64 nl v next) s' -> map fst le = vars c -> erel rho (fv (PrintI64 nl v next)) ne le ->
    exec_named (S n) P ne (PrintI64 nl v next) out = o -> good o -> exists n', exec_linear n' P' le s' out = o.
  Proof.
    intros n IH rho c nl v next s' ne le out o Hs Hsh He Hrun Hg.
    apply srel_fuel in Hs. destruct Hs as [f [m [Hsz [Hns [Hu [Hax [Hinv ->]]]]]]].
    simpl sub_s in *. rewrite lin_print. cbv zeta. simpl in Hsz, Hns, Hu, Hax.
    assert (I1 : NoDup (ids c)) by apply Hinv.
    apply andb_true_iff in Hax. destruct Hax as [Hv Hax].
    set (vr := sub_id rho v) in *. set (nr := sub_s rho next) in *.
    set (F := add (idn vr) (fv nr)). set (nc := filter_by_set c F).
    assert (Hnc : NoDup (ids nc)) by (apply fbs_NoDup; auto).
    assert (Hax' : ax_check Sg nc nr = true).
    { rewrite <- Hax. symmetry. apply ax_check_ext. intros x Hx.
      apply lookup_fbs_sub; auto. apply add_In; auto. }
    assert (Hinv' : inv nc nr m).
    { apply inv_gen with (c := c) (s := PrintI64 nl vr nr) (m := m) (pre := []) (post := []);
        [exact Hinv|lia|auto|simpl; rewrite app_nil_r; auto|].
      intros x Hx. left. eapply fbs_ids_incl; eauto. }
    destruct (lin f nr nc m) as [n' m1] eqn:En.
    (* named step *)
    simpl in Hrun.
    destruct (lookup_int ne v) as [z|] eqn:Ev; [|subst; exfalso; eapply finish_stuck_not_good; eauto].
    assert (Ev' : lookup_int le vr = Some z) by (eapply erel_int; eauto; simpl; apply add_In; auto).
    set (le1 := rebind le nc nc).
    assert (Ev1 : lookup_int le1 vr = Some z).
    { unfold lookup_int, lookup_id in *. unfold le1. rewrite rebind_self_lookup0; auto.
      - destruct (lookup le (idn vr)) eqn:E; try discriminate. rewrite (getv_Some _ _ _ E). auto.
      - apply fbs_ids_In. split; [|apply add_In; auto].
        destruct (in_dec N.eq_dec (idn vr) (ids c)); auto.
        exfalso. assert (lookup le (idn vr) = None) by (apply lookup_None; rewrite (env_ids_shape le c); auto).
        rewrite H in Ev'. discriminate. }
    destruct (IH rho nc next n' ne le1 ((nl, z) :: out) o) as [n1 Hn1]; auto.
    { apply srel_intro with (f := f) (m := m); auto; [lia|fold nr; rewrite En; auto]. }
    { unfold le1. apply rebind_fst; auto. }
    { unfold le1, nc. eapply erel_filter; eauto. intros x Hx. split.
      - simpl. apply add_In; auto.
      - apply add_In. right. apply fv_sub; auto. }
    destruct (wrap_exec P' c le nc nc (PrintI64 nl vr n') (fst (if ctx_eqb c nc then (PrintI64 nl vr n', m1)
               else (Substitute (self_re nc) (PrintI64 nl vr n'), m1))) (S n1) out) as [k Hk]; auto.
    { intros b Hb. eapply fbs_in_ctx; eauto. }
    { destruct (ctx_eqb c nc) eqn:Eq; cbn [fst]; auto. right. apply ctx_eqb_eq in Eq. auto. }
    exists (k + S n1)%nat. rewrite Hk. fold le1. simpl. rewrite Ev1. auto.
  Qed.

  (* ---------------- literal ---------------- *)
  Lemma sim_literal : forall n, sim_n n -> forall rho c k v next s' ne le out o,
    srel rho c (Literal k v next) s' -> map fst le = vars c -> erel rho (fv (Literal k v next)) ne le ->
    exec_named (S n) P ne (Literal k v next) out = o -> good o -> exists n', exec_linear n' P' le s' out = o.
  Proof.
    intros n IH rho c k v next s' ne le out o Hs Hsh He Hrun Hg.
    apply srel_fuel in Hs. destruct Hs as [f [m [Hsz [Hns [Hu [Hax [Hinv ->]]]]]]].
    simpl sub_s in *. rewrite lin_literal. cbv zeta. simpl in Hsz, Hns, Hu, Hax.
    assert (I1 : NoDup (ids c)) by apply Hinv.
    set (nr := sub_s rho next) in *. set (vb := mkb v Ext I64).
    destruct (snoc_ok Sg c (Literal k v nr) m (fv nr) vb nr [] Hinv) as [Hax' [Hinv' [Hnd' [Hnc Iv]]]]; auto.
    set (nc := filter_by_set c (fv nr)) in *.
    destruct (lin f nr (nc ++ [vb]) m) as [n' m1] eqn:En.
    simpl in Hrun.
    set (le1 := rebind le nc nc).
    destruct (IH rho (nc ++ [vb]) next n' ((v, VInt k) :: ne) (le1 ++ [(v, VInt k)]) out o) as [n1 Hn1]; auto.
    { apply srel_intro with (f := f) (m := m); auto; [lia| | |fold nr; rewrite En; auto].
      - intros x Hx. apply Hu. simpl; auto.
      - apply Hinv'. lia. }
    { unfold le1. apply shape_snoc. }
    { unfold le1, nc. eapply erel_snoc; eauto.
      - intros x [<-|[]]. apply Hu. simpl; auto.
      - intros x Hx Hne. split.
        + simpl. apply remove_In; auto.
        + apply fv_sub; auto. intros y Hy. apply Hu. simpl; auto.
      - constructor. }
    destruct (wrap_exec P' c le nc nc (Literal k v n') (fst (if ctx_eqb c nc then (Literal k v n', m1)
               else (Substitute (self_re nc) (Literal k v n'), m1))) (S n1) out) as [j Hj]; auto.
    { intros b Hb. eapply fbs_in_ctx; eauto. }
    { destruct (ctx_eqb c nc) eqn:Eq; cbn [fst]; auto. right. apply ctx_eqb_eq in Eq. auto. }
    exists (j + S n1)%nat. rewrite Hj. fold le1. simpl. auto.
  Qed.

  (* ---------------- op ---------------- *)
  Lemma sim_op : forall n, sim_n n -> forall rho c a op b v next s' ne le out o,
    srel rho c (Op a op b v next) s' -> map fst le = vars c -> erel rho (fv (Op a op b v next)) ne le ->
    exec_named (S n) P ne (Op a op b v next) out = o -> good o -> exists n', exec_linear n' P' le s' out = o.
  Proof.
    intros n IH rho c a op b v next s' ne le out o Hs Hsh He Hrun Hg.
    apply srel_fuel in Hs. destruct Hs as [f [m [Hsz [Hns [Hu [Hax [Hinv ->]]]]]]].
    simpl sub_s in *. rewrite lin_op. cbv zeta. simpl in Hsz, Hns, Hu, Hax.
    assert (I1 : NoDup (ids c)) by apply Hinv.
    apply andb_true_iff in Hax. destruct Hax as [Hax Hn].
    apply andb_true_iff in Hax. destruct Hax as [Ha Hb].
    set (ar := sub_id rho a) in *. set (br := sub_id rho b) in *.
    set (nr := sub_s rho next) in *. set (vb := mkb v Ext I64).
    set (F := add (idn br) (add (idn ar) (fv nr))).
    destruct (snoc_ok Sg c (Op ar op br v nr) m F vb nr [] Hinv) as [Hax' [Hinv' [Hnd' [Hnc Iv]]]]; auto.
    { intros x Hx. left. apply add_In. right. apply add_In. auto. }
    set (nc := filter_by_set c F) in *.
    destruct (lin f nr (nc ++ [vb]) m) as [n' m1] eqn:En.
    simpl in Hrun.
    destruct (lookup_int ne a) as [x|] eqn:Ea; [|subst; exfalso; eapply finish_stuck_not_good; eauto].
    destruct (lookup_int ne b) as [y|] eqn:Eb; [|subst; exfalso; eapply finish_stuck_not_good; eauto].
    assert (Ea' : lookup_int le ar = Some x).
    { eapply erel_int; eauto. simpl. apply add_In. right. apply add_In. auto. }
    assert (Eb' : lookup_int le br = Some y) by (eapply erel_int; eauto; simpl; apply add_In; auto).
    set (le1 := rebind le nc nc).
    assert (Hl1 : forall w z, lookup_int le w = Some z -> In (idn w) F -> lookup_int le1 w = Some z).
    { intros w z Hw HwF. unfold lookup_int, lookup_id in *. unfold le1. rewrite rebind_self_lookup0; auto.
      - destruct (lookup le (idn w)) eqn:E; try discriminate. rewrite (getv_Some _ _ _ E). auto.
      - apply fbs_ids_In. split; auto.
        destruct (in_dec N.eq_dec (idn w) (ids c)); auto.
        exfalso. assert (lookup le (idn w) = None) by (apply lookup_None; rewrite (env_ids_shape le c); auto).
        rewrite H in Hw. discriminate. }
    assert (Ea1 : lookup_int le1 ar = Some x).
    { apply Hl1; auto. apply add_In. right. apply add_In. auto. }
    assert (Eb1 : lookup_int le1 br = Some y) by (apply Hl1; auto; apply add_In; auto).
    destruct (wrap_exec P' c le nc nc (Op ar op br v n') (fst (if ctx_eqb c nc then (Op ar op br v n', m1)
               else (Substitute (self_re nc) (Op ar op br v n'), m1))) 1%nat out) as [j0 Hj0]; auto.
    { intros b0 Hb0. eapply fbs_in_ctx; eauto. }
    { destruct (ctx_eqb c nc) eqn:Eq; cbn [fst]; auto. right. apply ctx_eqb_eq in Eq. auto. }
    destruct (eval_op op x y) as [z|why] eqn:Eo.
    - destruct (IH rho (nc ++ [vb]) next n' ((v, VInt z) :: ne) (le1 ++ [(v, VInt z)]) out o) as [n1 Hn1]; auto.
      { apply srel_intro with (f := f) (m := m); auto; [lia| | |fold nr; rewrite En; auto].
        - intros w Hw. apply Hu. simpl; auto.
        - apply Hinv'. lia. }
      { unfold le1. apply shape_snoc. }
      { unfold le1, nc. eapply erel_snoc; eauto.
        - intros w [<-|[]]. apply Hu. simpl; auto.
        - intros w Hw Hne. split.
          + simpl. apply add_In. right. apply add_In. right. apply remove_In; auto.
          + apply add_In. right. apply add_In. right. apply fv_sub; auto. intros u Hu'. apply Hu. simpl; auto.
        - constructor. }
      destruct (wrap_exec P' c le nc nc (Op ar op br v n') (fst (if ctx_eqb c nc then (Op ar op br v n', m1)
                 else (Substitute (self_re nc) (Op ar op br v n'), m1))) (S n1) out) as [j Hj]; auto.
      { intros b0 Hb0. eapply fbs_in_ctx; eauto. }
      { destruct (ctx_eqb c nc) eqn:Eq; cbn [fst]; auto. right. apply ctx_eqb_eq in Eq. auto. }
      exists (j + S n1)%nat. rewrite Hj. fold le1. simpl. rewrite Ea1, Eb1, Eo. auto.
    - exists (j0 + 1)%nat. rewrite Hj0. fold le1. simpl. rewrite Ea1, Eb1, Eo. auto.
  Qed.
End Sim.
