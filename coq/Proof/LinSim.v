(* C05, semantic half: forward simulation from the named machine on a program to the linear
   machine on its linearization.

   Relation between the two machine states (named: env ne, statement s; linear: env le parallel to
   a context c, statement s'):
     srel rho c s s'   s' is what `lin` returns for the statement `sub_s rho s` in context c, and the
                       hypotheses of the syntactic theorem hold there.  rho is the accumulated
                       renaming (Create renames `next`); it never touches binders.
     erel rho F ne le  every variable x in F (the free variables of s) has a value in ne, the
                       variable `rho x` has a value in le, and the two values are related.
     vrel              integers equal; objects field-wise; closures: same clauses up to
                       linearization, captured environments related on the free variables. *)
From Coq Require Import String List ZArith NArith Bool Lia Permutation.
From SCC Require Import Base.Sexp Lang.AxSyn Sem.AxSem Model.Linearize Model.LinCheck.
From SCC Require Import Proof.LinBasics Proof.LinFbs Proof.LinFreshen Proof.LinTyping Proof.LinSubst.
From SCC Require Import Proof.LinearizeProof Proof.LinMachine.
Import ListNotations.
Open Scope list_scope.
Open Scope N_scope.

Definition srel (Sg : sigs) (rho : list (N * ident)) (c : ctx) (s s' : stmt) : Prop :=
  exists f m, (stmt_size s <= f)%nat /\ has_subst s = false /\ untouched rho (binders s) /\
              ax_check Sg c (sub_s rho s) = true /\ inv c (sub_s rho s) m /\
              s' = fst (lin f (sub_s rho s) c m).

Inductive vrel (Sg : sigs) : value -> value -> Prop :=
| VR_int : forall z, vrel Sg (VInt z) (VInt z)
| VR_obj : forall ty tag fs fs', Forall2 (vrel Sg) fs fs' -> vrel Sg (VObj ty tag fs) (VObj ty tag fs')
| VR_clo : forall ty cls cls' ne le rho cc,
    map fst le = vars cc ->
    Forall2 (fun cl cl' => cl_xtor cl' = cl_xtor cl /\ (cl_ctx cl' = cl_ctx cl /\
                           untouched rho (ids (cl_ctx cl)) /\
                           srel Sg rho (cl_ctx cl ++ cc) (cl_body cl) (cl_body cl'))) cls cls' ->
    (forall x, In x (fv_clauses cls) ->
       exists v v', lookup ne x = Some v /\ lookup le (sub_n rho x) = Some v' /\ vrel Sg v v') ->
    vrel Sg (VClo ty cls ne) (VClo ty cls' le).

Definition erel (Sg : sigs) (rho : list (N * ident)) (F : list N) (ne le : env) : Prop :=
  forall x, In x F -> exists v v', lookup ne x = Some v /\ lookup le (sub_n rho x) = Some v' /\ vrel Sg v v'.

Lemma erel_sub : forall Sg rho F F' ne le, erel Sg rho F ne le -> (forall x, In x F' -> In x F) -> erel Sg rho F' ne le.
Proof. intros Sg rho F F' ne le H Hs x Hx. apply H; auto. Qed.

Lemma vrel_int_inv : forall Sg z v', vrel Sg (VInt z) v' -> v' = VInt z.
Proof. intros Sg z v' H; inversion H; auto. Qed.

Lemma erel_int : forall Sg rho F ne le x z,
  erel Sg rho F ne le -> In (idn x) F -> lookup_int ne x = Some z -> lookup_int le (sub_id rho x) = Some z.
Proof.
  intros Sg rho F ne le x z H Hx Hl. destruct (H _ Hx) as [v [v' [L1 [L2 V]]]].
  unfold lookup_int, lookup_id in *. rewrite L1 in Hl. destruct v; try discriminate. inversion Hl; subst.
  apply vrel_int_inv in V. subst. rewrite sub_id_n, L2. auto.
Qed.

Lemma untouched_sub_n : forall rho xs x, untouched rho xs -> In x xs -> sub_n rho x = x.
Proof. intros rho xs x H Hx. apply sub_n_notin. apply H; auto. Qed.

Lemma rebind_self_lookup0 : forall le nc x,
  NoDup (ids nc) -> In x (ids nc) -> lookup (rebind le nc nc) x = Some (getv le x).
Proof. intros. rewrite <- (app_nil_r (rebind le nc nc)). apply rebind_self_lookup; auto. Qed.

(* ---------- generic facts about the continuation `next` in `filter_by_set c F ++ [vb]` ---------- *)
Lemma snoc_ok : forall Sg c s m F vb next pre,
  inv c s m -> binders s = idn (bvar vb) :: pre ++ binders next ->
  ax_check Sg (vb :: c) next = true ->
  (forall x, In x (fv next) -> In x F \/ x = idn (bvar vb)) ->
  let nc := filter_by_set c F in
  ax_check Sg (nc ++ [vb]) next = true /\ (forall m', m <= m' -> inv (nc ++ [vb]) next m') /\
  NoDup (ids (nc ++ [vb])) /\ NoDup (ids nc) /\ ~ In (idn (bvar vb)) (ids c).
Proof.
  intros Sg c s m F vb next pre Hinv Hb Hax HF nc.
  assert (I1 : NoDup (ids c)) by apply Hinv.
  assert (Iv : ~ In (idn (bvar vb)) (ids c)).
  { destruct Hinv as [_ [_ [I3 _]]]. intros Hin. apply (I3 _ Hin). rewrite Hb. simpl; auto. }
  assert (Hnc : NoDup (ids nc)) by (apply fbs_NoDup; auto).
  assert (Hnd' : NoDup (ids (nc ++ [vb]))).
  { rewrite ids_app. apply NoDup_snoc; auto. intros Hin. apply Iv. eapply fbs_ids_incl; eauto. }
  split; [|split; [|split; [|split]]]; auto.
  - rewrite <- Hax. symmetry. apply ax_check_ext. intros x Hx. apply lookup_snoc_fbs; auto.
  - intros m' Hm'.
    apply inv_gen with (c := c) (s := s) (m := m) (pre := idn (bvar vb) :: pre) (post := []);
      [exact Hinv|lia|auto|rewrite Hb; simpl; rewrite app_nil_r; auto|].
    intros x Hx. rewrite ids_app in Hx. apply in_app_or in Hx. destruct Hx as [Hx|[<-|[]]].
    + left. eapply fbs_ids_incl; eauto.
    + right. left. simpl; auto.
Qed.

Ltac cl_simpl := repeat match goal with
  | |- context [cl_body (?x, ?c, ?b)] => change (cl_body (x, c, b)) with b
  | |- context [cl_ctx (?x, ?c, ?b)] => change (cl_ctx (x, c, b)) with c
  | |- context [cl_xtor (?x, ?c, ?b)] => change (cl_xtor (x, c, b)) with x
  | H : context [cl_body (?x, ?c, ?b)] |- _ => change (cl_body (x, c, b)) with b in H
  | H : context [cl_ctx (?x, ?c, ?b)] |- _ => change (cl_ctx (x, c, b)) with c in H
  | H : context [cl_xtor (?x, ?c, ?b)] |- _ => change (cl_xtor (x, c, b)) with x in H
  end.

Section Sim.
  Variable P : prog.
  Hypothesis HP : prog_ok P = true.
  Notation Sg := (sigs_of P).
  Notation P' := (linearize P).
  Notation srel := (srel Sg).
  Notation vrel := (vrel Sg).
  Notation erel := (erel Sg).

  Definition sim_n (n : nat) : Prop := forall rho c s s' ne le out o,
    srel rho c s s' -> map fst le = vars c -> erel rho (fv s) ne le ->
    exec_named n P ne s out = o -> good o -> exists n', exec_linear n' P' le s' out = o.

  (* the environment after binding one new variable at the end *)
  Lemma erel_snoc : forall rho Fs F_r c v (val val' : value) next ne le,
    map fst le = vars c -> NoDup (ids c) -> untouched rho [idn v] -> ~ In (idn v) (ids c) ->
    (forall x, In x (fv next) -> x <> idn v -> In x Fs /\ In (sub_n rho x) F_r) ->
    erel rho Fs ne le -> vrel val val' ->
    erel rho (fv next) ((v, val) :: ne)
         (rebind le (filter_by_set c F_r) (filter_by_set c F_r) ++ [(v, val')]).
  Proof.
    intros rho Fs F_r c v val val' next ne le Hsh Hnd Hu Hv HF He Hval x Hx.
    set (nc := filter_by_set c F_r).
    assert (Hnc : NoDup (ids nc)) by (apply fbs_NoDup; auto).
    destruct (N.eq_dec x (idn v)) as [->|Hne].
    - exists val, val'. simpl. rewrite N.eqb_refl.
      rewrite (untouched_sub_n rho [idn v]) by (simpl; auto).
      rewrite rebind_notin; auto.
      + simpl. rewrite N.eqb_refl. auto.
      + intros Hin. apply Hv. eapply fbs_ids_incl; eauto.
    - destruct (HF x Hx Hne) as [H1 H2]. destruct (He x H1) as [w [w' [L1 [L2 V]]]].
      exists w, w'. simpl. apply N.eqb_neq in Hne. rewrite N.eqb_sym in Hne. rewrite Hne.
      split; auto. split; auto.
      rewrite rebind_self_lookup; auto.
      + rewrite (getv_Some _ _ _ L2). auto.
      + apply fbs_ids_In. split; auto.
        destruct (in_dec N.eq_dec (sub_n rho x) (ids c)); auto.
        exfalso. assert (lookup le (sub_n rho x) = None).
        { apply lookup_None. rewrite (env_ids_shape le c); auto. }
        congruence.
  Qed.

  Lemma srel_intro : forall rho c s s' f m,
    (stmt_size s <= f)%nat -> has_subst s = false -> untouched rho (binders s) ->
    ax_check Sg c (sub_s rho s) = true -> inv c (sub_s rho s) m ->
    s' = fst (lin f (sub_s rho s) c m) -> srel rho c s s'.
  Proof. intros rho c s s' f m H1 H2 H3 H4 H5 H6. exists f, m. auto 10. Qed.

  Lemma srel_fuel : forall rho c s s', srel rho c s s' ->
    exists f m, (stmt_size s <= S f)%nat /\ has_subst s = false /\ untouched rho (binders s) /\
                ax_check Sg c (sub_s rho s) = true /\ inv c (sub_s rho s) m /\
                s' = fst (lin (S f) (sub_s rho s) c m).
  Proof.
    intros rho c s s' [f [m [H1 H2]]]. destruct f as [|f].
    - pose proof (stmt_size_pos s). lia.
    - exists f, m. auto.
  Qed.

  (* ---------------- exit ---------------- *)
  Lemma sim_exit : forall n rho c v s' ne le out o,
    srel rho c (Exit v) s' -> map fst le = vars c -> erel rho (fv (Exit v)) ne le ->
    exec_named (S n) P ne (Exit v) out = o -> good o -> exists n', exec_linear n' P' le s' out = o.
  Proof.
    intros n rho c v s' ne le out o Hs Hsh He Hrun Hg.
    apply srel_fuel in Hs. destruct Hs as [f [m [_ [_ [_ [_ [_ ->]]]]]]].
    simpl in Hrun. simpl.
    destruct (lookup_int ne v) as [z|] eqn:E; [|subst; exfalso; eapply finish_stuck_not_good; eauto].
    assert (E' : lookup_int le (sub_id rho v) = Some z) by (eapply erel_int; eauto; simpl; auto).
    exists 1%nat. simpl. rewrite E'. auto.
  Qed.

  (* ---------------- ifc ---------------- *)
  Lemma sim_ifc : forall n, sim_n n -> forall rho c so a b t e s' ne le out o,
    srel rho c (IfC so a b t e) s' -> map fst le = vars c -> erel rho (fv (IfC so a b t e)) ne le ->
    exec_named (S n) P ne (IfC so a b t e) out = o -> good o -> exists n', exec_linear n' P' le s' out = o.
  Proof.
    intros n IH rho c so a b t e s' ne le out o Hs Hsh He Hrun Hg.
    apply srel_fuel in Hs. destruct Hs as [f [m [Hsz [Hns [Hu [Hax [Hinv ->]]]]]]].
    simpl sub_s in *. rewrite lin_ifc. simpl in Hsz, Hns, Hu. apply orb_false_iff in Hns. destruct Hns as [Hns1 Hns2].
    simpl in Hax.
    apply andb_true_iff in Hax. destruct Hax as [Hax Hae].
    apply andb_true_iff in Hax. destruct Hax as [Hax Hat].
    assert (It : inv c (sub_s rho t) m).
    { apply inv_gen with (c := c) (s := IfC so (sub_id rho a) (option_map (sub_id rho) b) (sub_s rho t) (sub_s rho e))
                         (m := m) (pre := []) (post := binders (sub_s rho e));
        [exact Hinv|lia|apply Hinv|reflexivity|auto]. }
    pose proof (lin_good Sg f (sub_s rho t) c m) as Gt.
    destruct Gt as [_ [Gt2 _]]; [rewrite size_sub; lia|auto|auto|].
    destruct (lin f (sub_s rho t) c m) as [t' m1] eqn:Et. cbn [fst snd] in *.
    assert (Ie : inv c (sub_s rho e) m1).
    { apply inv_gen with (c := c) (s := IfC so (sub_id rho a) (option_map (sub_id rho) b) (sub_s rho t) (sub_s rho e))
                         (m := m) (pre := binders (sub_s rho t)) (post := []);
        [exact Hinv|lia|apply Hinv|simpl; rewrite app_nil_r; auto|auto]. }
    destruct (lin f (sub_s rho e) c m1) as [e' m2] eqn:Ee. cbn [fst snd] in *.
    (* the named step *)
    simpl in Hrun.
    destruct (lookup_int ne a) as [x|] eqn:Ea; [|subst; exfalso; eapply finish_stuck_not_good; eauto].
    assert (Eb : exists y, match b with Some b0 => lookup_int ne b0 | None => Some 0%Z end = Some y).
    { destruct (match b with Some b0 => lookup_int ne b0 | None => Some 0%Z end) eqn:Eb; eauto.
      subst; exfalso; eapply finish_stuck_not_good; eauto. }
    destruct Eb as [y Eb]. rewrite Eb in Hrun.
    assert (Ea' : lookup_int le (sub_id rho a) = Some x).
    { eapply erel_int; eauto. simpl. destruct b; apply add_In; auto. right. apply add_In; auto. }
    assert (Eb' : match option_map (sub_id rho) b with Some b0 => lookup_int le b0 | None => Some 0%Z end = Some y).
    { destruct b as [b0|]; simpl in *; auto. eapply erel_int; eauto. apply add_In; auto. }
    assert (Hfv : forall z, In z (union (fv e) (fv t)) -> In z (fv (IfC so a b t e))).
    { intros z Hz. simpl. destruct b; repeat (apply add_In; right); auto. }
    destruct (eval_cmp so x y) eqn:Ec.
    - destruct (IH rho c t t' ne le out o) as [n1 Hn1]; auto.
      + apply srel_intro with (f := f) (m := m); auto; [lia| |rewrite Et; auto].
        intros z Hz. apply Hu. apply in_or_app; auto.
      + eapply erel_sub; eauto. intros z Hz. apply Hfv. apply union_In; auto.
      + exists (S n1). simpl. rewrite Ea', Eb', Ec. auto.
    - destruct (IH rho c e e' ne le out o) as [n1 Hn1]; auto.
      + apply srel_intro with (f := f) (m := m1); auto; [lia| |rewrite Ee; auto].
        intros z Hz. apply Hu. apply in_or_app; auto.
      + eapply erel_sub; eauto. intros z Hz. apply Hfv. apply union_In; auto.
      + exists (S n1). simpl. rewrite Ea', Eb', Ec. auto.
  Qed.

  Lemma erel_filter : forall rho Fs F' F_r c ne le,
    map fst le = vars c -> NoDup (ids c) -> erel rho Fs ne le ->
    (forall x, In x F' -> In x Fs /\ In (sub_n rho x) F_r) ->
    erel rho F' ne (rebind le (filter_by_set c F_r) (filter_by_set c F_r)).
  Proof.
    intros rho Fs F' F_r c ne le Hsh Hnd He HF x Hx.
    destruct (HF x Hx) as [H1 H2]. destruct (He x H1) as [w [w' [L1 [L2 V]]]].
    exists w, w'. split; auto. split; auto.
    rewrite rebind_self_lookup0.
    - rewrite (getv_Some _ _ _ L2). auto.
    - apply fbs_NoDup; auto.
    - apply fbs_ids_In. split; auto.
      destruct (in_dec N.eq_dec (sub_n rho x) (ids c)); auto.
      exfalso. assert (lookup le (sub_n rho x) = None).
      { apply lookup_None. rewrite (env_ids_shape le c); auto. }
      congruence.
  Qed.

  Lemma shape_snoc : forall le (nc : ctx) v (val : value),
    map fst (rebind le nc nc ++ [(v, val)]) = vars (nc ++ [mkb v Ext I64]).
  Proof. intros. rewrite map_app, rebind_fst, vars_app; auto. Qed.

  Lemma fbs_in_ctx : forall c F b, In b (filter_by_set c F) -> In (idn (bvar b)) (ids c).
  Proof. intros c F b H. apply fbs_In in H. destruct H. apply In_ids; auto. Qed.

  (* ---------------- print ---------------- *)
  Lemma sim_print : forall n, sim_n n -> forall rho c nl v next s' ne le out o,
    srel rho c (PrintI64 nl v next) s' -> map fst le = vars c -> erel rho (fv (PrintI64 nl v next)) ne le ->
    exec_named (S n) P ne (PrintI64 nl v next) out = o -> good o -> exists n', exec_linear n' P' le s' out = o.
  Proof.
    intros n IH rho c nl v next s' ne le out o Hs Hsh He Hrun Hg.
    apply srel_fuel in Hs. destruct Hs as [f [m [Hsz [Hns [Hu [Hax [Hinv ->]]]]]]].
    simpl sub_s in *. rewrite lin_print. cbv zeta. simpl in Hsz, Hns, Hu, Hax.
    assert (I1 : NoDup (ids c)) by apply Hinv.
    apply andb_true_iff in Hax. destruct Hax as [Hv Hax].
    set (vr := sub_id rho v) in *. set (nr := sub_s rho next) in *.
    set (F := add (idn vr) (fv nr)). set (nc := filter_by_set c F).
    assert (Hnc : NoDup (ids nc)) by (apply fbs_NoDup; auto).
    assert (Hax' : ax_check Sg nc nr = true).
    { rewrite <- Hax. symmetry. apply ax_check_ext. intros x Hx.
      apply lookup_fbs_sub; auto. apply add_In; auto. }
    assert (Hinv' : inv nc nr m).
    { apply inv_gen with (c := c) (s := PrintI64 nl vr nr) (m := m) (pre := []) (post := []);
        [exact Hinv|lia|auto|simpl; rewrite app_nil_r; auto|].
      intros x Hx. left. eapply fbs_ids_incl; eauto. }
    destruct (lin f nr nc m) as [n' m1] eqn:En.
    (* named step *)
    simpl in Hrun.
    destruct (lookup_int ne v) as [z|] eqn:Ev; [|subst; exfalso; eapply finish_stuck_not_good; eauto].
    assert (Ev' : lookup_int le vr = Some z) by (eapply erel_int; eauto; simpl; apply add_In; auto).
    set (le1 := rebind le nc nc).
    assert (Ev1 : lookup_int le1 vr = Some z).
    { unfold lookup_int, lookup_id in *. unfold le1. rewrite rebind_self_lookup0; auto.
      - destruct (lookup le (idn vr)) eqn:E; try discriminate. rewrite (getv_Some _ _ _ E). auto.
      - apply fbs_ids_In. split; [|apply add_In; auto].
        destruct (in_dec N.eq_dec (idn vr) (ids c)); auto.
        exfalso. assert (lookup le (idn vr) = None) by (apply lookup_None; rewrite (env_ids_shape le c); auto).
        rewrite H in Ev'. discriminate. }
    destruct (IH rho nc next n' ne le1 ((nl, z) :: out) o) as [n1 Hn1]; auto.
    { apply srel_intro with (f := f) (m := m); auto; [lia|fold nr; rewrite En; auto]. }
    { unfold le1. apply rebind_fst; auto. }
    { unfold le1, nc. eapply erel_filter; eauto. intros x Hx. split.
      - simpl. apply add_In; auto.
      - apply add_In. right. apply fv_sub; auto. }
    destruct (wrap_exec P' c le nc nc (PrintI64 nl vr n') (fst (if ctx_eqb c nc then (PrintI64 nl vr n', m1)
               else (Substitute (self_re nc) (PrintI64 nl vr n'), m1))) (S n1) out) as [k Hk]; auto.
    { intros b Hb. eapply fbs_in_ctx; eauto. }
    { destruct (ctx_eqb c nc) eqn:Eq; cbn [fst]; auto. right. apply ctx_eqb_eq in Eq. auto. }
    exists (k + S n1)%nat. rewrite Hk. fold le1. simpl. rewrite Ev1. auto.
  Qed.

  (* ---------------- literal ---------------- *)
  Lemma sim_literal : forall n, sim_n n -> forall rho c k v next s' ne le out o,
    srel rho c (Literal k v next) s' -> map fst le = vars c -> erel rho (fv (Literal k v next)) ne le ->
    exec_named (S n) P ne (Literal k v next) out = o -> good o -> exists n', exec_linear n' P' le s' out = o.
  Proof.
    intros n IH rho c k v next s' ne le out o Hs Hsh He Hrun Hg.
    apply srel_fuel in Hs. destruct Hs as [f [m [Hsz [Hns [Hu [Hax [Hinv ->]]]]]]].
    simpl sub_s in *. rewrite lin_literal. cbv zeta. simpl in Hsz, Hns, Hu, Hax.
    assert (I1 : NoDup (ids c)) by apply Hinv.
    set (nr := sub_s rho next) in *. set (vb := mkb v Ext I64).
    destruct (snoc_ok Sg c (Literal k v nr) m (fv nr) vb nr [] Hinv) as [Hax' [Hinv' [Hnd' [Hnc Iv]]]]; auto.
    set (nc := filter_by_set c (fv nr)) in *.
    destruct (lin f nr (nc ++ [vb]) m) as [n' m1] eqn:En.
    simpl in Hrun.
    set (le1 := rebind le nc nc).
    destruct (IH rho (nc ++ [vb]) next n' ((v, VInt k) :: ne) (le1 ++ [(v, VInt k)]) out o) as [n1 Hn1]; auto.
    { apply srel_intro with (f := f) (m := m); auto; [lia| | |fold nr; rewrite En; auto].
      - intros x Hx. apply Hu. simpl; auto.
      - apply Hinv'. lia. }
    { unfold le1. apply shape_snoc. }
    { unfold le1, nc. eapply erel_snoc; eauto.
      - intros x [<-|[]]. apply Hu. simpl; auto.
      - intros x Hx Hne. split.
        + simpl. apply remove_In; auto.
        + apply fv_sub; auto. intros y Hy. apply Hu. simpl; auto.
      - constructor. }
    destruct (wrap_exec P' c le nc nc (Literal k v n') (fst (if ctx_eqb c nc then (Literal k v n', m1)
               else (Substitute (self_re nc) (Literal k v n'), m1))) (S n1) out) as [j Hj]; auto.
    { intros b Hb. eapply fbs_in_ctx; eauto. }
    { destruct (ctx_eqb c nc) eqn:Eq; cbn [fst]; auto. right. apply ctx_eqb_eq in Eq. auto. }
    exists (j + S n1)%nat. rewrite Hj. fold le1. simpl. auto.
  Qed.

  (* ---------------- op ---------------- *)
  Lemma sim_op : forall n, sim_n n -> forall rho c a op b v next s' ne le out o,
    srel rho c (Op a op b v next) s' -> map fst le = vars c -> erel rho (fv (Op a op b v next)) ne le ->
    exec_named (S n) P ne (Op a op b v next) out = o -> good o -> exists n', exec_linear n' P' le s' out = o.
  Proof.
    intros n IH rho c a op b v next s' ne le out o Hs Hsh He Hrun Hg.
    apply srel_fuel in Hs. destruct Hs as [f [m [Hsz [Hns [Hu [Hax [Hinv ->]]]]]]].
    simpl sub_s in *. rewrite lin_op. cbv zeta. simpl in Hsz, Hns, Hu, Hax.
    assert (I1 : NoDup (ids c)) by apply Hinv.
    apply andb_true_iff in Hax. destruct Hax as [Hax Hn].
    apply andb_true_iff in Hax. destruct Hax as [Ha Hb].
    set (ar := sub_id rho a) in *. set (br := sub_id rho b) in *.
    set (nr := sub_s rho next) in *. set (vb := mkb v Ext I64).
    set (F := add (idn br) (add (idn ar) (fv nr))).
    destruct (snoc_ok Sg c (Op ar op br v nr) m F vb nr [] Hinv) as [Hax' [Hinv' [Hnd' [Hnc Iv]]]]; auto.
    { intros x Hx. left. apply add_In. right. apply add_In. auto. }
    set (nc := filter_by_set c F) in *.
    destruct (lin f nr (nc ++ [vb]) m) as [n' m1] eqn:En.
    simpl in Hrun.
    destruct (lookup_int ne a) as [x|] eqn:Ea; [|subst; exfalso; eapply finish_stuck_not_good; eauto].
    destruct (lookup_int ne b) as [y|] eqn:Eb; [|subst; exfalso; eapply finish_stuck_not_good; eauto].
    assert (Ea' : lookup_int le ar = Some x).
    { eapply erel_int; eauto. simpl. apply add_In. right. apply add_In. auto. }
    assert (Eb' : lookup_int le br = Some y) by (eapply erel_int; eauto; simpl; apply add_In; auto).
    set (le1 := rebind le nc nc).
    assert (Hl1 : forall w z, lookup_int le w = Some z -> In (idn w) F -> lookup_int le1 w = Some z).
    { intros w z Hw HwF. unfold lookup_int, lookup_id in *. unfold le1. rewrite rebind_self_lookup0; auto.
      - destruct (lookup le (idn w)) eqn:E; try discriminate. rewrite (getv_Some _ _ _ E). auto.
      - apply fbs_ids_In. split; auto.
        destruct (in_dec N.eq_dec (idn w) (ids c)); auto.
        exfalso. assert (lookup le (idn w) = None) by (apply lookup_None; rewrite (env_ids_shape le c); auto).
        rewrite H in Hw. discriminate. }
    assert (Ea1 : lookup_int le1 ar = Some x).
    { apply Hl1; auto. apply add_In. right. apply add_In. auto. }
    assert (Eb1 : lookup_int le1 br = Some y) by (apply Hl1; auto; apply add_In; auto).
    destruct (wrap_exec P' c le nc nc (Op ar op br v n') (fst (if ctx_eqb c nc then (Op ar op br v n', m1)
               else (Substitute (self_re nc) (Op ar op br v n'), m1))) 1%nat out) as [j0 Hj0]; auto.
    { intros b0 Hb0. eapply fbs_in_ctx; eauto. }
    { destruct (ctx_eqb c nc) eqn:Eq; cbn [fst]; auto. right. apply ctx_eqb_eq in Eq. auto. }
    destruct (eval_op op x y) as [z|why] eqn:Eo.
    - destruct (IH rho (nc ++ [vb]) next n' ((v, VInt z) :: ne) (le1 ++ [(v, VInt z)]) out o) as [n1 Hn1]; auto.
      { apply srel_intro with (f := f) (m := m); auto; [lia| | |fold nr; rewrite En; auto].
        - intros w Hw. apply Hu. simpl; auto.
        - apply Hinv'. lia. }
      { unfold le1. apply shape_snoc. }
      { unfold le1, nc. eapply erel_snoc; eauto.
        - intros w [<-|[]]. apply Hu. simpl; auto.
        - intros w Hw Hne. split.
          + simpl. apply add_In. right. apply add_In. right. apply remove_In; auto.
          + apply add_In. right. apply add_In. right. apply fv_sub; auto. intros u Hu'. apply Hu. simpl; auto.
        - constructor. }
      destruct (wrap_exec P' c le nc nc (Op ar op br v n') (fst (if ctx_eqb c nc then (Op ar op br v n', m1)
                 else (Substitute (self_re nc) (Op ar op br v n'), m1))) (S n1) out) as [j Hj]; auto.
      { intros b0 Hb0. eapply fbs_in_ctx; eauto. }
      { destruct (ctx_eqb c nc) eqn:Eq; cbn [fst]; auto. right. apply ctx_eqb_eq in Eq. auto. }
      exists (j + S n1)%nat. rewrite Hj. fold le1. simpl. rewrite Ea1, Eb1, Eo. auto.
    - exists (j0 + 1)%nat. rewrite Hj0. fold le1. simpl. rewrite Ea1, Eb1, Eo. auto.
  Qed.

  (* ---------------- values of argument lists ---------------- *)
  Lemma args_vrel : forall rho F ne le (args : ctx) vs,
    erel rho F ne le -> (forall b, In b args -> In (idn (bvar b)) F) ->
    lookups ne (vars args) = Some vs ->
    Forall2 vrel vs (map (fun b => getv le (idn (bvar b))) (map (sub_b rho) args)).
  Proof.
    intros rho F ne le args; induction args as [|b r IH]; intros vs He HF Hl.
    - simpl in Hl. inversion Hl. constructor.
    - change (vars (b :: r)) with (bvar b :: vars r) in Hl. cbn [lookups] in Hl.
      unfold lookup_id in Hl. destruct (lookup ne (idn (bvar b))) as [w|] eqn:E; try discriminate.
      destruct (lookups ne (vars r)) as [ws|] eqn:E'; try discriminate. inversion Hl; subst.
      simpl. constructor.
      + destruct (He (idn (bvar b))) as [u [u' [L1 [L2 V]]]]; [apply HF; simpl; auto|].
        rewrite sub_id_n, (getv_Some _ _ _ L2). congruence.
      + apply IH; auto. intros b0 Hb0. apply HF. simpl; auto.
  Qed.

  Lemma shape_snoc_k : forall le (nc : ctx) v (val : value) k t,
    map fst (rebind le nc nc ++ [(v, val)]) = vars (nc ++ [mkb v k t]).
  Proof. intros. rewrite map_app, rebind_fst, vars_app; auto. Qed.

  Lemma has_b_sub_ids : forall rho (c : ctx) (args : ctx),
    forallb (has_b c) (map (sub_b rho) args) = true ->
    forall b, In b (map (sub_b rho) args) -> In (idn (bvar b)) (ids c).
  Proof. intros rho c args H b Hb. rewrite forallb_forall in H. apply has_b_In_ids. auto. Qed.

  Lemma same_shape_refl : forall a, same_shape a a.
  Proof. induction a; constructor; auto. Qed.

  (* what `lin` returns for a let, both branches presented alike *)
  Lemma lin_let_form : forall f v t tag (ar : ctx) nr c m,
    let nc := filter_by_set c (fv nr) in
    (forall x, In x (ids nc) -> x <= m) -> (forall x, In x (ids ar) -> x <= m) ->
    exists args' n' m1, m <= m1 /\ same_shape ar args' /\
      n' = fst (lin f nr (nc ++ [mkb v Prd t]) m1) /\
      (fst (lin (S f) (Let v t tag ar nr) c m) =
         Substitute (combine (nc ++ args') (vars (nc ++ ar))) (Let v t tag args' n') \/
       (fst (lin (S f) (Let v t tag ar nr) c m) = Let v t tag args' n' /\ c = nc ++ ar /\ nc ++ args' = nc ++ ar)).
  Proof.
    intros f v t tag ar nr c m nc Hb1 Hb2. rewrite lin_let. cbv zeta. fold nc.
    destruct (ctx_eqb c (nc ++ ar)) eqn:Eq.
    - destruct (lin f nr (nc ++ [mkb v Prd t]) m) as [n0 m1] eqn:En.
      exists ar, n0, m. split; [lia|]. split; [apply same_shape_refl|]. split; [rewrite En; auto|].
      right. apply ctx_eqb_eq in Eq. auto.
    - destruct (freshen ar (ids nc) m) as [args0 m1] eqn:Ef.
      destruct (freshen_spec _ _ _ _ _ Ef Hb1 Hb2) as [F1 [F2 _]].
      destruct (lin f nr (nc ++ [mkb v Prd t]) m1) as [n0 m2] eqn:En.
      exists args0, n0, m1. split; auto. split; auto. split; [rewrite En; auto|]. left. auto.
  Qed.

  (* ---------------- let ---------------- *)
  Lemma sim_let : forall n, sim_n n -> forall rho c v t tag args next s' ne le out o,
    srel rho c (Let v t tag args next) s' -> map fst le = vars c -> erel rho (fv (Let v t tag args next)) ne le ->
    exec_named (S n) P ne (Let v t tag args next) out = o -> good o -> exists n', exec_linear n' P' le s' out = o.
  Proof.
    intros n IH rho c v t tag args next s' ne le out o Hs Hsh He Hrun Hg.
    apply srel_fuel in Hs. destruct Hs as [f [m [Hsz [Hns [Hu [Hax [Hinv ->]]]]]]].
    simpl sub_s in *. simpl in Hsz, Hns, Hu, Hax.
    assert (I1 : NoDup (ids c)) by apply Hinv.
    assert (I4 : forall x, In x (ids c) -> x <= m) by apply Hinv.
    apply andb_true_iff in Hax. destruct Hax as [Hax Hn].
    apply andb_true_iff in Hax. destruct Hax as [Hok Hargs].
    set (ar := map (sub_b rho) args) in *. set (nr := sub_s rho next) in *. set (vb := mkb v Prd t).
    destruct (snoc_ok Sg c (Let v t tag ar nr) m (fv nr) vb nr [] Hinv) as [Hax' [Hinv' [Hnd' [Hnc Iv]]]]; auto.
    assert (Har : forall b, In b ar -> In (idn (bvar b)) (ids c)) by (apply has_b_sub_ids; auto).
    destruct (lin_let_form f v t tag ar nr c m) as [args' [n' [m1 [Hm1 [Hshape [Hn' Hform]]]]]].
    { intros x Hx. apply I4. eapply fbs_ids_incl; eauto. }
    { intros x Hx. apply In_ids_ex in Hx. destruct Hx as [b [B1 B2]]. subst. auto. }
    set (nc := filter_by_set c (fv nr)) in *.
    (* named step *)
    simpl in Hrun.
    destruct (ty_name t) as [tn|] eqn:Et; [|subst; exfalso; eapply finish_stuck_not_good; eauto].
    destruct t as [|tn0]; simpl in Et; try discriminate. inversion Et; subst tn0.
    destruct (lookups ne (vars args)) as [vs|] eqn:El; [|subst; exfalso; eapply finish_stuck_not_good; eauto].
    assert (Hvs : Forall2 vrel vs (map (fun b => getv le (idn (bvar b))) ar)).
    { eapply args_vrel; eauto. intros b Hb. simpl. apply union_In. left. apply In_ids; auto. }
    assert (Hlen : length args' = length ar) by (symmetry; apply same_shape_length; auto).
    set (le0 := rebind le nc nc). set (fs := rebind le ar args').
    destruct (IH rho (nc ++ [vb]) next n' ((v, VObj tn tag vs) :: ne)
                 (le0 ++ [(v, VObj tn tag (map snd fs))]) out o) as [n1 Hn1]; auto.
    { apply srel_intro with (f := f) (m := m1); [lia|auto| |exact Hax'| |exact Hn'].
      - intros x Hx. apply Hu. simpl; auto.
      - apply Hinv'. lia. }
    { unfold le0. apply shape_snoc_k. }
    { unfold le0, nc. eapply erel_snoc; eauto.
      - intros x [<-|[]]. apply Hu. simpl; auto.
      - intros x Hx Hne. split.
        + simpl. apply union_In. right. apply remove_In; auto.
        + apply fv_sub; auto. intros y Hy. apply Hu. simpl; auto.
      - constructor. unfold fs. rewrite rebind_snd by auto. auto. }
    destruct (wrap_exec P' c le (nc ++ args') (nc ++ ar) (Let v (Decl tn) tag args' n')
                        (fst (lin (S f) (Let v (Decl tn) tag ar nr) c m)) (S n1) out Hsh I1) as [j Hj];
      [rewrite !app_length; lia| |exact Hform|].
    { intros b Hb. apply in_app_or in Hb. destruct Hb as [Hb|Hb]; auto. eapply fbs_in_ctx; eauto. }
    exists (j + S n1)%nat. rewrite Hj. rewrite rebind_app by auto. fold le0 fs.
    rewrite let_step; auto.
    - unfold fs. rewrite rebind_length; auto.
    - unfold fs. apply env_ids_shape. apply rebind_fst; auto.
  Qed.
  (* ---------------- clauses ---------------- *)
  Lemma Forall2_map_l : forall {A B C} (R : B -> C -> Prop) (g : A -> B) l l',
    Forall2 R (map g l) l' <-> Forall2 (fun x y => R (g x) y) l l'.
  Proof.
    intros A B C R g l; induction l as [|x l IH]; intros l'; simpl; split; intros H; inversion H; subst; constructor; auto;
      apply IH; auto.
  Qed.

  Lemma find_clause_F2 : forall (R : clause -> clause -> Prop) cls cls' tag cl,
    Forall2 (fun a b => cl_xtor b = cl_xtor a /\ R a b) cls cls' ->
    find_clause cls tag = Some cl ->
    exists cl', find_clause cls' tag = Some cl' /\ R cl cl' /\ In cl cls.
  Proof.
    intros R cls cls' tag cl H; induction H as [|a b cls cls' [H1 H2] H IH]; intros Hf; simpl in *; [discriminate|].
    unfold find_clause in *. simpl in *. rewrite H1.
    destruct (ident_eqb (cl_xtor a) tag) eqn:E.
    - inversion Hf; subst. exists b. auto.
    - destruct (IH Hf) as [cl' [F1 [F2 F3]]]. exists cl'. auto.
  Qed.

  Lemma lookup_combine_F2 : forall (R : value -> value -> Prop) xs fs fs' x,
    Forall2 R fs fs' -> length xs = length fs -> In x (map idn xs) ->
    exists w w', lookup (combine xs fs) x = Some w /\ lookup (combine xs fs') x = Some w' /\ R w w'.
  Proof.
    intros R xs fs fs' x H; revert xs; induction H as [|w w' fs fs' Hw H IH]; intros [|y xs] Hlen Hx; simpl in *; try tauto; try discriminate.
    destruct (N.eqb (idn y) x) eqn:E.
    - exists w, w'. auto.
    - apply N.eqb_neq in E. destruct Hx as [Hx|Hx]; [congruence|]. apply IH; auto.
  Qed.

  Lemma switch_clause_ok : forall c v t cls m cl m0,
    inv c (Switch v t cls) m -> ax_clauses Sg c cls = true -> In cl cls -> m <= m0 ->
    ax_check Sg (filter_by_set c (fv_clauses cls) ++ cl_ctx cl) (cl_body cl) = true /\
    inv (filter_by_set c (fv_clauses cls) ++ cl_ctx cl) (cl_body cl) m0 /\
    (forall y, In y (ids (cl_ctx cl)) -> ~ In y (ids c)).
  Proof.
    intros c v t cls m cl m0 Hinv Hcl Hin Hm0.
    assert (I1 : NoDup (ids c)) by apply Hinv.
    assert (I2 : NoDup (binders_cls cls)) by (rewrite <- (binders_switch v t); apply Hinv).
    assert (I3 : forall x, In x (ids c) -> ~ In x (binders_cls cls)).
    { rewrite <- (binders_switch v t). apply Hinv. }
    unfold ax_clauses in Hcl. rewrite forallb_forall in Hcl.
    set (nc := filter_by_set c (fv_clauses cls)).
    assert (Hnc : NoDup (ids nc)) by (apply fbs_NoDup; auto).
    assert (Hd : forall y, In y (ids (cl_ctx cl)) -> ~ In y (ids c)).
    { intros y Hy Hc. apply (I3 _ Hc). eapply binders_cls_In; eauto. apply in_or_app; auto. }
    split; [|split; auto].
    - rewrite <- (Hcl cl Hin). symmetry. apply ax_check_ext. intros x Hx.
      apply lookup_clause_sw; auto.
      destruct (in_dec N.eq_dec x (ids (cl_ctx cl))); auto.
      right. apply fv_clauses_In. exists cl; auto.
    - destruct (binders_cls_split cls cl Hin) as [pre [post0 E]].
      apply inv_gen with (c := c) (s := Switch v t cls) (m := m)
                         (pre := pre ++ ids (cl_ctx cl)) (post := post0); [exact Hinv|lia| | |].
      + rewrite ids_app. apply NoDup_app_iff. repeat split; auto.
        * eapply binders_cls_ctx_NoDup; eauto.
        * intros x Hx Hx'. apply (Hd x Hx'). eapply fbs_ids_incl; eauto.
      + rewrite binders_switch, E. rewrite <- !app_assoc. auto.
      + intros x Hx. rewrite ids_app in Hx. apply in_app_or in Hx. destruct Hx as [Hx|Hx].
        * left. eapply fbs_ids_incl; eauto.
        * right. left. apply in_or_app; auto.
  Qed.

  Lemma erel_clause_sw : forall rho Fs F_r c (ccl : ctx) body (fs fs' : list value) e1 e1' ne le,
    map fst le = vars c -> NoDup (ids c) ->
    untouched rho (ids ccl) -> (forall y, In y (ids ccl) -> ~ In y (ids c)) ->
    bind (vars ccl) fs = Some e1 -> bind (vars ccl) fs' = Some e1' -> Forall2 vrel fs fs' ->
    (forall x, In x (fv body) -> ~ In x (ids ccl) -> In x Fs /\ In (sub_n rho x) F_r) ->
    erel rho Fs ne le ->
    erel rho (fv body) (e1 ++ ne) (rebind le (filter_by_set c F_r) (filter_by_set c F_r) ++ e1').
  Proof.
    intros rho Fs F_r c ccl body fs fs' e1 e1' ne le Hsh Hnd Hu Hd Hb Hb' Hfs HF He x Hx.
    apply bind_Some_length in Hb. destruct Hb as [Hl1 ->].
    apply bind_Some_length in Hb'. destruct Hb' as [Hl1' ->].
    destruct (in_dec N.eq_dec x (ids ccl)) as [Hin|Hnin].
    - rewrite (untouched_sub_n rho (ids ccl)) by auto.
      destruct (lookup_combine_F2 vrel (vars ccl) fs fs' x Hfs Hl1) as [w [w' [L1 [L2 V]]]].
      { rewrite ids_vars. auto. }
      exists w, w'. split; [rewrite lookup_app, L1; auto|]. split; auto.
      rewrite rebind_notin; auto. intros Hc. apply (Hd x Hin). eapply fbs_ids_incl; eauto.
    - destruct (HF x Hx Hnin) as [H1 H2]. destruct (He x H1) as [w [w' [L1 [L2 V]]]].
      exists w, w'. split; [|split; auto].
      + rewrite lookup_app.
        assert (E : lookup (combine (vars ccl) fs) x = None).
        { apply lookup_None. unfold env_ids. rewrite <- (map_map fst idn), combine_map_fst by auto. rewrite ids_vars. auto. }
        rewrite E. auto.
      + rewrite rebind_self_lookup; auto.
        * rewrite (getv_Some _ _ _ L2). auto.
        * apply fbs_NoDup; auto.
        * apply fbs_ids_In. split; auto.
          destruct (in_dec N.eq_dec (sub_n rho x) (ids c)); auto.
          exfalso. assert (lookup le (sub_n rho x) = None).
          { apply lookup_None. rewrite (env_ids_shape le c); auto. }
          congruence.
  Qed.

  Lemma lin_switch_form : forall f vr t clsr c m,
    let nc := filter_by_set c (fv_clauses clsr) in
    let cls' := fst (lin_cls (lin f) (fun cc => nc ++ cc) clsr m) in
    exists v',
      (fst (lin (S f) (Switch vr t clsr) c m) =
         Substitute (combine (nc ++ [mkb v' Prd t]) (vars (nc ++ [mkb vr Prd t]))) (Switch v' t cls') \/
       (fst (lin (S f) (Switch vr t clsr) c m) = Switch v' t cls' /\ c = nc ++ [mkb vr Prd t] /\
        nc ++ [mkb v' Prd t] = nc ++ [mkb vr Prd t])).
  Proof.
    intros f vr t clsr c m nc cls'. rewrite lin_switch. cbv zeta. fold nc. unfold cls'.
    destruct (lin_cls (lin f) (fun cc => nc ++ cc) clsr m) as [cl1 m1] eqn:Ec. cbn [fst].
    destruct (ctx_eqb c (nc ++ [mkb vr Prd t])) eqn:Eq.
    - exists vr. right. apply ctx_eqb_eq in Eq. auto.
    - destruct (mem (idn vr) (ids nc)); cbn [fst]; eexists; left; reflexivity.
  Qed.
  Lemma F2_length : forall {A B} (R : A -> B -> Prop) l l', Forall2 R l l' -> length l = length l'.
  Proof. intros A B R l l' H; induction H; simpl; auto. Qed.

  Lemma existsb_false_In : forall {A} (f : A -> bool) l x, existsb f l = false -> In x l -> f x = false.
  Proof.
    intros A f l x H Hx. destruct (f x) eqn:E; auto.
    assert (existsb f l = true) by (apply existsb_exists; eauto). congruence.
  Qed.

  (* free variables of a renamed clause *)
  Lemma fv_clauses_sub : forall rho cls cl x,
    In cl cls -> has_subst (cl_body cl) = false -> untouched rho (ids (cl_ctx cl) ++ binders (cl_body cl)) ->
    In x (fv (cl_body cl)) -> ~ In x (ids (cl_ctx cl)) ->
    In (sub_n rho x) (fv_clauses (map (fun c0 => (cl_xtor c0, cl_ctx c0, sub_s rho (cl_body c0))) cls)).
  Proof.
    intros rho cls cl x Hin Hns Hu Hx Hnx.
    apply fv_clauses_In. exists (cl_xtor cl, cl_ctx cl, sub_s rho (cl_body cl)).
    split; [apply in_map_iff; exists cl; auto|].
    unfold cl_body at 1, cl_ctx at 1; simpl. split.
    - apply fv_sub; auto. intros y Hy. apply Hu. apply in_or_app; auto.
    - intros Hc. destruct (Hu (sub_n rho x)) as [Y1 Y2]; [apply in_or_app; auto|].
      destruct (N.eq_dec x (sub_n rho x)) as [E|E]; [rewrite <- E in Hc; auto|].
      apply (sub_n_untouched_ne rho x (sub_n rho x) Y1 Y2); auto.
  Qed.

  (* the clause loop on a renamed clause list, with the equation of every output body exposed *)
  Lemma lin_cls_map_spec : forall (L : stmt -> ctx -> N -> stmt * N) mk (h : stmt -> stmt) cls m,
    (forall cl m0, In cl cls -> m <= m0 -> m0 <= snd (L (h (cl_body cl)) (mk (cl_ctx cl)) m0)) ->
    Forall2 (fun cl cl' => cl_xtor cl' = cl_xtor cl /\ (cl_ctx cl' = cl_ctx cl /\
               exists m0, m <= m0 /\ cl_body cl' = fst (L (h (cl_body cl)) (mk (cl_ctx cl)) m0)))
            cls (fst (lin_cls L mk (map (fun c0 => (cl_xtor c0, cl_ctx c0, h (cl_body c0))) cls) m)).
  Proof.
    intros L mk h cls; induction cls as [|[[x cc] body] r IH]; intros m H; simpl; [constructor|].
    cl_simpl.
    pose proof (H (x, cc, body) m (or_introl eq_refl) (N.le_refl m)) as H0. cl_simpl.
    destruct (L (h body) (mk cc) m) as [b' m'] eqn:E. simpl in H0.
    assert (IH' := IH m'). 
    destruct (lin_cls L mk (map (fun c0 => (cl_xtor c0, cl_ctx c0, h (cl_body c0))) r) m') as [r' m''] eqn:E'.
    simpl in *. constructor.
    - cl_simpl. repeat split; auto. exists m. split; [lia|]. rewrite E. auto.
    - eapply Forall2_impl'; [|apply IH'].
      + intros a b [A1 [A2 [m0 [A3 A4]]]]. repeat split; auto. exists m0. split; auto. lia.
      + intros cl m0 Hcl Hm0. apply H; auto. lia.
  Qed.

  (* ---------------- switch ---------------- *)
  Lemma sim_switch : forall n, sim_n n -> forall rho c v t cls s' ne le out o,
    srel rho c (Switch v t cls) s' -> map fst le = vars c -> erel rho (fv (Switch v t cls)) ne le ->
    exec_named (S n) P ne (Switch v t cls) out = o -> good o -> exists n', exec_linear n' P' le s' out = o.
  Proof.
    intros n IH rho c v t cls s' ne le out o Hs Hsh He Hrun Hg.
    apply srel_fuel in Hs. destruct Hs as [f [m [Hsz [Hns [Hu [Hax [Hinv ->]]]]]]].
    rewrite sub_s_switch in *.
    set (vr := sub_id rho v) in *.
    set (clsr := map (fun c0 => (cl_xtor c0, cl_ctx c0, sub_s rho (cl_body c0))) cls) in *.
    rewrite size_switch in Hsz. rewrite has_subst_switch in Hns. rewrite binders_switch in Hu.
    rewrite ax_check_switch in Hax.
    assert (I1 : NoDup (ids c)) by apply Hinv.
    apply andb_true_iff in Hax. destruct Hax as [Hax Hcl].
    apply andb_true_iff in Hax. destruct Hax as [Hv Hok].
    destruct (lin_switch_form f vr t clsr c m) as [v' Hform].
    set (nc := filter_by_set c (fv_clauses clsr)) in *.
    assert (Hnc : NoDup (ids nc)) by (apply fbs_NoDup; auto).
    (* the clauses of the output *)
    assert (H2' := lin_cls_map_spec (lin f) (fun cc => nc ++ cc) (sub_s rho) cls m).
    fold clsr in H2'.
    assert (H2 : forall cl m0, In cl cls -> m <= m0 ->
                   m0 <= snd (lin f (sub_s rho (cl_body cl)) (nc ++ cl_ctx cl) m0)).
    { intros cl m0 Hin Hm0.
      assert (Hclr : In (cl_xtor cl, cl_ctx cl, sub_s rho (cl_body cl)) clsr).
      { unfold clsr. apply in_map_iff. exists cl; auto. }
      destruct (switch_clause_ok c vr t clsr m _ m0 Hinv Hcl Hclr Hm0) as [K1 [K2 _]]. cl_simpl.
      destruct (lin_good Sg f (sub_s rho (cl_body cl)) (nc ++ cl_ctx cl) m0) as [_ [G _]]; auto.
      rewrite size_sub. apply size_cls_In in Hin. lia. }
    specialize (H2' H2).
    set (cls' := fst (lin_cls (lin f) (fun cc => nc ++ cc) clsr m)) in *.
    (* the named step *)
    simpl in Hrun. unfold lookup_id in Hrun.
    destruct (He (idn v)) as [w [w' [L1 [L2 V]]]]; [rewrite fv_switch; apply add_In; auto|].
    rewrite L1 in Hrun.
    destruct w as [z|ty0 tag fs|ty0 cl0 ce0]; try (subst; exfalso; eapply finish_stuck_not_good; eauto; fail).
    destruct (find_clause cls tag) as [cl|] eqn:Ef; [|subst; exfalso; eapply finish_stuck_not_good; eauto].
    destruct (bind (vars (cl_ctx cl)) fs) as [e1|] eqn:Eb; [|subst; exfalso; eapply finish_stuck_not_good; eauto].
    inversion V as [|ty1 tag1 fs1 fs' Hfs|]; subst.
    destruct (find_clause_F2
                (fun a b => cl_ctx b = cl_ctx a /\
                   exists m0, m <= m0 /\ cl_body b = fst (lin f (sub_s rho (cl_body a)) (nc ++ cl_ctx a) m0))
                cls cls' tag cl H2' Ef) as [cl' [Ef' [[Hctx [m0 [Hm0 Hbody]]] Hin]]].
    assert (Hlen : length (vars (cl_ctx cl)) = length fs) by (apply bind_Some_length in Eb; tauto).
    assert (Eb' : bind (vars (cl_ctx cl')) fs' = Some (combine (vars (cl_ctx cl)) fs')).
    { rewrite Hctx. apply bind_combine. rewrite Hlen. eapply F2_length; eauto. }
    set (e1' := combine (vars (cl_ctx cl)) fs') in *.
    set (le0 := rebind le nc nc).
    assert (Hclr : In (cl_xtor cl, cl_ctx cl, sub_s rho (cl_body cl)) clsr).
    { unfold clsr. apply in_map_iff. exists cl; auto. }
    destruct (switch_clause_ok c vr t clsr m _ m0 Hinv Hcl Hclr Hm0) as [K1 [K2 K3]].
    cl_simpl.
    assert (Hucl : untouched rho (ids (cl_ctx cl) ++ binders (cl_body cl))).
    { intros y Hy. apply Hu. eapply binders_cls_In; eauto. }
    assert (Hnscl : has_subst (cl_body cl) = false).
    { apply (existsb_false_In (fun c0 => has_subst (cl_body c0)) cls cl Hns Hin). }
    destruct (IH rho (nc ++ cl_ctx cl) (cl_body cl) (cl_body cl') (e1 ++ ne) (le0 ++ e1') out
                 (exec_named n P (e1 ++ ne) (cl_body cl) out)) as [n1 Hn1]; auto.
    { apply srel_intro with (f := f) (m := m0); auto.
      - apply size_cls_In in Hin. lia.
      - intros y Hy. apply Hucl. apply in_or_app; auto. }
    { unfold le0, e1'. rewrite map_app, rebind_fst, vars_app by auto.
      rewrite combine_map_fst; auto. rewrite Hlen. eapply F2_length; eauto. }
    { unfold le0, nc. eapply erel_clause_sw with (fs := fs) (fs' := fs'); eauto.
      - intros y Hy. apply Hucl. apply in_or_app; auto.
      - unfold e1'. apply bind_combine. rewrite Hlen. eapply F2_length; eauto.
      - intros x Hx Hnx. split.
        + rewrite fv_switch. apply add_In. right. apply fv_clauses_In. exists cl; auto.
        + eapply fv_clauses_sub; eauto. }
    destruct (wrap_exec P' c le (nc ++ [mkb v' Prd t]) (nc ++ [mkb vr Prd t]) (Switch v' t cls')
                        (fst (lin (S f) (Switch vr t clsr) c m)) (S n1) out Hsh I1) as [j Hj];
      [rewrite !app_length; auto| |exact Hform|].
    { intros b Hb. apply in_app_or in Hb. destruct Hb as [Hb|[<-|[]]].
      - eapply fbs_in_ctx; eauto.
      - simpl. eapply has_In_ids; eauto. }
    exists (j + S n1)%nat. rewrite Hj. rewrite rebind_app by auto. fold le0.
    assert (Eone : rebind le [mkb vr Prd t] [mkb v' Prd t] = [(v', VObj ty0 tag fs')]).
    { unfold rebind; simpl. unfold vr. rewrite sub_id_n, (getv_Some _ _ _ L2). auto. }
    rewrite Eone. rewrite (switch_step P' n1 le0 v' v' ty0 t tag fs' cls' cl' e1'); auto.
  Qed.
  (* ---------------- definitions of the linearized program ---------------- *)
  Lemma find_def_lin_defs : forall ds m l d,
    (forall d0, In d0 ds -> def_ok Sg m d0 = true) ->
    find (fun d0 => ident_eqb (dname d0) l) ds = Some d ->
    exists d' m0, find (fun d0 => ident_eqb (dname d0) l) (fst (lin_defs ds m)) = Some d' /\
                  dctx d' = dctx d /\ def_ok Sg m0 d = true /\
                  dbody d' = fst (lin (stmt_size (dbody d)) (dbody d) (dctx d) m0).
  Proof.
    induction ds as [|d0 r IH]; intros m l d Hok Hf; simpl in *; [discriminate|].
    pose proof (linearize_def_spec Sg d0 m (Hok d0 (or_introl eq_refl))) as D.
    unfold lin_def in *.
    destruct (lin (stmt_size (dbody d0)) (dbody d0) (dctx d0) m) as [b m1] eqn:E.
    destruct D as [_ [D2 _]]. simpl in D2.
    destruct (lin_defs r m1) as [r' m2] eqn:E'. simpl.
    destruct (ident_eqb (dname d0) l) eqn:El.
    - inversion Hf; subst d0. eexists. exists m. split; [reflexivity|]. simpl. rewrite E. auto.
    - destruct (IH m1 l d) as [d' [m0 [F1 F2]]]; auto.
      { intros d1 Hd1. eapply def_ok_mono; [|apply Hok; auto]. auto. }
      rewrite E' in F1. simpl in F1. eauto.
  Qed.

  Lemma find_def_linearize : forall l d, find_def P l = Some d ->
    exists d' m0, find_def P' l = Some d' /\ dctx d' = dctx d /\ def_ok Sg m0 d = true /\
                  dbody d' = fst (lin (stmt_size (dbody d)) (dbody d) (dctx d) m0).
  Proof.
    intros l d H. unfold find_def in *.
    destruct (find_def_lin_defs (pdefs P) (pmax P) l d (prog_ok_defs P HP) H) as [d' [m0 [F1 F2]]].
    exists d', m0. split; auto. unfold linearize.
    destruct (lin_defs (pdefs P) (pmax P)) as [ds mm] eqn:E. simpl in *. auto.
  Qed.

  Lemma srel_def : forall d d' m0, def_ok Sg m0 d = true ->
    dbody d' = fst (lin (stmt_size (dbody d)) (dbody d) (dctx d) m0) ->
    srel [] (dctx d) (dbody d) (dbody d').
  Proof.
    intros d d' m0 Hok Hb. apply def_ok_inv in Hok. destruct Hok as [Hax Hinv].
    assert (Hns : has_subst (dbody d) = false) by (eapply ax_check_no_subst; eauto).
    apply srel_intro with (f := stmt_size (dbody d)) (m := m0); auto.
    - intros x Hx. simpl. tauto.
    - rewrite sub_s_nil; auto.
    - rewrite sub_s_nil; auto.
    - rewrite sub_s_nil; auto.
  Qed.

  Lemma sub_n_nil : forall x, sub_n [] x = x.
  Proof. reflexivity. Qed.

  (* the callee's / a method's parameters bound to related values *)
  Lemma erel_params : forall (ps : ctx) ws ws' F,
    Forall2 vrel ws ws' -> length (vars ps) = length ws -> (forall x, In x F -> In x (ids ps)) ->
    erel [] F (combine (vars ps) ws) (combine (vars ps) ws').
  Proof.
    intros ps ws ws' F Hws Hlen HF x Hx. rewrite sub_n_nil.
    apply (lookup_combine_F2 vrel (vars ps) ws ws' x Hws Hlen). rewrite ids_vars. auto.
  Qed.

  Lemma lin_call_form : forall f l (ar : ctx) c m,
    (forall x, In x (ids ar) -> x <= m) ->
    exists fr, same_shape ar fr /\
      (fst (lin (S f) (Call l ar) c m) = Substitute (combine fr (vars ar)) (Call l []) \/
       (fst (lin (S f) (Call l ar) c m) = Call l [] /\ c = ar /\ fr = ar)).
  Proof.
    intros f l ar c m Hb. rewrite lin_call.
    destruct (ctx_eqb c ar) eqn:Eq.
    - exists ar. split; [apply same_shape_refl|]. right. apply ctx_eqb_eq in Eq. auto.
    - destruct (freshen ar [] m) as [fr m1] eqn:Ef.
      destruct (freshen_positions _ _ _ _ _ Ef) as [F2 _]. exists fr. split; auto.
  Qed.

  (* ---------------- call ---------------- *)
  Lemma sim_call : forall n, sim_n n -> forall rho c l args s' ne le out o,
    srel rho c (Call l args) s' -> map fst le = vars c -> erel rho (fv (Call l args)) ne le ->
    exec_named (S n) P ne (Call l args) out = o -> good o -> exists n', exec_linear n' P' le s' out = o.
  Proof.
    intros n IH rho c l args s' ne le out o Hs Hsh He Hrun Hg.
    apply srel_fuel in Hs. destruct Hs as [f [m [Hsz [Hns [Hu [Hax [Hinv ->]]]]]]].
    simpl sub_s in *. simpl in Hax.
    assert (I1 : NoDup (ids c)) by apply Hinv.
    assert (I4 : forall x, In x (ids c) -> x <= m) by apply Hinv.
    set (ar := map (sub_b rho) args) in *.
    destruct (lookup_label Sg l) as [ps|] eqn:El; try discriminate.
    apply andb_true_iff in Hax. destruct Hax as [Hsig Hargs].
    assert (Har : forall b, In b ar -> In (idn (bvar b)) (ids c)) by (apply has_b_sub_ids; auto).
    destruct (lin_call_form f l ar c m) as [fr [Hshape Hform]].
    { intros x Hx. apply In_ids_ex in Hx. destruct Hx as [b [B1 B2]]. subst. auto. }
    (* named step *)
    simpl in Hrun.
    destruct (find_def P l) as [d|] eqn:Ed; [|subst; exfalso; eapply finish_stuck_not_good; eauto].
    destruct (lookups ne (vars args)) as [ws|] eqn:Ew; [|subst; exfalso; eapply finish_stuck_not_good; eauto].
    destruct (bind (vars (dctx d)) ws) as [ne'|] eqn:Eb; [|subst; exfalso; eapply finish_stuck_not_good; eauto].
    apply bind_Some_length in Eb. destruct Eb as [Hlen ->].
    assert (Hws : Forall2 vrel ws (map (fun b => getv le (idn (bvar b))) ar)).
    { eapply args_vrel; eauto. intros b Hb. simpl. apply union_In. left. apply In_ids; auto. }
    destruct (find_def_linearize l d Ed) as [d' [m0 [Ed' [Hctx [Hok Hbody]]]]].
    set (ws' := map (fun b => getv le (idn (bvar b))) ar) in *.
    assert (Hlen' : length (vars (dctx d)) = length ws') by (rewrite Hlen; eapply F2_length; eauto).
    pose proof (def_ok_inv _ _ _ Hok) as [Haxd _].
    destruct (IH [] (dctx d) (dbody d) (dbody d') (combine (vars (dctx d)) ws) (combine (vars (dctx d)) ws') out o)
      as [n1 Hn1]; auto.
    { eapply srel_def; eauto. }
    { apply combine_map_fst; auto. }
    { apply erel_params; auto. intros x Hx. eapply ax_check_fv; eauto. }
    assert (Hfrlen : length fr = length ar) by (symmetry; apply same_shape_length; auto).
    destruct (wrap_exec P' c le fr ar (Call l []) (fst (lin (S f) (Call l ar) c m)) (S n1) out Hsh I1) as [j Hj];
      auto.
    exists (j + S n1)%nat. rewrite Hj.
    rewrite (call_step P' n1 (rebind le ar fr) l [] d' (combine (vars (dctx d)) ws')); auto.
    rewrite Hctx, rebind_snd by auto. apply bind_combine; auto.
  Qed.
  Lemma lin_invoke_form : forall f vr tag t (ar : ctx) c m,
    (forall x, In x (ids ar) -> x <= m) -> idn vr <= m ->
    exists fr, same_shape ar fr /\
      (fst (lin (S f) (Invoke vr tag t ar) c m) =
         Substitute (combine (fr ++ [mkb vr Cns t]) (vars (ar ++ [mkb vr Cns t]))) (Invoke vr tag t []) \/
       (fst (lin (S f) (Invoke vr tag t ar) c m) = Invoke vr tag t [] /\ c = ar ++ [mkb vr Cns t] /\
        fr ++ [mkb vr Cns t] = ar ++ [mkb vr Cns t])).
  Proof.
    intros f vr tag t ar c m Hb Hv. rewrite lin_invoke.
    destruct (ctx_eqb c (ar ++ [mkb vr Cns t])) eqn:Eq.
    - exists ar. split; [apply same_shape_refl|]. right. apply ctx_eqb_eq in Eq. auto.
    - destruct (freshen ar [idn vr] m) as [fr m1] eqn:Ef.
      destruct (freshen_positions _ _ _ _ _ Ef) as [F2 _]. exists fr. split; auto.
  Qed.

  (* a method body: parameters bound to related values in front of related closure environments *)
  Lemma erel_method : forall rho (ccl : ctx) body (ws ws' : list value) ne_c le_c F,
    untouched rho (ids ccl) -> Forall2 vrel ws ws' -> length (vars ccl) = length ws ->
    (forall x, In x (fv body) -> ~ In x (ids ccl) -> In x F) ->
    erel rho F ne_c le_c ->
    erel rho (fv body) (combine (vars ccl) ws ++ ne_c) (combine (vars ccl) ws' ++ le_c).
  Proof.
    intros rho ccl body ws ws' ne_c le_c F Hu Hws Hlen HF He x Hx.
    assert (Hlen' : length (vars ccl) = length ws') by (rewrite Hlen; eapply F2_length; eauto).
    destruct (in_dec N.eq_dec x (ids ccl)) as [Hin|Hnin].
    - rewrite (untouched_sub_n rho (ids ccl)) by auto.
      destruct (lookup_combine_F2 vrel (vars ccl) ws ws' x Hws Hlen) as [w [w' [L1 [L2 V]]]].
      { rewrite ids_vars. auto. }
      exists w, w'. rewrite !lookup_app, L1, L2. auto.
    - destruct (He x (HF x Hx Hnin)) as [w [w' [L1 [L2 V]]]].
      exists w, w'. split; [|split; auto].
      + rewrite lookup_app.
        assert (E : lookup (combine (vars ccl) ws) x = None).
        { apply lookup_None. unfold env_ids. rewrite <- (map_map fst idn), combine_map_fst by auto. rewrite ids_vars. auto. }
        rewrite E. auto.
      + rewrite lookup_app.
        assert (E : lookup (combine (vars ccl) ws') (sub_n rho x) = None).
        { apply lookup_None. unfold env_ids. rewrite <- (map_map fst idn), combine_map_fst by auto. rewrite ids_vars.
          intros Hc. destruct (Hu _ Hc) as [Y1 Y2].
          destruct (N.eq_dec x (sub_n rho x)) as [E|E]; [rewrite <- E in Hc; auto|].
          apply (sub_n_untouched_ne rho x (sub_n rho x) Y1 Y2); auto. }
        rewrite E. auto.
  Qed.

  (* ---------------- invoke ---------------- *)
  Lemma sim_invoke : forall n, sim_n n -> forall rho c v tag t args s' ne le out o,
    srel rho c (Invoke v tag t args) s' -> map fst le = vars c -> erel rho (fv (Invoke v tag t args)) ne le ->
    exec_named (S n) P ne (Invoke v tag t args) out = o -> good o -> exists n', exec_linear n' P' le s' out = o.
  Proof.
    intros n IH rho c v tag t args s' ne le out o Hs Hsh He Hrun Hg.
    apply srel_fuel in Hs. destruct Hs as [f [m [Hsz [Hns [Hu [Hax [Hinv ->]]]]]]].
    simpl sub_s in *. simpl in Hax.
    assert (I1 : NoDup (ids c)) by apply Hinv.
    assert (I4 : forall x, In x (ids c) -> x <= m) by apply Hinv.
    set (ar := map (sub_b rho) args) in *. set (vr := sub_id rho v) in *.
    apply andb_true_iff in Hax. destruct Hax as [Hax Hargs].
    apply andb_true_iff in Hax. destruct Hax as [Hv Hok].
    assert (Har : forall b, In b ar -> In (idn (bvar b)) (ids c)) by (apply has_b_sub_ids; auto).
    assert (Hvc : In (idn vr) (ids c)) by (eapply has_In_ids; eauto).
    destruct (lin_invoke_form f vr tag t ar c m) as [fr [Hshape Hform]]; auto.
    { intros x Hx. apply In_ids_ex in Hx. destruct Hx as [b [B1 B2]]. subst. auto. }
    (* named step *)
    simpl in Hrun. unfold lookup_id in Hrun.
    destruct (He (idn v)) as [w [w' [L1 [L2 V]]]]; [simpl; apply add_In; auto|].
    rewrite L1 in Hrun.
    destruct w as [z|ty0 tg0 fs0|ty0 cls ne_c]; try (subst; exfalso; eapply finish_stuck_not_good; eauto; fail).
    destruct (find_clause cls tag) as [cl|] eqn:Ef; [|subst; exfalso; eapply finish_stuck_not_good; eauto].
    destruct (lookups ne (vars args)) as [ws|] eqn:Ew; [|subst; exfalso; eapply finish_stuck_not_good; eauto].
    destruct (bind (vars (cl_ctx cl)) ws) as [e1|] eqn:Eb; [|subst; exfalso; eapply finish_stuck_not_good; eauto].
    apply bind_Some_length in Eb. destruct Eb as [Hlen ->].
    inversion V as [| |ty1 cls1 cls' ne1 le_c rhoc cc Hshc Hcls Hec]; subst ty1 cls1 ne1 w'.
    destruct (find_clause_F2 _ cls cls' tag cl Hcls Ef) as [cl' [Ef' [[Hctx [Hucl Hsrel]] Hin]]].
    assert (Hws : Forall2 vrel ws (map (fun b => getv le (idn (bvar b))) ar)).
    { eapply args_vrel; eauto. intros b Hb. simpl. apply add_In. right. apply union_In. left. apply In_ids; auto. }
    set (ws' := map (fun b => getv le (idn (bvar b))) ar) in *.
    assert (Hlen' : length (vars (cl_ctx cl)) = length ws') by (rewrite Hlen; eapply F2_length; eauto).
    destruct (IH rhoc (cl_ctx cl ++ cc) (cl_body cl) (cl_body cl')
                 (combine (vars (cl_ctx cl)) ws ++ ne_c) (combine (vars (cl_ctx cl)) ws' ++ le_c) out o) as [n1 Hn1]; auto.
    { rewrite map_app, combine_map_fst, vars_app by auto. rewrite Hshc. auto. }
    { apply erel_method with (F := fv_clauses cls); auto.
      intros x Hx Hnx. apply fv_clauses_In. exists cl; auto. }
    assert (Hfrlen : length fr = length ar) by (symmetry; apply same_shape_length; auto).
    destruct (wrap_exec P' c le (fr ++ [mkb vr Cns t]) (ar ++ [mkb vr Cns t]) (Invoke vr tag t [])
                        (fst (lin (S f) (Invoke vr tag t ar) c m)) (S n1) out Hsh I1) as [j Hj];
      [rewrite !app_length; simpl; lia| |exact Hform|].
    { intros b Hb. apply in_app_or in Hb. destruct Hb as [Hb|[<-|[]]]; auto. }
    exists (j + S n1)%nat. rewrite Hj. rewrite rebind_app by auto.
    assert (Eone : rebind le [mkb vr Cns t] [mkb vr Cns t] = [(vr, VClo ty0 cls' le_c)]).
    { unfold rebind; simpl. unfold vr at 2. rewrite sub_id_n, (getv_Some _ _ _ L2). auto. }
    rewrite Eone.
    rewrite (invoke_step P' n1 (rebind le ar fr) vr vr ty0 t tag cls' le_c cl' (combine (vars (cl_ctx cl)) ws')); auto.
    rewrite Hctx, rebind_snd by auto. apply bind_combine; auto.
  Qed.
  (* ---------------- create: auxiliary facts (the derivations of case_create, as lemmas) ---------------- *)
  Lemma Forall2_impl_In : forall {A B} (R Q : A -> B -> Prop) l l',
    (forall a b, In a l -> R a b -> Q a b) -> Forall2 R l l' -> Forall2 Q l l'.
  Proof.
    intros A B R Q l l' H F; induction F as [|a b l l' Hab F IH]; constructor.
    - apply H; simpl; auto.
    - apply IH. intros a0 b0 Hin. apply H. simpl; auto.
  Qed.

  Lemma ren_lookup_pos : forall cn cnf, same_shape cn cnf -> NoDup (ids cn) ->
    forall b, In b cn ->
    exists b', In (b', b) (combine cnf cn) /\
               sub_n (combine (ids cn) (vars cnf)) (idn (bvar b)) = idn (bvar b').
  Proof.
    intros cn cnf H; induction H as [|x y cn cnf [K1 [K2 K3]] H IH]; intros Hnd b Hb; simpl in *; [tauto|].
    inversion Hnd as [|? ? Hn Hnd']; subst.
    destruct Hb as [<-|Hb].
    - exists y. split; auto. unfold sub_n; simpl. rewrite N.eqb_refl. simpl. auto.
    - destruct (IH Hnd' b Hb) as [b' [B1 B2]]. exists b'. split; auto.
      unfold sub_n in *; simpl.
      destruct (N.eqb (idn (bvar x)) (idn (bvar b))) eqn:E; auto.
      apply N.eqb_eq in E. exfalso. apply Hn. rewrite E. apply In_ids; auto.
  Qed.

  Definition cr_env (c : ctx) (nr : stmt) (clsr : list clause) : ctx :=
    let cn := filter_by_set c (fv nr) in
    filter_by_set (skipn (length cn) c ++ firstn (length cn) c) (fv_clauses clsr).

  Lemma cr_env_facts : forall c nr clsr, NoDup (ids c) ->
    let cc := cr_env c nr clsr in
    NoDup (ids cc) /\ (forall b, In b cc -> In b c) /\ (forall x, In x (ids cc) -> In x (ids c)) /\
    (forall x, In x (fv_clauses clsr) -> lookup_b c x = lookup_b cc x) /\
    (forall x, In x (ids c) -> In x (fv_clauses clsr) -> In x (ids cc)).
  Proof.
    intros c nr clsr I1 cc. unfold cc, cr_env.
    set (cn := filter_by_set c (fv nr)).
    set (cr := skipn (length cn) c ++ firstn (length cn) c).
    assert (Hcr : NoDup (ids cr)) by (apply reorder_NoDup; auto).
    assert (Hin : forall b, In b (filter_by_set cr (fv_clauses clsr)) -> In b c).
    { intros b Hb. apply fbs_In in Hb. destruct Hb as [Hb _]. apply reorder_In in Hb. auto. }
    split; [apply fbs_NoDup; auto|]. split; auto. split; [|split].
    - intros x Hx. apply In_ids_ex in Hx. destruct Hx as [b [B1 B2]]. subst. apply In_ids; auto.
    - intros x Hx. rewrite <- lookup_fbs_sub by auto.
      apply lookup_b_same_set; auto. intros b. symmetry. apply reorder_In.
    - intros x Hx Hf. apply fbs_ids_In. split; auto.
      apply In_ids_ex in Hx. destruct Hx as [b [B1 B2]]. subst. apply In_ids. apply reorder_In. auto.
  Qed.

  Lemma create_clause_ok : forall c v t e clsr nr m cl m0,
    inv c (Create v t e clsr nr) m -> ax_clauses Sg c clsr = true -> In cl clsr -> m <= m0 ->
    ax_check Sg (cl_ctx cl ++ cr_env c nr clsr) (cl_body cl) = true /\
    inv (cl_ctx cl ++ cr_env c nr clsr) (cl_body cl) m0.
  Proof.
    intros c v t e clsr nr m cl m0 Hinv Hcl Hin Hm0.
    pose proof Hinv as [I1 [I2 [I3 [I4 I5]]]]. rewrite binders_create in I2, I3, I5.
    assert (I2c : NoDup (binders_cls clsr)).
    { inversion I2; subst. match goal with Hx : NoDup (_ ++ _) |- _ => apply NoDup_app_iff in Hx; tauto end. }
    unfold ax_clauses in Hcl. rewrite forallb_forall in Hcl.
    destruct (cr_env_facts c nr clsr I1) as [Hcc [Hcc_in [Hcc_ids [Hcc_look _]]]].
    set (cc := cr_env c nr clsr) in *.
    assert (Hd : forall y, In y (ids (cl_ctx cl)) -> ~ In y (ids c)).
    { intros y Hy Hc. apply (I3 _ Hc). right. apply in_or_app. left.
      eapply binders_cls_In; eauto. apply in_or_app; auto. }
    split.
    - rewrite <- (Hcl cl Hin). symmetry. apply ax_check_ext. intros x Hx.
      rewrite !lookup_b_app. destruct (lookup_b (cl_ctx cl) x) eqn:E; auto.
      apply Hcc_look. apply fv_clauses_In. exists cl. repeat split; auto. apply lookup_b_None; auto.
    - destruct (binders_cls_split clsr cl Hin) as [pre [post0 E]].
      apply inv_gen with (c := c) (s := Create v t e clsr nr) (m := m)
                         (pre := idn v :: pre ++ ids (cl_ctx cl)) (post := post0 ++ binders nr);
        [exact Hinv|lia| | |].
      + rewrite ids_app. apply NoDup_app_iff. repeat split; auto.
        * eapply binders_cls_ctx_NoDup; eauto.
        * intros x Hx Hx'. apply (Hd x Hx). auto.
      + rewrite binders_create, E. simpl. rewrite <- !app_assoc. auto.
      + intros x Hx. rewrite ids_app in Hx. apply in_app_or in Hx. destruct Hx as [Hx|Hx].
        * right. left. right. apply in_or_app; auto.
        * left. auto.
  Qed.

  Lemma create_else_ok : forall c v t e clsr nr m m1 cnf m2,
    inv c (Create v t e clsr nr) m -> ax_check Sg (mkb v Cns t :: c) nr = true -> m <= m1 ->
    freshen (filter_by_set c (fv nr)) (ids (cr_env c nr clsr)) m1 = (cnf, m2) ->
    let cn := filter_by_set c (fv nr) in
    let su := combine (ids cn) (vars cnf) in
    same_shape cn cnf /\ NoDup (ids cnf) /\ ~ In (idn v) (ids cnf) /\ m1 <= m2 /\
    ax_check Sg (cnf ++ [mkb v Cns t]) (sub_s su nr) = true /\
    inv (cnf ++ [mkb v Cns t]) (sub_s su nr) m2 /\
    untouched su (idn v :: binders nr) /\
    (forall x, In x (ids cnf) -> ~ In x (ids (cr_env c nr clsr))).
  Proof.
    intros c v t e clsr nr m m1 cnf m2 Hinv Hn Hm1 Ef cn su.
    pose proof Hinv as [I1 [I2 [I3 [I4 I5]]]]. rewrite binders_create in I2, I3, I5.
    assert (Iv : ~ In (idn v) (ids c)) by (intros Hin; apply (I3 _ Hin); simpl; auto).
    assert (Ivm : idn v <= m) by (apply I5; simpl; auto).
    destruct (cr_env_facts c nr clsr I1) as [Hcc [Hcc_in [Hcc_ids _]]].
    set (cc := cr_env c nr clsr) in *. set (vb := mkb v Cns t).
    assert (Hcn : NoDup (ids cn)) by (apply fbs_NoDup; auto).
    assert (Hb1 : forall x, In x (ids cc) -> x <= m1).
    { intros x Hx. apply Hcc_ids in Hx. apply I4 in Hx. lia. }
    assert (Hb2 : forall x, In x (ids cn) -> x <= m1).
    { intros x Hx. apply fbs_ids_incl in Hx. apply I4 in Hx. lia. }
    destruct (freshen_spec _ _ _ _ _ Ef Hb1 Hb2) as [F1 [F2 [F3 [F4 F5]]]].
    assert (Hcnf_src : forall x, In x (ids cnf) -> In x (ids c) \/ (m1 < x /\ x <= m2)).
    { intros x Hx. destruct (F5 x Hx) as [H|H]; auto. left. eapply fbs_ids_incl; eauto. }
    assert (Hv_cnf : ~ In (idn v) (ids cnf)).
    { intros Hin. destruct (Hcnf_src _ Hin) as [H|H]; [tauto|]. lia. }
    assert (Hns : has_subst nr = false) by (eapply ax_check_no_subst; eauto).
    assert (Hnd' : NoDup (ids (cnf ++ [vb]))).
    { rewrite ids_app. apply NoDup_snoc; auto. }
    assert (Hun : untouched su (idn v :: binders nr)).
    { intros x Hx. unfold su. rewrite su_fst, su_snd by auto.
      assert (Hxb : In x (idn v :: binders_cls clsr ++ binders nr)).
      { destruct Hx as [<-|Hx]; [simpl; auto|]. right. apply in_or_app; auto. }
      split.
      - intros Hin. apply fbs_ids_incl in Hin. apply (I3 _ Hin); auto.
      - intros Hin. destruct (Hcnf_src _ Hin) as [H|H].
        + apply (I3 _ H); auto.
        + apply I5 in Hxb. lia. }
    split; auto. split; auto. split; auto. split; auto. split; [|split; [|split; auto]].
    - apply ax_check_rename with (c := vb :: c); auto.
      + intros x Hx. apply Hun. simpl; auto.
      + intros n b Hn' Hl. rewrite lookup_b_cons in Hl. simpl in Hl.
        destruct (N.eqb (idn v) n) eqn:En.
        * apply N.eqb_eq in En. subst n. inversion Hl; subst b.
          rewrite sub_n_notin.
          2:{ unfold su. rewrite su_fst by auto. intros Hin. apply Iv. eapply fbs_ids_incl; eauto. }
          exists vb. rewrite lookup_b_app.
          assert (Hnone : lookup_b cnf (idn v) = None) by (apply lookup_b_None; auto).
          rewrite Hnone. simpl. rewrite N.eqb_refl. auto.
        * apply lookup_b_Some in Hl. destruct Hl as [L1 L2]. subst n.
          assert (Hbcn : In b cn) by (apply fbs_In; auto).
          destruct (ren_lookup cn cnf F2 Hcn b Hbcn) as [b' [B1 [B2 [B3 B4]]]].
          exists b'. fold su in B2. rewrite B2. split; auto.
          rewrite lookup_b_app. rewrite (lookup_b_In cnf b' F3 B1). auto.
    - apply inv_gen with (c := c) (s := Create v t e clsr nr) (m := m)
                         (pre := idn v :: binders_cls clsr) (post := []); [exact Hinv|lia|auto| |].
      + rewrite binders_create, binders_sub by auto. simpl. rewrite app_nil_r. auto.
      + intros x Hx. rewrite ids_app in Hx. apply in_app_or in Hx. destruct Hx as [Hx|[<-|[]]].
        * destruct (Hcnf_src _ Hx) as [H|H]; auto. right. right. right. lia.
        * right. left. simpl; auto.
  Qed.
  Lemma lin_cls_mono : forall (L : stmt -> ctx -> N -> stmt * N) mk cls m,
    (forall cl m0, In cl cls -> m <= m0 -> m0 <= snd (L (cl_body cl) (mk (cl_ctx cl)) m0)) ->
    m <= snd (lin_cls L mk cls m).
  Proof.
    intros L mk cls; induction cls as [|[[x cc] body] r IH]; intros m H; simpl; [lia|].
    pose proof (H (x, cc, body) m (or_introl eq_refl) (N.le_refl m)) as H0. cl_simpl.
    destruct (L body (mk cc) m) as [b' m'] eqn:E. simpl in H0.
    assert (IH' := IH m').
    destruct (lin_cls L mk r m') as [r' m''] eqn:E'. simpl in *.
    assert (m' <= m''); [|lia]. apply IH'. intros cl m0 Hcl Hm0. apply H; auto. lia.
  Qed.

  Lemma lin_create_eq : forall f v t e clsr nr c m,
    lin (S f) (Create v t e clsr nr) c m =
    let cn := filter_by_set c (fv nr) in
    let cc := cr_env c nr clsr in
    let '(cls', m1) := lin_cls (lin f) (fun x => x ++ cc) clsr m in
    if ctx_eqb c (cn ++ cc) then
      let '(n', m2) := lin f nr (cn ++ [mkb v Cns t]) m1 in (Create v t (Some cc) cls' n', m2)
    else
      let '(cnf, m2) := freshen cn (ids cc) m1 in
      let '(n', m3) := lin f (sub_s (combine (ids cn) (vars cnf)) nr) (cnf ++ [mkb v Cns t]) m2 in
      (Substitute (combine (cnf ++ cc) (vars (cn ++ cc))) (Create v t (Some cc) cls' n'), m3).
  Proof. reflexivity. Qed.

  (* ---------------- create ---------------- *)
  Lemma sim_create : forall n, sim_n n -> forall rho c v t e cls next s' ne le out o,
    srel rho c (Create v t e cls next) s' -> map fst le = vars c ->
    erel rho (fv (Create v t e cls next)) ne le ->
    exec_named (S n) P ne (Create v t e cls next) out = o -> good o ->
    exists n', exec_linear n' P' le s' out = o.
  Proof.
    intros n IH rho c v t e cls next s' ne le out o Hs Hsh He Hrun Hg.
    apply srel_fuel in Hs. destruct Hs as [f [m [Hsz [Hns [Hu [Hax [Hinv ->]]]]]]].
    rewrite sub_s_create in *.
    set (er := option_map (map (sub_b rho)) e) in *.
    set (clsr := map (fun c0 => (cl_xtor c0, cl_ctx c0, sub_s rho (cl_body c0))) cls) in *.
    set (nr := sub_s rho next) in *.
    rewrite size_create in Hsz. rewrite has_subst_create in Hns. rewrite binders_create in Hu.
    rewrite ax_check_create in Hax.
    apply orb_false_iff in Hns. destruct Hns as [Hnsc Hnsn].
    assert (I1 : NoDup (ids c)) by apply Hinv.
    assert (I4 : forall x, In x (ids c) -> x <= m) by apply Hinv.
    apply andb_true_iff in Hax. destruct Hax as [Hax Hn].
    apply andb_true_iff in Hax. destruct Hax as [Hok Hcl].
    rewrite lin_create_eq. cbv zeta.
    set (cn := filter_by_set c (fv nr)). set (cc := cr_env c nr clsr). set (vb := mkb v Cns t).
    destruct (cr_env_facts c nr clsr I1) as [Hcc [Hcc_in [Hcc_ids [Hcc_look Hcc_mem]]]]. fold cc in Hcc, Hcc_in, Hcc_ids, Hcc_look, Hcc_mem.
    assert (Hcn : NoDup (ids cn)) by (apply fbs_NoDup; auto).
    (* the clauses *)
    assert (Hmono : forall cl m0, In cl cls -> m <= m0 ->
                   m0 <= snd (lin f (sub_s rho (cl_body cl)) (cl_ctx cl ++ cc) m0)).
    { intros cl m0 Hin Hm0.
      assert (Hclr : In (cl_xtor cl, cl_ctx cl, sub_s rho (cl_body cl)) clsr).
      { unfold clsr. apply in_map_iff. exists cl; auto. }
      destruct (create_clause_ok c v t er clsr nr m _ m0 Hinv Hcl Hclr Hm0) as [K1 K2]. cl_simpl. fold cc in K1, K2.
      destruct (lin_good Sg f (sub_s rho (cl_body cl)) (cl_ctx cl ++ cc) m0) as [_ [G _]]; auto.
      rewrite size_sub. apply size_cls_In in Hin. lia. }
    assert (H2' := lin_cls_map_spec (lin f) (fun x => x ++ cc) (sub_s rho) cls m Hmono). fold clsr in H2'.
    assert (Hm1 : m <= snd (lin_cls (lin f) (fun x => x ++ cc) clsr m)).
    { apply lin_cls_mono. intros clr m0 Hin Hm0. unfold clsr in Hin. apply in_map_iff in Hin.
      destruct Hin as [cl [<- Hin]]. cl_simpl. auto. }
    destruct (lin_cls (lin f) (fun x => x ++ cc) clsr m) as [cls' m1] eqn:Ec. cbn [fst snd] in H2', Hm1.
    (* the named step *)
    simpl in Hrun.
    destruct (ty_name t) as [tn|] eqn:Et; [|subst; exfalso; eapply finish_stuck_not_good; eauto].
    destruct t as [|tn0]; simpl in Et; try discriminate. inversion Et; subst tn0.
    (* the closure built on both sides *)
    set (cap := rebind le cc cc).
    assert (Vclo : vrel (VClo tn cls ne) (VClo tn cls' cap)).
    { apply VR_clo with (rho := rho) (cc := cc).
      - unfold cap. apply rebind_fst; auto.
      - eapply Forall2_impl_In; [|exact H2']. intros cl cl' Hin [A1 [A2 [m0 [A3 A4]]]].
        assert (Hclr : In (cl_xtor cl, cl_ctx cl, sub_s rho (cl_body cl)) clsr).
        { unfold clsr. apply in_map_iff. exists cl; auto. }
        destruct (create_clause_ok c v (Decl tn) er clsr nr m _ m0 Hinv Hcl Hclr A3) as [K1 K2]. cl_simpl. fold cc in K1, K2.
        split; auto. split; auto. split.
        + intros y Hy. apply Hu. right. apply in_or_app. left. eapply binders_cls_In; eauto. apply in_or_app; auto.
        + apply srel_intro with (f := f) (m := m0); auto.
          * apply size_cls_In in Hin. lia.
          * apply (existsb_false_In (fun c0 => has_subst (cl_body c0)) cls cl Hnsc Hin).
          * intros y Hy. apply Hu. right. apply in_or_app. left. eapply binders_cls_In; eauto. apply in_or_app; auto.
      - intros x Hx. destruct (He x) as [w [w' [L1 [L2 V]]]]; [rewrite fv_create; apply union_In; auto|].
        exists w, w'. split; auto. split; auto. unfold cap. rewrite rebind_self_lookup0; auto.
        + rewrite (getv_Some _ _ _ L2). auto.
        + apply Hcc_mem.
          * destruct (in_dec N.eq_dec (sub_n rho x) (ids c)); auto.
            exfalso. assert (lookup le (sub_n rho x) = None).
            { apply lookup_None. rewrite (env_ids_shape le c); auto. }
            congruence.
          * apply fv_clauses_In in Hx. destruct Hx as [cl [C1 [C2 C3]]].
            eapply fv_clauses_sub; eauto.
            -- apply (existsb_false_In (fun c0 => has_subst (cl_body c0)) cls cl Hnsc C1).
            -- intros y Hy. apply Hu. right. apply in_or_app. left. eapply binders_cls_In; eauto. }
    assert (Hfvn : forall x, In x (fv next) -> x <> idn v -> In x (fv (Create v (Decl tn) e cls next)) /\ In (sub_n rho x) (fv nr)).
    { intros x Hx Hne. split.
      - rewrite fv_create. apply union_In. right. apply remove_In; auto.
      - apply fv_sub; auto. intros y Hy. apply Hu. right. apply in_or_app; auto. }
    destruct (ctx_eqb c (cn ++ cc)) eqn:Eq.
    - (* the context is already right *)
      destruct (snoc_ok Sg c (Create v (Decl tn) er clsr nr) m (fv nr) vb nr (binders_cls clsr) Hinv)
        as [Hax' [Hinv' [Hnd' [_ Iv]]]]; auto.
      { rewrite binders_create. auto. }
      fold cn in Hax', Hinv', Hnd'.
      destruct (lin f nr (cn ++ [vb]) m1) as [n' m2] eqn:En. cbn [fst].
      set (le0 := rebind le cn cn).
      destruct (IH rho (cn ++ [vb]) next n' ((v, VClo tn cls ne) :: ne) (le0 ++ [(v, VClo tn cls' cap)]) out o)
        as [n1 Hn1]; auto.
      { apply srel_intro with (f := f) (m := m1); [lia|auto| |exact Hax'| |fold nr; rewrite En; auto].
        - intros y Hy. apply Hu. right. apply in_or_app; auto.
        - apply Hinv'. auto. }
      { unfold le0. apply shape_snoc_k. }
      { unfold le0, cn. eapply erel_snoc; eauto. intros y [<-|[]]. apply Hu. simpl; auto. }
      apply ctx_eqb_eq in Eq.
      destruct (wrap_exec P' c le (cn ++ cc) (cn ++ cc) (Create v (Decl tn) (Some cc) cls' n')
                          (Create v (Decl tn) (Some cc) cls' n') (S n1) out Hsh I1) as [j Hj]; auto.
      { intros b Hb. apply In_ids. rewrite Eq. auto. }
      exists (j + S n1)%nat. rewrite Hj. rewrite rebind_app by auto. fold le0 cap.
      rewrite create_step; auto. unfold cap. apply rebind_fst; auto.
    - (* rearrangement and renaming of next *)
      destruct (freshen cn (ids cc) m1) as [cnf m2] eqn:Ef.
      destruct (create_else_ok c v (Decl tn) er clsr nr m m1 cnf m2 Hinv Hn Hm1 Ef)
        as [F2 [F3 [Hv_cnf [Hm2 [Hax' [Hinv' [Hun Hdis]]]]]]].
      fold cn in F2, Hax', Hinv', Hun. fold vb in Hax', Hinv'.
      set (su := combine (ids cn) (vars cnf)) in *.
      destruct (lin f (sub_s su nr) (cnf ++ [vb]) m2) as [n' m3] eqn:En. cbn [fst].
      set (rho' := compose su rho).
      assert (Hcomp : sub_s su nr = sub_s rho' next) by (unfold nr, rho'; apply sub_s_compose; auto).
      assert (Hlen : length cnf = length cn) by (symmetry; apply same_shape_length; auto).
      set (le0 := rebind le cn cnf).
      assert (Hur : untouched rho' (idn v :: binders next)).
      { intros y Hy. unfold rho'. rewrite compose_dom. split.
        - intros Hin. apply in_app_or in Hin. destruct Hin as [Hin|Hin].
          + destruct (Hu y) as [U1 _]; [destruct Hy as [<-|Hy]; [simpl; auto|right; apply in_or_app; auto]|]. auto.
          + destruct (Hun y) as [U1 _]; [unfold nr; rewrite binders_sub by auto; auto|]. auto.
        - intros Hin. apply compose_range in Hin. destruct Hin as [Hin|Hin].
          + destruct (Hu y) as [_ U2]; [destruct Hy as [<-|Hy]; [simpl; auto|right; apply in_or_app; auto]|]. auto.
          + destruct (Hun y) as [_ U2]; [unfold nr; rewrite binders_sub by auto; auto|]. auto. }
      destruct (IH rho' (cnf ++ [vb]) next n' ((v, VClo tn cls ne) :: ne) (le0 ++ [(v, VClo tn cls' cap)]) out o)
        as [n1 Hn1]; auto.
      { apply srel_intro with (f := f) (m := m2); [lia|auto| | | |].
        - intros y Hy. apply Hur. simpl; auto.
        - rewrite <- Hcomp. auto.
        - rewrite <- Hcomp. auto.
        - rewrite <- Hcomp, En. auto. }
      { unfold le0. rewrite map_app, rebind_fst, vars_app by auto. auto. }
      { intros x Hx. destruct (N.eq_dec x (idn v)) as [->|Hne].
        - exists (VClo tn cls ne), (VClo tn cls' cap). simpl. rewrite N.eqb_refl.
          rewrite (untouched_sub_n rho' (idn v :: binders next)) by (auto; simpl; auto).
          unfold le0. rewrite rebind_notin; auto. simpl. rewrite N.eqb_refl. auto.
        - destruct (Hfvn x Hx Hne) as [H1 H2]. destruct (He x H1) as [w [w' [L1 [L2 V]]]].
          exists w, w'. simpl. apply N.eqb_neq in Hne. rewrite N.eqb_sym in Hne. rewrite Hne.
          split; auto. split; auto.
          assert (Hxc : In (sub_n rho x) (ids cn)).
          { apply fbs_ids_In. split; auto.
            destruct (in_dec N.eq_dec (sub_n rho x) (ids c)); auto.
            exfalso. assert (lookup le (sub_n rho x) = None).
            { apply lookup_None. rewrite (env_ids_shape le c); auto. }
            congruence. }
          apply In_ids_ex in Hxc. destruct Hxc as [b [B1 B2]].
          destruct (ren_lookup_pos cn cnf F2 Hcn b B1) as [b' [P1 P2]].
          fold su in P2. unfold rho'. rewrite sub_n_compose, <- B2, P2.
          unfold le0. rewrite (rebind_lookup le cnf cn _ b' b); auto.
          rewrite B2, (getv_Some _ _ _ L2). auto. }
      destruct (wrap_exec P' c le (cnf ++ cc) (cn ++ cc) (Create v (Decl tn) (Some cc) cls' n')
                          (Substitute (combine (cnf ++ cc) (vars (cn ++ cc))) (Create v (Decl tn) (Some cc) cls' n'))
                          (S n1) out Hsh I1) as [j Hj]; auto.
      { rewrite !app_length. lia. }
      { intros b Hb. apply In_ids. apply in_app_or in Hb. destruct Hb as [Hb|Hb]; auto.
        apply fbs_In in Hb. tauto. }
      exists (j + S n1)%nat. rewrite Hj. rewrite rebind_app by auto. fold le0 cap.
      rewrite create_step; auto. unfold cap. apply rebind_fst; auto.
  Qed.
  (* ---------------- all statement forms, every amount of fuel ---------------- *)
  Theorem sim_all : forall n, sim_n n.
  Proof.
    induction n as [|n IH]; intros rho c s s' ne le out o Hs Hsh He Hrun Hg.
    - simpl in Hrun. subst. exfalso. eapply finish_fuel_not_good; eauto.
    - destruct s.
      + destruct Hs as [f [m [_ [Hns _]]]]. discriminate.
      + eapply sim_call; eauto.
      + eapply sim_let; eauto.
      + eapply sim_switch; eauto.
      + eapply sim_create; eauto.
      + eapply sim_invoke; eauto.
      + eapply sim_literal; eauto.
      + eapply sim_op; eauto.
      + eapply sim_print; eauto.
      + eapply sim_ifc; eauto.
      + eapply sim_exit; eauto.
  Qed.

  Lemma vrel_ints : forall zs, Forall2 vrel (map VInt zs) (map VInt zs).
  Proof. induction zs; simpl; constructor; auto. constructor. Qed.

  Theorem run_sim : forall args n o,
    run_named n P args = o -> good o -> exists n', run_linear n' P' args = o.
  Proof.
    intros args n o Hrun Hg. unfold run_named in Hrun. unfold run_linear.
    destruct (pdefs P) as [|d r] eqn:Ed.
    { subst. exfalso. destruct Hg as [[z H]|[z H]]; simpl in H; discriminate. }
    assert (Hok : def_ok Sg (pmax P) d = true).
    { apply (prog_ok_defs P HP). rewrite Ed. simpl; auto. }
    unfold linearize. rewrite Ed. simpl.
    unfold lin_def.
    destruct (lin (stmt_size (dbody d)) (dbody d) (dctx d) (pmax P)) as [b m1] eqn:E.
    destruct (lin_defs r m1) as [r' m2] eqn:E'. simpl.
    unfold entry_env in *. simpl.
    destruct (bind (vars (dctx d)) (map VInt args)) as [e|] eqn:Eb.
    2:{ subst. exfalso. destruct Hg as [[z H]|[z H]]; simpl in H; discriminate. }
    apply bind_Some_length in Eb. destruct Eb as [Hlen ->].
    pose proof (def_ok_inv _ _ _ Hok) as [Haxd _].
    destruct (sim_all n [] (dctx d) (dbody d) b (combine (vars (dctx d)) (map VInt args))
                      (combine (vars (dctx d)) (map VInt args)) [] o) as [n' Hn']; auto.
    - apply (srel_def d (mkd (dname d) (dctx d) b) (pmax P)); auto. simpl. rewrite E. auto.
    - apply combine_map_fst; auto.
    - apply erel_params; auto.
      + apply vrel_ints.
      + intros x Hx. eapply ax_check_fv; eauto.
    - exists n'. unfold linearize in Hn'. rewrite Ed in Hn'. simpl in Hn'. unfold lin_def in Hn'.
      rewrite E, E' in Hn'. simpl in Hn'. exact Hn'.
  Qed.
End Sim.

(* C05, semantic preservation: every run of the named machine on a program satisfying `prog_ok`
   that ends normally (exit) or in undefined arithmetic is reproduced, observation for
   observation, by the linear machine on the linearized program. *)
Theorem linearize_preserves : forall p, prog_ok p = true ->
  forall args n o, run_named n p args = o -> good o ->
  exists n', run_linear n' (linearize p) args = o.
Proof. intros p H args n o. apply run_sim; auto. Qed.

(* more fuel does not change a finished run of the linear machine *)
Lemma finish_not_fuel : forall out oc, oc <> OOutOfFuel -> snd (finish out oc) <> OOutOfFuel.
Proof. intros; simpl; auto. Qed.

Lemma exec_linear_mono : forall p n e s out o,
  exec_linear n p e s out = o -> snd o <> OOutOfFuel -> forall k, exec_linear (n + k) p e s out = o.
Proof.
  intros p; induction n as [|n IH]; intros e s out o H Hne k.
  - simpl in H. subst. simpl in Hne. congruence.
  - change (S n + k)%nat with (S (n + k)).
    destruct s; simpl in H |- *;
      repeat match goal with
             | |- context [match ?x with _ => _ end] =>
                 match type of H with context [match x with _ => _ end] => destruct x end
             end; auto.
Qed.

Theorem linearize_preserves_stable : forall p, prog_ok p = true ->
  forall args n o, run_named n p args = o -> good o ->
  exists n', forall k, run_linear (n' + k) (linearize p) args = o.
Proof.
  intros p H args n o Hrun Hg. destruct (linearize_preserves p H args n o Hrun Hg) as [n' Hn'].
  exists n'. intros k. unfold run_linear in *.
  destruct (pdefs (linearize p)) as [|d r]; auto.
  destruct (entry_env d args); auto.
  apply exec_linear_mono; auto.
  destruct Hg as [[z Hz]|[w Hw]]; congruence.
Qed.
