(* Proof/ShrinkTyE.v (C12, fragment 2) - cases of the typing lemma: renaming cuts, critical pair at i64. *)
From Coq Require Import List ZArith NArith String Bool Lia.
From SCC Require Import Base.Sexp Lang.SynUtil Lang.CoreSyn Lang.AxSyn Sem.FsCheck Model.Shrink Model.LinCheck Model.WtDefs
     Proof.ShrinkProof Proof.ShrinkRn Proof.ShrinkSimBase Proof.ShrinkSimData Proof.ShrinkSimEta Proof.ShrinkTfv
     Proof.ShrinkTyA Proof.ShrinkTyB Proof.ShrinkTyC Proof.ShrinkTyD.
From SCC Require Sem.AxCheck.
Import ListNotations.
Open Scope list_scope.

Section TyE.
Variable p : fsprog.
Variable ds' : list def.
Notation data := (fspdata p).
Notation codata := (fspcodata p).
Notation defs := (fspdefs p).
Notation m0 := (fspmax p).
Notation D := (data ++ [cont_int]).
Notation ts := (ts_of p).
Notation TLs := (TLs p ds').
Notation TLn := (TLn p ds').
Hypothesis Hdisj : forall n, find_decl data n <> None -> find_decl codata n = None.
Hypothesis Hcont : find_decl data cont_name = None /\ find_decl codata cont_name = None.

(* a Core variable v that becomes another name z of an AxCut variable *)
Lemma alias_one : forall (need need' : cident -> Prop) Ga G rho th st st' v c t z,
  inv p G rho th st -> grel p need (fun y => th (rho y)) Ga G -> ginv p Ga G st st' -> decl_ok p G ->
  ~ In (cid_id v) (cids G) -> (cid_id v <= m0)%N -> ty_ok data codata t = true ->
  In (mkcb z c t) G -> need z -> (forall y, need' y -> need y) ->
  let rho' := fun y => subst_ident [(cid_id v, rho z)] (rho y) in
  inv p ([mkcb v c t] ++ G) rho' th st /\
  grel p need' (fun y => th (rho' y)) Ga ([mkcb v c t] ++ G) /\
  ginv p Ga ([mkcb v c t] ++ G) st st' /\ decl_ok p ([mkcb v c t] ++ G).
Proof.
  intros need need' Ga G rho th st st' v c t z Hinv Hg Hgi Hdecl Hv Hvm Hty Hz Hnz Hn rho'.
  assert (Hids : forall i, In i (cids [mkcb v c t]) -> ~ In i (cids G) /\ (i <= m0)%N) by (intros i [<-|[]]; auto).
  assert (Hra : rho' v = rho z).
  { unfold rho'. rewrite (inv_rho _ _ _ _ _ Hinv v Hv Hvm). cbn [subst_ident]. now rewrite N.eqb_refl. }
  split; [|split; [|split]].
  - apply (inv_ext p G rho th st [mkcb v c t] [rho z]); auto.
    + repeat constructor. intros [].
    + intros z0 [<-|[]]. apply (inv_rng _ _ _ _ _ Hinv (mkcb z c t) Hz).
  - eapply grel_alias_list with (pi := fun y => th (rho y)) (need := need); [exact Hg | |].
    + intros b Hb Hb'. split; [now apply Hn|]. unfold rho'.
      pose proof (inv_old p _ _ _ _ [cid_id v] [rho z] _ Hinv Hb Hids) as Ho. cbn [combine] in Ho. now rewrite Ho.
    + intros b [<-|[]]. exists (mkcb z c t). cbn [cbvar cbchi cbty]. rewrite Hra. auto.
  - now apply ginv_app_G.
  - intros b Hb. apply in_app_or in Hb as [[<-|[]]|Hb]; [exact Hty | now apply Hdecl].
Qed.

(* <mu a.s | b> *)
Lemma tl_ren_mu : forall k, TLn k -> forall c1 a s' t1 ty c2 b t2, TLs (S k) (FsCut (FsMu c1 a s' t1) ty (FsXVar c2 b t2)).
Proof.
  intros k IH c1 a s' t1 ty c2 b t2. tstart. cbn [rn_stmt rn_term shrink_step shrink_cut] in Hsh. unfold shrink_renaming in Hsh.
  rewrite subst_is_rn, rn_comp in Hsh.
  rewrite check_stmt_cut_eq in Hck. apply seq_none in Hck as [Hty Hck]. apply seq_none in Hck as [Hcp Hck]. apply fensure_none in Hty.
  rewrite check_term_mu_eq in Hcp. apply seq_none in Hcp as [_ Hcp]. apply seq_none in Hcp as [_ Hcs]. cbn [opp] in Hcs.
  cbn [check_term] in Hck. apply seq_none in Hck as [_ Hck]. apply seq_none in Hck as [_ Hcb].
  rewrite ib_stmt_cut, ib_term_mu in Hib. apply andb_prop in Hib as [Hib _]. apply andb_prop in Hib as [Hia Hib]. apply id_le_le' in Hia.
  cbn [ub_stmt ub_term] in Hub. rewrite andb_true_r in Hub. apply andb_prop in Hub as [Hua Hub]. apply negb_mem_notin' in Hua.
  pose proof (nc_cut_mu_l _ _ _ _ _ _ _ Hnc) as Hncs. apply nc_cut in Hnc as [_ Hncb]. cbn [nc_term] in Hncb.
  pose proof (occ_binding _ _ _ _ Hcb Hncb) as Hbin.
  destruct (alias_one _ (fun y => occurs y s') _ _ _ _ _ _ a CCns ty b Hinv Hg Hgi Hdecl Hua Hia Hty Hbin ltac:(occ) ltac:(intros y Hy; occ))
    as (Hinv' & Hg' & Hgi' & Hdecl').
  exact (IH s' lbl _ _ th st t st' Ga Hinv' Hcs Hub Hib Hncs Hdecl' Hsh Hg' Hgi' Hlin Hlw).
Qed.

(* <x | mu~ y.s> *)
Lemma tl_ren_mut : forall k, TLn k -> forall c1 x t1 ty c2 y s' t2, TLs (S k) (FsCut (FsXVar c1 x t1) ty (FsMu c2 y s' t2)).
Proof.
  intros k IH c1 x t1 ty c2 y s' t2. tstart. cbn [rn_stmt rn_term shrink_step shrink_cut] in Hsh. unfold shrink_renaming in Hsh.
  rewrite subst_is_rn, rn_comp in Hsh.
  rewrite check_stmt_cut_eq in Hck. apply seq_none in Hck as [Hty Hck]. apply seq_none in Hck as [Hcp Hck]. apply fensure_none in Hty.
  rewrite check_term_mu_eq in Hck. apply seq_none in Hck as [_ Hck]. apply seq_none in Hck as [_ Hcs]. cbn [opp] in Hcs.
  cbn [check_term] in Hcp. apply seq_none in Hcp as [_ Hcp]. apply seq_none in Hcp as [_ Hcx].
  rewrite ib_stmt_cut, ib_term_mu in Hib. apply andb_prop in Hib as [_ Hib]. apply andb_prop in Hib as [Hiy Hib]. apply id_le_le' in Hiy.
  cbn [ub_stmt ub_term andb] in Hub. apply andb_prop in Hub as [Huy Hub]. apply negb_mem_notin' in Huy.
  pose proof (nc_cut_mu_r _ _ _ _ _ _ _ Hnc) as Hncs. apply nc_cut in Hnc as [Hncx _]. cbn [nc_term] in Hncx.
  pose proof (occ_binding _ _ _ _ Hcx Hncx) as Hxin.
  destruct (alias_one _ (fun z => occurs z s') _ _ _ _ _ _ y CPrd ty x Hinv Hg Hgi Hdecl Huy Hiy Hty Hxin ltac:(occ) ltac:(intros z Hz; occ))
    as (Hinv' & Hg' & Hgi' & Hdecl').
  exact (IH s' lbl _ _ th st t st' Ga Hinv' Hcs Hub Hib Hncs Hdecl' Hsh Hg' Hgi' Hlin Hlw).
Qed.

(* <mu a.sp | mu~ x.sc> at i64 *)
Lemma tl_crit_i64 : forall k, TLn k -> forall c1 a sp t1 c2 x sc t2, TLs (S k) (FsCut (FsMu c1 a sp t1) CI64 (FsMu c2 x sc t2)).
Proof.
  intros k IH c1 a sp t1 c2 x sc t2. tstart.
  cbn [rn_stmt rn_term shrink_step shrink_cut shrink_critical_pairs] in Hsh. unfold shrink_identifier in Hsh.
  destruct (shrink_stmt k _ (rn_stmt rho sc) st) as [[body st1]|] eqn:E1; [|discriminate Hsh]. cbn [sbind] in Hsh.
  destruct (shrink_stmt k _ (rn_stmt rho sp) st1) as [[next st2]|] eqn:E2; [|discriminate Hsh]. cbn [sbind] in Hsh. inv Hsh.
  rewrite check_stmt_cut_eq in Hck. apply seq_none in Hck as [Hty Hck]. apply seq_none in Hck as [Hcp Hck].
  rewrite check_term_mu_eq in Hcp. apply seq_none in Hcp as [_ Hcp]. apply seq_none in Hcp as [_ Hcsp]. cbn [opp] in Hcsp.
  rewrite check_term_mu_eq in Hck. apply seq_none in Hck as [_ Hck]. apply seq_none in Hck as [_ Hcsc]. cbn [opp] in Hcsc.
  rewrite ib_stmt_cut, !ib_term_mu in Hib. apply andb_prop in Hib as [Hib1 Hib2].
  apply andb_prop in Hib1 as [Hia Hibp]. apply andb_prop in Hib2 as [Hix Hibc]. apply id_le_le' in Hia. apply id_le_le' in Hix.
  cbn [ub_stmt ub_term] in Hub. apply andb_prop in Hub as [Hub1 Hub2].
  apply andb_prop in Hub1 as [Hua Hubp]. apply andb_prop in Hub2 as [Hux Hubc].
  apply negb_mem_notin' in Hua. apply negb_mem_notin' in Hux.
  pose proof (nc_cut_mu_l _ _ _ _ _ _ _ Hnc) as Hncp. pose proof (nc_cut_mu_r _ _ _ _ _ _ _ Hnc) as Hncc.
  destruct (shrink_mono p _ _ _ _ _ _ _ Hibc (inv_st _ _ _ _ _ Hinv) E1) as [Hm1 (nd1 & Hl1)].
  assert (Hinv1 : inv p G rho th st1) by (eapply inv_st_mono; eauto).
  destruct (shrink_mono p _ _ _ _ _ _ _ Hibp (inv_st _ _ _ _ _ Hinv1) E2) as [Hm2 (nd2 & Hl2)].
  assert (Hgi1 : ginv p Ga G st st1) by (eapply ginv_sub; [exact Hgi | lia | lia]).
  assert (Hgi2 : ginv p Ga G st1 st') by (eapply ginv_sub; [exact Hgi | lia | lia]).
  destruct (push_old p _ (fun y => occurs y sc) _ _ _ _ _ _ x CPrd CI64 Hinv Hg Hgi1 Hux Hix ltac:(intros y Hy; occ)) as (Hfx & Hgx & Hgix).
  destruct (IH sc lbl _ rho th st body st1 _ (inv_push p _ _ _ _ x CPrd CI64 Hinv Hux Hix) Hcsc Hubc Hibc Hncc (decl_push p _ x CPrd CI64 Hdecl eq_refl) E1 Hgx Hgix
              ltac:(eapply lifted_in'_mono; eauto) Hlw) as (T1 & T2 & T3).
  destruct (push_old p _ (fun y => occurs y sp) _ _ _ _ _ _ a CCns CI64 Hinv1 Hg Hgi2 Hua Hia ltac:(intros y Hy; occ)) as (Hfa & Hga & Hgia).
  destruct (IH sp lbl _ rho th st1 next st' _ (inv_push p _ _ _ _ a CCns CI64 Hinv1 Hua Hia) Hcsp Hubp Hibp Hncp (decl_push p _ a CCns CI64 Hdecl eq_refl) E2 Hga Hgia Hlin T3) as (U1 & U2 & U3).
  split; [|split; [cbn [pre_linear]; now rewrite T2, U2 | exact U3]].
  rewrite arn_create. unfold cont_ty, shrink_identifier. cbn [option_map arn_cls map fst snd].
  eapply ck_create; [apply (find_type_cont p Hcont) | | exact Hfa | exact U1].
  constructor; [|constructor]. cbn [fst snd shrink_declaration txtors cont_int ctxtors map shrink_xtor xname xargs cxname cxargs]. unfold shrink_identifier.
  split; [reflexivity|]. split; [intros what; reflexivity|]. split.
  - cbn [AxCheck.fresh_all bvar]. now rewrite Hfx.
  - exact T1.
Qed.
End TyE.
