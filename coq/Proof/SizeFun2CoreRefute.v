(* C19: the whole-pass bound of fun2core as it was STATED in round 1,
     size_cprog c <= c1 * size_fcprog p * (1 + parameters + binders of a definition),
   quantifies over all values of type fcprog, ill-scoped ones included, and is false of the model for
   the calibrated constant c1 = 12: a definition without any binder whose body mentions n variables
   that are bound nowhere, under k nested `case (if ..) { K => .. }`, shares k continuations with n
   parameters each.  (The type checker rejects such a program; for checked programs every typed
   occurrence refers to a parameter or binder, and the proved bound C19_fun2core_size counts the
   distinct typed occurrences instead.) *)
From Coq Require Import List ZArith NArith String Bool Lia.
From SCC Require Import Base.Sexp Lang.SynUtil Lang.FunSyn Lang.CoreSyn Lang.AxSize Model.Fun2Core Model.SizeFun.
Import ListNotations.
Open Scope string_scope.

Definition ty_u : fty := FDecl "U" [].
Definition xv (i : nat) : fterm := FVar ("x" ++ n_to_string (N.of_nat i)) (Some FI64) (Some FPrd).
Fixpoint sumvars (n : nat) : fterm := match n with O => FLit 0 | S m => FOp (xv n) FSum (sumvars m) end.
Definition ku : fterm := FCtor "K" [] (Some ty_u).
Fixpoint nest (k : nat) (inner : fterm) : fterm :=
  match k with
  | O => inner
  | S j => FCase (FIfC FEq (FLit 0) None ku ku (Some ty_u)) [] [FClause FData "K" [] [] (nest j inner)] (Some FI64)
  end.
Definition unscoped_witness : fcprog :=
  mkfcprog [mkfdata "U" [] [mkfctor "K" []]] [] [mkfdef "main" [] FI64 (nest 40 (sumvars 40))].
Definition core_size_of (p : fcprog) : N := match compile_prog p with Ok c => size_cprog c | Err _ => 0%N end.

Lemma unscoped_core_size : core_size_of unscoped_witness = 3966%N.
Proof. vm_compute. reflexivity. Qed.
Lemma unscoped_src_size : size_fcprog unscoped_witness = 322%N.
Proof. vm_compute. reflexivity. Qed.
Lemma unscoped_vars :
  fold_right N.max 0%N (map (fun d => len (used_binders (fdbody d) (fvars (fdctx d)))) (fcpdefs unscoped_witness)) = 0%N.
Proof. vm_compute. reflexivity. Qed.
Lemma unscoped_occ : fun_occ unscoped_witness = 40%N.
Proof. vm_compute. reflexivity. Qed.

Lemma core_size_of_inv : forall p n, core_size_of p = n -> n <> 0%N ->
  exists c, compile_prog p = Ok c /\ size_cprog c = n.
Proof.
  intros p n H Hn. unfold core_size_of in H. destruct (compile_prog p) as [c|e]; [exists c; auto | congruence].
Qed.

Lemma fun2core_size_statement_12_refuted :
  ~ (forall (p : fcprog) (c : cprog), compile_prog p = Ok c ->
       (size_cprog c <= 12 * size_fcprog p *
          (1 + fold_right N.max 0 (map (fun d => len (used_binders (fdbody d) (fvars (fdctx d)))) (fcpdefs p))))%N).
Proof.
  intros H. destruct (core_size_of_inv _ _ unscoped_core_size) as (c & E & S); [discriminate|].
  specialize (H _ _ E). rewrite S, unscoped_src_size, unscoped_vars in H. vm_compute in H. apply H. reflexivity.
Qed.
