(* Proof/ShrinkSimCrit.v (C04, fragment 2) - critical pairs <mu a.sp | mu~ x.sc> at a declared type:
   data: create a = { K(ps) => let x' = K(ps); sc[x := x'] }; sp        (producer first)
   codata: create x = { D(ps) => let a' = D(ps); sp[a := a'] }; sc      (consumer first: by name)
   where the expanded side is shrunk in place (at most one xtor, or a leaf) or lifted. *)
From Coq Require Import List ZArith NArith String Bool Lia.
From SCC Require Import Base.Sexp Lang.SynUtil Lang.CoreSyn Lang.AxSyn Sem.AxSem Sem.FsCheck Model.Shrink
     Proof.ShrinkProof Proof.ShrinkSem Proof.ShrinkRn Proof.ShrinkRel Proof.ShrinkArgs Proof.ShrinkSimBase
     Proof.ShrinkSimA Proof.ShrinkSimB Proof.ShrinkSimData Proof.ShrinkSimC Proof.ShrinkSimEta Proof.ShrinkTfv Proof.ShrinkSimLift.
From SCC Require Sem.CoreSem.
Import ListNotations.
Open Scope list_scope.

Section Crit.
Variable p : fsprog.
Variable q : prog.
Notation P := (CoreSem.fs2c_prog p).
Notation data := (fspdata p).
Notation codata := (fspcodata p).
Notation defs := (fspdefs p).
Notation m0 := (fspmax p).
Notation D := (data ++ [cont_int]).
Notation IHn := (IHn p q).
Hypothesis Hdisj : forall n, find_decl data n <> None -> find_decl codata n = None.
Hypothesis Hqfresh : forall d, In d (pdefs q) -> pfresh (ids (dctx d)) (dbody d) = true.
Hypothesis Hqnames : forall d, In d (pdefs q) -> find_def q (dname d) = Some d.

(* entries bound in front of the AxCut environment that no needed variable refers to *)
Lemma erel_skip : forall n (need : cident -> Prop) pi A G e ae xs vs e1,
  erel p q n need pi A G e ae -> bind xs vs = Some e1 -> (forall i, In i (map idn xs) -> ~ In i A) ->
  erel p q n need pi (rev_append (map idn xs) A) G e (e1 ++ ae).
Proof.
  intros n need pi A G e ae xs vs e1 He Hb Hdis. unfold erel in *. eapply Forall2_impl_in; [exact He|].
  intros b ev _ [H1 H2]. split; [exact H1|]. intros Hn. destruct (H2 Hn) as (Hin & av & Hl & Hv).
  split; [apply in_rev_append; now right|]. exists av. split; [|exact Hv].
  rewrite (lookup_app_bind _ _ _ _ _ Hb); [exact Hl|]. intros Hi. apply (Hdis _ Hi). exact Hin.
Qed.

(* one clause of the eta expansion of a critical pair *)
Lemma crit_clause_sim : forall j R se,
  FLr p q j R se ->
  forall G rho th st t_exp st1 A e ae v cv T K env v' fs e1 vval,
   inv p G rho th st ->
   check_stmt data codata defs (mkcb v cv (CDecl T) :: G) se = None ->
   ub_stmt (cid_id v :: cids G) se = true -> ib_stmt m0 se = true -> nc_stmt (v :: cvars G) se = true ->
   ~ In (cid_id v) (cids G) -> (cid_id v <= m0)%N ->
   R (rn_stmt rho se) st = SOk (t_exp, st1) -> lifted_in q st1 ->
   erel p q j (fun x => occurs x se) (fun x => th (rho x)) A G e ae ->
   vrel p q j cv (CDecl T) vval (VObj T K fs) ->
   bind (vars env) fs = Some e1 ->
   NoDup (map idn (vars env)) -> (forall i, In i (map idn (vars env)) -> ~ In i A /\ (m0 < i)%N) ->
   ~ In (idn v') A -> ~ In (idn v') (map idn (vars env)) -> (m0 < idn v')%N ->
   pfresh (idn v' :: rev_append (ids env) A) t_exp = true ->
   beh p q j (CoreSem.SNext (CoreSem.Run (CoreSem.fs2c_stmt se) ((v, vval) :: e))) (e1 ++ ae)
       (arn th (Let v' (Decl T) K env (ax_subst [(cid_id v, v')] t_exp))).
Proof.
  intros j R se HR G rho th st t_exp st1 A e ae v cv T K env v' fs e1 vval
         Hinv Hck Hub Hib Hnc Hv Hvm Hsh Hlift He Hval Hbind Hnd Hfresh Hv'A Hv'env Hv'm Hpf out r Hr Hg.
  cbn [cont] in Hr.
  set (tau := fun y : ident => ax_subst_ident [(cid_id v, v')] y).
  set (th' := fun y => th (tau y)).
  assert (Hth_fresh : forall y, (m0 < cid_id y)%N -> th y = y).
  { intros y Hy. apply (inv_th _ _ _ _ _ Hinv). intros Hin. apply (inv_le _ _ _ _ _ Hinv) in Hin. lia. }
  assert (Htau_other : forall y, cid_id y <> cid_id v -> tau y = y).
  { intros y Hy. unfold tau. cbn [ax_subst_ident]. unfold idn. destruct (N.eqb (cid_id v) (snd y)) eqn:E; [apply N.eqb_eq in E; exfalso; apply Hy; unfold cid_id in *; now rewrite E | reflexivity]. }
  assert (Htau_v : tau v = v').
  { unfold tau. cbn [ax_subst_ident]. unfold idn, cid_id. now rewrite N.eqb_refl. }
  pose proof (inv_push p _ _ _ _ v cv (CDecl T) Hinv Hv Hvm) as Hinv1.
  assert (Hinv' : inv p (mkcb v cv (CDecl T) :: G) rho th' st).
  { constructor.
    - apply (inv_nd _ _ _ _ _ Hinv1).
    - apply (inv_le _ _ _ _ _ Hinv1).
    - apply (inv_st _ _ _ _ _ Hinv1).
    - apply (inv_rho _ _ _ _ _ Hinv1).
    - intros y Hy. unfold th'. rewrite Htau_other; [apply (inv_th _ _ _ _ _ Hinv1); exact Hy|]. intros E. apply Hy. left. now rewrite E.
    - apply (inv_rng _ _ _ _ _ Hinv1).
    - intros x y Hxy. unfold th'. apply (inv_P _ _ _ _ _ Hinv). unfold tau. cbn [ax_subst_ident]. unfold idn. unfold cid_id in Hxy. rewrite Hxy.
      destruct (N.eqb (cid_id v) (snd y)); [reflexivity | exact Hxy]. }
  assert (He' : erel p q j (fun y => occurs y se) (fun y => th' (rho y)) (idn v' :: rev_append (ids env) A)
                  (mkcb v cv (CDecl T) :: G) ((v, vval) :: e) ((v', VObj T K fs) :: e1 ++ ae)).
  { rewrite ids_vars. eapply erel_push with (pi := fun y => th (rho y)) (need := fun y => occurs y se).
    - eapply erel_skip; eauto. intros i Hi. apply (Hfresh i Hi).
    - intros Hin. apply in_rev_append in Hin as [Hin|Hin]; contradiction.
    - intros b Hb Hn. split; [exact Hn|]. unfold th'. rewrite Htau_other; [reflexivity|].
      intros E. destruct (inv_rng _ _ _ _ _ Hinv b Hb) as [H|H]; [apply Hv; now rewrite <- E | rewrite E in H; lia].
    - unfold th'. rewrite (inv_rho _ _ _ _ _ Hinv v Hv Hvm), Htau_v. rewrite Hth_fresh; [reflexivity | exact Hv'm].
    - exact Hval. }
  destruct (HR _ rho th' st t_exp st1 _ _ _ Hinv' Hck Hub Hib Hnc Hsh Hpf Hlift He' _ _ Hr Hg) as [m Hm].
  exists (S m). cbn [arn exec_named ty_name].
  rewrite arn_ctx_fix; [|intros y Hy; apply Hth_fresh; apply (Hfresh (idn y)); apply in_map; exact Hy].
  rewrite (lookups_bind _ _ _ _ Hnd Hbind). rewrite ax_subst_is_arn, arn_comp. exact Hm.
Qed.

Lemma lift_mono : forall k lbl rho s st t st',
  lift (shrink_stmt k (mksenv D codata lbl)) (mksenv D codata lbl) (rn_stmt rho s) st = SOk (t, st') ->
  ib_stmt m0 s = true -> (m0 <= s_max st)%N ->
  (s_max st <= s_max st')%N /\ exists nd, s_lifted st' = nd ++ s_lifted st.
Proof.
  intros k lbl rho s st t st' H Hib Hm.
  destruct (lift_closed _ _ _ _ _ _ H) as (_ & _ & _ & _ & label & body & st3 & _ & Hlt & _ & _ & Hrec & ->).
  rewrite subst_is_rn, rn_comp in Hrec.
  eapply shrink_mono in Hrec; [|exact Hib|cbn [s_max]; lia]. destruct Hrec as [Hm3 (nd & Hl3)]. cbn [s_max s_lifted] in *.
  split; [lia|]. exists (mkd label (shrink_context codata (fresh_params (typed_free_vars (rn_stmt rho s)) (s_max st))) body :: nd).
  rewrite Hl3. reflexivity.
Qed.

(* the expanded side: shrunk in place or lifted - simulated either way *)
Lemma expand_sim : forall n, IHn n -> forall k lbl (cond : bool) rho se st t_exp st1,
  (if cond then shrink_stmt k (mksenv D codata lbl) (rn_stmt rho se) st
   else lift (shrink_stmt k (mksenv D codata lbl)) (mksenv D codata lbl) (rn_stmt rho se) st) = SOk (t_exp, st1) ->
  ib_stmt m0 se = true -> (m0 <= s_max st)%N ->
  (exists R, R (rn_stmt rho se) st = SOk (t_exp, st1) /\ forall j, j < n -> FLr p q j R se) /\
  (s_max st <= s_max st1)%N /\ exists nd, s_lifted st1 = nd ++ s_lifted st.
Proof.
  intros n IH k lbl cond rho se st t_exp st1 H Hib Hm. destruct cond.
  - split; [|eapply shrink_mono; eauto].
    exists (shrink_stmt k (mksenv D codata lbl)). split; [exact H|]. intros j Hj. apply FLs_FLr. apply (IH j Hj).
  - split; [|eapply lift_mono; eauto].
    exists (lift (shrink_stmt k (mksenv D codata lbl)) (mksenv D codata lbl)). split; [exact H|].
    intros j Hj. apply lift_sim; auto.
Qed.

(* <mu a.sp | mu~ x.sc> at a declared type *)
Lemma fl_crit_decl : forall n, IHn n -> forall c1 a sp t1 T c2 x sc t2,
  FLs p q n (FsCut (FsMu c1 a sp t1) (CDecl T) (FsMu c2 x sc t2)).
Proof.
  intros n IH c1 a sp t1 T c2 x sc t2. start.
  cbn [rn_stmt rn_term shrink_step shrink_cut shrink_critical_pairs] in Hsh. unfold xtors_of in Hsh. cbn [e_codata e_data] in Hsh.
  rewrite check_stmt_cut_eq in Hck. apply seq_none in Hck as [Hty Hck]. apply seq_none in Hck as [Hcp Hck]. apply fensure_none in Hty.
  rewrite check_term_mu_eq in Hcp. apply seq_none in Hcp as [_ Hcp]. apply seq_none in Hcp as [_ Hcsp]. cbn [opp] in Hcsp.
  rewrite check_term_mu_eq in Hck. apply seq_none in Hck as [_ Hck]. apply seq_none in Hck as [_ Hcsc]. cbn [opp] in Hcsc.
  rewrite ib_stmt_cut, !ib_term_mu in Hib. apply andb_prop in Hib as [Hib1 Hib2].
  apply andb_prop in Hib1 as [Hia Hibp]. apply andb_prop in Hib2 as [Hix Hibc]. apply id_le_le in Hia. apply id_le_le in Hix.
  cbn [ub_stmt ub_term] in Hub. apply andb_prop in Hub as [Hub1 Hub2].
  apply andb_prop in Hub1 as [Hua Hubp]. apply andb_prop in Hub2 as [Hux Hubc].
  apply negb_mem_notin in Hua. apply negb_mem_notin in Hux.
  pose proof (nc_cut_mu_l _ _ _ _ _ _ _ Hnc) as Hncp. pose proof (nc_cut_mu_r _ _ _ _ _ _ _ Hnc) as Hncc.
  cbn [CoreSem.fs2c_stmt CoreSem.fs2c_term] in Hrun. core_step Hrun Hg n.
  cbn [CoreSem.khead CoreSem.cut_with_k] in Hrun. rewrite is_codata_same in Hrun.
  unfold ty_ok in Hty.
  destruct (find_decl codata T) as [d|] eqn:Hdc.
  - (* codata: consumer first; the producer is bound by name *)
    assert (Hco : is_codata codata (CDecl T) = true) by (eapply codata_is_codata; eauto).
    rewrite Hco in Hsh, Hrun. unfold lookup_type_declaration in Hsh. unfold find_decl in Hdc. rewrite Hdc in Hsh. cbn [sbind] in Hsh.
    fold (xtor_list d) in Hsh. unfold shrink_identifier in Hsh. cbv beta iota zeta in Hsh.
    match type of Hsh with context [if ?c then _ else _] => set (cond := c) in Hsh end.
    destruct (if cond then _ else _) as [[t_exp st1]|] eqn:E1; [|discriminate Hsh]. cbn [sbind] in Hsh.
    destruct (critical_clauses codata a (shrink_ty (CDecl T)) t_exp (xtor_list d) st1) as [clauses st2] eqn:E2.
    destruct (shrink_stmt k _ (rn_stmt rho sc) st2) as [[next st3]|] eqn:E3; [|discriminate Hsh]. cbn [sbind] in Hsh. invsh Hsh.
    destruct (expand_sim (S n) IH k lbl cond rho sp st t_exp st1 E1 Hibp (inv_st _ _ _ _ _ Hinv)) as ((R & HR & HFL) & Hm1 & nd1 & Hl1).
    destruct (critical_clauses_mono _ _ _ _ _ _ _ _ E2) as [Hm2 Hl2].
    assert (Hinv2 : inv p G rho th st2) by (eapply inv_st_mono; [exact Hinv | lia]).
    destruct (shrink_mono p _ _ _ _ _ _ _ Hibc (inv_st _ _ _ _ _ Hinv2) E3) as [Hm3 (nd3 & Hl3)].
    assert (Hlift2 : lifted_in q st2) by (eapply lifted_in_mono; eauto).
    assert (Hlift1 : lifted_in q st1) by (intros d0 Hd0; apply Hlift2; rewrite Hl2; exact Hd0).
    rewrite pfresh_create in Hpf. apply andb_prop in Hpf as [Hpf Hpn]. apply andb_prop in Hpf as [Hpc Hpx]. apply negb_memN_notin in Hpx.
    cbn [CoreSem.interact_mu cont] in Hrun.
    set (pv := CoreSem.PThunk a (CoreSem.fs2c_stmt sp) e) in *.
    assert (Hclo : vrel p q n CPrd (CDecl T) (BP pv) (VClo T (arn_cls th clauses) ae)).
    { apply VR_clo. apply cloR_intro; [exact Hco|]. intros j Hj tag fs sr (_ & d1 & sg & args & Hd1 & Hx & Hvs & ->).
      unfold find_decl in Hd1. rewrite Hdc in Hd1. inv_keep Hd1. apply relsV_vrelsF in Hvs. unfold pv. cbn [CoreSem.interact_val].
      destruct (find_xtor_list _ _ _ Hx) as [Hfx HK].
      destruct (critical_clauses_find _ _ _ _ _ _ _ _ _ _ _ E2 Hfx) as (env & sta & stb & F1 & F2 & F3 & F4). cbn zeta in F1, F2. rewrite HK in F1, F2.
      apply fresh_env_shape in F3 as (Hlen & Hmab & _ & Hrng & Hnd).
      destruct (pfresh_cls_in _ _ _ _ _ Hpc F2) as [Hfl Hpb]. apply fresh_list_spec in Hfl as [_ Hdis].
      cbn [pfresh] in Hpb. apply andb_prop in Hpb as [Hpv Hpb]. apply negb_memN_notin in Hpv. rewrite ax_subst_is_arn, pfresh_arn in Hpb.
      destruct (vrels_length _ _ _ _ _ _ Hvs) as [_ Hlfs].
      destruct (bind_total (vars env) fs) as [e1 Hb1].
      { unfold vars. rewrite map_length, Hlen. unfold shrink_context. rewrite map_length. lia. }
      eexists (tag, env, _), e1. split; [rewrite find_clause_arn, F1; reflexivity|]. split; [exact Hb1|]. cbn [cl_body snd].
      pose proof (inv_st _ _ _ _ _ Hinv) as Hst.
      eapply (crit_clause_sim j R sp (HFL j ltac:(lia)) G rho th st t_exp st1 A e ae a CCns T tag env _ fs e1 (BK (KDtor tag args))); eauto.
      - eapply erel_weaken; [exact He | lia | intros y Hy; occ | apply incl_refl].
      - eapply VR_dtor; eauto.
      - intros i Hi. split; [apply Hdis; rewrite ids_vars; exact Hi|]. apply in_map_iff in Hi as (y & <- & Hy). apply Hrng in Hy. lia.
      - intros Hin. apply Hpv. apply in_rev_append. now right.
      - intros Hin. apply Hpv. apply in_rev_append. left. rewrite ids_vars. exact Hin.
      - unfold idn. cbn [snd]. lia. }
    assert (He' : erel p q n (fun y => occurs y sc) (fun y => th (rho y)) (idn x :: A) (mkcb x CPrd (CDecl T) :: G)
                    ((x, BP pv) :: e) ((x, VClo T (arn_cls th clauses) ae) :: ae)).
    { eapply erel_push with (pi := fun y => th (rho y)) (need := fun y => occurs y (FsCut (FsMu c1 a sp t1) (CDecl T) (FsMu c2 x sc t2))).
      - eapply erel_weaken; [exact He | lia | auto | apply incl_refl].
      - exact Hpx.
      - intros b0 _ Hb. split; [occ | reflexivity].
      - rewrite (inv_self p _ _ _ _ _ Hinv Hux Hix). reflexivity.
      - exact Hclo. }
    destruct (IH n ltac:(lia) sc k lbl _ rho th st2 next st' _ _ _ (inv_push p _ _ _ _ _ CPrd (CDecl T) Hinv2 Hux Hix) Hcsc Hubc Hibc Hncc E3 Hpn Hlift He' _ _ Hrun Hg) as [m Hm].
    exists (S m). rewrite arn_create. cbn [exec_named ty_name]. exact Hm.
  - (* data: producer first; the consumer becomes the continuation *)
    destruct (find_decl data T) as [d|] eqn:Hdd; [|discriminate Hty].
    assert (Hco : is_codata codata (CDecl T) = false) by (eapply data_not_codata; eauto).
    rewrite Hco in Hsh, Hrun. rewrite (lookup_decl_data p _ _ Hdd) in Hsh. cbn [sbind] in Hsh.
    fold (xtor_list d) in Hsh. unfold shrink_identifier in Hsh. cbv beta iota zeta in Hsh.
    match type of Hsh with context [if ?c then _ else _] => set (cond := c) in Hsh end.
    destruct (if cond then _ else _) as [[t_exp st1]|] eqn:E1; [|discriminate Hsh]. cbn [sbind] in Hsh.
    destruct (critical_clauses codata x (shrink_ty (CDecl T)) t_exp (xtor_list d) st1) as [clauses st2] eqn:E2.
    destruct (shrink_stmt k _ (rn_stmt rho sp) st2) as [[next st3]|] eqn:E3; [|discriminate Hsh]. cbn [sbind] in Hsh. invsh Hsh.
    destruct (expand_sim (S n) IH k lbl cond rho sc st t_exp st1 E1 Hibc (inv_st _ _ _ _ _ Hinv)) as ((R & HR & HFL) & Hm1 & nd1 & Hl1).
    destruct (critical_clauses_mono _ _ _ _ _ _ _ _ E2) as [Hm2 Hl2].
    assert (Hinv2 : inv p G rho th st2) by (eapply inv_st_mono; [exact Hinv | lia]).
    destruct (shrink_mono p _ _ _ _ _ _ _ Hibp (inv_st _ _ _ _ _ Hinv2) E3) as [Hm3 (nd3 & Hl3)].
    assert (Hlift2 : lifted_in q st2) by (eapply lifted_in_mono; eauto).
    assert (Hlift1 : lifted_in q st1) by (intros d0 Hd0; apply Hlift2; rewrite Hl2; exact Hd0).
    rewrite pfresh_create in Hpf. apply andb_prop in Hpf as [Hpf Hpn]. apply andb_prop in Hpf as [Hpc Hpa]. apply negb_memN_notin in Hpa.
    cbn [CoreSem.interact_mu cont] in Hrun.
    set (kv := CoreSem.KMuT x (CoreSem.fs2c_stmt sc) e) in *.
    assert (Hclo : vrel p q n CCns (CDecl T) (BK kv) (VClo T (arn_cls th clauses) ae)).
    { apply VR_clo. apply cloR_intro; [exact Hco|]. intros j Hj tag fs sr (_ & d1 & sg & args & Hd1 & Hx & Hvs & ->).
      rewrite Hdd in Hd1. inv_keep Hd1. apply relsV_vrelsF in Hvs. unfold kv. cbn [CoreSem.interact_val].
      destruct (find_xtor_list _ _ _ Hx) as [Hfx HK].
      destruct (critical_clauses_find _ _ _ _ _ _ _ _ _ _ _ E2 Hfx) as (env & sta & stb & F1 & F2 & F3 & F4). cbn zeta in F1, F2. rewrite HK in F1, F2.
      apply fresh_env_shape in F3 as (Hlen & Hmab & _ & Hrng & Hnd).
      destruct (pfresh_cls_in _ _ _ _ _ Hpc F2) as [Hfl Hpb]. apply fresh_list_spec in Hfl as [_ Hdis].
      cbn [pfresh] in Hpb. apply andb_prop in Hpb as [Hpv Hpb]. apply negb_memN_notin in Hpv. rewrite ax_subst_is_arn, pfresh_arn in Hpb.
      destruct (vrels_length _ _ _ _ _ _ Hvs) as [_ Hlfs].
      destruct (bind_total (vars env) fs) as [e1 Hb1].
      { unfold vars. rewrite map_length, Hlen. unfold shrink_context. rewrite map_length. lia. }
      eexists (tag, env, _), e1. split; [rewrite find_clause_arn, F1; reflexivity|]. split; [exact Hb1|]. cbn [cl_body snd].
      pose proof (inv_st _ _ _ _ _ Hinv) as Hst.
      eapply (crit_clause_sim j R sc (HFL j ltac:(lia)) G rho th st t_exp st1 A e ae x CPrd T tag env _ fs e1 (BP (PCtor tag args))); eauto.
      - eapply erel_weaken; [exact He | lia | intros y Hy; occ | apply incl_refl].
      - eapply VR_ctor; eauto.
      - intros i Hi. split; [apply Hdis; rewrite ids_vars; exact Hi|]. apply in_map_iff in Hi as (y & <- & Hy). apply Hrng in Hy. lia.
      - intros Hin. apply Hpv. apply in_rev_append. now right.
      - intros Hin. apply Hpv. apply in_rev_append. left. rewrite ids_vars. exact Hin.
      - unfold idn. cbn [snd]. lia. }
    assert (He' : erel p q n (fun y => occurs y sp) (fun y => th (rho y)) (idn a :: A) (mkcb a CCns (CDecl T) :: G)
                    ((a, BK kv) :: e) ((a, VClo T (arn_cls th clauses) ae) :: ae)).
    { eapply erel_push with (pi := fun y => th (rho y)) (need := fun y => occurs y (FsCut (FsMu c1 a sp t1) (CDecl T) (FsMu c2 x sc t2))).
      - eapply erel_weaken; [exact He | lia | auto | apply incl_refl].
      - exact Hpa.
      - intros b0 _ Hb. split; [occ | reflexivity].
      - rewrite (inv_self p _ _ _ _ _ Hinv Hua Hia). reflexivity.
      - exact Hclo. }
    destruct (IH n ltac:(lia) sp k lbl _ rho th st2 next st' _ _ _ (inv_push p _ _ _ _ _ CCns (CDecl T) Hinv2 Hua Hia) Hcsp Hubp Hibp Hncp E3 Hpn Hlift He' _ _ Hrun Hg) as [m Hm].
    exists (S m). rewrite arn_create. cbn [exec_named ty_name]. exact Hm.
Qed.
End Crit.
