(* C08, forward simulation for HEAP statements WITHOUT the one-block restriction, part 1: the state relation between a
   configuration of the heap-instrumented linear machine (Sem/AxHeap.v) and a state of Sem/RVSem.v.  The chain version of
   Proof/RVHSimRel.v: the representation of values in heap words is the SHARED one of Proof/HRep.v (objects chained over
   several blocks: `wblocks` / `waddrs`), with JL := RV.jump_length (4 bytes per table entry) and INT := nothing recorded
   (as on x86-64: `LI` carries any value, the RISC-V arithmetic of Sem/RVSem.v wraps).
     hvrep   position i of the environment: an `ext i64` variable has its value in the SECOND register; every other
             variable has the block pointer of the machine's entry in the FIRST and the data word in the SECOND register;
     hrel    X2 / X3 = reuse list / deferred list of the abstract state, `abs_heap` = the abstract state up to zero
             padding (`heq`; RVHDefs.heq is convertible with the shared X86HeapDefs.heq). *)
From Coq Require Import List ZArith NArith String Bool Lia FMapPositive.
From SCC Require Import Base.Sexp Lang.AxSyn Sem.AxSem Sem.AxHeap Model.ParMoves Model.Backend Model.RV Sem.RVSem Sem.RVWf
     Generated.Constants Proof.RVSel Proof.SubstGraph Proof.SubstBackends Proof.RVSubst Proof.RVSimAddr Proof.RVSimRel
     Proof.RVHeapAbs Proof.RVHDefs Proof.RVHMem Proof.HRep.
From SCC Require Model.Heap Proof.HeapMore Proof.HeapTrace Proof.HeapRep Proof.HeapRepAlloc Proof.HeapRepLoad
     Proof.X86Mem Proof.X86HeapDefs Proof.X86HFrame Proof.RVHSimRel.
Import ListNotations.
Open Scope Z_scope.
Open Scope list_scope.

Notation P03 := RVHSimRel.P03.
Notation P03_P3 := RVHSimRel.P03_P3.
Notation P03_hrun := RVHSimRel.P03_hrun.
Notation P03_step := RVHSimRel.P03_step.
Notation P03_init := RVHSimRel.P03_init.
Notation P03_alloc_object := RVHSimRel.P03_alloc_object.
Notation P03_ext := RVHSimRel.P03_ext.

(* nothing is recorded about integers *)
Definition any_int (z : Z) : Prop := True.

Lemma obj_blocks_abs s : forall k p, Heap.obj_blocks k (abs_mem s) p = wblocks k (hword s) p.
Proof. induction k as [|k IH]; intros p; cbn [Heap.obj_blocks X86HeapDefs.wblocks]; [reflexivity|]. f_equal. apply IH. Qed.
Lemma heq_slots_agree F s hs : heq (abs_heap F s) hs -> slots_agree (Heap.m hs) (hword s).
Proof. intros H b Hb. exact (proj1 (heq_abs_ps F s hs b H Hb)). Qed.
(* the pointers the instrumented machine gives to the variables loaded from a represented object *)
Lemma load_ptrs_words F s hs lk fs q :
  heq (abs_heap F s) hs -> P03 hs -> fs <> [] ->
  HeapRep.rep_flds lk (Heap.m hs) fs q ->
  Forall is_blk (wblocks (Heap.nlinks (List.length fs)) (hword s) q) ->
  load_ptrs hs (List.length fs) q =
    map (hword s) (skipn (List.length (waddrs (Heap.nlinks (List.length fs)) (hword s) q) - List.length fs)
                         (waddrs (Heap.nlinks (List.length fs)) (hword s) q)).
Proof.
  intros HQ K NE RF FB. inversion RF as [|fs0 q0 j pl _ Hlk HL HF RS]; subst; [congruence|].
  pose proof (HeapRep.reps_length _ _ _ _ RS) as Lpl.
  unfold load_ptrs. rewrite <- Hlk in *.
  rewrite (X86HFrame.obj_fields_words hs (hword s) (heq_slots_agree F s hs HQ) K (lk q) q FB).
  - unfold Heap.lastn. rewrite map_length, <- skipn_map. reflexivity.
  - rewrite HF, app_length, repeat_length, Lpl. pose proof (X86HFrame.nlinks_bound (List.length fs)). rewrite <- Hlk in *.
    assert (0 < List.length fs)%nat by (destruct fs; [congruence|cbn; lia]). lia.
Qed.

Section HRel.
Variable types : list tydecl.
(* what the data word of a closure points to: (address, type name, clauses, captured context) *)
Variable CLO : Z -> ident -> list clause -> ctx -> Prop.
Notation xrep := (HRep.xrep types CLO jump_length any_int).
Notation xflds := (HRep.xflds types CLO jump_length any_int).
Notation xreps := (HRep.xreps types CLO jump_length any_int).

(* ---------- positions ---------- *)
Inductive hvrep (s : rstate) (i : nat) : binding -> value -> Z -> Prop :=
| hv_int b z q t :
    bchi b = Ext -> bty b = I64 -> rtpos Snd i = Ok t -> rget s t = Some z -> hvrep s i b (VInt z) q
| hv_ptr b v q a t1 t2 :
    bchi b <> Ext -> chi_of v = bchi b -> ty_of v = bty b ->
    rtpos Fst i = Ok t1 -> rtpos Snd i = Ok t2 -> rget s t1 = Some q -> rget s t2 = Some a ->
    xrep (hword s) v q a -> hvrep s i b v q.

Record hrel (c : ctx) (he : henv) (hs : Heap.st) (s : rstate) : Prop := mk_hrel {
  hr_heapreg : rget s HEAP = Some (Heap.heap hs);
  hr_freereg : rget s FREE = Some (Heap.free hs);
  hr_heq : heq (abs_heap (Heap.frontier hs) s) hs;
  hr_ids : env_ids (erase_env he) = ids c;
  hr_nodup : NoDup (ids c);
  hr_vals : forall i x v q, nth_error he i = Some (x, v, q) -> exists b, nth_error c i = Some b /\ hvrep s i b v q
}.

Lemma hrel_length c he hs s : hrel c he hs s -> List.length he = List.length c.
Proof.
  intros R. pose proof (hr_ids _ _ _ _ R) as H. apply (f_equal (@List.length N)) in H.
  unfold env_ids, ids, erase_env in H. now rewrite !map_length in H.
Qed.
(* every position has registers: at most 14 variables *)
Lemma hrel_small c he hs s : hrel c he hs s -> (List.length he <= 14)%nat.
Proof.
  intros R. destruct (Nat.le_gt_cases (List.length he) 14) as [L|L]; [exact L|exfalso].
  destruct (nth_error he 14) as [[[x v] q]|] eqn:E; [|apply nth_error_None in E; lia].
  destruct (hr_vals _ _ _ _ R 14%nat x v q E) as (b & _ & V).
  assert (T : exists t, rtpos Snd 14 = Ok t) by (destruct V; eauto).
  destruct T as (t & T). apply rtpos_val in T. lia.
Qed.

Lemma hvrep_keep s s' i b v q :
  (forall a, ~ is_blk a -> hword s' a = hword s a) ->
  (forall n t, allowed n b -> rtpos n i = Ok t -> rget s' t = rget s t) -> hvrep s i b v q -> hvrep s' i b v q.
Proof.
  intros HE K V. destruct V as [b z q t A B T L|b v q a t1 t2 A K1 K2 T1 T2 L1 L2 X].
  - eapply hv_int; eauto. rewrite (K Snd _ (or_introl eq_refl) T). exact L.
  - assert (AL : forall n, allowed n b) by (intros n; right; exact A).
    apply (hv_ptr s' i b v q a t1 t2); auto.
    + rewrite (K Fst t1 (AL Fst) T1). exact L1.
    + rewrite (K Snd t2 (AL Snd) T2). exact L2.
    + apply (HRep.xrep_ext types CLO jump_length any_int (hword s) (hword s')); [exact HE|exact X].
Qed.
Lemma hvrep_kind s i b b' v q : bchi b' = bchi b -> bty b' = bty b -> hvrep s i b v q -> hvrep s i b' v q.
Proof.
  intros K T V. destruct V as [b z q t A B T0 L|b v q a t1 t2 A K1 K2 T1 T2 L1 L2 X].
  - eapply hv_int; eauto; congruence.
  - eapply hv_ptr; eauto; congruence.
Qed.

Lemma heq_same_words F s s' hs :
  (forall a, hword s' a = hword s a) -> rget s' HEAP = rget s HEAP -> rget s' FREE = rget s FREE ->
  heq (abs_heap F s) hs -> heq (abs_heap F s') hs.
Proof.
  intros HE RH RF. apply heq_eqB. unfold abs_heap, reg_or0. rewrite RH, RF.
  split; [reflexivity|]. split; [reflexivity|]. split; [reflexivity|].
  intros x _. unfold abs_mem. cbn [Heap.m]. now rewrite !HE.
Qed.

(* a state change that keeps the heap words, the allocator registers and every live register keeps the relation *)
Lemma hrel_keep c he hs s s' :
  hrel c he hs s -> (forall a, hword s' a = hword s a) ->
  rget s' HEAP = rget s HEAP -> rget s' FREE = rget s FREE ->
  (forall i b n t, nth_error c i = Some b -> allowed n b -> rtpos n i = Ok t -> rget s' t = rget s t) ->
  hrel c he hs s'.
Proof.
  intros R HE RH RF K. destruct R as [Hr Fr HQ Ids ND Vals]. split; auto.
  - now rewrite RH.
  - now rewrite RF.
  - eapply heq_same_words; eauto.
  - intros i x v q Hn. destruct (Vals i x v q Hn) as (b & Hb & V). exists b. split; [exact Hb|].
    eapply hvrep_keep; [intros a _; apply HE| |exact V]. intros n t AL T. apply (K i b n t); auto.
Qed.

(* reading an integer operand *)
Lemma hlookup_nth (he : henv) x v :
  AxSem.lookup (erase_env he) x = Some v -> exists i y q, nth_error he i = Some (y, v, q) /\ idn y = x.
Proof.
  induction he as [|[[y w] q] he IH]; cbn; [discriminate|].
  destruct (N.eqb_spec (idn y) x) as [E|E].
  - intros H; inversion H; subst. exists O, y, q. cbn. auto.
  - intros H. destruct (IH H) as (i & y' & q' & Hn & Hy). exists (S i), y', q'. cbn. auto.
Qed.
Lemma henv_ctx_nth c (he : henv) i y v q :
  env_ids (erase_env he) = ids c -> nth_error he i = Some (y, v, q) -> exists b, nth_error c i = Some b /\ idn (bvar b) = idn y.
Proof.
  intros E H. apply (XR.env_ctx_nth c (erase_env he) i y v E).
  unfold erase_env. now rewrite (map_nth_error _ _ _ H).
Qed.
Lemma hrel_lookup c he hs s a x :
  hrel c he hs s -> lookup_int (erase_env he) a = Some x ->
  exists i b t, nth_error c i = Some b /\ idn (bvar b) = idn a /\ rtpos Snd i = Ok t /\ rget s t = Some x.
Proof.
  intros R H. unfold lookup_int, lookup_id in H.
  destruct (AxSem.lookup (erase_env he) (idn a)) as [[z| |]|] eqn:L; try discriminate.
  inversion H; subst z. destruct (hlookup_nth he (idn a) (VInt x) L) as (i & y & q & Hn & Hy).
  destruct (henv_ctx_nth c he i y _ q (hr_ids _ _ _ _ R) Hn) as (b & Hb & Eb).
  destruct (hr_vals _ _ _ _ R i y _ q Hn) as (b' & Hb' & V). assert (b' = b) by congruence. subst b'.
  inversion V; subst.
  - exists i, b, t. repeat split; auto. congruence.
  - match goal with K : chi_of (VInt x) = bchi b |- _ => cbn in K end. congruence.
Qed.
Lemma hrel_operand c he hs s a x ta :
  hrel c he hs s -> lookup_int (erase_env he) a = Some x -> rvt c (idn a) = Ok ta -> rget s ta = Some x.
Proof.
  intros R LA TA. destruct (hrel_lookup c he hs s a x R LA) as (i & bi & ti & Hi & Ei & Ti & Vi).
  rewrite <- Ei, (rvt_of_nth0 c i bi (hr_nodup _ _ _ _ R) Hi), Ti in TA. inversion TA; subst ti. exact Vi.
Qed.
Lemma hrel_operand_app c c' he hs s a x ta :
  hrel c he hs s -> NoDup (ids (c ++ c')) -> lookup_int (erase_env he) a = Some x -> rvt (c ++ c') (idn a) = Ok ta ->
  rget s ta = Some x.
Proof.
  intros R ND LA TA. destruct (hrel_lookup c he hs s a x R LA) as (i & bi & ti & Hi & Ei & Ti & Vi).
  rewrite <- Ei, (rvt_of_nth c c' i bi ND Hi), Ti in TA. inversion TA; subst ti. exact Vi.
Qed.

(* extending the environment by a new last variable whose registers have been written (heap words unchanged) *)
Lemma hrel_push c he hs s s' b v q :
  hrel c he hs s -> NoDup (ids (c ++ [b])) ->
  (forall a, hword s' a = hword s a) ->
  (forall r, (forall n, rtpos n (List.length c) = Ok r -> False) -> r <> TEMP -> rget s' r = rget s r) ->
  hvrep s' (List.length c) b v q ->
  hrel (c ++ [b]) (he ++ [(bvar b, v, q)]) hs s'.
Proof.
  intros R ND HE K V. pose proof (hrel_length _ _ _ _ R) as LEN. destruct R as [Hr Fr HQ Ids ND0 Vals].
  assert (KR : forall r, (r = HEAP \/ r = FREE) -> rget s' r = rget s r).
  { intros r Hr0. apply K.
    - intros n H. apply rtpos_regs in H. destruct Hr0; subst; tauto.
    - destruct Hr0; subst; discriminate. }
  split.
  - rewrite KR by auto. exact Hr.
  - rewrite KR by auto. exact Fr.
  - eapply heq_same_words; eauto.
  - unfold env_ids, ids, erase_env in *. rewrite !map_app. f_equal. exact Ids.
  - exact ND.
  - intros i x w p Hn. destruct (Nat.lt_ge_cases i (List.length he)) as [L|L].
    + rewrite nth_error_app1 in Hn by exact L. destruct (Vals i x w p Hn) as (b0 & Hb & V0).
      exists b0. split; [rewrite nth_error_app1 by lia; exact Hb|].
      eapply hvrep_keep; [intros a _; apply HE| |exact V0]. intros n t0 _ T0. apply K.
      * intros n' T'. destruct (tpos_inj rv_backend rv_backend_ok _ _ _ _ _ T0 T') as [_ E]. lia.
      * apply rtpos_regs in T0. tauto.
    + rewrite nth_error_app2 in Hn by exact L. destruct (i - List.length he)%nat as [|k] eqn:Kk; cbn in Hn; [|destruct k; discriminate].
      inversion Hn; subst. exists b. split.
      * rewrite nth_error_app2 by lia. replace (i - List.length c)%nat with O by lia. reflexivity.
      * replace i with (List.length c) by lia. exact V.
Qed.

(* dropping the last variable *)
Lemma hrel_prefix c0 b he0 en hs s : hrel (c0 ++ [b]) (he0 ++ [en]) hs s -> hrel c0 he0 hs s.
Proof.
  intros R. pose proof (hrel_length _ _ _ _ R) as LEN. rewrite !app_length in LEN. cbn [List.length] in LEN.
  destruct R as [Hr Fr HQ Ids ND Vals]. split; auto.
  - unfold env_ids, ids, erase_env in *. rewrite !map_app in Ids. cbn [map] in Ids. apply app_inj_tail in Ids. tauto.
  - unfold ids in *. rewrite map_app in ND. clear -ND. induction (map (fun b => idn (bvar b)) c0) as [|x l IH]; cbn in *; [constructor|].
    inversion ND; subst. constructor; auto. intros I. apply H1. apply in_app_iff. now left.
  - intros i x v q Hi. assert (Li : (i < List.length he0)%nat) by (apply nth_error_Some; congruence).
    destruct (Vals i x v q) as (b' & Hb' & V); [rewrite nth_error_app1 by exact Li; exact Hi|].
    exists b'. split; [|exact V]. rewrite nth_error_app1 in Hb' by lia. exact Hb'.
Qed.
End HRel.

Arguments hr_heapreg {types CLO c he hs s}.
Arguments hr_freereg {types CLO c he hs s}.
Arguments hr_heq {types CLO c he hs s}.
Arguments hr_ids {types CLO c he hs s}.
Arguments hr_nodup {types CLO c he hs s}.
Arguments hr_vals {types CLO c he hs s}.
Arguments hrel_length {types CLO c he hs s}.

