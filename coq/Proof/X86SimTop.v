(* C06, forward simulation of the x86-64 code generator, part 5: whole programs of the integer fragment.
   Layout of the code image (`mk_image` of preamble ++ setup ++ translate ++ cleanup: the definitions'
   labels, the branch labels and `cleanup` resolve to the code emitted for them, given the label
   uniqueness that `asm_wf` checks on the real output), the prologue (callee-saved registers pushed,
   arguments moved into the entry definition's registers), and the theorem
   `x86_codegen_simulates_int`. *)
From Coq Require Import List ZArith NArith String Bool Lia FMapPositive.
From SCC Require Import Base.Sexp Lang.AxSyn Sem.AxSem Model.ParMoves Model.Backend Model.X86 Sem.X86Sem Sem.X86Wf
     Model.Linearize Model.LinCheck Generated.Constants Proof.LinBasics
     Proof.X86State Proof.X86Sel Proof.X86Exec Proof.X86ParMoves Proof.SubstGraph Proof.X86Subst
     Proof.X86SimRel Proof.X86SimStmt Proof.X86SimPrint Proof.X86SimProg.
Import ListNotations.
Open Scope Z_scope.
Open Scope list_scope.
(* names that lived in this file before they moved to Proof/SimFrag.v (kept for qualified uses) *)
Notation NoDup_app_tail := SimFrag.NoDup_app_tail (only parsing).

(* ---------- the image built from an instruction list ---------- *)
Lemma build_code_below : forall cs i a im j, (j < i)%positive -> PM.find j (code (build cs i a im)) = PM.find j (code im).
Proof.
  induction cs as [|c r IH]; intros i a im j Hj; cbn [build code]; auto.
  rewrite IH by lia. cbn [code]. apply PM.gso. lia.
Qed.
Lemma build_code_at : forall cs i a im, code_at (build cs i a im) i cs.
Proof.
  induction cs as [|c r IH]; intros i a im n c0 Hn; [destruct n; discriminate|].
  destruct n as [|n]; cbn [nth_error padd] in *.
  - inversion Hn; subst. cbn [build]. rewrite build_code_below by lia. cbn [code]. apply PM.gss.
  - cbn [build]. eapply IH; eauto.
Qed.
Definition label_names (cs : list xcode) : list string :=
  flat_map (fun c => match c with LAB l => [l] | _ => [] end) cs.
Lemma build_labels_old : forall cs i a im l,
  ~ In l (label_names cs) -> find_label (labels (build cs i a im)) l = find_label (labels im) l.
Proof.
  induction cs as [|c r IH]; intros i a im l Hl; cbn [build labels]; auto.
  rewrite IH.
  - cbn [labels]. destruct c; auto. cbn [find_label]. destruct (String.eqb_spec l l0); auto.
    subst. exfalso. apply Hl. cbn. now left.
  - intro H. apply Hl. cbn [label_names flat_map]. apply in_app_iff. now right.
Qed.
Lemma In_label_names_nh l cs : is_hash_label l = false -> In l (label_names cs) -> In l (defined_labels cs).
Proof.
  intros NH. unfold label_names, defined_labels. rewrite !in_flat_map. intros (c & Hc & Hl). exists c. split; auto.
  destruct c; try (now destruct Hl). destruct Hl as [<-|[]]. rewrite NH. now left.
Qed.
Lemma build_labels_nh : forall cs i a im, NoDup (defined_labels cs) -> labels_at_nh (build cs i a im) i cs.
Proof.
  induction cs as [|c r IH]; intros i a im Hnd n l Hn NH; [destruct n; discriminate|].
  assert (Hnd' : NoDup (defined_labels r)).
  { cbn [defined_labels flat_map] in Hnd. apply NoDup_app_tail in Hnd. exact Hnd. }
  destruct n as [|n]; cbn [nth_error padd] in *.
  - inversion Hn; subst. cbn [build]. rewrite build_labels_old.
    + cbn [labels find_label]. now rewrite String.eqb_refl.
    + intros Hin. apply (In_label_names_nh l r NH) in Hin. cbn [defined_labels flat_map] in Hnd. rewrite NH in Hnd.
      cbn [app] in Hnd. inversion Hnd; auto.
  - cbn [build]. eapply IH; eauto.
Qed.
Lemma first_dup_NoDup l : first_dup l = None -> NoDup l.
Proof.
  induction l as [|x l IH]; cbn [first_dup]; intros H; [constructor|].
  destruct (mem_str x l) eqn:M; [discriminate|]. constructor; auto.
  intros Hin. unfold mem_str in M. assert (existsb (String.eqb x) l = true); [|congruence].
  apply existsb_exists. exists x. split; auto. apply String.eqb_refl.
Qed.
Lemma asm_wf_labels cs : asm_wf cs = None -> NoDup (defined_labels cs).
Proof. unfold asm_wf. destruct (first_dup (defined_labels cs)) eqn:E; [discriminate|]. intros _. now apply first_dup_NoDup. Qed.
Theorem mk_image_layout cs :
  asm_wf cs = None -> code_at (mk_image cs) 1%positive cs /\ labels_at_nh (mk_image cs) 1%positive cs.
Proof. intros H. split; [apply build_code_at|apply build_labels_nh, asm_wf_labels, H]. Qed.

(* ---------- where `translate` puts the definitions ---------- *)
Lemma translate_defs types : forall defs lc code lc',
  translate x86_backend types defs lc = Ok (code, lc') ->
  forall d, In d defs ->
  exists pre lcd cd lcd' post,
    code = pre ++ LAB (show_ident (dname d) +++ "_") :: cd ++ post /\
    xcs types (dbody d) (dctx d) lcd = Ok (cd, lcd').
Proof.
  induction defs as [|d0 r IH]; intros lc code lc' H d Hin; [destruct Hin|].
  cbn [translate] in H.
  destruct (xcs types (dbody d0) (dctx d0) lc) as [[c1 lc1]|] eqn:C0; cbn [rbind] in H; [|discriminate].
  destruct (translate x86_backend types r lc1) as [[c2 lc2]|] eqn:TR; cbn [rbind] in H; [|discriminate].
  cbn in H. inversion H; subst code lc'; clear H.
  destruct Hin as [<-|Hin].
  - exists [], lc, c1, lc1, c2. split; [reflexivity|exact C0].
  - destruct (IH lc1 c2 lc2 TR d Hin) as (pre & lcd & cd & lcd' & post & -> & CD).
    exists (LAB (show_ident (dname d0) +++ "_") :: c1 ++ pre), lcd, cd, lcd', post. split; [|exact CD].
    cbn [app]. f_equal. now rewrite <- app_assoc.
Qed.

(* ---------- the prologue ---------- *)
Definition sp0 : Z := STACK_TOP - 2104.

Lemma xtpos_reg i : (i < 6)%nat -> xtpos Snd i = Ok (XR (5 + 2 * N.of_nat i)%N).
Proof. intros H. destruct i as [|[|[|[|[|[|i]]]]]]; try lia; reflexivity. Qed.

Lemma prologue_ok im args su :
  setup (List.length args) = Ok su ->
  exists s, exec_straight im su (init_state args) = Some s /\
    frame_ok s sp0 /\ outer_ok s sp0 /\ out s = [] /\ (exists f, rget s FREE = Some f) /\
    (forall i, (i < List.length args)%nat -> rget s (5 + 2 * N.of_nat i)%N = Some (nth i args 0)).
Proof.
  intros SU.
  destruct args as [|a1 [|a2 [|a3 [|a4 [|a5 [|a6 rest]]]]]]; cbn [List.length] in SU.
  7:{ exfalso. unfold setup in SU. cbn [move_arguments Nat.ltb Nat.leb] in SU. discriminate. }
  all: vm_compute in SU; inversion SU; subst su; clear SU.
  all: eexists; split; [vm_compute; reflexivity|].
  all: split; [split; [reflexivity|unfold sp_ok, sp0, STACK_LIMIT, STACK_TOP; change SPILL_SPACE with 2048; repeat split; try reflexivity; lia]|].
  all: split; [unfold outer_ok, sp0; repeat split; reflexivity|].
  all: split; [reflexivity|].
  all: split; [eexists; reflexivity|].
  all: intros i Hi; cbn [List.length] in Hi; destruct i as [|[|[|[|[|i]]]]]; try lia; reflexivity.
Qed.

Lemma entry_rel CL c0 args e0 s :
  bind (vars c0) (map VInt args) = Some e0 -> NoDup (ids c0) -> ctx_int c0 = true -> (List.length args <= 5)%nat ->
  frame_ok s sp0 -> (exists f, rget s FREE = Some f) ->
  (forall i, (i < List.length args)%nat -> rget s (5 + 2 * N.of_nat i)%N = Some (nth i args 0)) ->
  rel CL c0 e0 s sp0.
Proof.
  intros BD ND CI LE F FR RG. split; auto.
  - unfold sp0, STACK_LIMIT, STACK_TOP. lia.
  - unfold env_ids. rewrite <- (map_map fst idn), (bind_ids _ _ _ BD). unfold vars, ids. now rewrite map_map.
  - intros i x v Hi. destruct (bind_nth _ _ _ _ _ _ BD Hi) as (Hx & Hv).
    rewrite nth_error_map in Hv. destruct (nth_error args i) as [a|] eqn:Ha; [|discriminate]. cbn in Hv. inversion Hv; subst v.
    unfold vars in Hx. rewrite nth_error_map in Hx. destruct (nth_error c0 i) as [b|] eqn:Hb; [|discriminate].
    assert (Li : (i < List.length args)%nat) by (apply nth_error_Some; congruence).
    destruct (ctx_int_nth c0 i b CI Hb) as (K & T).
    exists b. split; [reflexivity|].
    apply (vrep_int CL s sp0 i b a (XR (5 + 2 * N.of_nat i)%N) K T); [apply xtpos_reg; lia|].
    cbn [lget]. rewrite (RG i Li). f_equal. now apply nth_error_nth.
Qed.

(* ---------- whole programs ---------- *)
Lemma layout_at im cs a b c :
  code_at im 1%positive cs -> labels_at_nh im 1%positive cs -> cs = a ++ b ++ c ->
  code_at im (padd 1%positive (List.length a)) b /\ labels_at_nh im (padd 1%positive (List.length a)) b.
Proof.
  intros CA LA ->. apply code_at_app in CA as [_ CA]. apply code_at_app in CA as [CA _].
  apply labels_at_nh_app in LA as [_ LA]. apply labels_at_nh_app in LA as [LA _]. auto.
Qed.

Theorem x86_codegen_simulates_int_total p lc cs n lc' args fuel o :
  int_frag p = true -> plain_names p = true -> lin_check_prog p = true ->
  x86_compile p lc = Ok (cs, n, lc') -> asm_wf cs = None ->
  List.length args = n ->
  run_linear fuel p args = o -> snd o <> OOutOfFuel ->
  exists outer inner, fst (run_x86 outer inner cs args) = o.
Proof.
  intros INT PL LIN XC WF.
  unfold x86_compile, x86_compile_with in XC.
  destruct (compile x86_backend p lc) as [[[is n0] lc0]|] eqn:CP; cbn [rbind] in XC; [|discriminate].
  destruct (into_x86_64_routine is n0) as [r|] eqn:RT; cbn [rbind] in XC; [|discriminate].
  inversion XC; subst r n0 lc0; clear XC.
  unfold compile in CP. destruct (pdefs p) as [|d0 rest] eqn:PD; [discriminate|].
  destruct (translate x86_backend (ptypes p) (d0 :: rest) lc) as [[is' lc1]|] eqn:TR; cbn [rbind] in CP; [|discriminate].
  cbn in CP. inversion CP; subst is n lc'; clear CP.
  unfold into_x86_64_routine in RT. destruct (setup (List.length (dctx d0))) as [su|] eqn:SU; cbn [rbind] in RT; [|discriminate].
  inversion RT; subst cs; clear RT.
  intros NARGS RUN G.
  unfold run_linear in RUN. rewrite PD in RUN.
  assert (LEN : List.length args = List.length (dctx d0)) by exact NARGS.
  destruct (bind_total (vars (dctx d0)) (map VInt args)) as (e0 & EE); [unfold vars; rewrite !map_length; auto|].
  unfold entry_env in RUN. rewrite EE in RUN.
  assert (LE5 : (List.length args <= 5)%nat).
  { rewrite LEN. destruct (List.length (dctx d0)) as [|[|[|[|[|[|k]]]]]] eqn:K; try lia.
    exfalso. unfold setup in SU. cbn [move_arguments Nat.ltb Nat.leb] in SU. discriminate. }
  set (cs := preamble ++ su ++ is' ++ cleanup) in *.
  set (im := mk_image cs).
  destruct (mk_image_layout cs WF) as [CA LA]. fold im in CA, LA.
  (* static facts about every definition *)
  assert (LINd : forall d, In d (pdefs p) -> lin_check (sigs_of p) (dctx d) (dbody d) = true).
  { unfold lin_check_prog in LIN. rewrite forallb_forall in LIN. exact LIN. }
  assert (INTd : forall d, In d (pdefs p) -> def_int d = true).
  { unfold int_frag in INT. rewrite forallb_forall in INT. exact INT. }
  assert (DEFS : forall d, In d (pdefs p) ->
    exists pcd lcd cd lcd', find_label (labels im) (show_ident (dname d) +++ "_") = Some pcd /\
      PM.find pcd (code im) = Some (LAB (show_ident (dname d) +++ "_")) /\
      xcs (ptypes p) (dbody d) (dctx d) lcd = Ok (cd, lcd') /\
      code_at im (Pos.succ pcd) cd /\ labels_at_nh im (Pos.succ pcd) cd).
  { intros d Hd. rewrite PD in Hd.
    destruct (translate_defs (ptypes p) _ _ _ _ TR d Hd) as (pre & lcd & cd & lcd' & post & EQ & CD).
    assert (NH : is_hash_label (show_ident (dname d) +++ "_") = false).
    { unfold plain_names in PL. rewrite forallb_forall in PL. rewrite <- PD in Hd. specialize (PL d Hd).
      destruct (is_hash_label (show_ident (dname d) +++ "_")) eqn:E; auto.
      apply is_hash_app_ in E. rewrite E in PL. discriminate. }
    destruct (layout_at im cs (preamble ++ su ++ pre) (LAB (show_ident (dname d) +++ "_") :: cd) (post ++ cleanup) CA LA)
      as [CAd LAd].
    { unfold cs. rewrite EQ. rewrite <- !app_assoc. cbn [app]. rewrite <- !app_assoc. reflexivity. }
    exists (padd 1%positive (List.length (preamble ++ su ++ pre))), lcd, cd, lcd'.
    apply code_at_cons in CAd as [C0 C1].
    change (LAB (show_ident (dname d) +++ "_") :: cd) with ([LAB (show_ident (dname d) +++ "_")] ++ cd) in LAd.
    pose proof LAd as LAd'. apply labels_at_nh_app in LAd' as [_ L1]. cbn [List.length padd] in L1.
    split; [exact (LAd O _ eq_refl NH)|]. split; [exact C0|]. split; [exact CD|]. split; [exact C1|exact L1]. }
  assert (CLEAN : exists pcc, find_label (labels im) "cleanup" = Some pcc /\ code_at im pcc cleanup).
  { destruct (layout_at im cs (preamble ++ su ++ is') cleanup [] CA LA) as [CAc LAc].
    { unfold cs. rewrite app_nil_r, <- !app_assoc. reflexivity. }
    exists (padd 1%positive (List.length (preamble ++ su ++ is'))). split; [|exact CAc].
    exact (LAc O "cleanup"%string eq_refl eq_refl). }
  (* the run *)
  assert (FIN : finishes im 6%positive (init_state args) o).
  { destruct (layout_at im cs [NOEXECSTACK; TEXT; EXTERN "print_i64"; EXTERN "println_i64"; GLOBAL "asm_main"]
                [LAB "asm_main"] (su ++ is' ++ cleanup) CA LA eq_refl) as [CA0 _].
    destruct (layout_at im cs preamble su (is' ++ cleanup) CA LA eq_refl) as [CA1 _].
    cbn [List.length padd preamble] in CA0, CA1.
    rewrite <- LEN in SU. destruct (prologue_ok im args su SU) as (s1 & E1 & F1 & OK1 & O1 & FR1 & RG1).
    (* the entry definition follows the prologue *)
    cbn [translate] in TR.
    destruct (xcs (ptypes p) (dbody d0) (dctx d0) lc) as [[c0 lc0]|] eqn:C0; cbn [rbind] in TR; [|discriminate].
    destruct (translate x86_backend (ptypes p) rest lc0) as [[c2 lc2]|] eqn:TR2; cbn [rbind] in TR; [|discriminate].
    cbn in TR. inversion TR; subst is' lc1; clear TR.
    destruct (layout_at im cs (preamble ++ su) (LAB (show_ident (dname d0) +++ "_") :: c0) (c2 ++ cleanup) CA LA) as [CAe LAe].
    { unfold cs. rewrite <- !app_assoc. cbn [app]. rewrite <- !app_assoc. reflexivity. }
    apply code_at_cons in CAe as [CL CAe].
    change (LAB (show_ident (dname d0) +++ "_") :: c0) with ([LAB (show_ident (dname d0) +++ "_")] ++ c0) in LAe.
    apply labels_at_nh_app in LAe as [_ LAe]. cbn [List.length padd] in LAe.
    assert (D0 : In d0 (pdefs p)) by (rewrite PD; now left).
    rewrite app_length in CL. cbn [List.length preamble] in CL. rewrite padd_add in CL. cbn [padd] in CL.
    eapply exec_to_finishes.
    { eapply exec_next; [apply (CA0 O _ eq_refl)|reflexivity|].
      eapply exec_to_trans; [apply (exec_straight_exec_to im su _ _ s1 CA1 E1)|].
      eapply exec_next; [exact CL|reflexivity|apply exec_refl]. }
    subst o.
    specialize (INTd d0 D0). unfold def_int in INTd. apply andb_true_iff in INTd as [I1 I2].
    assert (R0 : rel (fun _ _ _ => False) (dctx d0) e0 s1 sp0).
    { eapply entry_rel; eauto. eapply lin_nodup. exact (LINd d0 D0). }
    rewrite app_length in CAe, LAe. cbn [List.length preamble] in CAe, LAe. rewrite padd_add in CAe, LAe. cbn [padd] in CAe, LAe.
    eapply (sim_exec im p sp0 (fun _ _ _ => False) DEFS CLEAN) with (c := dctx d0) (lc := lc); eauto.
      intros d Hd. unfold int_frag in INT. rewrite forallb_forall in INT. exact (INT d Hd). }
  destruct (finishes_run im _ _ _ FIN) as (outer & inner & RN).
  exists outer, inner. unfold run_x86. cbv zeta. change (mk_image _) with im.
  assert (AM : find_label (labels im) "asm_main" = Some 6%positive).
  { exact (LA 5%nat "asm_main"%string eq_refl eq_refl). }
  rewrite AM. destruct (Nat.ltb_spec 5 (List.length args)); [lia|]. exact RN.
Qed.

(* the same for runs that end with a result or an undefined operation (then the argument count is right) *)
Theorem x86_codegen_simulates_int p lc cs n lc' args fuel o :
  int_frag p = true -> plain_names p = true -> lin_check_prog p = true ->
  x86_compile p lc = Ok (cs, n, lc') -> asm_wf cs = None ->
  run_linear fuel p args = o -> good o ->
  exists outer inner, fst (run_x86 outer inner cs args) = o.
Proof.
  intros INT PL LIN XC WF RUN G.
  eapply x86_codegen_simulates_int_total; eauto; [|apply good_not_oof; exact G].
  unfold x86_compile, x86_compile_with in XC.
  destruct (compile x86_backend p lc) as [[[is n0] lc0]|] eqn:CP; cbn [rbind] in XC; [|discriminate].
  destruct (into_x86_64_routine is n0) as [r|] eqn:RT; cbn [rbind] in XC; [|discriminate].
  inversion XC; subst r n0 lc0; clear XC.
  unfold compile in CP. unfold run_linear in RUN. destruct (pdefs p) as [|d0 rest] eqn:PD; [discriminate|].
  destruct (translate x86_backend (ptypes p) (d0 :: rest) lc) as [[is' lc1]|] eqn:TR; cbn [rbind] in CP; [|discriminate].
  cbn in CP. inversion CP; subst is n lc'; clear CP.
  destruct (entry_env d0 args) as [e0|] eqn:EE; [|subst o; exfalso; destruct G as [(z & H)|(z & H)]; discriminate].
  unfold entry_env in EE. apply bind_length in EE. unfold vars in EE. rewrite !map_length in EE. auto.
Qed.

Corollary x86_codegen_correct_int p lc cs n lc' args fuel o :
  int_frag p = true -> plain_names p = true -> lin_check_prog p = true -> asm_wf cs = None ->
  x86_compile p lc = Ok (cs, n, lc') ->
  run_linear fuel p args = o -> defined o = true ->
  exists outer inner, fst (run_x86 outer inner cs args) = o.
Proof.
  intros I P L W X R D. eapply x86_codegen_simulates_int; eauto.
  left. unfold defined in D. destruct (snd o); try discriminate. eauto.
Qed.
