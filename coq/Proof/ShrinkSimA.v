(* Proof/ShrinkSimA.v (C04, fragment 2) - cases of the simulation lemma: exit, print, ifc,
   literal / operation against mu~ and against a covariable (integer continuations). *)
From Coq Require Import List ZArith NArith String Bool Lia.
From SCC Require Import Base.Sexp Lang.SynUtil Lang.CoreSyn Lang.AxSyn Sem.AxSem Sem.FsCheck Model.Shrink
     Proof.ShrinkProof Proof.ShrinkSem Proof.ShrinkRn Proof.ShrinkRel Proof.ShrinkArgs Proof.ShrinkSimBase.
From SCC Require Sem.CoreSem.
Import ListNotations.
Open Scope list_scope.

Section CasesA.
Variable p : fsprog.
Variable q : prog.
Notation P := (CoreSem.fs2c_prog p).
Notation data := (fspdata p).
Notation codata := (fspcodata p).
Notation defs := (fspdefs p).
Notation m0 := (fspmax p).
Notation D := (data ++ [cont_int]).
Definition IHn (n : nat) : Prop := forall n', n' < n -> FLn p q n'.

Ltac start :=
  unfold FLs; intros k lbl G rho th st t st' A e ae Hinv Hck Hub Hib Hnc Hsh Hpf Hlift He out r Hrun Hg;
  destruct k as [|k]; [discriminate Hsh|]; rewrite shrink_stmt_S in Hsh.
Ltac invsh Hsh := match goal with Hrun : _ = ?r, Hg : good ?r |- _ => revert Hrun Hg; inv Hsh; intros Hrun Hg end.
Ltac weaken He := eapply erel_weaken; [exact He | lia | intros ? ?; cbn [occurs occ_term]; tauto | apply incl_refl].

Lemma fl_exit : forall n, IHn n -> forall v, FLs p q n (FsExit v).
Proof.
  intros n IH v. start. cbn [rn_stmt shrink_step] in Hsh; unfold shrink_identifier in Hsh. invsh Hsh.
  cbn [CoreSem.fs2c_stmt] in Hrun. cbn [check_stmt] in Hck.
  core_step Hrun Hg n. apply arg_int_step in Hrun as (n1 & pv & -> & Hl & Hrun); [|exact Hg].
  destruct (erel_int p q _ _ _ _ _ _ _ _ _ He (inv_nd _ _ _ _ _ Hinv) Hck eq_refl Hl) as (z & Epv & Hla); injection Epv as ->.
  core_step Hrun Hg n1. exists 1. cbn [arn exec_named]. rewrite Hla. exact Hrun.
Qed.

Lemma fl_print : forall n, IHn n -> forall nl a nx, FLs p q n (FsPrint nl a nx).
Proof.
  intros n IH nl a nx. start. cbn [rn_stmt shrink_step] in Hsh; unfold shrink_identifier in Hsh.
  destruct (shrink_stmt k _ (rn_stmt rho nx) st) as [[t1 st1]|] eqn:E1; [|discriminate Hsh]. cbn [sbind] in Hsh. invsh Hsh.
  rewrite check_stmt_print_eq in Hck. apply seq_none in Hck as [Hca Hck].
  rewrite ib_stmt_print in Hib. apply andb_prop in Hib as [_ Hib]. cbn [ub_stmt] in Hub. cbn [pfresh] in Hpf.
  cbn [CoreSem.fs2c_stmt] in Hrun.
  core_step Hrun Hg n. apply arg_int_step in Hrun as (n1 & pv & -> & Hl & Hrun); [|exact Hg].
  destruct (erel_int p q _ _ _ _ _ _ _ _ _ He (inv_nd _ _ _ _ _ Hinv) Hca (or_introl eq_refl) Hl) as (z & Epv & Hla); injection Epv as ->.
  core_step Hrun Hg n1. cbn [cont] in Hrun.
  destruct (IH n1 ltac:(lia) nx k lbl G rho th st t1 st' A e ae Hinv Hck Hub Hib (nc_print _ _ _ _ Hnc) E1 Hpf Hlift ltac:(weaken He) _ _ Hrun Hg) as [m Hm].
  exists (S m). cbn [arn exec_named]. rewrite Hla. exact Hm.
Qed.

Lemma fl_ifc : forall n, IHn n -> forall so a b t1 t2, FLs p q n (FsIfC so a b t1 t2).
Proof.
  intros n IH so a b s1 s2. start. cbn [rn_stmt shrink_step] in Hsh; unfold shrink_identifier in Hsh.
  destruct (shrink_stmt k _ (rn_stmt rho s1) st) as [[u1 st1]|] eqn:E1; [|discriminate Hsh]. cbn [sbind] in Hsh.
  destruct (shrink_stmt k _ (rn_stmt rho s2) st1) as [[u2 st2]|] eqn:E2; [|discriminate Hsh]. cbn [sbind] in Hsh. invsh Hsh.
  rewrite check_stmt_ifc_eq in Hck. apply seq_none in Hck as [Hca Hck]. apply seq_none in Hck as [Hcb Hck].
  apply seq_none in Hck as [Hc1 Hc2].
  rewrite ib_stmt_ifc in Hib. apply andb_prop in Hib as [Hib Hib2]. apply andb_prop in Hib as [_ Hib1].
  cbn [ub_stmt] in Hub. apply andb_prop in Hub as [Hub1 Hub2].
  cbn [pfresh] in Hpf. apply andb_prop in Hpf as [Hpf1 Hpf2].
  destruct (shrink_mono p _ _ _ _ _ _ _ Hib1 (inv_st _ _ _ _ _ Hinv) E1) as [Hm1 (nd1 & Hl1)].
  assert (Hinv1 : inv p G rho th st1) by (eapply inv_st_mono; eauto).
  destruct (shrink_mono p _ _ _ _ _ _ _ Hib2 (inv_st _ _ _ _ _ Hinv1) E2) as [Hm2 (nd2 & Hl2)].
  assert (Hlift1 : lifted_in q st1) by (eapply lifted_in_mono; eauto).
  cbn [CoreSem.fs2c_stmt] in Hrun.
  core_step Hrun Hg n. apply arg_int_step in Hrun as (n1 & pv & -> & Hl & Hrun); [|exact Hg].
  destruct (erel_int p q _ _ _ _ _ _ _ _ _ He (inv_nd _ _ _ _ _ Hinv) Hca (or_introl eq_refl) Hl) as (x & Epv & Hla); injection Epv as ->.
  core_step Hrun Hg n1. destruct b as [b|]; cbn [option_map] in Hrun.
  - apply arg_int_step in Hrun as (n2 & pv & -> & Hl2' & Hrun); [|exact Hg].
    destruct (erel_int p q _ _ _ _ _ _ _ _ _ He (inv_nd _ _ _ _ _ Hinv) Hcb (or_intror (or_introl eq_refl)) Hl2') as (y & Epv & Hlb); injection Epv as ->.
    core_step Hrun Hg n2. rewrite ax_ifsort_shrink in Hrun.
    destruct (eval_cmp (shrink_ifsort so) x y) eqn:Ecmp.
    + destruct (IH n2 ltac:(lia) s1 k lbl G rho th st u1 st1 A e ae Hinv Hc1 Hub1 Hib1 (proj1 (nc_ifc _ _ _ _ _ _ Hnc)) E1 Hpf1 Hlift1 ltac:(weaken He) _ _ Hrun Hg) as [m Hm].
      exists (S m). cbn [arn exec_named option_map]. rewrite Hla, Hlb, Ecmp. exact Hm.
    + destruct (IH n2 ltac:(lia) s2 k lbl G rho th st1 u2 st' A e ae Hinv1 Hc2 Hub2 Hib2 (proj2 (nc_ifc _ _ _ _ _ _ Hnc)) E2 Hpf2 Hlift ltac:(weaken He) _ _ Hrun Hg) as [m Hm].
      exists (S m). cbn [arn exec_named option_map]. rewrite Hla, Hlb, Ecmp. exact Hm.
  - rewrite ax_ifsort_shrink in Hrun.
    destruct (eval_cmp (shrink_ifsort so) x 0) eqn:Ecmp.
    + destruct (IH n1 ltac:(lia) s1 k lbl G rho th st u1 st1 A e ae Hinv Hc1 Hub1 Hib1 (proj1 (nc_ifc _ _ _ _ _ _ Hnc)) E1 Hpf1 Hlift1 ltac:(weaken He) _ _ Hrun Hg) as [m Hm].
      exists (S m). cbn [arn exec_named option_map]. rewrite Hla, Ecmp. exact Hm.
    + destruct (IH n1 ltac:(lia) s2 k lbl G rho th st1 u2 st' A e ae Hinv1 Hc2 Hub2 Hib2 (proj2 (nc_ifc _ _ _ _ _ _ Hnc)) E2 Hpf2 Hlift ltac:(weaken He) _ _ Hrun Hg) as [m Hm].
      exists (S m). cbn [arn exec_named option_map]. rewrite Hla, Ecmp. exact Hm.
Qed.

Lemma negb_mem_notin : forall x l, negb (mem_id x l) = true -> ~ In x l.
Proof. intros x l H Hin. apply mem_id_in in Hin. rewrite Hin in H. discriminate. Qed.
Lemma negb_memN_notin : forall x l, negb (memN x l) = true -> ~ In x l.
Proof. intros x l H Hin. apply memN_in in Hin. rewrite Hin in H. discriminate. Qed.
Lemma id_le_le : forall m x, id_le m x = true -> (cid_id x <= m)%N.
Proof. intros m x H. now apply N.leb_le. Qed.

(* <n | mu~ x.s> *)
Lemma fl_lit_mu : forall n, IHn n -> forall z ty c x s' t', FLs p q n (FsCut (FsLit z) ty (FsMu c x s' t')).
Proof.
  intros n IH z ty c x s' t'. start. cbn [rn_stmt rn_term shrink_step shrink_cut] in Hsh; unfold shrink_identifier in Hsh.
  destruct (shrink_stmt k _ (rn_stmt rho s') st) as [[t1 st1]|] eqn:E1; [|discriminate Hsh]. cbn [sbind] in Hsh. invsh Hsh.
  rewrite check_stmt_cut_eq in Hck. apply seq_none in Hck as [Hty Hck]. apply seq_none in Hck as [Hcp Hck].
  cbn [check_term] in Hcp. apply seq_none in Hcp as [_ Hcp]. apply fensure_none in Hcp. apply cty_eqb_eq_i64 in Hcp. subst ty.
  rewrite check_term_mu_eq in Hck. apply seq_none in Hck as [_ Hck]. apply seq_none in Hck as [_ Hck]. cbn [opp] in Hck.
  rewrite ib_stmt_cut, ib_term_mu in Hib. apply andb_prop in Hib as [_ Hib]. apply andb_prop in Hib as [Hix Hib].
  apply id_le_le in Hix.
  cbn [ub_stmt ub_term andb] in Hub. apply andb_prop in Hub as [Hux Hub]. apply negb_mem_notin in Hux.
  cbn [pfresh] in Hpf. apply andb_prop in Hpf as [Hpx Hpf]. apply negb_memN_notin in Hpx.
  cbn [CoreSem.fs2c_stmt CoreSem.fs2c_term] in Hrun. core_step Hrun Hg n.
  cbn [CoreSem.khead CoreSem.cut_with_k CoreSem.interact_val cont] in Hrun.
  assert (He' : erel p q n (fun y => occurs y s') (fun y => th (rho y)) (idn x :: A) (mkcb x CPrd CI64 :: G)
                  ((x, BP (PInt z)) :: e) ((x, VInt z) :: ae)).
  { eapply erel_push with (pi := fun y => th (rho y)) (need := fun y => occurs y (FsCut (FsLit z) CI64 (FsMu c x s' t'))).
    - eapply erel_weaken; [exact He | lia | auto | apply incl_refl].
    - exact Hpx.
    - intros b _ Hb. split; [cbn [occurs occ_term]; tauto | reflexivity].
    - rewrite (inv_self p _ _ _ _ _ Hinv Hux Hix). reflexivity.
    - constructor. }
  destruct (IH n ltac:(lia) s' k lbl _ rho th st t1 st' _ _ _ (inv_push p _ _ _ _ _ CPrd CI64 Hinv Hux Hix) Hck Hub Hib (nc_cut_mu_r _ _ _ _ _ _ _ Hnc) E1 Hpf Hlift He' _ _ Hrun Hg) as [m Hm].
  exists (S m). cbn [arn exec_named]. exact Hm.
Qed.

(* <a op b | mu~ x.s> *)
Lemma fl_op_mu : forall n, IHn n -> forall a o b ty c x s' t', FLs p q n (FsCut (FsOp a o b) ty (FsMu c x s' t')).
Proof.
  intros n IH a o b ty c x s' t'. start. cbn [rn_stmt rn_term shrink_step shrink_cut] in Hsh; unfold shrink_identifier in Hsh.
  destruct (shrink_stmt k _ (rn_stmt rho s') st) as [[t1 st1]|] eqn:E1; [|discriminate Hsh]. cbn [sbind] in Hsh. invsh Hsh.
  rewrite check_stmt_cut_eq in Hck. apply seq_none in Hck as [Hty Hck]. apply seq_none in Hck as [Hcp Hck].
  cbn [check_term] in Hcp. apply seq_none in Hcp as [_ Hcp]. apply seq_none in Hcp as [Hi Hcp].
  apply fensure_none in Hi. apply cty_eqb_eq_i64 in Hi. subst ty. apply seq_none in Hcp as [Hca Hcb].
  rewrite check_term_mu_eq in Hck. apply seq_none in Hck as [_ Hck]. apply seq_none in Hck as [_ Hck]. cbn [opp] in Hck.
  rewrite ib_stmt_cut, ib_term_mu in Hib. apply andb_prop in Hib as [_ Hib]. apply andb_prop in Hib as [Hix Hib].
  apply id_le_le in Hix.
  cbn [ub_stmt ub_term andb] in Hub. apply andb_prop in Hub as [Hux Hub]. apply negb_mem_notin in Hux.
  cbn [pfresh] in Hpf. apply andb_prop in Hpf as [Hpx Hpf]. apply negb_memN_notin in Hpx.
  cbn [CoreSem.fs2c_stmt CoreSem.fs2c_term] in Hrun. core_step Hrun Hg n.
  apply arg_int_step in Hrun as (n1 & pv & -> & Hl & Hrun); [|exact Hg].
  destruct (erel_int p q _ _ _ _ _ _ _ _ _ He (inv_nd _ _ _ _ _ Hinv) Hca ltac:(cbn [occurs occ_term]; tauto) Hl) as (za & Epv & Hla); injection Epv as ->.
  core_step Hrun Hg n1.
  apply arg_int_step in Hrun as (n2 & pv & -> & Hl2 & Hrun); [|exact Hg].
  destruct (erel_int p q _ _ _ _ _ _ _ _ _ He (inv_nd _ _ _ _ _ Hinv) Hcb ltac:(cbn [occurs occ_term]; tauto) Hl2) as (zb & Epv & Hlb); injection Epv as ->.
  core_step Hrun Hg n2. rewrite ax_binop_shrink in Hrun.
  destruct (eval_op (shrink_binop o) za zb) as [z|why] eqn:Hop.
  - core_step Hrun Hg n2.
    cbn [CoreSem.khead CoreSem.cut_with_k CoreSem.interact_val cont] in Hrun.
    assert (He' : erel p q n2 (fun y => occurs y s') (fun y => th (rho y)) (idn x :: A) (mkcb x CPrd CI64 :: G)
                    ((x, BP (PInt z)) :: e) ((x, VInt z) :: ae)).
    { eapply erel_push with (pi := fun y => th (rho y)) (need := fun y => occurs y (FsCut (FsOp a o b) CI64 (FsMu c x s' t'))).
      - eapply erel_weaken; [exact He | lia | auto | apply incl_refl].
      - exact Hpx.
      - intros b0 _ Hb. split; [cbn [occurs occ_term]; tauto | reflexivity].
      - rewrite (inv_self p _ _ _ _ _ Hinv Hux Hix). reflexivity.
      - constructor. }
    destruct (IH n2 ltac:(lia) s' k lbl _ rho th st t1 st' _ _ _ (inv_push p _ _ _ _ _ CPrd CI64 Hinv Hux Hix) Hck Hub Hib (nc_cut_mu_r _ _ _ _ _ _ _ Hnc) E1 Hpf Hlift He' _ _ Hrun Hg) as [m Hm].
    exists (S m). cbn [arn exec_named]. rewrite Hla, Hlb, Hop. exact Hm.
  - cbn [cont] in Hrun. exists 1. cbn [arn exec_named]. rewrite Hla, Hlb, Hop. exact Hrun.
Qed.

(* the covariable of an integer continuation: a closure that understands Ret *)
Lemma erel_cont : forall n (need : cident -> Prop) pi A G e ae b cv,
  erel p q n need pi A G e ae -> NoDup (cids G) -> fbound G b CCns CI64 = None -> need b ->
  CoreSem.clookup e b = Some cv ->
  In (idn (pi b)) A /\
  exists kv tn cls ce, cv = BK kv /\ lookup ae (idn (pi b)) = Some (VClo tn cls ce) /\ cloR p q n CCns CI64 cv (VClo tn cls ce).
Proof.
  intros n need pi A G e ae b cv He Hnd Hb Hn Hl.
  destruct (erel_var p q _ _ _ _ _ _ _ _ _ _ _ He Hnd Hb Hn Hl) as (Hin & av & Hla & Hv). split; [exact Hin|].
  destruct (vrel_kind_bk _ _ _ _ _ _ Hv) as [kv ->].
  destruct (vrel_clo_inv _ _ _ _ _ _ _ Hv I) as (tn & cls & ce & -> & Hc). eauto 10.
Qed.

(* <n | a> : literal n x'; invoke a Ret(x') *)
Lemma fl_lit_var : forall n, IHn n -> forall z ty c b t', FLs p q n (FsCut (FsLit z) ty (FsXVar c b t')).
Proof.
  intros n IH z ty c b t'. start. cbn [rn_stmt rn_term shrink_step shrink_cut] in Hsh; unfold shrink_identifier, fresh_var, fresh_identifier in Hsh.
  invsh Hsh.
  rewrite check_stmt_cut_eq in Hck. apply seq_none in Hck as [Hty Hck]. apply seq_none in Hck as [Hcp Hck].
  cbn [check_term] in Hcp. apply seq_none in Hcp as [_ Hcp]. apply fensure_none in Hcp. apply cty_eqb_eq_i64 in Hcp. subst ty.
  cbn [check_term] in Hck. apply seq_none in Hck as [_ Hck]. apply seq_none in Hck as [_ Hck].
  cbn [pfresh] in Hpf. apply andb_prop in Hpf as [Hpx _]. apply negb_memN_notin in Hpx.
  cbn [CoreSem.fs2c_stmt CoreSem.fs2c_term] in Hrun. core_step Hrun Hg n. cbn [CoreSem.khead] in Hrun.
  destruct (CoreSem.clookup e b) as [cv|] eqn:Hl; [|cbn [cont] in Hrun; exfalso; eapply cont_stuck; eauto].
  destruct (erel_cont _ _ _ _ _ _ _ _ _ He (inv_nd _ _ _ _ _ Hinv) Hck ltac:(cbn [occurs occ_term]; tauto) Hl)
    as (Hin & kv & tn & cls & ce & -> & Hla & Hc).
  cbn [CoreSem.cut_with_k] in Hrun.
  destruct (invoke_clo p q n CCns CI64 (BK kv) tn cls ce ret_name [VInt z] (CoreSem.interact_val (PInt z) kv) out r Hc) as (cl & e1 & m & Hf & Hb & Hm); [| exact Hrun | exact Hg |].
  { exists z. auto. }
  set (x' := ("x"%string, N.succ (s_max st))) in *.
  assert (Hx' : th x' = x').
  { apply (inv_th _ _ _ _ _ Hinv). intros Hin'. apply (inv_le _ _ _ _ _ Hinv) in Hin'. pose proof (inv_st _ _ _ _ _ Hinv). cbn [cid_id snd x'] in Hin'. lia. }
  exists (S (S m)). cbn [arn exec_named invoke_ret]. unfold arn_ctx, arn_binding, vars, shrink_identifier. cbn [map bvar bchi bty]. rewrite Hx'.
  unfold lookup_id. cbn [lookup].
  destruct (N.eqb (idn x') (idn (th (rho b)))) eqn:E; [apply N.eqb_eq in E; exfalso; apply Hpx; rewrite E; exact Hin|].
  rewrite Hla, Hf. cbn [lookups]. unfold lookup_id. cbn [lookup]. unfold vars in Hb. rewrite N.eqb_refl, Hb. exact Hm.
Qed.

(* <a op b | k> : op a o b x'; invoke k Ret(x') *)
Lemma fl_op_var : forall n, IHn n -> forall a o b ty c v t', FLs p q n (FsCut (FsOp a o b) ty (FsXVar c v t')).
Proof.
  intros n IH a o b ty c v t'. start. cbn [rn_stmt rn_term shrink_step shrink_cut] in Hsh; unfold shrink_identifier, fresh_var, fresh_identifier in Hsh.
  invsh Hsh.
  rewrite check_stmt_cut_eq in Hck. apply seq_none in Hck as [Hty Hck]. apply seq_none in Hck as [Hcp Hck].
  cbn [check_term] in Hcp. apply seq_none in Hcp as [_ Hcp]. apply seq_none in Hcp as [Hi Hcp].
  apply fensure_none in Hi. apply cty_eqb_eq_i64 in Hi. subst ty. apply seq_none in Hcp as [Hca Hcb].
  cbn [check_term] in Hck. apply seq_none in Hck as [_ Hck]. apply seq_none in Hck as [_ Hck].
  cbn [pfresh] in Hpf. apply andb_prop in Hpf as [Hpx _]. apply negb_memN_notin in Hpx.
  cbn [CoreSem.fs2c_stmt CoreSem.fs2c_term] in Hrun. core_step Hrun Hg n.
  apply arg_int_step in Hrun as (n1 & pv & -> & Hl & Hrun); [|exact Hg].
  destruct (erel_int p q _ _ _ _ _ _ _ _ _ He (inv_nd _ _ _ _ _ Hinv) Hca ltac:(cbn [occurs occ_term]; tauto) Hl) as (za & Epv & Hla); injection Epv as ->.
  core_step Hrun Hg n1.
  apply arg_int_step in Hrun as (n2 & pv & -> & Hl2 & Hrun); [|exact Hg].
  destruct (erel_int p q _ _ _ _ _ _ _ _ _ He (inv_nd _ _ _ _ _ Hinv) Hcb ltac:(cbn [occurs occ_term]; tauto) Hl2) as (zb & Epv & Hlb); injection Epv as ->.
  core_step Hrun Hg n2. rewrite ax_binop_shrink in Hrun.
  set (x' := ("x"%string, N.succ (s_max st))) in *.
  assert (Hx' : th x' = x').
  { apply (inv_th _ _ _ _ _ Hinv). intros Hin'. apply (inv_le _ _ _ _ _ Hinv) in Hin'. pose proof (inv_st _ _ _ _ _ Hinv). cbn [cid_id snd x'] in Hin'. lia. }
  destruct (eval_op (shrink_binop o) za zb) as [z|why] eqn:Hop.
  - core_step Hrun Hg n2. cbn [CoreSem.khead] in Hrun.
    destruct (CoreSem.clookup e v) as [cv|] eqn:Hlv; [|cbn [cont] in Hrun; exfalso; eapply cont_stuck; eauto].
    destruct (erel_cont _ _ _ _ _ _ _ _ _ He (inv_nd _ _ _ _ _ Hinv) Hck ltac:(cbn [occurs occ_term]; tauto) Hlv)
      as (Hin & kv & tn & cls & ce & -> & Hlav & Hc).
    eapply cloR_le with (k := S n2) in Hc; [|lia].
    destruct (invoke_clo p q n2 CCns CI64 (BK kv) tn cls ce ret_name [VInt z] (CoreSem.interact_val (PInt z) kv) out r Hc) as (cl & e1 & m & Hf & Hb & Hm); [| exact Hrun | exact Hg |].
    { exists z. auto. }
    exists (S (S m)). cbn [arn exec_named invoke_ret]. unfold arn_ctx, arn_binding, vars, shrink_identifier. cbn [map bvar bchi bty]. rewrite Hx', Hla, Hlb, Hop.
    unfold lookup_id. cbn [lookup].
    destruct (N.eqb (idn x') (idn (th (rho v)))) eqn:E; [apply N.eqb_eq in E; exfalso; apply Hpx; rewrite E; exact Hin|].
    rewrite Hlav, Hf. cbn [lookups]. unfold lookup_id. cbn [lookup]. unfold vars in Hb. rewrite N.eqb_refl, Hb. exact Hm.
  - cbn [cont] in Hrun. exists 1. cbn [arn exec_named]. rewrite Hla, Hlb, Hop. exact Hrun.
Qed.
End CasesA.
