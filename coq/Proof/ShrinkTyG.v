(* Proof/ShrinkTyG.v (C12, fragment 2) - cases of the typing lemma: let, invoke, known cuts. *)
From Coq Require Import List ZArith NArith String Bool Lia.
From SCC Require Import Base.Sexp Lang.SynUtil Lang.CoreSyn Lang.AxSyn Sem.FsCheck Model.Shrink Model.LinCheck Model.WtDefs
     Proof.ShrinkProof Proof.ShrinkRn Proof.ShrinkSimBase Proof.ShrinkSimData Proof.ShrinkSimEta Proof.ShrinkTfv
     Proof.ShrinkSimC Proof.ShrinkSimE Proof.ShrinkTyA Proof.ShrinkTyB Proof.ShrinkTyC Proof.ShrinkTyD Proof.ShrinkTyE Proof.ShrinkTyF.
From SCC Require Sem.AxCheck.
Import ListNotations.
Open Scope list_scope.

Lemma Forall2_in_l' : forall {X Y} (R : X -> Y -> Prop) l1 l2 a, Forall2 R l1 l2 -> In a l1 -> exists b, In b l2 /\ R a b.
Proof.
  intros X Y R l1 l2 a H. induction H as [|x y l1 l2 Hxy _ IH]; intros Hin; [contradiction|].
  destruct Hin as [->|Hin]; [exists y; split; [now left | exact Hxy]|]. destruct (IH Hin) as (b & Hb & Hr). exists b. split; [now right | exact Hr].
Qed.

Section TyG.
Variable p : fsprog.
Variable ds' : list def.
Notation data := (fspdata p).
Notation codata := (fspcodata p).
Notation defs := (fspdefs p).
Notation m0 := (fspmax p).
Notation D := (data ++ [cont_int]).
Notation ts := (ts_of p).
Notation TLs := (TLs p ds').
Notation TLn := (TLn p ds').
Hypothesis Hdisj : forall n, find_decl data n <> None -> find_decl codata n = None.
Hypothesis Hcont : find_decl data cont_name = None /\ find_decl codata cont_name = None.
Hypothesis Hfields : forall d, In d (data ++ codata) -> forall sg, In sg (ctxtors d) -> forall b, In b (cxargs sg) -> ty_ok data codata (cbty b) = true.

Lemma args_typed : forall (need : cident -> Prop) rho th Ga G args sg what0,
  grel p need (fun x => th (rho x)) Ga G -> fargs_ok what0 G args sg = None ->
  forallb (nc_var (cvars G)) (cvars args) = true -> (forall a, In a args -> need (cbvar a)) ->
  forall what, AxCheck.args_ok what Ga (arn_ctx th (shrink_context codata (rn_ctx rho args))) (shrink_context codata sg) = None.
Proof.
  intros need rho th Ga G args sg what0 Hg Hfa Hnc Hneed what.
  eapply args_ok_shrink; [exact Hg | | eapply fargs_sig; eauto].
  intros a Ha. split; [eapply args_in_G; eauto | now apply Hneed].
Qed.
Lemma occ_args' : forall args (b : cbinding), In b args -> occ_ctx (cbvar b) args.
Proof. intros args b H. unfold occ_ctx, cvars. apply in_map. exact H. Qed.

(* <K(args) | mu~ x.s> *)
Lemma tl_let_ctor : forall k, TLn k -> forall c1 K args t1 ty c2 x s' t2, TLs (S k) (FsCut (FsXtor c1 K args t1) ty (FsMu c2 x s' t2)).
Proof.
  intros k IH c1 K args t1 ty c2 x s' t2. tstart. cbn [rn_stmt rn_term shrink_step shrink_cut] in Hsh. unfold shrink_identifier in Hsh.
  destruct (shrink_stmt k _ (rn_stmt rho s') st) as [[next st1]|] eqn:E1; [|discriminate Hsh]. cbn [sbind] in Hsh. inv Hsh.
  rewrite check_stmt_cut_eq in Hck. apply seq_none in Hck as [Hty Hck]. apply seq_none in Hck as [Hcp Hck].
  destruct (xtor_typing p _ _ _ _ _ _ _ Hcp) as (T & d & sg & -> & Hd & Hx & Hfa).
  rewrite check_term_mu_eq in Hck. apply seq_none in Hck as [_ Hck]. apply seq_none in Hck as [_ Hcs]. cbn [opp] in Hcs.
  rewrite ib_stmt_cut, ib_term_mu in Hib. apply andb_prop in Hib as [_ Hib]. apply andb_prop in Hib as [Hix Hib]. apply id_le_le' in Hix.
  cbn [ub_stmt ub_term andb] in Hub. apply andb_prop in Hub as [Hux Hub]. apply negb_mem_notin' in Hux.
  pose proof (nc_cut_mu_r _ _ _ _ _ _ _ Hnc) as Hncs. apply nc_cut in Hnc as [Hnca _]. cbn [nc_term] in Hnca.
  destruct (push_old p _ (fun y => occurs y s') _ _ _ _ _ _ x CPrd (CDecl T) Hinv Hg Hgi Hux Hix ltac:(intros y Hy; occ)) as (Hfx & Hgx & Hgix).
  destruct (IH s' lbl _ rho th st next st' _ (inv_push p _ _ _ _ x CPrd (CDecl T) Hinv Hux Hix) Hcs Hub Hib Hncs (decl_push p _ x CPrd (CDecl T) Hdecl (ty_ok_data p _ _ Hd)) E1 Hgx Hgix Hlin Hlw) as (U1 & U2 & U3).
  split; [|split; [exact U2 | exact U3]].
  cbn [arn shrink_ty]. unfold shrink_identifier.
  eapply ck_let; [apply (find_type_data p _ _ Hd) | apply find_xtor_shrink; exact Hx | | exact Hfx |].
  - cbn [shrink_xtor xargs]. eapply args_typed; eauto. intros a Ha. cbn [occurs occ_term]. left. now apply occ_args'.
  - rewrite (proj1 (sb_data p x T (data_not_codata p Hdisj _ _ Hd))) in U1. exact U1.
Qed.

(* <mu a.s | D(args)> *)
Lemma tl_let_dtor : forall k, TLn k -> forall c1 a s' t1 ty c2 K args t2, TLs (S k) (FsCut (FsMu c1 a s' t1) ty (FsXtor c2 K args t2)).
Proof.
  intros k IH c1 a s' t1 ty c2 K args t2. tstart. cbn [rn_stmt rn_term shrink_step shrink_cut] in Hsh. unfold shrink_identifier in Hsh.
  destruct (shrink_stmt k _ (rn_stmt rho s') st) as [[next st1]|] eqn:E1; [|discriminate Hsh]. cbn [sbind] in Hsh. inv Hsh.
  rewrite check_stmt_cut_eq in Hck. apply seq_none in Hck as [Hty Hck]. apply seq_none in Hck as [Hcp Hck].
  destruct (xtor_typing p _ _ _ _ _ _ _ Hck) as (T & d & sg & -> & Hd & Hx & Hfa).
  rewrite check_term_mu_eq in Hcp. apply seq_none in Hcp as [_ Hcp]. apply seq_none in Hcp as [_ Hcs]. cbn [opp] in Hcs.
  rewrite ib_stmt_cut, ib_term_mu in Hib. apply andb_prop in Hib as [Hib _]. apply andb_prop in Hib as [Hia Hib]. apply id_le_le' in Hia.
  cbn [ub_stmt ub_term] in Hub. rewrite andb_true_r in Hub. apply andb_prop in Hub as [Hua Hub]. apply negb_mem_notin' in Hua.
  pose proof (nc_cut_mu_l _ _ _ _ _ _ _ Hnc) as Hncs. apply nc_cut in Hnc as [_ Hnca]. cbn [nc_term] in Hnca.
  destruct (push_old p _ (fun y => occurs y s') _ _ _ _ _ _ a CCns (CDecl T) Hinv Hg Hgi Hua Hia ltac:(intros y Hy; occ)) as (Hfx & Hgx & Hgix).
  destruct (IH s' lbl _ rho th st next st' _ (inv_push p _ _ _ _ a CCns (CDecl T) Hinv Hua Hia) Hcs Hub Hib Hncs (decl_push p _ a CCns (CDecl T) Hdecl (ty_ok_codata p _ _ Hd)) E1 Hgx Hgix Hlin Hlw) as (U1 & U2 & U3).
  split; [|split; [exact U2 | exact U3]].
  cbn [arn shrink_ty]. unfold shrink_identifier.
  eapply ck_let; [apply (find_type_codata p Hdisj Hcont _ _ Hd) | apply find_xtor_shrink; exact Hx | | exact Hfx |].
  - cbn [shrink_xtor xargs]. eapply args_typed; eauto. intros a0 Ha. cbn [occurs occ_term]. right. now apply occ_args'.
  - rewrite (proj2 (sb_codata p a T (codata_is_codata p _ _ Hd))) in U1. exact U1.
Qed.

(* <K(args) | a> *)
Lemma tl_invoke_ctor : forall k c1 K args t1 ty c2 b t2, TLs (S k) (FsCut (FsXtor c1 K args t1) ty (FsXVar c2 b t2)).
Proof.
  intros k c1 K args t1 ty c2 b t2. tstart. cbn [rn_stmt rn_term shrink_step shrink_cut] in Hsh. unfold shrink_identifier in Hsh. inv Hsh.
  rewrite check_stmt_cut_eq in Hck. apply seq_none in Hck as [Hty Hck]. apply seq_none in Hck as [Hcp Hck].
  destruct (xtor_typing p _ _ _ _ _ _ _ Hcp) as (T & d & sg & -> & Hd & Hx & Hfa).
  cbn [check_term] in Hck. apply seq_none in Hck as [_ Hck]. apply seq_none in Hck as [_ Hcb].
  apply nc_cut in Hnc as [Hnca Hncb]. cbn [nc_term] in Hnca, Hncb.
  split; [|split; [reflexivity | exact Hlw]].
  cbn [arn shrink_ty]. unfold shrink_identifier.
  eapply ck_invoke; [apply (find_type_data p _ _ Hd) | apply find_xtor_shrink; exact Hx | |].
  - pose proof (occ_bound p _ _ _ _ b CCns (CDecl T) Hg Hcb Hncb ltac:(occ)) as Hb.
    rewrite (proj2 (sb_data p b T (data_not_codata p Hdisj _ _ Hd))) in Hb. exact Hb.
  - cbn [shrink_xtor xargs]. eapply args_typed; eauto. intros a Ha. cbn [occurs occ_term]. left. now apply occ_args'.
Qed.

(* <x | D(args)> *)
Lemma tl_invoke_dtor : forall k c1 x t1 ty c2 K args t2, TLs (S k) (FsCut (FsXVar c1 x t1) ty (FsXtor c2 K args t2)).
Proof.
  intros k c1 x t1 ty c2 K args t2. tstart. cbn [rn_stmt rn_term shrink_step shrink_cut] in Hsh. unfold shrink_identifier in Hsh. inv Hsh.
  rewrite check_stmt_cut_eq in Hck. apply seq_none in Hck as [Hty Hck]. apply seq_none in Hck as [Hcp Hck].
  destruct (xtor_typing p _ _ _ _ _ _ _ Hck) as (T & d & sg & -> & Hd & Hx & Hfa).
  cbn [check_term] in Hcp. apply seq_none in Hcp as [_ Hcp]. apply seq_none in Hcp as [_ Hcx].
  apply nc_cut in Hnc as [Hncx Hnca]. cbn [nc_term] in Hnca, Hncx.
  split; [|split; [reflexivity | exact Hlw]].
  cbn [arn shrink_ty]. unfold shrink_identifier.
  eapply ck_invoke; [apply (find_type_codata p Hdisj Hcont _ _ Hd) | apply find_xtor_shrink; exact Hx | |].
  - pose proof (occ_bound p _ _ _ _ x CPrd (CDecl T) Hg Hcx Hncx ltac:(occ)) as Hb.
    rewrite (proj1 (sb_codata p x T (codata_is_codata p _ _ Hd))) in Hb. exact Hb.
  - cbn [shrink_xtor xargs]. eapply args_typed; eauto. intros a Ha. cbn [occurs occ_term]. right. now apply occ_args'.
Qed.

Lemma fparams_sig : forall ctx sg, fparams_ok ctx sg = true ->
  Forall2 (fun b s => cbchi b = cbchi s /\ cbty b = cbty s) ctx sg.
Proof.
  induction ctx as [|b r IH]; intros [|s sr] H; simpl in H; try discriminate; constructor.
  - apply andb_prop in H as [H1 _]. now apply csame_sig_eq'.
  - apply andb_prop in H as [_ H]. now apply IH.
Qed.
Lemma alias_partner : forall (f g : cbinding -> ident) ctx args sg,
  map f ctx = map g args ->
  Forall2 (fun b s => cbchi b = cbchi s /\ cbty b = cbty s) ctx sg ->
  Forall2 (fun a s => cbchi a = cbchi s /\ cbty a = cbty s) args sg ->
  forall b, In b ctx -> exists a, In a args /\ f b = g a /\ cbchi a = cbchi b /\ cbty a = cbty b.
Proof.
  intros f g ctx. induction ctx as [|b0 r IH]; intros args sg Hm H1 H2 b Hb; [contradiction|].
  destruct args as [|a0 ar]; [discriminate|]. inversion H1 as [|? s ? sr (C1 & C2) H1']; subst. inversion H2 as [|? ? ? ? (D1 & D2) H2']; subst.
  cbn [map] in Hm. injection Hm as Hm0 Hm. destruct Hb as [<-|Hb].
  - exists a0. split; [now left|]. split; [exact Hm0|]. split; congruence.
  - destruct (IH ar sr Hm H1' H2' b Hb) as (a & Ha & E & F1 & F2). exists a. split; [now right | auto].
Qed.
Lemma find_cxtor_in : forall d K sg, find_cxtor d K = Some sg -> In sg (ctxtors d).
Proof. intros d K sg H. unfold find_cxtor in H. apply find_some in H. tauto. Qed.

Lemma known_typed : forall k, TLn k -> forall lbl side T d cls G rho th st t st' Ga K sg args what,
  inv p G rho th st -> In d (data ++ codata) ->
  clauses_match side T cls (ctxtors d) = None -> check_bodies data codata defs G cls = None ->
  ub_clauses (cids G) cls = true -> ib_clauses m0 cls = true -> nc_clauses (cvars G) cls = true -> decl_ok p G ->
  find_cxtor d K = Some sg -> fargs_ok what G args (cxargs sg) = None -> forallb (nc_var (cvars G)) (cvars args) = true ->
  shrink_known_cuts (shrink_stmt k (mksenv D codata lbl)) K (cvars (rn_ctx rho args)) (rn_clauses rho cls) st = SOk (t, st') ->
  grel p (fun x => occ_ctx x args \/ occ_clauses x cls) (fun x => th (rho x)) Ga G -> ginv p Ga G st st' ->
  lifted_in' ds' st' -> lift_wt p ds' st ->
  acheck ts ds' Ga (arn th t) = None /\ pre_linear t = true /\ lift_wt p ds' st'.
Proof.
  intros k IH lbl side T d cls G rho th st t st' Ga K sg args what Hinv Hdin Hcm Hcb Hub Hib Hnc Hdecl Hx Hfa Hnca Hsh Hg Hgi Hlin Hlw.
  destruct (clauses_match_find _ _ _ _ _ _ Hcm Hx) as (cl0 & Hf & Hn & Hps).
  assert (Hin : In cl0 cls) by (apply find_some in Hf; tauto).
  destruct (ib_clauses_in p _ _ Hib Hin) as [Hibc Hibb].
  destruct (ub_clauses_in _ _ _ Hub Hin) as [Hubc Hubb]. apply fresh_ids_spec in Hubc as [Hnd Hnotin].
  pose proof (nc_clauses_in _ _ _ Hnc Hin) as Hncb.
  unfold shrink_known_cuts in Hsh. rewrite find_rn_clauses, Hf in Hsh. cbn [option_map] in Hsh.
  destruct cl0 as [c0 x0 ctx0 b0]. cbn [rn_clause clause_ctx clause_body clause_xtor] in *.
  rewrite subst_is_rn, rn_comp in Hsh.
  assert (Hids : forall i, In i (cids ctx0) -> ~ In i (cids G) /\ (i <= m0)%N).
  { intros i Hi. split; [now apply Hnotin | eapply ctx_le_ids; eauto]. }
  assert (Hlen : List.length args = List.length ctx0).
  { rewrite (fparams_ok_length _ _ Hps). eapply fargs_ok_length; eauto. }
  pose proof (alias_names p _ _ _ _ _ _ Hinv Hnd Hids Hlen) as Hnames.
  set (zs := cvars (rn_ctx rho args)) in *.
  assert (HargG : forall a, In a args -> In a G) by (intros a Ha; eapply args_in_G; eauto).
  assert (Hinv' : inv p (ctx0 ++ G) (fun y => subst_ident (combine (cids ctx0) zs) (rho y)) th st).
  { apply inv_ext; auto. intros z Hz. unfold zs in Hz. rewrite cvars_rn_ctx in Hz. unfold cvars in Hz. rewrite map_map in Hz.
    apply in_map_iff in Hz as (a & <- & Ha). apply (inv_rng _ _ _ _ _ Hinv). now apply HargG. }
  assert (Hg' : grel p (fun y => occurs y b0) (fun y => th (subst_ident (combine (cids ctx0) zs) (rho y))) Ga (ctx0 ++ G)).
  { eapply grel_alias_list with (pi := fun y => th (rho y)); [exact Hg | |].
    - intros b Hb Hn0. split.
      + right. exists (FsClause c0 x0 ctx0 b0). split; [exact Hin | exact Hn0].
      + cbn beta. rewrite (inv_old p _ _ _ _ _ zs _ Hinv Hb Hids). reflexivity.
    - intros b Hb.
      destruct (alias_partner (fun b => th (subst_ident (combine (cids ctx0) zs) (rho (cbvar b)))) (fun a => th (rho (cbvar a)))
                  ctx0 args (cxargs sg) Hnames (fparams_sig _ _ Hps) (fargs_sig _ _ _ _ Hfa) b Hb) as (a & Ha & E & F1 & F2).
      exists a. split; [now apply HargG|]. split; [left; now apply occ_args'|]. cbn beta. rewrite E. auto. }
  assert (Hdecl' : decl_ok p (ctx0 ++ G)).
  { intros b Hb. apply in_app_or in Hb as [Hb|Hb]; [|now apply Hdecl].
    destruct (Forall2_in_l' _ _ _ _ (fparams_sig _ _ Hps) Hb) as (s & Hs & _ & Ht). rewrite Ht.
    eapply Hfields; eauto. eapply find_cxtor_in; eauto. }
  unfold cvars in Hncb. rewrite <- map_app in Hncb. fold (cvars (ctx0 ++ G)) in Hncb. rewrite ub_cids_app in Hubb.
  eapply (IH b0 lbl (ctx0 ++ G) _ th st t st' Ga Hinv'); eauto.
  - apply (check_bodies_in p _ _ (FsClause c0 x0 ctx0 b0) Hcb Hin).
  - now apply ginv_app_G.
Qed.

(* <K(args) | case {..}> *)
Lemma tl_known_ctor : forall k, TLn k -> forall c1 K args t1 ty c2 cls t2, TLs (S k) (FsCut (FsXtor c1 K args t1) ty (FsXCase c2 cls t2)).
Proof.
  intros k IH c1 K args t1 ty c2 cls t2. tstart. cbn [rn_stmt] in Hsh. rewrite rn_term_xcase in Hsh.
  cbn [rn_term shrink_step shrink_cut] in Hsh.
  rewrite check_stmt_cut_eq in Hck. apply seq_none in Hck as [Hty Hck]. apply seq_none in Hck as [Hcp Hck].
  destruct (xtor_typing p _ _ _ _ _ _ _ Hcp) as (T & d & sg & -> & Hd & Hx & Hfa).
  destruct (xcase_typing p _ _ _ _ _ _ Hck) as (T' & d' & ET & Hd' & Hcm & Hcb). injection ET as <-.
  rewrite Hd in Hd'. injection Hd' as <-.
  rewrite ib_stmt_cut, ib_term_xcase in Hib. apply andb_prop in Hib as [_ Hib].
  cbn [ub_stmt] in Hub. rewrite ub_term_xcase in Hub. cbn [ub_term andb] in Hub.
  pose proof (nc_cut_case_r _ _ _ _ _ _ Hnc) as Hncc. apply nc_cut in Hnc as [Hnca _]. cbn [nc_term] in Hnca.
  eapply (known_typed k IH lbl CCns T d cls G rho th st t st' Ga K sg args); eauto.
  - apply in_or_app. left. eapply find_decl_in; eauto.
  - eapply grel_weaken; [exact Hg|]. intros y [Hy|Hy]; cbn [occurs occ_term]; [left; exact Hy | right; apply occ_term_xcase; assumption].
Qed.

(* <cocase {..} | D(args)> *)
Lemma tl_known_dtor : forall k, TLn k -> forall c1 cls t1 ty c2 K args t2, TLs (S k) (FsCut (FsXCase c1 cls t1) ty (FsXtor c2 K args t2)).
Proof.
  intros k IH c1 cls t1 ty c2 K args t2. tstart. cbn [rn_stmt] in Hsh. rewrite rn_term_xcase in Hsh.
  cbn [rn_term shrink_step shrink_cut] in Hsh.
  rewrite check_stmt_cut_eq in Hck. apply seq_none in Hck as [Hty Hck]. apply seq_none in Hck as [Hcp Hck].
  destruct (xtor_typing p _ _ _ _ _ _ _ Hck) as (T & d & sg & -> & Hd & Hx & Hfa).
  destruct (xcase_typing p _ _ _ _ _ _ Hcp) as (T' & d' & ET & Hd' & Hcm & Hcb). injection ET as <-.
  rewrite Hd in Hd'. injection Hd' as <-.
  rewrite ib_stmt_cut, ib_term_xcase in Hib. apply andb_prop in Hib as [Hib _].
  cbn [ub_stmt] in Hub. rewrite ub_term_xcase in Hub. cbn [ub_term] in Hub. rewrite andb_true_r in Hub.
  pose proof (nc_cut_case_l _ _ _ _ _ _ Hnc) as Hncc. apply nc_cut in Hnc as [_ Hnca]. cbn [nc_term] in Hnca.
  eapply (known_typed k IH lbl CPrd T d cls G rho th st t st' Ga K sg args); eauto.
  - apply in_or_app. right. eapply find_decl_in; eauto.
  - eapply grel_weaken; [exact Hg|]. intros y [Hy|Hy]; cbn [occurs occ_term]; [right; exact Hy | left; apply occ_term_xcase; assumption].
Qed.
End TyG.
