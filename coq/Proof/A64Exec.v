(* Execution of AArch64 code embedded in a program image (labels, branches), as a relation over
   Sem/A64Sem.step; the link with straight-line execution; and the pure heap-level meaning of the
   two reference-count operations an explicit substitution emits.  Port of Proof/X86Exec.v. *)
From Coq Require Import List ZArith NArith String Bool Lia FMapPositive.
From SCC Require Import Base.Sexp Lang.AxSyn Sem.AxSem Model.Backend Model.A64 Sem.A64Sem Generated.Constants
     Proof.A64State.
Import ListNotations.
Open Scope Z_scope.

(* index arithmetic: the j-th instruction after index pc *)
Fixpoint padd (pc : positive) (j : nat) : positive :=
  match j with O => pc | S j' => padd (Pos.succ pc) j' end.
Lemma padd_succ pc j : padd pc (S j) = Pos.succ (padd pc j).
Proof. revert pc; induction j as [|j IH]; intros pc; cbn; [reflexivity|]. now rewrite <- IH. Qed.
Lemma padd_add pc a b : padd pc (a + b) = padd (padd pc a) b.
Proof. revert pc; induction a as [|a IH]; intros pc; cbn; auto. Qed.

(* the code [cs] sits in the image at index pc, and its labels resolve to their own positions *)
Definition code_at (im : image) (pc : positive) (cs : list acode) : Prop :=
  forall j c, nth_error cs j = Some c -> PM.find (padd pc j) (code im) = Some c.
Definition labels_at (im : image) (pc : positive) (cs : list acode) : Prop :=
  forall j l, nth_error cs j = Some (LAB l) -> find_label (labels im) l = Some (padd pc j).

Lemma code_at_app im pc a b : code_at im pc (a ++ b) <-> code_at im pc a /\ code_at im (padd pc (List.length a)) b.
Proof.
  unfold code_at. split.
  - intros H. split.
    + intros j c Hj. apply H. rewrite nth_error_app1; auto. apply nth_error_Some. congruence.
    + intros j c Hj. rewrite <- padd_add. apply H. rewrite nth_error_app2 by lia.
      replace (List.length a + j - List.length a)%nat with j by lia. exact Hj.
  - intros [Ha Hb] j c Hj. destruct (Nat.lt_ge_cases j (List.length a)) as [L|L].
    + apply Ha. now rewrite nth_error_app1 in Hj.
    + rewrite nth_error_app2 in Hj by lia. apply Hb in Hj. rewrite <- padd_add in Hj.
      now replace (List.length a + (j - List.length a))%nat with j in Hj by lia.
Qed.
Lemma labels_at_app im pc a b : labels_at im pc (a ++ b) <-> labels_at im pc a /\ labels_at im (padd pc (List.length a)) b.
Proof.
  unfold labels_at. split.
  - intros H. split.
    + intros j c Hj. apply H. rewrite nth_error_app1; auto. apply nth_error_Some. congruence.
    + intros j c Hj. rewrite <- padd_add. apply H. rewrite nth_error_app2 by lia.
      replace (List.length a + j - List.length a)%nat with j by lia. exact Hj.
  - intros [Ha Hb] j c Hj. destruct (Nat.lt_ge_cases j (List.length a)) as [L|L].
    + apply Ha. now rewrite nth_error_app1 in Hj.
    + rewrite nth_error_app2 in Hj by lia. apply Hb in Hj. rewrite <- padd_add in Hj.
      now replace (List.length a + (j - List.length a))%nat with j in Hj by lia.
Qed.
Lemma code_at_cons im pc c cs : code_at im pc (c :: cs) <-> PM.find pc (code im) = Some c /\ code_at im (Pos.succ pc) cs.
Proof.
  change (c :: cs) with (([c] ++ cs)%list). rewrite code_at_app. cbn [List.length padd]. split; intros [A B]; split; auto.
  - apply (A 0%nat). reflexivity.
  - intros [|j] c' H; cbn in H; [now inversion H; subst|destruct j; discriminate].
Qed.

(* small-step execution inside an image: from (pc, s) to (pc', s') *)
Inductive exec_to (im : image) : positive -> astate -> positive -> astate -> Prop :=
| exec_refl pc s : exec_to im pc s pc s
| exec_next pc c s s1 pc' s' :
    PM.find pc (code im) = Some c -> step im c s = Next s1 ->
    exec_to im (Pos.succ pc) s1 pc' s' -> exec_to im pc s pc' s'
| exec_jump pc c s s1 i pc' s' :
    PM.find pc (code im) = Some c -> step im c s = Jump s1 i ->
    exec_to im i s1 pc' s' -> exec_to im pc s pc' s'.

Lemma exec_to_trans im pc1 s1 pc2 s2 pc3 s3 :
  exec_to im pc1 s1 pc2 s2 -> exec_to im pc2 s2 pc3 s3 -> exec_to im pc1 s1 pc3 s3.
Proof. induction 1; intros H2; auto; [eapply exec_next|eapply exec_jump]; eauto. Qed.

Lemma run_straight_exec_to im cs : forall pc s s',
  code_at im pc cs -> run_straight im cs s = MOk s' -> exec_to im pc s (padd pc (List.length cs)) s'.
Proof.
  induction cs as [|c cs IH]; intros pc s s' C E; cbn in *.
  - inversion E; subst. constructor.
  - apply code_at_cons in C as [C0 C1]. destruct (step im c s) eqn:St; try discriminate.
    eapply exec_next; eauto.
Qed.

(* one step of the relation is one step of the executable machine *)
Lemma exec_to_run_chunk im pc s pc' s' :
  exec_to im pc s pc' s' -> exists n, forall f, run_chunk (n + f) im pc s = run_chunk f im pc' s'.
Proof.
  induction 1 as [pc s|pc c s s1 pc' s' C St _ [n IH]|pc c s s1 i pc' s' C St _ [n IH]].
  - exists 0%nat. reflexivity.
  - exists (S n). intros f. cbn [Nat.add run_chunk]. rewrite C, St. apply IH.
  - exists (S n). intros f. cbn [Nat.add run_chunk]. rewrite C, St. apply IH.
Qed.

(* ---------- heap words ---------- *)
Definition hget (h : PM.t Z) (a : Z) : Z := match PM.find (key a) h with Some z => z | None => 0 end.
(* a pointer the generated code may dereference: 8-aligned, inside the heap region *)
Definition block_ok (p : Z) : Prop := p mod 8 = 0 /\ in_heap p = true.

Lemma mload_heap s p : block_ok p -> mload s p = MOk (Some (hget (heap s) p)).
Proof. intros (A & H). unfold mload, aligned. rewrite A, H. reflexivity. Qed.
Definition set_heap (s : astate) (a v : Z) : astate :=
  {| regs := regs s; spv := spv s; heap := PM.add (key a) v (heap s); stack := stack s; flags := flags s; out := out s;
     hw := Z.max (hw s) a |}.
Lemma mstore_heap s p v : block_ok p -> mstore s p (Some v) = MOk (set_heap s p v).
Proof. intros (A & H). unfold mstore, aligned. rewrite A, H. reflexivity. Qed.

(* pure meaning of share_block_n / erase_block on (heap, FREE); p = the pointer the variable holds.
   The header test of erase is the machine's: CMP sets Z from the 64-bit result, so it is
   `wrap header = 0`; for a header that is a 64-bit value this is `header = 0` (erase_h_in64). *)
Definition share_h (p n : Z) (hf : PM.t Z * Z) : PM.t Z * Z :=
  if p =? 0 then hf else (PM.add (key p) (wrap (hget (fst hf) p + n)) (fst hf), snd hf).
Definition erase_h (p : Z) (hf : PM.t Z * Z) : PM.t Z * Z :=
  if p =? 0 then hf
  else if wrap (hget (fst hf) p) =? 0 then (PM.add (key p) (snd hf) (fst hf), p)
  else (PM.add (key p) (wrap (hget (fst hf) p - 1)) (fst hf), snd hf).
(* the meaning of the update for a variable with k targets *)
Definition count_h (p : Z) (k : nat) (hf : PM.t Z * Z) : PM.t Z * Z :=
  match k with
  | O => erase_h p hf
  | S O => hf
  | S (S n) => share_h p (Z.of_nat (S n)) hf
  end.

Lemma wrap_in64 z : min_int <= z <= max_int -> wrap z = z.
Proof. unfold wrap, min_int, max_int, two63, two64. intros H. rewrite Z.mod_small; lia. Qed.
Lemma erase_h_in64 p hf :
  min_int <= hget (fst hf) p <= max_int ->
  erase_h p hf = if p =? 0 then hf
                 else if hget (fst hf) p =? 0 then (PM.add (key p) (snd hf) (fst hf), p)
                 else (PM.add (key p) (wrap (hget (fst hf) p - 1)) (fst hf), snd hf).
Proof. intros H. unfold erase_h. now rewrite (wrap_in64 _ H). Qed.
