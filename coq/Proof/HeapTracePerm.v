(* The ghost roots of an operation trace matter up to permutation only: `pre`, `ghost`, `pre_trace`
   and `grun` respect permutations of the root multiset. *)
From Coq Require Import List ZArith Lia Bool Permutation.
From SCC Require Import Model.Heap Proof.HeapMore Proof.HeapTrace Proof.HeapRep Proof.HeapRepSubst.
Import ListNotations.
Open Scope Z_scope.

Lemma nz_perm l l' : Permutation l l' -> Permutation (nz l) (nz l').
Proof.
  induction 1 as [|x l l' H IH|x y l|l1 l2 l3 H1 IH1 H2 IH2]; cbn [nz filter].
  - reflexivity.
  - destruct (negb (x =? 0)); [now apply perm_skip|exact IH].
  - destruct (negb (x =? 0)), (negb (y =? 0)); try reflexivity. apply perm_swap.
  - etransitivity; eauto.
Qed.

Lemma rem1_notin x l : ~ In x l -> rem1 x l = l.
Proof.
  induction l as [|y l IH]; cbn; auto. intros H. destruct (Z.eq_dec x y) as [->|_]; [exfalso; apply H; now left|].
  rewrite IH; auto.
Qed.
Lemma rem1_perm_cong x l l' : Permutation l l' -> Permutation (rem1 x l) (rem1 x l').
Proof.
  intros HP. destruct (in_dec Z.eq_dec x l) as [Hin|Hn].
  - apply (Permutation_cons_inv (a := x)).
    etransitivity; [symmetry; apply rem1_perm; exact Hin|]. etransitivity; [exact HP|].
    apply rem1_perm. eapply Permutation_in; eauto.
  - rewrite !rem1_notin; auto. intro H. apply Hn. eapply Permutation_in; [symmetry|]; eauto.
Qed.
Lemma msub_perm_cong xs : forall l l', Permutation l l' -> Permutation (msub l xs) (msub l' xs).
Proof.
  unfold msub. induction xs as [|x xs IH]; intros l l' HP; cbn [fold_left]; auto.
  apply IH. now apply rem1_perm_cong.
Qed.

Lemma ghost_perm s R R' o : Permutation R R' -> Permutation (ghost s R o) (ghost s R' o).
Proof.
  intros HP. destruct o as [p n|p|sl|p|p|p|f|k p|k p|k p]; cbn [ghost].
  - destruct (p =? 0); auto. now apply Permutation_app_head.
  - destruct (p =? 0); auto. now apply rem1_perm_cong.
  - apply perm_skip. now apply msub_perm_cong.
  - apply Permutation_app_head. now apply rem1_perm_cong.
  - apply Permutation_app_head. now apply rem1_perm_cong.
  - apply Permutation_app_head. now apply rem1_perm_cong.
  - destruct f; auto. apply perm_skip. now apply msub_perm_cong.
  - apply Permutation_app_head. now apply rem1_perm_cong.
  - apply Permutation_app_head. now apply rem1_perm_cong.
  - apply Permutation_app_head. now apply rem1_perm_cong.
Qed.

Lemma sub_ok_perm xs R R' : Permutation R R' -> sub_ok xs R -> sub_ok xs R'.
Proof. intros HP H b. rewrite <- (cnt_perm _ _ b HP). apply H. Qed.
Lemma pre_perm s R R' o : Permutation R R' -> pre s R o -> pre s R' o.
Proof.
  intros HP. assert (HI : forall p, In p R -> In p R') by (intros p; apply Permutation_in; exact HP).
  destruct o as [p n|p|sl|p|p|p|f|k p|k p|k p]; cbn [pre]; intuition eauto using sub_ok_perm.
Qed.

Lemma pre_trace_perm : forall ops s R R', Permutation R R' -> pre_trace s R ops -> pre_trace s R' ops.
Proof.
  induction ops as [|o ops IH]; intros s R R' HP H; cbn [pre_trace] in *; auto. destruct H as [H1 H2]. split.
  - eapply pre_perm; eauto.
  - eapply IH; [|exact H2]. now apply ghost_perm.
Qed.
Lemma grun_perm : forall ops s R R', Permutation R R' ->
  fst (grun ops (s, R)) = fst (grun ops (s, R')) /\ Permutation (snd (grun ops (s, R))) (snd (grun ops (s, R'))).
Proof.
  induction ops as [|o ops IH]; intros s R R' HP; cbn [grun fold_left]; [cbn; auto|].
  unfold gstep at 2 4 6 8. cbn [fst snd]. apply IH. now apply ghost_perm.
Qed.

(* sub-multisets *)
Lemma sub_ok_app xs R0 R : Permutation R (xs ++ R0) -> sub_ok xs R.
Proof. intros HP b. rewrite (cnt_perm _ _ b HP), cnt_app. pose proof (cnt_nonneg R0 b). lia. Qed.
Lemma msub_app xs R0 R : Permutation R (xs ++ R0) -> Permutation (msub R xs) R0.
Proof.
  intros HP. apply (Permutation_app_inv_l xs). etransitivity; [symmetry; apply msub_perm; eapply sub_ok_app; eauto|exact HP].
Qed.
