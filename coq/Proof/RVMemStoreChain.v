(* C09 on RISC-V: `r_store` of ANY number of variables (objects chained over several blocks, axcut2rv64 memory.rs
   store_fields with block positions) refines `Heap.alloc_object` on the ISA semantics Sem/RVSem.v.  The RISC-V
   counterpart of Proof/X86MemStoreChain.v + X86MemStoreFull.v and of Proof/A64MemStoreChain.v, in ONE version (the
   strongest: refinement, words of the new object, chain, frame of registers and heap words):
     sv_spec_fields / sv_spec_frame   the word-level specification of `store_values` (Proof/RVSel.v), characterised
                                      field by field, for any capacity <= 3;
     rv_acquire_block_m     `acquire_block` from machine-level preconditions, with the frame of the non-header words;
     rv_store_block         one round of store_fields: (link,) values, acquire_block = one `Heap.alloc`;
     rv_store_fields_other  the continuation blocks (BlockPosition::Other);
     rv_store_chain         r_store to_store remaining = Heap.alloc_object (fsts ...), the data and pointer words of
                            every stored variable addressed through the chain, the chain = the acquired blocks.
   RISC-V has no spill slots: a temporary is a register, `rtp k` = X(k + 4).
   SHARED WITH x86-64 / AArch64 (qualified names, nothing copied; `is_blk`, `st_eqB`, `acq_ok` of the RISC-V files are
   convertible with the x86-64 ones because the ISA models place the heap at the same addresses): chain_pre,
   alloc_object_pre, alloc_congr, store_other_*, rest_len (Proof/X86MemStoreChain.v), chain_acq, alloc_object_acq
   (X86HeapAcq.v), wblocks, waddrs (X86HeapDefs.v), blk_words, chain_holds and their lemmas, chain_acq_congr,
   frame_blocks (X86MemStoreFull.v), nbo (X86MemLoadChain.v). *)
From Coq Require Import List ZArith NArith String Bool Lia FMapPositive.
From SCC Require Import Base.Sexp Lang.AxSyn Sem.AxSem Sem.AxHeap Model.Backend Model.RV Sem.RVSem Generated.Constants
     Proof.RVSel Proof.RVHeapAbs Proof.RVHDefs Proof.RVHMem.
From SCC Require Model.Heap Proof.X86Mem Proof.X86MemFrame Proof.X86MemStore Proof.X86MemStoreChain
     Proof.X86MemLoadChain Proof.X86HeapDefs Proof.X86HeapAcq Proof.X86MemStoreFull.
Import ListNotations.
Open Scope list_scope.
Open Scope Z_scope.

Notation chain_pre := X86MemStoreChain.chain_pre.
Notation alloc_object_pre := X86MemStoreChain.alloc_object_pre.
Notation rest_len := X86MemStoreChain.rest_len.
Notation chain_acq := X86HeapAcq.chain_acq.
Notation alloc_object_acq := X86HeapAcq.alloc_object_acq.
Notation wblocks := X86HeapDefs.wblocks.
Notation waddrs := X86HeapDefs.waddrs.
Notation blk_words := X86MemStoreFull.blk_words.
Notation chain_holds := X86MemStoreFull.chain_holds.
Notation nbo := X86MemLoadChain.nbo.
Notation xfsts := X86MemStore.fsts.
Notation xfst_slot := X86MemStore.fst_slot.
Notation xsnd_slot := X86MemStore.snd_slot.

(* ---------- field offsets ---------- *)
Lemma fo_val n k : field_offset n k = 16 + 16 * Z.of_N k + 8 * Z.of_N (tnum_n n).
Proof. rewrite field_offset_val. lia. Qed.

(* ---------- the zeros written by store_zeros ---------- *)
Lemma zeros_other b : forall ff w a, (forall k, (k < ff)%N -> a <> b + 16 + 16 * Z.of_N k) ->
  fold_left (fun w k => upd w (b + field_offset Fst k) 0) (nseq 0 ff) w a = w a.
Proof.
  intros ff. induction ff as [|ff IH] using N.peano_ind; intros w a H; [reflexivity|].
  rewrite nseq_succ, fold_left_app. cbn [fold_left]. rewrite upd_other.
  - apply IH. intros k Hk. apply H. lia.
  - rewrite fo_val. cbn [tnum_n]. specialize (H ff ltac:(lia)). lia.
Qed.
Lemma zeros_at b : forall ff w k, (k < ff)%N ->
  fold_left (fun w k => upd w (b + field_offset Fst k) 0) (nseq 0 ff) w (b + 16 + 16 * Z.of_N k) = 0.
Proof.
  intros ff. induction ff as [|ff IH] using N.peano_ind; intros w k H; [lia|].
  rewrite nseq_succ, fold_left_app. cbn [fold_left]. rewrite fo_val. cbn [tnum_n].
  destruct (N.eq_dec k ff) as [->|NE].
  - apply upd_eq. lia.
  - rewrite upd_other by lia. apply IH. lia.
Qed.

(* ---------- sv_spec, field by field ---------- *)
Lemma sv_spec_frame s : forall l E b ff w a, (N.of_nat (List.length l) <= ff)%N ->
  (a < b + 16 \/ b + 16 + 16 * Z.of_N ff <= a) -> sv_spec s l E b ff w a = w a.
Proof.
  induction l as [|x l IH]; intros E b ff w a L Ha; cbn [sv_spec].
  - apply zeros_other. intros k Hk. lia.
  - cbn [List.length] in L. rewrite IH by lia. rewrite !fo_val. cbn [tnum_n]. rewrite !upd_other by lia. reflexivity.
Qed.
Lemma sv_spec_fields s : forall l E b ff w, (N.of_nat (List.length l) <= ff)%N ->
  (forall i x, nth_error l i = Some x ->
     sv_spec s l E b ff w (b + 16 + 16 * Z.of_N (ff - 1 - N.of_nat i)) =
       (match bchi x with Ext => 0 | _ => regv s (pos_reg Fst (E + (List.length l - 1 - i))) end) /\
     sv_spec s l E b ff w (b + 16 + 16 * Z.of_N (ff - 1 - N.of_nat i) + 8) = regv s (pos_reg Snd (E + (List.length l - 1 - i)))) /\
  (forall j, (j < ff - N.of_nat (List.length l))%N -> sv_spec s l E b ff w (b + 16 + 16 * Z.of_N j) = 0).
Proof.
  induction l as [|x l IH]; intros E b ff w L.
  - split; [intros i x Hi; destruct i; discriminate|]. intros j Hj. cbn [sv_spec]. apply zeros_at. cbn [List.length] in Hj. lia.
  - cbn [List.length] in L. cbn [sv_spec].
    set (w2 := upd (upd w (b + field_offset Snd (ff - 1)) (regv s (pos_reg Snd (E + List.length l))))
                   (b + field_offset Fst (ff - 1)) (match bchi x with Ext => 0 | _ => regv s (pos_reg Fst (E + List.length l)) end)).
    destruct (IH E b (ff - 1)%N w2 ltac:(lia)) as [F Z0]. split.
    + intros i y Hi. destruct i as [|i]; cbn [nth_error] in Hi.
      * inversion Hi; subst y. cbn [List.length]. replace (S (List.length l) - 1 - 0)%nat with (List.length l) by lia.
        replace (ff - 1 - N.of_nat 0)%N with (ff - 1)%N by lia.
        rewrite !sv_spec_frame by lia. unfold w2. rewrite !fo_val. cbn [tnum_n]. split.
        -- apply upd_eq. lia.
        -- rewrite upd_other by lia. apply upd_eq. lia.
      * destruct (F i y Hi) as [F1 F2]. cbn [List.length].
        replace (ff - 1 - N.of_nat (S i))%N with (ff - 1 - 1 - N.of_nat i)%N by lia.
        replace (S (List.length l) - 1 - S i)%nat with (List.length l - 1 - i)%nat by lia. split; assumption.
    + intros j Hj. cbn [List.length] in Hj. apply Z0. lia.
Qed.

Lemma sv_defined_intro s : forall l E,
  (forall i x, nth_error l i = Some x ->
     rget s (pos_reg Snd (E + (List.length l - 1 - i))) <> None /\
     (bchi x <> Ext -> rget s (pos_reg Fst (E + (List.length l - 1 - i))) <> None)) ->
  sv_defined s l E.
Proof.
  induction l as [|x l IH]; intros E H; cbn [sv_defined]; [exact I|].
  destruct (H O x eq_refl) as [A B]. cbn [List.length] in A, B. replace (S (List.length l) - 1 - 0)%nat with (List.length l) in A, B by lia.
  split; [exact A|]. split; [exact B|]. apply IH. intros i y Hi. specialize (H (S i) y Hi). cbn [List.length] in H.
  now replace (S (List.length l) - 1 - S i)%nat with (List.length l - 1 - i)%nat in H by lia.
Qed.

Lemma nth_error_rev {X} (l : list X) i x : nth_error l i = Some x -> nth_error (rev l) (List.length l - 1 - i) = Some x.
Proof.
  intros H. assert (Li : (i < List.length l)%nat) by (apply nth_error_Some; congruence).
  rewrite nth_error_nth' with (d := x) by (rewrite rev_length; lia). f_equal.
  rewrite rev_nth by lia. replace (List.length l - S (List.length l - 1 - i))%nat with i by lia.
  now apply nth_error_nth.
Qed.
Lemma nth_error_rev_inv {X} (l : list X) i x : nth_error (rev l) i = Some x -> nth_error l (List.length l - 1 - i) = Some x.
Proof.
  intros H. assert (Li : (i < List.length l)%nat) by (rewrite <- rev_length; apply nth_error_Some; congruence).
  apply nth_error_rev in H. rewrite rev_involutive, rev_length in H.
  exact H.
Qed.

(* the words after store_values of `bs` (variable i at position E + i) into the ff fields of block rv *)
Lemma sv_spec_blk s val E bs rv ff w :
  vals_ok s val E bs -> (N.of_nat (List.length bs) <= ff)%N ->
  let w1 := sv_spec s (rev bs) E rv ff w in
  sv_defined s (rev bs) E /\
  blk_words w1 val E bs rv (N.to_nat ff) /\
  (forall a, a < rv + 16 \/ rv + 16 + 16 * Z.of_N ff <= a -> w1 a = w a).
Proof.
  intros V L w1. split; [|split].
  - apply sv_defined_intro. intros i x Hi. rewrite rev_length.
    assert (Li : (i < List.length bs)%nat) by (rewrite <- rev_length; apply nth_error_Some; congruence).
    apply nth_error_rev_inv in Hi.
    destruct (vals_regv s val E bs _ x V Hi) as (_ & _ & D1 & D2). split; assumption.
  - destruct (sv_spec_fields s (rev bs) E rv ff w ltac:(rewrite rev_length; exact L)) as [F Z0]. rewrite rev_length in *.
    split.
    + intros i b Hi. assert (Li : (i < List.length bs)%nat) by (apply nth_error_Some; congruence).
      destruct (F _ b (nth_error_rev bs i b Hi)) as [F1 F2].
      replace (List.length bs - 1 - (List.length bs - 1 - i))%nat with i in F1, F2 by lia.
      destruct (vals_regv s val E bs i b V Hi) as (S0 & F0 & _ & _).
      replace (rv + 16 + 16 * Z.of_nat (N.to_nat ff - List.length bs + i))
        with (rv + 16 + 16 * Z.of_N (ff - 1 - N.of_nat (List.length bs - 1 - i))) by lia.
      unfold w1. rewrite F1, F2. split; [exact F0|exact S0].
    + intros j Hj. replace (rv + 16 + 16 * Z.of_nat j) with (rv + 16 + 16 * Z.of_N (N.of_nat j)) by lia. apply Z0. lia.
  - intros a Ha. apply sv_spec_frame; [rewrite rev_length; exact L|exact Ha].
Qed.

(* the pointer slots of a block whose fields hold `bs` *)
Lemma blk_words_slots3 w val E bs rv : blk_words w val E bs rv 3 -> (List.length bs <= 3)%nat ->
  [w (rv + 16); w (rv + 32); w (rv + 48)] = Heap.pad 3 (xfsts val E bs).
Proof.
  intros (B1 & B2) L.
  destruct bs as [|b0 [|b1 [|b2 [|]]]]; cbn [List.length] in *; try lia; unfold Heap.pad; cbn [X86MemStore.fsts List.length Nat.sub repeat app].
  - pose proof (B2 0%nat ltac:(lia)) as Z0. pose proof (B2 1%nat ltac:(lia)) as Z1. pose proof (B2 2%nat ltac:(lia)) as Z2.
    cbn in Z0, Z1, Z2. rewrite Z.add_0_r in Z0. rewrite <- Z.add_assoc in Z1, Z2. cbn in Z1, Z2. now rewrite Z0, Z1, Z2.
  - pose proof (B2 0%nat ltac:(lia)) as Z0. pose proof (B2 1%nat ltac:(lia)) as Z1. destruct (B1 0%nat b0 eq_refl) as [A _].
    cbn in Z0, Z1, A. rewrite Z.add_0_r in Z0. rewrite <- Z.add_assoc in Z1, A. cbn in Z1, A. rewrite Nat.add_0_r in A. now rewrite Z0, Z1, A.
  - pose proof (B2 0%nat ltac:(lia)) as Z0. destruct (B1 0%nat b0 eq_refl) as [A _]. destruct (B1 1%nat b1 eq_refl) as [B _].
    cbn in Z0, A, B. rewrite Z.add_0_r in Z0. rewrite <- Z.add_assoc in A, B. cbn in A, B. rewrite Nat.add_0_r in A.
    rewrite Z0, A, B. repeat f_equal; lia.
  - destruct (B1 0%nat b0 eq_refl) as [A _]. destruct (B1 1%nat b1 eq_refl) as [B _]. destruct (B1 2%nat b2 eq_refl) as [C _].
    cbn in A, B, C. rewrite Z.add_0_r in A. rewrite <- Z.add_assoc in B, C. cbn in B, C. rewrite Nat.add_0_r in A.
    rewrite A, B, C. repeat f_equal; lia.
Qed.
Lemma blk_words_slots2 w val E bs rv : blk_words w val E bs rv 2 -> (List.length bs <= 2)%nat ->
  [w (rv + 16); w (rv + 32)] = Heap.pad 2 (xfsts val E bs).
Proof.
  intros (B1 & B2) L.
  destruct bs as [|b0 [|b1 [|]]]; cbn [List.length] in *; try lia; unfold Heap.pad; cbn [X86MemStore.fsts List.length Nat.sub repeat app].
  - pose proof (B2 0%nat ltac:(lia)) as Z0. pose proof (B2 1%nat ltac:(lia)) as Z1.
    cbn in Z0, Z1. rewrite Z.add_0_r in Z0. rewrite <- Z.add_assoc in Z1. cbn in Z1. now rewrite Z0, Z1.
  - pose proof (B2 0%nat ltac:(lia)) as Z0. destruct (B1 0%nat b0 eq_refl) as [A _].
    cbn in Z0, A. rewrite Z.add_0_r in Z0. rewrite <- Z.add_assoc in A. cbn in A. rewrite Nat.add_0_r in A. now rewrite Z0, A.
  - destruct (B1 0%nat b0 eq_refl) as [A _]. destruct (B1 1%nat b1 eq_refl) as [B _].
    cbn in A, B. rewrite Z.add_0_r in A. rewrite <- Z.add_assoc in B. cbn in B. rewrite Nat.add_0_r in A.
    rewrite A, B. repeat f_equal; lia.
Qed.

(* ---------- values of the variables ---------- *)
Lemma vals_ok_keep s s' val E bs :
  (forall k, (2 * N.of_nat E <= k < 2 * N.of_nat (E + List.length bs))%N -> rget s' (rtp k) = rget s (rtp k)) ->
  vals_ok s val E bs -> vals_ok s' val E bs.
Proof.
  intros K V i b Hi. assert (Li : (i < List.length bs)%nat) by (apply nth_error_Some; congruence).
  destruct (V i b Hi) as [A B]. split.
  - rewrite K by lia. exact A.
  - intros Hb. rewrite K by lia. auto.
Qed.
Lemma vals_ok_app_l s val E a b : vals_ok s val E (a ++ b) -> vals_ok s val E a.
Proof. intros H i x Hi. apply H. rewrite nth_error_app1; auto. apply nth_error_Some. congruence. Qed.
Lemma vals_ok_app_r s val E a b : vals_ok s val E (a ++ b) -> vals_ok s val (E + List.length a) b.
Proof.
  intros H i x Hi. specialize (H (List.length a + i)%nat x).
  rewrite nth_error_app2 in H by lia. replace (List.length a + i - List.length a)%nat with i in H by lia. specialize (H Hi).
  now replace (E + (List.length a + i))%nat with (E + List.length a + i)%nat in H by lia.
Qed.

(* ---------- acquire_block from machine-level preconditions ---------- *)
Definition mbounded (k : Z) (s : rstate) (f : Z) : Prop :=
  (forall x, is_blk x -> min_int + k <= hword s x <= max_int) /\ min_int + k <= f <= max_int.

Lemma acq_ok_machine F s :
  acq_ok (abs_heap F s) ->
  exists rv h2, rget s HEAP = Some rv /\ is_blk rv /\ rget s FREE = Some h2 /\
    (hword s rv = 0 -> is_blk h2) /\
    (hword s rv = 0 -> hword s h2 <> 0 ->
       (forall off, off = 16 \/ off = 32 \/ off = 48 -> hword s (h2 + off) = 0 \/ is_blk (hword s (h2 + off))) /\
       mbounded 3 s (hword s h2)).
Proof.
  intros (A1 & A2 & A3 & A4). cbn [abs_heap Heap.heap Heap.free Heap.m] in *.
  pose proof (reg_or0_blk s HEAP A1) as RH. pose proof (reg_or0_nz s FREE A2) as RF.
  exists (reg_or0 s HEAP), (reg_or0 s FREE). split; [exact RH|]. split; [exact A1|]. split; [exact RF|]. split; [exact A3|].
  intros H0 Hn0. destruct (A4 H0 Hn0) as (K & B1 & B2). cbn [abs_mem Heap.ps Heap.hdr] in *. split; [|split; [exact B1|exact B2]].
  inversion K as [|? ? K1 K']; subst. inversion K' as [|? ? K2 K'']; subst. inversion K'' as [|? ? K3 _]; subst.
  intros off [->|[->| ->]]; assumption.
Qed.

Section Chain.
Variable im : image.

Lemma rv_acquire_block_m i t t2 lc s F rv h2 :
  placed im i (fst (acquire_block t t2 lc)) ->
  (4 <= t)%N -> (4 <= t2)%N -> t <> t2 ->
  rget s HEAP = Some rv -> is_blk rv -> rget s FREE = Some h2 ->
  (hword s rv = 0 -> is_blk h2) ->
  (hword s rv = 0 -> hword s h2 <> 0 ->
     (forall off, off = 16 \/ off = 32 \/ off = 48 -> hword s (h2 + off) = 0 \/ is_blk (hword s (h2 + off))) /\
     mbounded 3 s (hword s h2)) ->
  exists s',
    star im i s (padd i (List.length (fst (acquire_block t t2 lc)))) s' /\
    st_eqB (abs_heap (Heap.frontier (snd (Heap.acquire (abs_heap F s)))) s') (snd (Heap.acquire (abs_heap F s))) /\
    rget s' t = Some rv /\ fst (Heap.acquire (abs_heap F s)) = rv /\
    (forall r, r <> t -> r <> t2 -> r <> TEMP -> r <> HEAP -> r <> FREE -> rget s' r = rget s r) /\
    (forall a, ~ is_blk a -> hword s' a = hword s a).
Proof.
  intros PL T4 U4 TU HH HB HF HB2 HCH.
  pose proof (represents_own s rv h2 HH HF) as RP. set (h := own_heap s) in *.
  assert (EH : hp h = rv) by (unfold h, own_heap, reg_or0; cbn [hp]; now rewrite HH).
  assert (EF : fp h = h2) by (unfold h, own_heap, reg_or0; cbn [fp]; now rewrite HF).
  assert (EW : words h = hword s) by reflexivity.
  assert (CHD : words h (hp h) = 0 -> words h (fp h) <> 0 ->
     let hh := {| words := upd (words h) (fp h) 0; hp := fp h; fp := words h (fp h) |} in
     let c0 := words hh (fp h + 16) in let c1 := words hh (fp h + 32) in let c2 := words hh (fp h + 48) in
     child_ok hh c0 /\ child_ok (a_erase c0 hh) c1 /\ child_ok (a_erase c1 (a_erase c0 hh)) c2).
  { rewrite EH, EF, EW. intros E0 FN. destruct (HCH E0 FN) as (KD & BD & BF). pose proof (HB2 E0) as HB2'.
    refine (children_from_bounded {| words := upd (hword s) h2 0; hp := h2; fp := hword s h2 |} h2 HB2' _ _ _ _).
    - split; cbn [words fp]; [|exact BF]. intros x Hx. unfold upd. destruct (x =? h2); [unfold min_int, max_int, two63; lia|apply BD; exact Hx].
    - cbn [words]. rewrite upd_other by lia. apply KD; auto.
    - cbn [words]. rewrite upd_other by lia. apply KD; auto.
    - cbn [words]. rewrite upd_other by lia. apply KD; auto. }
  destruct (habs_acquire F h) as (AF & AS & CO).
  { rewrite EH. exact HB. }
  { rewrite EH, EF, EW. exact HB2. }
  { exact CHD. }
  assert (NZ : forall r, (4 <= r)%N -> r <> ZERO /\ r <> TEMP /\ r <> HEAP /\ r <> FREE).
  { intros r Hr. change ZERO with 0%N. change TEMP with 1%N. change HEAP with 2%N. change FREE with 3%N. lia. }
  destruct (NZ t T4) as (T0 & T1 & T2 & T3). destruct (NZ t2 U4) as (U0 & U1 & U2 & U3).
  destruct (rv_acquire_block_refines im i t t2 lc s h PL T0 T1 T2 T3 U0 U1 U2 U3 TU RP) as (s' & ST & RP' & RT & KR).
  { rewrite EH. now apply is_blk_valid_addr. }
  { rewrite EH, EF, EW. intros E. apply is_blk_valid_block. now apply HB2. }
  { exact CO. }
  assert (AQ : Heap.acquire (abs_heap F s) = Heap.acquire (habs F h)) by reflexivity.
  assert (FA : fst (a_acquire h) = rv).
  { unfold a_acquire. rewrite EH. destruct (negb _); [reflexivity|]. destruct (_ =? 0); reflexivity. }
  exists s'. split; [exact ST|]. split; [|split; [|split; [|split; [exact KR|]]]].
  - rewrite AQ. eapply st_eqB_trans; [apply (represents_abs _ _ _ RP')|exact AS].
  - rewrite RT. f_equal. exact FA.
  - rewrite AQ, <- AF. exact FA.
  - intros a Ha. destruct RP' as (W & _). rewrite W. apply a_acquire_nonblk.
    + rewrite EH. exact HB.
    + rewrite EH, EF, EW. exact HB2.
    + intros E0 FN. destruct (CHD E0 FN) as ((B0 & _) & (B1 & _) & (B2 & _)). cbn [words] in B0, B1, B2.
      rewrite !upd_other in B0, B1, B2 by lia. auto.
    + exact Ha.
Qed.

(* ---------- one round of store_fields ---------- *)
Definition link_code (bp : block_position) (remaining to_store : ctx) : res (list rcode) :=
  match bp with Other => store_field Fst (remaining ++ to_store) HEAP (FIELDS_PER_BLOCK - 1) | Last => Ok [] end.

Lemma store_fields_unfold fuel to_store remaining bp lc cs lc' :
  to_store <> [] -> store_fields (S fuel) to_store remaining bp lc = Ok (cs, lc') ->
  let rl := rest_len (List.length to_store) (3 - bp_n bp) in
  let p := List.length (remaining ++ firstn rl to_store) in
  exists c0 sv c3,
    link_code bp remaining to_store = Ok c0 /\
    store_values (rev (skipn rl to_store)) (remaining ++ firstn rl to_store) HEAP (3 - bp_n bp) = Ok sv /\
    (p < 14)%nat /\
    store_fields fuel (firstn rl to_store) remaining Other (snd (acquire_block (pos_reg Fst p) (pos_reg Snd p) lc)) = Ok (c3, lc') /\
    cs = c0 ++ sv ++ fst (acquire_block (pos_reg Fst p) (pos_reg Snd p) lc) ++ c3.
Proof.
  intros Hne H rl p. cbn [store_fields] in H. destruct to_store as [|x r]; [contradiction|].
  change (FIELDS_PER_BLOCK - bp_n bp)%N with (3 - bp_n bp)%N in H.
  fold (X86MemStoreChain.rest_len (List.length (x :: r)) (3 - bp_n bp)) in H. fold rl in H.
  fold (link_code bp remaining (x :: r)) in H.
  destruct (link_code bp remaining (x :: r)) as [c0|] eqn:E0; [|discriminate]. cbn [rbind] in H.
  destruct (store_values (rev (skipn rl (x :: r))) (remaining ++ firstn rl (x :: r)) HEAP (3 - bp_n bp)) as [sv|] eqn:Esv; [|discriminate].
  cbn [rbind] in H.
  destruct (r_fresh Fst (remaining ++ firstn rl (x :: r))) as [t|] eqn:Et; [|discriminate]. cbn [rbind] in H.
  destruct (r_fresh Snd (remaining ++ firstn rl (x :: r))) as [t2|] eqn:Et2; [|discriminate]. cbn [rbind] in H.
  assert (Hp : (p < 14)%nat).
  { unfold r_fresh, temporary_from_position in Et2. fold p in Et2. destruct (N.ltb_spec (2 * N.of_nat p + tnum_n Snd + RESERVED) REGISTER_NUM) as [L|L]; [|discriminate].
    cbn [tnum_n] in L. change RESERVED with 4%N in L. change REGISTER_NUM with 32%N in L. lia. }
  apply r_fresh_ok in Et. apply r_fresh_ok in Et2. subst t t2. fold p in H.
  destruct (acquire_block (pos_reg Fst p) (pos_reg Snd p) lc) as [c2 lc2] eqn:EA.
  destruct (store_fields fuel (firstn rl (x :: r)) remaining Other lc2) as [[c3 lc3]|] eqn:E3; [|discriminate]. cbn [rbind] in H.
  inversion H; subst. exists c0, sv, c3. cbn [fst snd]. auto.
Qed.

Lemma is_blk_apart b b' : is_blk b -> is_blk b' -> b <> b' -> b + 64 <= b' \/ b' + 64 <= b.
Proof. intros (k & Hk & -> & _) (j & Hj & -> & _) NE. lia. Qed.

Lemma rv_store_block pos bp to_store remaining lc c0 sv s F val link :
  let E := List.length remaining in
  let n := List.length to_store in
  let cap := (3 - bp_n bp)%N in
  let rl := rest_len n cap in
  let t := pos_reg Fst (E + rl) in
  let t2 := pos_reg Snd (E + rl) in
  let acq := fst (acquire_block t t2 lc) in
  to_store <> [] ->
  link_code bp remaining to_store = Ok c0 ->
  store_values (rev (skipn rl to_store)) (remaining ++ firstn rl to_store) HEAP cap = Ok sv ->
  placed im pos (c0 ++ sv ++ acq) ->
  vals_ok s val E to_store ->
  (bp = Other -> rget s (pos_reg Fst (E + n)) = Some link) ->
  acq_ok (abs_heap F s) ->
  let P := Heap.pad (N.to_nat cap) (Heap.lastn (N.to_nat cap) (xfsts val E to_store)) ++ (match bp with Other => [link] | Last => [] end) in
  let res := Heap.alloc P (abs_heap F s) in
  let rv := Heap.heap (abs_heap F s) in
  exists s', star im pos s (padd pos (List.length (c0 ++ sv ++ acq))) s' /\
    st_eqB (abs_heap (Heap.frontier (snd res)) s') (snd res) /\
    rget s' t = Some (fst res) /\ is_blk (fst res) /\
    (forall r, (4 <= r)%N -> r <> t -> r <> t2 -> rget s' r = rget s r) /\
    fst res = rv /\
    blk_words (hword s') val (E + rl) (skipn rl to_store) rv (N.to_nat cap) /\
    (bp = Other -> hword s' (rv + 48) = link) /\
    (forall a, ~ is_blk a -> a < rv \/ rv + 64 <= a -> hword s' a = hword s a).
Proof.
  intros E n cap rl t t2 acq Hne Hc0 Hsv PL V Hlink AOK P res rv0.
  destruct (acq_ok_machine F s AOK) as (rv & h2 & R & Hb & Rf & Hb2 & Hch).
  assert (Erv : rv0 = rv) by (unfold rv0; cbn [abs_heap Heap.heap]; unfold reg_or0; now rewrite R).
  rewrite Erv. clear rv0 Erv.
  assert (Hcap : (cap = 3 \/ cap = 2)%N) by (unfold cap; destruct bp; cbn; auto).
  assert (Hrl : rl = (n - N.to_nat cap)%nat) by apply X86MemStoreChain.rest_len_val.
  assert (Hn1 : (1 <= n)%nat) by (unfold n; destruct to_store; [contradiction|cbn; lia]).
  assert (Hrln : (rl <= n)%nat) by lia.
  assert (Lfirst : List.length (firstn rl to_store) = rl) by (rewrite firstn_length; fold n; lia).
  assert (Lnext : List.length (skipn rl to_store) = (n - rl)%nat) by (rewrite skipn_length; reflexivity).
  assert (Lrr : List.length (remaining ++ firstn rl to_store) = (E + rl)%nat) by (rewrite app_length, Lfirst; reflexivity).
  apply placed_app in PL as [PL0 PL]. apply placed_app in PL as [PL1 PL2].
  pose proof (is_blk_valid_block rv Hb) as VB.
  (* the link *)
  assert (S0 : exists s0, star im pos s (padd pos (List.length c0)) s0 /\ (forall r, rget s0 r = rget s r) /\
            (forall a, hword s0 a = if (match bp with Other => true | Last => false end) && (a =? rv + 48) then link else hword s a)).
  { destruct bp; cbn [link_code] in Hc0.
    - inversion Hc0; subst c0. exists s. split; [apply star_refl|]. split; [reflexivity|]. reflexivity.
    - change (FIELDS_PER_BLOCK - 1)%N with 2%N in Hc0. unfold store_field in Hc0.
      destruct (r_fresh Fst (remaining ++ to_store)) as [tl|] eqn:ET; [|discriminate]. cbn [rbind] in Hc0. inversion Hc0; subst c0.
      apply r_fresh_ok in ET. rewrite app_length in ET. fold E n in ET. subst tl.
      destruct PL0 as [AC0 _].
      exists (sstore s (rv + field_offset Fst 2) link). split; [|split].
      + exec_next AC0 0%nat step_SW; [exact R|exact (Hlink eq_refl)|apply field_fits12; lia|apply field_valid; [exact VB|lia]|]. apply star_refl.
      + intros r. apply rget_sstore.
      + intros a. rewrite hword_sstore by (apply valid_pos, field_valid; [exact VB|lia]). change (field_offset Fst 2) with 48. reflexivity. }
  destruct S0 as (s0 & ST0 & RG0 & W0).
  assert (W0' : forall a, a <> rv + 48 -> hword s0 a = hword s a).
  { intros a Ha. rewrite W0. destruct (Z.eqb_spec a (rv + 48)); [contradiction|]. now rewrite andb_false_r. }
  (* the values *)
  assert (V1 : vals_ok s val (E + rl) (skipn rl to_store)).
  { rewrite <- Lfirst at 1. apply (vals_ok_app_r s val E (firstn rl to_store)). now rewrite firstn_skipn. }
  assert (Lcap : (N.of_nat (List.length (skipn rl to_store)) <= cap)%N) by (rewrite Lnext; lia).
  destruct (sv_spec_blk s val (E + rl) (skipn rl to_store) rv cap (hword s0) V1 Lcap) as (SD & BW & FRM).
  set (w1 := sv_spec s (rev (skipn rl to_store)) (E + rl) rv cap (hword s0)) in *.
  assert (Hff : (cap <= 3)%N) by (destruct Hcap as [-> | ->]; lia).
  destruct PL1 as [AC1 _].
  rewrite <- Lrr in SD.
  destruct (rv_store_values_refines im (rev (skipn rl to_store)) (remaining ++ firstn rl to_store) cap sv _ s0 s rv Hsv
              ltac:(rewrite rev_length; exact Lcap) Hff AC1 RG0 R VB SD) as (s1 & ST1 & RG1 & W1).
  rewrite Lrr in W1. fold w1 in W1.
  assert (R1 : rget s1 HEAP = Some rv) by (rewrite RG1; exact R).
  assert (Rf1 : rget s1 FREE = Some h2) by (rewrite RG1; exact Rf).
  assert (Hout : forall a, a < rv + 16 \/ rv + 64 <= a -> hword s1 a = hword s a).
  { intros a Ha. rewrite W1, FRM by lia. apply W0'. lia. }
  assert (Hdr : forall x, is_blk x -> hword s1 x = hword s x).
  { intros x Hx. apply Hout. destruct (Z.eq_dec x rv) as [->|Hne']; [lia|]. destruct (is_blk_apart x rv Hx Hb Hne'); lia. }
  assert (Hoth : forall x i, is_blk x -> x <> rv -> 0 <= i < 64 -> hword s1 (x + i) = hword s (x + i)).
  { intros x i Hx Hne' Hi. apply Hout. destruct (is_blk_apart x rv Hx Hb Hne'); lia. }
  assert (Hb21 : hword s1 rv = 0 -> is_blk h2) by (rewrite Hdr by auto; exact Hb2).
  assert (Hch1 : hword s1 rv = 0 -> hword s1 h2 <> 0 ->
     (forall off, off = 16 \/ off = 32 \/ off = 48 -> hword s1 (h2 + off) = 0 \/ is_blk (hword s1 (h2 + off))) /\
     mbounded 3 s1 (hword s1 h2)).
  { intros H0 Hn0. pose proof (Hb21 H0) as Hbh2.
    assert (Hne' : h2 <> rv) by (intros ->; contradiction).
    rewrite Hdr in H0, Hn0 by auto. destruct (Hch H0 Hn0) as [Kids [B1 B2]]. split.
    - intros off Hoff. rewrite Hoth by (auto; lia). now apply Kids.
    - rewrite Hdr by auto. split; [|exact B2]. intros x Hx. rewrite Hdr by auto. now apply B1. }
  assert (T4 : (4 <= t)%N) by apply pos_reg_reserved. assert (U4 : (4 <= t2)%N) by apply pos_reg_reserved.
  assert (TU : t <> t2) by (unfold t, t2; intros Eq; apply pos_reg_inj in Eq as [Eq _]; discriminate).
  destruct (rv_acquire_block_m _ t t2 lc s1 F rv h2 PL2 T4 U4 TU R1 Hb Rf1 Hb21 Hch1)
    as (s2 & ST2 & EQ2 & Rr & Ef & Oth & NB).
  (* the abstract side *)
  assert (RH : reg_or0 s HEAP = rv) by (unfold reg_or0; now rewrite R).
  assert (RF : reg_or0 s FREE = h2) by (unfold reg_or0; now rewrite Rf).
  assert (EP : [hword s1 (rv + 16); hword s1 (rv + 32); hword s1 (rv + 48)] = P).
  { unfold P. assert (EFS : xfsts val (E + rl) (skipn rl to_store) = Heap.lastn (N.to_nat cap) (xfsts val E to_store)).
    { rewrite X86MemStoreChain.fsts_skipn by (fold n; lia). unfold Heap.lastn. rewrite X86MemStore.fsts_length. fold n. now rewrite Hrl. }
    rewrite <- EFS. rewrite !W1. destruct bp; unfold cap in *; cbn [bp_n] in *.
    - change (3 - 0)%N with 3%N in *. change (N.to_nat 3) with 3%nat in *. rewrite app_nil_r.
      apply blk_words_slots3; [exact BW|rewrite Lnext; lia].
    - change (3 - 1)%N with 2%N in *. change (N.to_nat 2) with 2%nat in *.
      rewrite <- (blk_words_slots2 w1 val (E + rl) (skipn rl to_store) rv BW ltac:(rewrite Lnext; lia)).
      cbn [app]. f_equal. f_equal. f_equal. rewrite FRM by lia. rewrite W0, Z.eqb_refl. reflexivity. }
  set (A := {| Heap.m := Heap.set_ps (abs_mem s) rv P; Heap.heap := rv; Heap.free := h2; Heap.frontier := F |}).
  assert (Eres : res = Heap.acquire A).
  { unfold res, Heap.alloc, A. cbn [abs_heap Heap.m Heap.heap Heap.free Heap.frontier]. now rewrite RH, RF. }
  assert (EQ1' : st_eqB (abs_heap F s1) A).
  { split; [cbn [abs_heap Heap.heap A]; unfold reg_or0; now rewrite R1|].
    split; [cbn [abs_heap Heap.free A]; unfold reg_or0; now rewrite Rf1|]. split; [reflexivity|].
    intros x Hx. unfold A. cbn [abs_heap Heap.m]. unfold Heap.set_ps, Heap.upd.
    destruct (Z.eqb_spec x rv) as [->|Hne'].
    - unfold abs_mem at 1. rewrite EP. cbn [abs_mem Heap.hdr]. now rewrite Hdr.
    - unfold abs_mem. rewrite Hdr by exact Hx. rewrite !Hoth by (auto; lia). reflexivity. }
  destruct (acquire_st_eqB (abs_heap F s1) A EQ1') as [Efst Esnd].
  { exact Hb. }
  { unfold A. cbn [Heap.heap Heap.free Heap.m]. unfold Heap.set_ps. rewrite Heap.upd_same. cbn [Heap.hdr abs_mem]. exact Hb2. }
  { unfold A. cbn [Heap.heap Heap.free Heap.m]. unfold Heap.set_ps. rewrite Heap.upd_same. cbn [Heap.hdr abs_mem].
    intros H0 Hn0 c Hc. pose proof (Hb2 H0) as Hbh2. assert (Hne' : h2 <> rv).
    { intros ->. rewrite Heap.upd_same in Hn0. cbn [Heap.hdr] in Hn0. contradiction. }
    unfold Heap.upd in Hn0, Hc. destruct (Z.eqb_spec h2 rv); [contradiction|]. cbn [abs_mem Heap.hdr Heap.ps] in Hn0, Hc.
    destruct (Hch H0 Hn0) as [Kids _]. destruct Hc as [<-|[<-|[<-|[]]]]; apply Kids; auto. }
  assert (EFr : Heap.frontier (snd (Heap.acquire (abs_heap F s1))) = Heap.frontier (snd (Heap.acquire A)))
    by (destruct Esnd as (_ & _ & X & _); exact X).
  clearbody res. subst res.
  exists s2. split; [|split; [|split; [|split; [|split; [|split; [|split; [|split]]]]]]].
  - rewrite !app_length, !padd_add. eapply star_trans; [exact ST0|]. eapply star_trans; [exact ST1|]. exact ST2.
  - rewrite <- EFr. eapply st_eqB_trans; eassumption.
  - rewrite <- Efst, Ef. exact Rr.
  - rewrite <- Efst, Ef. exact Hb.
  - intros r Hr4 Nt Nt2. rewrite Oth; [apply RG1|exact Nt|exact Nt2| | |].
    + change TEMP with 1%N. lia.
    + change HEAP with 2%N. lia.
    + change FREE with 3%N. lia.
  - rewrite <- Efst. exact Ef.
  - destruct BW as [BW1 BW2]. split.
    + intros i b Hi. destruct (BW1 i b Hi) as [A1 A2]. assert (Hil : (i < n - rl)%nat) by (rewrite <- Lnext; apply nth_error_Some; congruence).
      rewrite Lnext in *. rewrite !NB, !W1; [auto| |].
      * rewrite <- !Z.add_assoc. apply not_blk_off; [exact Hb|lia].
      * rewrite <- Z.add_assoc. apply not_blk_off; [exact Hb|lia].
    + intros j Hj. rewrite Lnext in *. rewrite NB, W1; [now apply BW2|]. rewrite <- Z.add_assoc. apply not_blk_off; [exact Hb|lia].
  - intros ->. rewrite NB by (apply not_blk_off; [exact Hb|lia]). rewrite W1. unfold w1, cap. cbn [bp_n]. change (3 - 1)%N with 2%N.
    rewrite sv_spec_frame by (rewrite ?rev_length, ?Lnext; unfold cap in *; cbn [bp_n] in *; lia). rewrite W0, Z.eqb_refl. reflexivity.
  - intros a Ha Hout'. rewrite NB by exact Ha. apply Hout. lia.
Qed.

Lemma star_app_len pos s (a b : list rcode) s1 s2 :
  star im pos s (padd pos (List.length a)) s1 -> star im (padd pos (List.length a)) s1 (padd (padd pos (List.length a)) (List.length b)) s2 ->
  star im pos s (padd pos (List.length (a ++ b))) s2.
Proof. intros A B. rewrite app_length, padd_add. eapply star_trans; eassumption. Qed.

Lemma pos_reg_lt_keep E rl k :
  (2 * N.of_nat E <= k < 2 * N.of_nat (E + rl))%N -> (4 <= rtp k)%N /\ rtp k <> pos_reg Fst (E + rl) /\ rtp k <> pos_reg Snd (E + rl).
Proof. intros H. unfold rtp, pos_reg. cbn [tnum_n]. change RESERVED with 4%N. lia. Qed.

(* ---------- the continuation blocks (BlockPosition::Other) ---------- *)
(* the last conjunct (chain of the object, words of the variables) is conditional on the acquired blocks being
   pairwise different and different from the blocks already written: the rest holds without *)
Lemma rv_store_fields_other : forall fuel to_store remaining lc cs lc' pos s F val link fa,
  store_fields fuel to_store remaining Other lc = Ok (cs, lc') ->
  (List.length to_store < fuel)%nat -> (List.length to_store <= fa)%nat ->
  placed im pos cs ->
  vals_ok s val (List.length remaining) to_store ->
  rget s (pos_reg Fst (List.length remaining + List.length to_store)) = Some link ->
  chain_pre fa (xfsts val (List.length remaining) to_store) link (abs_heap F s) ->
  let acq := chain_acq fa (xfsts val (List.length remaining) to_store) link (abs_heap F s) in
  let res := Heap.store_other fa (xfsts val (List.length remaining) to_store) link (abs_heap F s) in
  exists s', star im pos s (padd pos (List.length cs)) s' /\
    st_eqB (abs_heap (Heap.frontier (snd res)) s') (snd res) /\
    rget s' (pos_reg Fst (List.length remaining)) = Some (fst res) /\
    (forall r, (4 <= r)%N -> (r < pos_reg Fst (List.length remaining))%N -> rget s' r = rget s r) /\
    (forall a, ~ is_blk a -> (forall b, In b acq -> a < b \/ b + 64 <= a) -> hword s' a = hword s a) /\
    (forall done kk,
       let bl := wblocks kk (hword s) link in
       let K := (kk + nbo (List.length to_store))%nat in
       NoDup acq -> Forall is_blk bl -> (forall b, In b acq -> ~ In b bl) ->
       chain_holds (hword s) val (List.length remaining + List.length to_store) done kk link ->
       (to_store <> [] -> List.length done = (2 * kk + 3)%nat) ->
       wblocks K (hword s') (fst res) = rev acq ++ bl /\
       Forall is_blk (rev acq ++ bl) /\
       chain_holds (hword s') val (List.length remaining) (to_store ++ done) K (fst res)).
Proof.
  induction fuel as [|fuel IH]; intros to_store remaining lc cs lc' pos s F val link fa Hsf Hfuel Hfa PL V Hlink Pre acq res; [lia|].
  set (E := List.length remaining) in *.
  destruct to_store as [|x r].
  - cbn [store_fields] in Hsf. inversion Hsf; subst cs lc'. cbn [List.length] in Hlink |- *. rewrite Nat.add_0_r in Hlink |- *.
    assert (Hres : res = (link, abs_heap F s)) by (unfold res; destruct fa; reflexivity).
    assert (Hacq : acq = []) by (unfold acq; destruct fa; reflexivity).
    rewrite Hres, Hacq. cbn [fst snd abs_heap Heap.frontier List.length padd rev app].
    exists s. split; [apply star_refl|]. split; [apply st_eqB_refl|]. repeat (split; [auto; fail|]).
    intros done kk _ Hbl _ CH _. change (nbo 0) with 0%nat. rewrite Nat.add_0_r. auto.
  - set (to_store := x :: r) in *. set (n := List.length to_store) in *.
    destruct (store_fields_unfold fuel to_store remaining Other lc cs lc' ltac:(discriminate) Hsf) as (c0 & sv & c3 & Hc0 & Hsv & Hk & Hsf3 & ->).
    change (3 - bp_n Other)%N with 2%N in *. fold n in Hk, Hsv, Hsf3, PL |- *.
    set (rl := rest_len n 2) in *.
    assert (Hn1 : (1 <= n)%nat) by (unfold n, to_store; cbn [List.length]; lia).
    assert (Hrl : rl = (n - 2)%nat) by apply X86MemStoreChain.rest_len_val.
    assert (Lfirst : List.length (firstn rl to_store) = rl) by (rewrite firstn_length; fold n; lia).
    assert (Lnext : List.length (skipn rl to_store) = (n - rl)%nat) by (rewrite skipn_length; reflexivity).
    assert (Lrr : List.length (remaining ++ firstn rl to_store) = (E + rl)%nat) by (rewrite app_length, Lfirst; reflexivity).
    rewrite Lrr in *.
    destruct fa as [|fa]; [unfold n, to_store in Hfa; cbn [List.length] in Hfa; lia|].
    set (fields := xfsts val E to_store) in *.
    assert (Hfne : fields <> []) by (unfold fields, to_store; cbn [X86MemStore.fsts]; discriminate).
    assert (Lfields : List.length fields = n) by apply X86MemStore.fsts_length.
    set (P := Heap.pad 2 (Heap.lastn 2 fields) ++ [link]) in *.
    assert (Pre' : acq_ok (abs_heap F s) /\ chain_pre fa (Heap.butlastn 2 fields) (fst (Heap.alloc P (abs_heap F s))) (snd (Heap.alloc P (abs_heap F s)))).
    { cbn [X86MemStoreChain.chain_pre] in Pre. destruct fields; [contradiction|]. exact Pre. }
    destruct Pre' as [AOK Pre'].
    assert (Hres : res = Heap.store_other fa (Heap.butlastn 2 fields) (fst (Heap.alloc P (abs_heap F s))) (snd (Heap.alloc P (abs_heap F s))))
      by (unfold res; now rewrite X86MemStoreChain.store_other_step).
    assert (Hacq : acq = Heap.heap (abs_heap F s) ::
                     chain_acq fa (Heap.butlastn 2 fields) (fst (Heap.alloc P (abs_heap F s))) (snd (Heap.alloc P (abs_heap F s)))).
    { unfold acq. cbn [X86HeapAcq.chain_acq]. destruct fields; [contradiction|]. reflexivity. }
    rewrite Hres. clear Hres res. rewrite Hacq. clear Hacq acq.
    rewrite !app_assoc in PL. apply placed_app in PL as [PL1 PL3].
    rewrite <- !app_assoc in PL1. rewrite <- (app_assoc c0 sv) in PL3.
    destruct (rv_store_block pos Other to_store remaining lc c0 sv s F val link ltac:(discriminate) Hc0 Hsv PL1 V (fun _ => Hlink) AOK)
      as (s2 & ST2 & EQ2 & Rr & Bb & Oth & Erv & BW & LK & Fr2).
    specialize (LK eq_refl).
    change (N.to_nat (3 - bp_n Other)) with 2%nat in *. change (3 - bp_n Other)%N with 2%N in *. fold E n rl fields P in ST2, EQ2, Rr, Bb, Oth, Erv, BW.
    set (b := fst (Heap.alloc P (abs_heap F s))) in *. set (a1 := snd (Heap.alloc P (abs_heap F s))) in *.
    set (rv := Heap.heap (abs_heap F s)) in *. rewrite <- Erv in BW, LK, Fr2 |- *. clear Erv rv.
    assert (Hbut : Heap.butlastn 2 fields = xfsts val E (firstn rl to_store)).
    { unfold Heap.butlastn. rewrite Lfields. unfold fields. rewrite X86MemStoreChain.fsts_firstn, Hrl. reflexivity. }
    rewrite Hbut in *.
    assert (V2 : vals_ok s2 val E (firstn rl to_store)).
    { eapply vals_ok_keep; [|apply (vals_ok_app_l s val E (firstn rl to_store) (skipn rl to_store)); now rewrite firstn_skipn].
      intros k Hk'. rewrite Lfirst in Hk'. destruct (pos_reg_lt_keep E rl k Hk') as (K1 & K2 & K3). apply Oth; assumption. }
    destruct (X86MemStoreChain.store_other_congr fa _ b a1 (abs_heap (Heap.frontier a1) s2) (st_eqB_sym _ _ EQ2) Pre') as (Pre2 & Ef & Es).
    pose proof (X86MemStoreFull.chain_acq_congr fa _ b a1 (abs_heap (Heap.frontier a1) s2) (st_eqB_sym _ _ EQ2) Pre') as Eacq.
    set (acq' := chain_acq fa (xfsts val E (firstn rl to_store)) b a1) in *.
    rewrite (app_assoc sv), (app_assoc c0).
    destruct (IH (firstn rl to_store) remaining _ c3 lc' _ s2 (Heap.frontier a1) val b fa Hsf3
                ltac:(rewrite Lfirst; unfold n, to_store in *; cbn [List.length] in *; lia)
                ltac:(rewrite Lfirst; unfold n, to_store in *; cbn [List.length] in *; lia) PL3 V2)
      as (s3 & ST3 & EQ3 & R3 & Oth3 & Fr3 & Strong3).
    { rewrite Lfirst. exact Rr. }
    { exact Pre2. }
    fold E in EQ3, R3, Oth3, Fr3, Strong3. rewrite <- Eacq in Fr3, Strong3. rewrite Lfirst in Strong3.
    exists s3. split; [|split; [|split; [|split; [|split]]]].
    + eapply star_app_len; eassumption.
    + destruct Es as (X1 & X2 & X3 & X4). rewrite X3.
      eapply st_eqB_trans; [exact EQ3|]. apply st_eqB_sym. split; [exact X1|]. split; [exact X2|]. split; [exact X3|exact X4].
    + rewrite Ef. exact R3.
    + intros r0 Hr4 Hr0. rewrite Oth3 by assumption. apply Oth; [exact Hr4| |]; unfold pos_reg in *; cbn [tnum_n] in *; lia.
    + intros a Ha Hout. rewrite Fr3; [apply Fr2; [exact Ha|apply Hout; left; reflexivity]|exact Ha|].
      intros y Hy. apply Hout. right. exact Hy.
    + (* the chain after this round *)
      intros done kk. cbv zeta. set (bl := wblocks kk (hword s) link). intros ND Hbl Hdisj CH Hfull.
      assert (Hnin : ~ In b bl) by (apply Hdisj; left; reflexivity).
      assert (Hsame : forall x, In x bl -> forall i, 0 < i < 64 -> hword s2 (x + i) = hword s (x + i))
        by (apply (X86MemStoreFull.frame_blocks (hword s) (hword s2) b bl Fr2 Bb Hbl Hnin)).
      destruct (X86MemStoreFull.wchain_congr (hword s) (hword s2) kk link) as [EB2 _]; [intros y Hy; apply Hsame; [exact Hy|lia]|].
      assert (Hbl2 : wblocks (S kk) (hword s2) b = b :: bl) by (cbn [X86HeapDefs.wblocks]; rewrite LK, EB2; reflexivity).
      assert (Ldone : List.length done = (2 * kk + 3)%nat) by (apply Hfull; discriminate).
      assert (CH2 : chain_holds (hword s2) val (E + rl) (skipn rl to_store ++ done) (S kk) b).
      { apply (X86MemStoreFull.chain_holds_ext _ _ _ _ _ _ link); [|exact Ldone|exact LK|exact BW|rewrite Lnext; lia].
        rewrite Lnext. replace (E + rl + (n - rl))%nat with (E + n)%nat by lia.
        eapply X86MemStoreFull.chain_holds_congr; [exact CH|exact Hsame]. }
      destruct (Strong3 (skipn rl to_store ++ done) (S kk)) as (WB3 & FB3 & CH3).
      { inversion ND; assumption. }
      { rewrite Hbl2. apply Forall_cons; [exact Bb|exact Hbl]. }
      { rewrite Hbl2. intros y Hy [<-|Hin].
        - inversion ND; contradiction.
        - apply (Hdisj y); [right; exact Hy|exact Hin]. }
      { exact CH2. }
      { intros Hne'. rewrite app_length, Lnext, Ldone.
        assert (rl <> 0)%nat by (intros H0; rewrite H0 in Hne'; apply Hne'; reflexivity). lia. }
      rewrite Hbl2 in WB3, FB3.
      assert (HK : (kk + nbo n = S kk + nbo rl)%nat) by (rewrite (X86MemLoadChain.nbo_step n Hn1), Hrl; lia).
      assert (Hrev : rev (b :: acq') ++ bl = rev acq' ++ b :: bl) by (cbn [rev]; now rewrite <- app_assoc).
      fold n. split; [|split].
      * rewrite HK, Ef, Hrev. exact WB3.
      * rewrite Hrev. exact FB3.
      * rewrite HK, Ef. rewrite app_assoc, firstn_skipn in CH3. exact CH3.
Qed.

(* ---------- the first round (BlockPosition::Last) followed by the continuation blocks ---------- *)
Lemma rv_store_rounds pos to_store remaining lc cs lc' s F val :
  r_store to_store remaining lc = Ok (cs, lc') -> to_store <> [] ->
  placed im pos cs ->
  vals_ok s val (List.length remaining) to_store ->
  let E := List.length remaining in let n := List.length to_store in let k := Heap.nlinks n in
  let fields := xfsts val E to_store in
  alloc_object_pre fields (abs_heap F s) ->
  let res := Heap.alloc_object fields (abs_heap F s) in
  exists s', star im pos s (padd pos (List.length cs)) s' /\
    st_eqB (abs_heap (Heap.frontier (snd res)) s') (snd res) /\
    rget s' (pos_reg Fst E) = Some (fst res) /\
    (forall r, (4 <= r)%N -> (r < pos_reg Fst E)%N -> rget s' r = rget s r) /\
    (forall a, ~ is_blk a -> (forall b, In b (alloc_object_acq fields (abs_heap F s)) -> a < b \/ b + 64 <= a) -> hword s' a = hword s a) /\
    (NoDup (alloc_object_acq fields (abs_heap F s)) ->
     wblocks k (hword s') (fst res) = rev (alloc_object_acq fields (abs_heap F s)) /\
     Forall is_blk (wblocks k (hword s') (fst res)) /\
     (let A := waddrs k (hword s') (fst res) in
      (forall i b, nth_error to_store i = Some b ->
         let a := nth (List.length A - n + i) A 0 in
         hword s' a = xfst_slot val (E + i) b /\ hword s' (a + 8) = xsnd_slot val (E + i)) /\
      (forall j, (j < List.length A - n)%nat -> hword s' (nth j A 0) = 0))).
Proof.
  intros Hx Hne PL V E n k fields Pre res. unfold r_store in Hx. fold n in Hx.
  destruct (store_fields_unfold n to_store remaining Last lc cs lc' Hne Hx) as (c0 & sv & c3 & Hc0 & Hsv & Hk & Hsf3 & ->).
  change (3 - bp_n Last)%N with 3%N in *. fold n in Hk, Hsv, Hsf3, PL |- *.
  set (rl := rest_len n 3) in *.
  assert (Hrl : rl = (n - 3)%nat) by apply X86MemStoreChain.rest_len_val.
  assert (Lfirst : List.length (firstn rl to_store) = rl) by (rewrite firstn_length; fold n; lia).
  assert (Lnext : List.length (skipn rl to_store) = (n - rl)%nat) by (rewrite skipn_length; reflexivity).
  assert (Hn : (1 <= n)%nat) by (unfold n; destruct to_store; [contradiction|cbn; lia]).
  assert (Lrr : List.length (remaining ++ firstn rl to_store) = (E + rl)%nat) by (rewrite app_length, Lfirst; reflexivity).
  rewrite Lrr in *.
  assert (Lfields : List.length fields = n) by apply X86MemStore.fsts_length.
  assert (Hfne : fields <> []) by (intros Hf; rewrite Hf in Lfields; cbn in Lfields; lia).
  set (P := Heap.pad 3 (Heap.lastn 3 fields)) in *.
  assert (Pre' : acq_ok (abs_heap F s) /\ chain_pre n (Heap.butlastn 3 fields) (fst (Heap.alloc P (abs_heap F s))) (snd (Heap.alloc P (abs_heap F s)))).
  { unfold X86MemStoreChain.alloc_object_pre in Pre. rewrite Lfields in Pre. destruct fields; [contradiction|]. exact Pre. }
  destruct Pre' as [AOK Pre'].
  assert (Hres : res = Heap.store_other n (Heap.butlastn 3 fields) (fst (Heap.alloc P (abs_heap F s))) (snd (Heap.alloc P (abs_heap F s)))).
  { unfold res, Heap.alloc_object. rewrite Lfields. fold P. destruct fields; [contradiction|]. destruct (Heap.alloc P (abs_heap F s)). reflexivity. }
  assert (Hacq : alloc_object_acq fields (abs_heap F s) = Heap.heap (abs_heap F s) ::
                   chain_acq n (Heap.butlastn 3 fields) (fst (Heap.alloc P (abs_heap F s))) (snd (Heap.alloc P (abs_heap F s)))).
  { unfold X86HeapAcq.alloc_object_acq. rewrite Lfields. fold P. destruct fields; [contradiction|]. reflexivity. }
  rewrite Hres. clear Hres res. rewrite Hacq. clear Hacq.
  rewrite !app_assoc in PL. apply placed_app in PL as [PL1 PL3].
  rewrite <- !app_assoc in PL1. rewrite <- (app_assoc c0 sv) in PL3.
  destruct (rv_store_block pos Last to_store remaining lc c0 sv s F val 0 Hne Hc0 Hsv PL1 V ltac:(discriminate) AOK)
    as (s2 & ST2 & EQ2 & Rr & Bb & Oth & Erv & BW & _ & Fr2).
  change (N.to_nat (3 - bp_n Last)) with 3%nat in *. change (3 - bp_n Last)%N with 3%N in *. rewrite app_nil_r in *.
  fold E n rl fields P in ST2, EQ2, Rr, Bb, Oth, Erv, BW.
  set (b := fst (Heap.alloc P (abs_heap F s))) in *. set (a1 := snd (Heap.alloc P (abs_heap F s))) in *.
  set (rv := Heap.heap (abs_heap F s)) in *. rewrite <- Erv in BW, Fr2 |- *. clear Erv rv.
  assert (Hbut : Heap.butlastn 3 fields = xfsts val E (firstn rl to_store)).
  { unfold Heap.butlastn. rewrite Lfields. unfold fields. rewrite X86MemStoreChain.fsts_firstn, Hrl. reflexivity. }
  rewrite Hbut in *.
  assert (V2 : vals_ok s2 val E (firstn rl to_store)).
  { eapply vals_ok_keep; [|apply (vals_ok_app_l s val E (firstn rl to_store) (skipn rl to_store)); now rewrite firstn_skipn].
    intros k0 Hk'. rewrite Lfirst in Hk'. destruct (pos_reg_lt_keep E rl k0 Hk') as (K1 & K2 & K3). apply Oth; assumption. }
  destruct (X86MemStoreChain.store_other_congr n _ b a1 (abs_heap (Heap.frontier a1) s2) (st_eqB_sym _ _ EQ2) Pre') as (Pre2 & Ef & Es).
  pose proof (X86MemStoreFull.chain_acq_congr n _ b a1 (abs_heap (Heap.frontier a1) s2) (st_eqB_sym _ _ EQ2) Pre') as Eacq.
  set (acq' := chain_acq n (xfsts val E (firstn rl to_store)) b a1) in *.
  rewrite (app_assoc sv), (app_assoc c0).
  destruct (rv_store_fields_other n (firstn rl to_store) remaining _ c3 lc' _ s2 (Heap.frontier a1) val b n Hsf3
              ltac:(rewrite Lfirst; lia) ltac:(rewrite Lfirst; lia) PL3 V2)
    as (s3 & ST3 & EQ3 & R3 & Oth3 & Fr3 & Strong3).
  { rewrite Lfirst. exact Rr. }
  { exact Pre2. }
  fold E in EQ3, R3, Oth3, Fr3, Strong3. rewrite <- Eacq in Fr3, Strong3. rewrite Lfirst in Strong3.
  exists s3. split; [|split; [|split; [|split; [|split]]]].
  + eapply star_app_len; eassumption.
  + destruct Es as (X1 & X2 & X3 & X4). rewrite X3.
    eapply st_eqB_trans; [exact EQ3|]. apply st_eqB_sym. split; [exact X1|]. split; [exact X2|]. split; [exact X3|exact X4].
  + rewrite Ef. exact R3.
  + intros r0 Hr4 Hr0. rewrite Oth3 by assumption. apply Oth; [exact Hr4| |]; unfold pos_reg in *; cbn [tnum_n] in *; lia.
  + intros a Ha Hout. rewrite Fr3; [apply Fr2; [exact Ha|apply Hout; left; reflexivity]|exact Ha|].
    intros y Hy. apply Hout. right. exact Hy.
  + intros ND.
    assert (CH2 : chain_holds (hword s2) val (E + rl) (skipn rl to_store) 0 b)
      by (apply X86MemStoreFull.chain_holds_last; [exact BW|rewrite Lnext; lia]).
    destruct (Strong3 (skipn rl to_store) 0%nat) as (WB3 & FB3 & CH3).
    { inversion ND; assumption. }
    { cbn [X86HeapDefs.wblocks]. apply Forall_cons; [exact Bb|apply Forall_nil]. }
    { cbn [X86HeapDefs.wblocks]. intros y Hy [<-|[]]. inversion ND; contradiction. }
    { exact CH2. }
    { intros Hne'. rewrite Lnext.
      assert (rl <> 0)%nat by (intros H0; rewrite H0 in Hne'; apply Hne'; reflexivity). lia. }
    cbn [X86HeapDefs.wblocks] in WB3, FB3. rewrite firstn_skipn in CH3. cbn [Nat.add] in WB3, CH3.
    assert (HK : k = nbo rl) by (unfold k; rewrite X86MemLoadChain.nlinks_nbo, Hrl; reflexivity).
    rewrite <- HK, <- Ef in WB3, CH3.
    assert (Hrev : rev (b :: acq') = rev acq' ++ [b]) by reflexivity.
    split; [rewrite Hrev; exact WB3|]. split; [rewrite WB3; exact FB3|].
    destruct CH3 as (C1 & C2 & _). cbv zeta. fold n in C1, C2. split; [exact C1|exact C2].
Qed.

(* ---------- r_store of any number of variables = Heap.alloc_object, with words, chain and frames ---------- *)
Theorem rv_store_chain pos to_store remaining lc cs lc' s F val :
  r_store to_store remaining lc = Ok (cs, lc') -> to_store <> [] ->
  placed im pos cs ->
  vals_ok s val (List.length remaining) to_store ->
  let E := List.length remaining in let n := List.length to_store in let k := Heap.nlinks n in
  let fields := xfsts val E to_store in
  alloc_object_pre fields (abs_heap F s) ->
  NoDup (alloc_object_acq fields (abs_heap F s)) ->
  let res := Heap.alloc_object fields (abs_heap F s) in
  exists s', star im pos s (padd pos (List.length cs)) s' /\
    st_eqB (abs_heap (Heap.frontier (snd res)) s') (snd res) /\
    rget s' (rtp (2 * N.of_nat E)) = Some (fst res) /\
    (forall q, (q < 2 * N.of_nat E)%N -> rget s' (rtp q) = rget s (rtp q)) /\
    wblocks k (hword s') (fst res) = rev (alloc_object_acq fields (abs_heap F s)) /\
    Forall is_blk (wblocks k (hword s') (fst res)) /\
    (let A := waddrs k (hword s') (fst res) in
     (forall i b, nth_error to_store i = Some b ->
        let a := nth (List.length A - n + i) A 0 in
        hword s' a = xfst_slot val (E + i) b /\ hword s' (a + 8) = xsnd_slot val (E + i)) /\
     (forall j, (j < List.length A - n)%nat -> hword s' (nth j A 0) = 0)) /\
    (forall a, ~ is_blk a -> (forall b, In b (alloc_object_acq fields (abs_heap F s)) -> a < b \/ b + 64 <= a) -> hword s' a = hword s a).
Proof.
  intros Hx Hne PL V E n k fields Pre ND res.
  destruct (rv_store_rounds pos to_store remaining lc cs lc' s F val Hx Hne PL V Pre)
    as (s' & X1 & X2 & X3 & X4 & X7 & X9).
  destruct (X9 ND) as (Y1 & Y2 & Y3).
  exists s'. split; [exact X1|]. split; [exact X2|]. split.
  { rewrite pos_reg_rtp in X3. cbn [tnum_n] in X3. rewrite N.add_0_r in X3. exact X3. }
  split.
  { intros q Hq. apply X4; unfold rtp, pos_reg; cbn [tnum_n]; change RESERVED with 4%N; fold E; lia. }
  split; [exact Y1|]. split; [exact Y2|]. split; [exact Y3|exact X7].
Qed.

(* nothing to store: the null pointer *)
Theorem rv_store_empty pos remaining lc cs lc' s :
  r_store [] remaining lc = Ok (cs, lc') -> placed im pos cs ->
  lc' = lc /\
  exists s', star im pos s (padd pos (List.length cs)) s' /\
    rget s' (rtp (2 * N.of_nat (List.length remaining))) = Some 0 /\
    (forall r, r <> rtp (2 * N.of_nat (List.length remaining)) -> rget s' r = rget s r) /\
    (forall a, hword s' a = hword s a).
Proof.
  intros XS PL. unfold r_store in XS. cbn [List.length store_fields] in XS.
  destruct (r_fresh Fst remaining) as [t1|] eqn:T1; cbn [rbind] in XS; [|discriminate].
  inversion XS; subst cs lc'. split; [reflexivity|].
  apply r_fresh_ok in T1. subst t1. rewrite pos_reg_rtp in *. cbn [tnum_n] in *. rewrite N.add_0_r in *.
  set (t1 := rtp (2 * N.of_nat (List.length remaining))) in *.
  assert (NZ : t1 <> 0%N) by (unfold t1, rtp; lia).
  exists (rset s t1 (rget s ZERO)). split; [|split; [|split]].
  - destruct PL as [AC _]. exec_next AC 0%nat step_MV. apply star_refl.
  - rewrite rget_rset_same by exact NZ. reflexivity.
  - intros r Hr. apply rget_rset_other. congruence.
  - intros a. apply hword_rset.
Qed.
End Chain.

Print Assumptions rv_store_chain.
